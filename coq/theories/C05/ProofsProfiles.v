(* C05 — the profile half of the ActiveRulesCalculator: invariants over ALL histories and ALL iteration orders.

   I1  profileIDToEndpointKeys = { (p, e) | endpointKeyToProfileIDs[e] contains p }
   I2  the dataplane's view of profile p (fold of the emitted OnProfileActive/Inactive stream) is
         Some (rules of p, or the single-deny stand-in when p is unknown)   if some endpoint references p
         None                                                                 otherwise
   I3  allProfileRules / endpointKeyToProfileIDs are the filtered datastore (invalid write = delete). *)
From Coq Require Import List NArith Bool Lia.
From Verif.Common Require Import Packet PolicyRef Labels.
From Verif.C05 Require Import Model Spec ProofsFilter.
Import ListNotations.
Open Scope N_scope.

(* ------------------------------------------------------------------ equality reflection *)

Lemma list_eqb_eq {A} (f : A -> A -> bool) :
  (forall x y, f x y = true -> x = y) -> forall a b, list_eqb f a b = true -> a = b.
Proof.
  intros Hf. induction a as [|x a IH]; destruct b as [|y b]; simpl; intros H; try discriminate; auto.
  apply andb_true_iff in H. destruct H as [H1 H2]. f_equal; auto.
Qed.

Lemma action_eqb_eq : forall a b, action_eqb a b = true -> a = b.
Proof. destruct a, b; simpl; intros; congruence. Qed.
Lemma optN_eqb_eq : forall a b, optN_eqb a b = true -> a = b.
Proof. destruct a, b; simpl; intros H; try discriminate; auto. apply N.eqb_eq in H. congruence. Qed.
Lemma pairN_eqb_eq : forall a b, pairN_eqb a b = true -> a = b.
Proof.
  intros [a1 a2] [b1 b2]. unfold pairN_eqb. simpl. intros H. apply andb_true_iff in H. destruct H as [H1 H2].
  apply N.eqb_eq in H1. apply N.eqb_eq in H2. congruence.
Qed.
Lemma crule_eqb_eq : forall a b, crule_eqb a b = true -> a = b.
Proof.
  intros [a1 a2 a3 a4] [b1 b2 b3 b4]. unfold crule_eqb. simpl. intros H.
  repeat (apply andb_true_iff in H; destruct H as [H ?]).
  apply action_eqb_eq in H. apply optN_eqb_eq in H2. apply (list_eqb_eq _ pairN_eqb_eq) in H1. apply N.eqb_eq in H0.
  congruence.
Qed.
Lemma prules_eqb_eq : forall a b, prules_eqb a b = true -> a = b.
Proof.
  intros [a1 a2] [b1 b2]. unfold prules_eqb. simpl. intros H. apply andb_true_iff in H. destruct H as [H1 H2].
  apply (list_eqb_eq _ crule_eqb_eq) in H1. apply (list_eqb_eq _ crule_eqb_eq) in H2. congruence.
Qed.

Lemma list_eqb_refl {A} (f : A -> A -> bool) : (forall x, f x x = true) -> forall a, list_eqb f a a = true.
Proof. intros Hf. induction a; simpl; auto. rewrite Hf, IHa. reflexivity. Qed.
Lemma crule_eqb_refl : forall a, crule_eqb a a = true.
Proof.
  intros [a1 a2 a3 a4]. unfold crule_eqb. simpl.
  assert (action_eqb a1 a1 = true) as -> by (destruct a1; reflexivity).
  assert (optN_eqb a2 a2 = true) as -> by (destruct a2; simpl; auto using N.eqb_refl).
  rewrite (list_eqb_refl pairN_eqb) by (intros [x y]; unfold pairN_eqb; simpl; rewrite !N.eqb_refl; reflexivity).
  rewrite N.eqb_refl. reflexivity.
Qed.
Lemma prules_eqb_refl : forall a, prules_eqb a a = true.
Proof. intros [a1 a2]. unfold prules_eqb. simpl. rewrite !(list_eqb_refl crule_eqb crule_eqb_refl). reflexivity. Qed.

(* ------------------------------------------------------------------ amap *)

Lemma aget_adel_same {V} : forall k (m : amap V), aget k (adel k m) = None.
Proof.
  induction m as [|[k' v] m IH]; simpl; auto. destruct (N.eqb k k') eqn:E; auto. simpl. rewrite E. exact IH.
Qed.
Lemma aget_adel_other {V} : forall k k' (m : amap V), k <> k' -> aget k (adel k' m) = aget k m.
Proof.
  induction m as [|[k2 v] m IH]; simpl; intros Hne; auto.
  destruct (N.eqb k' k2) eqn:E.
  - apply N.eqb_eq in E. subst k2. destruct (N.eqb k k') eqn:E2; [apply N.eqb_eq in E2; congruence|]. auto.
  - simpl. destruct (N.eqb k k2); auto.
Qed.
Lemma aget_aset_same {V} : forall k (v : V) m, aget k (aset k v m) = Some v.
Proof. intros. unfold aset. simpl. rewrite N.eqb_refl. reflexivity. Qed.
Lemma aget_aset_other {V} : forall k k' (v : V) m, k <> k' -> aget k (aset k' v m) = aget k m.
Proof.
  intros. unfold aset. simpl. destruct (N.eqb k k') eqn:E; [apply N.eqb_eq in E; congruence|].
  apply aget_adel_other. assumption.
Qed.

Lemma memN_In : forall x l, memN x l = true <-> In x l.
Proof.
  intros. unfold memN. rewrite existsb_exists. split.
  - intros [y [Hy E]]. apply N.eqb_eq in E. subst. assumption.
  - intros H. exists x. split; auto. apply N.eqb_refl.
Qed.
Lemma memN_false : forall x l, memN x l = false <-> ~ In x l.
Proof. intros. rewrite <- memN_In. destruct (memN x l); split; intros; congruence. Qed.
Lemma In_dedupN : forall x l, In x (dedupN l) <-> In x l.
Proof.
  induction l as [|y l IH]; simpl; [tauto|].
  destruct (memN y l) eqn:E.
  - rewrite IH. apply memN_In in E. split; auto. intros [H|H]; subst; auto.
  - simpl. rewrite IH. tauto.
Qed.

(* ------------------------------------------------------------------ multidict (N values) *)

Lemma md_has_key_true {B} : forall k (md : list (N * B)), md_has_key k md = true <-> exists b, In (k, b) md.
Proof.
  intros. unfold md_has_key. rewrite existsb_exists. split.
  - intros [[k' b] [Hin E]]. simpl in E. apply N.eqb_eq in E. subst. eauto.
  - intros [b Hin]. exists (k, b). split; auto. simpl. apply N.eqb_refl.
Qed.

Lemma md_memN_true : forall k e md, md_mem N.eqb k e md = true <-> In (k, e) md.
Proof.
  intros. unfold md_mem. rewrite existsb_exists. split.
  - intros [[k' e'] [Hin E]]. simpl in E. apply andb_true_iff in E. destruct E as [E1 E2].
    apply N.eqb_eq in E1. apply N.eqb_eq in E2. subst. assumption.
  - intros Hin. exists (k, e). split; auto. simpl. rewrite !N.eqb_refl. reflexivity.
Qed.

Lemma In_md_putN : forall k e md k' e', In (k', e') (md_put N.eqb k e md) <-> In (k', e') md \/ (k' = k /\ e' = e).
Proof.
  intros. unfold md_put. destruct (md_mem N.eqb k e md) eqn:E.
  - apply md_memN_true in E. split; auto. intros [H|[H1 H2]]; subst; auto.
  - simpl. split.
    + intros [H|H]; auto. inversion H; subst. auto.
    + intros [H|[H1 H2]]; subst; auto.
Qed.

Lemma In_md_discardN : forall k e md k' e',
  In (k', e') (md_discard N.eqb k e md) <-> In (k', e') md /\ ~ (k' = k /\ e' = e).
Proof.
  intros. unfold md_discard. rewrite filter_In. simpl. split.
  - intros [H1 H2]. split; auto. intros [E1 E2]. subst. rewrite !N.eqb_refl in H2. discriminate.
  - intros [H1 H2]. split; auto. destruct (N.eqb k' k) eqn:E1; auto. destruct (N.eqb e' e) eqn:E2; auto.
    apply N.eqb_eq in E1. apply N.eqb_eq in E2. exfalso. auto.
Qed.

Lemma md_has_key_putN : forall k e md k', md_has_key k' (md_put N.eqb k e md) = N.eqb k' k || md_has_key k' md.
Proof.
  intros. destruct (md_has_key k' (md_put N.eqb k e md)) eqn:E.
  - apply md_has_key_true in E. destruct E as [b Hb]. apply In_md_putN in Hb. destruct Hb as [Hb|[Hb _]].
    + assert (md_has_key k' md = true) as -> by (apply md_has_key_true; eauto). rewrite orb_true_r. reflexivity.
    + subst. rewrite N.eqb_refl. reflexivity.
  - symmetry. apply orb_false_iff. split.
    + destruct (N.eqb k' k) eqn:E2; auto. apply N.eqb_eq in E2. subst.
      assert (md_has_key k (md_put N.eqb k e md) = true); [|congruence].
      apply md_has_key_true. exists e. apply In_md_putN. auto.
    + destruct (md_has_key k' md) eqn:E2; auto. apply md_has_key_true in E2. destruct E2 as [b Hb].
      assert (md_has_key k' (md_put N.eqb k e md) = true); [|congruence].
      apply md_has_key_true. exists b. apply In_md_putN. auto.
Qed.

Lemma md_has_key_discard_otherN : forall k e md k', k' <> k -> md_has_key k' (md_discard N.eqb k e md) = md_has_key k' md.
Proof.
  intros. destruct (md_has_key k' md) eqn:E.
  - apply md_has_key_true in E. destruct E as [b Hb]. apply md_has_key_true. exists b. apply In_md_discardN. split; auto.
    intros [E1 _]. auto.
  - destruct (md_has_key k' (md_discard N.eqb k e md)) eqn:E2; auto.
    apply md_has_key_true in E2. destruct E2 as [b Hb]. apply In_md_discardN in Hb. destruct Hb as [Hb _].
    assert (md_has_key k' md = true); [|congruence]. apply md_has_key_true. eauto.
Qed.

Local Arguments aset {V} k v m : simpl never.
Local Arguments adel {V} k m : simpl never.

(* ------------------------------------------------------------------ view *)

Lemma view_apply_all_app : forall es1 es2 v, view_apply_all v (es1 ++ es2) = view_apply_all (view_apply_all v es1) es2.
Proof. intros. unfold view_apply_all. apply fold_left_app. Qed.

Definition is_prof_ev (e : ev) : bool := match e with EProfActive _ _ | EProfInactive _ => true | _ => false end.
Definition is_pol_ev (e : ev) : bool := match e with EPolActive _ _ | EPolInactive _ => true | _ => false end.

Lemma view_nonprof : forall es v, forallb (fun e => negb (is_prof_ev e)) es = true ->
  v_profs (view_apply_all v es) = v_profs v.
Proof.
  induction es as [|e es IH]; intros v H; simpl in *; auto.
  apply andb_true_iff in H. destruct H as [H1 H2]. unfold view_apply_all in *. simpl. rewrite IH by assumption.
  destruct e; simpl in *; try discriminate; reflexivity.
Qed.
Lemma view_nonpol : forall es v, forallb (fun e => negb (is_pol_ev e)) es = true ->
  v_pols (view_apply_all v es) = v_pols v.
Proof.
  induction es as [|e es IH]; intros v H; simpl in *; auto.
  apply andb_true_iff in H. destruct H as [H1 H2]. unfold view_apply_all in *. simpl. rewrite IH by assumption.
  destruct e; simpl in *; try discriminate; reflexivity.
Qed.

(* ------------------------------------------------------------------ the invariants *)

Definition resolve (profs : amap prules) (p : N) : prules :=
  match aget p profs with Some r => r | None => dummy_drop end.

Definition I1 (s : st) : Prop :=
  forall p e, In (p, e) (s_p2e s) <-> exists ids, aget e (s_epp s) = Some ids /\ In p ids.

Definition I2 (s : st) (v : view) : Prop :=
  forall p, aget p (v_profs v) = if md_has_key p (s_p2e s) then Some (resolve (s_profs s) p) else None.

(* ------------------------------------------------------------------ add_loop / rem_loop *)

Lemma add_loop_spec : forall ids s e s' evs v,
  add_loop s e ids = (s', evs) -> I2 s v ->
  I2 s' (view_apply_all v evs)
  /\ s_profs s' = s_profs s /\ s_epp s' = s_epp s /\ s_pols s' = s_pols s /\ s_tiers s' = s_tiers s
  /\ s_k2e s' = s_k2e s /\ s_items s' = s_items s /\ s_sels s' = s_sels s /\ s_lm s' = s_lm s
  /\ (forall p' e', In (p', e') (s_p2e s') <-> In (p', e') (s_p2e s) \/ (e' = e /\ In p' ids))
  /\ forallb (fun x => negb (is_pol_ev x)) evs = true.
Proof.
  induction ids as [|p ids IH]; intros s e s' evs v H HI; simpl in H.
  - inversion H; subst. simpl. repeat split; auto; try tauto.
  - set (s1 := set_p2e s (md_put N.eqb p e (s_p2e s))) in *.
    destruct (add_loop s1 e ids) as [s2 evs2] eqn:E. inversion H; subst s' evs. clear H.
    set (ev1 := if md_has_key p (s_p2e s) then [] else [send_profile_update s1 p (aget p (s_profs s1))]).
    assert (HI1 : I2 s1 (view_apply_all v ev1)).
    { intros q. unfold s1. simpl. rewrite md_has_key_putN. unfold ev1.
      destruct (md_has_key p (s_p2e s)) eqn:Ewas.
      - simpl. rewrite HI. destruct (N.eqb q p) eqn:Eq; simpl; auto. apply N.eqb_eq in Eq. subst. rewrite Ewas. reflexivity.
      - unfold send_profile_update, s1. cbn [s_p2e set_p2e s_profs]. rewrite md_has_key_putN, N.eqb_refl.
        cbn [orb view_apply_all fold_left view_apply v_profs].
        destruct (N.eqb q p) eqn:Eq.
        + apply N.eqb_eq in Eq. subst. cbn [orb]. rewrite aget_aset_same. reflexivity.
        + cbn [orb]. apply N.eqb_neq in Eq. rewrite aget_aset_other by assumption. apply HI. }
    destruct (IH s1 e s2 evs2 _ E HI1) as (A & B & C & D & F & G & H1 & H2 & H3 & H4 & H5).
    rewrite view_apply_all_app. repeat split; auto.
    + intros Hin. apply H4 in Hin. unfold s1 in Hin. simpl in Hin. rewrite In_md_putN in Hin. simpl. intuition (subst; auto).
    + intros Hin. apply H4. unfold s1. simpl. rewrite In_md_putN. simpl in Hin. intuition (subst; auto).
    + rewrite forallb_app. rewrite H5. unfold ev1. destruct (md_has_key p (s_p2e s)); simpl; auto.
      unfold send_profile_update. destruct (md_has_key p (s_p2e s1)); reflexivity.
Qed.

Lemma rem_loop_spec : forall ids s e s' evs v,
  rem_loop s e ids = (s', evs) -> I2 s v ->
  I2 s' (view_apply_all v evs)
  /\ s_profs s' = s_profs s /\ s_epp s' = s_epp s /\ s_pols s' = s_pols s /\ s_tiers s' = s_tiers s
  /\ s_k2e s' = s_k2e s /\ s_items s' = s_items s /\ s_sels s' = s_sels s /\ s_lm s' = s_lm s
  /\ (forall p' e', In (p', e') (s_p2e s') <-> In (p', e') (s_p2e s) /\ ~ (e' = e /\ In p' ids))
  /\ forallb (fun x => negb (is_pol_ev x)) evs = true.
Proof.
  induction ids as [|p ids IH]; intros s e s' evs v H HI; simpl in H.
  - inversion H; subst. simpl. repeat split; auto; try tauto.
  - set (s1 := set_p2e s (md_discard N.eqb p e (s_p2e s))) in *.
    destruct (rem_loop s1 e ids) as [s2 evs2] eqn:E. inversion H; subst s' evs. clear H.
    set (ev1 := if md_has_key p (s_p2e s1) then [] else [send_profile_update s1 p (aget p (s_profs s1))]).
    assert (HI1 : I2 s1 (view_apply_all v ev1)).
    { intros q. unfold ev1.
      destruct (N.eqb q p) eqn:Eq.
      - apply N.eqb_eq in Eq. subst q.
        destruct (md_has_key p (s_p2e s1)) eqn:Enow.
        + simpl. rewrite HI.
          assert (md_has_key p (s_p2e s) = true) as ->.
          { apply md_has_key_true in Enow. destruct Enow as [b Hb]. unfold s1 in Hb. simpl in Hb.
            apply In_md_discardN in Hb. apply md_has_key_true. exists b. tauto. }
          reflexivity.
        + unfold send_profile_update. rewrite Enow. cbn [view_apply_all fold_left view_apply v_profs]. apply aget_adel_same.
      - apply N.eqb_neq in Eq.
        assert (Hk : md_has_key q (s_p2e s1) = md_has_key q (s_p2e s)).
        { unfold s1. simpl. apply md_has_key_discard_otherN. assumption. }
        rewrite Hk. destruct (md_has_key p (s_p2e s1)) eqn:Enow.
        + simpl. apply HI.
        + unfold send_profile_update. rewrite Enow. cbn [view_apply_all fold_left view_apply v_profs].
          rewrite aget_adel_other by assumption. apply HI. }
    assert (Hev1 : forallb (fun x => negb (is_pol_ev x)) ev1 = true).
    { unfold ev1. destruct (md_has_key p (s_p2e s1)) eqn:Ek; [reflexivity|].
      unfold send_profile_update. rewrite Ek. reflexivity. }
    destruct (IH s1 e s2 evs2 _ E HI1) as (A & B & C & D & F & G & H1 & H2 & H3 & H4 & H5).
    rewrite view_apply_all_app. repeat split; auto.
    + apply H4 in H. unfold s1 in H. simpl in H. rewrite In_md_discardN in H. tauto.
    + apply H4 in H. unfold s1 in H. simpl in H. rewrite In_md_discardN in H. simpl. intros [E1 [E2|E2]]; subst; tauto.
    + intros [Hin Hn]. apply H4. unfold s1. simpl. rewrite In_md_discardN. simpl in Hn. split; [split|]; auto.
      * intros [E1 E2]. subst. apply Hn. auto.
      * intros [E1 E2]. apply Hn. auto.
    + rewrite forallb_app. rewrite H5, andb_true_r. exact Hev1.
Qed.

(* ------------------------------------------------------------------ added / removed id sets *)

Lemma In_reorder : forall ord l x, In x (reorder ord l) <-> In x l.
Proof.
  intros. unfold reorder. rewrite in_app_iff, !filter_In, In_dedupN. rewrite memN_In.
  split.
  - intros [[_ H]|[H _]]; auto.
  - intros H. destruct (memN x ord) eqn:E.
    + left. split; auto. apply memN_In. assumption.
    + right. split; auto.
Qed.

Lemma In_ids_removed : forall old new x, In x (ids_removed old new) <-> In x old /\ ~ In x new.
Proof.
  intros. unfold ids_removed. rewrite In_dedupN, filter_In. rewrite negb_true_iff, memN_false. tauto.
Qed.

Lemma ids_added_loop_sub : forall new rem x, In x (ids_added_loop rem new) -> In x new.
Proof.
  induction new as [|y new IH]; simpl; intros rem x H; auto.
  destruct (memN y rem).
  - right. eapply IH. eassumption.
  - destruct H as [H|H]; auto. right. eapply IH. eassumption.
Qed.

Lemma ids_added_loop_new : forall new rem x, In x new -> ~ In x rem -> In x (ids_added_loop rem new).
Proof.
  induction new as [|y new IH]; simpl; intros rem x H Hn; [tauto|].
  destruct (memN y rem) eqn:E.
  - apply memN_In in E. destruct H as [H|H]; [subst; contradiction|].
    apply IH; auto. rewrite filter_In. tauto.
  - destruct H as [H|H]; [left; auto|right; apply IH; auto].
Qed.

Lemma In_ids_added_sub : forall old new x, In x (ids_added old new) -> In x new.
Proof. intros old new x H. unfold ids_added in H. rewrite In_dedupN in H. eapply ids_added_loop_sub. exact H. Qed.
Lemma In_ids_added_new : forall old new x, In x new -> ~ In x old -> In x (ids_added old new).
Proof.
  intros. unfold ids_added. apply In_dedupN. apply ids_added_loop_new; auto. rewrite In_dedupN. assumption.
Qed.

(* ------------------------------------------------------------------ updateEndpointProfileIDs *)

Definition new_epp (s : st) (e : N) (ids : list N) : amap (list N) :=
  match ids with [] => adel e (s_epp s) | _ => aset e ids (s_epp s) end.

Lemma aget_new_epp_same : forall s e ids, aget e (new_epp s e ids) = match ids with [] => None | _ => Some ids end.
Proof. intros. unfold new_epp. destruct ids; [apply aget_adel_same|apply aget_aset_same]. Qed.
Lemma aget_new_epp_other : forall s e ids e', e' <> e -> aget e' (new_epp s e ids) = aget e' (s_epp s).
Proof. intros. unfold new_epp. destruct ids; [apply aget_adel_other|apply aget_aset_other]; assumption. Qed.

Lemma update_ep_profile_ids_spec : forall s e ids ord s' evs v,
  update_ep_profile_ids s e ids ord = (s', evs) -> I1 s -> I2 s v ->
  I1 s' /\ I2 s' (view_apply_all v evs)
  /\ s_profs s' = s_profs s /\ s_epp s' = new_epp s e ids /\ s_pols s' = s_pols s /\ s_tiers s' = s_tiers s
  /\ s_k2e s' = s_k2e s /\ s_items s' = s_items s /\ s_sels s' = s_sels s /\ s_lm s' = s_lm s
  /\ forallb (fun x => negb (is_pol_ev x)) evs = true.
Proof.
  intros s e ids ord s' evs v H H1 H2. unfold update_ep_profile_ids in H.
  set (old := match aget e (s_epp s) with Some l => l | None => [] end) in *.
  fold (new_epp s e ids) in H.
  set (s0 := set_epp s (new_epp s e ids)) in *.
  destruct (add_loop s0 e (reorder ord (ids_added old ids))) as [s1 ev1] eqn:Ea.
  destruct (rem_loop s1 e (reorder ord (ids_removed old ids))) as [s2 ev2] eqn:Er.
  inversion H; subst s' evs. clear H.
  assert (H20 : I2 s0 v) by (intros q; apply H2).
  destruct (add_loop_spec _ _ _ _ _ _ Ea H20) as (A1 & A2 & A3 & A4 & A5 & A6 & A7 & A8 & A9 & A10 & A11).
  destruct (rem_loop_spec _ _ _ _ _ _ Er A1) as (B1 & B2 & B3 & B4 & B5 & B6 & B7 & B8 & B9 & B10 & B11).
  rewrite view_apply_all_app. unfold I1 in H1 |- *.
  split; [|split; [exact B1|repeat split; try (etransitivity; [eassumption|etransitivity; [eassumption|reflexivity]])]].
  - (* I1 *)
    intros p e'. rewrite B10, A10, B3, A3. unfold s0. simpl.
    rewrite !In_reorder, In_ids_removed.
    assert (Hold : forall q, In q old <-> In (q, e) (s_p2e s)).
    { intros q. rewrite H1. unfold old. destruct (aget e (s_epp s)) as [l|].
      - split; [eauto|]. intros [ids' [E Hin]]. inversion E; subst. assumption.
      - split; [contradiction|]. intros [ids' [E _]]. discriminate. }
    destruct (N.eq_dec e' e) as [->|Hne].
    + rewrite aget_new_epp_same.
      split.
      * intros [[Hin|[_ Hin]] Hn].
        -- apply Hold in Hin. destruct (in_dec N.eq_dec p ids) as [Hi|Hi].
           ++ exists ids. destruct ids; [contradiction|]. auto.
           ++ exfalso. apply Hn. auto.
        -- apply In_ids_added_sub in Hin. exists ids. destruct ids; [contradiction|]. auto.
      * intros [ids' [E Hin]]. assert (ids' = ids) by (destruct ids; inversion E; auto). subst ids'.
        split; [|intros [_ [_ Hn]]; contradiction].
        destruct (in_dec N.eq_dec p old) as [Ho|Ho].
        -- left. apply Hold. assumption.
        -- right. split; auto. apply In_ids_added_new; assumption.
    + rewrite aget_new_epp_other by assumption. rewrite H1. split.
      * intros [[Hin|[E _]] _]; [assumption|contradiction].
      * intros Hin. split; [auto|]. intros [E _]. contradiction.
  - rewrite forallb_app, A11, B11. reflexivity.
Qed.
