(* C05 — sync status: a status message changes nothing in the dataplane, the deny stand-in is there before, across
   and after the first InSync, and the end-of-resync warning names exactly the dangling profile references. *)
From Coq Require Import List NArith Bool Lia.
From Verif.Common Require Import Packet PolicyRef Labels.
From Verif.C05 Require Import Model Spec ModelSync SpecSync ProofsFilter ProofsProfiles ProofsStep ProofsVerdict ProofsMain ProofsOracle ProofsPolicies ProofsIndex.
Import ListNotations.
Open Scope N_scope.

Local Arguments aset {V} k v m : simpl never.
Local Arguments adel {V} k m : simpl never.

(* ------------------------------------------------------------------ the stream ignores status messages *)

Section Sync.
  Variable validate : value -> bool.

  Definition sevents (outs : list (list ev * list N)) : list (list ev) := map fst outs.

  Lemma sstep_status_silent : forall ss t, fst (snd (sstep validate ss (SStat t))) = [] /\ ss_st (fst (sstep validate ss (SStat t))) = ss_st ss.
  Proof. intros ss [| |]; simpl; auto. destruct (ss_insync ss); simpl; auto. Qed.

  Lemma srun_stream : forall h ss,
    concat (sevents (srun validate ss h)) = concat (run validate (ss_st ss) (updates_of h))
    /\ ss_st (sfinal validate ss h) = final validate (ss_st ss) (updates_of h).
  Proof.
    induction h as [|[i|t] h IH]; intros ss; [split; reflexivity| |].
    - simpl. destruct (step validate (ss_st ss) i) as [s' evs] eqn:E. simpl.
      destruct (IH {| ss_st := s'; ss_insync := ss_insync ss;
                      ss_missing := fold_left (miss_ev (ss_insync ss) (s_profs s')) evs (ss_missing ss) |}) as [A B].
      simpl in A, B. rewrite A, B. split; reflexivity.
    - destruct (sstep_status_silent ss t) as [A B].
      cbn [srun sfinal updates_of flat_map app]. destruct (sstep validate ss (SStat t)) as [ss' [evs w]] eqn:E.
      simpl in A, B. subst evs. cbn [sevents map fst concat app]. rewrite <- B. apply IH.
  Qed.

  Definition sview (h : list sinput) : view := view_apply_all view0 (concat (sevents (srun validate sst0 h))).

  Lemma sview_eq : forall h, sview h = view_of (run validate st0 (updates_of h)).
  Proof. intros. unfold sview, view_of. destruct (srun_stream h sst0) as [A _]. simpl in A. rewrite A. reflexivity. Qed.

  (* ALWAYS: after every history with status messages anywhere in it (so: before the first InSync, right after
     it, after repeated ones), whatever initialSyncCompleted is, a referenced profile the filtered datastore lacks is the
     deny stand-in, and one it has carries its own rules. *)
  Theorem profiles_fail_closed_always : forall h e ep p,
    let d := ds_of validate ds0 (updates_of h) in
    aget e (d_eps d) = Some ep -> In p (ep_profiles ep) ->
    aget p (v_profs (sview h)) = Some (expected_profile d p).
  Proof. intros. rewrite sview_eq. eapply profiles_fail_closed; eassumption. Qed.

  Theorem missing_profile_denies_always : forall h e ep p (insync : bool),
    let d := ds_of validate ds0 (updates_of h) in
    ss_insync (sfinal validate sst0 h) = insync ->
    aget e (d_eps d) = Some ep -> In p (ep_profiles ep) -> aget p (d_profs d) = None ->
    aget p (v_profs (sview h)) = Some dummy_drop
    /\ pr_in dummy_drop = [deny_rule] /\ pr_out dummy_drop = [deny_rule] /\ cr_action deny_rule = Deny.
  Proof.
    intros h e ep p insync d _ He Hp Hn. repeat split.
    rewrite (profiles_fail_closed_always h e ep p He Hp). unfold expected_profile. fold d. rewrite Hn. reflexivity.
  Qed.

  (* ------------------------------------------------------------------ missingProfiles *)

  Definition Mx (m : list N) (v : view) (profs : amap prules) : Prop :=
    forall p, In p m <-> (aget p (v_profs v) <> None /\ aget p profs = None).

  Definition prof_ev_for (p : N) (e : ev) : Prop :=
    match e with EProfActive q _ => q = p | EProfInactive q => q = p | _ => False end.

  Lemma In_discardN : forall p q m, In p (discardN q m) <-> In p m /\ p <> q.
  Proof.
    intros. unfold discardN. rewrite filter_In, negb_true_iff, N.eqb_neq. tauto.
  Qed.

  Lemma unknown_iff : forall profs p, unknown profs p = true <-> aget p profs = None.
  Proof. intros. unfold unknown. destruct (aget p profs); split; intros; congruence. Qed.

  Lemma fold_miss : forall profs' evs m v (G : N -> Prop),
    (forall p, G p -> (In p m <-> aget p (v_profs v) <> None /\ aget p profs' = None)) ->
    forall p, (G p \/ Exists (prof_ev_for p) evs) ->
      (In p (fold_left (miss_ev false profs') evs m) <->
       aget p (v_profs (view_apply_all v evs)) <> None /\ aget p profs' = None).
  Proof.
    induction evs as [|e evs IH]; intros m v G HG p Hp.
    - simpl. destruct Hp as [Hp|Hp]; [apply HG; assumption|inversion Hp].
    - cbn [fold_left view_apply_all]. fold (view_apply_all (view_apply v e) evs).
      apply (IH (miss_ev false profs' m e) (view_apply v e) (fun q => G q \/ prof_ev_for q e)).
      + intros q Hq. destruct e; cbn [miss_ev view_apply v_profs prof_ev_for negb andb] in *;
          try (destruct Hq as [Hq|[]]; apply HG; assumption).
        * (* EProfActive p0 r *)
          destruct (N.eq_dec q p0) as [->|Hne].
          -- rewrite aget_aset_same. destruct (unknown profs' p0) eqn:Eu.
             ++ simpl. split; [intros _; split; [discriminate|apply unknown_iff; assumption]|auto].
             ++ split.
                ** intros Hin. apply In_discardN in Hin. destruct Hin as [_ Hin]. congruence.
                ** intros [_ Hn]. apply unknown_iff in Hn. congruence.
          -- rewrite aget_aset_other by assumption. destruct Hq as [Hq|Hq]; [|congruence].
             rewrite <- (HG q Hq). destruct (unknown profs' p0); simpl; rewrite In_discardN; intuition congruence.
        * (* EProfInactive p0 *)
          destruct (N.eq_dec q p0) as [->|Hne].
          -- rewrite aget_adel_same, In_discardN. intuition congruence.
          -- rewrite aget_adel_other by assumption. destruct Hq as [Hq|Hq]; [|congruence].
             rewrite <- (HG q Hq), In_discardN. intuition congruence.
      + destruct Hp as [Hp|Hp]; [left; left; assumption|].
        inversion Hp; subst; [left; right; assumption|right; assumption].
  Qed.

  Lemma fold_miss_insync : forall profs' evs, fold_left (miss_ev true profs') evs [] = [].
  Proof. induction evs as [|e evs IH]; simpl; auto. destruct e; simpl; auto. Qed.

  (* a profile whose cached rules change while it is in the dataplane is re-sent in the same update *)
  Lemma arc_update_resend : forall s i s' evs v d p,
    arc_update s i = (s', evs) -> Inv s v d ->
    aget p (s_profs s') = aget p (s_profs s) \/ aget p (v_profs v) = None \/ Exists (prof_ev_for p) evs.
  Proof.
    intros s i s' evs v d p H HI.
    pose proof (arc_update_Inv _ _ _ _ _ _ H HI) as HI'.
    destruct HI as (I1h & I2h & [R1 R2]). destruct HI' as (_ & _ & [R1' _]).
    destruct (i_key i) as [q|q|q|q] eqn:Ek;
      try (left; rewrite R1, R1'; apply ds_apply_other_profile; congruence).
    destruct (N.eq_dec q p) as [->|Hne];
      [|left; rewrite R1, R1'; apply ds_apply_other_profile; congruence].
    destruct (aget p (v_profs v)) as [r0|] eqn:Ev; [|right; left; reflexivity].
    assert (Hact : md_has_key p (s_p2e s) = true).
    { specialize (I2h p). rewrite Ev in I2h. destruct (md_has_key p (s_p2e s)); [reflexivity|discriminate]. }
    unfold arc_update in H. rewrite Ek in H.
    destruct (i_val i) as [[r|?|?|?]|]; try (inversion H; subst; left; reflexivity).
    - assert (Hgen : (set_profs s (aset p r (s_profs s)),
                      (if md_has_key p (s_p2e (set_profs s (aset p r (s_profs s))))
                       then [send_profile_update (set_profs s (aset p r (s_profs s))) p (Some r)] else [])
                      ++ [stats (set_profs s (aset p r (s_profs s)))]) = (s', evs) ->
                     Exists (prof_ev_for p) evs).
      { intros Heq. inversion Heq; subst. cbn [s_p2e set_profs]. rewrite Hact. unfold send_profile_update.
        cbn [s_p2e set_profs]. rewrite Hact. constructor. reflexivity. }
      destruct (aget p (s_profs s)) as [old|] eqn:Eo.
      + destruct (prules_eqb old r) eqn:Eq.
        * inversion H; subst. left. first [reflexivity|assumption|symmetry; assumption].
        * right. right. apply Hgen. exact H.
      + right. right. apply Hgen. exact H.
    - inversion H; subst. right. right. cbn [s_p2e set_profs]. rewrite Hact. unfold send_profile_update.
      cbn [s_p2e set_profs]. rewrite Hact. constructor. reflexivity.
  Qed.

  Definition SInv (ss : sst) (v : view) (d : ds) : Prop :=
    Inv (ss_st ss) v d /\
    (if ss_insync ss then ss_missing ss = [] else Mx (ss_missing ss) v (s_profs (ss_st ss))).

  Lemma SInv0 : SInv sst0 view0 ds0.
  Proof. split; [apply Inv0|]. simpl. intros p. simpl. split; [contradiction|intros [H _]; congruence]. Qed.

  Lemma sstep_SInv : forall ss si ss' evs w v d,
    sstep validate ss si = (ss', (evs, w)) -> SInv ss v d ->
    SInv ss' (view_apply_all v evs)
         (match si with SUpd i => ds_apply d (i_key i) (vf_filter validate (i_val i)) | SStat _ => d end).
  Proof.
    intros ss [i|t] ss' evs w v d H [HI HM].
    - simpl in H. destruct (step validate (ss_st ss) i) as [s' evs'] eqn:E. inversion H; subst. clear H.
      pose proof (step_Inv validate _ _ _ _ _ _ E HI) as HI'. split; [exact HI'|]. cbn [ss_insync ss_missing ss_st].
      destruct (ss_insync ss).
      + rewrite HM. apply fold_miss_insync.
      + intros p. unfold step in E.
        apply (fold_miss (s_profs s') evs (ss_missing ss) v
                 (fun q => aget q (s_profs s') = aget q (s_profs (ss_st ss)) \/ aget q (v_profs v) = None)).
        * intros q [Hq|Hq].
          -- rewrite Hq. apply HM.
          -- rewrite Hq. split; [|intros [Hx _]; congruence]. intros Hin. apply HM in Hin. destruct Hin as [Hx _]. congruence.
        * destruct (arc_update_resend _ _ _ _ _ _ p E HI) as [A|[A|A]]; auto.
    - destruct t; simpl in H; try (inversion H; subst; split; assumption).
      destruct (ss_insync ss) eqn:Es; inversion H; subst; split; simpl; auto. rewrite Es. assumption.
  Qed.

  Lemma srun_SInv : forall h ss v d, SInv ss v d ->
    SInv (sfinal validate ss h) (view_apply_all v (concat (sevents (srun validate ss h))))
         (ds_of validate d (updates_of h)).
  Proof.
    induction h as [|si h IH]; intros ss v d HS; [exact HS|].
    cbn [sfinal srun]. destruct (sstep validate ss si) as [ss' [evs w]] eqn:E. cbn [fst sevents map concat].
    rewrite view_apply_all_app. pose proof (sstep_SInv _ _ _ _ _ _ _ E HS) as HS'.
    destruct si as [i|t]; simpl updates_of; [cbn [ds_of app]|]; apply IH; exact HS'.
  Qed.

  Lemma In_dangling : forall d p, ukeys (d_eps d) ->
    (In p (dangling d) <-> (exists e ep, aget e (d_eps d) = Some ep /\ In p (ep_profiles ep)) /\ aget p (d_profs d) = None).
  Proof.
    intros d p Hu. unfold dangling. rewrite filter_In, in_flat_map, unknown_iff. split.
    - intros [[[e ep] [Hin Hp]] Hn]. split; auto. exists e, ep. split; auto. apply ukeys_aget; assumption.
    - intros [[e [ep [He Hp]]] Hn]. split; auto. exists (e, ep). split; auto. apply aget_In; assumption.
  Qed.

  (* before the first InSync, missingProfiles is exactly the set of dangling profile references of the filtered
     datastore; afterwards it is empty *)
  Theorem missing_is_dangling : forall h p,
    ss_insync (sfinal validate sst0 h) = false ->
    (In p (ss_missing (sfinal validate sst0 h)) <-> In p (dangling (ds_of validate ds0 (updates_of h)))).
  Proof.
    intros h p Hs. destruct (srun_SInv h sst0 view0 ds0 SInv0) as [(I1h & I2h & [R1 R2]) HM].
    rewrite Hs in HM. set (ss := sfinal validate sst0 h) in *. set (d := ds_of validate ds0 (updates_of h)) in *.
    assert (Hu : ukeys (d_eps d)) by (apply ds_of_ukeys_eps; constructor).
    rewrite (HM p), (In_dangling d p Hu), R1. specialize (I2h p).
    split; intros [A B]; split; auto.
    - destruct (md_has_key p (s_p2e (ss_st ss))) eqn:Ek; [|rewrite I2h in A; congruence].
      apply md_has_key_true in Ek. destruct Ek as [e He]. apply I1h in He. destruct He as [ids [Hids Hin]].
      rewrite R2 in Hids. destruct (aget e (d_eps d)) as [ep|] eqn:Eep; [|discriminate].
      exists e, ep. split; auto. unfold ep_ids in Hids. destruct (ep_profiles ep); [discriminate|]. inversion Hids; subst. assumption.
    - destruct A as [e [ep [He Hp]]].
      assert (Hk : md_has_key p (s_p2e (ss_st ss)) = true).
      { apply md_has_key_true. exists e. apply I1h. exists (ep_profiles ep). split; auto.
        rewrite R2, He. unfold ep_ids. destruct (ep_profiles ep); [contradiction|reflexivity]. }
      rewrite I2h, Hk. discriminate.
  Qed.

  Theorem missing_empty_after_insync : forall h,
    ss_insync (sfinal validate sst0 h) = true -> ss_missing (sfinal validate sst0 h) = [].
  Proof. intros h Hs. destruct (srun_SInv h sst0 view0 ds0 SInv0) as [_ HM]. rewrite Hs in HM. exact HM. Qed.

  (* the end-of-resync warning: the first InSync after any history names exactly the dangling references, emits
     nothing and leaves the calculator's caches alone; any other status message does nothing at all *)
  Theorem resync_warning_exact : forall h,
    ss_insync (sfinal validate sst0 h) = false ->
    let out := sstep validate (sfinal validate sst0 h) (SStat StInSync) in
    fst (snd out) = [] /\ ss_st (fst out) = ss_st (sfinal validate sst0 h) /\ ss_insync (fst out) = true
    /\ forall p, In p (snd (snd out)) <-> In p (dangling (ds_of validate ds0 (updates_of h))).
  Proof.
    intros h Hs. simpl. rewrite Hs. simpl. repeat split; auto; apply missing_is_dangling; assumption.
  Qed.
End Sync.
