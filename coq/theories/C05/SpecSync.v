(* C05 — specification and oracle for traces that contain sync-status messages (added beside Spec.v).
   Property: a missing / invalid referenced profile is the deny stand-in at EVERY point of EVERY history - before the
   first InSync, across it and after it; a status message changes nothing in the dataplane.  Secondary observable:
   the end-of-resync warning names exactly the dangling profile references of the filtered datastore. *)
From Coq Require Import List NArith Bool.
From Verif.Common Require Import Packet PolicyRef Labels.
From Verif.C05 Require Import Model Spec ModelSync.
Import ListNotations.
Open Scope N_scope.

(* a trace item: an update (as in Spec.oop) or a status message with what it made the implementation do *)
Inductive sitem := IOp (o : oop) | IStat (t : status) (evs : list ev) (warned : list N).
Record scase := { sc_graph : bool; sc_sizes : list nat; sc_items : list sitem }.

Definition ops_of (items : list sitem) : list oop :=
  flat_map (fun it => match it with IOp o => [o] | IStat _ _ _ => [] end) items.

(* profile ids named by an endpoint of d for which d has no (valid) profile *)
Definition dangling (d : ds) : list N :=
  filter (fun p => unknown (d_profs d) p) (flat_map (fun eep : N * endpoint => ep_profiles (snd eep)) (d_eps d)).

Definition subsetN (a b : list N) : bool := forallb (fun x => memN x b) a.
Definition seteqN (a b : list N) : bool := subsetN a b && subsetN b a.

Definition is_prof_or_pol_ev (e : ev) : bool :=
  match e with EProfActive _ _ | EProfInactive _ | EPolActive _ _ | EPolInactive _ => true | _ => false end.

Fixpoint sok_trace (graph insync : bool) (d : ds) (v : view) (items : list sitem) : bool :=
  match items with
  | [] => true
  | IOp o :: rest =>
      let d' := ds_apply d (o_key o) (filtered o) in
      let v' := view_apply_all v (o_evs o) in
      ok_filter o && no_panic (o_evs o) && ok_profiles d' v' && (graph || ok_policies d' v')
      && sok_trace graph insync d' v' rest
  | IStat t evs warned :: rest =>
      let v' := view_apply_all v evs in
      let first := match t with StInSync => negb insync | _ => false end in
      (* a status message programs nothing ... *)
      negb (existsb is_prof_or_pol_ev evs) && no_panic evs
      (* ... whatever it does, the dataplane must still fail closed ... *)
      && ok_profiles d v' && (graph || ok_policies d v')
      (* ... and the end-of-resync warning names exactly the dangling references *)
      && (if first then seteqN warned (dangling d) else match warned with [] => true | _ => false end)
      && sok_trace graph (insync || first) d v' rest
  end.

Definition sok_case (c : scase) : bool := sok_trace (sc_graph c) false ds0 view0 (sc_items c).

(* model vs implementation on the status items (the update items are compared by Spec.agree / agree_batches / agree_g
   on ops_of: the sync status has no influence on them) *)
Fixpoint sagree (ss : sst) (items : list sitem) : bool :=
  match items with
  | [] => true
  | IOp o :: rest =>
      let '(ss', _) := sstep (fun _ => o_valid o) ss (SUpd (input_of o)) in sagree ss' rest
  | IStat t evs warned :: rest =>
      let '(ss', (mevs, mwarned)) := sstep (fun _ => true) ss (SStat t) in
      list_eqb ev_eqb mevs (filter is_prof_or_pol_ev evs) && seteqN mwarned warned && sagree ss' rest
  end.

Definition check_scase (c : scase) : bool * bool :=
  (fst (check_case {| c_graph := sc_graph c; c_sizes := sc_sizes c; c_ops := ops_of (sc_items c) |})
   && sagree sst0 (sc_items c),
   sok_case c).

Definition IO := IOp.
