(* C05 — the label index model: whatever callback order the schedule prescribes (wrong / partial / duplicated
   entries included) the match set after an index operation is exactly "selector evaluates to true". *)
From Coq Require Import List NArith Bool Lia.
From Verif.Common Require Import Packet PolicyRef Labels.
From Verif.C05 Require Import Model Spec ProofsFilter ProofsProfiles ProofsStep ProofsVerdict ProofsMain ProofsOracle ProofsPolicies.
Import ListNotations.
Open Scope N_scope.

Local Arguments aset {V} k v m : simpl never.
Local Arguments adel {V} k m : simpl never.

Lemma mev_eqb_eq : forall a b, mev_eqb a b = true <-> a = b.
Proof.
  intros [[a1 a2] a3] [[b1 b2] b3]. unfold mev_eqb. simpl. split.
  - intros H. apply andb_true_iff in H. destruct H as [H H3]. apply andb_true_iff in H. destruct H as [H1 H2].
    apply Bool.eqb_prop in H1. apply N.eqb_eq in H2. apply N.eqb_eq in H3. congruence.
  - intros H. inversion H; subst. rewrite Bool.eqb_reflx, !N.eqb_refl. reflexivity.
Qed.

Lemma existsb_mev : forall m l, existsb (mev_eqb m) l = true <-> In m l.
Proof.
  intros. rewrite existsb_exists. split.
  - intros [x [Hx E]]. apply mev_eqb_eq in E. subst. assumption.
  - intros H. exists m. split; auto. apply mev_eqb_eq. reflexivity.
Qed.

Lemma In_order_mevs : forall sched exp m, In m (order_mevs sched exp) <-> In m exp.
Proof.
  intros. unfold order_mevs. rewrite in_app_iff, !filter_In. rewrite existsb_mev. split.
  - intros [[_ H]|[H _]]; assumption.
  - intros H. destruct (existsb (mev_eqb m) sched) eqn:E.
    + left. split; auto. apply existsb_mev. assumption.
    + right. split; auto.
Qed.

(* no pair is both started and stopped *)
Definition nb (ms : list mev) : Prop := forall k e, ~ (In (true, k, e) ms /\ In (false, k, e) ms).

Lemma nb_tail : forall m ms, nb (m :: ms) -> nb ms.
Proof. intros m ms H k e [A B]. apply (H k e). split; right; assumption. Qed.

Lemma fold_apply_mev_In : forall ms lm, nb ms -> forall k e,
  In (k, e) (fold_left apply_mev ms lm) <-> (In (k, e) lm /\ ~ In (false, k, e) ms) \/ In (true, k, e) ms.
Proof.
  induction ms as [|[[b k0] e0] ms IH]; intros lm Hnb k e.
  - simpl. tauto.
  - simpl fold_left. rewrite (IH _ (nb_tail _ _ Hnb)). unfold apply_mev.
    destruct b.
    + rewrite (In_md_put N.eqb Neqb_eq'). simpl In.
      destruct (N.eq_dec k k0) as [->|Hk]; [destruct (N.eq_dec e e0) as [->|He]|].
      * (* the pair itself *)
        split; [intros _; right; left; reflexivity|]. intros _. left. split; [right; auto|].
        intros Hf. apply (Hnb k0 e0). split; [left; reflexivity|right; assumption].
      * split.
        -- intros [[[H|[_ H]] Hn]|H]; [left; split; auto; intros [Hx|Hx]; [inversion Hx|auto]|congruence|right; right; assumption].
        -- intros [[H Hn]|[Hx|H]]; [left; split; auto|inversion Hx; congruence|right; assumption].
      * split.
        -- intros [[[H|[H _]] Hn]|H]; [left; split; auto; intros [Hx|Hx]; [inversion Hx|auto]|congruence|right; right; assumption].
        -- intros [[H Hn]|[Hx|H]]; [left; split; auto|inversion Hx; congruence|right; assumption].
    + rewrite (In_md_discard N.eqb Neqb_eq'). simpl In.
      destruct (N.eq_dec k k0) as [->|Hk]; [destruct (N.eq_dec e e0) as [->|He]|].
      * split.
        -- intros [[[_ Hn] _]|H]; [exfalso; apply Hn; auto|].
           exfalso. apply (Hnb k0 e0). split; [right; assumption|left; reflexivity].
        -- intros [[_ Hn]|[Hx|H]]; [exfalso; apply Hn; left; reflexivity|inversion Hx|].
           exfalso. apply (Hnb k0 e0). split; [right; assumption|left; reflexivity].
      * split.
        -- intros [[[H _] Hn]|H]; [left; split; auto; intros [Hx|Hx]; [inversion Hx; congruence|auto]|right; right; assumption].
        -- intros [[H Hn]|[Hx|H]]; [left; split; [split; auto; intros [_ Hx]; congruence|auto]|inversion Hx|right; assumption].
      * split.
        -- intros [[[H _] Hn]|H]; [left; split; auto; intros [Hx|Hx]; [inversion Hx; congruence|auto]|right; right; assumption].
        -- intros [[H Hn]|[Hx|H]]; [left; split; [split; auto; intros [Hx _]; congruence|auto]|inversion Hx|right; assumption].
Qed.

Lemma pairN_dec : forall a b : N * N, {a = b} + {a <> b}.
Proof. decide equality; apply N.eq_dec. Qed.

(* the general shape of every index operation: the pairs it re-evaluates (touched) end up matched exactly
   when wanted, all other pairs are unchanged *)
Lemma reevaluate : forall (touched : N -> N -> Prop) (want : N -> N -> bool) lm exp sched,
  (forall k e, touched k e \/ ~ touched k e) ->
  (forall b k e, In (b, k, e) exp <->
     touched k e /\ ((b = true /\ want k e = true /\ ~ In (k, e) lm) \/ (b = false /\ want k e = false /\ In (k, e) lm))) ->
  forall k e, In (k, e) (fold_left apply_mev (order_mevs sched exp) lm) <->
              (touched k e /\ want k e = true) \/ (~ touched k e /\ In (k, e) lm).
Proof.
  intros touched want lm exp sched Hdec HP k e.
  assert (Hnb : nb (order_mevs sched exp)).
  { intros k0 e0 [A B]. apply In_order_mevs in A. apply In_order_mevs in B. apply HP in A. apply HP in B.
    destruct A as [_ [[_ [A _]]|[A _]]]; [|discriminate]. destruct B as [_ [[B _]|[_ [B _]]]]; [discriminate|congruence]. }
  rewrite (fold_apply_mev_In _ _ Hnb). rewrite !In_order_mevs, !HP.
  destruct (Hdec k e) as [Ht|Ht].
  - destruct (want k e) eqn:Ew.
    + split; [intros _; left; auto|]. intros _.
      destruct (in_dec pairN_dec (k, e) lm) as [Hin|Hin].
      * left. split; auto. intros [_ [[H _]|[_ [H _]]]]; discriminate.
      * right. split; auto.
    + split.
      * intros [[Hin Hn]|[_ [[_ [H _]]|[H _]]]]; try discriminate. exfalso. apply Hn. split; auto.
      * intros [[_ H]|[H _]]; [discriminate|contradiction].
  - split.
    + intros [[Hin _]|[H _]]; [right; auto|contradiction].
    + intros [[H _]|[_ Hin]]; [contradiction|]. left. split; auto. intros [H _]. contradiction.
Qed.

(* ------------------------------------------------------------------ helpers *)

Lemma aget_In {V} : forall (m : amap V) k v, aget k m = Some v -> In (k, v) m.
Proof.
  induction m as [|[k' v'] m IH]; simpl; intros k v H; [discriminate|].
  destruct (N.eqb k k') eqn:E.
  - apply N.eqb_eq in E. inversion H; subst. left. reflexivity.
  - right. apply IH. assumption.
Qed.

Lemma lm_mem_true : forall k e lm, lm_mem k e lm = true <-> In (k, e) lm.
Proof. intros. unfold lm_mem. apply (md_mem_true N.eqb Neqb_eq'). Qed.
Lemma lm_mem_false : forall k e lm, lm_mem k e lm = false <-> ~ In (k, e) lm.
Proof. intros. rewrite <- lm_mem_true. destruct (lm_mem k e lm); split; intros; congruence. Qed.

Lemma match_delta_In : forall lm k sel e labs b k' e',
  In (b, k', e') (match_delta lm k sel e labs) <->
  k' = k /\ e' = e /\ ((b = true /\ eval sel labs = true /\ ~ In (k, e) lm)
                       \/ (b = false /\ eval sel labs = false /\ In (k, e) lm)).
Proof.
  intros. unfold match_delta.
  destruct (eval sel labs) eqn:Ev; destruct (lm_mem k e lm) eqn:Em; simpl.
  - apply lm_mem_true in Em.
    split; [contradiction|]. intros (_ & _ & [(_ & _ & H)|(_ & H & _)]); [contradiction|discriminate].
  - apply lm_mem_false in Em. split.
    + intros [H|[]]. inversion H; subst. auto 7.
    + intros (-> & -> & [(-> & _ & _)|(_ & H & _)]); [left; reflexivity|discriminate].
  - apply lm_mem_true in Em. split.
    + intros [H|[]]. inversion H; subst. auto 6.
    + intros (-> & -> & [(_ & H & _)|(-> & _ & _)]); [discriminate|left; reflexivity].
  - apply lm_mem_false in Em.
    split; [contradiction|]. intros (_ & _ & [(_ & H & _)|(_ & _ & H)]); [discriminate|contradiction].
Qed.

(* K1: the match set is exactly "selector k is true on item e's labels" *)
Definition K1 (s : st) : Prop :=
  forall k e, In (k, e) (s_lm s) <->
    exists sel labs, aget k (s_sels s) = Some sel /\ aget e (s_items s) = Some labs /\ eval sel labs = true.

Definition idx_frame (s s' : st) : Prop :=
  s_pols s' = s_pols s /\ s_k2e s' = s_k2e s /\ s_profs s' = s_profs s /\ s_p2e s' = s_p2e s
  /\ s_epp s' = s_epp s /\ s_tiers s' = s_tiers s.

(* ------------------------------------------------------------------ UpdateLabels *)

Lemma idx_update_labels_spec : forall s e labs sched s' ms,
  idx_update_labels s e labs sched = (s', ms) -> K1 s -> ukeys (s_sels s) ->
  K1 s' /\ s_lm s' = fold_left apply_mev ms (s_lm s) /\ s_items s' = aset e labs (s_items s)
  /\ s_sels s' = s_sels s /\ idx_frame s s'.
Proof.
  intros s e labs sched s' ms H HK Hu. unfold idx_update_labels in H. inversion H; subst s' ms. clear H.
  split; [|repeat split]. unfold K1 in *.
  intros k e'. cbn [s_lm s_items s_sels set_index].
  rewrite (reevaluate (fun k0 e0 => e0 = e /\ exists sel, aget k0 (s_sels s) = Some sel)
                      (fun k0 _ => match aget k0 (s_sels s) with Some sel => eval sel labs | None => false end)).
  - destruct (N.eq_dec e' e) as [->|Hne].
    + rewrite aget_aset_same. split.
      * intros [[[_ [sel Hs]] Hw]|[Hn Hin]].
        -- rewrite Hs in Hw. exists sel, labs. auto.
        -- apply HK in Hin. destruct Hin as (sel & labs' & A & _). exfalso. apply Hn. eauto.
      * intros (sel & labs' & A & B & C). inversion B; subst labs'. left. split; [eauto|]. rewrite A. assumption.
    + rewrite aget_aset_other by assumption. rewrite HK. split.
      * intros [[[E _] _]|[_ H]]; [contradiction|assumption].
      * intros H. right. split; auto. intros [E _]. contradiction.
  - intros k0 e0. destruct (N.eq_dec e0 e) as [->|Hne]; [|right; intros [E _]; contradiction].
    destruct (aget k0 (s_sels s)) as [sel|] eqn:E; [left; eauto|right]. intros [_ [sel H]]. discriminate.
  - intros b k0 e0. rewrite in_flat_map. split.
    + intros [[k1 sel] [Hin Hd]]. simpl in Hd. apply match_delta_In in Hd. destruct Hd as (-> & -> & Hd).
      assert (Hs : aget k1 (s_sels s) = Some sel) by (apply ukeys_aget; assumption).
      split; [eauto|]. rewrite Hs. exact Hd.
    + intros [[-> [sel Hs]] Hd]. exists (k0, sel). split; [apply aget_In; assumption|]. simpl.
      apply match_delta_In. rewrite Hs in Hd. auto.
Qed.

(* ------------------------------------------------------------------ DeleteLabels *)

Lemma idx_delete_labels_spec : forall s e sched s' ms,
  idx_delete_labels s e sched = (s', ms) -> K1 s ->
  K1 s' /\ s_lm s' = fold_left apply_mev ms (s_lm s) /\ s_items s' = adel e (s_items s)
  /\ s_sels s' = s_sels s /\ idx_frame s s'.
Proof.
  intros s e sched s' ms H HK. unfold idx_delete_labels in H. inversion H; subst s' ms. clear H.
  split; [|repeat split]. unfold K1 in *.
  intros k e'. cbn [s_lm s_items s_sels set_index].
  rewrite (reevaluate (fun _ e0 => e0 = e) (fun _ _ => false)).
  - destruct (N.eq_dec e' e) as [->|Hne].
    + rewrite aget_adel_same. split.
      * intros [[_ H]|[H _]]; [discriminate|exfalso; auto].
      * intros (sel & labs & _ & H & _). discriminate.
    + rewrite aget_adel_other by assumption. rewrite HK. split.
      * intros [[E _]|[_ H]]; [contradiction|assumption].
      * intros H. right. auto.
  - intros _ e0. destruct (N.eq_dec e0 e); auto.
  - intros b k0 e0. rewrite in_map_iff. split.
    + intros [[k1 e1] [Heq Hin]]. apply filter_In in Hin. destruct Hin as [Hin E]. simpl in *. apply N.eqb_eq in E. subst e1.
      inversion Heq; subst. split; auto.
    + intros [-> [(_ & H & _)|(-> & _ & Hin)]]; [discriminate|].
      exists (k0, e). split; auto. apply filter_In. split; auto. simpl. apply N.eqb_refl.
Qed.

(* ------------------------------------------------------------------ UpdateSelector (when it rescans) *)

Definition rescan_selector (s : st) (k : N) (sel : ast) (sched : list mev) : st * list mev :=
  let exp := flat_map (fun el => match_delta (s_lm s) k sel (fst el) (snd el)) (s_items s) in
  let ms := order_mevs sched exp in
  (set_index s (s_items s) (aset k sel (s_sels s)) (fold_left apply_mev ms (s_lm s)), ms).

Lemma rescan_selector_spec : forall s k sel sched s' ms,
  rescan_selector s k sel sched = (s', ms) -> K1 s -> ukeys (s_items s) ->
  K1 s' /\ s_lm s' = fold_left apply_mev ms (s_lm s) /\ s_items s' = s_items s
  /\ s_sels s' = aset k sel (s_sels s) /\ idx_frame s s'.
Proof.
  intros s k sel sched s' ms H HK Hu. unfold rescan_selector in H. inversion H; subst s' ms. clear H.
  split; [|repeat split]. unfold K1 in *.
  intros k' e. cbn [s_lm s_items s_sels set_index].
  rewrite (reevaluate (fun k0 e0 => k0 = k /\ exists labs, aget e0 (s_items s) = Some labs)
                      (fun _ e0 => match aget e0 (s_items s) with Some labs => eval sel labs | None => false end)).
  - destruct (N.eq_dec k' k) as [->|Hne].
    + rewrite aget_aset_same. split.
      * intros [[[_ [labs Hl]] Hw]|[Hn Hin]].
        -- rewrite Hl in Hw. exists sel, labs. auto.
        -- apply HK in Hin. destruct Hin as (sel' & labs & _ & B & _). exfalso. apply Hn. eauto.
      * intros (sel' & labs & A & B & C). inversion A; subst sel'. left. split; [eauto|]. rewrite B. assumption.
    + rewrite aget_aset_other by assumption. rewrite HK. split.
      * intros [[[E _] _]|[_ H]]; [contradiction|assumption].
      * intros H. right. split; auto. intros [E _]. contradiction.
  - intros k0 e0. destruct (N.eq_dec k0 k) as [->|Hne]; [|right; intros [E _]; contradiction].
    destruct (aget e0 (s_items s)) as [labs|] eqn:E; [left; eauto|right]. intros [_ [labs H]]. discriminate.
  - intros b k0 e0. rewrite in_flat_map. split.
    + intros [[e1 labs] [Hin Hd]]. simpl in Hd. apply match_delta_In in Hd. destruct Hd as (-> & -> & Hd).
      assert (Hs : aget e1 (s_items s) = Some labs) by (apply ukeys_aget; assumption).
      split; [eauto|]. rewrite Hs. exact Hd.
    + intros [[-> [labs Hs]] Hd]. exists (e0, labs). split; [apply aget_In; assumption|]. simpl.
      apply match_delta_In. rewrite Hs in Hd. auto.
Qed.

(* ------------------------------------------------------------------ DeleteSelector *)

Lemma idx_delete_selector_spec : forall s k sched s' ms,
  idx_delete_selector s k sched = (s', ms) -> K1 s ->
  K1 s' /\ s_lm s' = fold_left apply_mev ms (s_lm s) /\ s_items s' = s_items s
  /\ s_sels s' = adel k (s_sels s) /\ idx_frame s s'.
Proof.
  intros s k sched s' ms H HK. unfold idx_delete_selector in H. inversion H; subst s' ms. clear H.
  split; [|repeat split]. unfold K1 in *.
  intros k' e. cbn [s_lm s_items s_sels set_index].
  rewrite (reevaluate (fun k0 _ => k0 = k) (fun _ _ => false)).
  - destruct (N.eq_dec k' k) as [->|Hne].
    + rewrite aget_adel_same. split.
      * intros [[_ H]|[H _]]; [discriminate|exfalso; auto].
      * intros (sel & labs & H & _). discriminate.
    + rewrite aget_adel_other by assumption. rewrite HK. split.
      * intros [[E _]|[_ H]]; [contradiction|assumption].
      * intros H. right. auto.
  - intros k0 _. destruct (N.eq_dec k0 k); auto.
  - intros b k0 e0. rewrite in_map_iff. split.
    + intros [[k1 e1] [Heq Hin]]. apply filter_In in Hin. destruct Hin as [Hin E]. simpl in *. apply N.eqb_eq in E. subst k1.
      inversion Heq; subst. split; auto.
    + intros [-> [(_ & H & _)|(-> & _ & Hin)]]; [discriminate|].
      exists (k, e0). split; auto. apply filter_In. split; auto. simpl. apply N.eqb_refl.
Qed.

(* ------------------------------------------------------------------ selector / policy equality *)

Lemma bytes_eqb_true : forall a b, bytes_eqb a b = true -> a = b.
Proof. intros. apply bytes_eqb_eq. assumption. Qed.

Lemma ast_eqb_eq : forall a b, ast_eqb a b = true -> a = b.
Proof.
  induction a using ast_ind_nested; destruct b; simpl; intros E; try discriminate;
    try (apply andb_true_iff in E; destruct E as [E1 E2]; apply bytes_eqb_true in E1;
         first [apply bytes_eqb_true in E2 | apply (list_eqb_eq _ bytes_eqb_true) in E2]; congruence);
    try (apply bytes_eqb_true in E; congruence); try reflexivity.
  - f_equal. auto.
  - f_equal. revert xs0 E. induction H as [|x xs Hx Hxs IH]; intros [|y ys] E; try discriminate; auto.
    apply andb_true_iff in E. destruct E as [E1 E2]. f_equal; auto.
  - f_equal. revert xs0 E. induction H as [|x xs Hx Hxs IH]; intros [|y ys] E; try discriminate; auto.
    apply andb_true_iff in E. destruct E as [E1 E2]. f_equal; auto.
Qed.

Lemma policy_eqb_eq : forall a b, policy_eqb a b = true -> a = b.
Proof.
  intros [a1 a2 a3 a4 a5 a6] [b1 b2 b3 b4 b5 b6]. unfold policy_eqb. simpl. intros H.
  repeat (apply andb_true_iff in H; destruct H as [H ?]).
  apply N.eqb_eq in H. apply optN_eqb_eq in H4. apply ast_eqb_eq in H3.
  apply (list_eqb_eq _ crule_eqb_eq) in H2. apply (list_eqb_eq _ crule_eqb_eq) in H1. apply Bool.eqb_prop in H0.
  congruence.
Qed.

Lemma idx_update_selector_unfold : forall s k sel sched,
  idx_update_selector s k sel sched =
  match aget k (s_sels s) with
  | Some old => if ast_eqb old sel then (s, []) else rescan_selector s k sel sched
  | None => rescan_selector s k sel sched
  end.
Proof. reflexivity. Qed.
