(* C05 — every ARC update preserves the policy invariants (K1..K4) and the abstraction to the filtered datastore. *)
From Coq Require Import List NArith Bool Lia.
From Verif.Common Require Import Packet PolicyRef Labels.
From Verif.C05 Require Import Model Spec ProofsFilter ProofsProfiles ProofsStep ProofsVerdict ProofsMain ProofsOracle
  ProofsPolicies ProofsIndex.
Import ListNotations.
Open Scope N_scope.

Local Arguments aset {V} k v m : simpl never.
Local Arguments adel {V} k m : simpl never.

Definition K2f (s : st) : Prop := forall k, In (k, LForce) (s_k2e s) <-> force_of (aget k (s_pols s)) = true.
Definition K3 (s : st) : Prop := forall k, aget k (s_sels s) = option_map po_sel (aget k (s_pols s)).
Definition Rpol (s : st) (d : ds) : Prop :=
  (forall k, aget k (s_pols s) = aget k (d_pols d)) /\
  (forall e, aget e (s_items s) = option_map ep_labels (aget e (d_eps d))).

Definition KInv (s : st) (v : view) (d : ds) : Prop :=
  K1 s /\ k2e_follows (s_k2e s) (s_lm s) /\ K2f s /\ K3 s /\ K4x None s v
  /\ ukeys (s_sels s) /\ ukeys (s_items s) /\ Rpol s d.

Lemma KInv0 : KInv st0 view0 ds0.
Proof.
  unfold KInv, K1, k2e_follows, K2f, K3, K4x, Rpol, ukeys. simpl.
  repeat split; try tauto; try discriminate; try constructor; try (intros; reflexivity).
  - intros (sel & labs & H & _). discriminate.
Qed.

(* the policy side of the state *)
Definition pside_eq (s s' : st) : Prop :=
  s_pols s' = s_pols s /\ s_k2e s' = s_k2e s /\ s_items s' = s_items s /\ s_sels s' = s_sels s /\ s_lm s' = s_lm s.

Lemma K4x_frame : forall exc s s' v v',
  s_pols s' = s_pols s -> s_k2e s' = s_k2e s -> v_pols v' = v_pols v -> K4x exc s v -> K4x exc s' v'.
Proof. intros exc s s' v v' A B C H k. rewrite A, B, C. apply H. Qed.

Lemma KInv_frame : forall s s' v v' d d',
  pside_eq s s' -> v_pols v' = v_pols v -> d_pols d' = d_pols d -> d_eps d' = d_eps d ->
  KInv s v d -> KInv s' v' d'.
Proof.
  intros s s' v v' d d' (A & B & C & D & E) Hv Hd1 Hd2 (H1 & H2 & H3 & H4 & H5 & H6 & H7 & [H8 H9]).
  unfold KInv. unfold K1, k2e_follows, K2f, K3, Rpol in *. rewrite A, B, C, D, E, Hd1, Hd2.
  split; [exact H1|split; [exact H2|split; [exact H3|split; [exact H4|split; [|split; [exact H6|split; [exact H7|split; [exact H8|exact H9]]]]]]]].
  eapply K4x_frame; eauto.
Qed.

Lemma nonpol_of_nonprof_stats : forall s, forallb (fun e => negb (is_pol_ev e)) [stats s] = true.
Proof. reflexivity. Qed.

Lemma send_profile_update_nonpol : forall s p r, is_pol_ev (send_profile_update s p r) = false.
Proof. intros. unfold send_profile_update. destruct (md_has_key p (s_p2e s)); reflexivity. Qed.

(* K4: opening and closing the exception for key k *)
Lemma K4x_open : forall s s1 v k,
  (forall k', k' <> k -> aget k' (s_pols s1) = aget k' (s_pols s)) -> s_k2e s1 = s_k2e s ->
  K4x None s v -> K4x (Some k) s1 v.
Proof.
  intros s s1 v k Hp Hk H q. rewrite Hk. destruct (H q) as [A _]. split.
  - intros Hne. rewrite Hp by congruence. apply A. discriminate.
  - intros _ Hin. rewrite A by discriminate. rewrite Hin. reflexivity.
Qed.

Lemma K4x_close : forall s v v' k,
  K4x (Some k) s v ->
  (forall k', k' <> k -> aget k' (v_pols v') = aget k' (v_pols v)) ->
  aget k (v_pols v') = (if md_has_key k (s_k2e s) then aget k (s_pols s) else None) ->
  K4x None s v'.
Proof.
  intros s v v' k H Ho Hk q. split; [|discriminate]. intros _.
  destruct (N.eq_dec q k) as [->|Hne]; [exact Hk|]. rewrite Ho by assumption. apply H. congruence.
Qed.

(* LEp / LForce entries are independent *)
Lemma put_force_LEp : forall k md k' e, In (k', LEp e) (md_put lid_eqb k LForce md) <-> In (k', LEp e) md.
Proof. intros. rewrite (In_md_put lid_eqb lid_eqb_eq). split; auto. intros [H|[_ H]]; [auto|discriminate]. Qed.
Lemma discard_force_LEp : forall k md k' e, In (k', LEp e) (md_discard lid_eqb k LForce md) <-> In (k', LEp e) md.
Proof. intros. rewrite (In_md_discard lid_eqb lid_eqb_eq). split; [tauto|]. intros H. split; auto. intros [_ H2]. discriminate. Qed.
Lemma put_force_LForce : forall k md k', In (k', LForce) (md_put lid_eqb k LForce md) <-> In (k', LForce) md \/ k' = k.
Proof. intros. rewrite (In_md_put lid_eqb lid_eqb_eq). tauto. Qed.
Lemma discard_force_LForce : forall k md k', In (k', LForce) (md_discard lid_eqb k LForce md) <-> In (k', LForce) md /\ k' <> k.
Proof. intros. rewrite (In_md_discard lid_eqb lid_eqb_eq). split; intros [A B]; split; auto. intros [E _]. auto. Qed.

Lemma force_of_aset_other : forall k k' q (m : amap policy), k' <> k -> force_of (aget k' (aset k q m)) = force_of (aget k' m).
Proof. intros. rewrite aget_aset_other by assumption. reflexivity. Qed.

(* ------------------------------------------------------------------ endpoint updates *)

Lemma ep_update_KInv : forall s e labs s1 ev1 s2 ms s3 ev2 v d sched (d' : ds),
  pside_eq s s1 -> forallb (fun x => negb (is_pol_ev x)) ev1 = true ->
  idx_update_labels s1 e labs sched = (s2, ms) -> run_mevs s2 ms = (s3, ev2) ->
  d_pols d' = d_pols d ->
  (forall e', aget e' (aset e labs (s_items s)) = option_map ep_labels (aget e' (d_eps d'))) ->
  KInv s v d -> KInv s3 (view_apply_all v (ev1 ++ ev2)) d'.
Proof.
  intros s e labs s1 ev1 s2 ms s3 ev2 v d sched d' Hps Hnp E2 E3 Hd1 Hd2 HK.
  assert (HK1 : KInv s1 (view_apply_all v ev1) d).
  { eapply KInv_frame; [exact Hps|apply view_nonpol; assumption|reflexivity|reflexivity|exact HK]. }
  destruct HK1 as (H1 & H2 & H3 & H4 & H5 & H6 & H7 & [H8 H9]).
  destruct Hps as (P1 & P2 & P3 & P4 & P5).
  destruct (idx_update_labels_spec _ _ _ _ _ _ E2 H1 H6) as (A1 & A2 & A3 & A4 & (A5 & A6 & _)).
  assert (HK42 : K4x None s2 (view_apply_all v ev1)) by (eapply K4x_frame; eauto).
  assert (HF2 : k2e_follows (s_k2e s2) (s_lm s1)) by (rewrite A6; exact H2).
  destruct (run_mevs_spec _ _ _ _ _ _ _ E3 HK42 HF2) as (B1 & (B2 & B3 & B4 & B5 & _) & B6 & B7).
  rewrite view_apply_all_app.
  unfold KInv, K1, K2f, K3, Rpol. rewrite B2, B3, B4, B5, A3, A4, A5, P3, Hd1.
  split; [|split; [|split; [|split; [|split; [|split; [|split; [|split]]]]]]].
  - intros k0 e0. specialize (A1 k0 e0). rewrite A3, A4 in A1. rewrite P3 in A1. exact A1.
  - rewrite <- A2 in B6. exact B6.
  - intros k0. rewrite B7, A6. apply H3.
  - exact H4.
  - exact B1.
  - exact H6.
  - rewrite <- P3. apply ukeys_aset. exact H7.
  - exact H8.
  - exact Hd2.
Qed.

Lemma ep_delete_KInv : forall s e s1 ev1 s2 ms s3 ev2 v d sched (d' : ds),
  pside_eq s s1 -> forallb (fun x => negb (is_pol_ev x)) ev1 = true ->
  idx_delete_labels s1 e sched = (s2, ms) -> run_mevs s2 ms = (s3, ev2) ->
  d_pols d' = d_pols d ->
  (forall e', aget e' (adel e (s_items s)) = option_map ep_labels (aget e' (d_eps d'))) ->
  KInv s v d -> KInv s3 (view_apply_all v (ev1 ++ ev2)) d'.
Proof.
  intros s e s1 ev1 s2 ms s3 ev2 v d sched d' Hps Hnp E2 E3 Hd1 Hd2 HK.
  assert (HK1 : KInv s1 (view_apply_all v ev1) d).
  { eapply KInv_frame; [exact Hps|apply view_nonpol; assumption|reflexivity|reflexivity|exact HK]. }
  destruct HK1 as (H1 & H2 & H3 & H4 & H5 & H6 & H7 & [H8 H9]).
  destruct Hps as (P1 & P2 & P3 & P4 & P5).
  destruct (idx_delete_labels_spec _ _ _ _ _ E2 H1) as (A1 & A2 & A3 & A4 & (A5 & A6 & _)).
  assert (HK42 : K4x None s2 (view_apply_all v ev1)) by (eapply K4x_frame; eauto).
  assert (HF2 : k2e_follows (s_k2e s2) (s_lm s1)) by (rewrite A6; exact H2).
  destruct (run_mevs_spec _ _ _ _ _ _ _ E3 HK42 HF2) as (B1 & (B2 & B3 & B4 & B5 & _) & B6 & B7).
  rewrite view_apply_all_app.
  unfold KInv, K1, K2f, K3, Rpol. rewrite B2, B3, B4, B5, A3, A4, A5, P3, Hd1.
  split; [|split; [|split; [|split; [|split; [|split; [|split; [|split]]]]]]].
  - intros k0 e0. specialize (A1 k0 e0). rewrite A3, A4 in A1. rewrite P3 in A1. exact A1.
  - rewrite <- A2 in B6. exact B6.
  - intros k0. rewrite B7, A6. apply H3.
  - exact H4.
  - exact B1.
  - exact H6.
  - rewrite <- P3. apply ukeys_adel. exact H7.
  - exact H8.
  - exact Hd2.
Qed.

(* ------------------------------------------------------------------ policy deleted (or invalid) *)

Lemma has_key_cases : forall k (md : list (N * lid)), md_has_key k md = true ->
  (exists e, In (k, LEp e) md) \/ In (k, LForce) md.
Proof. intros k md H. apply md_has_key_true in H. destruct H as [[e|] H]; eauto. Qed.

Lemma pol_delete_KInv : forall s k sched s2 ev1 s3 ms s4 ev2 v d,
  (if force_of (aget k (s_pols s)) then on_match_stopped (set_pols s (adel k (s_pols s))) k LForce
   else (set_pols s (adel k (s_pols s)), [])) = (s2, ev1) ->
  idx_delete_selector s2 k sched = (s3, ms) -> run_mevs s3 ms = (s4, ev2) ->
  KInv s v d ->
  KInv s4 (view_apply_all v (ev1 ++ ev2 ++ [stats s4]))
       {| d_profs := d_profs d; d_pols := adel k (d_pols d); d_eps := d_eps d; d_tiers := d_tiers d |}.
Proof.
  intros s k sched s2 ev1 s3 ms s4 ev2 v d E1 E2 E3 (H1 & H2 & H3 & H4 & H5 & H6 & H7 & [H8 H9]).
  unfold K2f, K3 in H3, H4.
  set (s1 := set_pols s (adel k (s_pols s))) in *.
  assert (HK1 : K4x (Some k) s1 v).
  { apply (K4x_open s); auto. intros k' Hne. unfold s1. cbn [s_pols set_pols]. apply aget_adel_other. assumption. }
  (* after the forced-match stop *)
  assert (K4x (Some k) s2 (view_apply_all v ev1) /\ pol_frame s1 s2
          /\ (forall k' e, In (k', LEp e) (s_k2e s2) <-> In (k', LEp e) (s_k2e s))
          /\ (forall k', In (k', LForce) (s_k2e s2) <-> In (k', LForce) (s_k2e s) /\ k' <> k)) as (A1 & A2 & A3 & A4).
  { destruct (force_of (aget k (s_pols s))) eqn:Ef.
    - destruct (on_match_stopped_K4x _ _ _ _ _ _ _ E1 HK1) as (B1 & B2 & B3).
      split; [exact B1|split; [exact B2|]]. rewrite B3. unfold s1. cbn [s_k2e set_pols].
      split; intros; [apply discard_force_LEp|apply discard_force_LForce].
    - inversion E1; subst s2 ev1. split; [exact HK1|split; [apply pol_frame_refl|]].
      unfold s1. cbn [s_k2e set_pols]. split; [tauto|].
      intros k'. split; [|tauto]. intros Hin. split; auto. intros ->. apply H3 in Hin. congruence. }
  destruct A2 as (F1 & F2 & F3 & F4 & _).
  assert (HK12 : K1 s2).
  { unfold K1. rewrite F4, F3, F2. exact H1. }
  destruct (idx_delete_selector_spec _ _ _ _ _ E2 HK12) as (C1 & C2 & C3 & C4 & (C5 & C6 & _)).
  assert (HK43 : K4x (Some k) s3 (view_apply_all v ev1)) by (eapply K4x_frame; eauto).
  assert (HF3 : k2e_follows (s_k2e s3) (s_lm s2)).
  { rewrite C6, F4. intros k' e. rewrite A3. apply H2. }
  destruct (run_mevs_spec _ _ _ _ _ _ _ E3 HK43 HF3) as (D1 & (D2 & D3 & D4 & D5 & _) & D6 & D7).
  rewrite <- C2, <- D5 in D6.
  assert (HK14 : K1 s4).
  { unfold K1. rewrite D5, D4, D3. exact C1. }
  assert (Hinact : md_has_key k (s_k2e s4) = false).
  { destruct (md_has_key k (s_k2e s4)) eqn:Ek; auto. exfalso.
    destruct (has_key_cases _ _ Ek) as [[e He]|Hf].
    - apply D6 in He. apply HK14 in He. destruct He as (sel & labs & Hs & _).
      rewrite D4, C4 in Hs. rewrite aget_adel_same in Hs. discriminate.
    - apply D7 in Hf. rewrite C6 in Hf. apply A4 in Hf. destruct Hf as [_ Hf]. auto. }
  rewrite !view_apply_all_app.
  assert (Hvs : forall v0, v_pols (view_apply_all v0 [stats s4]) = v_pols v0) by reflexivity.
  unfold KInv.
  split; [exact HK14|split; [exact D6|split; [|split; [|split; [|split; [|split; [|split]]]]]]].
  - (* K2f *)
    intros k'. rewrite D7, C6, A4, D2, C5, F1. unfold s1. cbn [s_pols set_pols]. rewrite H3.
    destruct (N.eq_dec k' k) as [->|Hne].
    + rewrite aget_adel_same. simpl. split; [intros [_ H]; congruence|discriminate].
    + rewrite aget_adel_other by assumption. tauto.
  - (* K3 *)
    intros k'. rewrite D4, C4, F3, D2, C5, F1. unfold s1. cbn [s_pols set_pols].
    destruct (N.eq_dec k' k) as [->|Hne].
    + rewrite !aget_adel_same. reflexivity.
    + rewrite !aget_adel_other by assumption. apply H4.
  - (* K4 *)
    apply (K4x_close s4 (view_apply_all (view_apply_all v ev1) ev2) _ k D1).
    + intros k' _. rewrite Hvs. reflexivity.
    + rewrite Hvs, Hinact. destruct (D1 k) as [_ B]. apply B; auto.
  - rewrite D4, C4, F3. apply ukeys_adel. exact H6.
  - rewrite D3, C3, F2. exact H7.
  - intros k'. rewrite D2, C5, F1. unfold s1. cbn [s_pols set_pols d_pols].
    destruct (N.eq_dec k' k) as [->|Hne].
    + rewrite !aget_adel_same. reflexivity.
    + rewrite !aget_adel_other by assumption. apply H8.
  - intros e. rewrite D3, C3, F2. cbn [d_eps]. apply H9.
Qed.

(* ------------------------------------------------------------------ policy written *)

Lemma pol_write_KInv : forall s k q sched s2 ev1 s3 ms s4 ev2 s5 ev3 v d,
  (if negb (force_of (aget k (s_pols s))) && po_force q
   then on_match_started (set_pols s (aset k q (s_pols s))) k LForce
   else (set_pols s (aset k q (s_pols s)), [])) = (s2, ev1) ->
  idx_update_selector s2 k (po_sel q) sched = (s3, ms) -> run_mevs s3 ms = (s4, ev2) ->
  (if force_of (aget k (s_pols s)) && negb (po_force q) then on_match_stopped s4 k LForce else (s4, [])) = (s5, ev3) ->
  KInv s v d ->
  KInv s5 (view_apply_all v (ev1 ++ ev2 ++ ev3
             ++ (if md_has_key k (s_k2e s5) then [send_policy_update s5 k (Some q)] else []) ++ [stats s5]))
       {| d_profs := d_profs d; d_pols := aset k q (d_pols d); d_eps := d_eps d; d_tiers := d_tiers d |}.
Proof.
  intros s k q sched s2 ev1 s3 ms s4 ev2 s5 ev3 v d E1 E2 E3 E4 (H1 & H2 & H3 & H4 & H5 & H6 & H7 & [H8 H9]).
  unfold K2f, K3 in H3, H4.
  set (fo := force_of (aget k (s_pols s))) in *.
  set (s1 := set_pols s (aset k q (s_pols s))) in *.
  assert (HK1 : K4x (Some k) s1 v).
  { apply (K4x_open s); auto. intros k' Hne. unfold s1. cbn [s_pols set_pols]. apply aget_aset_other. assumption. }
  (* forced-match start *)
  assert (K4x (Some k) s2 (view_apply_all v ev1) /\ pol_frame s1 s2
          /\ (forall k' e, In (k', LEp e) (s_k2e s2) <-> In (k', LEp e) (s_k2e s))
          /\ (forall k', In (k', LForce) (s_k2e s2) <->
                         In (k', LForce) (s_k2e s) \/ (negb fo && po_force q = true /\ k' = k))) as (A1 & A2 & A3 & A4).
  { destruct (negb fo && po_force q) eqn:Ec.
    - destruct (on_match_started_K4x _ _ _ _ _ _ _ E1 HK1) as (B1 & B2 & B3).
      split; [exact B1|split; [exact B2|]]. rewrite B3. unfold s1. cbn [s_k2e set_pols].
      split; intros; [apply put_force_LEp|]. rewrite put_force_LForce. tauto.
    - inversion E1; subst s2 ev1. split; [exact HK1|split; [apply pol_frame_refl|]].
      unfold s1. cbn [s_k2e set_pols]. split; [tauto|]. intros k'. split; [tauto|]. intros [H|[H _]]; [auto|discriminate]. }
  destruct A2 as (F1 & F2 & F3 & F4 & _).
  assert (HK12 : K1 s2) by (unfold K1; rewrite F4, F3, F2; exact H1).
  (* selector update: rescan, or skipped because unchanged *)
  assert (K1 s3 /\ s_lm s3 = fold_left apply_mev ms (s_lm s2)
          /\ (forall k', aget k' (s_sels s3) = aget k' (aset k (po_sel q) (s_sels s)))
          /\ ukeys (s_sels s3) /\ s_items s3 = s_items s /\ s_pols s3 = s_pols s2 /\ s_k2e s3 = s_k2e s2)
    as (C1 & C2 & C3 & C4 & C5 & C6 & C7).
  { rewrite idx_update_selector_unfold in E2. rewrite F3 in E2. change (s_sels s1) with (s_sels s) in E2.
    assert (Hres : forall s3' ms', rescan_selector s2 k (po_sel q) sched = (s3', ms') ->
              K1 s3' /\ s_lm s3' = fold_left apply_mev ms' (s_lm s2)
              /\ (forall k', aget k' (s_sels s3') = aget k' (aset k (po_sel q) (s_sels s)))
              /\ ukeys (s_sels s3') /\ s_items s3' = s_items s /\ s_pols s3' = s_pols s2 /\ s_k2e s3' = s_k2e s2).
    { intros s3' ms' Er. assert (Hu : ukeys (s_items s2)) by (rewrite F2; exact H7).
      destruct (rescan_selector_spec _ _ _ _ _ _ Er HK12 Hu) as (R1 & R2 & R3 & R4 & (R5 & R6 & _)).
      split; [exact R1|split; [exact R2|]]. rewrite R4, F3, R3, F2.
      split; [reflexivity|split; [apply ukeys_aset; exact H6|auto]]. }
    destruct (aget k (s_sels s)) as [old|] eqn:Eold; [|apply Hres; exact E2].
    destruct (ast_eqb old (po_sel q)) eqn:Eeq; [|apply Hres; exact E2].
    inversion E2; subst s3 ms. apply ast_eqb_eq in Eeq. subst old.
    split; [exact HK12|split; [reflexivity|]]. rewrite F3, F2.
    split; [|split; [exact H6|auto]].
    intros k'. destruct (N.eq_dec k' k) as [->|Hne].
    - rewrite aget_aset_same. exact Eold.
    - rewrite aget_aset_other by assumption. reflexivity. }
  assert (HK43 : K4x (Some k) s3 (view_apply_all v ev1)) by (eapply K4x_frame; eauto).
  assert (HF3 : k2e_follows (s_k2e s3) (s_lm s2)).
  { rewrite C7, F4. intros k' e. rewrite A3. apply H2. }
  destruct (run_mevs_spec _ _ _ _ _ _ _ E3 HK43 HF3) as (D1 & (D2 & D3 & D4 & D5 & _) & D6 & D7).
  rewrite <- C2, <- D5 in D6.
  (* forced-match stop *)
  assert (K4x (Some k) s5 (view_apply_all (view_apply_all (view_apply_all v ev1) ev2) ev3) /\ pol_frame s4 s5
          /\ (forall k' e, In (k', LEp e) (s_k2e s5) <-> In (k', LEp e) (s_k2e s4))
          /\ (forall k', In (k', LForce) (s_k2e s5) <->
                         In (k', LForce) (s_k2e s4) /\ ~ (fo && negb (po_force q) = true /\ k' = k))) as (G1 & G2 & G3 & G4).
  { destruct (fo && negb (po_force q)) eqn:Ec.
    - destruct (on_match_stopped_K4x _ _ _ _ _ _ _ E4 D1) as (B1 & B2 & B3).
      split; [exact B1|split; [exact B2|]]. rewrite B3.
      split; intros; [apply discard_force_LEp|]. rewrite discard_force_LForce. tauto.
    - inversion E4; subst s5 ev3. split; [exact D1|split; [apply pol_frame_refl|]].
      split; [tauto|]. intros k'. split; [|tauto]. intros H. split; auto. intros [H' _]. discriminate. }
  destruct G2 as (J1 & J2 & J3 & J4 & _).
  assert (Hpol5 : s_pols s5 = aset k q (s_pols s)) by (rewrite J1, D2, C6, F1; reflexivity).
  rewrite !view_apply_all_app.
  assert (Hvs : forall v0, v_pols (view_apply_all v0 [stats s5]) = v_pols v0) by reflexivity.
  unfold KInv.
  split; [|split; [|split; [|split; [|split; [|split; [|split; [|split]]]]]]].
  - (* K1 *) unfold K1. rewrite J4, J3, J2, D5, D4, D3. exact C1.
  - (* k2e follows lm *) intros k' e. rewrite G3, J4. apply D6.
  - (* K2f *)
    intros k'. rewrite G4, D7, C7, A4, Hpol5, H3.
    destruct (N.eq_dec k' k) as [->|Hne].
    + rewrite aget_aset_same. cbn [force_of]. fold fo. destruct fo, (po_force q); simpl; intuition congruence.
    + rewrite aget_aset_other by assumption. intuition congruence.
  - (* K3 *)
    intros k'. rewrite J3, D4, C3, Hpol5.
    destruct (N.eq_dec k' k) as [->|Hne].
    + rewrite !aget_aset_same. reflexivity.
    + rewrite !aget_aset_other by assumption. apply H4.
  - (* K4 *)
    apply (K4x_close s5 (view_apply_all (view_apply_all (view_apply_all v ev1) ev2) ev3) _ k G1).
    + intros k' Hne. rewrite Hvs. destruct (md_has_key k (s_k2e s5)); [|reflexivity].
      unfold send_policy_update. destruct (md_has_key k (s_k2e s5)); cbn [view_apply_all fold_left view_apply v_pols];
        [rewrite aget_aset_other by assumption|rewrite aget_adel_other by assumption]; reflexivity.
    + rewrite Hvs. destruct (md_has_key k (s_k2e s5)) eqn:Ek.
      * unfold send_policy_update. rewrite Ek. cbn [view_apply_all fold_left view_apply v_pols].
        rewrite aget_aset_same, Hpol5, aget_aset_same. reflexivity.
      * cbn [view_apply_all fold_left]. destruct (G1 k) as [_ B]. apply B; auto.
  - rewrite J3, D4. exact C4.
  - rewrite J2, D3, C5. exact H7.
  - intros k'. rewrite Hpol5. cbn [d_pols].
    destruct (N.eq_dec k' k) as [->|Hne].
    + rewrite !aget_aset_same. reflexivity.
    + rewrite !aget_aset_other by assumption. apply H8.
  - intros e. rewrite J2, D3, C5. cbn [d_eps]. apply H9.
Qed.
