(* C05 — history-level statements: for EVERY validator, EVERY history and EVERY Go map iteration order. *)
From Coq Require Import List NArith Bool.
From Verif.Common Require Import Packet PolicyRef Labels.
From Verif.C05 Require Import Model Spec ProofsFilter ProofsProfiles ProofsStep ProofsVerdict.
Import ListNotations.
Open Scope N_scope.

Local Arguments aset {V} k v m : simpl never.
Local Arguments adel {V} k m : simpl never.

Section Hist.
  Variable validate : value -> bool.

  Lemma step_Inv : forall s i s' evs v d,
    step validate s i = (s', evs) -> Inv s v d ->
    Inv s' (view_apply_all v evs) (ds_apply d (i_key i) (vf_filter validate (i_val i))).
  Proof. intros. unfold step in H. apply (arc_update_Inv _ _ _ _ _ _ H H0). Qed.

  Lemma run_Inv : forall h s v d, Inv s v d ->
    Inv (final validate s h) (view_apply_all v (concat (run validate s h))) (ds_of validate d h).
  Proof.
    induction h as [|i h IH]; intros s v d HI; simpl.
    - exact HI.
    - destruct (step validate s i) as [s' evs] eqn:E. simpl.
      rewrite view_apply_all_app. apply IH. eapply step_Inv; eassumption.
  Qed.

  Lemma reach_Inv : forall h,
    Inv (final validate st0 h) (view_of (run validate st0 h)) (ds_of validate ds0 h).
  Proof. intros. apply run_Inv. apply Inv0. Qed.

  (* MAIN: after every history, every profile id named by an endpoint of the (filtered) datastore is in the
     dataplane, with the datastore's rules if it has them and with the single-deny stand-in otherwise. *)
  Theorem profiles_fail_closed : forall h e ep p,
    aget e (d_eps (ds_of validate ds0 h)) = Some ep -> In p (ep_profiles ep) ->
    aget p (v_profs (view_of (run validate st0 h))) = Some (expected_profile (ds_of validate ds0 h) p).
  Proof.
    intros h e ep p He Hp. destruct (reach_Inv h) as (H1 & H2 & [R1 R2]).
    set (s := final validate st0 h) in *. set (d := ds_of validate ds0 h) in *.
    assert (Hepp : aget e (s_epp s) = Some (ep_profiles ep)).
    { rewrite R2, He. unfold ep_ids. destruct (ep_profiles ep); [contradiction|reflexivity]. }
    assert (Hin : In (p, e) (s_p2e s)) by (apply H1; eauto).
    assert (Hk : md_has_key p (s_p2e s) = true) by (apply md_has_key_true; eauto).
    rewrite H2, Hk. unfold resolve, expected_profile. rewrite R1. reflexivity.
  Qed.

  (* a profile nobody references is not in the dataplane *)
  Theorem unreferenced_profile_absent : forall h p,
    (forall e ep, aget e (d_eps (ds_of validate ds0 h)) = Some ep -> ~ In p (ep_profiles ep)) ->
    aget p (v_profs (view_of (run validate st0 h))) = None.
  Proof.
    intros h p Hno. destruct (reach_Inv h) as (H1 & H2 & [R1 R2]).
    rewrite H2. destruct (md_has_key p _) eqn:Ek; auto.
    apply md_has_key_true in Ek. destruct Ek as [e He]. apply H1 in He. destruct He as [ids [Hids Hin]].
    rewrite R2 in Hids. destruct (aget e (d_eps (ds_of validate ds0 h))) as [ep|] eqn:Eep; [|discriminate].
    exfalso. apply (Hno e ep Eep). unfold ep_ids in Hids. destruct (ep_profiles ep); [discriminate|]. inversion Hids; subst. assumption.
  Qed.

  (* ---------------------------------------------------------------- c05_missing_profile_denies *)

  Theorem missing_profile_denies : forall h e ep pre p post,
    aget e (d_eps (ds_of validate ds0 h)) = Some ep ->
    ep_profiles ep = pre ++ p :: post ->
    aget p (d_profs (ds_of validate ds0 h)) = None ->
    let v := view_of (run validate st0 h) in
    (* the emitted profile is the stand-in: inbound [deny], outbound [deny] *)
    aget p (v_profs v) = Some dummy_drop
    /\ pr_in dummy_drop = [deny_rule] /\ pr_out dummy_drop = [deny_rule]
    /\ cr_action deny_rule = Deny
    (* and for every packet, in both directions, whatever the IP sets, the tiers and the later profiles:
       if the packet reaches p's stage (tiers and earlier profiles pass it on) the endpoint's verdict is deny *)
    /\ forall (s : ipsets) tiers_of inbound pkt,
         (forall t, In t (tiers_of v) -> tier_verdict s t pkt = VPass \/ tier_verdict s t pkt = VNoMatch) ->
         passes_on s (profile_chain v pre inbound) pkt ->
         ep_verdict s tiers_of v (ep_profiles ep) inbound pkt = VDeny.
  Proof.
    intros h e ep pre p post He Hids Hnone v.
    assert (Hv : aget p (v_profs v) = Some dummy_drop).
    { unfold v. rewrite (profiles_fail_closed h e ep p He) by (rewrite Hids; apply in_elt).
      unfold expected_profile. rewrite Hnone. reflexivity. }
    repeat split; auto.
    intros s tiers_of inbound pkt Ht Hpre. unfold ep_verdict.
    rewrite endpoint_verdict_tiers_pass by assumption.
    rewrite Hids. unfold profile_chain. rewrite map_app. simpl map. fold (profile_chain v pre inbound).
    rewrite Hv. replace (ref_rules (if inbound then pr_in dummy_drop else pr_out dummy_drop)) with [to_ref deny_rule]
      by (destruct inbound; reflexivity).
    apply deny_stage_reached. assumption.
  Qed.

  (* ---------------------------------------------------------------- c05_late_profile_replaces *)

  Lemma ds_of_app : forall h1 h2 d, ds_of validate d (h1 ++ h2) = ds_of validate (ds_of validate d h1) h2.
  Proof. induction h1; intros; simpl; auto. Qed.

  Lemma ds_apply_other_profile : forall d k ov p, k <> KProf p ->
    aget p (d_profs (ds_apply d k ov)) = aget p (d_profs d).
  Proof.
    intros d k ov p Hne. destruct k as [q|q|q|q]; destruct ov as [[r|r|r|r]|]; simpl; auto.
    - apply aget_aset_other. congruence.
    - apply aget_adel_other. congruence.
  Qed.

  Lemma ds_of_untouched_profile : forall h d p, (forall i, In i h -> i_key i <> KProf p) ->
    aget p (d_profs (ds_of validate d h)) = aget p (d_profs d).
  Proof.
    induction h as [|i h IH]; intros d p H; simpl; auto.
    rewrite IH by (intros j Hj; apply H; right; assumption).
    apply ds_apply_other_profile. apply H. left. reflexivity.
  Qed.

  Theorem late_profile_replaces : forall h1 h2 p r sched ord e ep,
    validate (VProf r) = true ->
    (forall i, In i h2 -> i_key i <> KProf p) ->
    let h := h1 ++ write (KProf p) (Some (VProf r)) sched ord :: h2 in
    aget e (d_eps (ds_of validate ds0 h)) = Some ep -> In p (ep_profiles ep) ->
    aget p (v_profs (view_of (run validate st0 h))) = Some r.
  Proof.
    intros h1 h2 p r sched ord e ep Hval Hno h He Hp.
    rewrite (profiles_fail_closed h e ep p He Hp). f_equal. unfold expected_profile, h.
    rewrite ds_of_app. simpl ds_of. rewrite ds_of_untouched_profile by assumption.
    unfold write. cbn [i_key i_val vf_filter]. rewrite Hval. cbn [ds_apply d_profs]. rewrite aget_aset_same. reflexivity.
  Qed.

  (* ---------------------------------------------------------------- c05_never_more_open *)

  Theorem never_more_open_invalid : forall h1 h2 k val sched ord s tiers_of ids inbound pkt,
    validate val = false ->
    vle (ep_verdict s tiers_of (view_of (run validate st0 (h1 ++ write k (Some val) sched ord :: h2))) ids inbound pkt)
        (ep_verdict s tiers_of (view_of (run validate st0 (h1 ++ write k None sched ord :: h2))) ids inbound pkt).
  Proof.
    intros. rewrite (invalid_write_is_delete validate h1 h2 st0 k val sched ord H). apply vle_refl.
  Qed.
End Hist.

(* the stand-in is at most as open as ANY content the profile could have had: a missing profile never
   leaves the endpoint more open than some version of it would *)
Theorem missing_most_closed : forall (s : ipsets) tiers pre post rs pkt,
  vle (endpoint_verdict s tiers (pre ++ ref_rules (pr_in dummy_drop) :: post) pkt)
      (endpoint_verdict s tiers (pre ++ rs :: post) pkt)
  /\ vle (endpoint_verdict s tiers (pre ++ ref_rules (pr_out dummy_drop) :: post) pkt)
         (endpoint_verdict s tiers (pre ++ rs :: post) pkt).
Proof. intros. split; apply deny_most_closed_endpoint. Qed.
