(* C05 — the sync-status path of the ActiveRulesCalculator, ADDED on top of Model.v (Model.v is imported by C01
   and is left untouched):
     felix/calc/active_rules_calculator.go  OnStatusUpdate (initialSyncCompleted, end-of-resync warning for
        missingProfiles) and the missingProfiles bookkeeping of sendProfileUpdate
     felix/calc/validation_filter.go        OnStatusUpdated (pass through).
   Definitions only.

   sendProfileUpdate(p, rules) does, before anything else, missingProfiles.Discard(p); when p is active and rules
   is nil it emits the DummyDropRules stand-in in BOTH branches of `if arc.initialSyncCompleted` - the branches
   differ only in logging and in missingProfiles.Add(p) (not in sync).  Every sendProfileUpdate call is visible as
   exactly one OnProfileActive / OnProfileInactive event of Model.arc_update, and `rules == nil` at the call is
   `allProfileRules[p]` missing in the state the update leaves behind (a profile-rules update changes the cache
   before it calls, the other updates do not change it), so the bookkeeping is a fold over the events. *)
From Coq Require Import List NArith Bool.
From Verif.Common Require Import Packet PolicyRef Labels.
From Verif.C05 Require Import Model.
Import ListNotations.
Open Scope N_scope.

Inductive status := StWait | StResync | StInSync.      (* api.WaitForDatastore / ResyncInProgress / InSync *)
Inductive sinput := SUpd (i : input) | SStat (t : status).

Record sst := { ss_st : st; ss_insync : bool (* initialSyncCompleted *); ss_missing : list N (* missingProfiles *) }.
Definition sst0 : sst := {| ss_st := st0; ss_insync := false; ss_missing := [] |}.

Definition discardN (p : N) (m : list N) : list N := filter (fun x => negb (N.eqb x p)) m.
Definition unknown (profs : amap prules) (p : N) : bool := match aget p profs with None => true | Some _ => false end.

(* the missingProfiles effect of the sendProfileUpdate call behind one event *)
Definition miss_ev (insync : bool) (profs : amap prules) (m : list N) (e : ev) : list N :=
  match e with
  | EProfActive p _ => if negb insync && unknown profs p then p :: discardN p m else discardN p m
  | EProfInactive p => discardN p m
  | _ => m
  end.

(* one input: emitted events, and the profile ids named by "End of resync: local endpoints refer to missing or
   invalid profile" warnings *)
Definition sstep (validate : value -> bool) (ss : sst) (si : sinput) : sst * (list ev * list N) :=
  match si with
  | SUpd i =>
      let '(s', evs) := step validate (ss_st ss) i in
      ({| ss_st := s'; ss_insync := ss_insync ss;
          ss_missing := fold_left (miss_ev (ss_insync ss) (s_profs s')) evs (ss_missing ss) |}, (evs, []))
  | SStat StInSync =>
      if ss_insync ss then (ss, ([], []))
      else ({| ss_st := ss_st ss; ss_insync := true; ss_missing := [] |}, ([], ss_missing ss))
  | SStat _ => (ss, ([], []))
  end.

Fixpoint srun (validate : value -> bool) (ss : sst) (h : list sinput) : list (list ev * list N) :=
  match h with
  | [] => []
  | si :: h' => let '(ss', out) := sstep validate ss si in out :: srun validate ss' h'
  end.

Fixpoint sfinal (validate : value -> bool) (ss : sst) (h : list sinput) : sst :=
  match h with
  | [] => ss
  | si :: h' => sfinal validate (fst (sstep validate ss si)) h'
  end.

(* the datastore updates of a history with status messages *)
Definition updates_of (h : list sinput) : list input :=
  flat_map (fun si => match si with SUpd i => [i] | SStat _ => [] end) h.
