(* C05 — the boolean oracle of Spec.v accepts every run of the model (profile and filter parts). *)
From Coq Require Import List NArith Bool.
From Verif.Common Require Import Packet PolicyRef Labels.
From Verif.C05 Require Import Model Spec ProofsFilter ProofsProfiles ProofsStep ProofsVerdict ProofsMain.
Import ListNotations.
Open Scope N_scope.

Definition ukeys {V} (m : amap V) : Prop := NoDup (map fst m).

Lemma In_adel {V} : forall k (m : amap V) x, In x (adel k m) -> In x m /\ fst x <> k.
Proof.
  induction m as [|[k' v] m IH]; simpl; intros x H; [contradiction|].
  destruct (N.eqb k k') eqn:E.
  - destruct (IH x H). auto.
  - destruct H as [H|H].
    + subst x. simpl. split; auto. apply N.eqb_neq in E. congruence.
    + destruct (IH x H). auto.
Qed.

Lemma ukeys_adel {V} : forall k (m : amap V), ukeys m -> ukeys (adel k m).
Proof.
  unfold ukeys. induction m as [|[k' v] m IH]; simpl; intros H; auto.
  inversion H; subst. destruct (N.eqb k k'); auto. simpl. constructor; auto.
  intros Hin. apply in_map_iff in Hin. destruct Hin as [x [Ex Hx]]. apply In_adel in Hx. destruct Hx as [Hx _].
  apply H2. apply in_map_iff. eauto.
Qed.

Lemma ukeys_aset {V} : forall k (v : V) m, ukeys m -> ukeys (aset k v m).
Proof.
  intros. unfold aset, ukeys. simpl. constructor; [|apply ukeys_adel; assumption].
  intros Hin. apply in_map_iff in Hin. destruct Hin as [x [Ex Hx]]. apply In_adel in Hx. destruct Hx as [_ Hx]. congruence.
Qed.

Lemma ukeys_aget {V} : forall (m : amap V) k v, ukeys m -> In (k, v) m -> aget k m = Some v.
Proof.
  unfold ukeys. induction m as [|[k' v'] m IH]; simpl; intros k v H Hin; [contradiction|].
  inversion H; subst. destruct Hin as [Hin|Hin].
  - inversion Hin; subst. rewrite N.eqb_refl. reflexivity.
  - destruct (N.eqb k k') eqn:E.
    + apply N.eqb_eq in E. subst. exfalso. apply H2. apply in_map_iff. exists (k', v). auto.
    + apply IH; assumption.
Qed.

Lemma ds_apply_ukeys_eps : forall d k ov, ukeys (d_eps d) -> ukeys (d_eps (ds_apply d k ov)).
Proof.
  intros d k ov H. destruct k; destruct ov as [[?|?|?|?]|]; simpl; auto using ukeys_aset, ukeys_adel.
Qed.

Lemma ds_of_ukeys_eps : forall validate h d, ukeys (d_eps d) -> ukeys (d_eps (ds_of validate d h)).
Proof. induction h; intros; simpl; auto using ds_apply_ukeys_eps. Qed.

Theorem model_meets_spec_profiles : forall validate h,
  ok_profiles (ds_of validate ds0 h) (view_of (run validate st0 h)) = true.
Proof.
  intros. unfold ok_profiles. apply forallb_forall. intros [e ep] Hin. apply forallb_forall. intros p Hp. simpl in Hp.
  assert (He : aget e (d_eps (ds_of validate ds0 h)) = Some ep).
  { apply ukeys_aget; auto. apply ds_of_ukeys_eps. constructor. }
  rewrite (profiles_fail_closed validate h e ep p He Hp). apply prules_eqb_refl.
Qed.
