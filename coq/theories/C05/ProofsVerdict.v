(* C05 — the single-deny stand-in under the reference semantics (Common/PolicyRef.v). *)
From Coq Require Import List NArith Bool.
From Verif.Common Require Import Packet PolicyRef Labels.
From Verif.C05 Require Import Model Spec.
Import ListNotations.
Open Scope N_scope.

Lemma vle_refl : forall v, vle v v.
Proof. intros. right. right. reflexivity. Qed.
Lemma vle_deny : forall v, vle VDeny v.
Proof. intros. left. reflexivity. Qed.

Lemma deny_rule_matches : forall s p, rule_matches s (to_ref deny_rule) p = true.
Proof. intros. reflexivity. Qed.

Lemma deny_policy_verdict : forall s p, policy_verdict s [to_ref deny_rule] p = VDeny.
Proof. intros. reflexivity. Qed.

(* a packet that reaches the stand-in is denied, whatever follows it *)
Lemma deny_profile_stage : forall s post p, profiles_verdict s ([to_ref deny_rule] :: post) p = VDeny.
Proof. intros. reflexivity. Qed.

(* "reaches the stage": every earlier profile passed it on *)
Definition passes_on (s : ipsets) (pre : list (list rule)) (p : packet) : Prop :=
  forall rs, In rs pre -> policy_verdict s rs p = VPass \/ policy_verdict s rs p = VNoMatch.

Lemma profiles_verdict_reaches : forall s pre rest p,
  passes_on s pre p -> profiles_verdict s (pre ++ rest) p = profiles_verdict s rest p.
Proof.
  induction pre as [|rs pre IH]; intros rest p H; simpl; auto.
  destruct (H rs (or_introl eq_refl)) as [E|E]; rewrite E; apply IH; intros x Hx; apply H; right; assumption.
Qed.

Lemma deny_stage_reached : forall s pre post p,
  passes_on s pre p -> profiles_verdict s (pre ++ [to_ref deny_rule] :: post) p = VDeny.
Proof. intros. rewrite profiles_verdict_reaches by assumption. reflexivity. Qed.

(* the stand-in is the most closed content a profile can have *)
Lemma deny_most_closed_profiles : forall s pre post rs p,
  vle (profiles_verdict s (pre ++ [to_ref deny_rule] :: post) p) (profiles_verdict s (pre ++ rs :: post) p).
Proof.
  induction pre as [|x pre IH]; intros post rs p.
  - simpl app. rewrite deny_profile_stage. apply vle_deny.
  - simpl. destruct (policy_verdict s x p); try apply vle_refl; apply IH.
Qed.

Lemma endpoint_verdict_mono : forall s tiers a b p,
  vle (profiles_verdict s a p) (profiles_verdict s b p) ->
  vle (endpoint_verdict s tiers a p) (endpoint_verdict s tiers b p).
Proof.
  induction tiers as [|t ts IH]; intros a b p H; simpl; auto.
  destruct (tier_verdict s t p); try apply vle_refl; apply IH; assumption.
Qed.

Lemma deny_most_closed_endpoint : forall s tiers pre post rs p,
  vle (endpoint_verdict s tiers (pre ++ [to_ref deny_rule] :: post) p)
      (endpoint_verdict s tiers (pre ++ rs :: post) p).
Proof. intros. apply endpoint_verdict_mono. apply deny_most_closed_profiles. Qed.

(* when the tiers pass the packet on and the earlier profiles do too, the endpoint's verdict is deny *)
Lemma endpoint_verdict_tiers_pass : forall s tiers profs p,
  (forall t, In t tiers -> tier_verdict s t p = VPass \/ tier_verdict s t p = VNoMatch) ->
  endpoint_verdict s tiers profs p = profiles_verdict s profs p.
Proof.
  induction tiers as [|t ts IH]; intros profs p H; simpl; auto.
  destruct (H t (or_introl eq_refl)) as [E|E]; rewrite E; apply IH; intros x Hx; apply H; right; assumption.
Qed.
