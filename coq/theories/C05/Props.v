(* C05 — property theorems only.  Each is closed by `exact <lemma>` and followed by Print Assumptions. *)
From Coq Require Import List NArith Bool.
From Verif.Common Require Import Packet PolicyRef Labels.
From Verif.C05 Require Import Model Spec ProofsFilter.
Import ListNotations.
Open Scope N_scope.

(* A history in which an invalid version of a resource is written is observationally identical - message for
   message, for every validator, every start state and every Go map iteration order - to the history in which
   that write is a delete. *)
Theorem c05_invalid_is_absent : forall (validate : value -> bool) h1 h2 s k v sched ord,
  validate v = false ->
  run validate s (h1 ++ write k (Some v) sched ord :: h2) = run validate s (h1 ++ write k None sched ord :: h2).
Proof. exact invalid_write_is_delete. Qed.
Print Assumptions c05_invalid_is_absent.

(* ... and for any number of invalid writes at once: replacing every invalid value of a history by a delete
   changes no emitted message. *)
Theorem c05_invalid_is_absent_all : forall (validate : value -> bool) h s,
  run validate s (map (as_delete validate) h) = run validate s h.
Proof. exact run_as_delete. Qed.
Print Assumptions c05_invalid_is_absent_all.
