(* C05 — property theorems only.  Each is closed by `exact <lemma>` and followed by Print Assumptions.

   Reading guide.  `run validate st0 h` is the stream emitted by ValidationFilter + ActiveRulesCalculator for the
   history h (each input carries the Go map iteration orders of that update: they are universally quantified
   here).  `ds_of validate ds0 h` is the filtered datastore (an invalid write counts as a delete), `view_of` the
   dataplane's view (fold of the emitted stream), `ep_verdict` the endpoint's verdict under Common/PolicyRef.v. *)
From Coq Require Import List NArith Bool.
From Verif.Common Require Import Packet PolicyRef Labels.
From Verif.C05 Require Import Model Spec ProofsFilter ProofsProfiles ProofsStep ProofsVerdict ProofsMain ProofsOracle
  ProofsPolicies ProofsIndex ProofsPolStep ProofsPolMain ProofsNoPanic ProofsTrace ProofsBatch ModelSync SpecSync ProofsSync ProofsSyncTrace.
Import ListNotations.
Open Scope N_scope.

(* An endpoint names profile p (anywhere in its ProfileIDs) and the datastore has no valid p: the profile the
   dataplane holds for p is the stand-in - inbound [deny], outbound [deny] - and EVERY packet that reaches p's
   stage (the tiers and the earlier profiles pass it on) is denied, in both directions, whatever the IP sets,
   the tiers and the later profiles are.  For every validator, history and iteration order. *)
Theorem c05_missing_profile_denies : forall (validate : value -> bool) h e ep pre p post,
  aget e (d_eps (ds_of validate ds0 h)) = Some ep ->
  ep_profiles ep = pre ++ p :: post ->
  aget p (d_profs (ds_of validate ds0 h)) = None ->
  let v := view_of (run validate st0 h) in
  aget p (v_profs v) = Some dummy_drop
  /\ pr_in dummy_drop = [deny_rule] /\ pr_out dummy_drop = [deny_rule] /\ cr_action deny_rule = Deny
  /\ forall (s : ipsets) tiers_of inbound pkt,
       (forall t, In t (tiers_of v) -> tier_verdict s t pkt = VPass \/ tier_verdict s t pkt = VNoMatch) ->
       passes_on s (profile_chain v pre inbound) pkt ->
       ep_verdict s tiers_of v (ep_profiles ep) inbound pkt = VDeny.
Proof. exact missing_profile_denies. Qed.
Print Assumptions c05_missing_profile_denies.

(* After a valid version of p is written - whatever happened before (p missing, deleted while referenced,
   replaced by invalid versions: h1 is arbitrary) and whatever happens afterwards to other keys - every endpoint
   that names p gets p's own rules: they have replaced the deny. *)
Theorem c05_late_profile_replaces : forall (validate : value -> bool) h1 h2 p r sched ord e ep,
  validate (VProf r) = true ->
  (forall i, In i h2 -> i_key i <> KProf p) ->
  let h := h1 ++ write (KProf p) (Some (VProf r)) sched ord :: h2 in
  aget e (d_eps (ds_of validate ds0 h)) = Some ep -> In p (ep_profiles ep) ->
  aget p (v_profs (view_of (run validate st0 h))) = Some r.
Proof. exact late_profile_replaces. Qed.
Print Assumptions c05_late_profile_replaces.

(* The general form of the two: after EVERY history, every profile id named by an endpoint of the filtered
   datastore is in the dataplane with the datastore's rules if it has them, the stand-in otherwise. *)
Theorem c05_profiles_fail_closed : forall (validate : value -> bool) h e ep p,
  aget e (d_eps (ds_of validate ds0 h)) = Some ep -> In p (ep_profiles ep) ->
  aget p (v_profs (view_of (run validate st0 h))) = Some (expected_profile (ds_of validate ds0 h) p).
Proof. exact profiles_fail_closed. Qed.
Print Assumptions c05_profiles_fail_closed.

(* A history in which an invalid version of a resource is written is observationally identical - message for
   message, for every validator, every start state and every iteration order - to the history in which that
   write is a delete. *)
Theorem c05_invalid_is_absent : forall (validate : value -> bool) h1 h2 s k v sched ord,
  validate v = false ->
  run validate s (h1 ++ write k (Some v) sched ord :: h2) = run validate s (h1 ++ write k None sched ord :: h2).
Proof. exact invalid_write_is_delete. Qed.
Print Assumptions c05_invalid_is_absent.

(* ... for any number of invalid writes at once; and the filter forwards the value itself or nil, never a
   third thing (nothing is partially applied). *)
Theorem c05_invalid_is_absent_all : forall (validate : value -> bool) h s,
  run validate s (map (as_delete validate) h) = run validate s h.
Proof. exact run_as_delete. Qed.
Print Assumptions c05_invalid_is_absent_all.

Theorem c05_never_partially_applied : forall (validate : value -> bool) ov,
  vf_filter validate ov = ov \/ vf_filter validate ov = None.
Proof. exact vf_filter_whole_or_nil. Qed.
Print Assumptions c05_never_partially_applied.

(* For every packet, endpoint, direction and way of assembling tiers from the dataplane's view: the verdict in
   the history with the invalid write is <= (deny < allow) the verdict in the history where the resource is
   absent instead. *)
Theorem c05_never_more_open : forall (validate : value -> bool) h1 h2 k val sched ord s tiers_of ids inbound pkt,
  validate val = false ->
  vle (ep_verdict s tiers_of (view_of (run validate st0 (h1 ++ write k (Some val) sched ord :: h2))) ids inbound pkt)
      (ep_verdict s tiers_of (view_of (run validate st0 (h1 ++ write k None sched ord :: h2))) ids inbound pkt).
Proof. exact never_more_open_invalid. Qed.
Print Assumptions c05_never_more_open.

(* ... and the stand-in for a MISSING profile is at most as open as any content that profile could have: for
   every packet the endpoint's verdict with the stand-in at p's position <= its verdict with rules rs there. *)
Theorem c05_missing_is_most_closed : forall (s : ipsets) tiers pre post rs pkt,
  vle (endpoint_verdict s tiers (pre ++ ref_rules (pr_in dummy_drop) :: post) pkt)
      (endpoint_verdict s tiers (pre ++ rs :: post) pkt)
  /\ vle (endpoint_verdict s tiers (pre ++ ref_rules (pr_out dummy_drop) :: post) pkt)
         (endpoint_verdict s tiers (pre ++ rs :: post) pkt).
Proof. exact missing_most_closed. Qed.
Print Assumptions c05_missing_is_most_closed.

(* The profile part of the oracle that the correspondence run applies to the implementation's trace accepts
   every run of the model. *)
Theorem c05_model_meets_spec_profiles : forall (validate : value -> bool) h,
  ok_profiles (ds_of validate ds0 h) (view_of (run validate st0 h)) = true.
Proof. exact model_meets_spec_profiles. Qed.
Print Assumptions c05_model_meets_spec_profiles.

(* Policies (and, through them, tiers): after EVERY history - referenced policies created late, deleted while
   selected, replaced by invalid versions - and under EVERY order in which the label index makes its callbacks
   (the schedules carried by the inputs are arbitrary: wrong, partial or duplicated entries included), the
   dataplane holds policy k exactly when the filtered datastore has k and k selects an endpoint of the filtered
   datastore or is force-programmed, and then it holds the datastore's current version: an invalid or deleted
   version is never left applied, nothing is partially applied, nothing else is dropped. *)
Theorem c05_policies_exact : forall (validate : value -> bool) h k,
  let d := ds_of validate ds0 h in
  aget k (v_pols (view_of (run validate st0 h))) =
  match aget k (d_pols d) with
  | Some q => if selects q d then Some q else None
  | None => None
  end.
Proof. exact policies_exact. Qed.
Print Assumptions c05_policies_exact.

(* The policy part of the oracle accepts every run of the model. *)
Theorem c05_model_meets_spec_policies : forall (validate : value -> bool) h,
  ok_policies (ds_of validate ds0 h) (view_of (run validate st0 h)) = true.
Proof. exact model_meets_spec_policies. Qed.
Print Assumptions c05_model_meets_spec_policies.

(* The calculator never reaches one of its log.Panic branches ("Policy active but missing from allPolicies",
   "Unknown policy became active!"): for every history of well-typed updates (the value, if any, has the type its
   key demands), every validator and every callback order, no emitted message is a panic.  With the two
   model_meets_spec theorems and c05_never_partially_applied this covers every clause of the oracle ok_trace. *)
Theorem c05_no_panic : forall (validate : value -> bool) h,
  (forall i, In i h -> wt (i_key i) (i_val i)) ->
  forallb no_panic (run validate st0 h) = true.
Proof. exact no_panic_from_start. Qed.
Print Assumptions c05_no_panic.

(* The COMPLETE oracle that the correspondence run applies to the implementation's trace (ok_case: after every
   single update - filter forwards whole-or-nil, no panic, profiles fail closed, policies exact) accepts the
   model's own trace of every well-typed history, for every validator and every iteration order. *)
Theorem c05_model_meets_spec : forall (validate : value -> bool) h,
  (forall i, In i h -> wt (i_key i) (i_val i)) ->
  forall sizes, ok_case {| c_graph := false; c_sizes := sizes; c_ops := trace_of validate st0 h |} = true.
Proof. exact model_meets_spec. Qed.
Print Assumptions c05_model_meets_spec.

(* Non-vacuity for the policy theorems: policy 5 (selector a == "x", tier 9 which does not exist) becomes active
   when endpoint 0 gets the label, is replaced by an invalid version (validate rejects tier 99) -> removed from the
   dataplane although the endpoint still matches the old version; the schedule of the endpoint update is wrong on
   purpose (names a pair that is not affected): the model ignores it. *)
Definition ex_allow : crule := {| cr_action := Allow; cr_proto := Some 6; cr_dports := [(80, 80)]; cr_tag := 0 |}.
Definition ex_validate2 (v : value) : bool := match v with VPol q => negb (N.eqb (po_tier q) 99) | _ => true end.
Definition ex_pol (t : N) : policy :=
  {| po_tier := t; po_order := Some 1; po_sel := SEq [97] [120]; po_in := [ex_allow]; po_out := []; po_force := false |}.
Example c05_example_policies :
  run ex_validate2 st0
    [ write (KPol 5) (Some (VPol (ex_pol 9))) [] [];
      write (KEp 0) (Some (VEp {| ep_labels := [([97], [120])]; ep_profiles := [] |})) [(false, 7, 7)] [];
      write (KPol 5) (Some (VPol (ex_pol 99))) [] [] ]
  = [ [EStats 0 1 0];
      [EPolActive 5 (ex_pol 9); EMatch 5 0];
      [EPolInactive 5; EMatchStop 5 0; EStats 0 0 0] ].
Proof. vm_compute. reflexivity. Qed.

(* Non-vacuity: endpoint 0 names profiles [7; 8]; 7 is missing -> stand-in; 7 is then written -> its own rules;
   an invalid version (validate rejects rules tagged 99) -> stand-in again; deleted endpoint -> profile removed. *)
Definition ex_validate (v : value) : bool :=
  match v with VProf r => negb (existsb (fun c => N.eqb (cr_tag c) 99) (pr_in r)) | _ => true end.
Definition ex_bad : crule := {| cr_action := Allow; cr_proto := None; cr_dports := []; cr_tag := 99 |}.
Definition ex_history : list input :=
  [ write (KProf 8) (Some (VProf {| pr_in := []; pr_out := [ex_allow] |})) [] [];
    write (KEp 0) (Some (VEp {| ep_labels := []; ep_profiles := [7; 8] |})) [] [8; 7];
    write (KProf 7) (Some (VProf {| pr_in := [ex_allow]; pr_out := [] |})) [] [];
    write (KProf 7) (Some (VProf {| pr_in := [ex_bad]; pr_out := [] |})) [] [];
    write (KEp 0) None [] [] ].
Example c05_example :
  run ex_validate st0 ex_history =
  [ [EStats 0 0 1];
    [EProfActive 8 {| pr_in := []; pr_out := [ex_allow] |}; EProfActive 7 dummy_drop];
    [EProfActive 7 {| pr_in := [ex_allow]; pr_out := [] |}; EStats 0 0 2];
    [EProfActive 7 dummy_drop; EStats 0 0 1];
    [EProfInactive 7; EProfInactive 8] ].
Proof. vm_compute. reflexivity. Qed.

(* BATCHES.  ValidationFilter.OnUpdates receives a slice of updates (start-of-day snapshot, coalesced bursts).
   `run_batches validate s hb` is the stream emitted for a history delivered as the list of batches hb.
   An invalid value ANYWHERE in a batch - whatever else, valid or invalid, before or after it, the same batch and
   the rest of the history contain - is message for message a delete of that key. *)
Theorem c05_invalid_is_absent_batch : forall (validate : value -> bool) hb1 b1 b2 hb2 s k v sched ord,
  validate v = false ->
  run_batches validate s (hb1 ++ (b1 ++ write k (Some v) sched ord :: b2) :: hb2)
  = run_batches validate s (hb1 ++ (b1 ++ write k None sched ord :: b2) :: hb2).
Proof. exact invalid_in_batch_is_delete. Qed.
Print Assumptions c05_invalid_is_absent_batch.

(* ... for all invalid values of all batches at once; how the history is cut into batches is irrelevant (so every
   theorem above about `run` holds for batched delivery); and the forwarded batch has the input's length and keys,
   each value being the input's or nil, decided by that value alone. *)
Theorem c05_invalid_is_absent_batches_all : forall (validate : value -> bool) hb s,
  run_batches validate s (map (map (as_delete validate)) hb) = run_batches validate s hb.
Proof. exact run_batches_as_delete. Qed.
Print Assumptions c05_invalid_is_absent_batches_all.

Theorem c05_batching_irrelevant : forall (validate : value -> bool) hb s,
  run_batches validate s hb = run validate s (concat hb).
Proof. exact run_batches_flat. Qed.
Print Assumptions c05_batching_irrelevant.

Theorem c05_filter_batch_shape : forall (validate : value -> bool) b,
  length (vf_filter_batch validate b) = length b
  /\ map i_key (vf_filter_batch validate b) = map i_key b
  /\ Forall2 (fun i o => i_val o = vf_filter validate (i_val i) /\ (i_val o = i_val i \/ i_val o = None))
             b (vf_filter_batch validate b).
Proof. exact vf_filter_batch_shape. Qed.
Print Assumptions c05_filter_batch_shape.

(* Non-vacuity: one batch with TWO invalid profiles (tag 99) around a valid endpoint: both are treated as absent. *)
Example c05_example_batch :
  run_batches ex_validate st0
    [ [ write (KProf 7) (Some (VProf {| pr_in := [ex_bad]; pr_out := [] |})) [] [];
        write (KEp 0) (Some (VEp {| ep_labels := []; ep_profiles := [7; 8] |})) [] [7; 8];
        write (KProf 8) (Some (VProf {| pr_in := [ex_bad; ex_allow]; pr_out := [] |})) [] [] ] ]
  = [ [EStats 0 0 0]; [EProfActive 7 dummy_drop; EProfActive 8 dummy_drop]; [EProfActive 8 dummy_drop; EStats 0 0 0] ].
Proof. vm_compute. reflexivity. Qed.

(* SYNC STATUS (ModelSync.v: OnStatusUpdate, initialSyncCompleted, missingProfiles).  Histories are now lists of
   datastore updates AND status messages (WaitForDatastore / ResyncInProgress / InSync, any number, anywhere).
   A status message emits nothing and leaves the calculator's caches alone: the emitted stream is the stream of the
   updates alone. *)
Theorem c05_status_is_silent : forall (validate : value -> bool) h ss,
  concat (sevents (srun validate ss h)) = concat (run validate (ss_st ss) (updates_of h))
  /\ ss_st (sfinal validate ss h) = final validate (ss_st ss) (updates_of h).
Proof. exact srun_stream. Qed.
Print Assumptions c05_status_is_silent.

(* ALWAYS - before the first InSync, across it, after it, after repeated ones (h is arbitrary and the value of
   initialSyncCompleted it leaves behind, `insync`, is arbitrary): a profile named by an endpoint and missing from /
   invalid in the datastore is in the dataplane as the stand-in, inbound [deny], outbound [deny]. *)
Theorem c05_missing_profile_denies_always : forall (validate : value -> bool) h e ep p (insync : bool),
  let d := ds_of validate ds0 (updates_of h) in
  ss_insync (sfinal validate sst0 h) = insync ->
  aget e (d_eps d) = Some ep -> In p (ep_profiles ep) -> aget p (d_profs d) = None ->
  aget p (v_profs (sview validate h)) = Some dummy_drop
  /\ pr_in dummy_drop = [deny_rule] /\ pr_out dummy_drop = [deny_rule] /\ cr_action deny_rule = Deny.
Proof. exact missing_profile_denies_always. Qed.
Print Assumptions c05_missing_profile_denies_always.

Theorem c05_profiles_fail_closed_always : forall (validate : value -> bool) h e ep p,
  let d := ds_of validate ds0 (updates_of h) in
  aget e (d_eps d) = Some ep -> In p (ep_profiles ep) ->
  aget p (v_profs (sview validate h)) = Some (expected_profile d p).
Proof. exact profiles_fail_closed_always. Qed.
Print Assumptions c05_profiles_fail_closed_always.

(* The end-of-resync warning: the first InSync after ANY history names exactly the dangling profile references of
   the filtered datastore (missingProfiles = dangling references is an invariant of the resync phase), emits nothing
   and completes the initial sync; afterwards missingProfiles stays empty. *)
Theorem c05_resync_warning_exact : forall (validate : value -> bool) h,
  ss_insync (sfinal validate sst0 h) = false ->
  let out := sstep validate (sfinal validate sst0 h) (SStat StInSync) in
  fst (snd out) = [] /\ ss_st (fst out) = ss_st (sfinal validate sst0 h) /\ ss_insync (fst out) = true
  /\ forall p, In p (snd (snd out)) <-> In p (dangling (ds_of validate ds0 (updates_of h))).
Proof. exact resync_warning_exact. Qed.
Print Assumptions c05_resync_warning_exact.

Theorem c05_missing_empty_after_insync : forall (validate : value -> bool) h,
  ss_insync (sfinal validate sst0 h) = true -> ss_missing (sfinal validate sst0 h) = [].
Proof. exact missing_empty_after_insync. Qed.
Print Assumptions c05_missing_empty_after_insync.

(* The oracle for traces WITH status messages that the correspondence run applies to the implementation
   (SpecSync.sok_case: per update as ok_case; per status message: nothing programmed, still fail closed, the warning
   names exactly the dangling references) accepts the model's own trace of every well-typed history. *)
Theorem c05_smodel_meets_spec : forall (validate : value -> bool) h sizes,
  (forall si, In si h -> swt si) ->
  sok_case {| sc_graph := false; sc_sizes := sizes; sc_items := strace_of validate sst0 h |} = true.
Proof. exact smodel_meets_spec. Qed.
Print Assumptions c05_smodel_meets_spec.

(* Non-vacuity: endpoint delivered during the resync names missing profile 7 -> stand-in at once; InSync warns about
   [7] and emits nothing; a second InSync does nothing; the stand-in is still there. *)
Example c05_example_sync :
  srun ex_validate sst0
    [ SStat StResync;
      SUpd (write (KEp 0) (Some (VEp {| ep_labels := []; ep_profiles := [7] |})) [] []);
      SStat StInSync; SStat StInSync ]
  = [ ([], []); ([EProfActive 7 dummy_drop], []); ([], [7]); ([], []) ].
Proof. vm_compute. reflexivity. Qed.
