(* C05 — the model never reaches one of the ARC's log.Panic branches ("Policy active but missing from
   allPolicies", "Unknown policy became active!") on well-typed input, whatever the history and the callback order. *)
From Coq Require Import List NArith Bool Lia.
From Verif.Common Require Import Packet PolicyRef Labels.
From Verif.C05 Require Import Model Spec ProofsFilter ProofsProfiles ProofsStep ProofsVerdict ProofsMain ProofsOracle
  ProofsPolicies ProofsIndex ProofsPolStep ProofsPolMain.
Import ListNotations.
Open Scope N_scope.

Local Arguments aset {V} k v m : simpl never.
Local Arguments adel {V} k m : simpl never.

(* the value (if any) has the type its key demands: what the typed datastore client guarantees *)
Definition wt (k : key) (ov : option value) : Prop :=
  match k, ov with
  | _, None => True
  | KProf _, Some (VProf _) | KPol _, Some (VPol _) | KEp _, Some (VEp _) | KTier _, Some (VTier _) => True
  | _, _ => False
  end.

Lemma no_panic_app : forall a b, no_panic (a ++ b) = no_panic a && no_panic b.
Proof. intros. unfold no_panic. apply forallb_app. Qed.

Lemma send_profile_update_np : forall s p r, no_panic [send_profile_update s p r] = true.
Proof. intros. unfold send_profile_update. destruct (md_has_key p (s_p2e s)); reflexivity. Qed.

Lemma add_loop_np : forall ids s e s' evs, add_loop s e ids = (s', evs) -> no_panic evs = true.
Proof.
  induction ids as [|p ids IH]; intros s e s' evs H; simpl in H.
  - inversion H; reflexivity.
  - destruct (add_loop _ e ids) as [s2 evs2] eqn:E. inversion H; subst. rewrite no_panic_app, (IH _ _ _ _ E), andb_true_r.
    destruct (md_has_key p (s_p2e s)); [reflexivity|apply send_profile_update_np].
Qed.
Lemma rem_loop_np : forall ids s e s' evs, rem_loop s e ids = (s', evs) -> no_panic evs = true.
Proof.
  induction ids as [|p ids IH]; intros s e s' evs H; simpl in H.
  - inversion H; reflexivity.
  - destruct (rem_loop _ e ids) as [s2 evs2] eqn:E. inversion H; subst. rewrite no_panic_app, (IH _ _ _ _ E), andb_true_r.
    match goal with |- no_panic (if ?c then _ else _) = true => destruct c end; [reflexivity|apply send_profile_update_np].
Qed.
Lemma update_ep_profile_ids_np : forall s e ids ord s' evs, update_ep_profile_ids s e ids ord = (s', evs) -> no_panic evs = true.
Proof.
  intros s e ids ord s' evs H. unfold update_ep_profile_ids in H.
  destruct (add_loop _ e _) as [s1 ev1] eqn:Ea. destruct (rem_loop s1 e _) as [s2 ev2] eqn:Er. inversion H; subst.
  rewrite no_panic_app, (add_loop_np _ _ _ _ _ Ea), (rem_loop_np _ _ _ _ _ Er). reflexivity.
Qed.

Lemma on_match_started_np : forall s k l s' evs,
  on_match_started s k l = (s', evs) -> aget k (s_pols s) <> None -> no_panic evs = true.
Proof.
  intros s k l s' evs H Hk. unfold on_match_started in H. inversion H; subst. clear H. rewrite no_panic_app.
  apply andb_true_iff. split; [|destruct l; reflexivity].
  destruct (md_has_key k (s_k2e s)); [reflexivity|]. cbn [s_pols set_k2e].
  destruct (aget k (s_pols s)) as [q|]; [|congruence]. unfold send_policy_update. destruct (md_has_key k _); reflexivity.
Qed.

Lemma on_match_stopped_np : forall s k l s' evs, on_match_stopped s k l = (s', evs) -> no_panic evs = true.
Proof.
  intros s k l s' evs H. unfold on_match_stopped in H. inversion H; subst. clear H. rewrite no_panic_app.
  apply andb_true_iff. split; [|destruct l; reflexivity].
  cbn [s_k2e set_k2e s_pols].
  destruct (md_has_key k (md_discard lid_eqb k l (s_k2e s))) eqn:E; [reflexivity|].
  unfold send_policy_update. cbn [s_k2e set_k2e]. rewrite E. reflexivity.
Qed.

Lemma run_mevs_np : forall ms s s' evs,
  run_mevs s ms = (s', evs) -> (forall k e, In (true, k, e) ms -> aget k (s_pols s) <> None) -> no_panic evs = true.
Proof.
  induction ms as [|[[b k] e] ms IH]; intros s s' evs H Hk; simpl in H.
  - inversion H; reflexivity.
  - destruct (if b then on_match_started s k (LEp e) else on_match_stopped s k (LEp e)) as [s1 e1] eqn:E1.
    destruct (run_mevs s1 ms) as [s2 e2] eqn:E2. inversion H; subst. clear H. rewrite no_panic_app.
    assert (Hp : s_pols s1 = s_pols s).
    { destruct b; [unfold on_match_started in E1|unfold on_match_stopped in E1]; inversion E1; reflexivity. }
    apply andb_true_iff. split.
    + destruct b; [eapply on_match_started_np; [eassumption|apply (Hk k e); left; reflexivity]
                  |eapply on_match_stopped_np; eassumption].
    + eapply IH; [eassumption|]. intros k0 e0 Hin. rewrite Hp. apply (Hk k0 e0). right. assumption.
Qed.

Lemma arc_update_np : forall s i s' evs v d,
  arc_update s i = (s', evs) -> KInv s v d -> wt (i_key i) (i_val i) -> no_panic evs = true.
Proof.
  intros s i s' evs v d H (H1 & H2 & H3 & H4 & H5 & H6 & H7 & [H8 H9]) Hwt. unfold arc_update in H. unfold K3 in H4.
  destruct (i_key i) as [p|k|e|t] eqn:Ek; destruct (i_val i) as [[r|q|ep|ti]|] eqn:Ev; simpl in Hwt; try contradiction.
  - destruct (aget p (s_profs s)) as [old|]; [destruct (prules_eqb old r)|]; inversion H; subst; try reflexivity;
      rewrite no_panic_app; (destruct (md_has_key p _); [rewrite send_profile_update_np|]; reflexivity).
  - inversion H; subst. rewrite no_panic_app. destruct (md_has_key p _); [rewrite send_profile_update_np|]; reflexivity.
  - (* policy written *)
    destruct (match aget k (s_pols s) with Some o => policy_eqb o q | None => false end); [inversion H; reflexivity|].
    set (s1 := set_pols s (aset k q (s_pols s))) in *.
    destruct (if negb (force_of (aget k (s_pols s))) && po_force q then on_match_started s1 k LForce else (s1, [])) as [s2 ev1] eqn:E1.
    destruct (idx_update_selector s2 k (po_sel q) (i_sched i)) as [s3 ms] eqn:E2.
    destruct (run_mevs s3 ms) as [s4 ev2] eqn:E3.
    destruct (if force_of (aget k (s_pols s)) && negb (po_force q) then on_match_stopped s4 k LForce else (s4, [])) as [s5 ev3] eqn:E4.
    inversion H; subst s' evs. clear H.
    assert (Hp1 : aget k (s_pols s1) = Some q) by (unfold s1; cbn [s_pols set_pols]; apply aget_aset_same).
    assert (Hp2 : s_pols s2 = s_pols s1).
    { destruct (negb _ && _); [unfold on_match_started in E1|]; inversion E1; reflexivity. }
    assert (s_sels s2 = s_sels s /\ s_items s2 = s_items s /\ s_lm s2 = s_lm s) as (Hs2a & Hs2b & Hs2c).
    { destruct (negb _ && _); [unfold on_match_started in E1|]; inversion E1; repeat split. }
    rewrite !no_panic_app. repeat (apply andb_true_iff; split); try reflexivity.
    + destruct (negb _ && _); [|inversion E1; reflexivity].
      eapply on_match_started_np; [eassumption|congruence].
    + (* callbacks of the rescan: only for key k *)
      rewrite idx_update_selector_unfold in E2.
      assert (Hres : forall s3' ms', rescan_selector s2 k (po_sel q) (i_sched i) = (s3', ms') ->
                 s_pols s3' = s_pols s2 /\ forall k0 e0, In (true, k0, e0) ms' -> k0 = k).
      { intros s3' ms' Er. unfold rescan_selector in Er. inversion Er; subst. split; [reflexivity|].
        intros k0 e0 Hin. apply In_order_mevs in Hin. apply in_flat_map in Hin. destruct Hin as [[e1 l1] [_ Hd]].
        apply match_delta_In in Hd. tauto. }
      assert (s_pols s3 = s_pols s2 /\ forall k0 e0, In (true, k0, e0) ms -> k0 = k) as [Hp3 Hms].
      { destruct (aget k (s_sels s2)) as [old|]; [destruct (ast_eqb old (po_sel q))|]; try (apply Hres; exact E2).
        inversion E2; subst. split; [reflexivity|]. intros ? ? []. }
      eapply run_mevs_np; [eassumption|]. intros k0 e0 Hin. rewrite (Hms _ _ Hin), Hp3, Hp2, Hp1. discriminate.
    + destruct (force_of _ && negb _); [|inversion E4; reflexivity]. eapply on_match_stopped_np; eassumption.
    + destruct (md_has_key k (s_k2e s5)) eqn:E5; [|reflexivity]. unfold send_policy_update. rewrite E5. reflexivity.
  - (* policy deleted *)
    set (s1 := set_pols s (adel k (s_pols s))) in *.
    destruct (if force_of (aget k (s_pols s)) then on_match_stopped s1 k LForce else (s1, [])) as [s2 ev1] eqn:E1.
    destruct (idx_delete_selector s2 k (i_sched i)) as [s3 ms] eqn:E2.
    destruct (run_mevs s3 ms) as [s4 ev2] eqn:E3.
    inversion H; subst s' evs. clear H.
    rewrite !no_panic_app. repeat (apply andb_true_iff; split); try reflexivity.
    + destruct (force_of _); [|inversion E1; reflexivity]. eapply on_match_stopped_np; eassumption.
    + eapply run_mevs_np; [eassumption|]. intros k0 e0 Hin. exfalso.
      unfold idx_delete_selector in E2. inversion E2; subst. apply In_order_mevs in Hin. apply in_map_iff in Hin.
      destruct Hin as [x [Hx _]]. discriminate.
  - (* endpoint written *)
    destruct (update_ep_profile_ids s e (ep_profiles ep) (i_ord i)) as [s1 ev1] eqn:E1.
    destruct (idx_update_labels s1 e (ep_labels ep) (i_sched i)) as [s2 ms] eqn:E2.
    destruct (run_mevs s2 ms) as [s3 ev2] eqn:E3.
    inversion H; subst s' evs. clear H.
    rewrite no_panic_app, (update_ep_profile_ids_np _ _ _ _ _ _ E1). simpl.
    eapply run_mevs_np; [eassumption|]. intros k0 e0 Hin.
    unfold idx_update_labels in E2. inversion E2; subst s2 ms. clear E2. cbn [s_pols set_index].
    apply In_order_mevs in Hin. apply in_flat_map in Hin. destruct Hin as [[k1 sel] [Hin Hd]].
    apply match_delta_In in Hd. destruct Hd as (-> & _ & _). simpl in Hin.
    assert (s_sels s1 = s_sels s /\ s_pols s1 = s_pols s) as [Hf1 Hf2].
    { unfold update_ep_profile_ids in E1. destruct (add_loop _ e _) as [sa eva] eqn:Ea. destruct (rem_loop sa e _) as [sb evb] eqn:Eb.
      inversion E1; subst.
      assert (I2 (set_epp s (new_epp s e (ep_profiles ep))) {| v_profs := []; v_pols := [] |} \/ True) by auto.
      clear H.
      assert (G : forall ids s0 e0 sx ex, add_loop s0 e0 ids = (sx, ex) -> s_sels sx = s_sels s0 /\ s_pols sx = s_pols s0).
      { induction ids as [|p ids IH]; intros s0 e1 sx ex Hx; simpl in Hx; [inversion Hx; auto|].
        destruct (add_loop _ e1 ids) as [sy ey] eqn:Ey. inversion Hx; subst. apply IH in Ey. exact Ey. }
      assert (G2 : forall ids s0 e0 sx ex, rem_loop s0 e0 ids = (sx, ex) -> s_sels sx = s_sels s0 /\ s_pols sx = s_pols s0).
      { induction ids as [|p ids IH]; intros s0 e1 sx ex Hx; simpl in Hx; [inversion Hx; auto|].
        destruct (rem_loop _ e1 ids) as [sy ey] eqn:Ey. inversion Hx; subst. apply IH in Ey. exact Ey. }
      destruct (G _ _ _ _ _ Ea) as [Ga Gb]. destruct (G2 _ _ _ _ _ Eb) as [Gc Gd]. cbn [s_sels s_pols set_epp] in Ga, Gb. split; congruence. }
    rewrite Hf1 in Hin. rewrite Hf2. pose proof (ukeys_aget _ _ _ H6 Hin) as Hs. rewrite H4 in Hs.
    simpl fst. intros Hn. rewrite Hn in Hs. discriminate.
  - (* endpoint deleted *)
    destruct (update_ep_profile_ids s e [] (i_ord i)) as [s1 ev1] eqn:E1.
    destruct (idx_delete_labels s1 e (i_sched i)) as [s2 ms] eqn:E2.
    destruct (run_mevs s2 ms) as [s3 ev2] eqn:E3.
    inversion H; subst s' evs. clear H.
    rewrite no_panic_app, (update_ep_profile_ids_np _ _ _ _ _ _ E1). simpl.
    eapply run_mevs_np; [eassumption|]. intros k0 e0 Hin. exfalso.
    unfold idx_delete_labels in E2. inversion E2; subst. apply In_order_mevs in Hin. apply in_map_iff in Hin.
    destruct Hin as [x [Hx _]]. discriminate.
  - inversion H; reflexivity.
  - inversion H; reflexivity.
Qed.

Section Hist.
  Variable validate : value -> bool.

  Lemma wt_filter : forall k ov, wt k ov -> wt k (vf_filter validate ov).
  Proof. intros k [v|] H; simpl; auto. destruct (validate v); auto. destruct k; exact I. Qed.

  Theorem no_panic_run : forall h s v d, Inv s v d -> KInv s v d ->
    (forall i, In i h -> wt (i_key i) (i_val i)) ->
    forallb no_panic (run validate s h) = true.
  Proof.
    induction h as [|i h IH]; intros s v d HI HK Hwt; simpl; auto.
    destruct (step validate s i) as [s' evs] eqn:E. simpl. apply andb_true_iff. split.
    - unfold step in E. eapply arc_update_np; [exact E|exact HK|]. simpl. apply wt_filter. apply Hwt. left. reflexivity.
    - eapply IH.
      + eapply step_Inv; eassumption.
      + unfold step in E. apply (arc_update_KInv _ _ _ _ _ _ E HI HK).
      + intros j Hj. apply Hwt. right. assumption.
  Qed.

  Theorem no_panic_from_start : forall h, (forall i, In i h -> wt (i_key i) (i_val i)) ->
    forallb no_panic (run validate st0 h) = true.
  Proof. intros. eapply no_panic_run; [apply Inv0|apply KInv0|assumption]. Qed.
End Hist.
