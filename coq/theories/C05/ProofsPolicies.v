(* C05 — the policy half of the ActiveRulesCalculator + label index: invariants over ALL histories and ALL
   callback orders (the schedule i_sched is arbitrary: wrong, partial or duplicated entries included).

   K1  the label index's match set is exactly { (k, e) | selector k evaluates to true on e's labels }
   K2  policyIDToEndpointKeys = the match set, plus the force-programmed dummy key for hinted policies
   K3  selectorsById = the selectors of allPolicies
   K4  the dataplane's view of policy k (fold of OnPolicyActive/Inactive) is allPolicies[k] when k is active
       (has a matching endpoint or is force-programmed), nothing otherwise. *)
From Coq Require Import List NArith Bool Lia.
From Verif.Common Require Import Packet PolicyRef Labels.
From Verif.C05 Require Import Model Spec ProofsFilter ProofsProfiles.
Import ListNotations.
Open Scope N_scope.

Local Arguments aset {V} k v m : simpl never.
Local Arguments adel {V} k m : simpl never.

(* ------------------------------------------------------------------ generic multidict lemmas *)

Section MDGen.
  Context {B : Type} (beq : B -> B -> bool) (Hbeq : forall a b, beq a b = true <-> a = b).

  Lemma md_mem_true : forall k b md, md_mem beq k b md = true <-> In (k, b) md.
  Proof.
    intros. unfold md_mem. rewrite existsb_exists. split.
    - intros [[k' b'] [Hin E]]. simpl in E. apply andb_true_iff in E. destruct E as [E1 E2].
      apply N.eqb_eq in E1. apply Hbeq in E2. subst. assumption.
    - intros Hin. exists (k, b). split; auto. simpl. rewrite N.eqb_refl. simpl. apply Hbeq. reflexivity.
  Qed.

  Lemma In_md_put : forall k b md k' b', In (k', b') (md_put beq k b md) <-> In (k', b') md \/ (k' = k /\ b' = b).
  Proof.
    intros. unfold md_put. destruct (md_mem beq k b md) eqn:E.
    - apply md_mem_true in E. split; auto. intros [H|[H1 H2]]; subst; auto.
    - simpl. split.
      + intros [H|H]; auto. inversion H; subst. auto.
      + intros [H|[H1 H2]]; subst; auto.
  Qed.

  Lemma In_md_discard : forall k b md k' b',
    In (k', b') (md_discard beq k b md) <-> In (k', b') md /\ ~ (k' = k /\ b' = b).
  Proof.
    intros. unfold md_discard. rewrite filter_In. simpl. split.
    - intros [H1 H2]. split; auto. intros [E1 E2]. subst. rewrite N.eqb_refl in H2. simpl in H2.
      assert (beq b b = true) by (apply Hbeq; reflexivity). rewrite H in H2. discriminate.
    - intros [H1 H2]. split; auto. destruct (N.eqb k' k) eqn:E1; auto. destruct (beq b' b) eqn:E2; auto.
      apply N.eqb_eq in E1. apply Hbeq in E2. exfalso. auto.
  Qed.

  Lemma md_has_key_put : forall k b md k', md_has_key k' (md_put beq k b md) = N.eqb k' k || md_has_key k' md.
  Proof.
    intros. destruct (md_has_key k' (md_put beq k b md)) eqn:E.
    - apply md_has_key_true in E. destruct E as [x Hx]. apply In_md_put in Hx. destruct Hx as [Hx|[Hx _]].
      + assert (md_has_key k' md = true) as -> by (apply md_has_key_true; eauto). rewrite orb_true_r. reflexivity.
      + subst. rewrite N.eqb_refl. reflexivity.
    - symmetry. apply orb_false_iff. split.
      + destruct (N.eqb k' k) eqn:E2; auto. apply N.eqb_eq in E2. subst.
        assert (md_has_key k (md_put beq k b md) = true); [|congruence].
        apply md_has_key_true. exists b. apply In_md_put. auto.
      + destruct (md_has_key k' md) eqn:E2; auto. apply md_has_key_true in E2. destruct E2 as [x Hx].
        assert (md_has_key k' (md_put beq k b md) = true); [|congruence].
        apply md_has_key_true. exists x. apply In_md_put. auto.
  Qed.

  Lemma md_has_key_discard_other : forall k b md k', k' <> k ->
    md_has_key k' (md_discard beq k b md) = md_has_key k' md.
  Proof.
    intros. destruct (md_has_key k' md) eqn:E.
    - apply md_has_key_true in E. destruct E as [x Hx]. apply md_has_key_true. exists x. apply In_md_discard. split; auto.
      intros [E1 _]. auto.
    - destruct (md_has_key k' (md_discard beq k b md)) eqn:E2; auto.
      apply md_has_key_true in E2. destruct E2 as [x Hx]. apply In_md_discard in Hx. destruct Hx as [Hx _].
      assert (md_has_key k' md = true); [|congruence]. apply md_has_key_true. eauto.
  Qed.

  Lemma md_has_key_discard_sub : forall k b md k', md_has_key k' (md_discard beq k b md) = true -> md_has_key k' md = true.
  Proof.
    intros. apply md_has_key_true in H. destruct H as [x Hx]. apply In_md_discard in Hx. apply md_has_key_true. exists x. tauto.
  Qed.
End MDGen.

Lemma lid_eqb_eq : forall a b, lid_eqb a b = true <-> a = b.
Proof.
  destruct a, b; simpl; split; intros H; try discriminate; try reflexivity.
  - apply N.eqb_eq in H. congruence.
  - inversion H. apply N.eqb_refl.
Qed.
Lemma Neqb_eq' : forall a b : N, N.eqb a b = true <-> a = b.
Proof. exact N.eqb_eq. Qed.

(* ------------------------------------------------------------------ K4 with an exception key *)

(* while policy k is being replaced its view entry is allowed to lag; what must hold throughout is that an
   inactive policy is not in the dataplane *)
Definition K4x (exc : option N) (s : st) (v : view) : Prop :=
  forall k,
    (exc <> Some k -> aget k (v_pols v) = if md_has_key k (s_k2e s) then aget k (s_pols s) else None)
    /\ (exc = Some k -> md_has_key k (s_k2e s) = false -> aget k (v_pols v) = None).

Definition pol_frame (s s' : st) : Prop :=
  s_pols s' = s_pols s /\ s_items s' = s_items s /\ s_sels s' = s_sels s /\ s_lm s' = s_lm s
  /\ s_profs s' = s_profs s /\ s_p2e s' = s_p2e s /\ s_epp s' = s_epp s /\ s_tiers s' = s_tiers s.

Lemma pol_frame_refl : forall s, pol_frame s s.
Proof. intros. repeat split. Qed.
Lemma pol_frame_trans : forall a b c, pol_frame a b -> pol_frame b c -> pol_frame a c.
Proof. intros a b c (A1&A2&A3&A4&A5&A6&A7&A8) (B1&B2&B3&B4&B5&B6&B7&B8). repeat split; congruence. Qed.

Lemma on_match_started_K4x : forall exc s k l s' evs v,
  on_match_started s k l = (s', evs) -> K4x exc s v ->
  K4x exc s' (view_apply_all v evs) /\ pol_frame s s' /\ s_k2e s' = md_put lid_eqb k l (s_k2e s).
Proof.
  intros exc s k l s' evs v H HK. unfold on_match_started in H. inversion H; subst s' evs. clear H.
  split; [|split; [repeat split|reflexivity]].
  rewrite view_apply_all_app.
  assert (Hm : forall v0, v_pols (view_apply_all v0 (match l with LEp e => [EMatch k e] | LForce => [] end)) = v_pols v0)
    by (intros; destruct l; reflexivity).
  intros q. rewrite Hm. cbn [s_k2e set_k2e s_pols]. rewrite (md_has_key_put lid_eqb lid_eqb_eq).
  destruct (md_has_key k (s_k2e s)) eqn:Ewas.
  - (* already active *)
    cbn [view_apply_all fold_left].
    destruct (N.eqb q k) eqn:Eq.
    + apply N.eqb_eq in Eq. subst q. cbn [orb]. destruct (HK k) as [A B]. rewrite Ewas in *. split; auto; try congruence.
    + cbn [orb]. apply HK.
  - destruct (aget k (s_pols s)) as [pq|] eqn:Epol.
    + unfold send_policy_update. cbn [s_k2e set_k2e]. rewrite (md_has_key_put lid_eqb lid_eqb_eq), N.eqb_refl.
      cbn [orb view_apply_all fold_left view_apply v_pols].
      destruct (N.eqb q k) eqn:Eq.
      * apply N.eqb_eq in Eq. subst q. cbn [orb]. rewrite aget_aset_same. split; [intros _; symmetry; exact Epol|discriminate].
      * cbn [orb]. apply N.eqb_neq in Eq. rewrite aget_aset_other by assumption. apply HK.
    + cbn [view_apply_all fold_left view_apply].
      destruct (N.eqb q k) eqn:Eq.
      * apply N.eqb_eq in Eq. subst q. cbn [orb]. split; [|discriminate].
        intros Hne. destruct (HK k) as [A _]. rewrite (A Hne), Ewas. symmetry. exact Epol.
      * cbn [orb]. apply HK.
Qed.

Lemma on_match_stopped_K4x : forall exc s k l s' evs v,
  on_match_stopped s k l = (s', evs) -> K4x exc s v ->
  K4x exc s' (view_apply_all v evs) /\ pol_frame s s' /\ s_k2e s' = md_discard lid_eqb k l (s_k2e s).
Proof.
  intros exc s k l s' evs v H HK. unfold on_match_stopped in H. inversion H; subst s' evs. clear H.
  split; [|split; [repeat split|reflexivity]].
  rewrite view_apply_all_app.
  assert (Hm : forall v0, v_pols (view_apply_all v0 (match l with LEp e => [EMatchStop k e] | LForce => [] end)) = v_pols v0)
    by (intros; destruct l; reflexivity).
  intros q. rewrite Hm. cbn [s_k2e set_k2e s_pols].
  destruct (N.eq_dec q k) as [->|Hne].
  - destruct (md_has_key k (md_discard lid_eqb k l (s_k2e s))) eqn:Enow.
    + cbn [view_apply_all fold_left]. apply (md_has_key_discard_sub lid_eqb lid_eqb_eq) in Enow.
      destruct (HK k) as [A B]. rewrite Enow in *. split; auto; try discriminate.
    + unfold send_policy_update. cbn [s_k2e set_k2e]. rewrite Enow.
      cbn [view_apply_all fold_left view_apply v_pols]. rewrite aget_adel_same. split; intros; reflexivity.
  - rewrite (md_has_key_discard_other lid_eqb lid_eqb_eq k l (s_k2e s) q) by assumption.
    destruct (md_has_key k (md_discard lid_eqb k l (s_k2e s))) eqn:Enow.
    + cbn [view_apply_all fold_left]. apply HK.
    + unfold send_policy_update. cbn [s_k2e set_k2e]. rewrite Enow. cbn [view_apply_all fold_left view_apply v_pols].
      rewrite aget_adel_other by assumption. apply HK.
Qed.

(* ------------------------------------------------------------------ run_mevs: k2e follows the match set *)

Definition k2e_follows (k2e : list (N * lid)) (lm : list (N * N)) : Prop :=
  forall k e, In (k, LEp e) k2e <-> In (k, e) lm.

Lemma run_mevs_spec : forall ms exc s s' evs v LM,
  run_mevs s ms = (s', evs) -> K4x exc s v -> k2e_follows (s_k2e s) LM ->
  K4x exc s' (view_apply_all v evs) /\ pol_frame s s'
  /\ k2e_follows (s_k2e s') (fold_left apply_mev ms LM)
  /\ (forall k, In (k, LForce) (s_k2e s') <-> In (k, LForce) (s_k2e s)).
Proof.
  induction ms as [|[[b k] e] ms IH]; intros exc s s' evs v LM H HK HF; simpl in H.
  - inversion H; subst. simpl. split; [exact HK|split; [apply pol_frame_refl|split; [exact HF|tauto]]].
  - destruct (if b then on_match_started s k (LEp e) else on_match_stopped s k (LEp e)) as [s1 e1] eqn:E1.
    destruct (run_mevs s1 ms) as [s2 e2] eqn:E2. inversion H; subst s' evs. clear H.
    assert (K4x exc s1 (view_apply_all v e1) /\ pol_frame s s1
            /\ k2e_follows (s_k2e s1) (apply_mev LM (b, k, e))
            /\ (forall k0, In (k0, LForce) (s_k2e s1) <-> In (k0, LForce) (s_k2e s))) as (A1 & A2 & A3 & A4).
    { destruct b.
      - destruct (on_match_started_K4x _ _ _ _ _ _ _ E1 HK) as (B1 & B2 & B3). split; [exact B1|split; [exact B2|]].
        rewrite B3. split.
        + intros k0 e0. simpl. rewrite (In_md_put lid_eqb lid_eqb_eq), (In_md_put N.eqb Neqb_eq'), (HF k0 e0).
          split; intros [H|[H1 H2]]; auto; right; split; congruence.
        + intros k0. rewrite (In_md_put lid_eqb lid_eqb_eq). split; auto. intros [H|[_ H]]; [auto|discriminate].
      - destruct (on_match_stopped_K4x _ _ _ _ _ _ _ E1 HK) as (B1 & B2 & B3). split; [exact B1|split; [exact B2|]].
        rewrite B3. split.
        + intros k0 e0. simpl. rewrite (In_md_discard lid_eqb lid_eqb_eq), (In_md_discard N.eqb Neqb_eq'), (HF k0 e0).
          split; intros [H Hn]; split; auto; intros [H1 H2]; apply Hn; split; congruence.
        + intros k0. rewrite (In_md_discard lid_eqb lid_eqb_eq). split; [tauto|]. intros H. split; auto.
          intros [_ H2]. discriminate. }
    destruct (IH exc s1 s2 e2 _ _ E2 A1 A3) as (C1 & C2 & C3 & C4).
    rewrite view_apply_all_app. split; [exact C1|split; [eapply pol_frame_trans; eassumption|split; [exact C3|]]].
    intros k0. rewrite C4. apply A4.
Qed.
