(* C05 — executable model of
     felix/calc/validation_filter.go   (ValidationFilter.OnUpdates: a value that fails validation becomes nil)
     felix/calc/active_rules_calculator.go (ActiveRulesCalculator: OnUpdate for endpoints / profile rules /
        policies / tiers, updateEndpointProfileIDs, onMatchStarted/Stopped, sendProfileUpdate with the
        DummyDropRules stand-in, sendPolicyUpdate, updateStats)
     felix/labelindex/label_inheritance_index.go, as far as the ARC uses it (UpdateLabels / DeleteLabels /
        UpdateSelector / DeleteSelector and the match-started / match-stopped callbacks).
   Definitions only.  Hand-written; tied to the Go code by the correspondence run (harness/C05).

   Go map iteration order is an explicit input of every step:
     * i_sched : the order in which the label index invokes its match callbacks during this update
                 (scanAllSelectors / scanAllLabels / DeleteSelector range over Go maps);
     * i_ord   : the order in which updateEndpointProfileIDs ranges over its added / removed id maps.
   The theorems quantify over both; the correspondence run reads them off the implementation's own trace.

   Domain (stated, enforced by the driver): no v3 Profile resources are fed (parents carry no labels, so an
   endpoint's effective labels are its own); rules use action / protocol / destination ports / a tag only. *)
From Coq Require Import List NArith Bool.
From Verif.Common Require Import Packet PolicyRef Labels.
Import ListNotations.
Open Scope N_scope.

(* ------------------------------------------------------------------ values *)

(* compact rule; [to_ref] gives its meaning in the reference semantics *)
(* cr_tag: the rule's ip_version (4 / 6), 0 when unset *)
Record crule := { cr_action : action; cr_proto : option N; cr_dports : list (N * N); cr_tag : N }.

Definition to_ref (r : crule) : rule :=
  {| r_action := cr_action r;
     r_ipver := (if N.eqb (cr_tag r) 4 then Some V4 else if N.eqb (cr_tag r) 6 then Some V6 else None);
     r_proto := cr_proto r; r_src_nets := []; r_src_ports := [];
     r_src_named_ports := []; r_dst_nets := []; r_dst_ports := cr_dports r; r_dst_named_ports := []; r_icmp := None;
     r_src_ipsets := []; r_dst_ipsets := []; r_dst_ipport_sets := [];
     r_not_proto := None; r_not_src_nets := []; r_not_src_ports := []; r_not_dst_nets := []; r_not_dst_ports := [];
     r_not_icmp := None; r_not_src_ipsets := []; r_not_dst_ipsets := [];
     r_not_src_named_ports := []; r_not_dst_named_ports := [] |}.

Record prules := { pr_in : list crule; pr_out : list crule }.          (* model.ProfileRules *)

(* calc.DummyDropRules *)
Definition deny_rule : crule := {| cr_action := Deny; cr_proto := None; cr_dports := []; cr_tag := 0 |}.
Definition dummy_drop : prules := {| pr_in := [deny_rule]; pr_out := [deny_rule] |}.

Record policy := {                                                      (* model.Policy *)
  po_tier : N; po_order : option N; po_sel : ast; po_in : list crule; po_out : list crule; po_force : bool }.
Record endpoint := { ep_labels : labels; ep_profiles : list N }.       (* Workload/HostEndpoint: labels, ProfileIDs *)
Record tier := { ti_order : option N; ti_pass : bool }.                 (* model.Tier *)

Inductive key := KProf (n : N) | KPol (n : N) | KEp (n : N) | KTier (n : N).
Inductive value := VProf (r : prules) | VPol (p : policy) | VEp (e : endpoint) | VTier (t : tier).

(* ------------------------------------------------------------------ decidable equality (reflect.DeepEqual) *)

Definition action_eqb (a b : action) : bool :=
  match a, b with Allow, Allow | Deny, Deny | Pass, Pass | Log, Log => true | _, _ => false end.
Definition optN_eqb (a b : option N) : bool :=
  match a, b with None, None => true | Some x, Some y => N.eqb x y | _, _ => false end.
Fixpoint list_eqb {A} (f : A -> A -> bool) (a b : list A) : bool :=
  match a, b with
  | [], [] => true
  | x :: a', y :: b' => f x y && list_eqb f a' b'
  | _, _ => false
  end.
Definition pairN_eqb (a b : N * N) : bool := N.eqb (fst a) (fst b) && N.eqb (snd a) (snd b).
Definition crule_eqb (a b : crule) : bool :=
  action_eqb (cr_action a) (cr_action b) && optN_eqb (cr_proto a) (cr_proto b)
  && list_eqb pairN_eqb (cr_dports a) (cr_dports b) && N.eqb (cr_tag a) (cr_tag b).
Definition prules_eqb (a b : prules) : bool :=
  list_eqb crule_eqb (pr_in a) (pr_in b) && list_eqb crule_eqb (pr_out a) (pr_out b).

Fixpoint ast_eqb (a b : ast) : bool :=
  let fix go (xs ys : list ast) : bool :=
    match xs, ys with
    | [], [] => true
    | x :: xs', y :: ys' => ast_eqb x y && go xs' ys'
    | _, _ => false
    end in
  match a, b with
  | SEq l v, SEq l' v' | SNe l v, SNe l' v' | SContains l v, SContains l' v'
  | SStartsWith l v, SStartsWith l' v' | SEndsWith l v, SEndsWith l' v' => bytes_eqb l l' && bytes_eqb v v'
  | SIn l vs, SIn l' vs' | SNotIn l vs, SNotIn l' vs' => bytes_eqb l l' && list_eqb bytes_eqb vs vs'
  | SHas l, SHas l' => bytes_eqb l l'
  | SAll, SAll | SGlobal, SGlobal => true
  | SNot x, SNot y => ast_eqb x y
  | SAnd xs, SAnd ys | SOr xs, SOr ys => go xs ys
  | _, _ => false
  end.

Definition policy_eqb (a b : policy) : bool :=
  N.eqb (po_tier a) (po_tier b) && optN_eqb (po_order a) (po_order b) && ast_eqb (po_sel a) (po_sel b)
  && list_eqb crule_eqb (po_in a) (po_in b) && list_eqb crule_eqb (po_out a) (po_out b)
  && Bool.eqb (po_force a) (po_force b).

(* ------------------------------------------------------------------ ValidationFilter *)

(* OnUpdates, per update: the key is kept, a value that fails validation is replaced by nil, anything else is
   forwarded untouched.  [validate] is the validator (typha v1 / libcalico v3 + validateWorkloadEndpoint). *)
Definition vf_filter (validate : value -> bool) (ov : option value) : option value :=
  match ov with
  | Some v => if validate v then Some v else None
  | None => None
  end.

(* ------------------------------------------------------------------ small maps *)

Definition amap (V : Type) := list (N * V).
Fixpoint aget {V} (k : N) (m : amap V) : option V :=
  match m with
  | [] => None
  | (k', v) :: m' => if N.eqb k k' then Some v else aget k m'
  end.
Fixpoint adel {V} (k : N) (m : amap V) : amap V :=
  match m with
  | [] => []
  | (k', v) :: m' => if N.eqb k k' then adel k m' else (k', v) :: adel k m'
  end.
Definition aset {V} (k : N) (v : V) (m : amap V) : amap V := (k, v) :: adel k m.

Definition memN (x : N) (l : list N) : bool := existsb (N.eqb x) l.
Fixpoint dedupN (l : list N) : list N :=
  match l with
  | [] => []
  | x :: l' => if memN x l' then dedupN l' else x :: dedupN l'
  end.

(* multidict.Multidict as a list of (key, value) pairs *)
Inductive lid := LEp (e : N) | LForce.       (* label-index item id: an endpoint, or forceProgrammedDummyKey *)
Definition lid_eqb (a b : lid) : bool :=
  match a, b with LEp x, LEp y => N.eqb x y | LForce, LForce => true | _, _ => false end.

Section MD.
  Context {B : Type} (beq : B -> B -> bool).
  Definition md_has_key (k : N) (md : list (N * B)) : bool := existsb (fun x => N.eqb (fst x) k) md.
  Definition md_mem (k : N) (b : B) (md : list (N * B)) : bool :=
    existsb (fun x => N.eqb (fst x) k && beq (snd x) b) md.
  Definition md_put (k : N) (b : B) (md : list (N * B)) : list (N * B) :=
    if md_mem k b md then md else (k, b) :: md.
  Definition md_discard (k : N) (b : B) (md : list (N * B)) : list (N * B) :=
    filter (fun x => negb (N.eqb (fst x) k && beq (snd x) b)) md.
End MD.

(* ------------------------------------------------------------------ events (callbacks out of the ARC) *)

Inductive ev :=
| EProfActive (p : N) (r : prules)        (* RuleScanner.OnProfileActive(key, rules) *)
| EProfInactive (p : N)                   (* RuleScanner.OnProfileInactive(key) *)
| EPolActive (k : N) (q : policy)         (* RuleScanner.OnPolicyActive(key, policy) *)
| EPolInactive (k : N)                    (* RuleScanner.OnPolicyInactive(key) *)
| EMatch (k e : N)                        (* PolicyMatchListener.OnPolicyMatch *)
| EMatchStop (k e : N)                    (* PolicyMatchListener.OnPolicyMatchStopped *)
| EStats (tiers pols profs : N)           (* OnPolicyCountsChanged *)
| EPanic.                                 (* log.Panic in the ARC *)

(* label-index callback: (started?, selector id = policy, item id = endpoint) *)
Definition mev := (bool * N * N)%type.
Definition mev_eqb (a b : mev) : bool :=
  Bool.eqb (fst (fst a)) (fst (fst b)) && N.eqb (snd (fst a)) (snd (fst b)) && N.eqb (snd a) (snd b).

(* ------------------------------------------------------------------ state *)

Record st := {
  s_tiers : amap tier;              (* allTiers *)
  s_pols  : amap policy;            (* allPolicies *)
  s_profs : amap prules;            (* allProfileRules *)
  s_p2e   : list (N * N);           (* profileIDToEndpointKeys *)
  s_k2e   : list (N * lid);         (* policyIDToEndpointKeys *)
  s_epp   : amap (list N);          (* endpointKeyToProfileIDs *)
  (* label index *)
  s_items : amap labels;            (* itemDataByID (own labels; parents carry no labels in the domain) *)
  s_sels  : amap ast;               (* selectorsById *)
  s_lm    : list (N * N)            (* current matches (selector id, item id) *)
}.

Definition st0 : st :=
  {| s_tiers := []; s_pols := []; s_profs := []; s_p2e := []; s_k2e := []; s_epp := [];
     s_items := []; s_sels := []; s_lm := [] |}.

Definition set_p2e (s : st) (x : list (N * N)) : st :=
  {| s_tiers := s_tiers s; s_pols := s_pols s; s_profs := s_profs s; s_p2e := x; s_k2e := s_k2e s;
     s_epp := s_epp s; s_items := s_items s; s_sels := s_sels s; s_lm := s_lm s |}.
Definition set_k2e (s : st) (x : list (N * lid)) : st :=
  {| s_tiers := s_tiers s; s_pols := s_pols s; s_profs := s_profs s; s_p2e := s_p2e s; s_k2e := x;
     s_epp := s_epp s; s_items := s_items s; s_sels := s_sels s; s_lm := s_lm s |}.
Definition set_epp (s : st) (x : amap (list N)) : st :=
  {| s_tiers := s_tiers s; s_pols := s_pols s; s_profs := s_profs s; s_p2e := s_p2e s; s_k2e := s_k2e s;
     s_epp := x; s_items := s_items s; s_sels := s_sels s; s_lm := s_lm s |}.
Definition set_profs (s : st) (x : amap prules) : st :=
  {| s_tiers := s_tiers s; s_pols := s_pols s; s_profs := x; s_p2e := s_p2e s; s_k2e := s_k2e s;
     s_epp := s_epp s; s_items := s_items s; s_sels := s_sels s; s_lm := s_lm s |}.
Definition set_pols (s : st) (x : amap policy) : st :=
  {| s_tiers := s_tiers s; s_pols := x; s_profs := s_profs s; s_p2e := s_p2e s; s_k2e := s_k2e s;
     s_epp := s_epp s; s_items := s_items s; s_sels := s_sels s; s_lm := s_lm s |}.
Definition set_tiers (s : st) (x : amap tier) : st :=
  {| s_tiers := x; s_pols := s_pols s; s_profs := s_profs s; s_p2e := s_p2e s; s_k2e := s_k2e s;
     s_epp := s_epp s; s_items := s_items s; s_sels := s_sels s; s_lm := s_lm s |}.
Definition set_index (s : st) (items : amap labels) (sels : amap ast) (lm : list (N * N)) : st :=
  {| s_tiers := s_tiers s; s_pols := s_pols s; s_profs := s_profs s; s_p2e := s_p2e s; s_k2e := s_k2e s;
     s_epp := s_epp s; s_items := items; s_sels := sels; s_lm := lm |}.

(* ------------------------------------------------------------------ sendProfileUpdate / sendPolicyUpdate *)

(* sendProfileUpdate(profileID, rules): active -> OnProfileActive with the rules, or DummyDropRules when the
   rules are unknown; not active -> OnProfileInactive *)
Definition send_profile_update (s : st) (p : N) (rules : option prules) : ev :=
  if md_has_key p (s_p2e s) then
    EProfActive p (match rules with Some r => r | None => dummy_drop end)
  else EProfInactive p.

Definition send_policy_update (s : st) (k : N) (q : option policy) : ev :=
  if md_has_key k (s_k2e s) then
    match q with Some q => EPolActive k q | None => EPanic end
  else EPolInactive k.

Definition stats (s : st) : ev :=
  EStats (N.of_nat (length (s_tiers s))) (N.of_nat (length (s_pols s))) (N.of_nat (length (s_profs s))).

(* ------------------------------------------------------------------ updateEndpointProfileIDs *)

(* EndpointKeyToProfileIDMap.Update: removed = old ids not in the new list, added = new ids not in the old list
   (a Go map each: no duplicates).  [reorder ord l]: the elements of l in the order the Go map range visits
   them, given as the priority list ord. *)
Definition reorder (ord l : list N) : list N :=
  filter (fun x => memN x l) (dedupN ord) ++ filter (fun x => negb (memN x ord)) l.

Definition ids_removed (old new : list N) : list N := dedupN (filter (fun x => negb (memN x new)) old).
(* the Go loop deletes an id from removedIDs the first time it sees it in the new list, so a SECOND occurrence
   of an id that was already present counts as added (harmless: the profile is then already active) *)
Fixpoint ids_added_loop (rem : list N) (new : list N) : list N :=
  match new with
  | [] => []
  | x :: new' => if memN x rem then ids_added_loop (filter (fun y => negb (N.eqb x y)) rem) new'
                 else x :: ids_added_loop rem new'
  end.
Definition ids_added (old new : list N) : list N := dedupN (ids_added_loop (dedupN old) new).

Fixpoint add_loop (s : st) (e : N) (ids : list N) : st * list ev :=
  match ids with
  | [] => (s, [])
  | p :: ids' =>
      let was := md_has_key p (s_p2e s) in
      let s1 := set_p2e s (md_put N.eqb p e (s_p2e s)) in
      let '(s2, evs) := add_loop s1 e ids' in
      (s2, (if was then [] else [send_profile_update s1 p (aget p (s_profs s1))]) ++ evs)
  end.

Fixpoint rem_loop (s : st) (e : N) (ids : list N) : st * list ev :=
  match ids with
  | [] => (s, [])
  | p :: ids' =>
      let s1 := set_p2e s (md_discard N.eqb p e (s_p2e s)) in
      let '(s2, evs) := rem_loop s1 e ids' in
      (s2, (if md_has_key p (s_p2e s1) then [] else [send_profile_update s1 p (aget p (s_profs s1))]) ++ evs)
  end.

Definition update_ep_profile_ids (s : st) (e : N) (ids ord : list N) : st * list ev :=
  let old := match aget e (s_epp s) with Some l => l | None => [] end in
  let s0 := set_epp s (match ids with [] => adel e (s_epp s) | _ => aset e ids (s_epp s) end) in
  let '(s1, ev1) := add_loop s0 e (reorder ord (ids_added old ids)) in
  let '(s2, ev2) := rem_loop s1 e (reorder ord (ids_removed old ids)) in
  (s2, ev1 ++ ev2).

(* ------------------------------------------------------------------ onMatchStarted / onMatchStopped *)

Definition on_match_started (s : st) (k : N) (l : lid) : st * list ev :=
  let was := md_has_key k (s_k2e s) in
  let s1 := set_k2e s (md_put lid_eqb k l (s_k2e s)) in
  (s1,
   (if was then [] else [match aget k (s_pols s1) with Some q => send_policy_update s1 k (Some q) | None => EPanic end])
   ++ match l with LEp e => [EMatch k e] | LForce => [] end).

Definition on_match_stopped (s : st) (k : N) (l : lid) : st * list ev :=
  let s1 := set_k2e s (md_discard lid_eqb k l (s_k2e s)) in
  (s1,
   (if md_has_key k (s_k2e s1) then [] else [send_policy_update s1 k (aget k (s_pols s1))])
   ++ match l with LEp e => [EMatchStop k e] | LForce => [] end).

Fixpoint run_mevs (s : st) (ms : list mev) : st * list ev :=
  match ms with
  | [] => (s, [])
  | (started, k, e) :: ms' =>
      let '(s1, e1) := if started then on_match_started s k (LEp e) else on_match_stopped s k (LEp e) in
      let '(s2, e2) := run_mevs s1 ms' in
      (s2, e1 ++ e2)
  end.

(* ------------------------------------------------------------------ label index *)

Definition lm_mem (k e : N) (lm : list (N * N)) : bool := md_mem N.eqb k e lm.

(* updateMatches for one (selector, item): the callback it makes, if any *)
Definition match_delta (lm : list (N * N)) (k : N) (sel : ast) (e : N) (labs : labels) : list mev :=
  let now := eval sel labs in
  let before := lm_mem k e lm in
  if now && negb before then [(true, k, e)]
  else if negb now && before then [(false, k, e)] else [].

Definition apply_mev (lm : list (N * N)) (m : mev) : list (N * N) :=
  let '(started, k, e) := m in
  if started then md_put N.eqb k e lm else md_discard N.eqb k e lm.

(* callbacks in the order the implementation made them (sched), then any the schedule does not mention *)
Definition order_mevs (sched exp : list mev) : list mev :=
  filter (fun m => existsb (mev_eqb m) exp) sched ++ filter (fun m => negb (existsb (mev_eqb m) sched)) exp.

(* UpdateLabels(e, labs, parents): scanAllSelectors *)
Definition idx_update_labels (s : st) (e : N) (labs : labels) (sched : list mev) : st * list mev :=
  let exp := flat_map (fun ks => match_delta (s_lm s) (fst ks) (snd ks) e labs) (s_sels s) in
  let ms := order_mevs sched exp in
  (set_index s (aset e labs (s_items s)) (s_sels s) (fold_left apply_mev ms (s_lm s)), ms).

(* DeleteLabels(e) *)
Definition idx_delete_labels (s : st) (e : N) (sched : list mev) : st * list mev :=
  let exp := map (fun x => (false, fst x, e)) (filter (fun x => N.eqb (snd x) e) (s_lm s)) in
  let ms := order_mevs sched exp in
  (set_index s (adel e (s_items s)) (s_sels s) (fold_left apply_mev ms (s_lm s)), ms).

(* UpdateSelector(k, sel): skipped when the selector is unchanged, else scanAllLabels *)
Definition idx_update_selector (s : st) (k : N) (sel : ast) (sched : list mev) : st * list mev :=
  match aget k (s_sels s) with
  | Some old => if ast_eqb old sel then (s, []) else
      let exp := flat_map (fun el => match_delta (s_lm s) k sel (fst el) (snd el)) (s_items s) in
      let ms := order_mevs sched exp in
      (set_index s (s_items s) (aset k sel (s_sels s)) (fold_left apply_mev ms (s_lm s)), ms)
  | None =>
      let exp := flat_map (fun el => match_delta (s_lm s) k sel (fst el) (snd el)) (s_items s) in
      let ms := order_mevs sched exp in
      (set_index s (s_items s) (aset k sel (s_sels s)) (fold_left apply_mev ms (s_lm s)), ms)
  end.

(* DeleteSelector(k) *)
Definition idx_delete_selector (s : st) (k : N) (sched : list mev) : st * list mev :=
  let exp := map (fun x => (false, k, snd x)) (filter (fun x => N.eqb (fst x) k) (s_lm s)) in
  let ms := order_mevs sched exp in
  (set_index s (s_items s) (adel k (s_sels s)) (fold_left apply_mev ms (s_lm s)), ms).

(* ------------------------------------------------------------------ OnUpdate *)

Record input := { i_key : key; i_val : option value; i_sched : list mev; i_ord : list N }.

Definition force_of (q : option policy) : bool := match q with Some q => po_force q | None => false end.

Definition arc_update (s : st) (i : input) : st * list ev :=
  match i_key i, i_val i with
  (* WorkloadEndpointKey / HostEndpointKey *)
  | KEp e, Some (VEp ep) =>
      let '(s1, ev1) := update_ep_profile_ids s e (ep_profiles ep) (i_ord i) in
      let '(s2, ms) := idx_update_labels s1 e (ep_labels ep) (i_sched i) in
      let '(s3, ev2) := run_mevs s2 ms in
      (s3, ev1 ++ ev2)
  | KEp e, None =>
      let '(s1, ev1) := update_ep_profile_ids s e [] (i_ord i) in
      let '(s2, ms) := idx_delete_labels s1 e (i_sched i) in
      let '(s3, ev2) := run_mevs s2 ms in
      (s3, ev1 ++ ev2)
  (* ProfileRulesKey *)
  | KProf p, Some (VProf r) =>
      match aget p (s_profs s) with
      | Some old => if prules_eqb old r then (s, []) else
          let s1 := set_profs s (aset p r (s_profs s)) in
          (s1, (if md_has_key p (s_p2e s1) then [send_profile_update s1 p (Some r)] else []) ++ [stats s1])
      | None =>
          let s1 := set_profs s (aset p r (s_profs s)) in
          (s1, (if md_has_key p (s_p2e s1) then [send_profile_update s1 p (Some r)] else []) ++ [stats s1])
      end
  | KProf p, None =>
      let s1 := set_profs s (adel p (s_profs s)) in
      (s1, (if md_has_key p (s_p2e s1) then [send_profile_update s1 p None] else []) ++ [stats s1])
  (* PolicyKey *)
  | KPol k, Some (VPol q) =>
      let old := aget k (s_pols s) in
      if match old with Some o => policy_eqb o q | None => false end then (s, []) else
      let s1 := set_pols s (aset k q (s_pols s)) in
      let '(s2, ev1) := if negb (force_of old) && po_force q then on_match_started s1 k LForce else (s1, []) in
      let '(s3, ms) := idx_update_selector s2 k (po_sel q) (i_sched i) in
      let '(s4, ev2) := run_mevs s3 ms in
      let '(s5, ev3) := if force_of old && negb (po_force q) then on_match_stopped s4 k LForce else (s4, []) in
      (s5, ev1 ++ ev2 ++ ev3
           ++ (if md_has_key k (s_k2e s5) then [send_policy_update s5 k (Some q)] else []) ++ [stats s5])
  | KPol k, None =>
      let old := aget k (s_pols s) in
      let s1 := set_pols s (adel k (s_pols s)) in
      let '(s2, ev1) := if force_of old then on_match_stopped s1 k LForce else (s1, []) in
      let '(s3, ms) := idx_delete_selector s2 k (i_sched i) in
      let '(s4, ev2) := run_mevs s3 ms in
      (s4, ev1 ++ ev2 ++ [stats s4])
  (* TierKey *)
  | KTier t, Some (VTier ti) =>
      let s1 := set_tiers s (aset t ti (s_tiers s)) in (s1, [stats s1])
  | KTier t, None =>
      let s1 := set_tiers s (adel t (s_tiers s)) in (s1, [stats s1])
  (* a value of the wrong type for its key: the Go type assertion panics *)
  | _, Some _ => (s, [EPanic])
  end.

(* ------------------------------------------------------------------ the pipeline: filter, then ARC *)

Definition step (validate : value -> bool) (s : st) (i : input) : st * list ev :=
  arc_update s {| i_key := i_key i; i_val := vf_filter validate (i_val i); i_sched := i_sched i; i_ord := i_ord i |}.

(* one list of emitted events per input *)
Fixpoint run (validate : value -> bool) (s : st) (h : list input) : list (list ev) :=
  match h with
  | [] => []
  | i :: h' => let '(s', evs) := step validate s i in evs :: run validate s' h'
  end.

Fixpoint final (validate : value -> bool) (s : st) (h : list input) : st :=
  match h with
  | [] => s
  | i :: h' => final validate (fst (step validate s i)) h'
  end.

(* ------------------------------------------------------------------ batches (ValidationFilter.OnUpdates takes a slice) *)

(* OnUpdates(updates): the forwarded batch has the same length and keys; position by position the value is the
   input's value or nil, decided by that value alone - independent of the batch's other members *)
Definition vf_filter_input (validate : value -> bool) (i : input) : input :=
  {| i_key := i_key i; i_val := vf_filter validate (i_val i); i_sched := i_sched i; i_ord := i_ord i |}.
Definition vf_filter_batch (validate : value -> bool) (b : list input) : list input := map (vf_filter_input validate) b.

(* the sink behind the filter hands the forwarded batch to the ARC update by update, in order *)
Fixpoint arc_batch (s : st) (b : list input) : st * list (list ev) :=
  match b with
  | [] => (s, [])
  | i :: b' => let '(s1, evs) := arc_update s i in
               let '(s2, evss) := arc_batch s1 b' in (s2, evs :: evss)
  end.

Definition step_batch (validate : value -> bool) (s : st) (b : list input) : st * list (list ev) :=
  arc_batch s (vf_filter_batch validate b).

(* a history delivered as a list of batches: one list of emitted events per update, in delivery order *)
Fixpoint run_batches (validate : value -> bool) (s : st) (hb : list (list input)) : list (list ev) :=
  match hb with
  | [] => []
  | b :: hb' => let '(s', evss) := step_batch validate s b in evss ++ run_batches validate s' hb'
  end.

(* ------------------------------------------------------------------ event equality (for the correspondence) *)

Definition ev_eqb (a b : ev) : bool :=
  match a, b with
  | EProfActive p r, EProfActive p' r' => N.eqb p p' && prules_eqb r r'
  | EProfInactive p, EProfInactive p' => N.eqb p p'
  | EPolActive k q, EPolActive k' q' => N.eqb k k' && policy_eqb q q'
  | EPolInactive k, EPolInactive k' => N.eqb k k'
  | EMatch k e, EMatch k' e' | EMatchStop k e, EMatchStop k' e' => N.eqb k k' && N.eqb e e'
  | EStats a b c, EStats a' b' c' => N.eqb a a' && N.eqb b b' && N.eqb c c'
  | EPanic, EPanic => true
  | _, _ => false
  end.
