(* C05 — every ARC update preserves the profile invariants; the ARC's caches are the filtered datastore. *)
From Coq Require Import List NArith Bool Lia.
From Verif.Common Require Import Packet PolicyRef Labels.
From Verif.C05 Require Import Model Spec ProofsFilter ProofsProfiles.
Import ListNotations.
Open Scope N_scope.

Local Arguments aset {V} k v m : simpl never.
Local Arguments adel {V} k m : simpl never.

Definition nonprof (es : list ev) : Prop := forallb (fun e => negb (is_prof_ev e)) es = true.
Definition prof_frame (s s' : st) : Prop :=
  s_profs s' = s_profs s /\ s_p2e s' = s_p2e s /\ s_epp s' = s_epp s.

Lemma prof_frame_refl : forall s, prof_frame s s.
Proof. intros; repeat split. Qed.
Lemma prof_frame_trans : forall a b c, prof_frame a b -> prof_frame b c -> prof_frame a c.
Proof. intros a b c (A1 & A2 & A3) (B1 & B2 & B3). repeat split; congruence. Qed.
Lemma nonprof_app : forall a b, nonprof a -> nonprof b -> nonprof (a ++ b).
Proof. intros. unfold nonprof in *. rewrite forallb_app, H, H0. reflexivity. Qed.
Lemma nonprof_nil : nonprof [].
Proof. reflexivity. Qed.

Lemma send_policy_update_nonprof : forall s k q, is_prof_ev (send_policy_update s k q) = false.
Proof. intros. unfold send_policy_update. destruct (md_has_key k (s_k2e s)); [destruct q|]; reflexivity. Qed.

Lemma on_match_started_frame : forall s k l s' evs,
  on_match_started s k l = (s', evs) -> prof_frame s s' /\ nonprof evs.
Proof.
  intros s k l s' evs H. unfold on_match_started in H. inversion H; subst. clear H. split; [repeat split|].
  apply nonprof_app.
  - destruct (md_has_key k (s_k2e s)); [reflexivity|]. unfold nonprof. simpl.
    destruct (aget k _); [rewrite send_policy_update_nonprof|]; reflexivity.
  - destruct l; reflexivity.
Qed.

Lemma on_match_stopped_frame : forall s k l s' evs,
  on_match_stopped s k l = (s', evs) -> prof_frame s s' /\ nonprof evs.
Proof.
  intros s k l s' evs H. unfold on_match_stopped in H. inversion H; subst. clear H. split; [repeat split|].
  apply nonprof_app.
  - match goal with |- nonprof (if ?c then _ else _) => destruct c end; [reflexivity|]. unfold nonprof. simpl.
    rewrite send_policy_update_nonprof. reflexivity.
  - destruct l; reflexivity.
Qed.

Lemma run_mevs_frame : forall ms s s' evs, run_mevs s ms = (s', evs) -> prof_frame s s' /\ nonprof evs.
Proof.
  induction ms as [|[[b k] e] ms IH]; intros s s' evs H; simpl in H.
  - inversion H; subst. split; [apply prof_frame_refl|reflexivity].
  - destruct (if b then on_match_started s k (LEp e) else on_match_stopped s k (LEp e)) as [s1 e1] eqn:E1.
    destruct (run_mevs s1 ms) as [s2 e2] eqn:E2. inversion H; subst. clear H.
    destruct (IH _ _ _ E2) as [F2 N2].
    assert (prof_frame s s1 /\ nonprof e1) as [F1 N1].
    { destruct b; [eapply on_match_started_frame|eapply on_match_stopped_frame]; eassumption. }
    split; [eapply prof_frame_trans; eassumption|apply nonprof_app; assumption].
Qed.

Lemma idx_update_labels_frame : forall s e l sc s' ms, idx_update_labels s e l sc = (s', ms) -> prof_frame s s'.
Proof. intros. unfold idx_update_labels in H. inversion H; subst. repeat split. Qed.
Lemma idx_delete_labels_frame : forall s e sc s' ms, idx_delete_labels s e sc = (s', ms) -> prof_frame s s'.
Proof. intros. unfold idx_delete_labels in H. inversion H; subst. repeat split. Qed.
Lemma idx_update_selector_frame : forall s k a sc s' ms, idx_update_selector s k a sc = (s', ms) -> prof_frame s s'.
Proof.
  intros. unfold idx_update_selector in H. destruct (aget k (s_sels s)); [destruct (ast_eqb a0 a)|]; inversion H; subst; repeat split.
Qed.
Lemma idx_delete_selector_frame : forall s k sc s' ms, idx_delete_selector s k sc = (s', ms) -> prof_frame s s'.
Proof. intros. unfold idx_delete_selector in H. inversion H; subst. repeat split. Qed.

(* invariants are insensitive to the policy side *)
Lemma I1_frame : forall s s', prof_frame s s' -> I1 s -> I1 s'.
Proof. intros s s' (A & B & C) H p e. rewrite B, C. apply H. Qed.
Lemma I2_frame : forall s s' v es, prof_frame s s' -> nonprof es -> I2 s v -> I2 s' (view_apply_all v es).
Proof. intros s s' v es (A & B & C) Hn H p. rewrite (view_nonprof es v Hn), A, B. apply H. Qed.

Lemma stats_nonprof : forall s, nonprof [stats s].
Proof. reflexivity. Qed.

(* ------------------------------------------------------------------ abstraction: caches = filtered datastore *)

Definition ep_ids (oe : option endpoint) : option (list N) :=
  match oe with
  | Some ep => match ep_profiles ep with [] => None | l => Some l end
  | None => None
  end.

Definition Rds (s : st) (d : ds) : Prop :=
  (forall p, aget p (s_profs s) = aget p (d_profs d)) /\
  (forall e, aget e (s_epp s) = ep_ids (aget e (d_eps d))).

Definition Inv (s : st) (v : view) (d : ds) : Prop := I1 s /\ I2 s v /\ Rds s d.

Lemma Inv0 : Inv st0 view0 ds0.
Proof.
  split; [|split; [|split]].
  - intros p e. simpl. split; [contradiction|]. intros [ids [H _]]. discriminate.
  - intros p. reflexivity.
  - intros p. reflexivity.
  - intros e. reflexivity.
Qed.

Ltac frame_case F N :=
  (split; [|split; [|split]]);
  [ eapply I1_frame; [exact F|assumption]
  | eapply I2_frame; [exact F|exact N|assumption]
  | destruct F as (F1 & F2 & F3); intros ?; rewrite F1; auto
  | destruct F as (F1 & F2 & F3); intros ?; rewrite F3; auto ].

Lemma arc_update_Inv : forall s i s' evs v d,
  arc_update s i = (s', evs) -> Inv s v d ->
  Inv s' (view_apply_all v evs) (ds_apply d (i_key i) (i_val i)).
Proof.
  intros s i s' evs v d H (H1 & H2 & [R1 R2]). unfold arc_update in H.
  destruct (i_key i) as [p|k|e|t] eqn:Ek; destruct (i_val i) as [[r|q|ep|ti]|] eqn:Ev;
    try (inversion H; subst; simpl; (split; [|split; [|split]]); auto; fail).
  - (* profile rules written *)
    simpl.
    assert (Hset : forall s1, s1 = set_profs s (aset p r (s_profs s)) ->
       (s1, (if md_has_key p (s_p2e s1) then [send_profile_update s1 p (Some r)] else []) ++ [stats s1]) = (s', evs) ->
       Inv s' (view_apply_all v evs) {| d_profs := aset p r (d_profs d); d_pols := d_pols d; d_eps := d_eps d; d_tiers := d_tiers d |}).
    { intros s1 Hs1 Heq. inversion Heq; subst s' evs. clear Heq. subst s1. simpl.
      split; [|split; [|split]].
      - exact H1.
      - intros q. cbn [s_p2e set_profs s_profs]. rewrite view_apply_all_app.
        rewrite (view_nonprof [stats _] _ (stats_nonprof _)).
        unfold send_profile_update. cbn [s_p2e set_profs].
        destruct (md_has_key p (s_p2e s)) eqn:Eact.
        + cbn [view_apply_all fold_left view_apply v_profs].
          destruct (N.eq_dec q p) as [->|Hne].
          * rewrite aget_aset_same, Eact. unfold resolve. rewrite aget_aset_same. reflexivity.
          * rewrite aget_aset_other by assumption. rewrite H2. unfold resolve. rewrite aget_aset_other by assumption. reflexivity.
        + cbn [view_apply_all fold_left]. rewrite H2.
          destruct (N.eq_dec q p) as [->|Hne].
          * rewrite Eact. reflexivity.
          * unfold resolve. rewrite aget_aset_other by assumption. reflexivity.
      - intros q. cbn [s_profs set_profs d_profs d_eps s_epp set_epp d_pols d_tiers]. destruct (N.eq_dec q p) as [->|Hne].
        + rewrite !aget_aset_same. reflexivity.
        + rewrite !aget_aset_other by assumption. apply R1.
      - intros e. cbn [s_profs set_profs d_profs d_eps s_epp set_epp d_pols d_tiers]. apply R2. }
    destruct (aget p (s_profs s)) as [old|] eqn:Eold.
    + destruct (prules_eqb old r) eqn:Eeq.
      * (* no-op write *)
        inversion H; subst s' evs. clear H. apply prules_eqb_eq in Eeq. subst old.
        (split; [|split; [|split]]); auto.
        -- intros q. cbn [s_profs set_profs d_profs d_eps s_epp set_epp d_pols d_tiers]. destruct (N.eq_dec q p) as [->|Hne].
           ++ rewrite aget_aset_same. assumption.
           ++ rewrite aget_aset_other by assumption. apply R1.
      * eapply Hset; [reflexivity|exact H].
    + eapply Hset; [reflexivity|exact H].
  - (* profile rules deleted (or invalid) *)
    inversion H; subst s' evs. clear H. simpl. split; [|split; [|split]].
    + exact H1.
    + intros q. cbn [s_p2e set_profs s_profs]. rewrite view_apply_all_app.
      rewrite (view_nonprof [stats _] _ (stats_nonprof _)).
      unfold send_profile_update. cbn [s_p2e set_profs].
      destruct (md_has_key p (s_p2e s)) eqn:Eact.
      * cbn [view_apply_all fold_left view_apply v_profs].
        destruct (N.eq_dec q p) as [->|Hne].
        -- rewrite aget_aset_same, Eact. unfold resolve. rewrite aget_adel_same. reflexivity.
        -- rewrite aget_aset_other by assumption. rewrite H2. unfold resolve. rewrite aget_adel_other by assumption. reflexivity.
      * cbn [view_apply_all fold_left]. rewrite H2.
        destruct (N.eq_dec q p) as [->|Hne].
        -- rewrite Eact. reflexivity.
        -- unfold resolve. rewrite aget_adel_other by assumption. reflexivity.
    + intros q. cbn [s_profs set_profs d_profs d_eps s_epp set_epp d_pols d_tiers]. destruct (N.eq_dec q p) as [->|Hne].
      * rewrite !aget_adel_same. reflexivity.
      * rewrite !aget_adel_other by assumption. apply R1.
    + intros e. cbn [s_profs set_profs d_profs d_eps s_epp set_epp d_pols d_tiers]. apply R2.
  - (* policy written *)
    simpl.
    destruct (match aget k (s_pols s) with Some o => policy_eqb o q | None => false end).
    { inversion H; subst. (split; [|split; [|split]]); auto. }
    set (s1 := set_pols s (aset k q (s_pols s))) in *.
    destruct (if negb (force_of (aget k (s_pols s))) && po_force q then on_match_started s1 k LForce else (s1, [])) as [s2 ev1] eqn:E1.
    destruct (idx_update_selector s2 k (po_sel q) (i_sched i)) as [s3 ms] eqn:E2.
    destruct (run_mevs s3 ms) as [s4 ev2] eqn:E3.
    destruct (if force_of (aget k (s_pols s)) && negb (po_force q) then on_match_stopped s4 k LForce else (s4, [])) as [s5 ev3] eqn:E4.
    inversion H; subst s' evs. clear H.
    assert (F01 : prof_frame s s1) by (repeat split).
    assert (prof_frame s1 s2 /\ nonprof ev1) as [F12 N1].
    { destruct (negb (force_of (aget k (s_pols s))) && po_force q).
      - eapply on_match_started_frame; eassumption.
      - inversion E1; subst. split; [apply prof_frame_refl|reflexivity]. }
    assert (F23 := idx_update_selector_frame _ _ _ _ _ _ E2).
    destruct (run_mevs_frame _ _ _ _ E3) as [F34 N2].
    assert (prof_frame s4 s5 /\ nonprof ev3) as [F45 N3].
    { destruct (force_of (aget k (s_pols s)) && negb (po_force q)).
      - eapply on_match_stopped_frame; eassumption.
      - inversion E4; subst. split; [apply prof_frame_refl|reflexivity]. }
    assert (F : prof_frame s s5) by (repeat (eapply prof_frame_trans; [eassumption|]); apply prof_frame_refl).
    assert (N : nonprof (ev1 ++ ev2 ++ ev3 ++ (if md_has_key k (s_k2e s5) then [send_policy_update s5 k (Some q)] else []) ++ [stats s5])).
    { repeat apply nonprof_app; auto; try reflexivity.
      destruct (md_has_key k (s_k2e s5)); [|reflexivity]. unfold nonprof. simpl. rewrite send_policy_update_nonprof. reflexivity. }
    frame_case F N.
  - (* policy deleted *)
    simpl.
    set (s1 := set_pols s (adel k (s_pols s))) in *.
    destruct (if force_of (aget k (s_pols s)) then on_match_stopped s1 k LForce else (s1, [])) as [s2 ev1] eqn:E1.
    destruct (idx_delete_selector s2 k (i_sched i)) as [s3 ms] eqn:E2.
    destruct (run_mevs s3 ms) as [s4 ev2] eqn:E3.
    inversion H; subst s' evs. clear H.
    assert (F01 : prof_frame s s1) by (repeat split).
    assert (prof_frame s1 s2 /\ nonprof ev1) as [F12 N1].
    { destruct (force_of (aget k (s_pols s))).
      - eapply on_match_stopped_frame; eassumption.
      - inversion E1; subst. split; [apply prof_frame_refl|reflexivity]. }
    assert (F23 := idx_delete_selector_frame _ _ _ _ _ E2).
    destruct (run_mevs_frame _ _ _ _ E3) as [F34 N2].
    assert (F : prof_frame s s4) by (repeat (eapply prof_frame_trans; [eassumption|]); apply prof_frame_refl).
    assert (N : nonprof (ev1 ++ ev2 ++ [stats s4])) by (repeat apply nonprof_app; auto; reflexivity).
    frame_case F N.
  - (* endpoint written *)
    simpl.
    destruct (update_ep_profile_ids s e (ep_profiles ep) (i_ord i)) as [s1 ev1] eqn:E1.
    destruct (idx_update_labels s1 e (ep_labels ep) (i_sched i)) as [s2 ms] eqn:E2.
    destruct (run_mevs s2 ms) as [s3 ev2] eqn:E3.
    inversion H; subst s' evs. clear H.
    destruct (update_ep_profile_ids_spec _ _ _ _ _ _ _ E1 H1 H2) as (A1 & A2 & A3 & A4 & _).
    assert (F12 := idx_update_labels_frame _ _ _ _ _ _ E2).
    destruct (run_mevs_frame _ _ _ _ E3) as [F23 N2].
    assert (F : prof_frame s1 s3) by (eapply prof_frame_trans; eassumption).
    rewrite view_apply_all_app. split; [|split; [|split]].
    + eapply I1_frame; eassumption.
    + eapply I2_frame; eassumption.
    + destruct F as (F1 & F2 & F3). intros q. rewrite F1, A3. apply R1.
    + destruct F as (F1 & F2 & F3). intros e'. rewrite F3, A4. cbn [s_profs set_profs d_profs d_eps s_epp set_epp d_pols d_tiers].
      destruct (N.eq_dec e' e) as [->|Hne].
      * rewrite aget_new_epp_same, aget_aset_same. unfold ep_ids. destruct (ep_profiles ep); reflexivity.
      * rewrite aget_new_epp_other, aget_aset_other by assumption. apply R2.
  - (* endpoint deleted *)
    simpl.
    destruct (update_ep_profile_ids s e [] (i_ord i)) as [s1 ev1] eqn:E1.
    destruct (idx_delete_labels s1 e (i_sched i)) as [s2 ms] eqn:E2.
    destruct (run_mevs s2 ms) as [s3 ev2] eqn:E3.
    inversion H; subst s' evs. clear H.
    destruct (update_ep_profile_ids_spec _ _ _ _ _ _ _ E1 H1 H2) as (A1 & A2 & A3 & A4 & _).
    assert (F12 := idx_delete_labels_frame _ _ _ _ _ E2).
    destruct (run_mevs_frame _ _ _ _ E3) as [F23 N2].
    assert (F : prof_frame s1 s3) by (eapply prof_frame_trans; eassumption).
    rewrite view_apply_all_app. split; [|split; [|split]].
    + eapply I1_frame; eassumption.
    + eapply I2_frame; eassumption.
    + destruct F as (F1 & F2 & F3). intros q. rewrite F1, A3. apply R1.
    + destruct F as (F1 & F2 & F3). intros e'. rewrite F3, A4. cbn [s_profs set_profs d_profs d_eps s_epp set_epp d_pols d_tiers].
      destruct (N.eq_dec e' e) as [->|Hne].
      * rewrite aget_new_epp_same, aget_adel_same. reflexivity.
      * rewrite aget_new_epp_other, aget_adel_other by assumption. apply R2.
Qed.
