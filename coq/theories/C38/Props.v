(* C38 — property theorems only.  Each is closed by `exact <lemma>` and followed by Print Assumptions.

   Reading guide.  [run_op w o os] runs one CNI invocation (ADD or DEL) of the plugin model from world [w] (allocation
   table + upgrade marker) where [os] are the answers of the abstract IPAM to the calls the invocation makes, one per
   call; it is [Some] exactly when every answer satisfies the IPAM contract [admissible] (Model.v) and the
   invocation consumed all of them.  The answers are universally quantified: any call may fail (before, after or in
   the middle of its effect), AutoAssign may hand back fewer addresses than asked.  [run_ops] runs a history of
   invocations on arbitrary containers.  [clean c s]: the table [s] has no address under either handle of
   container [c] (primary "<network>.<containerID>", legacy "<namespace>.<pod>" / "<containerID>"). *)
From Coq Require Import String List NArith Bool Arith.
From Verif.C38 Require Import Model Spec Proofs Multi MultiSpec History.
Import ListNotations.

(* Once the final delete succeeds no address remains allocated to that container's handles: for EVERY history of
   adds and deletes (any containers, any requests, any admissible fault pattern) followed by a delete of c that
   reports success. *)
Theorem c38_final_del_clean : forall w hist c os w' rs,
  run_ops w (hist ++ [(OpDel c, os)]) = Some (w', rs) -> last rs RFail = RDelOk -> clean c (w_store w').
Proof. exact final_del_clean. Qed.
Print Assumptions c38_final_del_clean.

(* No leak: whatever is in the table after a history was there before it or sits under the primary handle of a
   container that was ADDed in the history (so that container's successful delete removes it). *)
Theorem c38_allocations_only_under_own_handle : forall hist w w' rs,
  run_ops w hist = Some (w', rs) ->
  forall p, In p (w_store w') ->
    In p (w_store w) \/ exists c q os, In (OpAdd c q, os) hist /\ snd p = primary c.
Proof. exact provenance. Qed.
Print Assumptions c38_allocations_only_under_own_handle.

(* Life cycle of one container: after any sequence of its adds and deletes (failed, partial, repeated, dual
   stack ...) and a final successful delete, nothing is left under its handles, the table is a subset of what it
   was before the container existed, and no allocation of any other handle was touched. *)
Theorem c38_container_lifecycle : forall hist c osd w w' rs,
  (forall o os, In (o, os) hist -> about c o) ->
  run_ops w (hist ++ [(OpDel c, osd)]) = Some (w', rs) -> last rs RFail = RDelOk ->
  clean c (w_store w') /\
  incl (w_store w') (w_store w) /\
  (forall p, In p (w_store w) -> snd p <> primary c -> snd p <> legacy c -> In p (w_store w')).
Proof. exact lifecycle. Qed.
Print Assumptions c38_container_lifecycle.

(* Delete is idempotent and harmless.  For one delete invocation with ANY admissible answers:
   it never allocates, removes only addresses of the container's two handles, reports success or failure (nothing
   else), leaves nothing behind when it reports success, fails only if some IPAM call failed with an error other
   than "not found", and on a container that holds nothing it succeeds and changes nothing whenever no IPAM call
   fails. *)
Theorem c38_del_idempotent : forall w c os w' r cs,
  run_op w (OpDel c) os = Some (w', r, cs) ->
  w_marker w' = w_marker w /\
  incl (w_store w') (w_store w) /\
  (forall p, In p (w_store w) -> ~ In p (w_store w') -> snd p = primary c \/ snd p = legacy c) /\
  (r = RDelOk -> clean c (w_store w')) /\
  (clean c (w_store w) -> Forall (fun o => is_other (o_err o) = false) os -> r = RDelOk /\ w' = w) /\
  (r = RDelOk \/ r = RFail) /\
  (r = RFail -> Forall (fun o => is_other (o_err o) = false) os -> False).
Proof. exact run_op_del_spec. Qed.
Print Assumptions c38_del_idempotent.

(* Repeated deletes: after a successful delete every further delete whose IPAM calls do not fail succeeds and
   leaves the world exactly as it was ... *)
Theorem c38_del_repeat : forall w c os1 w1 cs1 os2 w2 r2 cs2,
  run_op w (OpDel c) os1 = Some (w1, RDelOk, cs1) ->
  Forall (fun o => is_other (o_err o) = false) os2 ->
  run_op w1 (OpDel c) os2 = Some (w2, r2, cs2) ->
  r2 = RDelOk /\ w2 = w1.
Proof. exact del_repeat. Qed.
Print Assumptions c38_del_repeat.

(* ... and such a run exists (the IPAM answers "not found" twice): the statement above is not vacuous. *)
Theorem c38_del_repeat_exists : forall w c, clean c (w_store w) ->
  run_op w (OpDel c) [notfound; notfound] =
  Some (w, RDelOk, [(CRelH (primary c), true); (CRelH (legacy c), true)]).
Proof. exact del_repeat_exists. Qed.
Print Assumptions c38_del_repeat_exists.

(* A successful add holds an address for every requested family: the address is in the reported result AND is
   allocated to the container's primary handle in the table (for a requested address: exactly that address).
   Also for every add: it never removes a pre-existing allocation, everything it leaves is under the container's
   primary handle, and a failed add whose IPAM calls all reported success (half success without error: the
   dual-stack roll-back path) leaves the table as it found it. *)
Theorem c38_add_success_has_all_families : forall w c q os w' r cs,
  run_op w (OpAdd c q) os = Some (w', r, cs) ->
  incl (w_store w) (w_store w') /\
  (forall p, In p (w_store w') -> In p (w_store w) \/ snd p = primary c) /\
  (forall ips, r = RAddOk ips -> add_goal c q ips (w_store w')) /\
  (r = RFail -> Forall (fun o => o_err o = ENone) os -> incl (w_store w') (w_store w)) /\
  r <> RPanic /\ r <> RDelOk.
Proof. exact run_op_add_spec. Qed.
Print Assumptions c38_add_success_has_all_families.

(* Dual stack (both families requested).  What the code guarantees, precisely:
   - if AutoAssign itself returns an error, the add fails WITHOUT attempting any release: whatever AutoAssign
     allocated before failing (e.g. the IPv4 address when the IPv6 assignment errors) stays allocated -- under the
     container's primary handle (previous theorem), so it is removed by the next successful delete
     (c38_final_del_clean), not by the add;
   - if AutoAssign returns no error but exactly one family came back empty, the add fails after exactly one
     ReleaseIPs call (made outside the host-wide lock) for exactly the other family's addresses; if that call
     succeeds the table is back to what it was, if it fails the error is only logged and the address again stays
     under the primary handle until a delete. *)
Theorem c38_dualstack_rollback : forall w c a4 a6 os w' r cs,
  num4 a4 = 1 -> num6 a6 = 1 ->
  run_op w (OpAdd c (RAuto a4 a6)) os = Some (w', r, cs) ->
  exists o os1, os = o :: os1 /\
    (o_err o <> ENone ->
       r = RFail /\ cs = [(CAuto (primary c) 1 1, true)] /\ os1 = [] /\ w_store w' = apply_out (w_store w) o) /\
    (o_err o = ENone ->
       forall l4 l6, l4 = olist (o_r4 o) -> l6 = olist (o_r6 o) ->
       ((l4 = [] /\ l6 <> []) \/ (l4 <> [] /\ l6 = [])) ->
       r = RFail /\ cs = [(CAuto (primary c) 1 1, true); (CRelIPs (l4 ++ l6), false)] /\
       exists o', os1 = [o'] /\ (o_err o' = ENone -> incl (w_store w') (w_store w))).
Proof. exact dualstack_shape. Qed.
Print Assumptions c38_dualstack_rollback.

(* The specification oracle of Spec.v (the one applied to the implementation's observations by the correspondence
   run) accepts every invocation of the model, for all worlds, operations and admissible answers. *)
Theorem c38_model_meets_spec : forall w o ks w' r cs,
  run_op w o (map k_out ks) = Some (w', r, cs) ->
  ok_step (w_store w) {| s_op := o; s_calls := ks; s_res := r; s_marker := w_marker w'; s_store := w_store w' |} = true.
Proof. exact model_meets_spec. Qed.
Print Assumptions c38_model_meets_spec.

(* ... and every whole history: the oracle, folded over the observation sequence exactly as the correspondence run
   folds it over an implementation trace (ok_steps), accepts every history the model can produce. *)
Theorem c38_model_meets_spec_history : forall h w l,
  model_steps w h = Some l -> ok_steps (w_store w) l = true.
Proof. exact model_steps_ok. Qed.
Print Assumptions c38_model_meets_spec_history.

(* ---------------------------------------------------------------- below the abstract IPAM (Multi.v)
   The IPAM library's handle bookkeeping, one datastore access at a time, every access may fail (request lost):
   ReleaseByHandle / releaseByHandle / decrementHandle / decrementBlock, incrementHandle + block write + roll-back,
   ReleaseIPs of one address.  [block_of] is ANY assignment of addresses to blocks (any pools / block sizes), so a
   handle may span any number of blocks (dual stack: two).  [covers]: no handle object under-counts any block. *)

(* The invariant holds in every state reachable from the empty datastore by any history of assignments, releases by
   address, releases by handle and whole deletes, each cut short by faults at arbitrary accesses. *)
Theorem c38_handle_never_undercounts : forall (block_of : addr -> N) l,
  covers block_of (crun block_of (cempty) l).
Proof. intros block_of l. apply crun_covers, covers_empty. Qed.
Print Assumptions c38_handle_never_undercounts.

(* Under the invariant, ReleaseByHandle with any fault pattern keeps the invariant, only removes addresses of that
   handle, leaves NOTHING under the handle in any block when it reports success, and reports "not found" only when
   the handle holds nothing (then it changes nothing). *)
Theorem c38_release_by_handle_multiblock : forall (block_of : addr -> N) h st fs st' e fs',
  covers block_of st ->
  release_by_handle block_of true h st fs = (st', e, fs') ->
  covers block_of st' /\
  incl (tab st') (tab st) /\
  (forall p, In p (tab st) -> ~ In p (tab st') -> snd p = h) /\
  (e = ENone -> forall p, In p (tab st') -> snd p <> h) /\
  (e = ENotFound -> st' = st /\ forall p, In p (tab st) -> snd p <> h).
Proof. exact release_by_handle_spec. Qed.
Print Assumptions c38_release_by_handle_multiblock.

(* ... i.e. it realises an outcome the abstract IPAM of Model.v admits: the ReleaseByHandle part of the contract
   [admissible] that the theorems above rely on is a theorem about the library's algorithm, not an assumption. *)
Theorem c38_release_by_handle_meets_contract : forall (block_of : addr -> N) h st fs st' e fs',
  covers block_of st ->
  release_by_handle block_of true h st fs = (st', e, fs') ->
  admissible (tab st) (CRelH h)
    {| o_err := e; o_r4 := None; o_r6 := None; o_add := []; o_del := removed (tab st) (tab st') |} = true.
Proof. exact release_by_handle_admissible. Qed.
Print Assumptions c38_release_by_handle_meets_contract.

(* After a successful DEL no address is allocated under the container's handles -- for handles spanning several
   blocks, after ANY history (faults between the block writes of earlier adds and deletes included), with a fault
   at any access of the DEL itself. *)
Theorem c38_multiblock_del_clean : forall (block_of : addr -> N) l c fs st' r fs',
  cdel block_of true c (crun block_of cempty l) fs = (st', r, fs') -> r = RDelOk -> clean c (tab st').
Proof. exact multiblock_del_clean. Qed.
Print Assumptions c38_multiblock_del_clean.

(* The variant "delete the handle object as soon as ONE block's count reaches zero" (seeded change
   decrement-handle-per-block-remaining) is refuted: dual-stack container, first DEL interrupted after the first
   block, second DEL reports success while the other family's address is still allocated to the container. *)
Theorem c38_delete_on_block_zero_refuted :
  exists fs1 st1 r1 fs1' st2 r2 fs2',
    covers fam_block wit_st /\
    cdel fam_block false wit_c wit_st fs1 = (st1, r1, fs1') /\ r1 = RFail /\
    cdel fam_block false wit_c st1 [] = (st2, r2, fs2') /\ r2 = RDelOk /\
    exists a, In (a, primary wit_c) (tab st2).
Proof. exact delete_on_block_zero_refuted. Qed.
Print Assumptions c38_delete_on_block_zero_refuted.

(* The boolean invariant check applied to every observed datastore state by the correspondence run decides [covers]. *)
Theorem c38_covers_check_sound : forall bo st, covers_b bo st = true -> covers bo st.
Proof. exact covers_b_sound. Qed.
Print Assumptions c38_covers_check_sound.

(* ---------------------------------------------------------------- non-vacuity: concrete runs *)
Definition ex_c : container :=
  {| ct_net := "net1"%string; ct_cid := "cid0"%string; ct_k8s := Some ("ns1"%string, "pod0"%string) |}.
Definition ex_w : world :=
  {| w_store := [(V4 9, "ns1.pod0"%string); (V4 7, "other.x"%string)]; w_marker := true |}.
Definition out (e : errk) r4 r6 add del := {| o_err := e; o_r4 := r4; o_r6 := r6; o_add := add; o_del := del |}.

(* dual-stack add, IPv6 comes back empty: IPv4 is released again, the add fails, the table is unchanged *)
Example c38_example_rollback :
  run_op ex_w (OpAdd ex_c (RAuto None (Some true)))
    [out ENone (Some [V4 1]) (Some []) [(V4 1, "net1.cid0"%string)] [];
     out ENone None None [] [(V4 1, "net1.cid0"%string)]]
  = Some (ex_w, RFail, [(CAuto "net1.cid0"%string 1 1, true); (CRelIPs [V4 1], false)]).
Proof. vm_compute. reflexivity. Qed.

(* AutoAssign fails after allocating IPv4 (nothing is released by the add), a first delete fails half way, the
   second succeeds and also removes the legacy (v2.x) allocation; the unrelated handle is untouched *)
Example c38_example_history :
  run_ops ex_w
    [(OpAdd ex_c (RAuto None (Some true)), [out EOther (Some [V4 1]) None [(V4 1, "net1.cid0"%string)] []]);
     (OpDel ex_c, [out EOther None None [] []]);
     (OpDel ex_c, [out ENone None None [] [(V4 1, "net1.cid0"%string)];
                   out ENone None None [] [(V4 9, "ns1.pod0"%string)]]);
     (OpDel ex_c, [notfound; notfound])]
  = Some ({| w_store := [(V4 7, "other.x"%string)]; w_marker := true |}, [RFail; RFail; RDelOk; RDelOk]).
Proof. vm_compute. reflexivity. Qed.

(* the contract is enforced: "not found" while the handle still holds an address is not an admissible answer *)
Example c38_example_inadmissible :
  run_op ex_w (OpDel ex_c) [notfound; notfound] = None.
Proof. vm_compute. reflexivity. Qed.
