(* C38 — property theorems only. *)
From Coq Require Import String List NArith Bool Arith.
From Verif.C38 Require Import Model Spec Proofs.
Import ListNotations.

Theorem c38_del_releases_primary_first : forall c s os s' r cs rest,
  exec (cmd_del c) s os = Some (s', r, cs, rest) ->
  exists cs', cs = (CRelH (primary c), true) :: cs'.
Proof. exact del_first_call. Qed.
Print Assumptions c38_del_releases_primary_first.
