(* C38 — what the property text says, over OBSERVATIONS of one ADD/DEL invocation: the operation, the IPAM calls it
   made with what the IPAM answered (the environment's part), the result reported to the runtime, and the
   allocation table (address -> handle) read from the datastore before and after.  Nothing here mentions the
   model's programs: the oracle [ok_step] is applied to the implementation's own observations by the
   correspondence run, and Props.v proves that every run of the model satisfies it. *)
From Coq Require Import String List NArith Bool Arith.
From Verif.C38 Require Import Model.
Import ListNotations.

Record callrec := { k_call : call; k_held : bool; k_argsok : bool; k_out : outcome }.

Record step := {
  s_op : op;
  s_calls : list callrec;
  s_res : result;
  s_marker : bool;       (* upgrade marker file present afterwards *)
  s_store : store        (* allocation table afterwards *)
}.

(* the handles a container's allocations can live under *)
Definition handles (c : container) : list handle := [primary c; legacy c].
Definition is_handle_of (c : container) (h : handle) : bool := existsb (String.eqb h) (handles c).

(* "no address remains allocated to that container's handles" *)
Definition clean_for (c : container) (s : store) : bool :=
  forallb (fun p => negb (is_handle_of c (snd p))) s.

(* "holds an address of this family": reported in the result AND allocated to the container's handle *)
Definition holds_family (v4 : bool) (c : container) (ips : list addr) (s : store) : bool :=
  existsb (fun a => fam_ok v4 a && memp (a, primary c) s) ips.

Definition incl_b (a b : store) : bool := forallb (fun p => memp p b) a.
Definition store_eqb (a b : store) : bool := incl_b a b && incl_b b a.

Definition no_error (k : callrec) : bool := match o_err (k_out k) with ENone => true | _ => false end.
Definition not_failed (k : callrec) : bool := negb (is_other (o_err (k_out k))).
Definition is_auto (k : callrec) : bool := match k_call k with CAuto _ _ _ => true | _ => false end.

Definition ok_step (before : store) (st : step) : bool :=
  let after := s_store st in
  match s_op st with
  | OpDel c =>
      (* harmless: a delete never allocates, and only ever removes addresses of this container's handles *)
      incl_b after before &&
      forallb (fun p => memp p after || is_handle_of c (snd p)) before &&
      match s_res st with
      | RDelOk => clean_for c after                                  (* a successful delete leaves nothing behind *)
      | RFail => negb (forallb not_failed (s_calls st))              (* it fails only if an IPAM call failed ... *)
      | _ => false
      end
  | OpAdd c q =>
      (* an add touches nothing but its own primary handle *)
      forallb (fun p => memp p after || String.eqb (snd p) (primary c)) before &&
      forallb (fun p => memp p before || String.eqb (snd p) (primary c)) after &&
      match s_res st with
      | RAddOk ips =>
          match q with
          | RAuto a4 a6 =>
              (Nat.eqb (num4 a4) 0 || holds_family true c ips after) &&
              (Nat.eqb (num6 a6) 0 || holds_family false c ips after)
          | RIP a => mema a ips && memp (a, primary c) after
          end
      | RFail =>
          (* dual-stack (and any) half success: when the assignment call itself reported no error and no
             clean-up call failed, the failed add holds nothing it did not hold before.  (When the assignment
             call returns an error nothing is rolled back: whatever it left is under the primary handle, see the
             two forallb above, and is removed by the next successful delete.) *)
          negb (forallb no_error (s_calls st)) || incl_b after before
      | _ => false
      end
  end.

(* ... and a delete on a container that holds nothing succeeds when no IPAM call fails: covered by the RFail
   branch above (failure implies a failed call) *)

Fixpoint ok_steps (before : store) (l : list step) : bool :=
  match l with
  | [] => true
  | st :: l' => ok_step before st && ok_steps (s_store st) l'
  end.

(* ---------------------------------------------------------------- correspondence case *)
Record case := { c_init : store; c_marker : bool; c_steps : list step }.

Definition call_eqb (a b : call) : bool :=
  match a, b with
  | CUpgrade x, CUpgrade y => String.eqb x y
  | CAssign a1 h1, CAssign a2 h2 => addr_eqb a1 a2 && String.eqb h1 h2
  | CAuto h1 x1 y1, CAuto h2 x2 y2 => String.eqb h1 h2 && Nat.eqb x1 x2 && Nat.eqb y1 y2
  | CRelIPs l1, CRelIPs l2 => Nat.eqb (length l1) (length l2) && forallb (fun a => mema a l2) l1 && forallb (fun a => mema a l1) l2
  | CRelH h1, CRelH h2 => String.eqb h1 h2
  | _, _ => false
  end.

Fixpoint calls_eqb (m : list (call * bool)) (i : list callrec) : bool :=
  match m, i with
  | [], [] => true
  | (c, h) :: m', k :: i' => call_eqb c (k_call k) && Bool.eqb h (k_held k) && k_argsok k && calls_eqb m' i'
  | _, _ => false
  end.

Fixpoint list_eqb {A} (e : A -> A -> bool) (a b : list A) : bool :=
  match a, b with
  | [], [] => true
  | x :: a', y :: b' => e x y && list_eqb e a' b'
  | _, _ => false
  end.

Definition result_eqb (a b : result) : bool :=
  match a, b with
  | RAddOk x, RAddOk y => list_eqb addr_eqb x y
  | RDelOk, RDelOk => true
  | RFail, RFail => true
  | _, _ => false
  end.

(* the model follows the implementation step by step: same IPAM calls (arguments, lock), same result, same marker,
   same allocation table *)
Fixpoint agree (w : world) (l : list step) : bool :=
  match l with
  | [] => true
  | st :: l' =>
      match run_op w (s_op st) (map k_out (s_calls st)) with
      | Some (w', r, cs) =>
          calls_eqb cs (s_calls st) && result_eqb r (s_res st) && Bool.eqb (w_marker w') (s_marker st) &&
          store_eqb (w_store w') (s_store st) && agree w' l'
      | None => false
      end
  end.

Definition check_case (c : case) : bool * bool :=
  (agree {| w_store := c_init c; w_marker := c_marker c |} (c_steps c), ok_steps (c_init c) (c_steps c)).
