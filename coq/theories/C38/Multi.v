(* C38 — below the abstract IPAM: the handle bookkeeping of libcalico-go/lib/ipam for handles that span several
   blocks (a dual-stack container: one IPv4 block + one IPv6 block), one datastore access at a time, with a fault
   possible at EVERY access (the request is lost: the store is unchanged and the caller sees an error).

   Modelled code (sequential client; compare-and-swap conflicts are C19's subject, not repeated here):
     ipam.go  ReleaseByHandle      read handle once, then for every block listed in that copy: releaseByHandle
     ipam.go  releaseByHandle      read block; nothing of the handle in it -> next; write block (error -> return);
                                   decrementHandle (error only LOGGED); next block
     ipam.go  decrementHandle      fresh read of the handle, handle.decrementBlock, delete the handle when
                                   handle.empty() else update it
     ipam_handle.go decrementBlock / empty
     ipam.go  incrementHandle + block write + roll-back (one address of AutoAssign / AssignIP): handle first, then
                                   the block; if the block write fails the handle is decremented again
     ipam.go  ReleaseIPs for one address: block write, then decrementHandle (error only logged)

   State = allocation table (address, handle) -- the content of the blocks -- plus the IPAMHandle objects
   (handle -> block -> count).  [block_of] (which block an address lives in) is an arbitrary function: the theorems
   hold for every pool / block-size layout.

   Main results: the invariant [covers] (a handle object never under-counts any block) is preserved by every
   operation under every fault pattern; under it ReleaseByHandle meets the abstract contract of Model.admissible
   (success => nothing left under the handle, in ANY block; "not found" => the handle holds nothing); hence a
   successful cmdDel leaves no address under the container's handles, for multi-block handles and a fault at any
   access.  The variant that deletes the handle as soon as ONE block's count reaches zero is refuted. *)
From Coq Require Import String List NArith Bool Arith Lia.
From Verif.C38 Require Import Model Spec Proofs.
Import ListNotations.

Section Multi.
Variable block_of : addr -> N.

(* handle.Block: block -> count; first match is the map entry *)
Definition blocks := list (N * nat).
Fixpoint lk (bl : blocks) (b : N) : option nat :=
  match bl with
  | [] => None
  | (b', n) :: r => if N.eqb b' b then Some n else lk r b
  end.
Definition rm (b : N) (bl : blocks) : blocks := filter (fun e => negb (N.eqb (fst e) b)) bl.
Definition setb (b : N) (n : nat) (bl : blocks) : blocks := (b, n) :: rm b bl.

Definition hrecs := list (handle * blocks).
Fixpoint hlk (hr : hrecs) (h : handle) : option blocks :=
  match hr with
  | [] => None
  | (h', bl) :: r => if String.eqb h' h then Some bl else hlk r h
  end.
Definition hrm (h : handle) (hr : hrecs) : hrecs := filter (fun e => negb (String.eqb (fst e) h)) hr.
Definition hset (h : handle) (bl : blocks) (hr : hrecs) : hrecs := (h, bl) :: hrm h hr.

Record cstate := { tab : store; hrec : hrecs }.

Definition inb (h : handle) (b : N) (p : addr * handle) : bool :=
  String.eqb (snd p) h && N.eqb (block_of (fst p)) b.
Definition cnt (h : handle) (b : N) (t : store) : nat := length (filter (inb h b) t).

(* one fault decision per datastore access; an exhausted list means "no more faults" *)
Definition nextf (fs : list bool) : bool * list bool := (hd false fs, tl fs).

(* [strict = true] is the code of the pinned tree (delete the handle object when handle.empty());
   [strict = false] is the variant "delete when THIS block's remaining count is zero". *)
Definition dec_handle (strict : bool) (h : handle) (b : N) (num : nat) (st : cstate) (fs : list bool)
  : cstate * bool * list bool :=
  let (f1, fs1) := nextf fs in
  if f1 then (st, true, fs1) else                         (* queryHandle failed *)
  match hlk (hrec st) h with
  | None => (st, true, fs1)                               (* handle does not exist *)
  | Some bl =>
      match lk bl b with
      | None => (st, true, fs1)                           (* block not linked to the handle *)
      | Some cur =>
          if Nat.ltb cur num then (st, true, fs1) else
          let rest := cur - num in
          let bl' := if Nat.eqb rest 0 then rm b bl else setb b rest bl in
          let (f2, fs2) := nextf fs1 in
          if f2 then (st, true, fs2) else                 (* deleteHandle / updateHandle failed *)
          let del := if strict then isnil bl' else Nat.eqb rest 0 in
          ({| tab := tab st; hrec := if del then hrm h (hrec st) else hset h bl' (hrec st) |}, false, fs2)
      end
  end.

(* releaseByHandle for the blocks listed in the caller's copy of the handle *)
Fixpoint rel_blocks (strict : bool) (h : handle) (bs : list N) (st : cstate) (fs : list bool)
  : cstate * bool * list bool :=
  match bs with
  | [] => (st, false, fs)
  | b :: bs' =>
      let (f1, fs1) := nextf fs in
      if f1 then (st, true, fs1) else                     (* queryBlock failed *)
      let num := cnt h b (tab st) in
      if Nat.eqb num 0 then rel_blocks strict h bs' st fs1 else
      let (f2, fs2) := nextf fs1 in
      if f2 then (st, true, fs2) else                     (* updateBlock / deleteBlock failed *)
      let st1 := {| tab := filter (fun p => negb (inb h b p)) (tab st); hrec := hrec st |} in
      match dec_handle strict h b num st1 fs2 with        (* its error is only logged *)
      | (st2, _, fs3) => rel_blocks strict h bs' st2 fs3
      end
  end.

Definition release_by_handle (strict : bool) (h : handle) (st : cstate) (fs : list bool)
  : cstate * errk * list bool :=
  let (f1, fs1) := nextf fs in
  if f1 then (st, EOther, fs1) else                       (* queryHandle failed *)
  match hlk (hrec st) h with
  | None => (st, ENotFound, fs1)
  | Some bl =>
      let (f2, fs2) := nextf fs1 in
      if f2 then (st, EOther, fs2) else                   (* GetIPAMConfig failed *)
      match rel_blocks strict h (map fst bl) st fs2 with
      | (st', true, fs') => (st', EOther, fs')
      | (st', false, fs') => (st', ENone, fs')
      end
  end.

(* one address of AutoAssign / AssignIP: incrementHandle, then the block write, roll-back on failure *)
Definition assign_one (strict : bool) (h : handle) (a : addr) (st : cstate) (fs : list bool)
  : cstate * bool * list bool :=
  let b := block_of a in
  let (f1, fs1) := nextf fs in
  if f1 then (st, true, fs1) else                         (* queryHandle failed *)
  let bl' := match hlk (hrec st) h with
             | None => [(b, 1)]
             | Some bl => setb b (match lk bl b with Some n => S n | None => 1 end) bl
             end in
  let (f2, fs2) := nextf fs1 in
  if f2 then (st, true, fs2) else                         (* create / update handle failed *)
  let st1 := {| tab := tab st; hrec := hset h bl' (hrec st) |} in
  let (f3, fs3) := nextf fs2 in
  if f3 then                                              (* block write failed: roll the handle back *)
    match dec_handle strict h b 1 st1 fs3 with (st2, _, fs4) => (st2, true, fs4) end
  else ({| tab := (a, h) :: tab st1; hrec := hrec st1 |}, false, fs3).

(* ReleaseIPs for one allocated address (by address; the handle is read from the block) *)
Definition release_addr (strict : bool) (a : addr) (h : handle) (st : cstate) (fs : list bool)
  : cstate * bool * list bool :=
  if negb (memp (a, h) (tab st)) then (st, false, fs) else (* not allocated: reported as such, no write *)
  let (f1, fs1) := nextf fs in
  if f1 then (st, true, fs1) else                         (* block write failed *)
  let st1 := {| tab := filter (fun p => negb (pair_eqb p (a, h))) (tab st); hrec := hrec st |} in
  match dec_handle strict h (block_of a) 1 st1 fs1 with (st2, _, fs2) => (st2, false, fs2) end.

(* the handle objects never under-count: every block holding addresses of h is linked to h with at least that count *)
Definition covers (st : cstate) : Prop :=
  forall h b, 0 < cnt h b (tab st) ->
    exists bl n, hlk (hrec st) h = Some bl /\ lk bl b = Some n /\ cnt h b (tab st) <= n.

(* ---------------------------------------------------------------- list lemmas *)
Lemma lk_rm_same : forall bl b, lk (rm b bl) b = None.
Proof.
  induction bl as [|[b' n] r IH]; intro b; simpl; [reflexivity|].
  destruct (N.eqb b' b) eqn:E; simpl; [apply IH|]. rewrite E. apply IH.
Qed.

Lemma lk_rm_other : forall bl b b', b' <> b -> lk (rm b bl) b' = lk bl b'.
Proof.
  induction bl as [|[x n] r IH]; intros b b' N; simpl; [reflexivity|].
  destruct (N.eqb x b) eqn:E; simpl.
  - apply N.eqb_eq in E. subst x. destruct (N.eqb b b') eqn:E2; [apply N.eqb_eq in E2; congruence|]. apply IH, N.
  - destruct (N.eqb x b'); [reflexivity|]. apply IH, N.
Qed.

Lemma lk_setb_same : forall bl b n, lk (setb b n bl) b = Some n.
Proof. intros. unfold setb. simpl. rewrite N.eqb_refl. reflexivity. Qed.

Lemma lk_setb_other : forall bl b n b', b' <> b -> lk (setb b n bl) b' = lk bl b'.
Proof.
  intros bl b n b' N. unfold setb. simpl. destruct (N.eqb b b') eqn:E; [apply N.eqb_eq in E; congruence|].
  apply lk_rm_other, N.
Qed.

Lemma rm_nil_lk : forall bl b b', rm b bl = [] -> b' <> b -> lk bl b' = None.
Proof. intros bl b b' H N. rewrite <- (lk_rm_other bl b b' N), H. reflexivity. Qed.

Lemma hlk_hrm_same : forall hr h, hlk (hrm h hr) h = None.
Proof.
  induction hr as [|[h' bl] r IH]; intro h; simpl; [reflexivity|].
  destruct (String.eqb h' h) eqn:E; simpl; [apply IH|]. rewrite E. apply IH.
Qed.

Lemma hlk_hrm_other : forall hr h h', h' <> h -> hlk (hrm h hr) h' = hlk hr h'.
Proof.
  induction hr as [|[x bl] r IH]; intros h h' N; simpl; [reflexivity|].
  destruct (String.eqb x h) eqn:E; simpl.
  - apply String.eqb_eq in E. subst x. destruct (String.eqb h h') eqn:E2; [apply String.eqb_eq in E2; congruence|]. apply IH, N.
  - destruct (String.eqb x h'); [reflexivity|]. apply IH, N.
Qed.

Lemma hlk_hset_same : forall hr h bl, hlk (hset h bl hr) h = Some bl.
Proof. intros. unfold hset. simpl. rewrite String.eqb_refl. reflexivity. Qed.

Lemma hlk_hset_other : forall hr h bl h', h' <> h -> hlk (hset h bl hr) h' = hlk hr h'.
Proof.
  intros hr h bl h' N. unfold hset. simpl. destruct (String.eqb h h') eqn:E; [apply String.eqb_eq in E; congruence|].
  apply hlk_hrm_other, N.
Qed.

Lemma lk_in_map : forall bl b n, lk bl b = Some n -> In b (map fst bl).
Proof.
  induction bl as [|[b' m] r IH]; intros b n H; simpl in *; [discriminate|].
  destruct (N.eqb b' b) eqn:E; [left; apply N.eqb_eq, E | right; eapply IH; eauto].
Qed.

Lemma filter_length_le : forall A (f : A -> bool) l, length (filter f l) <= length l.
Proof. intros A f l. induction l as [|x l IH]; simpl; [lia|]. destruct (f x); simpl; lia. Qed.

Lemma filter_filter_comm : forall A (f g : A -> bool) l, filter f (filter g l) = filter g (filter f l).
Proof.
  intros A f g l. induction l as [|x l IH]; simpl; [reflexivity|].
  destruct (g x) eqn:G, (f x) eqn:F; simpl; rewrite ?G, ?F, IH; reflexivity.
Qed.

Lemma cnt_filter_le : forall h b g t, cnt h b (filter g t) <= cnt h b t.
Proof. intros. unfold cnt. rewrite filter_filter_comm. apply filter_length_le. Qed.

Lemma cnt_removed : forall h b t, cnt h b (filter (fun p => negb (inb h b p)) t) = 0.
Proof.
  intros h b t. unfold cnt. induction t as [|p t IH]; simpl; [reflexivity|].
  destruct (inb h b p) eqn:E; simpl; [exact IH|]. rewrite E. exact IH.
Qed.

Lemma cnt_pos_in : forall h b t, 0 < cnt h b t -> exists p, In p t /\ snd p = h /\ block_of (fst p) = b.
Proof.
  intros h b t H. unfold cnt in H. destruct (filter (inb h b) t) as [|p l] eqn:E; [simpl in H; lia|].
  assert (In p (filter (inb h b) t)) as I by (rewrite E; left; reflexivity).
  apply filter_In in I as [I1 I2]. unfold inb in I2. apply andb_true_iff in I2 as [X Y].
  exists p. split; [exact I1|]. split; [apply String.eqb_eq, X | apply N.eqb_eq, Y].
Qed.

Lemma in_cnt_pos : forall p t, In p t -> 0 < cnt (snd p) (block_of (fst p)) t.
Proof.
  intros p t I. unfold cnt.
  assert (In p (filter (inb (snd p) (block_of (fst p))) t)) as X.
  { apply filter_In. split; [exact I|]. unfold inb. rewrite String.eqb_refl, N.eqb_refl. reflexivity. }
  destruct (filter (inb (snd p) (block_of (fst p))) t); [contradiction | simpl; lia].
Qed.

(* ---------------------------------------------------------------- decrementHandle *)
(* slack: the handle object counts at least [num] more than the block holds *)
Definition slack (h : handle) (b : N) (num : nat) (st : cstate) : Prop :=
  forall bl n, hlk (hrec st) h = Some bl -> lk bl b = Some n -> cnt h b (tab st) + num <= n.

Lemma dec_handle_tab : forall strict h b num st fs st' e fs',
  dec_handle strict h b num st fs = (st', e, fs') -> tab st' = tab st.
Proof.
  intros strict h b num st fs st' e fs' H. unfold dec_handle in H.
  destruct (nextf fs) as [f1 fs1]. destruct f1; [inversion H; reflexivity|].
  destruct (hlk (hrec st) h) as [bl|]; [|inversion H; reflexivity].
  destruct (lk bl b) as [cur|]; [|inversion H; reflexivity].
  destruct (Nat.ltb cur num); [inversion H; reflexivity|].
  destruct (nextf fs1) as [f2 fs2]. destruct f2; inversion H; reflexivity.
Qed.

Lemma dec_handle_covers : forall h b num st fs st' e fs',
  covers st -> slack h b num st ->
  dec_handle true h b num st fs = (st', e, fs') -> covers st'.
Proof.
  intros h b num st fs st' e fs' C S H. unfold dec_handle in H.
  destruct (nextf fs) as [f1 fs1]. destruct f1; [inversion H; subst; exact C|].
  destruct (hlk (hrec st) h) as [bl|] eqn:Hh; [|inversion H; subst; exact C].
  destruct (lk bl b) as [cur|] eqn:Hb; [|inversion H; subst; exact C].
  destruct (Nat.ltb cur num) eqn:Hlt; [inversion H; subst; exact C|]. apply Nat.ltb_ge in Hlt.
  destruct (nextf fs1) as [f2 fs2]. destruct f2; [inversion H; subst; exact C|].
  cbv zeta in H. inversion H; subst; clear H. pose proof (S bl cur Hh Hb) as Sl.
  remember (if Nat.eqb (cur - num) 0 then rm b bl else setb b (cur - num) bl) as bl' eqn:Ebl.
  assert (forall b', b' <> b -> lk bl' b' = lk bl b') as Lo.
  { intros b' N. subst bl'. destruct (Nat.eqb (cur - num) 0); [apply lk_rm_other | apply lk_setb_other]; exact N. }
  intros h0 b0 P. simpl in P. simpl.
  destruct (string_dec h0 h) as [->|Nh].
  - (* same handle *)
    destruct (N.eq_dec b0 b) as [->|Nb].
    + (* the decremented block: still counted with rest >= what the block holds *)
      assert (cnt h b (tab st) <= cur - num) as Le by lia.
      destruct (Nat.eqb (cur - num) 0) eqn:R0; [apply Nat.eqb_eq in R0; lia|].
      subst bl'. simpl. exists (setb b (cur - num) bl), (cur - num).
      split; [apply hlk_hset_same|]. split; [apply lk_setb_same | exact Le].
    + destruct (C h b0 P) as (bl0 & n & E1 & E2 & E3). rewrite Hh in E1. inversion E1; subst bl0.
      destruct (isnil bl') eqn:Nn.
      * exfalso. apply isnil_nil in Nn. rewrite <- (Lo b0 Nb), Nn in E2. discriminate.
      * exists bl', n. split; [apply hlk_hset_same|]. split; [rewrite Lo; auto | exact E3].
  - destruct (C h0 b0 P) as (bl0 & n & E1 & E2 & E3). exists bl0, n. split; [|auto].
    destruct (isnil bl'); [rewrite hlk_hrm_other | rewrite hlk_hset_other]; auto.
Qed.

(* ---------------------------------------------------------------- releaseByHandle over the listed blocks *)
Lemma rel_blocks_spec : forall h bs st fs st' e fs',
  covers st ->
  rel_blocks true h bs st fs = (st', e, fs') ->
  covers st' /\
  incl (tab st') (tab st) /\
  (forall p, In p (tab st) -> ~ In p (tab st') -> snd p = h) /\
  (e = false -> forall b, In b bs -> cnt h b (tab st') = 0).
Proof.
  induction bs as [|b bs IH]; intros st fs st' e fs' C H; cbn [rel_blocks] in H.
  - inversion H; subst. split; [exact C|]. split; [apply incl_refl|]. split; [intros p I N; contradiction|].
    intros _ b [].
  - destruct (nextf fs) as [f1 fs1]. destruct f1.
    { inversion H; subst. split; [exact C|]. split; [apply incl_refl|]. split; [intros p I N; contradiction|]. discriminate. }
    destruct (Nat.eqb (cnt h b (tab st)) 0) eqn:Z.
    + apply Nat.eqb_eq in Z. destruct (IH _ _ _ _ _ C H) as (C' & I & D & K).
      split; [exact C'|]. split; [exact I|]. split; [exact D|].
      intros E b0 [<-|Hb]; [|apply K; auto].
      destruct (Nat.eq_dec (cnt h b (tab st')) 0) as [Q|Q]; [exact Q|]. exfalso.
      assert (0 < cnt h b (tab st')) as P by lia. apply cnt_pos_in in P as (p & Ip & Hp & Bp).
      apply I in Ip. pose proof (in_cnt_pos p _ Ip) as X. rewrite Hp, Bp in X. lia.
    + apply Nat.eqb_neq in Z. destruct (nextf fs1) as [f2 fs2]. destruct f2.
      { inversion H; subst. split; [exact C|]. split; [apply incl_refl|]. split; [intros p I N; contradiction|]. discriminate. }
      set (st1 := {| tab := filter (fun p => negb (inb h b p)) (tab st); hrec := hrec st |}) in *.
      destruct (dec_handle true h b (cnt h b (tab st)) st1 fs2) as [[st2 e2] fs3] eqn:D.
      assert (covers st1) as C1.
      { intros h0 b0 P. simpl in P. simpl.
        assert (0 < cnt h0 b0 (tab st)) as P0 by (pose proof (cnt_filter_le h0 b0 (fun p => negb (inb h b p)) (tab st)); lia).
        destruct (C h0 b0 P0) as (bl0 & n & E1 & E2 & E3). exists bl0, n. split; [exact E1|]. split; [exact E2|].
        pose proof (cnt_filter_le h0 b0 (fun p => negb (inb h b p)) (tab st)). lia. }
      assert (slack h b (cnt h b (tab st)) st1) as S1.
      { intros bl n E1 E2. simpl in *. rewrite cnt_removed.
        assert (0 < cnt h b (tab st)) as P0 by lia.
        destruct (C h b P0) as (bl0 & n0 & F1 & F2 & F3). rewrite E1 in F1. inversion F1; subst bl0.
        rewrite E2 in F2. inversion F2; subst n0. lia. }
      pose proof (dec_handle_covers _ _ _ _ _ _ _ _ C1 S1 D) as C2.
      pose proof (dec_handle_tab _ _ _ _ _ _ _ _ _ D) as T2.
      destruct (IH _ _ _ _ _ C2 H) as (C' & I & Dd & K).
      assert (incl (tab st2) (tab st)) as I2.
      { rewrite T2. simpl. intros p Hp. apply filter_In in Hp as [X _]. exact X. }
      split; [exact C'|]. split; [intros p Hp; apply I2, I, Hp|]. split.
      * intros p Hp Np. destruct (in_dec pair_dec p (tab st2)) as [J|J]; [apply Dd; auto|].
        rewrite T2 in J. simpl in J.
        destruct (inb h b p) eqn:X.
        -- unfold inb in X. apply andb_true_iff in X as [X _]. apply String.eqb_eq, X.
        -- exfalso. apply J. apply filter_In. split; [exact Hp | rewrite X; reflexivity].
      * intros E b0 [<-|Hb]; [|apply K; auto].
        destruct (Nat.eq_dec (cnt h b (tab st')) 0) as [Q|Q]; [exact Q|]. exfalso.
        assert (0 < cnt h b (tab st')) as P by lia. apply cnt_pos_in in P as (p & Ip & Hp & Bp).
        apply I in Ip. pose proof (in_cnt_pos p _ Ip) as X. rewrite Hp, Bp, T2 in X. simpl in X.
        rewrite cnt_removed in X. lia.
Qed.

(* ---------------------------------------------------------------- ReleaseByHandle meets the abstract contract *)
Theorem release_by_handle_spec : forall h st fs st' e fs',
  covers st ->
  release_by_handle true h st fs = (st', e, fs') ->
  covers st' /\
  incl (tab st') (tab st) /\
  (forall p, In p (tab st) -> ~ In p (tab st') -> snd p = h) /\
  (e = ENone -> forall p, In p (tab st') -> snd p <> h) /\
  (e = ENotFound -> st' = st /\ forall p, In p (tab st) -> snd p <> h).
Proof.
  intros h st fs st' e fs' C H. unfold release_by_handle in H.
  assert (covers st /\ incl (tab st) (tab st) /\ (forall p, In p (tab st) -> ~ In p (tab st) -> snd p = h)) as Triv.
  { split; [exact C|]. split; [apply incl_refl|]. intros p I N; contradiction. }
  destruct (nextf fs) as [f1 fs1]. destruct f1.
  { inversion H; subst. destruct Triv as (A & B & D). repeat split; auto; discriminate. }
  destruct (hlk (hrec st) h) as [bl|] eqn:Hh.
  - destruct (nextf fs1) as [f2 fs2]. destruct f2.
    { inversion H; subst. destruct Triv as (A & B & D). repeat split; auto; discriminate. }
    destruct (rel_blocks true h (map fst bl) st fs2) as [[st1 e1] fs3] eqn:R.
    destruct (rel_blocks_spec _ _ _ _ _ _ _ C R) as (C' & I & D & K).
    destruct e1; inversion H; subst; (split; [exact C'|]; split; [exact I|]; split; [exact D|]; split; [|discriminate]).
    + discriminate.
    + intros _ p Hp Hs.
      pose proof (in_cnt_pos p _ Hp) as P. rewrite Hs in P.
      assert (0 < cnt h (block_of (fst p)) (tab st)) as P0.
      { apply I in Hp. pose proof (in_cnt_pos p _ Hp) as X. rewrite Hs in X. exact X. }
      destruct (C _ _ P0) as (bl0 & n & E1 & E2 & _). rewrite Hh in E1. inversion E1; subst bl0.
      apply lk_in_map in E2. rewrite (K eq_refl _ E2) in P. lia.
  - inversion H; subst. destruct Triv as (A & B & D). split; [exact A|]. split; [exact B|]. split; [exact D|].
    split; [discriminate|]. intros _. split; [reflexivity|].
    intros p Hp Hs. pose proof (in_cnt_pos p _ Hp) as P. rewrite Hs in P.
    destruct (C _ _ P) as (bl0 & n & E1 & _). congruence.
Qed.

(* the abstract outcome it realises is admissible for the abstract IPAM of Model.v *)
Definition removed (t t' : store) : store := filter (fun p => negb (memp p t')) t.

Theorem release_by_handle_admissible : forall h st fs st' e fs',
  covers st ->
  release_by_handle true h st fs = (st', e, fs') ->
  admissible (tab st) (CRelH h)
    {| o_err := e; o_r4 := None; o_r6 := None; o_add := []; o_del := removed (tab st) (tab st') |} = true.
Proof.
  intros h st fs st' e fs' C H.
  destruct (release_by_handle_spec _ _ _ _ _ _ C H) as (_ & I & D & Ok & Nf).
  unfold admissible; simpl.
  assert (forall p, In p (removed (tab st) (tab st')) <-> In p (tab st) /\ ~ In p (tab st')) as Rm.
  { intro p. unfold removed. rewrite filter_In, negb_true_iff, memp_false. tauto. }
  apply andb_true_iff. split; [apply andb_true_iff; split; [|reflexivity]|].
  - apply forallb_forall. intros p Hp. apply memp_In. apply Rm in Hp. tauto.
  - apply andb_true_iff. split.
    + apply forallb_forall. intros p Hp. apply Rm in Hp as [X Y]. apply String.eqb_eq. apply D; auto.
    + destruct e.
      * apply forallb_forall. intros p Hp. apply orb_true_iff.
        destruct (String.eqb (snd p) h) eqn:E; [right | left; reflexivity].
        apply String.eqb_eq in E. apply memp_In, Rm. split; [exact Hp|]. intro X. exact (Ok eq_refl p X E).
      * destruct (Nf eq_refl) as [-> Cl]. apply andb_true_iff. split.
        -- assert (removed (tab st) (tab st) = []) as ->; [|reflexivity].
           unfold removed. apply filter_none. intros p Hp. apply negb_false_iff, memp_In, Hp.
        -- rewrite (held_by_clean h (tab st) Cl). reflexivity.
      * reflexivity.
Qed.

(* ---------------------------------------------------------------- assignment and release by address keep the invariant *)
Lemma cnt_cons : forall h b p t, cnt h b (p :: t) = (if inb h b p then 1 else 0) + cnt h b t.
Proof. intros. unfold cnt. simpl. destruct (inb h b p); reflexivity. Qed.

Theorem assign_one_spec : forall h a st fs st' e fs',
  covers st ->
  assign_one true h a st fs = (st', e, fs') ->
  covers st' /\
  (tab st' = tab st \/ (e = false /\ tab st' = (a, h) :: tab st)) /\
  (e = false -> tab st' = (a, h) :: tab st).
Proof.
  intros h a st fs st' e fs' C H. unfold assign_one in H.
  destruct (nextf fs) as [f1 fs1]. destruct f1.
  { inversion H; subst. split; [exact C|]. split; [left; reflexivity | discriminate]. }
  set (b := block_of a) in *.
  set (bl' := match hlk (hrec st) h with
              | None => [(b, 1)]
              | Some bl => setb b (match lk bl b with Some n => S n | None => 1 end) bl
              end) in *.
  destruct (nextf fs1) as [f2 fs2]. destruct f2.
  { inversion H; subst. split; [exact C|]. split; [left; reflexivity | discriminate]. }
  set (st1 := {| tab := tab st; hrec := hset h bl' (hrec st) |}) in *.
  (* after the increment: covered with one unit of slack on block b *)
  assert (forall b0 n, b0 <> b -> (match hlk (hrec st) h with Some bl => lk bl b0 | None => None end) = Some n -> lk bl' b0 = Some n) as Lo.
  { intros b0 n Nb E. unfold bl'. destruct (hlk (hrec st) h) as [bl|]; [|discriminate].
    rewrite lk_setb_other; auto. }
  assert (exists n, lk bl' b = Some n /\ cnt h b (tab st) + 1 <= n) as Lb.
  { unfold bl'. destruct (hlk (hrec st) h) as [bl|] eqn:Hh.
    - rewrite lk_setb_same. eexists; split; [reflexivity|].
      destruct (Nat.eq_dec (cnt h b (tab st)) 0) as [Z|Z].
      + destruct (lk bl b); lia.
      + destruct (C h b ltac:(lia)) as (bl0 & n & E1 & E2 & E3). rewrite Hh in E1. inversion E1; subst bl0.
        rewrite E2. lia.
    - simpl. rewrite N.eqb_refl. eexists; split; [reflexivity|].
      destruct (Nat.eq_dec (cnt h b (tab st)) 0) as [Z|Z]; [lia|].
      destruct (C h b ltac:(lia)) as (bl0 & n & E1 & _). congruence. }
  assert (covers st1) as C1.
  { intros h0 b0 P. unfold st1 in *. cbn [tab hrec] in *. destruct (string_dec h0 h) as [->|Nh].
    - rewrite hlk_hset_same. destruct (N.eq_dec b0 b) as [->|Nb].
      + destruct Lb as (n & E & Le). exists bl', n. split; [reflexivity|]. split; [exact E | lia].
      + destruct (C h b0 P) as (bl0 & n & E1 & E2 & E3). exists bl', n. split; [reflexivity|]. split; [|exact E3].
        apply Lo; auto. rewrite E1. exact E2.
    - rewrite hlk_hset_other by auto. apply C, P. }
  assert (slack h b 1 st1) as S1.
  { intros bl n E1 E2. unfold st1 in *. cbn [tab hrec] in *. rewrite hlk_hset_same in E1. inversion E1; subst bl.
    destruct Lb as (n' & E & Le). rewrite E in E2. inversion E2; subst. exact Le. }
  destruct (nextf fs2) as [f3 fs3]. destruct f3.
  - destruct (dec_handle true h b 1 st1 fs3) as [[st2 e2] fs4] eqn:D. inversion H; subst.
    split; [eapply dec_handle_covers; eauto|]. split; [|discriminate].
    left. rewrite (dec_handle_tab _ _ _ _ _ _ _ _ _ D). reflexivity.
  - inversion H; subst. split; [|split; [right; split; reflexivity | reflexivity]].
    intros h0 b0 P. unfold st1 in *. cbn [tab hrec] in *. rewrite cnt_cons in P. rewrite cnt_cons.
    destruct (inb h0 b0 (a, h)) eqn:X.
    + unfold inb in X. simpl in X. apply andb_true_iff in X as [X Y].
      apply String.eqb_eq in X. apply N.eqb_eq in Y. subst h0. fold b in Y. subst b0.
      destruct Lb as (n & E & Le). exists bl', n. rewrite hlk_hset_same. split; [reflexivity|]. split; [exact E | lia].
    + simpl plus in *. apply (C1 h0 b0 P).
Qed.

Theorem release_addr_spec : forall a h st fs st' e fs',
  covers st ->
  release_addr true a h st fs = (st', e, fs') ->
  covers st' /\ incl (tab st') (tab st) /\ (forall p, In p (tab st) -> ~ In p (tab st') -> p = (a, h)) /\
  (e = false -> ~ In (a, h) (tab st')).
Proof.
  intros a h st fs st' e fs' C H. unfold release_addr in H.
  destruct (memp (a, h) (tab st)) eqn:M; cbn [negb] in H.
  2:{ inversion H; subst. split; [exact C|]. split; [apply incl_refl|]. split; [intros p I N; contradiction|].
      intros _. apply memp_false, M. }
  apply memp_In in M. rename M into I.
  destruct (nextf fs) as [f1 fs1]. destruct f1.
  { inversion H; subst. split; [exact C|]. split; [apply incl_refl|]. split; [intros p I0 N; contradiction | discriminate]. }
  set (st1 := {| tab := filter (fun p => negb (pair_eqb p (a, h))) (tab st); hrec := hrec st |}) in *.
  destruct (dec_handle true h (block_of a) 1 st1 fs1) as [[st2 e2] fs2] eqn:D. inversion H; subst.
  pose proof (dec_handle_tab _ _ _ _ _ _ _ _ _ D) as T2.
  assert (covers st1) as C1.
  { intros h0 b0 P. simpl in P. simpl.
    pose proof (cnt_filter_le h0 b0 (fun p => negb (pair_eqb p (a, h))) (tab st)) as Le.
    destruct (C h0 b0 ltac:(lia)) as (bl0 & n & E1 & E2 & E3). exists bl0, n. split; [exact E1|]. split; [exact E2 | lia]. }
  assert (slack h (block_of a) 1 st1) as S1.
  { intros bl n E1 E2. simpl in *.
    pose proof (in_cnt_pos (a, h) _ I) as P. simpl in P.
    destruct (C _ _ P) as (bl0 & n0 & F1 & F2 & F3). rewrite E1 in F1. inversion F1; subst bl0.
    rewrite E2 in F2. inversion F2; subst n0.
    assert (cnt h (block_of a) (filter (fun p => negb (pair_eqb p (a, h))) (tab st)) + 1 <= cnt h (block_of a) (tab st)) as X.
    { clear -I. unfold cnt. induction (tab st) as [|q t IH]; [contradiction|]. simpl.
      destruct (pair_eqb q (a, h)) eqn:E; simpl.
      - apply pair_eqb_eq in E. subst q. unfold inb at 2. simpl. rewrite String.eqb_refl, N.eqb_refl. simpl.
        rewrite filter_filter_comm.
        pose proof (filter_length_le _ (fun p => negb (pair_eqb p (a, h))) (filter (inb h (block_of a)) t)). lia.
      - destruct I as [->|I]; [rewrite (proj2 (pair_eqb_eq _ _) eq_refl) in E; discriminate|].
        specialize (IH I). destruct (inb h (block_of a) q); simpl; lia. }
    lia. }
  split; [eapply dec_handle_covers; eauto|]. rewrite T2. simpl.
  split; [intros p Hp; apply filter_In in Hp as [X _]; exact X|]. split.
  - intros p Hp Np. destruct (pair_eqb p (a, h)) eqn:E; [apply pair_eqb_eq, E|].
    exfalso. apply Np, filter_In. split; [exact Hp | rewrite E; reflexivity].
  - intros _ X. apply filter_In in X as [_ X]. rewrite (proj2 (pair_eqb_eq _ _) eq_refl) in X. discriminate.
Qed.

(* ---------------------------------------------------------------- cmdDel over the concrete IPAM *)
(* cmdDel = ReleaseByHandle(primary) ; ReleaseByHandle(legacy), "not found" tolerated, as in Model.cmd_del *)
Definition cdel (strict : bool) (c : container) (st : cstate) (fs : list bool) : cstate * result * list bool :=
  match release_by_handle strict (primary c) st fs with
  | (st1, e1, fs1) =>
      if is_other e1 then (st1, RFail, fs1) else
      match release_by_handle strict (legacy c) st1 fs1 with
      | (st2, e2, fs2) => (st2, if is_other e2 then RFail else RDelOk, fs2)
      end
  end.

Theorem cdel_spec : forall c st fs st' r fs',
  covers st -> cdel true c st fs = (st', r, fs') ->
  covers st' /\ incl (tab st') (tab st) /\
  (forall p, In p (tab st) -> ~ In p (tab st') -> snd p = primary c \/ snd p = legacy c) /\
  (r = RDelOk -> clean c (tab st')).
Proof.
  intros c st fs st' r fs' C H. unfold cdel in H.
  destruct (release_by_handle true (primary c) st fs) as [[st1 e1] fs1] eqn:R1.
  destruct (release_by_handle_spec _ _ _ _ _ _ C R1) as (C1 & I1 & D1 & Ok1 & Nf1).
  destruct (is_other e1) eqn:O1.
  - inversion H; subst. split; [exact C1|]. split; [exact I1|]. split; [intros p Hp Np; left; apply D1; auto | discriminate].
  - destruct (release_by_handle true (legacy c) st1 fs1) as [[st2 e2] fs2] eqn:R2.
    destruct (release_by_handle_spec _ _ _ _ _ _ C1 R2) as (C2 & I2 & D2 & Ok2 & Nf2).
    inversion H; subst. split; [exact C2|]. split; [intros p Hp; apply I1, I2, Hp|]. split.
    + intros p Hp Np. destruct (in_dec pair_dec p (tab st1)) as [J|J]; [right; apply D2; auto | left; apply D1; auto].
    + intro R. destruct (is_other e2) eqn:O2; [discriminate|].
      assert (forall p, In p (tab st1) -> snd p <> primary c) as N1.
      { destruct e1; [apply Ok1; reflexivity | destruct (Nf1 eq_refl) as [-> X]; exact X | discriminate]. }
      assert (forall p, In p (tab st') -> snd p <> legacy c) as N2.
      { destruct e2; [apply Ok2; reflexivity | destruct (Nf2 eq_refl) as [-> X]; exact X | discriminate]. }
      intros p Hp. split; [apply N1, I2, Hp | apply N2, Hp].
Qed.

(* histories at the datastore-access level: any number of containers, every access may fail *)
Inductive cop :=
| KAssign (h : handle) (a : addr)        (* one address of AutoAssign / AssignIP *)
| KRelAddr (a : addr) (h : handle)       (* ReleaseIPs of one address *)
| KRelH (h : handle)                     (* ReleaseByHandle *)
| KDel (c : container).                  (* a whole cmdDel *)

Definition cstep (st : cstate) (o : cop) (fs : list bool) : cstate :=
  match o with
  | KAssign h a => fst (fst (assign_one true h a st fs))
  | KRelAddr a h => fst (fst (release_addr true a h st fs))
  | KRelH h => fst (fst (release_by_handle true h st fs))
  | KDel c => fst (fst (cdel true c st fs))
  end.

Fixpoint crun (st : cstate) (l : list (cop * list bool)) : cstate :=
  match l with
  | [] => st
  | (o, fs) :: l' => crun (cstep st o fs) l'
  end.

Lemma cstep_covers : forall st o fs, covers st -> covers (cstep st o fs).
Proof.
  intros st o fs C. destruct o as [h a | a h | h | c]; simpl.
  - destruct (assign_one true h a st fs) as [[st' e] fs'] eqn:E. exact (proj1 (assign_one_spec _ _ _ _ _ _ _ C E)).
  - destruct (release_addr true a h st fs) as [[st' e] fs'] eqn:E. exact (proj1 (release_addr_spec _ _ _ _ _ _ _ C E)).
  - destruct (release_by_handle true h st fs) as [[st' e] fs'] eqn:E. exact (proj1 (release_by_handle_spec _ _ _ _ _ _ C E)).
  - destruct (cdel true c st fs) as [[st' r] fs'] eqn:E. exact (proj1 (cdel_spec _ _ _ _ _ _ C E)).
Qed.

Lemma crun_covers : forall l st, covers st -> covers (crun st l).
Proof. induction l as [|[o fs] l IH]; intros st C; simpl; [exact C | apply IH, cstep_covers, C]. Qed.

Definition cempty : cstate := {| tab := []; hrec := [] |}.
Lemma covers_empty : covers cempty.
Proof. intros h b P. simpl in P. unfold cnt in P. simpl in P. lia. Qed.

(* After ANY history of assignments, releases and deletes, each interrupted by faults at arbitrary datastore
   accesses (so handles span several blocks, are left over-counting, half released ...), a cmdDel that reports
   success -- itself with a fault pattern of its own -- leaves no address under the container's handles in any
   block. *)
Theorem multiblock_del_clean : forall l c fs st' r fs',
  cdel true c (crun cempty l) fs = (st', r, fs') -> r = RDelOk -> clean c (tab st').
Proof.
  intros l c fs st' r fs' H R.
  destruct (cdel_spec _ _ _ _ _ _ (crun_covers l _ covers_empty) H) as (_ & _ & _ & K). exact (K R).
Qed.

End Multi.

(* ---------------------------------------------------------------- the variant that deletes the handle too early *)
(* IPv4 addresses live in block 0, IPv6 addresses in block 1 *)
Definition fam_block (a : addr) : N := match a with V4 _ => 0%N | V6 _ => 1%N end.

Definition wit_c : container := {| ct_net := "net1"%string; ct_cid := "cid0"%string; ct_k8s := None |}.
(* a dual-stack container after a fault-free ADD: one address in each block, the handle counts both *)
Definition wit_st : cstate :=
  crun fam_block (cempty) [(KAssign "net1.cid0"%string (V4 1), []); (KAssign "net1.cid0"%string (V6 1), [])].

(* With "delete the handle when THIS block's count reaches zero": DEL #1 releases the first block, deletes the
   whole handle object, and fails reading the second block (fault at the 7th datastore access); DEL #2 (no fault)
   finds no handle, reports success -- and the other family's address is still allocated to the container. *)
Theorem delete_on_block_zero_refuted :
  exists fs1 st1 r1 fs1' st2 r2 fs2',
    covers fam_block wit_st /\
    cdel fam_block false wit_c wit_st fs1 = (st1, r1, fs1') /\ r1 = RFail /\
    cdel fam_block false wit_c st1 [] = (st2, r2, fs2') /\ r2 = RDelOk /\
    exists a, In (a, primary wit_c) (tab st2).
Proof.
  exists [false; false; false; false; false; false; true].
  eexists. eexists. eexists. eexists. eexists. eexists.
  split; [apply crun_covers, covers_empty|].
  split; [vm_compute; reflexivity|]. split; [reflexivity|].
  split; [vm_compute; reflexivity|]. split; [reflexivity|].
  eexists. vm_compute. left. reflexivity.
Qed.

(* the same two deletes with the tree's code: the second one releases the remaining address *)
Example pinned_code_on_the_same_faults :
  let '(st1, r1, _) := cdel fam_block true wit_c wit_st [false; false; false; false; false; false; true] in
  let '(st2, r2, _) := cdel fam_block true wit_c st1 [] in
  r1 = RFail /\ r2 = RDelOk /\ tab st2 = [].
Proof. vm_compute. auto. Qed.
