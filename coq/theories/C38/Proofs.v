(* C38 — proofs about the plugin programs of Model.v over the abstract IPAM. *)
From Coq Require Import String List NArith Bool Arith Lia.
From Verif.C38 Require Import Model Spec.
Import ListNotations.

(* ---------------------------------------------------------------- reflection *)
Lemma addr_eqb_eq : forall a b, addr_eqb a b = true <-> a = b.
Proof.
  destruct a, b; simpl; split; intro H; try discriminate; try (apply N.eqb_eq in H; subst; reflexivity);
    inversion H; subst; apply N.eqb_refl.
Qed.

Lemma pair_eqb_eq : forall p q, pair_eqb p q = true <-> p = q.
Proof.
  intros [a h] [b g]; unfold pair_eqb; simpl. rewrite andb_true_iff, addr_eqb_eq, String.eqb_eq.
  split; [intros [-> ->]; reflexivity | intro H; inversion H; auto].
Qed.

Lemma pair_dec : forall p q : addr * handle, {p = q} + {p <> q}.
Proof.
  intros p q. destruct (pair_eqb p q) eqn:E; [left; apply pair_eqb_eq, E | right; intro X; apply pair_eqb_eq in X; congruence].
Qed.

Lemma memp_In : forall p l, memp p l = true <-> In p l.
Proof.
  intros p l; unfold memp. rewrite existsb_exists. split.
  - intros [x [Hx He]]. apply pair_eqb_eq in He. subst; exact Hx.
  - intro H. exists p. split; [exact H | apply pair_eqb_eq; reflexivity].
Qed.

Lemma memp_false : forall p l, memp p l = false <-> ~ In p l.
Proof.
  intros p l. rewrite <- memp_In. destruct (memp p l); split; intro H.
  - discriminate.
  - exfalso; apply H; reflexivity.
  - intro; discriminate.
  - reflexivity.
Qed.

Lemma mema_In : forall a l, mema a l = true <-> In a l.
Proof.
  intros a l; unfold mema. rewrite existsb_exists. split.
  - intros [x [Hx He]]. apply addr_eqb_eq in He. subst; exact Hx.
  - intro H. exists a. split; [exact H | apply addr_eqb_eq; reflexivity].
Qed.

Lemma isnil_nil : forall A (l : list A), isnil l = true -> l = [].
Proof. destruct l; simpl; [reflexivity | discriminate]. Qed.

Lemma filter_all : forall A (f : A -> bool) l, (forall x, f x = true) -> filter f l = l.
Proof. intros A f l H. induction l as [|x l IH]; simpl; [reflexivity | rewrite H, IH; reflexivity]. Qed.

Lemma apply_out_nil : forall s o, o_add o = [] -> o_del o = [] -> apply_out s o = s.
Proof.
  intros s o Ha Hd. unfold apply_out. rewrite Ha, Hd, app_nil_r. apply filter_all. intro x; reflexivity.
Qed.

Lemma In_apply_out : forall p s o,
  In p (apply_out s o) <-> (In p s /\ ~ In p (o_del o)) \/ In p (o_add o).
Proof.
  intros p s o. unfold apply_out. rewrite in_app_iff, filter_In, negb_true_iff, memp_false. tauto.
Qed.

Lemma held_by_nil : forall h s, held_by h s = [] -> forall p, In p s -> snd p <> h.
Proof.
  intros h s H p Hp Heq. assert (In p (held_by h s)) as X.
  { unfold held_by. apply filter_In. split; [exact Hp | apply String.eqb_eq; exact Heq]. }
  rewrite H in X. exact X.
Qed.

(* ---------------------------------------------------------------- what the contract gives, per call *)
Lemma adm_common : forall s c o, admissible s c o = true ->
  (forall p, In p (o_del o) -> In p s) /\ (forall p, In p (o_add o) -> ~ In (fst p) (map fst s)).
Proof.
  intros s c o H. unfold admissible in H. apply andb_true_iff in H as [H _]. apply andb_true_iff in H as [H1 H2].
  rewrite forallb_forall in H1, H2. split; intros p Hp.
  - apply memp_In, H1, Hp.
  - specialize (H2 p Hp). rewrite negb_true_iff in H2. intro X. apply mema_In in X. congruence.
Qed.

Lemma adm_relh : forall s h o, admissible s (CRelH h) o = true ->
  o_add o = [] /\
  (forall p, In p (o_del o) -> In p s /\ snd p = h) /\
  (o_err o = ENone -> forall p, In p s -> snd p = h -> In p (o_del o)) /\
  (o_err o = ENotFound -> o_del o = [] /\ forall p, In p s -> snd p <> h).
Proof.
  intros s h o H. pose proof (adm_common _ _ _ H) as [Hd _].
  unfold admissible in H. apply andb_true_iff in H as [_ H]. apply andb_true_iff in H as [H H3].
  apply andb_true_iff in H as [H1 H2]. apply isnil_nil in H1. rewrite forallb_forall in H2.
  split; [exact H1|]. split.
  - intros p Hp. split; [apply Hd, Hp | apply String.eqb_eq, H2, Hp].
  - split.
    + intros He p Hp Hh. rewrite He in H3. rewrite forallb_forall in H3. specialize (H3 p Hp).
      apply orb_true_iff in H3 as [X|X].
      * rewrite negb_true_iff in X. apply String.eqb_neq in X. contradiction.
      * apply memp_In, X.
    + intros He. rewrite He in H3. apply andb_true_iff in H3 as [X Y]. apply isnil_nil in X, Y.
      split; [exact X | apply held_by_nil, Y].
Qed.

Lemma adm_relips : forall s l o, admissible s (CRelIPs l) o = true ->
  o_add o = [] /\
  (forall p, In p (o_del o) -> In p s /\ In (fst p) l) /\
  (o_err o = ENone -> forall p, In p s -> In (fst p) l -> In p (o_del o)).
Proof.
  intros s l o H. pose proof (adm_common _ _ _ H) as [Hd _].
  unfold admissible in H. apply andb_true_iff in H as [_ H]. apply andb_true_iff in H as [H H3].
  apply andb_true_iff in H as [H1 H2]. apply isnil_nil in H1. rewrite forallb_forall in H2.
  split; [exact H1|]. split.
  - intros p Hp. split; [apply Hd, Hp | apply mema_In, H2, Hp].
  - intros He p Hp Hl. rewrite He in H3. rewrite forallb_forall in H3. specialize (H3 p Hp).
    apply orb_true_iff in H3 as [X|X].
    + rewrite negb_true_iff in X. apply mema_In in Hl. congruence.
    + apply memp_In, X.
Qed.

Lemma adm_upgrade : forall s n o, admissible s (CUpgrade n) o = true -> o_add o = [] /\ o_del o = [].
Proof.
  intros s n o H. unfold admissible in H. apply andb_true_iff in H as [_ H]. apply andb_true_iff in H as [H1 H2].
  split; apply isnil_nil; assumption.
Qed.

Lemma adm_assign : forall s a h o, admissible s (CAssign a h) o = true ->
  o_del o = [] /\ (forall p, In p (o_add o) -> p = (a, h)) /\ (o_err o = ENone -> In (a, h) (o_add o)).
Proof.
  intros s a h o H. unfold admissible in H. apply andb_true_iff in H as [_ H]. apply andb_true_iff in H as [H H3].
  apply andb_true_iff in H as [H1 H2]. apply isnil_nil in H1. rewrite forallb_forall in H2.
  split; [exact H1|]. split.
  - intros p Hp. symmetry. apply pair_eqb_eq, H2, Hp.
  - intro He. rewrite He in H3. apply memp_In, H3.
Qed.

Lemma ret_ok_inv : forall n v4 r, ret_ok n v4 r = true ->
  match r with
  | None => n = 0
  | Some l => n <> 0 /\ length l <= n /\ forall a, In a l -> is_v4 a = v4
  end.
Proof.
  intros n v4 [l|]; simpl; intro H.
  - apply andb_true_iff in H as [H H3]. apply andb_true_iff in H as [H1 H2].
    rewrite negb_true_iff in H1. apply Nat.eqb_neq in H1. apply Nat.leb_le in H2.
    rewrite forallb_forall in H3. repeat split; auto. intros a Ha. specialize (H3 a Ha).
    unfold fam_ok in H3. apply Bool.eqb_prop in H3. exact H3.
  - apply Nat.eqb_eq, H.
Qed.

Lemma adm_auto : forall s h n4 n6 o, admissible s (CAuto h n4 n6) o = true ->
  o_del o = [] /\
  (forall p, In p (o_add o) -> snd p = h /\ ~ In (fst p) (map fst s)) /\
  (o_err o = ENone ->
     ret_ok n4 true (o_r4 o) = true /\ ret_ok n6 false (o_r6 o) = true /\
     (forall a, In a (olist (o_r4 o) ++ olist (o_r6 o)) -> In (a, h) (o_add o)) /\
     (forall p, In p (o_add o) -> In (fst p) (olist (o_r4 o) ++ olist (o_r6 o)))).
Proof.
  intros s h n4 n6 o H. pose proof (adm_common _ _ _ H) as [_ Hf].
  unfold admissible in H. apply andb_true_iff in H as [_ H]. apply andb_true_iff in H as [H H3].
  apply andb_true_iff in H as [H1 H2]. apply isnil_nil in H1. rewrite forallb_forall in H2.
  split; [exact H1|]. split.
  - intros p Hp. split; [apply String.eqb_eq, H2, Hp | apply Hf, Hp].
  - intro He. rewrite He in H3. apply andb_true_iff in H3 as [H3 H7]. apply andb_true_iff in H3 as [H3 H6].
    apply andb_true_iff in H3 as [H4 H5]. rewrite forallb_forall in H6, H7.
    repeat split; auto.
    + intros a Ha. specialize (H6 a Ha). apply mema_In in H6. apply in_map_iff in H6 as [[a' h'] [E Hp]].
      simpl in E. subst a'. pose proof (H2 _ Hp) as X. apply String.eqb_eq in X. simpl in X. subst h'. exact Hp.
    + intros p Hp. apply mema_In, H7, Hp.
Qed.

(* ---------------------------------------------------------------- inversion of exec *)
Lemma exec_call_inv : forall R c held (k : outcome -> prog R) s os s' r cs rest,
  exec (Call c held k) s os = Some (s', r, cs, rest) ->
  exists o os' cs', os = o :: os' /\ admissible s c o = true /\
    exec (k o) (apply_out s o) os' = Some (s', r, cs', rest) /\ cs = (c, held) :: cs'.
Proof.
  intros R c held k s os s' r cs rest H. cbn [exec] in H.
  destruct os as [|o os']; [discriminate|].
  destruct (admissible s c o) eqn:A; [|discriminate].
  destruct (exec (k o) (apply_out s o) os') as [[[[s1 r1] cs1] rest1]|] eqn:E; [|discriminate].
  inversion H; subst. exists o, os', cs1. auto.
Qed.

Lemma exec_ret_inv : forall R (x : R) s os s' r cs rest,
  exec (Ret x) s os = Some (s', r, cs, rest) -> s' = s /\ r = x /\ cs = [] /\ rest = os.
Proof. intros. cbn [exec] in H. inversion H; subst; auto. Qed.

(* exec consumes a prefix of the outcomes *)
Lemma exec_consumes : forall R (p : prog R) s os s' r cs rest,
  exec p s os = Some (s', r, cs, rest) -> exists used, os = used ++ rest /\ length used = length cs.
Proof.
  induction p as [x | c held k IH]; intros s os s' r cs rest H.
  - apply exec_ret_inv in H as (-> & -> & -> & ->). exists []. auto.
  - apply exec_call_inv in H as (o & os' & cs' & -> & A & E & ->).
    apply IH in E as [used [-> L]]. exists (o :: used). simpl. auto.
Qed.

Lemma exec_pmap : forall A B (f : A -> B) (p : prog A) s os,
  exec (pmap f p) s os =
  match exec p s os with Some (s', r, cs, rest) => Some (s', f r, cs, rest) | None => None end.
Proof.
  induction p as [x | c held k IH]; intros s os; cbn [pmap exec].
  - reflexivity.
  - destruct os as [|o os']; [reflexivity|]. destruct (admissible s c o); [|reflexivity].
    rewrite IH. destruct (exec (k o) (apply_out s o) os') as [[[[s1 r1] cs1] rest1]|]; reflexivity.
Qed.

(* ---------------------------------------------------------------- one ReleaseByHandle *)
Lemma relh_effect : forall s h o, admissible s (CRelH h) o = true ->
  incl (apply_out s o) s /\
  (forall p, In p s -> ~ In p (apply_out s o) -> snd p = h) /\
  (is_other (o_err o) = false -> forall p, In p (apply_out s o) -> snd p <> h) /\
  ((forall p, In p s -> snd p <> h) -> apply_out s o = s).
Proof.
  intros s h o A. apply adm_relh in A as (Ha & Hd & Hok & Hnf).
  split; [|split; [|split]].
  - intros p Hp. apply In_apply_out in Hp as [[X _]|X]; [exact X | rewrite Ha in X; contradiction].
  - intros p Hp Hn. destruct (in_dec pair_dec p (o_del o)) as [I|I].
    + apply Hd, I.
    + exfalso. apply Hn, In_apply_out. left. auto.
  - intros He p Hp. apply In_apply_out in Hp as [[X Y]|X]; [|rewrite Ha in X; contradiction].
    destruct (o_err o) eqn:E; try discriminate.
    + intro Hh. apply Y, Hok; auto.
    + destruct (Hnf eq_refl) as [_ Z]. apply Z, X.
  - intro Hc. assert (o_del o = []) as Dn.
    { destruct (o_del o) as [|p l] eqn:E; [reflexivity|]. exfalso.
      destruct (Hd p) as [X Y]; [left; reflexivity|]. apply (Hc p X Y). }
    apply apply_out_nil; assumption.
Qed.

(* ---------------------------------------------------------------- cmdDel *)
Definition clean (c : container) (s : store) : Prop :=
  forall p, In p s -> snd p <> primary c /\ snd p <> legacy c.

Lemma del_inv : forall c s os s' r cs rest,
  exec (cmd_del c) s os = Some (s', r, cs, rest) ->
  exists o1 os1, os = o1 :: os1 /\ admissible s (CRelH (primary c)) o1 = true /\
  ((is_other (o_err o1) = true /\ r = RFail /\ s' = apply_out s o1 /\ cs = [(CRelH (primary c), true)] /\ rest = os1) \/
   (is_other (o_err o1) = false /\
    exists o2 os2, os1 = o2 :: os2 /\ admissible (apply_out s o1) (CRelH (legacy c)) o2 = true /\
      s' = apply_out (apply_out s o1) o2 /\ rest = os2 /\
      cs = [(CRelH (primary c), true); (CRelH (legacy c), true)] /\
      r = (if is_other (o_err o2) then RFail else RDelOk))).
Proof.
  intros c s os s' r cs rest H. unfold cmd_del in H.
  apply exec_call_inv in H as (o1 & os1 & cs1 & -> & A1 & E & ->).
  exists o1, os1. split; [reflexivity|]. split; [exact A1|].
  destruct (is_other (o_err o1)) eqn:X.
  - left. apply exec_ret_inv in E as (-> & -> & -> & ->). auto.
  - right. split; [reflexivity|].
    apply exec_call_inv in E as (o2 & os2 & cs2 & -> & A2 & E & ->).
    exists o2, os2. split; [reflexivity|]. split; [exact A2|].
    destruct (is_other (o_err o2)) eqn:Y; apply exec_ret_inv in E as (-> & -> & -> & ->); auto.
Qed.

(* a successful delete leaves nothing under either handle *)
Lemma del_success_clean : forall c s os s' cs rest,
  exec (cmd_del c) s os = Some (s', RDelOk, cs, rest) -> clean c s'.
Proof.
  intros c s os s' cs rest H. apply del_inv in H as (o1 & os1 & -> & A1 & [(_ & X & _)|(N1 & o2 & os2 & -> & A2 & -> & _ & _ & R)]).
  - discriminate.
  - destruct (is_other (o_err o2)) eqn:N2; [discriminate|].
    pose proof (relh_effect _ _ _ A1) as (_ & _ & C1 & _).
    pose proof (relh_effect _ _ _ A2) as (I2 & _ & C2 & _).
    intros p Hp. split.
    + apply (C1 N1). apply I2, Hp.
    + apply (C2 N2), Hp.
Qed.

(* a delete (successful or not) only removes pairs, and only pairs of the container's handles *)
Lemma del_harmless : forall c s os s' r cs rest,
  exec (cmd_del c) s os = Some (s', r, cs, rest) ->
  incl s' s /\ forall p, In p s -> ~ In p s' -> snd p = primary c \/ snd p = legacy c.
Proof.
  intros c s os s' r cs rest H. apply del_inv in H as (o1 & os1 & -> & A1 & [(_ & _ & -> & _)|(N1 & o2 & os2 & -> & A2 & -> & _ & _ & R)]).
  - pose proof (relh_effect _ _ _ A1) as (I1 & D1 & _). split; [exact I1|]. intros p Hp Hn. left. apply D1; auto.
  - pose proof (relh_effect _ _ _ A1) as (I1 & D1 & _).
    pose proof (relh_effect _ _ _ A2) as (I2 & D2 & _).
    split; [intros p Hp; apply I1, I2, Hp|].
    intros p Hp Hn.
    destruct (in_dec pair_dec p (apply_out s o1)) as [I|I].
    + right. apply D2; auto.
    + left. apply D1; auto.
Qed.

(* on a container that holds nothing, a delete whose IPAM calls do not fail succeeds and changes nothing *)
Lemma del_on_clean : forall c s os s' r cs rest,
  clean c s -> Forall (fun o => is_other (o_err o) = false) os ->
  exec (cmd_del c) s os = Some (s', r, cs, rest) -> r = RDelOk /\ s' = s.
Proof.
  intros c s os s' r cs rest Hc Hf H.
  apply del_inv in H as (o1 & os1 & -> & A1 & [(X & _)|(N1 & o2 & os2 & -> & A2 & -> & _ & _ & R)]).
  - inversion Hf; subst. congruence.
  - inversion Hf as [|? ? F1 Hf']; subst. inversion Hf' as [|? ? F2 _]; subst.
    rewrite F2. split; [reflexivity|].
    pose proof (relh_effect _ _ _ A1) as (_ & _ & _ & E1).
    assert (apply_out s o1 = s) as E1' by (apply E1; intros p Hp; apply Hc, Hp).
    rewrite E1' in *.
    pose proof (relh_effect _ _ _ A2) as (_ & _ & _ & E2).
    apply E2. intros p Hp; apply Hc, Hp.
Qed.

(* such non-failing answers exist: "not found" twice *)
Definition notfound : outcome := {| o_err := ENotFound; o_r4 := None; o_r6 := None; o_add := []; o_del := [] |}.

Lemma filter_none : forall A (f : A -> bool) l, (forall x, In x l -> f x = false) -> filter f l = [].
Proof.
  intros A f l. induction l as [|x l IH]; simpl; intro H; [reflexivity|].
  rewrite H by (left; reflexivity). apply IH. intros y Hy. apply H. right; exact Hy.
Qed.

Lemma held_by_clean : forall h s, (forall p, In p s -> snd p <> h) -> held_by h s = [].
Proof.
  intros h s H. unfold held_by. apply filter_none. intros p Hp. apply String.eqb_neq. apply H, Hp.
Qed.

Lemma apply_notfound : forall s, apply_out s notfound = s.
Proof.
  intro s. apply apply_out_nil; reflexivity.
Qed.

Lemma del_on_clean_runs : forall c s, clean c s ->
  exec (cmd_del c) s [notfound; notfound] =
  Some (s, RDelOk, [(CRelH (primary c), true); (CRelH (legacy c), true)], []).
Proof.
  intros c s Hc. unfold cmd_del. cbn [exec].
  assert (forall h, (forall p, In p s -> snd p <> h) -> admissible s (CRelH h) notfound = true) as A.
  { intros h Hh. unfold admissible, notfound; simpl. rewrite (held_by_clean _ _ Hh). reflexivity. }
  rewrite A by (intros p Hp; apply Hc, Hp). simpl. rewrite apply_notfound.
  rewrite A by (intros p Hp; apply Hc, Hp). simpl. rewrite apply_notfound. reflexivity.
Qed.

(* ---------------------------------------------------------------- cmdAdd, requested address *)
Lemma assign_effect : forall s a h o, admissible s (CAssign a h) o = true ->
  incl s (apply_out s o) /\
  (forall p, In p (apply_out s o) -> In p s \/ p = (a, h)) /\
  (o_err o = ENone -> In (a, h) (apply_out s o)).
Proof.
  intros s a h o A. apply adm_assign in A as (Hd & Ha & Hok). split; [|split].
  - intros p Hp. apply In_apply_out. left. rewrite Hd. auto.
  - intros p Hp. apply In_apply_out in Hp as [[X _]|X]; auto.
  - intro He. apply In_apply_out. right. auto.
Qed.

Lemma upgrade_effect : forall s n o, admissible s (CUpgrade n) o = true -> apply_out s o = s.
Proof.
  intros s n o A. apply adm_upgrade in A as [Ha Hd]. apply apply_out_nil; assumption.
Qed.

Lemma assign_k_spec : forall (mm : bool) a h s0 os0 s' (m' : bool) r cs rest,
  exec (Call (CAssign a h) true (fun o => match o_err o with ENone => Ret (mm, RAddOk [a]) | _ => Ret (mm, RFail) end)) s0 os0
    = Some (s', (m', r), cs, rest) ->
  incl s0 s' /\ (forall p, In p s' -> In p s0 \/ p = (a, h)) /\
  (r = RFail \/ (r = RAddOk [a] /\ In (a, h) s')) /\
  (r = RFail -> Forall (fun o => o_err o = ENone) os0 -> False).
Proof.
  intros mm a h s0 os0 s' m' r cs rest E.
  apply exec_call_inv in E as (o & os' & cs' & -> & A & E & _).
  pose proof (assign_effect _ _ _ _ A) as (I & J & Kk).
  destruct (o_err o) eqn:Er; apply exec_ret_inv in E as (-> & E2 & _ & _); inversion E2; subst;
    (split; [exact I|]; split; [exact J|]; split).
  - right. split; [reflexivity | apply Kk; reflexivity].
  - intro X; discriminate.
  - left; reflexivity.
  - intros _ F. inversion F; subst. congruence.
  - left; reflexivity.
  - intros _ F. inversion F; subst. congruence.
Qed.

Lemma add_ip_spec : forall m h a s os s' m' r cs rest,
  exec (add_ip m h a) s os = Some (s', (m', r), cs, rest) ->
  incl s s' /\ (forall p, In p s' -> In p s \/ p = (a, h)) /\
  (r = RFail \/ (r = RAddOk [a] /\ In (a, h) s')) /\
  (r = RFail -> Forall (fun o => o_err o = ENone) os -> False).
Proof.
  intros m h a s os s' m' r cs rest H. unfold add_ip in H.
  destruct m.
  - apply assign_k_spec in H. exact H.
  - apply exec_call_inv in H as (o & os' & cs' & -> & A & E & _).
    rewrite (upgrade_effect _ _ _ A) in E.
    destruct (o_err o) eqn:Er.
    + apply assign_k_spec in E as (A' & B & C & D). repeat split; auto.
      intros Rf F. inversion F; subst. auto.
    + apply exec_ret_inv in E as (-> & E2 & _ & _). inversion E2; subst.
      split; [apply incl_refl|]. split; [auto|]. split; [left; reflexivity|].
      intros _ F. inversion F; subst. congruence.
    + apply exec_ret_inv in E as (-> & E2 & _ & _). inversion E2; subst.
      split; [apply incl_refl|]. split; [auto|]. split; [left; reflexivity|].
      intros _ F. inversion F; subst. congruence.
Qed.

(* ---------------------------------------------------------------- cmdAdd, automatic assignment *)
Lemma relips_effect : forall s l o, admissible s (CRelIPs l) o = true ->
  incl (apply_out s o) s /\
  (forall p, In p s -> ~ In p (apply_out s o) -> In (fst p) l) /\
  (o_err o = ENone -> forall p, In p (apply_out s o) -> ~ In (fst p) l).
Proof.
  intros s l o A. apply adm_relips in A as (Ha & Hd & Hok). split; [|split].
  - intros p Hp. apply In_apply_out in Hp as [[X _]|X]; [exact X | rewrite Ha in X; contradiction].
  - intros p Hp Hn. destruct (in_dec pair_dec p (o_del o)) as [I|I].
    + apply Hd, I.
    + exfalso. apply Hn, In_apply_out. left. auto.
  - intros He p Hp Hl. apply In_apply_out in Hp as [[X Y]|X]; [|rewrite Ha in X; contradiction].
    apply Y, Hok; auto.
Qed.

(* what an execution of the AutoAssign path looks like (n4, n6 are 0 or 1, as computed from the configuration) *)
Lemma add_auto_inv : forall h n4 n6 s os s' r cs rest,
  (n4 = 0 \/ n4 = 1) -> (n6 = 0 \/ n6 = 1) ->
  exec (add_auto h n4 n6) s os = Some (s', r, cs, rest) ->
  exists o os1, os = o :: os1 /\ admissible s (CAuto h n4 n6) o = true /\
  ((o_err o <> ENone /\ r = RFail /\ s' = apply_out s o /\ rest = os1 /\ cs = [(CAuto h n4 n6, true)]) \/
   (o_err o = ENone /\
    let l4 := olist (o_r4 o) in let l6 := olist (o_r6 o) in
    ((r = RAddOk (l4 ++ l6) /\ length l4 = n4 /\ length l6 = n6 /\ s' = apply_out s o /\ rest = os1 /\
      cs = [(CAuto h n4 n6, true)]) \/
     (r = RFail /\ l4 = [] /\ l6 = [] /\ s' = apply_out s o /\ rest = os1 /\ cs = [(CAuto h n4 n6, true)]) \/
     (r = RFail /\ n4 = 1 /\ n6 = 1 /\ (l4 = [] \/ l6 = []) /\ l4 ++ l6 <> [] /\
      exists o' os2, os1 = o' :: os2 /\
        admissible (apply_out s o) (CRelIPs (l4 ++ l6)) o' = true /\
        s' = apply_out (apply_out s o) o' /\ rest = os2 /\
        cs = [(CAuto h n4 n6, true); (CRelIPs (l4 ++ l6), false)])))).
Proof.
  intros h n4 n6 s os s' r cs rest Hn4 Hn6 H. unfold add_auto in H.
  apply exec_call_inv in H as (o & os1 & cs1 & -> & A & E & ->).
  exists o, os1. split; [reflexivity|]. split; [exact A|].
  destruct (o_err o) eqn:Er.
  2,3: left; apply exec_ret_inv in E as (-> & -> & -> & ->); repeat split; auto; intro; discriminate.
  right. split; [reflexivity|].
  pose proof (adm_auto _ _ _ _ _ A) as (_ & _ & Hok). destruct (Hok Er) as (R4 & R6 & _ & _).
  apply ret_ok_inv in R4, R6.
  destruct Hn4 as [-> | ->], Hn6 as [-> | ->];
    destruct (o_r4 o) as [l4|], (o_r6 o) as [l6|];
    try (destruct R4 as [R4' _]; congruence); try (destruct R6 as [R6' _]; congruence); try discriminate.
  - (* 0,0 *) cbn in E. apply exec_ret_inv in E as (-> & -> & -> & ->). left. simpl. repeat split; auto.
  - (* 0,1 *) destruct R6 as (_ & L6 & _). destruct l6 as [|a6 [|b6 l6]]; [| |simpl in L6; lia];
      cbn in E; apply exec_ret_inv in E as (-> & -> & -> & ->); simpl.
    + right; left. repeat split; auto.
    + left. repeat split; auto.
  - (* 1,0 *) destruct R4 as (_ & L4 & _). destruct l4 as [|a4 [|b4 l4]]; [| |simpl in L4; lia];
      cbn in E; apply exec_ret_inv in E as (-> & -> & -> & ->); simpl.
    + right; left. repeat split; auto.
    + left. repeat split; auto.
  - (* 1,1 *) destruct R4 as (_ & L4 & _). destruct R6 as (_ & L6 & _).
    destruct l4 as [|a4 [|b4 l4]]; [| |simpl in L4; lia];
      (destruct l6 as [|a6 [|b6 l6]]; [| |simpl in L6; lia]); cbn in E.
    + apply exec_ret_inv in E as (-> & -> & -> & ->). right; left. simpl; repeat split; auto.
    + destruct os1 as [|o' os2]; [discriminate|].
      match type of E with (if ?a then _ else _) = _ => destruct a eqn:A' end; [|discriminate].
      inversion E; subst. right; right. simpl.
      repeat split; auto; try discriminate. do 2 eexists. repeat split; eauto.
    + destruct os1 as [|o' os2]; [discriminate|].
      match type of E with (if ?a then _ else _) = _ => destruct a eqn:A' end; [|discriminate].
      inversion E; subst. right; right. simpl.
      repeat split; auto; try discriminate. do 2 eexists. repeat split; eauto.
    + apply exec_ret_inv in E as (-> & -> & -> & ->). left. simpl; repeat split; auto.
Qed.

Lemma olist_some : forall r a l, olist r = a :: l -> r = Some (a :: l).
Proof. intros [x|] a l H; simpl in H; [subst; reflexivity | discriminate]. Qed.

Lemma add_auto_spec : forall h n4 n6 s os s' r cs rest,
  (n4 = 0 \/ n4 = 1) -> (n6 = 0 \/ n6 = 1) ->
  exec (add_auto h n4 n6) s os = Some (s', r, cs, rest) ->
  incl s s' /\
  (forall p, In p s' -> In p s \/ snd p = h) /\
  (forall ips, r = RAddOk ips ->
     (n4 = 1 -> exists a, In a ips /\ is_v4 a = true /\ In (a, h) s') /\
     (n6 = 1 -> exists a, In a ips /\ is_v4 a = false /\ In (a, h) s')) /\
  (r = RFail -> Forall (fun o => o_err o = ENone) os -> incl s' s) /\
  r <> RPanic /\ r <> RDelOk.
Proof.
  intros h n4 n6 s os s' r cs rest Hn4 Hn6 H.
  apply add_auto_inv in H as (o & os1 & -> & A & H); auto.
  pose proof (adm_auto _ _ _ _ _ A) as (Hd & Hadd & Hok).
  assert (incl s (apply_out s o)) as I1.
  { intros p Hp. apply In_apply_out. left. rewrite Hd. auto. }
  assert (forall p, In p (apply_out s o) -> In p s \/ snd p = h) as J1.
  { intros p Hp. apply In_apply_out in Hp as [[X _]|X]; [left; exact X | right; apply Hadd, X]. }
  destruct H as [(Er & -> & -> & -> & _) | (Er & H)].
  - split; [exact I1|]. split; [exact J1|]. split; [intros ips X; discriminate|].
    split; [|split; discriminate]. intros _ F. inversion F; subst. contradiction.
  - destruct (Hok Er) as (R4 & R6 & Hret & Hall). apply ret_ok_inv in R4, R6.
    cbv zeta in H. destruct H as [(-> & L4 & L6 & -> & -> & _) | [(-> & E4 & E6 & -> & -> & _) | (-> & -> & -> & Hemp & Hne & o' & os2 & -> & A' & -> & -> & _)]].
    + (* success *)
      split; [exact I1|]. split; [exact J1|]. split; [|split; [discriminate | split; discriminate]].
      intros ips X. inversion X; subst ips. split; intro N.
      * subst n4. destruct (olist (o_r4 o)) as [|a l] eqn:E; [discriminate|].
        exists a. split; [left; reflexivity|]. split.
        -- apply olist_some in E. rewrite E in R4. destruct R4 as (_ & _ & F). apply F. left; reflexivity.
        -- apply In_apply_out. right. apply Hret. try rewrite E. simpl. left; reflexivity.
      * subst n6. destruct (olist (o_r6 o)) as [|a l] eqn:E; [discriminate|].
        exists a. split; [apply in_or_app; right; left; reflexivity|]. split.
        -- apply olist_some in E. rewrite E in R6. destruct R6 as (_ & _ & F). apply F. left; reflexivity.
        -- apply In_apply_out. right. apply Hret. try rewrite E. apply in_or_app. right. left; reflexivity.
    + (* both empty *)
      split; [exact I1|]. split; [exact J1|]. split; [intros ips X; discriminate|].
      split; [|split; discriminate]. intros _ _ p Hp.
      apply In_apply_out in Hp as [[X _]|X]; [exact X|]. apply Hall in X. rewrite E4, E6 in X. contradiction.
    + (* one family came back, released *)
      pose proof (relips_effect _ _ _ A') as (I2 & D2 & C2).
      split; [|split; [|split; [intros ips X; discriminate|split; [|split; discriminate]]]].
      * intros p Hp. destruct (in_dec pair_dec p (apply_out (apply_out s o) o')) as [I|I]; [exact I|].
        exfalso. specialize (D2 p (I1 p Hp) I). apply Hret in D2. apply Hadd in D2 as [_ Fr]. simpl in Fr.
        apply Fr. apply in_map. exact Hp.
      * intros p Hp. apply J1, I2, Hp.
      * intros _ F. inversion F as [|? ? _ F']; subst. inversion F' as [|? ? E' _]; subst.
        intros p Hp. pose proof (C2 E' p Hp) as Nl. apply I2 in Hp.
        apply In_apply_out in Hp as [[X _]|X]; [exact X|]. exfalso. apply Nl, Hall, X.
Qed.

(* ---------------------------------------------------------------- one invocation *)
Lemma num4_01 : forall a, num4 a = 0 \/ num4 a = 1.
Proof. intros [[|]|]; simpl; auto. Qed.
Lemma num6_01 : forall a, num6 a = 0 \/ num6 a = 1.
Proof. intros [[|]|]; simpl; auto. Qed.

Definition add_goal (c : container) (q : request) (ips : list addr) (s' : store) : Prop :=
  match q with
  | RAuto a4 a6 =>
      (num4 a4 = 1 -> exists a, In a ips /\ is_v4 a = true /\ In (a, primary c) s') /\
      (num6 a6 = 1 -> exists a, In a ips /\ is_v4 a = false /\ In (a, primary c) s')
  | RIP a => ips = [a] /\ In (a, primary c) s'
  end.

Lemma run_op_add_spec : forall w c q os w' r cs,
  run_op w (OpAdd c q) os = Some (w', r, cs) ->
  incl (w_store w) (w_store w') /\
  (forall p, In p (w_store w') -> In p (w_store w) \/ snd p = primary c) /\
  (forall ips, r = RAddOk ips -> add_goal c q ips (w_store w')) /\
  (r = RFail -> Forall (fun o => o_err o = ENone) os -> incl (w_store w') (w_store w)) /\
  r <> RPanic /\ r <> RDelOk.
Proof.
  intros w c q os w' r cs H. unfold run_op in H.
  destruct (exec (cmd_add (w_marker w) c q) (w_store w) os) as [[[[s1 [m1 r1]] cs1] rest1]|] eqn:E; [|discriminate].
  destruct rest1; [|discriminate]. inversion H; subst; clear H. simpl.
  destruct q as [a4 a6 | a]; unfold cmd_add in E.
  - rewrite exec_pmap in E.
    destruct (exec (add_auto (primary c) (num4 a4) (num6 a6)) (w_store w) os) as [[[[s2 r2] cs2] rest2]|] eqn:E2; [|discriminate].
    inversion E; subst; clear E.
    apply add_auto_spec in E2 as (A & B & C & D & F & G); [|apply num4_01|apply num6_01].
    repeat split; auto; apply (C ips); assumption.
  - apply add_ip_spec in E as (A & B & C & D).
    split; [exact A|]. split.
    { intros p Hp. apply B in Hp as [X| ->]; auto. }
    split.
    { intros ips X. simpl. destruct C as [C|[C1 C2]]; [congruence|]. rewrite C1 in X. inversion X; subst. auto. }
    split.
    { intros X F. exfalso. apply (D X F). }
    destruct C as [->|[-> _]]; split; discriminate.
Qed.

Lemma run_op_del_spec : forall w c os w' r cs,
  run_op w (OpDel c) os = Some (w', r, cs) ->
  w_marker w' = w_marker w /\
  incl (w_store w') (w_store w) /\
  (forall p, In p (w_store w) -> ~ In p (w_store w') -> snd p = primary c \/ snd p = legacy c) /\
  (r = RDelOk -> clean c (w_store w')) /\
  (clean c (w_store w) -> Forall (fun o => is_other (o_err o) = false) os -> r = RDelOk /\ w' = w) /\
  (r = RDelOk \/ r = RFail) /\
  (r = RFail -> Forall (fun o => is_other (o_err o) = false) os -> False).
Proof.
  intros w c os w' r cs H. unfold run_op in H.
  destruct (exec (cmd_del c) (w_store w) os) as [[[[s1 r1] cs1] rest1]|] eqn:E; [|discriminate].
  destruct rest1; [|discriminate]. inversion H; subst; clear H. simpl.
  pose proof (del_harmless _ _ _ _ _ _ _ E) as [I D].
  split; [reflexivity|]. split; [exact I|]. split; [exact D|]. split.
  { intro X. subst. eapply del_success_clean; eauto. }
  split.
  { intros Hc Hf. destruct (del_on_clean _ _ _ _ _ _ _ Hc Hf E) as [-> ->]. split; [reflexivity|]. destruct w; reflexivity. }
  apply del_inv in E as (o1 & os1 & -> & A1 & [(X & -> & _)|(N1 & o2 & os2 & -> & A2 & _ & _ & _ & ->)]).
  - split; [right; reflexivity|]. intros _ F. inversion F; subst. congruence.
  - destruct (is_other (o_err o2)) eqn:N2.
    + split; [right; reflexivity|]. intros _ F. inversion F as [|? ? _ F']; subst. inversion F'; subst. congruence.
    + split; [left; reflexivity|]. intro; discriminate.
Qed.

(* ---------------------------------------------------------------- histories *)
Lemma run_ops_app : forall h1 h2 w w' rs,
  run_ops w (h1 ++ h2) = Some (w', rs) ->
  exists w1 rs1 rs2, run_ops w h1 = Some (w1, rs1) /\ run_ops w1 h2 = Some (w', rs2) /\ rs = rs1 ++ rs2.
Proof.
  induction h1 as [|[o os] h1 IH]; intros h2 w w' rs H; simpl in *.
  - exists w, [], rs. auto.
  - destruct (run_op w o os) as [[[w1 r1] cs1]|] eqn:E; [|discriminate].
    destruct (run_ops w1 (h1 ++ h2)) as [[w2 rs2]|] eqn:E2; [|discriminate].
    inversion H; subst; clear H.
    apply IH in E2 as (wa & ra & rb & Ea & Eb & ->).
    exists wa, (r1 :: ra), rb. rewrite Ea. auto.
Qed.

Lemma run_ops_single : forall w o os w' rs,
  run_ops w [(o, os)] = Some (w', rs) -> exists r cs, run_op w o os = Some (w', r, cs) /\ rs = [r].
Proof.
  intros w o os w' rs H. simpl in H.
  destruct (run_op w o os) as [[[w1 r1] cs1]|] eqn:E; [|discriminate]. inversion H; subst. eauto.
Qed.

(* the final delete *)
Lemma final_del_clean : forall w hist c os w' rs,
  run_ops w (hist ++ [(OpDel c, os)]) = Some (w', rs) -> last rs RFail = RDelOk -> clean c (w_store w').
Proof.
  intros w hist c os w' rs H L.
  apply run_ops_app in H as (w1 & rs1 & rs2 & _ & H2 & ->).
  apply run_ops_single in H2 as (r & cs & E & ->).
  rewrite last_last in L. subst r.
  apply run_op_del_spec in E as (_ & _ & _ & C & _). apply C; reflexivity.
Qed.

(* everything present after a history was there before or sits under the primary handle of an ADD of the history *)
Lemma provenance : forall hist w w' rs,
  run_ops w hist = Some (w', rs) ->
  forall p, In p (w_store w') ->
    In p (w_store w) \/ exists c q os, In (OpAdd c q, os) hist /\ snd p = primary c.
Proof.
  induction hist as [|[o os] hist IH]; intros w w' rs H p Hp; simpl in H.
  - inversion H; subst. auto.
  - destruct (run_op w o os) as [[[w1 r1] cs1]|] eqn:E; [|discriminate].
    destruct (run_ops w1 hist) as [[w2 rs2]|] eqn:E2; [|discriminate].
    inversion H; subst; clear H.
    destruct (IH _ _ _ E2 p Hp) as [X | (c & q & os' & I & Hh)].
    + destruct o as [c q | c].
      * apply run_op_add_spec in E as (_ & B & _). apply B in X as [X|X]; [left; exact X|].
        right. exists c, q, os. split; [left; reflexivity | exact X].
      * apply run_op_del_spec in E as (_ & I & _). left. apply I, X.
    + right. exists c, q, os'. split; [right; exact I | exact Hh].
Qed.

Definition about (c : container) (o : op) : Prop := o = OpDel c \/ exists q, o = OpAdd c q.

(* a history that only concerns container c never touches a pair outside c's handles *)
Lemma others_untouched : forall hist c w w' rs,
  (forall o os, In (o, os) hist -> about c o) ->
  run_ops w hist = Some (w', rs) ->
  forall p, In p (w_store w) -> snd p <> primary c -> snd p <> legacy c -> In p (w_store w').
Proof.
  induction hist as [|[o os] hist IH]; intros c w w' rs Hab H p Hp N1 N2; simpl in H.
  - inversion H; subst. exact Hp.
  - destruct (run_op w o os) as [[[w1 r1] cs1]|] eqn:E; [|discriminate].
    destruct (run_ops w1 hist) as [[w2 rs2]|] eqn:E2; [|discriminate].
    inversion H; subst; clear H.
    apply (IH c w1 w' rs2); auto.
    + intros o' os' I. apply (Hab o' os'). right; exact I.
    + destruct (Hab o os (or_introl eq_refl)) as [-> | [q ->]].
      * apply run_op_del_spec in E as (_ & _ & D & _).
        destruct (in_dec pair_dec p (w_store w1)) as [I|I]; [exact I|].
        destruct (D p Hp I); contradiction.
      * apply run_op_add_spec in E as (A & _). apply A, Hp.
Qed.

(* life cycle of one container: any adds and deletes (with any admissible faults), then a successful delete *)
Lemma lifecycle : forall hist c osd w w' rs,
  (forall o os, In (o, os) hist -> about c o) ->
  run_ops w (hist ++ [(OpDel c, osd)]) = Some (w', rs) -> last rs RFail = RDelOk ->
  clean c (w_store w') /\
  incl (w_store w') (w_store w) /\
  (forall p, In p (w_store w) -> snd p <> primary c -> snd p <> legacy c -> In p (w_store w')).
Proof.
  intros hist c osd w w' rs Hab H L.
  pose proof (final_del_clean _ _ _ _ _ _ H L) as C.
  split; [exact C|]. split.
  - intros p Hp. destruct (provenance _ _ _ _ H p Hp) as [X | (c' & q & os' & I & Hh)]; [exact X|].
    exfalso. apply in_app_or in I as [I|[I|[]]]; [|discriminate].
    destruct (Hab _ _ I) as [X | [q' X]]; [discriminate|]. inversion X; subst c'.
    destruct (C p Hp) as [N _]. contradiction.
  - apply (others_untouched (hist ++ [(OpDel c, osd)]) c w w' rs); auto.
    intros o os I. apply in_app_or in I as [I|[I|[]]]; [eauto|]. inversion I; subst. left; reflexivity.
Qed.

(* repeated deletes: after a successful delete, any further delete whose IPAM calls do not fail succeeds and changes nothing *)
Lemma del_repeat : forall w c os1 w1 cs1 os2 w2 r2 cs2,
  run_op w (OpDel c) os1 = Some (w1, RDelOk, cs1) ->
  Forall (fun o => is_other (o_err o) = false) os2 ->
  run_op w1 (OpDel c) os2 = Some (w2, r2, cs2) ->
  r2 = RDelOk /\ w2 = w1.
Proof.
  intros w c os1 w1 cs1 os2 w2 r2 cs2 H1 F H2.
  apply run_op_del_spec in H1 as (_ & _ & _ & C & _).
  apply run_op_del_spec in H2 as (_ & _ & _ & _ & K & _).
  apply K; auto.
Qed.

Lemma del_repeat_exists : forall w c, clean c (w_store w) ->
  run_op w (OpDel c) [notfound; notfound] =
  Some (w, RDelOk, [(CRelH (primary c), true); (CRelH (legacy c), true)]).
Proof.
  intros w c Hc. unfold run_op. rewrite (del_on_clean_runs _ _ Hc). destruct w; reflexivity.
Qed.

(* ---------------------------------------------------------------- dual stack: which calls are made *)
Lemma dualstack_shape : forall w c a4 a6 os w' r cs,
  num4 a4 = 1 -> num6 a6 = 1 ->
  run_op w (OpAdd c (RAuto a4 a6)) os = Some (w', r, cs) ->
  exists o os1, os = o :: os1 /\
    (o_err o <> ENone ->
       r = RFail /\ cs = [(CAuto (primary c) 1 1, true)] /\ os1 = [] /\ w_store w' = apply_out (w_store w) o) /\
    (o_err o = ENone ->
       forall l4 l6, l4 = olist (o_r4 o) -> l6 = olist (o_r6 o) ->
       ((l4 = [] /\ l6 <> []) \/ (l4 <> [] /\ l6 = [])) ->
       r = RFail /\ cs = [(CAuto (primary c) 1 1, true); (CRelIPs (l4 ++ l6), false)] /\
       exists o', os1 = [o'] /\ (o_err o' = ENone -> incl (w_store w') (w_store w))).
Proof.
  intros w c a4 a6 os w' r cs N4 N6 H.
  pose proof (run_op_add_spec _ _ _ _ _ _ _ H) as (_ & _ & _ & D & _).
  unfold run_op in H.
  destruct (exec (cmd_add (w_marker w) c (RAuto a4 a6)) (w_store w) os) as [[[[s1 [m1 r1]] cs1] rest1]|] eqn:E; [|discriminate].
  destruct rest1; [|discriminate]. inversion H; subst; clear H. cbn [w_store w_marker] in *.
  unfold cmd_add in E. rewrite exec_pmap, N4, N6 in E.
  destruct (exec (add_auto (primary c) 1 1) (w_store w) os) as [[[[s2 r2] cs2] rest2]|] eqn:E2; [|discriminate].
  inversion E; subst; clear E.
  apply add_auto_inv in E2 as (o & os1 & -> & A & K); auto.
  exists o, os1. split; [reflexivity|]. split.
  - intro Er. destruct K as [(_ & -> & -> & <- & ->) | (Er' & _)]; [auto | contradiction].
  - intros Er l4 l6 -> -> Hone.
    destruct K as [(Er' & _) | (_ & K)]; [contradiction|]. cbv zeta in K.
    destruct K as [(_ & L4 & L6 & _) | [(_ & E4 & E6 & _) | (-> & _ & _ & _ & _ & o' & os2 & -> & A' & -> & <- & ->)]].
    + exfalso. destruct Hone as [[X _]|[_ X]]; rewrite X in *; discriminate.
    + exfalso. destruct Hone as [[_ X]|[X _]]; contradiction.
    + split; [reflexivity|]. split; [reflexivity|]. exists o'. split; [reflexivity|].
      intro Er'. apply D; auto.
Qed.

(* ---------------------------------------------------------------- the model meets the specification oracle *)
Lemma incl_b_true : forall a b, incl a b -> incl_b a b = true.
Proof. intros a b H. unfold incl_b. apply forallb_forall. intros p Hp. apply memp_In, H, Hp. Qed.

Lemma forallb_map_out : forall (f : outcome -> bool) (g : callrec -> bool) ks,
  (forall k, g k = f (k_out k)) -> forallb g ks = true -> Forall (fun o => f o = true) (map k_out ks).
Proof.
  intros f g ks Hfg H. rewrite forallb_forall in H. apply Forall_forall. intros o Ho.
  apply in_map_iff in Ho as [k [<- Hk]]. rewrite <- Hfg. apply H, Hk.
Qed.

Lemma is_handle_of_iff : forall c h, is_handle_of c h = true <-> h = primary c \/ h = legacy c.
Proof.
  intros c h. unfold is_handle_of, handles. simpl. rewrite !orb_true_iff, !String.eqb_eq. intuition discriminate.
Qed.

Lemma model_meets_spec : forall w o ks w' r cs,
  run_op w o (map k_out ks) = Some (w', r, cs) ->
  ok_step (w_store w) {| s_op := o; s_calls := ks; s_res := r; s_marker := w_marker w'; s_store := w_store w' |} = true.
Proof.
  intros w o ks w' r cs H. unfold ok_step; simpl. destruct o as [c q | c].
  - apply run_op_add_spec in H as (A & B & C & D & NP & ND).
    apply andb_true_iff. split; [apply andb_true_iff; split|].
    + apply forallb_forall. intros p Hp. apply orb_true_iff. left. apply memp_In, A, Hp.
    + apply forallb_forall. intros p Hp. apply orb_true_iff. destruct (B p Hp) as [X|X].
      * left. apply memp_In, X.
      * right. apply String.eqb_eq, X.
    + destruct r as [ips| | |]; try congruence.
      * specialize (C ips eq_refl). unfold add_goal in C. destruct q as [a4 a6|a].
        -- destruct C as [C4 C6]. apply andb_true_iff. split; apply orb_true_iff.
           ++ destruct (num4_01 a4) as [Z|Z]; [left; rewrite Z; reflexivity|right].
              destruct (C4 Z) as (a & I & F & M). unfold holds_family. apply existsb_exists. exists a.
              split; [exact I|]. apply andb_true_iff. split; [unfold fam_ok; rewrite F; reflexivity | apply memp_In, M].
           ++ destruct (num6_01 a6) as [Z|Z]; [left; rewrite Z; reflexivity|right].
              destruct (C6 Z) as (a & I & F & M). unfold holds_family. apply existsb_exists. exists a.
              split; [exact I|]. apply andb_true_iff. split; [unfold fam_ok; rewrite F; reflexivity | apply memp_In, M].
        -- destruct C as [-> M]. apply andb_true_iff. split; [apply mema_In; left; reflexivity | apply memp_In, M].
      * destruct (forallb no_error ks) eqn:F; [|reflexivity]. simpl. apply incl_b_true, D; [reflexivity|].
        assert (Forall (fun o => (match o_err o with ENone => true | _ => false end) = true) (map k_out ks)) as X.
        { apply (forallb_map_out (fun o => match o_err o with ENone => true | _ => false end) no_error); auto. }
        eapply Forall_impl; [|exact X]. intros o Ho. simpl in Ho. destruct (o_err o); congruence.
  - apply run_op_del_spec in H as (_ & I & D & C & _ & R & Fl).
    apply andb_true_iff. split; [apply andb_true_iff; split|].
    + apply incl_b_true, I.
    + apply forallb_forall. intros p Hp. destruct (memp p (w_store w')) eqn:M; [reflexivity|]. simpl.
      apply memp_false in M. apply is_handle_of_iff, D; auto.
    + destruct R as [-> | ->].
      * unfold clean_for. apply forallb_forall. intros p Hp. apply negb_true_iff.
        destruct (is_handle_of c (snd p)) eqn:X; [|reflexivity]. apply is_handle_of_iff in X.
        destruct (C eq_refl p Hp). tauto.
      * destruct (forallb not_failed ks) eqn:F; [|reflexivity]. exfalso. apply Fl; [reflexivity|].
        assert (Forall (fun o => negb (is_other (o_err o)) = true) (map k_out ks)) as X.
        { apply (forallb_map_out (fun o => negb (is_other (o_err o))) not_failed); auto. }
        eapply Forall_impl; [|exact X]. intros o Ho. simpl in Ho. apply negb_true_iff in Ho. exact Ho.
Qed.
