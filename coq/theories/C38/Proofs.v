(* C38 — proofs. *)
From Coq Require Import String List NArith Bool Arith Lia.
From Verif.C38 Require Import Model Spec.
Import ListNotations.

(* a delete asks the IPAM to release the primary handle first *)
Lemma del_first_call : forall c s os s' r cs rest,
  exec (cmd_del c) s os = Some (s', r, cs, rest) ->
  exists cs', cs = (CRelH (primary c), true) :: cs'.
Proof.
  intros c s os s' r cs rest H. unfold cmd_del in H. cbn [exec] in H.
  destruct os as [|o os]; [discriminate|].
  destruct (admissible s (CRelH (primary c)) o); [|discriminate].
  match type of H with match ?e with _ => _ end = _ => destruct e as [[[[s1 r1] cs1] rest1]|] end; [|discriminate].
  inversion H; subst. eexists; reflexivity.
Qed.
