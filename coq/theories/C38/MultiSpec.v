(* C38 — correspondence at the level of Multi.v: the observed IPAMHandle objects and the block of every address.
   For every observed state the invariant [covers] is evaluated (boolean form); for every invocation in which no
   fault was injected the concrete model (incrementHandle / block write / decrementHandle / ReleaseByHandle over
   the blocks listed in the handle) is replayed from the observed state before it and must produce the observed
   table AND the observed handle objects. *)
From Coq Require Import String List NArith Bool Arith.
From Verif.C38 Require Import Model Spec Proofs Multi.
Import ListNotations.

Definition blk_of (m : list (addr * N)) (a : addr) : N :=
  match find (fun e => addr_eqb (fst e) a) m with Some e => snd e | None => 0%N end.

Record step2 := { s2 : step; s2_nofault : bool; s2_hrecs : hrecs }.
Record case2 := { c2_init : store; c2_marker : bool; c2_blk : list (addr * N); c2_hrecs0 : hrecs; c2_steps : list step2 }.

Definition covers_b (bo : addr -> N) (st : cstate) : bool :=
  forallb (fun p =>
    match hlk (hrec st) (snd p) with
    | Some bl => match lk bl (bo (fst p)) with
                 | Some n => Nat.leb (cnt bo (snd p) (bo (fst p)) (tab st)) n
                 | None => false
                 end
    | None => false
    end) (tab st).

Definition hrecs_incl (a b : hrecs) : bool :=
  forallb (fun e => forallb (fun x =>
      match hlk b (fst e) with
      | Some bl => match lk bl (fst x) with Some n => Nat.eqb n (snd x) | None => false end
      | None => false
      end) (snd e)) a.
(* an observed handle object always has at least one block; the model deletes a handle when its last block goes *)
Definition nonempty_recs (a : hrecs) : bool := forallb (fun e => negb (isnil (snd e))) a.
Definition hrecs_eqb (a b : hrecs) : bool :=
  hrecs_incl a b && hrecs_incl b a && Nat.eqb (length a) (length b) && nonempty_recs a && nonempty_recs b.

Definition replay_call (bo : addr -> N) (st : cstate) (k : callrec) : cstate :=
  match k_call k with
  | CAuto _ _ _ | CAssign _ _ =>
      fold_left (fun s p => fst (fst (assign_one bo true (snd p) (fst p) s []))) (o_add (k_out k)) st
  | CRelIPs _ =>
      fold_left (fun s p => fst (fst (release_addr bo true (fst p) (snd p) s []))) (o_del (k_out k)) st
  | CRelH h => fst (fst (release_by_handle bo true h st []))
  | _ => st
  end.

Fixpoint agree2 (bo : addr -> N) (st : cstate) (l : list step2) : bool :=
  match l with
  | [] => true
  | x :: l' =>
      let obs := {| tab := s_store (s2 x); hrec := s2_hrecs x |} in
      covers_b bo obs &&
      (if s2_nofault x then
         let m := fold_left (replay_call bo) (s_calls (s2 x)) st in
         store_eqb (tab m) (tab obs) && hrecs_eqb (hrec m) (hrec obs)
       else true) &&
      agree2 bo obs l'
  end.

Definition check_case2 (c : case2) : bool * bool :=
  let old := check_case {| c_init := c2_init c; c_marker := c2_marker c; c_steps := map s2 (c2_steps c) |} in
  let st0 := {| tab := c2_init c; hrec := c2_hrecs0 c |} in
  (fst old && covers_b (blk_of (c2_blk c)) st0 && agree2 (blk_of (c2_blk c)) st0 (c2_steps c), snd old).

(* covers_b decides covers *)
Lemma covers_b_sound : forall bo st, covers_b bo st = true -> covers bo st.
Proof.
  intros bo st H h b P. unfold covers_b in H. rewrite forallb_forall in H.
  apply cnt_pos_in in P as (p & Ip & Hp & Bp). specialize (H p Ip). rewrite Hp, Bp in H.
  destruct (hlk (hrec st) h) as [bl|] eqn:E1; [|discriminate]. destruct (lk bl b) as [n|] eqn:E2; [|discriminate].
  exists bl, n. split; [reflexivity|]. split; [exact E2|]. apply Nat.leb_le, H.
Qed.
