(* C38 — the strings the driver can generate, as constants: a string literal costs ~200 constructor nodes to
   elaborate, a constant costs one (quick tier time).  Generated from the driver's name universe; the driver
   falls back to a literal for any other string. *)
From Coq Require Import String.
Definition N__nil_ : string := "<nil>"%string.
Definition N__none_ : string := "<none>"%string.
Definition N_cid0 : string := "cid0"%string.
Definition N_cid1 : string := "cid1"%string.
Definition N_cid2 : string := "cid2"%string.
Definition N_default : string := "default"%string.
Definition N_default_pod0 : string := "default.pod0"%string.
Definition N_default_pod1 : string := "default.pod1"%string.
Definition N_k8s_pod_network : string := "k8s-pod-network"%string.
Definition N_k8s_pod_network_cid0 : string := "k8s-pod-network.cid0"%string.
Definition N_k8s_pod_network_cid1 : string := "k8s-pod-network.cid1"%string.
Definition N_k8s_pod_network_cid2 : string := "k8s-pod-network.cid2"%string.
Definition N_k8s_pod_network_default_pod0 : string := "k8s-pod-network.default.pod0"%string.
Definition N_n_x : string := "n.x"%string.
Definition N_n_x_cid0 : string := "n.x.cid0"%string.
Definition N_n_x_cid1 : string := "n.x.cid1"%string.
Definition N_n_x_cid2 : string := "n.x.cid2"%string.
Definition N_n_x_default_pod0 : string := "n.x.default.pod0"%string.
Definition N_net1 : string := "net1"%string.
Definition N_net1_cid0 : string := "net1.cid0"%string.
Definition N_net1_cid1 : string := "net1.cid1"%string.
Definition N_net1_cid2 : string := "net1.cid2"%string.
Definition N_net1_default_pod0 : string := "net1.default.pod0"%string.
Definition N_node1 : string := "node1"%string.
Definition N_ns1 : string := "ns1"%string.
Definition N_ns1_pod0 : string := "ns1.pod0"%string.
Definition N_ns1_pod1 : string := "ns1.pod1"%string.
Definition N_other_net_other_cid : string := "other-net.other-cid"%string.
Definition N_pod0 : string := "pod0"%string.
Definition N_pod1 : string := "pod1"%string.
