(* C38 — executable model of the calico-ipam CNI plugin (cni-plugin/pkg/ipamplugin/ipam_plugin.go, cmdAdd / cmdDel,
   non-KubeVirt paths) as programs over an ABSTRACT IPAM.

   Abstract IPAM state: the allocation table, a list of (address, handle) pairs.  The plugin talks to it through
   five calls (UpgradeHost, AssignIP, AutoAssign, ReleaseIPs, ReleaseByHandle).  What a call does is NOT computed:
   it is an [outcome] chosen by the environment (error class, the assignments handed back to the plugin, and the
   effect on the table as added / removed pairs).  [admissible] is the contract every outcome must satisfy (the
   only things the plugin may rely on); apart from that the environment is free: any call may fail, before or
   after (part of) its effect, AutoAssign may return fewer addresses than asked.

   Definitions only; proofs are in Proofs.v. *)
From Coq Require Import String List NArith Bool Arith.
Import ListNotations.

(* ---------------------------------------------------------------- addresses, handles, table *)
Inductive addr := V4 (n : N) | V6 (n : N).
Definition addr_eqb (a b : addr) : bool :=
  match a, b with
  | V4 x, V4 y => N.eqb x y
  | V6 x, V6 y => N.eqb x y
  | _, _ => false
  end.
Definition is_v4 (a : addr) : bool := match a with V4 _ => true | V6 _ => false end.
Definition fam_ok (v4 : bool) (a : addr) : bool := Bool.eqb (is_v4 a) v4.

Definition handle := string.
Definition store := list (addr * handle).

Definition pair_eqb (p q : addr * handle) : bool := addr_eqb (fst p) (fst q) && String.eqb (snd p) (snd q).
Definition memp (p : addr * handle) (l : store) : bool := existsb (pair_eqb p) l.
Definition mema (a : addr) (l : list addr) : bool := existsb (addr_eqb a) l.
Definition held_by (h : handle) (s : store) : store := filter (fun p => String.eqb (snd p) h) s.
Definition isnil {A} (l : list A) : bool := match l with [] => true | _ => false end.

(* ---------------------------------------------------------------- the IPAM interface as seen by the plugin *)
Inductive errk := ENone | ENotFound (* cerrors.ErrorResourceDoesNotExist *) | EOther.

Inductive call :=
| CUpgrade (node : string)
| CAssign (a : addr) (h : handle)
| CAuto (h : handle) (n4 n6 : nat)
| CRelIPs (l : list addr)
| CRelH (h : handle)
| COther (name : string).   (* any IPAM method the modelled paths never use *)

Record outcome := {
  o_err : errk;                      (* error class returned to the plugin *)
  o_r4 : option (list addr);         (* AutoAssign: the IPv4 *IPAMAssignments (None = nil pointer), its IPs *)
  o_r6 : option (list addr);
  o_add : store;                     (* effect: pairs that appeared in the table *)
  o_del : store                      (* effect: pairs that disappeared *)
}.

Definition apply_out (s : store) (o : outcome) : store :=
  (filter (fun p => negb (memp p (o_del o))) s ++ o_add o).

Definition olist (r : option (list addr)) : list addr := match r with Some l => l | None => [] end.

(* shape of one returned family: nil pointer exactly when nothing was requested, never more than requested,
   right family *)
Definition ret_ok (n : nat) (v4 : bool) (r : option (list addr)) : bool :=
  match r with
  | None => Nat.eqb n 0
  | Some l => negb (Nat.eqb n 0) && Nat.leb (length l) n && forallb (fam_ok v4) l
  end.

(* The contract of the abstract IPAM. *)
Definition admissible (s : store) (c : call) (o : outcome) : bool :=
  (* only existing pairs disappear; appearing addresses were free *)
  forallb (fun p => memp p s) (o_del o) &&
  forallb (fun p => negb (mema (fst p) (map fst s))) (o_add o) &&
  match c with
  | CUpgrade _ => isnil (o_add o) && isnil (o_del o)
  | CAssign a h =>
      isnil (o_del o) && forallb (pair_eqb (a, h)) (o_add o) &&
      match o_err o with ENone => memp (a, h) (o_add o) | _ => true end
  | CAuto h n4 n6 =>
      (* whatever it allocates, it allocates under the handle it was given; without an error the two returned
         lists are exactly what was allocated *)
      isnil (o_del o) && forallb (fun p => String.eqb (snd p) h) (o_add o) &&
      match o_err o with
      | ENone =>
          ret_ok n4 true (o_r4 o) && ret_ok n6 false (o_r6 o) &&
          forallb (fun a => mema a (map fst (o_add o))) (olist (o_r4 o) ++ olist (o_r6 o)) &&
          forallb (fun p => mema (fst p) (olist (o_r4 o) ++ olist (o_r6 o))) (o_add o)
      | _ => true
      end
  | CRelIPs l =>
      isnil (o_add o) && forallb (fun p => mema (fst p) l) (o_del o) &&
      match o_err o with
      | ENone => forallb (fun p => negb (mema (fst p) l) || memp p (o_del o)) s
      | _ => true
      end
  | CRelH h =>
      isnil (o_add o) && forallb (fun p => String.eqb (snd p) h) (o_del o) &&
      match o_err o with
      | ENone => forallb (fun p => negb (String.eqb (snd p) h) || memp p (o_del o)) s
      | ENotFound => isnil (o_del o) && isnil (held_by h s)   (* "not found" only when the handle holds nothing (C19) *)
      | EOther => true
      end
  | COther _ => false
  end.

(* ---------------------------------------------------------------- plugin programs *)
Inductive prog (R : Type) : Type :=
| Ret (r : R)
| Call (c : call) (held : bool) (k : outcome -> prog R).   (* held: the host-wide IPAM lock is held during the call *)
Arguments Ret {R} r.
Arguments Call {R} c held k.

Fixpoint exec {R} (p : prog R) (s : store) (os : list outcome)
  : option (store * R * list (call * bool) * list outcome) :=
  match p with
  | Ret r => Some (s, r, [], os)
  | Call c held k =>
      match os with
      | [] => None
      | o :: os' =>
          if admissible s c o then
            match exec (k o) (apply_out s o) os' with
            | Some (s', r, cs, rest) => Some (s', r, (c, held) :: cs, rest)
            | None => None
            end
          else None
      end
  end.

Record container := {
  ct_net : string;                       (* conf.Name *)
  ct_cid : string;                       (* args.ContainerID *)
  ct_k8s : option (string * string)      (* K8S_POD_NAMESPACE, K8S_POD_NAME *)
}.
Definition node : string := "node1"%string.              (* conf.Nodename of the harness *)

(* utils.GetHandleID *)
Definition primary (c : container) : handle := String.append (ct_net c) (String.append "."%string (ct_cid c)).
(* cmdDel's workloadID (v2.x upgrades) *)
Definition legacy (c : container) : handle :=
  match ct_k8s c with Some (ns, pod) => String.append ns (String.append "."%string pod) | None => ct_cid c end.

Inductive request :=
| RAuto (assign4 assign6 : option bool)   (* conf.IPAM.AssignIpv4 / AssignIpv6: unset, "true", "false" *)
| RIP (a : addr).                         (* CNI_ARGS IP=... *)

Inductive result := RAddOk (ips : list addr) | RDelOk | RFail | RPanic.

Definition num4 (a4 : option bool) : nat := match a4 with Some false => 0 | _ => 1 end.
Definition num6 (a6 : option bool) : nat := match a6 with Some true => 1 | _ => 0 end.

(* v != nil && len(v.IPs) < num *)
Definition short (n : nat) (r : option (list addr)) : bool :=
  match r with Some l => Nat.ltb (length l) n | None => false end.
(* v != nil && len(v.IPs) > 0 *)
Definition nonempty (r : option (list addr)) : bool :=
  match r with Some (_ :: _) => true | _ => false end.

(* `if num == 1 { if err := v.PartialFulfillmentError(); err != nil { return } ; r.IPs = append(r.IPs, v.IPs[0]) }` *)
Definition take_family (n : nat) (r : option (list addr)) (acc : list addr) (k : list addr -> result) : result :=
  if Nat.eqb n 1 then
    match r with
    | None => RPanic                                   (* nil pointer dereference *)
    | Some l => match l with
                | [] => RFail                          (* len(IPs) < NumRequested *)
                | a :: _ => k (acc ++ [a])
                end
    end
  else k acc.

Definition release_if (b : bool) (l : list addr) (k : prog result) : prog result :=
  if b then Call (CRelIPs l) false (fun _ => k)   (* error only logged *)
  else k.

Definition add_auto (h : handle) (n4 n6 : nat) : prog result :=
  Call (CAuto h n4 n6) true (fun o =>
    match o_err o with
    | ENone =>
        let r4 := o_r4 o in
        let r6 := o_r6 o in
        release_if (Nat.eqb n4 1 && short n4 r4 && (Nat.eqb n6 1 && nonempty r6)) (olist r6)
        (release_if (Nat.eqb n6 1 && short n6 r6 && (Nat.eqb n4 1 && nonempty r4)) (olist r4)
        (Ret (take_family n4 r4 [] (fun acc => take_family n6 r6 acc RAddOk))))
    | _ => Ret RFail
    end).

Definition add_ip (marker : bool) (h : handle) (a : addr) : prog (bool * result) :=
  let assign (m : bool) :=
    Call (CAssign a h) true (fun o =>
      match o_err o with ENone => Ret (m, RAddOk [a]) | _ => Ret (m, RFail) end) in
  if marker then assign true
  else Call (CUpgrade node) true (fun o =>
         match o_err o with ENone => assign true | _ => Ret (false, RFail) end).

Fixpoint pmap {A B} (f : A -> B) (p : prog A) : prog B :=
  match p with
  | Ret r => Ret (f r)
  | Call c h k => Call c h (fun o => pmap f (k o))
  end.

(* cmdAdd; the boolean is the state of the IPAM-upgraded marker file afterwards *)
Definition cmd_add (marker : bool) (c : container) (q : request) : prog (bool * result) :=
  match q with
  | RIP a => add_ip marker (primary c) a
  | RAuto a4 a6 => pmap (fun r => (marker, r)) (add_auto (primary c) (num4 a4) (num6 a6))
  end.

Definition is_other (e : errk) : bool := match e with EOther => true | _ => false end.

(* cmdDel *)
Definition cmd_del (c : container) : prog result :=
  Call (CRelH (primary c)) true (fun o =>
    if is_other (o_err o) then Ret RFail else
    Call (CRelH (legacy c)) true (fun o2 =>
      if is_other (o_err o2) then Ret RFail else Ret RDelOk)).

(* ---------------------------------------------------------------- histories *)
Inductive op := OpAdd (c : container) (q : request) | OpDel (c : container).

Record world := { w_store : store; w_marker : bool }.

(* one ADD/DEL invocation consuming exactly the outcomes [os] *)
Definition run_op (w : world) (o : op) (os : list outcome) : option (world * result * list (call * bool)) :=
  match o with
  | OpAdd c q =>
      match exec (cmd_add (w_marker w) c q) (w_store w) os with
      | Some (s', (m', r), cs, []) => Some ({| w_store := s'; w_marker := m' |}, r, cs)
      | _ => None
      end
  | OpDel c =>
      match exec (cmd_del c) (w_store w) os with
      | Some (s', r, cs, []) => Some ({| w_store := s'; w_marker := w_marker w |}, r, cs)
      | _ => None
      end
  end.

(* a history: every invocation with the outcomes of its IPAM calls *)
Fixpoint run_ops (w : world) (h : list (op * list outcome)) : option (world * list result) :=
  match h with
  | [] => Some (w, [])
  | (o, os) :: h' =>
      match run_op w o os with
      | Some (w', r, _) =>
          match run_ops w' h' with
          | Some (w'', rs) => Some (w'', r :: rs)
          | None => None
          end
      | None => None
      end
  end.
