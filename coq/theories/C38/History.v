(* C38 — the specification oracle accepts every HISTORY of the model (the form in which the correspondence run
   applies it to the implementation: ok_steps over the whole observed case). *)
From Coq Require Import String List NArith Bool Arith.
From Verif.C38 Require Import Model Spec Proofs.
Import ListNotations.

(* the observation sequence the model produces for a history of invocations with their IPAM answers *)
Fixpoint model_steps (w : world) (h : list (op * list callrec)) : option (list step) :=
  match h with
  | [] => Some []
  | (o, ks) :: h' =>
      match run_op w o (map k_out ks) with
      | Some (w', r, _) =>
          match model_steps w' h' with
          | Some l => Some ({| s_op := o; s_calls := ks; s_res := r; s_marker := w_marker w'; s_store := w_store w' |} :: l)
          | None => None
          end
      | None => None
      end
  end.

Lemma model_steps_ok : forall h w l, model_steps w h = Some l -> ok_steps (w_store w) l = true.
Proof.
  induction h as [|[o ks] h IH]; intros w l H; simpl in H.
  - inversion H; subst. reflexivity.
  - destruct (run_op w o (map k_out ks)) as [[[w' r] cs]|] eqn:E; [|discriminate].
    destruct (model_steps w' h) as [l'|] eqn:E2; [|discriminate]. inversion H; subst; clear H.
    cbn [ok_steps]. rewrite (model_meets_spec _ _ _ _ _ _ E). cbn [s_store andb]. apply IH, E2.
Qed.
