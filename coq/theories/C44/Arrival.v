(* C44 - the owner of an interface depends only on WHICH endpoints are live (and their latest data), not on the
   order in which the messages arrived, nor on how they were batched, nor on the iteration order. *)
From Coq Require Import List NArith Bool Lia.
Import ListNotations.
From Verif.C44 Require Import Model Spec MapLemmas Proofs Fixed Term Cover Meets.
Open Scope N_scope.

(* preferred S n is THE least claimant: characterisation by lookups only *)
Definition least_claimant (S : live) (n : N) (m : id) (wm : ep) : Prop :=
  dget S m = Some wm /\ e_if wm = n /\ forall k wk, dget S k = Some wk -> e_if wk = n -> asc k m = false.

Lemma in_claimants : forall S n k wk, dget S k = Some wk -> e_if wk = n -> In (k, wk) (claimants S n).
Proof.
  intros. unfold claimants. apply filter_In. split; [eapply get_in; eauto; apply id_eqb_spec|].
  simpl. rewrite H0. apply N.eqb_refl.
Qed.

Lemma preferred_least : forall S n m wm, nodupk S -> preferred S n = Some (m, wm) -> least_claimant S n m wm.
Proof.
  intros S n m wm HS E. unfold preferred in E. apply best_of_some in E. destruct E as [Hin Hmin].
  unfold claimants in Hin. apply filter_In in Hin. destruct Hin as [Hin Hn]. simpl in Hn. apply N.eqb_eq in Hn.
  apply (in_get id_eqb asc id_eqb_spec) in Hin; auto. repeat split; auto.
  intros k wk Hk Hkn. apply (Hmin (k, wk)). apply in_claimants; auto.
Qed.

Lemma least_unique : forall S n m wm m' wm',
    least_claimant S n m wm -> least_claimant S n m' wm' -> m = m' /\ wm = wm'.
Proof.
  intros S n m wm m' wm' (A1 & A2 & A3) (B1 & B2 & B3).
  assert (m = m').
  { destruct (id_eqb m m') eqn:E; [apply id_eqb_spec; assumption|]. exfalso.
    assert (m <> m') by (intros Q; apply id_eqb_spec in Q; congruence).
    pose proof (A3 m' wm' B1 B2) as Q1. pose proof (B3 m wm A1 A2) as Q2.
    pose proof (asc_total _ _ Q1 (not_eq_sym H)). congruence. }
  subst. split; auto. congruence.
Qed.

Lemma preferred_ext : forall S S' n,
    nodupk S -> nodupk S' -> (forall i, dget S i = dget S' i) -> preferred S n = preferred S' n.
Proof.
  intros S S' n HS HS' Hext.
  destruct (preferred S n) as [[m wm]|] eqn:E; destruct (preferred S' n) as [[m' wm']|] eqn:E'; auto.
  - pose proof (preferred_least _ _ _ _ HS E) as L. pose proof (preferred_least _ _ _ _ HS' E') as L'.
    assert (L2 : least_claimant S n m' wm').
    { destruct L' as (B1 & B2 & B3). repeat split; auto; [rewrite Hext; auto|].
      intros k wk Hk. apply B3. rewrite <- Hext. assumption. }
    destruct (least_unique _ _ _ _ _ _ L L2). subst. reflexivity.
  - exfalso. pose proof (preferred_least _ _ _ _ HS E) as (A1 & A2 & _).
    unfold preferred in E'. apply best_of_none in E'.
    assert (Hc : In (m, wm) (claimants S' n)) by (apply in_claimants; auto; rewrite <- Hext; auto).
    rewrite E' in Hc. destruct Hc.
  - exfalso. pose proof (preferred_least _ _ _ _ HS' E') as (A1 & A2 & _).
    unfold preferred in E. apply best_of_none in E.
    assert (Hc : In (m', wm') (claimants S n)) by (apply in_claimants; auto; rewrite Hext; auto).
    rewrite E in Hc. destruct Hc.
Qed.

Lemma nodupk_live_of : forall h, nodupk (live_of h).
Proof. intros. unfold live_of. apply nodupk_fold_live. constructor. Qed.

Lemma arrival_independent : forall bs bs' n,
    (forall i, dget (live_of (concat (map fst bs))) i = dget (live_of (concat (map fst bs'))) i) ->
    let o := observe (run true st0 bs) in let o' := observe (run true st0 bs') in
    iget (o_ids o) n = iget (o_ids o') n /\ iget (o_tw o) n = iget (o_tw o') n /\ iget (o_fw o) n = iget (o_fw o') n
    /\ routes_at o n = routes_at o' n /\ nmem n (o_dfrom o) = nmem n (o_dfrom o') /\ nmem n (o_dto o) = nmem n (o_dto o').
Proof.
  intros bs bs' n E. cbv zeta.
  destruct (obs_determined bs n) as (A1&A2&A3&A4&A5&A6). destruct (obs_determined bs' n) as (B1&B2&B3&B4&B5&B6).
  rewrite A1, A2, A3, A4, A5, A6, B1, B2, B3, B4, B5, B6.
  rewrite (preferred_ext _ _ n (nodupk_live_of _) (nodupk_live_of _) E). repeat split; reflexivity.
Qed.

(* the owner is the minimum of the claimants, stated with lookups only *)
Lemma owner_is_minimum : forall bs n i, let s := run true st0 bs in let S := live_of (concat (map fst bs)) in
    iget (o_ids (observe s)) n = Some i <->
    exists w, least_claimant S n i w.
Proof.
  intros bs n i s S. destruct (preferred_main bs n) as (P1 & P2 & P3). fold s S in P1, P2, P3. split.
  - intros Hi. rewrite P1 in Hi. destruct (preferred S n) as [[m wm]|] eqn:E; [|discriminate].
    simpl in Hi. inversion Hi; subst. exists wm. apply preferred_least; auto. apply nodupk_live_of.
  - intros [w L]. pose proof L as (L1 & L2 & L3).
    destruct (P3 (ex_intro _ i (ex_intro _ w (conj L1 L2)))) as [j Hj].
    rewrite P1 in *. destruct (preferred S n) as [[m wm]|] eqn:E; [|discriminate].
    pose proof (preferred_least _ _ _ _ (nodupk_live_of _) E) as L'.
    destruct (least_unique _ _ _ _ _ _ L L') as [Q1 Q2]. rewrite Q1. simpl. reflexivity.
Qed.
