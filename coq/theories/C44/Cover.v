(* C44 - the repaired code: coverage invariant.  Every shadowed endpoint that has no pending message has a
   SMALLER endpoint (wlIdsAscending) that is active on, or queued for, its interface name.  Together with the
   exact bookkeeping (Fixed.v) and termination (Term.v) this gives: after CompleteDeferredWork the active
   endpoint of an interface name is the least live claimant. *)
From Coq Require Import List NArith Bool Lia.
Import ListNotations.
From Verif.C44 Require Import Model Spec MapLemmas Proofs Fixed Term.
Open Scope N_scope.

Definition act_on (s : st) (j : id) (n : N) : Prop := exists wj, dget (act s) j = Some wj /\ e_if wj = n.
Definition pend_on (s : st) (j : id) (n : N) : Prop := exists wj, dget (pend s) j = Some (Some wj) /\ e_if wj = n.
(* coverage that does not rely on x being active *)
Definition cov (s : st) (x i : id) (n : N) : Prop :=
  exists j, asc j i = true /\ ((j <> x /\ act_on s j n) \/ pend_on s j n).
Definition covered (s : st) (i : id) (n : N) : Prop :=
  exists j, asc j i = true /\ (act_on s j n \/ pend_on s j n).
Definition K4 (s : st) : Prop :=
  forall i w, dget (pend s) i = None -> dget (shad s) i = Some w -> covered s i (e_if w).
(* between two applies only active endpoints cover *)
Definition K4a (s : st) : Prop :=
  forall i w, dget (pend s) i = None -> dget (shad s) i = Some w -> exists j, asc j i = true /\ act_on s j (e_if w).

Lemma cov_covered : forall s x i n, cov s x i n -> covered s i n.
Proof. intros s x i n [j [Hj [[_ H]|H]]]; exists j; auto. Qed.

Lemma K4a_K4 : forall s, K4a s -> K4 s.
Proof. intros s H i w Hp Hs. destruct (H i w Hp Hs) as [j [Hj Ha]]. exists j; auto. Qed.

Lemma K4_K4a : forall s, K4 s -> pend s = [] -> K4a s.
Proof.
  intros s H Hp i w Hpi Hs. destruct (H i w Hpi Hs) as [j [Hj [Ha|[wj [Hq _]]]]]; [eauto|].
  rewrite Hp in Hq. discriminate.
Qed.

Lemma K4a_on_update : forall s o, K4a s -> K4a (on_update s o).
Proof.
  intros s o H i w Hp Hs.
  assert (Hp' : dget (pend s) i = None).
  { destruct o as [k wk|k]; simpl in Hp; rewrite dget_ins in Hp; destruct (id_eqb k i); congruence. }
  assert (Hs' : dget (shad s) i = Some w) by (destruct o; exact Hs).
  destruct (H i w Hp' Hs') as [j [Hj [wj [Ha Hn]]]]. exists j. split; auto. exists wj. destruct o; auto.
Qed.

(* ---------- promote ---------- *)
Lemma promote_pend_keep : forall n s i v,
    dget (pend s) i = Some v -> dget (pend (promote true n s)) i = Some v.
Proof.
  intros. unfold promote. destruct (best_of _) as [[b wb]|] eqn:Hb; auto. simpl.
  apply best_of_some in Hb. destruct Hb as [Hin _]. apply filter_In in Hin. destruct Hin as [_ Hf].
  simpl in Hf. apply andb_true_iff in Hf. destruct Hf as [_ Hnp]. apply negb_true_iff in Hnp.
  unfold mem in Hnp. rewrite dget_ins. destruct (id_eqb b i) eqn:E; auto. inv_eqb. subst.
  rewrite H in Hnp. discriminate.
Qed.

Lemma promote_cov : forall x n s,
    (forall k wk, dget (pend s) k = None -> dget (shad s) k = Some wk -> e_if wk <> n -> cov s x k (e_if wk)) ->
    forall k wk, dget (pend (promote true n s)) k = None -> dget (shad (promote true n s)) k = Some wk ->
                 cov (promote true n s) x k (e_if wk).
Proof.
  intros x n s H k wk. unfold promote.
  set (cands := filter (fun kv => (e_if (snd kv) =? n) && negb (dmem (pend s) (fst kv))) (shad s)).
  destruct (best_of cands) as [[b wb]|] eqn:Hb.
  - apply best_of_some in Hb. destruct Hb as [Hin Hmin]. pose proof Hin as Hin'.
    apply filter_In in Hin'. destruct Hin' as [_ Hf]. simpl in Hf. apply andb_true_iff in Hf.
    destruct Hf as [Hbn Hnp]. apply negb_true_iff in Hnp. unfold mem in Hnp. inv_eqb.
    simpl. rewrite dget_ins, dget_del. destruct (id_eqb b k) eqn:E; [discriminate|]. intros Hp Hs. inv_eqb.
    destruct (N.eq_dec (e_if wk) n) as [En|En].
    + (* same name: b is now queued and is smaller *)
      assert (Hc : In (k, wk) cands).
      { subst cands. apply filter_In. split.
        - eapply get_in; eauto. apply id_eqb_spec.
        - simpl. rewrite En, N.eqb_refl. unfold mem. rewrite Hp. reflexivity. }
      specialize (Hmin _ Hc). simpl in Hmin.
      exists b. split; [apply asc_total; auto|]. right. exists wb. split; auto.
      simpl. rewrite dget_ins, id_eqb_refl. reflexivity. congruence.
    + destruct (H k wk Hp Hs En) as [j [Hj [[Hjx Ha]|[wj [Hq Hqn]]]]]; exists j; split; auto.
      right. exists wj. split; auto. simpl. rewrite dget_ins.
      destruct (id_eqb b j) eqn:E2; auto. inv_eqb. subst. destruct (dget (pend s) j); discriminate.
  - intros Hp Hs. apply best_of_none in Hb.
    destruct (N.eq_dec (e_if wk) n) as [En|En].
    + exfalso. assert (Hc : In (k, wk) cands).
      { subst cands. apply filter_In. split.
        - eapply get_in; eauto. apply id_eqb_spec.
        - simpl. rewrite En, N.eqb_refl. unfold mem. rewrite Hp. reflexivity. }
      rewrite Hb in Hc. destruct Hc.
    + apply H; auto.
Qed.

(* ---------- the last assignment of the update branch ---------- *)
Lemma K4_finish : forall s1 i w X Y Z W,
    (forall k wk, dget (pend s1) k = None -> dget (shad s1) k = Some wk -> cov s1 i k (e_if wk)) ->
    dget (pend s1) i = Some (Some w) -> dget (shad s1) i = None ->
    K4 (mkSt (ddel i (pend s1)) (dins i w (act s1)) X (shad s1) Y Z W).
Proof.
  intros s1 i w X Y Z W H Hp Hs k wk. simpl. rewrite dget_del.
  destruct (id_eqb i k) eqn:E; inv_eqb.
  - subst. intros _ Q. congruence.
  - intros Hpk Hsk. destruct (H k wk Hpk Hsk) as [j [Hj [[Hjx [wj [Ha Hn]]]|[wj [Hq Hqn]]]]]; exists j; split; auto.
    + left. exists wj. split; auto. simpl. rewrite dget_ins, (id_eqb_neq i j) by congruence. assumption.
    + destruct (id_eqb i j) eqn:E2; inv_eqb.
      * subst. left. exists w. split; [simpl; rewrite dget_ins, id_eqb_refl; reflexivity | congruence].
      * right. exists wj. split; auto. simpl. rewrite dget_del, (id_eqb_neq i j) by assumption. assumption.
Qed.

Lemma K4_install : forall s i w,
    K4 s -> dget (pend s) i = Some (Some w) -> dget (shad s) i = None ->
    K4 (install true s (dget (act s) i) i w).
Proof.
  intros s i w H Hp Hs. unfold install.
  (* coverage in s that does not rely on i being active, for names where i is not active or where i stays *)
  assert (Hc : forall k wk, dget (pend s) k = None -> dget (shad s) k = Some wk ->
                            (forall o, dget (act s) i = Some o -> e_if o = e_if wk -> e_if w = e_if wk) ->
                            cov s i k (e_if wk)).
  { intros k wk Hpk Hsk Hname. destruct (H k wk Hpk Hsk) as [j [Hj [[wj [Ha Hn]]|Hq]]].
    - destruct (id_eqb j i) eqn:E; inv_eqb.
      + subst. exists i. split; auto. right. exists w. split; auto. eapply Hname; eauto.
      + exists j. split; auto. left. split; auto. exists wj; auto.
    - exists j. split; auto. }
  destruct (dget (act s) i) as [o|] eqn:Ho.
  - destruct (negb (e_if o =? e_if w)) eqn:Er; inv_eqb.
    + match goal with |- context [promote true ?n ?x] => set (s' := x) end.
      apply K4_finish.
      * apply promote_cov. intros k wk Hpk Hsk Hne. simpl in Hpk, Hsk.
        destruct (Hc k wk Hpk Hsk) as [j [Hj Hd]].
        { intros o' Ho' Heq. inversion Ho'; subst. congruence. }
        exists j. split; auto.
      * apply promote_pend_keep. exact Hp.
      * apply promote_shad_none. exact Hs.
    + apply K4_finish; auto. intros k wk Hpk Hsk. apply Hc; auto.
      intros o' Ho' Heq. inversion Ho'; subst. congruence.
  - apply K4_finish; auto. intros k wk Hpk Hsk. apply Hc; auto. intros o' Ho'. discriminate.
Qed.

Lemma K4_step_rem : forall s i, K4 s -> dget (pend s) i = Some None -> K4 (step_rem true s i).
Proof.
  intros s i H Hp. unfold step_rem.
  destruct (remove_active_pas s (dget (act s) i) i) as (R1&R2&R3).
  set (s1 := remove_active s (dget (act s) i) i) in *. clearbody s1.
  set (s2 := mkSt (ddel i (pend s1)) (act s1) (i2id s1) (ddel i (shad s1)) (cbi s1) (ftab s1) (rts s1)).
  assert (Hc : forall k wk, dget (pend s2) k = None -> dget (shad s2) k = Some wk ->
                            (forall o, dget (act s) i = Some o -> e_if o <> e_if wk) -> cov s2 i k (e_if wk)).
  { intros k wk. simpl. rewrite R1, R3, !dget_del. destruct (id_eqb i k) eqn:E; [discriminate|]. inv_eqb.
    intros Hpk Hsk Hne. destruct (H k wk Hpk Hsk) as [j [Hj [[wj [Ha Hn]]|[wj [Hq Hqn]]]]]; exists j; split; auto.
    - assert (j <> i) by (intros Q; subst; eapply Hne; eauto).
      left. split; auto. exists wj. split; auto. simpl. rewrite R2, dget_del, (id_eqb_neq i j) by congruence. assumption.
    - right. exists wj. split; auto. simpl. rewrite R1, dget_del.
      destruct (id_eqb i j) eqn:E2; auto. inv_eqb. subst. congruence. }
  destruct (dget (act s) i) as [o|] eqn:Ho.
  - intros k wk Hpk Hsk. eapply cov_covered. apply promote_cov; eauto.
    intros k' wk' Hpk' Hsk' Hne. apply Hc; auto. intros o' Ho' Q. inversion Ho'; subst. congruence.
  - intros k wk Hpk Hsk. eapply cov_covered. apply Hc; auto. intros o' Ho'. discriminate.
Qed.

Lemma K4_step_upd : forall s i w,
    K4 s -> J s -> dget (pend s) i = Some (Some w) -> K4 (step_upd true s i w).
Proof.
  intros s i w H HJ Hp. unfold step_upd.
  set (s' := set_shad s (ddel i (shad s))).
  assert (H' : K4 s').
  { intros k wk. simpl. rewrite dget_del. destruct (id_eqb i k); [discriminate|]. intros Hpk Hsk.
    destruct (H k wk Hpk Hsk) as [j [Hj Hd]]. exists j. split; auto. }
  assert (Hsh : dget (shad s') i = None) by (simpl; rewrite dget_del, id_eqb_refl; reflexivity).
  assert (HJ' : J s') by (eapply J_same; [| | | | |exact HJ]; reflexivity).
  assert (Ea : act s' = act s) by reflexivity.
  assert (Hp' : dget (pend s') i = Some (Some w)) by exact Hp.
  clearbody s'. rewrite <- Ea. clear H HJ Hp Ea s.
  destruct (iget (i2id s') (e_if w)) as [ex|] eqn:Hex; [|apply K4_install; auto].
  destruct (negb (id_eqb ex i)) eqn:Ene; [|apply K4_install; auto].
  inv_eqb.
  assert (Hexa : exists we, dget (act s') ex = Some we /\ e_if we = e_if w) by (apply (J1 s' HJ'); assumption).
  destruct Hexa as [we [Hwe Hwn]].
  destruct (asc ex i) eqn:Easc.
  - (* lose *)
    set (s1 := mkSt (ddel i (pend s')) (act s') (i2id s') (dins i w (shad s')) (cbi s') (ftab s') (rts s')).
    assert (Hl : forall k wk, dget (pend s1) k = None -> dget (shad s1) k = Some wk ->
                              (forall o, dget (act s') i = Some o -> e_if o <> e_if wk) ->
                              exists j, asc j k = true /\ j <> i /\ (act_on s' j (e_if wk) \/ pend_on s' j (e_if wk))).
    { intros k wk. simpl. rewrite dget_del, dget_ins. destruct (id_eqb i k) eqn:E; inv_eqb.
      - subst. intros _ Q Hne. inversion Q; subst. exists ex. split; auto. split; auto. left. exists we; auto.
      - intros Hpk Hsk Hne. destruct (H' k wk Hpk Hsk) as [j [Hj [[wj [Ha Hn]]|[wj [Hq Hqn]]]]].
        + assert (j <> i) by (intros Q; subst; eapply Hne; eauto).
          exists j. split; auto. split; auto. left. exists wj; auto.
        + destruct (id_eqb j i) eqn:E2; inv_eqb.
          * subst. exists ex. split; [eapply asc_trans; eauto|]. split; auto. left. exists we. split; auto. congruence.
          * exists j. split; auto. split; auto. right. exists wj; auto. }
    destruct (dget (act s') i) as [o|] eqn:Ho.
    + destruct (remove_active_pas s1 (Some o) i) as (R1&R2&R3).
      intros k wk Hpk Hsk. eapply cov_covered. apply (promote_cov i); eauto.
      intros k' wk'. rewrite R1, R3. intros Hpk' Hsk' Hne.
      destruct (Hl k' wk' Hpk' Hsk') as [j [Hj [Hji Hd]]].
      { intros o' Ho' Q. inversion Ho'; subst. congruence. }
      exists j. split; auto. destruct Hd as [[wj [Ha Hn]]|[wj [Hq Hqn]]].
      * left. split; auto. exists wj. split; auto. rewrite R2. simpl. rewrite dget_del, (id_eqb_neq i j) by congruence. assumption.
      * right. exists wj. split; auto. rewrite R1. simpl. rewrite dget_del, (id_eqb_neq i j) by congruence. assumption.
    + intros k wk Hpk Hsk. destruct (Hl k wk Hpk Hsk) as [j [Hj [Hji Hd]]].
      { intros o' Ho'. discriminate. }
      exists j. split; auto. destruct Hd as [[wj [Ha Hn]]|[wj [Hq Hqn]]].
      * left. exists wj; auto.
      * right. exists wj. split; auto. simpl. rewrite dget_del, (id_eqb_neq i j) by congruence. assumption.
  - (* win *)
    assert (Hie : asc i ex = true) by (apply asc_total; auto).
    rewrite Hwe.
    set (s1 := set_shad s' (dins ex we (shad s'))).
    destruct (remove_active_pas s1 (Some we) ex) as (R1&R2&R3).
    set (s2 := remove_active s1 (Some we) ex) in *. clearbody s2. simpl in R1, R2, R3.
    assert (E2 : dget (act s2) i = dget (act s') i).
    { rewrite R2, dget_del, (id_eqb_neq ex i) by assumption. reflexivity. }
    rewrite <- E2. apply K4_install.
    + intros k wk. rewrite R1, R3, dget_ins. intros Hpk Hsk.
      assert (Hpi : pend_on s2 i (e_if w)) by (exists w; rewrite R1; auto).
      destruct (id_eqb ex k) eqn:E; inv_eqb.
      * subst. inversion Hsk; subst. exists i. split; auto. right. rewrite Hwn. exact Hpi.
      * destruct (H' k wk Hpk Hsk) as [j [Hj [[wj [Ha Hn]]|[wj [Hq Hqn]]]]].
        -- destruct (id_eqb ex j) eqn:E3; inv_eqb.
           ++ subst. exists i. split; [eapply asc_trans; eauto|]. right.
              assert (e_if wk = e_if w) by congruence. rewrite H. exact Hpi.
           ++ exists j. split; auto. left. exists wj. split; auto. rewrite R2, dget_del, (id_eqb_neq ex j) by assumption. assumption.
        -- exists j. split; auto. right. exists wj. rewrite R1. auto.
    + rewrite R1. assumption.
    + rewrite R3, dget_ins, (id_eqb_neq ex i) by assumption. assumption.
Qed.

Lemma K4_step : forall s i, K4 s -> J s -> K4 (step true s i).
Proof.
  intros. unfold step. destruct (dget (pend s) i) as [[w|]|] eqn:E; auto using K4_step_upd, K4_step_rem.
Qed.

Lemma K4_resolve : forall fuel sched s, K4 s -> J s -> K4 (resolve true fuel sched s).
Proof.
  induction fuel as [|f IH]; intros; simpl; auto.
  destruct (pend s); auto. apply IH; [apply K4_step | apply J_step]; assumption.
Qed.

Lemma K4a_fold_on_update : forall ops s, K4a s -> K4a (fold_left on_update ops s).
Proof. induction ops; simpl; intros; auto. apply IHops. apply K4a_on_update. assumption. Qed.

(* ---------- the invariant between applies ---------- *)
Record Inv (S : live) (s : st) : Prop := mkInv {
  InvK : K S s; InvJ : J s; InvC : K4a s; InvP : pend s = []; InvS : nodupk S
}.

Lemma nodupk_live_step : forall S o, nodupk S -> nodupk (live_step S o).
Proof. intros S [i w|i] H; simpl; [apply nodupk_dins | apply nodupk_ddel]; assumption. Qed.

Lemma nodupk_fold_live : forall ops S, nodupk S -> nodupk (fold_left live_step ops S).
Proof. induction ops; simpl; intros; auto. apply IHops. apply nodupk_live_step. assumption. Qed.

Lemma Inv_st0 : Inv [] st0.
Proof.
  constructor; auto using K_st0, J_st0.
  - intros i w _ Q. discriminate.
  - constructor.
Qed.

Lemma Inv_apply_batch : forall S s ops sched,
    Inv S s -> Inv (fold_left live_step ops S) (apply_batch true sched s ops).
Proof.
  intros S s ops sched [HK HJ HC HP HS].
  pose proof (apply_batch_drains true sched s ops) as Hd.
  unfold apply_batch in *.
  set (s1 := fold_left on_update ops s) in *.
  assert (K1 : K (fold_left live_step ops S) s1) by (apply K_fold_on_update; assumption).
  assert (J1' : J s1) by (apply J_fold_on_update; assumption).
  assert (C1 : K4 s1) by (apply K4a_K4, K4a_fold_on_update; assumption).
  constructor; auto.
  - apply K_resolve. assumption.
  - apply J_resolve. assumption.
  - apply K4_K4a; auto. apply K4_resolve; assumption.
  - apply nodupk_fold_live. assumption.
Qed.

Lemma Inv_run : forall bs S s, Inv S s -> Inv (fold_left live_step (concat (map fst bs)) S) (run true s bs).
Proof.
  induction bs as [|[ops sched] t IH]; simpl; intros; auto.
  rewrite fold_left_app. apply IH. apply Inv_apply_batch. assumption.
Qed.

Lemma Inv_reach : forall bs, Inv (live_of (concat (map fst bs))) (run true st0 bs).
Proof. intros. unfold live_of. apply Inv_run. apply Inv_st0. Qed.

(* ---------- the active endpoint of an interface name is the least live claimant ---------- *)
Lemma Inv_preferred : forall S s n,
    Inv S s ->
    match preferred S n with
    | Some (m, wm) => iget (i2id s) n = Some m /\ dget (act s) m = Some wm /\ dget S m = Some wm /\ e_if wm = n
    | None => iget (i2id s) n = None
    end.
Proof.
  intros S s n [HK HJ HC HP HS]. pose proof HK as [H3 H2 H5]. pose proof HJ as [J1 J2 J3 J4].
  assert (Hnp : forall i, dget (pend s) i = None) by (intros; rewrite HP; reflexivity).
  (* an active endpoint is live with the same data *)
  assert (Hal : forall i w, dget (act s) i = Some w -> dget S i = Some w).
  { intros i w Ha. pose proof (H2 i (Hnp i)) as Hpl. unfold placed in Hpl. rewrite Ha in Hpl.
    destruct (dget S i) as [w'|]; [destruct Hpl as [[Q _]|[Q _]]; congruence | destruct Hpl; discriminate]. }
  unfold preferred. destruct (best_of (claimants S n)) as [[m wm]|] eqn:Hb.
  - apply best_of_some in Hb. destruct Hb as [Hin Hmin]. unfold claimants in Hin.
    apply filter_In in Hin. destruct Hin as [Hin Hn]. simpl in Hn. inv_eqb.
    apply (in_get id_eqb asc id_eqb_spec) in Hin; auto.
    assert (Ham : dget (act s) m = Some wm).
    { pose proof (H2 m (Hnp m)) as Hpl. unfold placed in Hpl. rewrite Hin in Hpl.
      destruct Hpl as [[Q _]|[Qa Qs]]; auto. exfalso.
      destruct (HC m wm (Hnp m) Qs) as [j [Hj [wj [Ha Hjn]]]].
      assert (Hc : In (j, wj) (claimants S n)).
      { unfold claimants. apply filter_In. split.
        - eapply get_in; [apply id_eqb_spec | apply Hal; exact Ha].
        - simpl. rewrite Hjn, Hn. apply N.eqb_refl. }
      specialize (Hmin _ Hc). simpl in Hmin. congruence. }
    repeat split; auto. apply J1. exists wm; auto.
  - apply best_of_none in Hb. destruct (iget (i2id s) n) as [i|] eqn:Hi; auto. exfalso.
    apply J1 in Hi. destruct Hi as [w [Ha Hn]].
    assert (Hc : In (i, w) (claimants S n)).
    { unfold claimants. apply filter_In. split.
      - eapply get_in; [apply id_eqb_spec | apply Hal; exact Ha].
      - simpl. rewrite Hn. apply N.eqb_refl. }
    rewrite Hb in Hc. destruct Hc.
Qed.
