(* C44 - part 2: the repaired code (fx = true).  The bookkeeping of pending / active / shadowed endpoints is
   exact with respect to the fold of the history: every live endpoint without a pending message is either
   active or shadowed with its LATEST data, nothing else is active or shadowed, and a pending entry is
   the latest message.  Consequences: nothing is programmed for an interface name that no live endpoint
   uses, and whatever is programmed on an interface is the current state of a live endpoint claiming it. *)
From Coq Require Import List NArith Bool Lia.
Import ListNotations.
From Verif.C44 Require Import Model Spec MapLemmas Proofs.
Open Scope N_scope.

Definition placed (S : live) (s : st) (i : id) : Prop :=
  match dget S i with
  | None => dget (act s) i = None /\ dget (shad s) i = None
  | Some w => (dget (act s) i = Some w /\ dget (shad s) i = None)
              \/ (dget (act s) i = None /\ dget (shad s) i = Some w)
  end.

Record K (S : live) (s : st) : Prop := mkK {
  K3 : forall i v, dget (pend s) i = Some v -> v = dget S i;
  K2 : forall i, dget (pend s) i = None -> placed S s i;
  K5 : nodupk (shad s)
}.

Lemma K_st0 : K [] st0.
Proof. constructor; simpl; intros; try discriminate. - unfold placed; simpl; auto. - constructor. Qed.

Lemma nodupk_dins : forall {V} (l : list (id * V)) k v, nodupk l -> nodupk (dins k v l).
Proof. intros. apply (nodupk_ins id_eqb asc id_eqb_spec); auto. Qed.
Lemma nodupk_ddel : forall {V} (l : list (id * V)) k, nodupk l -> nodupk (ddel k l).
Proof. intros. apply (nodupk_del id_eqb asc id_eqb_spec); auto. Qed.

Lemma K_on_update : forall S s o, K S s -> K (live_step S o) (on_update s o).
Proof.
  intros S s o [H3 H2 H5]. destruct o as [i w|i]; constructor; simpl; intros; auto.
  - rewrite dget_ins in H. rewrite dget_ins. destruct (id_eqb i i0) eqn:E; [congruence | auto].
  - rewrite dget_ins in H. destruct (id_eqb i i0) eqn:E; [discriminate|].
    specialize (H2 _ H). unfold placed in *. simpl. rewrite dget_ins, E. exact H2.
  - rewrite dget_ins in H. rewrite dget_del. destruct (id_eqb i i0) eqn:E; [congruence | auto].
  - rewrite dget_ins in H. destruct (id_eqb i i0) eqn:E; [discriminate|].
    specialize (H2 _ H). unfold placed in *. simpl. rewrite dget_del, E. exact H2.
Qed.

Lemma K_promote : forall S n s, K S s -> K S (promote true n s).
Proof.
  intros S n s HK. pose proof HK as [H3 H2 H5]. unfold promote.
  destruct (best_of _) as [[b wb]|] eqn:Hb; auto.
  apply best_of_some in Hb. destruct Hb as [Hin _]. apply filter_In in Hin. destruct Hin as [Hin Hf].
  simpl in Hf. apply andb_true_iff in Hf. destruct Hf as [_ Hnp]. apply negb_true_iff in Hnp.
  unfold mem in Hnp. destruct (dget (pend s) b) eqn:Hpb; [discriminate|].
  apply (in_get id_eqb asc id_eqb_spec) in Hin; auto.
  pose proof (H2 b Hpb) as Hpl. unfold placed in Hpl.
  assert (HS : dget S b = Some wb).
  { destruct (dget S b) as [w'|]; [destruct Hpl as [[_ Q]|[_ Q]] | destruct Hpl as [_ Q]]; congruence. }
  constructor; simpl; intros.
  - rewrite dget_ins in H. destruct (id_eqb b i) eqn:E; inv_eqb; [subst; congruence | auto].
  - rewrite dget_ins in H. destruct (id_eqb b i) eqn:E; [discriminate|].
    specialize (H2 _ H). unfold placed in *. simpl. rewrite dget_del, E. exact H2.
  - apply nodupk_ddel. assumption.
Qed.

(* K only looks at pend, act, shad *)
Lemma K_same : forall S s s', pend s' = pend s -> act s' = act s -> shad s' = shad s -> K S s -> K S s'.
Proof.
  intros S s s' E1 E2 E3 [H3 H2 H5]. constructor; unfold placed in *; rewrite ?E1, ?E2, ?E3; auto.
Qed.


Lemma remove_active_pas : forall s old i,
    pend (remove_active s old i) = pend s /\ act (remove_active s old i) = ddel i (act s)
    /\ shad (remove_active s old i) = shad s.
Proof. intros. unfold remove_active. destruct old; simpl; auto. Qed.

Lemma K_finish : forall S s1 i w X Y Z W,
    K S s1 -> dget S i = Some w -> dget (shad s1) i = None ->
    K S (mkSt (ddel i (pend s1)) (dins i w (act s1)) X (shad s1) Y Z W).
Proof.
  intros S s1 i w X Y Z W [H3 H2 H5] HS Hsh. constructor; simpl; intros; auto.
  - rewrite dget_del in H. destruct (id_eqb i i0); [discriminate | auto].
  - rewrite dget_del in H. unfold placed. simpl. rewrite dget_ins.
    destruct (id_eqb i i0) eqn:E; inv_eqb.
    + subst. rewrite HS. left. auto.
    + apply H2. assumption.
Qed.

Lemma promote_shad_none : forall n s i, dget (shad s) i = None -> dget (shad (promote true n s)) i = None.
Proof.
  intros. unfold promote. destruct (best_of _) as [[b wb]|]; simpl; auto.
  rewrite dget_del. destruct (id_eqb b i); auto.
Qed.

Lemma K_install : forall S s old i w,
    K S s -> dget S i = Some w -> dget (shad s) i = None -> K S (install true s old i w).
Proof.
  intros S s old i w HK HS Hsh. unfold install.
  destruct old as [o|]; [destruct (negb (e_if o =? e_if w))|].
  - match goal with |- context [promote true ?n ?x] => set (s' := x) end.
    assert (HK' : K S s') by (eapply K_same; [| | |exact HK]; reflexivity).
    apply K_finish; auto. apply K_promote; auto. apply promote_shad_none. assumption.
  - apply K_finish; auto.
  - apply K_finish; auto.
Qed.

Lemma K_step_rem : forall S s i, K S s -> dget (pend s) i = Some None -> K S (step_rem true s i).
Proof.
  intros S s i HK Hp. pose proof HK as [H3 H2 H5]. unfold step_rem.
  destruct (remove_active_pas s (dget (act s) i) i) as (R1&R2&R3).
  set (s1 := remove_active s (dget (act s) i) i) in *. clearbody s1.
  assert (HSi : dget S i = None) by (symmetry; apply (H3 i None); assumption).
  assert (HK2 : K S (mkSt (ddel i (pend s1)) (act s1) (i2id s1) (ddel i (shad s1)) (cbi s1) (ftab s1) (rts s1))).
  { constructor; simpl; intros; rewrite ?R1, ?R2, ?R3 in *.
    - rewrite dget_del in H. destruct (id_eqb i i0); [discriminate | auto].
    - rewrite dget_del in H. unfold placed. simpl. rewrite ?R2, ?R3. rewrite !dget_del.
      destruct (id_eqb i i0) eqn:E; inv_eqb.
      + subst. rewrite HSi. auto.
      + apply H2. assumption.
    - apply nodupk_ddel. assumption. }
  destruct (dget (act s) i); auto. apply K_promote. assumption.
Qed.

Lemma K_step_upd : forall S s i w, K S s -> dget (pend s) i = Some (Some w) -> K S (step_upd true s i w).
Proof.
  intros S s i w HK Hp. pose proof HK as [H3 H2 H5]. unfold step_upd.
  assert (HSi : dget S i = Some w) by (symmetry; apply (H3 i (Some w)); assumption).
  set (s' := set_shad s (ddel i (shad s))).
  assert (HK' : K S s').
  { constructor; simpl; intros; auto.
    - unfold placed. simpl. rewrite dget_del. destruct (id_eqb i i0) eqn:E; inv_eqb; [subst; congruence|].
      apply H2. assumption.
    - apply nodupk_ddel. assumption. }
  assert (Hsh : dget (shad s') i = None) by (simpl; rewrite dget_del, id_eqb_refl; reflexivity).
  assert (Ea : act s' = act s) by reflexivity.
  assert (Ep : pend s' = pend s) by reflexivity.
  clearbody s'. pose proof HK' as [H3' H2' H5'].
  destruct (iget (i2id s') (e_if w)) as [ex|]; [|apply K_install; auto].
  destruct (negb (id_eqb ex i)) eqn:Ene; [|apply K_install; auto].
  inv_eqb.
  destruct (asc ex i).
  - (* lose *)
    set (s1 := mkSt (ddel i (pend s')) (act s') (i2id s') (dins i w (shad s')) (cbi s') (ftab s') (rts s')).
    destruct (dget (act s) i) as [o|] eqn:Ho.
    + apply K_promote.
      destruct (remove_active_pas s1 (Some o) i) as (R1&R2&R3).
      constructor; intros; rewrite ?R1, ?R2, ?R3 in *; simpl in *.
      * rewrite dget_del in H. destruct (id_eqb i i0); [discriminate | auto].
      * rewrite dget_del in H. unfold placed. rewrite ?R2, ?R3. simpl. rewrite ?dget_del, ?dget_ins.
        destruct (id_eqb i i0) eqn:E; inv_eqb.
        -- subst. rewrite HSi. right. auto.
        -- apply H2'. assumption.
      * apply nodupk_dins. assumption.
    + constructor; intros; simpl in *.
      * rewrite dget_del in H. destruct (id_eqb i i0); [discriminate | auto].
      * rewrite dget_del in H. unfold placed. simpl. rewrite dget_ins.
        destruct (id_eqb i i0) eqn:E; inv_eqb.
        -- subst. rewrite HSi. right. rewrite Ea. auto.
        -- apply H2'. assumption.
      * apply nodupk_dins. assumption.
  - (* win *)
    destruct (dget (act s') ex) as [we|] eqn:Hwe.
    + set (s1 := set_shad s' (dins ex we (shad s'))).
      destruct (remove_active_pas s1 (Some we) ex) as (R1&R2&R3).
      apply K_install; auto.
      * constructor; intros; rewrite ?R1, ?R2, ?R3 in *; simpl in *; auto.
        -- unfold placed. rewrite ?R2, ?R3. simpl. rewrite ?dget_del, ?dget_ins.
           destruct (id_eqb ex i0) eqn:E; inv_eqb.
           ++ subst. specialize (H2' _ H). unfold placed in H2'. rewrite Hwe in H2'.
              destruct (dget S i0) as [w'|]; [|destruct H2'; discriminate].
              destruct H2' as [[Q1 Q2]|[Q1 Q2]]; [|discriminate]. inversion Q1; subst. right. auto.
           ++ apply H2'. assumption.
        -- apply nodupk_dins. assumption.
      * rewrite R3. simpl. rewrite dget_ins, (id_eqb_neq ex i) by assumption. assumption.
    + destruct (remove_active_pas s' None ex) as (R1&R2&R3).
      apply K_install; auto.
      constructor; intros; rewrite ?R1, ?R2, ?R3 in *; auto.
        unfold placed. rewrite ?R2, ?R3. rewrite ?dget_del.
        destruct (id_eqb ex i0) eqn:E; inv_eqb.
        -- subst. specialize (H2' _ H). unfold placed in H2'. rewrite Hwe in H2'. exact H2'.
        -- apply H2'. assumption.
Qed.

Lemma K_step : forall S s i, K S s -> K S (step true s i).
Proof.
  intros. unfold step. destruct (dget (pend s) i) as [[w|]|] eqn:E; auto using K_step_upd, K_step_rem.
Qed.

Lemma K_resolve : forall S fuel sched s, K S s -> K S (resolve true fuel sched s).
Proof.
  induction fuel as [|f IH]; intros; simpl; auto.
  destruct (pend s); auto. apply IH. apply K_step. assumption.
Qed.

Lemma K_fold_on_update : forall ops S s, K S s -> K (fold_left live_step ops S) (fold_left on_update ops s).
Proof. induction ops; simpl; intros; auto. apply IHops. apply K_on_update. assumption. Qed.

Lemma K_run : forall bs S s, K S s -> K (fold_left live_step (concat (map fst bs)) S) (run true s bs).
Proof.
  induction bs as [|[ops sched] t IH]; simpl; intros; auto.
  rewrite fold_left_app. apply IH. unfold apply_batch. apply K_resolve. apply K_fold_on_update. assumption.
Qed.

Lemma K_reach : forall bs, K (live_of (concat (map fst bs))) (run true st0 bs).
Proof. intros. unfold live_of. apply K_run. apply K_st0. Qed.

(* ---------- consequences, used by Props.v ---------- *)
(* whatever the repaired manager has programmed on an interface after a completed apply is the CURRENT state
   of a live endpoint that claims the interface *)
Lemma programmed_is_live :
  forall bs n i, let s := run true st0 bs in let S := live_of (concat (map fst bs)) in
    pend s = [] -> iget (o_ids (observe s)) n = Some i ->
    exists w, dget S i = Some w /\ e_if w = n
              /\ iget (o_tw (observe s)) n = Some (chains_of w) /\ iget (o_fw (observe s)) n = Some (chains_of w)
              /\ routes_at (observe s) n = routes_of w.
Proof.
  intros bs n i s S Hp Hi. pose proof (K_reach bs) as HK. pose proof (J_reach true bs) as HJ.
  fold s in HK, HJ. fold S in HK. destruct HK as [H3 H2 H5]. destruct HJ as [J1 J2 J3 J4].
  simpl in Hi. pose proof Hi as Hi'. apply J1 in Hi'. destruct Hi' as [w [Hw Hn]].
  assert (Hpi : dget (pend s) i = None) by (rewrite Hp; reflexivity).
  specialize (H2 i Hpi). unfold placed in H2. rewrite Hw in H2.
  assert (HS : dget S i = Some w).
  { destruct (dget S i) as [w'|]; [destruct H2 as [[Q _]|[Q _]]; congruence | destruct H2; discriminate]. }
  exists w. split; auto. split; auto. unfold routes_at. simpl. rewrite J3, J4, Hi, Hw. simpl.
  repeat split; auto.
  unfold routes_for, routes_of. destruct (e_up w); auto. destruct (e_ips w); auto.
Qed.

(* nothing is left for an interface name that no live endpoint uses *)
Lemma no_leftovers :
  forall bs n, let s := run true st0 bs in let S := live_of (concat (map fst bs)) in
    pend s = [] -> (forall i w, dget S i = Some w -> e_if w <> n) ->
    iget (o_ids (observe s)) n = None /\ iget (o_tw (observe s)) n = None /\ iget (o_fw (observe s)) n = None
    /\ iget (o_routes (observe s)) n = None.
Proof.
  intros bs n s S Hp Hno.
  destruct (iget (o_ids (observe s)) n) as [i|] eqn:Hi.
  - exfalso. destruct (programmed_is_live bs n i Hp Hi) as [w [HS [Hn _]]]. eapply Hno; eauto.
  - pose proof (J_reach true bs) as HJ. fold s in HJ. destruct HJ as [J1 J2 J3 J4].
    simpl in *. rewrite J3, J4, Hi. auto.
Qed.
