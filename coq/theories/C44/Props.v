(* C44 - theorems.  `run fx st0 bs` is the model of the endpoint manager after the batches bs; every
   batch is a list of OnUpdate messages followed by CompleteDeferredWork and comes with its own schedule
   (which pending entry the range over pendingWlEpUpdates produces next), so "for all bs" quantifies over
   every history AND every iteration order.  fx = false is the code as pinned, fx = true the code with
   fixes/C44-shadowed-endpoint-bookkeeping.patch. *)
From Coq Require Import List NArith Bool Lia.
Import ListNotations.
From Verif.C44 Require Import Model Spec MapLemmas Proofs Fixed.
Open Scope N_scope.

(* One endpoint per interface (pinned and fixed code, every history, every iteration order): two active
   endpoints never share an interface name, activeWlIfaceNameToID names exactly the active endpoint of
   the interface, and the chains found on an interface are the chains of that one endpoint. *)
Theorem c44_one_endpoint_per_iface :
  forall fx bs, let s := run fx st0 bs in
    (forall i j wi wj, dget (act s) i = Some wi -> dget (act s) j = Some wj -> e_if wi = e_if wj -> i = j)
    /\ (forall n i, iget (o_ids (observe s)) n = Some i <-> exists w, dget (act s) i = Some w /\ e_if w = n)
    /\ (forall n c, iget (o_tw (observe s)) n = Some c ->
                    exists i w, iget (o_ids (observe s)) n = Some i /\ dget (act s) i = Some w /\ e_if w = n /\ c = chains_of w).
Proof. exact one_endpoint_per_iface. Qed.
Print Assumptions c44_one_endpoint_per_iface.

(* Routes only for administratively up endpoints (pinned and fixed code): whatever routes an interface has
   are exactly the addresses of its one active endpoint, and that endpoint is admin up. *)
Theorem c44_routes_only_admin_up :
  forall fx bs n r, let s := run fx st0 bs in
    iget (o_routes (observe s)) n = Some r ->
    exists i w, iget (o_ids (observe s)) n = Some i /\ dget (act s) i = Some w /\ e_if w = n
                /\ e_up w = true /\ r = e_ips w /\ r <> [].
Proof. exact routes_only_admin_up. Qed.
Print Assumptions c44_routes_only_admin_up.

(* The full statement is FALSE of the code as pinned: there are histories (with iteration orders) after which
   the oracle of Spec.v rejects what is programmed.
   (a) the active endpoint of interface 0 moves to interface 1; the shadowed endpoint that still claims
       interface 0 is not promoted: interface 0 carries nothing.
   (c) active and shadowed endpoint of interface 0 are removed in one batch; the removal of the active one is
       processed first and re-queues the shadowed one over its pending removal: it stays programmed. *)
Definition lo : id := (0, 1, 1).
Definition hi : id := (1, 1, 2).
Definition wit_a : list (list op * list nat) :=
  [([Upd lo (mkEp 0 true 1 [4])], []); ([Upd hi (mkEp 0 true 2 [8])], []); ([Upd lo (mkEp 1 true 3 [12])], [])].
Definition wit_c : list (list op * list nat) :=
  [([Upd lo (mkEp 0 true 1 [4])], []); ([Upd hi (mkEp 0 true 2 [8])], []); ([Rem lo; Rem hi], [0%nat; 0%nat])].

Definition final_ok (fx : bool) (bs : list (list op * list nat)) : bool :=
  let s := run fx st0 bs in
  match pend s with [] => ok_obs (live_of (concat (map fst bs))) (observe s) | _ => false end.

Theorem c44_preferred_refuted :
  exists bs, pend (run false st0 bs) = [] /\ final_ok false bs = false.
Proof. exists wit_a. split; vm_compute; reflexivity. Qed.
Print Assumptions c44_preferred_refuted.

Theorem c44_no_leftovers_refuted :
  exists bs, pend (run false st0 bs) = [] /\ live_of (concat (map fst bs)) = []
             /\ o_tw (observe (run false st0 bs)) <> [] /\ o_routes (observe (run false st0 bs)) <> [].
Proof. exists wit_c. repeat split; vm_compute; congruence. Qed.
Print Assumptions c44_no_leftovers_refuted.

(* the same histories on the repaired code *)
Example wit_a_fixed : final_ok true wit_a = true. Proof. vm_compute. reflexivity. Qed.
Example wit_c_fixed : final_ok true wit_c = true. Proof. vm_compute. reflexivity. Qed.
(* order dependence of the pinned code: the other iteration order of (c) is fine *)
Example wit_c_other_order :
  final_ok false [([Upd lo (mkEp 0 true 1 [4])], []); ([Upd hi (mkEp 0 true 2 [8])], []); ([Rem lo; Rem hi], [1%nat; 0%nat])] = true.
Proof. vm_compute. reflexivity. Qed.

(* ---------- the repaired code (fx = true), every history, every iteration order ---------- *)

(* Nothing is left for interface names no live endpoint uses: after a completed CompleteDeferredWork
   (pending map drained) an interface name that no endpoint of the folded history S claims has no active
   endpoint, no chains and no routes.  (c44_no_leftovers_refuted shows this is false of the pinned code.) *)
Theorem c44_no_leftovers :
  forall bs n, let s := run true st0 bs in let S := live_of (concat (map fst bs)) in
    pend s = [] -> (forall i w, dget S i = Some w -> e_if w <> n) ->
    iget (o_ids (observe s)) n = None /\ iget (o_tw (observe s)) n = None /\ iget (o_fw (observe s)) n = None
    /\ iget (o_routes (observe s)) n = None.
Proof. exact no_leftovers. Qed.
Print Assumptions c44_no_leftovers.

(* PARTIAL towards "the active endpoint of i is preferred S i": whatever endpoint the repaired manager has made
   active on an interface is a LIVE endpoint of S that claims this interface, and the chains and routes found
   there are those of its LATEST update (no stale data), independently of the iteration order.
   Missing for the full statement: that this endpoint is the least claimant in wlIdsAscending order and that an
   interface claimed by some live endpoint always has an active one (the coverage invariant "every shadowed
   endpoint has a smaller active or pending one on its interface" was not mechanised in the time available);
   that part is checked only by the oracle of the correspondence run. *)
Theorem c44_active_is_live_claimant_partial :
  forall bs n i, let s := run true st0 bs in let S := live_of (concat (map fst bs)) in
    pend s = [] -> iget (o_ids (observe s)) n = Some i ->
    exists w, dget S i = Some w /\ e_if w = n
              /\ iget (o_tw (observe s)) n = Some (chains_of w) /\ iget (o_fw (observe s)) n = Some (chains_of w)
              /\ routes_at (observe s) n = routes_of w.
Proof. exact programmed_is_live. Qed.
Print Assumptions c44_active_is_live_claimant_partial.

(* hypotheses are satisfiable by a non-trivial state: three endpoints, two on one interface, one renamed *)
Example ex_fixed_nontrivial :
  let bs := [([Upd lo (mkEp 0 true 1 [4]); Upd hi (mkEp 0 true 2 [8])], [1%nat]); ([Upd lo (mkEp 1 false 3 [12])], [])] in
  pend (run true st0 bs) = [] /\ o_ids (observe (run true st0 bs)) = [(0, hi); (1, lo)].
Proof. vm_compute. auto. Qed.
