From Coq Require Import List NArith Bool Lia.
Import ListNotations.
From Verif.C44 Require Import Model Spec.
Open Scope N_scope.

Lemma asc_irrefl_l : forall a, asc a a = false.
Proof. intros [[a1 a2] a3]. unfold asc. rewrite !N.eqb_refl. apply N.ltb_irrefl. Qed.

Theorem c44_asc_irrefl : forall a, asc a a = false.
Proof. exact asc_irrefl_l. Qed.
Print Assumptions c44_asc_irrefl.
