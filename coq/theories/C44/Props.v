(* C44 - theorems.  `run fx st0 bs` is the model of the endpoint manager after the batches bs; every
   batch is a list of OnUpdate messages followed by CompleteDeferredWork and comes with its own schedule
   (which pending entry the range over pendingWlEpUpdates produces next), so "for all bs" quantifies over
   every history AND every iteration order.  fx = false is the code as first pinned, fx = true the code with
   fixes/C44-shadowed-endpoint-bookkeeping.patch (applied to the tree as bcd9d9c).
   S = live_of (concat (map fst bs)) is the fold of the update/remove history; preferred S n is the least
   claimant of interface name n under wlIdsAscending. *)
From Coq Require Import List NArith Bool Lia.
Import ListNotations.
From Verif.C44 Require Import Model Spec MapLemmas Proofs Fixed Term Cover Meets Order Arrival Routes.
Open Scope N_scope.

(* The loop of resolveWorkloadEndpoints terminates with an empty pending map for every iteration order
   (pinned and fixed code): each processed entry decreases 2|pending| + |shadowed| + |active|.  So every
   state `run fx st0 bs` is a state "after CompleteDeferredWork". *)
Theorem c44_apply_terminates :
  (forall fx sched s ops, pend (apply_batch fx sched s ops) = [])
  /\ (forall fx bs, pend (run fx st0 bs) = []).
Proof. split; [exact apply_batch_drains | intros; apply run_drained; reflexivity]. Qed.
Print Assumptions c44_apply_terminates.

(* One endpoint per interface (pinned and fixed code, every history, every iteration order): two active
   endpoints never share an interface name, activeWlIfaceNameToID names exactly the active endpoint of
   the interface, the chains found on an interface are the chains of that one endpoint, and an interface has
   a dispatch entry (from and to) exactly when it has an active endpoint. *)
Theorem c44_one_endpoint_per_iface :
  forall fx bs, let s := run fx st0 bs in
    (forall i j wi wj, dget (act s) i = Some wi -> dget (act s) j = Some wj -> e_if wi = e_if wj -> i = j)
    /\ (forall n i, iget (o_ids (observe s)) n = Some i <-> exists w, dget (act s) i = Some w /\ e_if w = n)
    /\ (forall n c, iget (o_tw (observe s)) n = Some c ->
                    exists i w, iget (o_ids (observe s)) n = Some i /\ dget (act s) i = Some w /\ e_if w = n /\ c = chains_of w)
    /\ (forall n, (nmem n (o_dfrom (observe s)) = true <-> exists i, iget (o_ids (observe s)) n = Some i)
                  /\ (nmem n (o_dto (observe s)) = true <-> exists i, iget (o_ids (observe s)) n = Some i)).
Proof.
  intros. destruct (one_endpoint_per_iface fx bs) as (A & B & C).
  split; [exact A|]. split; [exact B|]. split; [exact C|]. intros n. exact (dispatch_entries fx bs n).
Qed.
Print Assumptions c44_one_endpoint_per_iface.

(* Routes only for administratively up endpoints (pinned and fixed code): whatever routes an interface has
   are exactly the addresses of its one active endpoint, and that endpoint is admin up. *)
Theorem c44_routes_only_admin_up :
  forall fx bs n r, let s := run fx st0 bs in
    iget (o_routes (observe s)) n = Some r ->
    exists i w, iget (o_ids (observe s)) n = Some i /\ dget (act s) i = Some w /\ e_if w = n
                /\ e_up w = true /\ r = e_ips w /\ r <> [].
Proof. exact routes_only_admin_up. Qed.
Print Assumptions c44_routes_only_admin_up.

(* ---------- the code as first pinned: the full statement is FALSE ----------
   (a) the active endpoint of interface 0 moves to interface 1; the shadowed endpoint that still claims
       interface 0 is not promoted: interface 0 carries nothing.
   (c) active and shadowed endpoint of interface 0 are removed in one batch; the removal of the active one is
       processed first and re-queues the shadowed one over its pending removal: it stays programmed. *)
Definition lo : id := (0, 1, 1).
Definition hi : id := (1, 1, 2).
Definition wit_a : list (list op * list nat) :=
  [([Upd lo (mkEp 0 true 1 [4])], []); ([Upd hi (mkEp 0 true 2 [8])], []); ([Upd lo (mkEp 1 true 3 [12])], [])].
Definition wit_c : list (list op * list nat) :=
  [([Upd lo (mkEp 0 true 1 [4])], []); ([Upd hi (mkEp 0 true 2 [8])], []); ([Rem lo; Rem hi], [0%nat; 0%nat])].

Definition final_ok (fx : bool) (bs : list (list op * list nat)) : bool :=
  ok_obs (live_of (concat (map fst bs))) (observe (run fx st0 bs)).

Theorem c44_preferred_refuted : exists bs, final_ok false bs = false.
Proof. exists wit_a. vm_compute. reflexivity. Qed.
Print Assumptions c44_preferred_refuted.

Theorem c44_no_leftovers_refuted :
  exists bs, live_of (concat (map fst bs)) = []
             /\ o_tw (observe (run false st0 bs)) <> [] /\ o_routes (observe (run false st0 bs)) <> [].
Proof. exists wit_c. repeat split; vm_compute; congruence. Qed.
Print Assumptions c44_no_leftovers_refuted.

(* order dependence of the pinned code: the other iteration order of (c) is fine *)
Example wit_c_other_order :
  final_ok false [([Upd lo (mkEp 0 true 1 [4])], []); ([Upd hi (mkEp 0 true 2 [8])], []); ([Rem lo; Rem hi], [1%nat; 0%nat])] = true.
Proof. vm_compute. reflexivity. Qed.

(* ---------- the repaired code (fx = true): every history, every iteration order ---------- *)

(* After CompleteDeferredWork the active endpoint of interface name n is preferred S n:
   - activeWlIfaceNameToID[n] is the id of the preferred endpoint (absent when nobody claims n);
   - that endpoint is active with the data of its latest update, is live, claims n and no live claimant of n
     is smaller in wlIdsAscending order;
   - an interface name claimed by some live endpoint always has an active endpoint. *)
Theorem c44_preferred_is_min_id_order_independent :
  forall bs n, let s := run true st0 bs in let S := live_of (concat (map fst bs)) in
    iget (o_ids (observe s)) n = option_map fst (preferred S n)
    /\ (forall m wm, preferred S n = Some (m, wm) ->
          dget (act s) m = Some wm /\ dget S m = Some wm /\ e_if wm = n
          /\ (forall k wk, dget S k = Some wk -> e_if wk = n -> asc k m = false))
    /\ ((exists k wk, dget S k = Some wk /\ e_if wk = n) -> exists i, iget (o_ids (observe s)) n = Some i).
Proof. exact preferred_main. Qed.
Print Assumptions c44_preferred_is_min_id_order_independent.

(* Everything observable about an interface name (active id, to/from chains, routes, both dispatch entries) is
   a function of preferred S n alone; hence two runs over the same messages with different iteration orders
   (and even different internal states) program the same thing. *)
Theorem c44_state_is_that_of_preferred :
  forall bs n, let s := run true st0 bs in let S := live_of (concat (map fst bs)) in
    iget (o_ids (observe s)) n = option_map fst (preferred S n)
    /\ iget (o_tw (observe s)) n = option_map (fun mw => chains_of (snd mw)) (preferred S n)
    /\ iget (o_fw (observe s)) n = option_map (fun mw => chains_of (snd mw)) (preferred S n)
    /\ routes_at (observe s) n = match preferred S n with Some (_, wm) => routes_of wm | None => [] end
    /\ nmem n (o_dfrom (observe s)) = match preferred S n with Some _ => true | None => false end
    /\ nmem n (o_dto (observe s)) = match preferred S n with Some _ => true | None => false end.
Proof. exact obs_determined. Qed.
Print Assumptions c44_state_is_that_of_preferred.

Theorem c44_order_independent :
  forall bs bs' n, map fst bs = map fst bs' ->
    let o := observe (run true st0 bs) in let o' := observe (run true st0 bs') in
    iget (o_ids o) n = iget (o_ids o') n /\ iget (o_tw o) n = iget (o_tw o') n /\ iget (o_fw o) n = iget (o_fw o') n
    /\ routes_at o n = routes_at o' n /\ nmem n (o_dfrom o) = nmem n (o_dfrom o') /\ nmem n (o_dto o) = nmem n (o_dto o').
Proof. exact order_independent. Qed.
Print Assumptions c44_order_independent.

(* Nothing is left for interface names no live endpoint uses: no active id, no chains, no routes, no dispatch
   entries.  (c44_no_leftovers_refuted: false of the code as first pinned.) *)
Theorem c44_no_leftovers :
  forall bs n, let s := run true st0 bs in let S := live_of (concat (map fst bs)) in
    (forall i w, dget S i = Some w -> e_if w <> n) ->
    iget (o_ids (observe s)) n = None /\ iget (o_tw (observe s)) n = None /\ iget (o_fw (observe s)) n = None
    /\ iget (o_routes (observe s)) n = None /\ nmem n (o_dfrom (observe s)) = false /\ nmem n (o_dto (observe s)) = false.
Proof. exact no_leftovers_final. Qed.
Print Assumptions c44_no_leftovers.

(* Model meets spec: the oracle of Spec.v (the one applied to the implementation's observations in the
   correspondence run) accepts the repaired model after every CompleteDeferredWork of every history under every
   iteration order. *)
Theorem c44_model_meets_spec :
  (forall bs, ok_obs (live_of (concat (map fst bs))) (observe (run true st0 bs)) = true)
  /\ (forall bs, ok_case_from [] (trace st0 bs) = true).
Proof. split; [exact meets_spec_final | exact trace_ok]. Qed.
Print Assumptions c44_model_meets_spec.

(* the witnesses of the refutations on the repaired code; a non-trivial reachable state *)
Example wit_a_fixed : final_ok true wit_a = true. Proof. vm_compute. reflexivity. Qed.
Example wit_c_fixed : final_ok true wit_c = true. Proof. vm_compute. reflexivity. Qed.
Example ex_fixed_nontrivial :
  let bs := [([Upd lo (mkEp 0 true 1 [4]); Upd hi (mkEp 0 true 2 [8])], [1%nat]); ([Upd lo (mkEp 1 false 3 [12])], [])] in
  o_ids (observe (run true st0 bs)) = [(0, hi); (1, lo)]
  /\ preferred (live_of (concat (map fst bs))) 0 = Some (hi, mkEp 0 true 2 [8]).
Proof. vm_compute. auto. Qed.

(* ---------- the preference order itself ---------- *)

(* wlIdsAscending on the real identifiers (three Go strings compared with == and <, Model.sasc) is a strict total
   order: irreflexive, asymmetric, transitive, and any two different ids are related one way.  (The seeded change
   wlids-ascending-not-antisymmetric breaks exactly the second clause.) *)
Theorem c44_wlids_ascending_strict_total_order :
  (forall a, sasc a a = false)
  /\ (forall a b, sasc a b = true -> sasc b a = false)
  /\ (forall a b c, sasc a b = true -> sasc b c = true -> sasc a c = true)
  /\ (forall a b, a <> b -> sasc a b = true \/ sasc b a = true).
Proof. exact sasc_strict_total. Qed.
Print Assumptions c44_wlids_ascending_strict_total_order.

(* The manager model works with numbers in place of the strings.  Its order `asc` is a strict total order too, and
   it IS wlIdsAscending under any coding of strings by numbers that preserves < (hence also ==). *)
Theorem c44_model_order_strict_total_and_faithful :
  ((forall a, asc a a = false)
   /\ (forall a b, asc a b = true -> asc b a = false)
   /\ (forall a b c, asc a b = true -> asc b c = true -> asc a c = true)
   /\ (forall a b, a <> b -> asc a b = true \/ asc b a = true))
  /\ (forall code : gstr -> N, (forall a b, slt a b = (code a <? code b)) ->
        forall a b, asc (code3 code a) (code3 code b) = sasc a b).
Proof. split; [exact asc_strict_total | exact asc_code3]. Qed.
Print Assumptions c44_model_order_strict_total_and_faithful.

(* The oracle for the order (Spec.ok_rel: strict total order on a finite cluster, applied in the correspondence run to
   the matrix of results of the real wlIdsAscending) accepts the modelled order on every cluster. *)
Theorem c44_order_model_meets_spec : forall ids, ok_rel sasc ids = true.
Proof. exact ok_rel_sasc. Qed.
Print Assumptions c44_order_model_meets_spec.

(* The owner is the minimum: after any history and any iteration order, i owns interface name n exactly when i is
   live, claims n and no live claimant of n is smaller. *)
Theorem c44_owner_is_minimum :
  forall bs n i, let s := run true st0 bs in let S := live_of (concat (map fst bs)) in
    iget (o_ids (observe s)) n = Some i <-> exists w, least_claimant S n i w.
Proof. exact owner_is_minimum. Qed.
Print Assumptions c44_owner_is_minimum.

(* Independence of the arrival order: two histories (different message order, different batching, different
   iteration orders, superseded updates, removed and re-added endpoints ...) after which the same endpoints are live
   with the same latest data program the same thing on every interface name. *)
Theorem c44_independent_of_arrival_order :
  forall bs bs' n,
    (forall i, dget (live_of (concat (map fst bs))) i = dget (live_of (concat (map fst bs'))) i) ->
    let o := observe (run true st0 bs) in let o' := observe (run true st0 bs') in
    iget (o_ids o) n = iget (o_ids o') n /\ iget (o_tw o) n = iget (o_tw o') n /\ iget (o_fw o) n = iget (o_fw o') n
    /\ routes_at o n = routes_at o' n /\ nmem n (o_dfrom o) = nmem n (o_dfrom o') /\ nmem n (o_dto o) = nmem n (o_dto o').
Proof. exact arrival_independent. Qed.
Print Assumptions c44_independent_of_arrival_order.

(* two arrival orders of the same two claimants: same owner *)
Example ex_arrival_orders :
  let e1 := mkEp 0 true 1 [4] in let e2 := mkEp 0 true 2 [8] in
  o_ids (observe (run true st0 [([Upd hi e2], []); ([Upd lo e1], [])])) = [(0, lo)]
  /\ o_ids (observe (run true st0 [([Upd lo e1; Upd hi e2], [1%nat])])) = [(0, lo)].
Proof. vm_compute. auto. Qed.

(* calculateRoutes: for every configuration, live-migration state and endpoint, the routes computed for an endpoint go
   only to its own networks / NAT external addresses (the latter only with floating IPs or OpenStack), cover all of
   them unless it is a live-migration target (then none), and carry one priority (Spec.ok_routes accepts the model). *)
Theorem c44_calc_routes_meets_spec :
  forall fip os l np ep nets ext, ok_routes fip os l np ep nets ext (calc_routes fip os l np ep nets ext) = true.
Proof. exact ok_routes_calc. Qed.
Print Assumptions c44_calc_routes_meets_spec.
