(* C44 - what the property says, independent of the manager's algorithm.

   "After any sequence of local workload endpoint updates and removals (including several endpoints
   claiming the same interface name and endpoints changing interface name), each interface name has the
   policy chains, routes and dispatch entry of exactly one live endpoint, always the same preferred one
   whatever the update order, routes exist only for administratively up endpoints, and nothing remains
   for interface names no live endpoint uses." *)
From Coq Require Import List NArith Bool.
Import ListNotations.
From Verif.C44 Require Import Model.
Open Scope N_scope.

(* the live endpoints: the fold of the update/remove history *)
Definition live := list (id * ep).
Definition live_step (S : live) (o : op) : live :=
  match o with
  | Upd i w => dins i w S
  | Rem i => ddel i S
  end.
Definition live_of (h : list op) : live := fold_left live_step h [].

(* the preferred endpoint of interface name n: the least id (wlIdsAscending) among the live endpoints
   whose interface name is n *)
Definition claimants (S : live) (n : N) : list (id * ep) := filter (fun kv => e_if (snd kv) =? n) S.
Definition preferred (S : live) (n : N) : option (id * ep) := best_of (claimants S n).

(* what an interface must carry for endpoint w *)
Definition chains_of (w : ep) : chain := render w.
Definition routes_of (w : ep) : list N := if e_up w then e_ips w else [].

Definition nmem (n : N) (l : list N) : bool := existsb (N.eqb n) l.
Definition routes_at (o : obs) (n : N) : list N :=
  match iget (o_routes o) n with Some r => r | None => [] end.

(* one interface name *)
Definition ok_iface (S : live) (o : obs) (n : N) : bool :=
  match preferred S n with
  | Some (_, w) =>
      opt_eqb chain_eqb (iget (o_tw o) n) (Some (chains_of w))
      && opt_eqb chain_eqb (iget (o_fw o) n) (Some (chains_of w))
      && list_eqb N.eqb (routes_at o n) (routes_of w)
      && nmem n (o_dfrom o) && nmem n (o_dto o)
  | None =>
      opt_eqb chain_eqb (iget (o_tw o) n) None
      && opt_eqb chain_eqb (iget (o_fw o) n) None
      && list_eqb N.eqb (routes_at o n) []
      && negb (nmem n (o_dfrom o)) && negb (nmem n (o_dto o))
  end.

(* every interface name that a live endpoint uses or that the dataplane mentions *)
Definition names (S : live) (o : obs) : list N :=
  map (fun kv => e_if (snd kv)) S ++ map fst (o_tw o) ++ map fst (o_fw o) ++ map fst (o_routes o)
  ++ o_dfrom o ++ o_dto o.

Fixpoint keys_distinct {A} (l : list (N * A)) : bool :=
  match l with
  | [] => true
  | (k, _) :: t => negb (existsb (fun kv => fst kv =? k) t) && keys_distinct t
  end.

(* the oracle on what is observed after CompleteDeferredWork, S = fold of the whole history so far *)
Definition ok_obs (S : live) (o : obs) : bool :=
  negb (o_panic o)
  && keys_distinct (o_tw o) && keys_distinct (o_fw o) && keys_distinct (o_routes o)
  && forallb (ok_iface S o) (names S o).

(* ---------- one correspondence case: batches of messages, each followed by CompleteDeferredWork
   and the observation of the implementation ---------- *)
Record case := mkCase { c_batches : list (list op * obs) }.

Fixpoint ok_case_from (S : live) (bs : list (list op * obs)) : bool :=
  match bs with
  | [] => true
  | (ops, o) :: t => let S' := fold_left live_step ops S in ok_obs S' o && ok_case_from S' t
  end.

(* the implementation's observations must be producible by the model under SOME iteration order
   (the order the Go runtime chose is not observable); the set of model states consistent with the
   observations so far is carried along *)
Fixpoint agree_from (fx : bool) (ss : list st) (bs : list (list op * obs)) : bool :=
  match bs with
  | [] => match ss with [] => false | _ => true end
  | (ops, o) :: t =>
      let next := dedupe (flat_map (fun s => apply_all fx s ops) ss) in
      let next := filter (fun s => obs_eqb (observe s) o) next in
      match next with [] => false | _ => agree_from fx next t end
  end.

(* The model is compared as pinned (fx=false) and with the repair (fx=true): the implementation must be
   one of them. *)
Definition check_case (c : case) : bool * bool :=
  (agree_from true [st0] (c_batches c) || agree_from false [st0] (c_batches c),
   ok_case_from [] (c_batches c)).

(* ---------- diagnostics for ./check C44 --replay ---------- *)
(* oracle verdict batch by batch *)
Fixpoint ok_batches (S : live) (bs : list (list op * obs)) : list bool :=
  match bs with
  | [] => []
  | (ops, o) :: t => let S' := fold_left live_step ops S in ok_obs S' o :: ok_batches S' t
  end.

(* number of leading batches the model reproduces, and what the model could have observed at the first
   batch where it cannot follow the implementation *)
Fixpoint diag_from (fx : bool) (ss : list st) (bs : list (list op * obs)) (k : nat) : nat * list obs :=
  match bs with
  | [] => (k, [])
  | (ops, o) :: t =>
      let all := dedupe (flat_map (fun s => apply_all fx s ops) ss) in
      match filter (fun s => obs_eqb (observe s) o) all with
      | [] => (k, map observe all)
      | next => diag_from fx next t (S k)
      end
  end.

Definition diag (c : case) : list bool * (nat * list obs) * (nat * list obs) :=
  (ok_batches [] (c_batches c), diag_from false [st0] (c_batches c) 0, diag_from true [st0] (c_batches c) 0).

(* ---------- the preference order itself ----------
   The property needs "always the same preferred one whatever the update order": the relation used to prefer one
   endpoint id over another must be a strict total order on ids (irreflexive, exactly one direction between two
   different ids, transitive).  ok_rel checks this for a relation on a finite cluster of ids. *)
Definition ok_rel (R : sid -> sid -> bool) (ids : list sid) : bool :=
  forallb (fun a => negb (R a a)) ids
  && forallb (fun a => forallb (fun b => if sid_eqb a b then true else xorb (R a b) (R b a)) ids) ids
  && forallb (fun a => forallb (fun b => forallb (fun c => implb (R a b && R b c) (R a c)) ids) ids) ids.

(* the relation observed on the implementation: res is the matrix wlIdsAscending(ids[i], ids[j]) *)
Fixpoint row_get (ids : list sid) (row : list bool) (b : sid) : bool :=
  match ids, row with
  | i :: ids', r :: row' => if sid_eqb i b then r else row_get ids' row' b
  | _, _ => false
  end.
Fixpoint rel_of (ids : list sid) (rows : list sid) (res : list (list bool)) (a b : sid) : bool :=
  match rows, res with
  | i :: t, row :: rt => if sid_eqb i a then row_get ids row b else rel_of ids t rt a b
  | _, _ => false
  end.
Definition shape_ok (ids : list sid) (res : list (list bool)) : bool :=
  Nat.eqb (length res) (length ids) && forallb (fun row => Nat.eqb (length row) (length ids)) res.

Definition ok_ord (ids : list sid) (res : list (list bool)) : bool :=
  shape_ok ids res && ok_rel (rel_of ids ids res) ids.
Definition agree_ord (ids : list sid) (res : list (list bool)) : bool :=
  list_eqb (list_eqb Bool.eqb) res (map (fun a => map (sasc a) ids) ids).

(* a correspondence case is a history (above) or a cluster of ids with the observed comparison matrix *)
Inductive case2 := CHist (c : case) | COrd (ids : list sid) (res : list (list bool)).
Definition check_any (c : case2) : bool * bool :=
  match c with
  | CHist c => check_case c
  | COrd ids res => (agree_ord ids res, ok_ord ids res)
  end.

(* ---------- the routes of one endpoint (calculateRoutes) ----------
   "each interface has the routes of exactly one live endpoint": every route the manager computes for an endpoint goes
   to one of that endpoint's own addresses (its networks, or its NAT external addresses - those only when floating
   IPs are enabled or the orchestrator is OpenStack), every own network is routed unless the endpoint is the target of
   a live migration (then nothing is), and all routes of the endpoint carry one priority: the normal one, or the
   elevated one while a migration state is recorded. *)
Definition lm_eqb (a b : lm) : bool :=
  match a, b with LmNone, LmNone | LmTarget, LmTarget | LmLive, LmLive | LmTimeWait, LmTimeWait => true | _, _ => false end.
Definition ok_routes (fip openstack : bool) (l : lm) (nprio eprio : N) (nets ext : list N) (rs : list (N * N)) : bool :=
  if lm_eqb l LmTarget then match rs with [] => true | _ => false end
  else
    forallb (fun r => (nmem (fst r) nets || ((fip || openstack) && nmem (fst r) ext))
                      && (snd r =? (if lm_eqb l LmNone then nprio else eprio))) rs
    && forallb (fun n => nmem n (map fst rs)) nets
    && (if fip || openstack then forallb (fun n => nmem n (map fst rs)) ext else true).
Definition agree_routes (fip openstack : bool) (l : lm) (nprio eprio : N) (nets ext : list N) (rs : list (N * N)) : bool :=
  list_eqb (pair_eqb N.eqb N.eqb) rs (calc_routes fip openstack l nprio eprio nets ext).

Inductive case3 :=
| KHist (c : case)
| KOrd (ids : list sid) (res : list (list bool))
| KRoutes (fip openstack : bool) (l : lm) (nprio eprio : N) (nets ext : list N) (rs : list (N * N)).
Definition check_all (c : case3) : bool * bool :=
  match c with
  | KHist c => check_case c
  | KOrd ids res => (agree_ord ids res, ok_ord ids res)
  | KRoutes fip os l np ep nets ext rs => (agree_routes fip os l np ep nets ext rs, ok_routes fip os l np ep nets ext rs)
  end.
