(* C44 - executable model of felix/dataplane/linux/endpoint_mgr.go: resolveWorkloadEndpoints
   (workload endpoints only): pendingWlEpUpdates, activeWlEndpoints, activeWlIfaceNameToID,
   shadowedWlEndpoints, activeWlIDToChains, and the three things the manager programs: the per-endpoint
   chains in the filter table (keyed by interface name, because the chain names are derived from it),
   the routes per interface name and the dispatch chains.

   Definitions only.  `fx : bool` selects the code as pinned (false) or the code with
   fixes/C44-shadowed-endpoint-bookkeeping.patch applied (true).

   The Go map pendingWlEpUpdates is ranged over while entries are added and deleted; the model processes
   ONE pending entry per step and the choice of the entry is an explicit parameter (a schedule), so "every
   iteration order" (including whether an entry added during the range is seen in the same pass) is a
   universally quantified variable. *)
From Coq Require Import List NArith Bool.
Import ListNotations.
Open Scope N_scope.

(* ---------- association lists kept in key order, one entry per key ---------- *)
Section AMap.
  Context {K V : Type}.
  Variable keqb : K -> K -> bool.
  Variable kltb : K -> K -> bool.

  Fixpoint get (l : list (K * V)) (k : K) : option V :=
    match l with
    | [] => None
    | (k', v) :: t => if keqb k k' then Some v else get t k
    end.

  Fixpoint del (k : K) (l : list (K * V)) : list (K * V) :=
    match l with
    | [] => []
    | (k', v) :: t => if keqb k k' then del k t else (k', v) :: del k t
    end.

  Fixpoint insert (k : K) (v : V) (l : list (K * V)) : list (K * V) :=
    match l with
    | [] => [(k, v)]
    | (k', v') :: t => if kltb k k' then (k, v) :: l else (k', v') :: insert k v t
    end.

  Definition ins (k : K) (v : V) (l : list (K * V)) : list (K * V) := insert k v (del k l).

  Definition mem (l : list (K * V)) (k : K) : bool :=
    match get l k with Some _ => true | None => false end.
End AMap.

(* ---------- identities, endpoints ---------- *)
(* WorkloadEndpointID = (OrchestratorId, WorkloadId, EndpointId); strings are represented by numbers
   in the same order (only equality and < are ever used on them). *)
Definition id := (N * N * N)%type.

Definition id_eqb (a b : id) : bool :=
  let '(a1, a2, a3) := a in let '(b1, b2, b3) := b in
  (a1 =? b1) && (a2 =? b2) && (a3 =? b3).

(* wlIdsAscending *)
Definition asc (a b : id) : bool :=
  let '(a1, a2, a3) := a in let '(b1, b2, b3) := b in
  if a1 =? b1 then (if a2 =? b2 then a3 <? b3 else a2 <? b2) else a1 <? b1.

(* proto.WorkloadEndpoint, the fields that matter here: Name (interface), State == "active",
   what identifies the rendered policy (one profile id, a number), Ipv4Nets *)
Record ep := mkEp { e_if : N; e_up : bool; e_tag : N; e_ips : list N }.

(* what WorkloadEndpointToIptablesChains renders for the endpoint, as far as it can be told apart:
   (admin up, profile) - an admin-down endpoint gets a bare drop chain *)
Definition chain := (bool * N)%type.
Definition render (w : ep) : chain := (e_up w, if e_up w then e_tag w else 0).

Notation iget := (get N.eqb).
Notation iins := (ins N.eqb N.ltb).
Notation idel := (del N.eqb).
Notation dget := (get id_eqb).
Notation dins := (ins id_eqb asc).
Notation ddel := (del id_eqb).
Notation dmem := (mem id_eqb).

Record st := mkSt {
  pend : list (id * option ep);    (* pendingWlEpUpdates; None = nil = removal *)
  act  : list (id * ep);           (* activeWlEndpoints *)
  i2id : list (N * id);            (* activeWlIfaceNameToID *)
  shad : list (id * ep);           (* shadowedWlEndpoints *)
  cbi  : list (id * (N * chain));  (* activeWlIDToChains: the chains rendered for the id (their names come from the interface) *)
  ftab : list (N * chain);         (* filter table: cali-tw-<iface>/cali-fw-<iface> *)
  rts  : list (N * list N)         (* route table: interface -> non-empty target list *)
}.

Definition st0 : st := mkSt [] [] [] [] [] [] [].

Definition set_pend s x := mkSt x (act s) (i2id s) (shad s) (cbi s) (ftab s) (rts s).
Definition set_shad s x := mkSt (pend s) (act s) (i2id s) x (cbi s) (ftab s) (rts s).

(* OnUpdate(WorkloadEndpointUpdate / WorkloadEndpointRemove) *)
Inductive op := Upd (i : id) (w : ep) | Rem (i : id).

Definition on_update (s : st) (o : op) : st :=
  match o with
  | Upd i w => set_pend s (dins i (Some w) (pend s))
  | Rem i => set_pend s (dins i None (pend s))
  end.

(* the closure removeActiveWorkload(logCxt, oldWorkload, id) *)
Definition remove_active (s : st) (old : option ep) (i : id) : st :=
  let ft := match dget (cbi s) i with Some (n, _) => idel n (ftab s) | None => ftab s end in
  let cb := ddel i (cbi s) in
  match old with
  | Some o => mkSt (pend s) (ddel i (act s)) (idel (e_if o) (i2id s)) (shad s) cb ft (idel (e_if o) (rts s))
  | None => mkSt (pend s) (ddel i (act s)) (i2id s) (shad s) cb ft (rts s)
  end.

(* the search for the best shadowed endpoint of an interface name, and its re-queueing.
   Pinned code: every shadowed entry with that name is a candidate and the pending entry of the winner is
   overwritten.  Fixed code: shadowed entries that have a pending update are stale and skipped. *)
Definition best_of (cands : list (id * ep)) : option (id * ep) :=
  fold_left (fun best kv => match best with
                            | None => Some kv
                            | Some b => if asc (fst kv) (fst b) then Some kv else best
                            end) cands None.

Definition promote (fx : bool) (n : N) (s : st) : st :=
  let cands := filter (fun kv => (e_if (snd kv) =? n) && (if fx then negb (dmem (pend s) (fst kv)) else true)) (shad s) in
  match best_of cands with
  | Some (b, w) => mkSt (dins b (Some w) (pend s)) (act s) (i2id s) (ddel b (shad s)) (cbi s) (ftab s) (rts s)
  | None => s
  end.

Definition set_routes (w : ep) (r : list (N * list N)) : list (N * list N) :=
  if e_up w then (match e_ips w with [] => idel (e_if w) r | ips => iins (e_if w) ips r end)
  else idel (e_if w) r.

(* body of the loop for one pending entry (i, Some w) after the same-interface check has been passed *)
Definition install (fx : bool) (s : st) (old : option ep) (i : id) (w : ep) : st :=
  let s1 :=
    match old with
    | Some o =>
        if negb (e_if o =? e_if w) then
          (* "Interface name changed, cleaning up old state" *)
          let ft := match dget (cbi s) i with Some (n, _) => idel n (ftab s) | None => ftab s end in
          let s' := mkSt (pend s) (act s) (idel (e_if o) (i2id s)) (shad s) (cbi s) ft (idel (e_if o) (rts s)) in
          if fx then promote fx (e_if o) s' else s'
        else s
    | None => s
    end in
  mkSt (ddel i (pend s1)) (dins i w (act s1)) (iins (e_if w) i (i2id s1)) (shad s1)
       (dins i (e_if w, render w) (cbi s1)) (iins (e_if w) (render w) (ftab s1)) (set_routes w (rts s1)).

Definition step_upd (fx : bool) (s : st) (i : id) (w : ep) : st :=
  let old := dget (act s) i in
  let s := if fx then set_shad s (ddel i (shad s)) else s in
  match iget (i2id s) (e_if w) with
  | Some ex =>
      if negb (id_eqb ex i) then
        if asc ex i then
          (* "Existing endpoint takes preference" *)
          let s1 := mkSt (ddel i (pend s)) (act s) (i2id s) (dins i w (shad s)) (cbi s) (ftab s) (rts s) in
          if fx then match old with
                     | Some o => promote fx (e_if o) (remove_active s1 (Some o) i)
                     | None => s1
                     end
          else s1
        else
          (* "New endpoint takes preference; remove existing" *)
          let s1 := match dget (act s) ex with
                    | Some we => set_shad s (dins ex we (shad s))
                    | None => s   (* unreachable: activeWlIfaceNameToID and activeWlEndpoints agree *)
                    end in
          install fx (remove_active s1 (dget (act s) ex) ex) old i w
      else install fx s old i w
  | None => install fx s old i w
  end.

Definition step_rem (fx : bool) (s : st) (i : id) : st :=
  let old := dget (act s) i in
  let s1 := remove_active s old i in
  let s2 := mkSt (ddel i (pend s1)) (act s1) (i2id s1) (ddel i (shad s1)) (cbi s1) (ftab s1) (rts s1) in
  match old with
  | Some o => promote fx (e_if o) s2
  | None => s2
  end.

(* process the pending entry of i (nothing happens when there is none) *)
Definition step (fx : bool) (s : st) (i : id) : st :=
  match dget (pend s) i with
  | Some (Some w) => step_upd fx s i w
  | Some None => step_rem fx s i
  | None => s
  end.

(* resolveWorkloadEndpoints' loop: "for len(pending) > 0 { for id, w := range pending {...} }".
   sched picks which pending entry is taken next (index modulo the number of pending entries). *)
Fixpoint resolve (fx : bool) (fuel : nat) (sched : list nat) (s : st) : st :=
  match fuel with
  | O => s
  | S f =>
      match pend s with
      | [] => s
      | p0 :: _ =>
          let k := fst (nth (Nat.modulo (hd 0%nat sched) (length (pend s))) (pend s) p0) in
          resolve fx f (tl sched) (step fx s k)
      end
  end.

(* enough for every schedule (Proofs: the loop reaches an empty pending map within this many steps) *)
Definition fuel_of (s : st) : nat := S (2 * length (pend s) + length (shad s) + length (act s)).

(* one batch: OnUpdate for every message, then CompleteDeferredWork *)
Definition apply_batch (fx : bool) (sched : list nat) (s : st) (ops : list op) : st :=
  let s1 := fold_left on_update ops s in
  resolve fx (fuel_of s1) sched s1.

Fixpoint run (fx : bool) (s : st) (bs : list (list op * list nat)) : st :=
  match bs with
  | [] => s
  | (ops, sched) :: t => run fx (apply_batch fx sched s ops) t
  end.

(* ---------- what is observed after CompleteDeferredWork ---------- *)
Fixpoint nset_add (n : N) (l : list N) : list N :=
  match l with
  | [] => [n]
  | m :: t => if n =? m then l else if n <? m then n :: l else m :: nset_add n t
  end.

(* WorkloadDispatchChains(activeWlEndpoints): one entry per interface name of an active endpoint *)
Definition dispatch (s : st) : list N :=
  fold_right (fun kv acc => nset_add (e_if (snd kv)) acc) [] (act s).

Record obs := mkObs {
  o_ids : list (N * id);        (* activeWlIfaceNameToID *)
  o_tw : list (N * chain);      (* cali-tw-<iface> chains in the filter table *)
  o_fw : list (N * chain);      (* cali-fw-<iface> *)
  o_routes : list (N * list N); (* interface -> routes (non-empty only) *)
  o_dfrom : list N;             (* interfaces with an entry in cali-from-wl-dispatch* *)
  o_dto : list N;               (* interfaces with an entry in cali-to-wl-dispatch* *)
  o_panic : bool
}.

Definition observe (s : st) : obs :=
  mkObs (i2id s) (ftab s) (ftab s) (rts s) (dispatch s) (dispatch s) false.

(* ---------- every outcome of the loop, for the correspondence (the real run's order is not observable) ---------- *)
Fixpoint list_eqb {A} (e : A -> A -> bool) (a b : list A) : bool :=
  match a, b with
  | [], [] => true
  | x :: a', y :: b' => e x y && list_eqb e a' b'
  | _, _ => false
  end.
Definition pair_eqb {A B} (ea : A -> A -> bool) (eb : B -> B -> bool) (x y : A * B) : bool :=
  ea (fst x) (fst y) && eb (snd x) (snd y).
Definition opt_eqb {A} (e : A -> A -> bool) (x y : option A) : bool :=
  match x, y with Some a, Some b => e a b | None, None => true | _, _ => false end.
Definition ep_eqb (a b : ep) : bool :=
  (e_if a =? e_if b) && Bool.eqb (e_up a) (e_up b) && (e_tag a =? e_tag b) && list_eqb N.eqb (e_ips a) (e_ips b).
Definition chain_eqb : chain -> chain -> bool := pair_eqb Bool.eqb N.eqb.

Definition st_eqb (a b : st) : bool :=
  list_eqb (pair_eqb id_eqb (opt_eqb ep_eqb)) (pend a) (pend b)
  && list_eqb (pair_eqb id_eqb ep_eqb) (act a) (act b)
  && list_eqb (pair_eqb N.eqb id_eqb) (i2id a) (i2id b)
  && list_eqb (pair_eqb id_eqb ep_eqb) (shad a) (shad b)
  && list_eqb (pair_eqb id_eqb (pair_eqb N.eqb chain_eqb)) (cbi a) (cbi b)
  && list_eqb (pair_eqb N.eqb chain_eqb) (ftab a) (ftab b)
  && list_eqb (pair_eqb N.eqb (list_eqb N.eqb)) (rts a) (rts b).

Definition obs_eqb (a b : obs) : bool :=
  list_eqb (pair_eqb N.eqb id_eqb) (o_ids a) (o_ids b)
  && list_eqb (pair_eqb N.eqb chain_eqb) (o_tw a) (o_tw b)
  && list_eqb (pair_eqb N.eqb chain_eqb) (o_fw a) (o_fw b)
  && list_eqb (pair_eqb N.eqb (list_eqb N.eqb)) (o_routes a) (o_routes b)
  && list_eqb N.eqb (o_dfrom a) (o_dfrom b)
  && list_eqb N.eqb (o_dto a) (o_dto b)
  && Bool.eqb (o_panic a) (o_panic b).

Definition dedupe (l : list st) : list st :=
  fold_left (fun acc x => if existsb (st_eqb x) acc then acc else acc ++ [x]) l [].

Fixpoint resolve_all (fx : bool) (fuel : nat) (s : st) : list st :=
  match fuel with
  | O => []
  | S f =>
      match pend s with
      | [] => [s]
      | p => dedupe (flat_map (fun kv => resolve_all fx f (step fx s (fst kv))) p)
      end
  end.

Definition apply_all (fx : bool) (s : st) (ops : list op) : list st :=
  let s1 := fold_left on_update ops s in
  resolve_all fx (fuel_of s1) s1.

(* ---------- wlIdsAscending on the real identifiers: three Go strings compared with == and < ----------
   Go strings are byte sequences; s < t is the lexicographic order on bytes (a proper prefix is smaller). *)
Definition gstr := list N.
Fixpoint slt (a b : gstr) : bool :=
  match a, b with
  | [], [] => false
  | [], _ :: _ => true
  | _ :: _, [] => false
  | x :: a', y :: b' => if x <? y then true else if x =? y then slt a' b' else false
  end.
Definition seqb (a b : gstr) : bool := list_eqb N.eqb a b.

Definition sid := (gstr * gstr * gstr)%type.   (* OrchestratorId, WorkloadId, EndpointId *)
Definition sid_eqb (a b : sid) : bool :=
  let '(a1, a2, a3) := a in let '(b1, b2, b3) := b in seqb a1 b1 && seqb a2 b2 && seqb a3 b3.

(* func wlIdsAscending(id1, id2 *types.WorkloadEndpointID) bool *)
Definition sasc (a b : sid) : bool :=
  let '(a1, a2, a3) := a in let '(b1, b2, b3) := b in
  if seqb a1 b1 then (if seqb a2 b2 then slt a3 b3 else slt a2 b2) else slt a1 b1.

(* ---------- calculateRoutes (IPv4 manager): which routes an admin-up endpoint gets ----------
   lm = the endpoint's entry in pendingLiveMigrationStates (LmNone = no entry; OnLiveMigrationStateUpdate deletes the
   entry for the base state).  nets = Ipv4Nets, ext = the ExtIp of every Ipv4Nat entry, in order.  A route is
   (address, priority). *)
Inductive lm := LmNone | LmTarget | LmLive | LmTimeWait.
Definition calc_routes (fip openstack : bool) (l : lm) (nprio eprio : N) (nets ext : list N) : list (N * N) :=
  match l with
  | LmTarget => []                     (* "Live migration target, suppressing routes" *)
  | _ =>
      let ips := nets ++ (if fip || openstack then ext else []) in
      let prio := match l with LmNone => nprio | _ => eprio end in
      map (fun ip => (ip, prio)) ips
  end.
