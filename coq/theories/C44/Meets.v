(* C44 - one entry per key in what is programmed, the dispatch entries, and: the specification oracle of
   Spec.v accepts every observation of the repaired model (model meets spec). *)
From Coq Require Import List NArith Bool Lia.
Import ListNotations.
From Verif.C44 Require Import Model Spec MapLemmas Proofs Fixed Term Cover.
Open Scope N_scope.

Lemma nodupk_iins : forall {V} (l : list (N * V)) k v, nodupk l -> nodupk (iins k v l).
Proof. intros. apply (nodupk_ins N.eqb N.ltb N.eqb_eq); auto. Qed.
Lemma nodupk_idel : forall {V} (l : list (N * V)) k, nodupk l -> nodupk (idel k l).
Proof. intros. apply (nodupk_del N.eqb N.ltb N.eqb_eq); auto. Qed.

Record ND (s : st) : Prop := mkND { ND1 : nodupk (act s); ND2 : nodupk (ftab s); ND3 : nodupk (rts s) }.

Lemma ND_st0 : ND st0.
Proof. constructor; constructor. Qed.

Lemma ND_same : forall s s', act s' = act s -> ftab s' = ftab s -> rts s' = rts s -> ND s -> ND s'.
Proof. intros s s' E1 E2 E3 [H1 H2 H3]. constructor; congruence. Qed.

Lemma ND_on_update : forall s o, ND s -> ND (on_update s o).
Proof. intros s [i w|i] H; (eapply ND_same; [| | |exact H]); reflexivity. Qed.

Lemma ND_promote : forall fx n s, ND s -> ND (promote fx n s).
Proof. intros. destruct (promote_fields fx n s) as (P1&_&_&P4&P5). eapply ND_same; eauto. Qed.

Lemma ND_remove_active : forall s old i, ND s -> ND (remove_active s old i).
Proof.
  intros s old i [H1 H2 H3]. unfold remove_active.
  assert (nodupk (match dget (cbi s) i with Some (n, _) => idel n (ftab s) | None => ftab s end)).
  { destruct (dget (cbi s) i) as [[n c]|]; auto using nodupk_idel. }
  destruct old; constructor; simpl; auto using nodupk_ddel, nodupk_idel.
Qed.

Lemma nodupk_set_routes : forall w r, nodupk r -> nodupk (set_routes w r).
Proof.
  intros. unfold set_routes. destruct (e_up w); [destruct (e_ips w)|]; auto using nodupk_idel, nodupk_iins.
Qed.

Lemma ND_install : forall fx s old i w, ND s -> ND (install fx s old i w).
Proof.
  intros fx s old i w [H1 H2 H3]. destruct (install_fields fx s old i w) as (F1&_&_&F4&F5).
  cbv beta iota zeta in F1, F4, F5. constructor; rewrite ?F1, ?F4, ?F5.
  - apply nodupk_dins. assumption.
  - apply nodupk_iins. destruct (match old with Some o => negb (e_if o =? e_if w) | None => false end); auto.
    destruct (dget (cbi s) i) as [[n c]|]; auto using nodupk_idel.
  - apply nodupk_set_routes.
    destruct (match old with Some o => negb (e_if o =? e_if w) | None => false end); auto using nodupk_idel.
Qed.

Lemma ND_step : forall fx s i, ND s -> ND (step fx s i).
Proof.
  intros fx s i H. unfold step. destruct (dget (pend s) i) as [[w|]|]; auto.
  - unfold step_upd.
    set (s' := if fx then set_shad s (ddel i (shad s)) else s).
    assert (H' : ND s') by (subst s'; destruct fx; auto; eapply ND_same; [| | |exact H]; reflexivity).
    clearbody s'.
    destruct (iget (i2id s') (e_if w)) as [ex|]; [|apply ND_install; auto].
    destruct (negb (id_eqb ex i)); [|apply ND_install; auto].
    destruct (asc ex i).
    + set (s1 := mkSt (ddel i (pend s')) (act s') (i2id s') (dins i w (shad s')) (cbi s') (ftab s') (rts s')).
      assert (H1 : ND s1) by (eapply ND_same; [| | |exact H']; reflexivity).
      destruct fx; auto. destruct (dget (act s) i); auto.
      apply ND_promote, ND_remove_active. assumption.
    + apply ND_install. apply ND_remove_active.
      destruct (dget (act s') ex); auto. eapply ND_same; [| | |exact H']; reflexivity.
  - unfold step_rem.
    set (s1 := remove_active s (dget (act s) i) i).
    assert (H1 : ND s1) by (apply ND_remove_active; assumption).
    assert (H2 : ND (mkSt (ddel i (pend s1)) (act s1) (i2id s1) (ddel i (shad s1)) (cbi s1) (ftab s1) (rts s1)))
      by (eapply ND_same; [| | |exact H1]; reflexivity).
    destruct (dget (act s) i); auto. apply ND_promote. assumption.
Qed.

Lemma ND_resolve : forall fx fuel sched s, ND s -> ND (resolve fx fuel sched s).
Proof. induction fuel; intros; simpl; auto. destruct (pend s); auto. apply IHfuel, ND_step. assumption. Qed.

Lemma ND_run : forall fx bs s, ND s -> ND (run fx s bs).
Proof.
  induction bs as [|[ops sched] t IH]; simpl; intros; auto. apply IH. unfold apply_batch. apply ND_resolve.
  revert s H. induction ops; simpl; intros; auto. apply IHops, ND_on_update. assumption.
Qed.

Lemma ND_reach : forall fx bs, ND (run fx st0 bs).
Proof. intros. apply ND_run, ND_st0. Qed.

(* ---------- dispatch entries ---------- *)
Lemma in_nset_add : forall l n x, In x (nset_add n l) <-> x = n \/ In x l.
Proof.
  induction l as [|m t IH]; intros; simpl.
  - intuition.
  - destruct (N.eqb_spec n m).
    + subst. simpl. intuition.
    + destruct (n <? m); simpl; [intuition|]. rewrite IH. intuition.
Qed.

Lemma in_dispatch_list : forall (a : list (id * ep)) n,
    In n (fold_right (fun kv acc => nset_add (e_if (snd kv)) acc) [] a) <-> exists i w, In (i, w) a /\ e_if w = n.
Proof.
  induction a as [|[i w] t IH]; intros; simpl.
  - split; [tauto | intros [i [w [[] _]]]].
  - rewrite in_nset_add, IH. split.
    + intros [H|[j [wj [H1 H2]]]]; [exists i, w; auto | exists j, wj; auto].
    + intros [j [wj [[H1|H1] H2]]]; [inversion H1; subst; auto | right; eauto].
Qed.

Lemma nmem_in : forall n l, nmem n l = true <-> In n l.
Proof.
  intros. unfold nmem. rewrite existsb_exists. split.
  - intros [x [H1 H2]]. apply N.eqb_eq in H2. subst. assumption.
  - intros H. exists n. split; auto. apply N.eqb_refl.
Qed.

(* an interface has a dispatch entry exactly when it has an active endpoint *)
Lemma dispatch_iff : forall s n, J s -> ND s -> (nmem n (dispatch s) = true <-> exists i, iget (i2id s) n = Some i).
Proof.
  intros s n HJ HN. rewrite nmem_in. unfold dispatch. rewrite in_dispatch_list. split.
  - intros [i [w [Hin Hn]]]. exists i. apply (J1 s HJ). exists w. split; auto.
    apply (in_get id_eqb asc id_eqb_spec); auto. apply (ND1 s HN).
  - intros [i Hi]. apply (J1 s HJ) in Hi. destruct Hi as [w [Ha Hn]]. exists i, w. split; auto.
    eapply get_in; eauto. apply id_eqb_spec.
Qed.

(* ---------- the oracle accepts the repaired model ---------- *)
Lemma keys_distinct_nodupk : forall {A} (l : list (N * A)), nodupk l -> keys_distinct l = true.
Proof.
  unfold nodupk. induction l as [|[k v] t IH]; intros; simpl; auto.
  inversion H; subst. rewrite IH by assumption. rewrite andb_true_r. apply negb_true_iff.
  destruct (existsb (fun kv => fst kv =? k) t) eqn:E; auto. exfalso.
  apply existsb_exists in E. destruct E as [x [Hx Hk]]. apply N.eqb_eq in Hk. apply H2.
  apply in_map_iff. exists x. auto.
Qed.

Lemma list_eqb_N_refl : forall l, list_eqb N.eqb l l = true.
Proof. induction l; simpl; auto. rewrite N.eqb_refl. assumption. Qed.

Lemma chain_eqb_refl : forall c, chain_eqb c c = true.
Proof. intros [b n]. unfold chain_eqb, pair_eqb. simpl. rewrite N.eqb_refl. destruct b; reflexivity. Qed.

Lemma ok_iface_model : forall S s n, Inv S s -> ND s -> ok_iface S (observe s) n = true.
Proof.
  intros S s n HI HN. pose proof (Inv_preferred S s n HI) as HP. pose proof (InvJ S s HI) as HJ.
  pose proof HJ as [J1 J2 J3 J4]. unfold ok_iface.
  destruct (preferred S n) as [[m wm]|].
  - destruct HP as (Hi & Ha & HS & Hn).
    assert (Hd : nmem n (dispatch s) = true) by (apply dispatch_iff; eauto).
    unfold routes_at. simpl. rewrite J3, J4, Hi, Ha, Hd. simpl. unfold chains_of. rewrite chain_eqb_refl. simpl.
    rewrite andb_true_r. unfold routes_for, routes_of. destruct (e_up wm); simpl; auto.
    destruct (e_ips wm) eqn:E; simpl; auto. rewrite ?N.eqb_refl, ?list_eqb_N_refl. reflexivity.
  - assert (Hd : nmem n (dispatch s) = false).
    { destruct (nmem n (dispatch s)) eqn:E; auto. apply dispatch_iff in E; auto. destruct E as [i Hi]. congruence. }
    unfold routes_at. simpl. rewrite J3, J4, HP, Hd. reflexivity.
Qed.

Lemma ok_obs_model : forall S s, Inv S s -> ND s -> ok_obs S (observe s) = true.
Proof.
  intros S s HI HN. unfold ok_obs. pose proof HN as [N1 N2 N3]. simpl.
  rewrite !keys_distinct_nodupk by assumption. simpl.
  apply forallb_forall. intros n _. apply ok_iface_model; assumption.
Qed.

Lemma ND_apply_batch : forall fx sched s ops, ND s -> ND (apply_batch fx sched s ops).
Proof.
  intros. unfold apply_batch. apply ND_resolve.
  revert s H. induction ops; simpl; intros; auto. apply IHops, ND_on_update. assumption.
Qed.

(* the model's own trace: the observation after every CompleteDeferredWork *)
Fixpoint trace (s : st) (bs : list (list op * list nat)) : list (list op * obs) :=
  match bs with
  | [] => []
  | (ops, sched) :: t => let s' := apply_batch true sched s ops in (ops, observe s') :: trace s' t
  end.

Lemma ok_case_trace : forall bs S s, Inv S s -> ND s -> ok_case_from S (trace s bs) = true.
Proof.
  induction bs as [|[ops sched] t IH]; intros S s HI HN; simpl; auto.
  pose proof (Inv_apply_batch S s ops sched HI) as HI'. pose proof (ND_apply_batch true sched s ops HN) as HN'.
  rewrite ok_obs_model by assumption. simpl. apply IH; assumption.
Qed.

(* ---------- statements used by Props.v ---------- *)
Section Final.
  Variable bs : list (list op * list nat).
  Let s := run true st0 bs.
  Let S := live_of (concat (map fst bs)).

  Lemma fin_inv : Inv S s. Proof. apply Inv_reach. Qed.
  Lemma fin_nd : ND s. Proof. apply ND_reach. Qed.

  Lemma preferred_main : forall n,
      iget (o_ids (observe s)) n = option_map fst (preferred S n)
      /\ (forall m wm, preferred S n = Some (m, wm) ->
            dget (act s) m = Some wm /\ dget S m = Some wm /\ e_if wm = n
            /\ (forall k wk, dget S k = Some wk -> e_if wk = n -> asc k m = false))
      /\ ((exists k wk, dget S k = Some wk /\ e_if wk = n) -> exists i, iget (o_ids (observe s)) n = Some i).
  Proof.
    intros n. pose proof (Inv_preferred S s n fin_inv) as HP. simpl.
    split; [|split].
    - destruct (preferred S n) as [[m wm]|]; simpl; tauto.
    - intros m wm E. rewrite E in HP. destruct HP as (Hi & Ha & HS & Hn). repeat split; auto.
      intros k wk Hk Hkn. unfold preferred in E. apply best_of_some in E. destruct E as [_ Hmin].
      specialize (Hmin (k, wk)). simpl in Hmin. apply Hmin. unfold claimants. apply filter_In. split.
      + eapply get_in; eauto. apply id_eqb_spec.
      + simpl. rewrite Hkn. apply N.eqb_refl.
    - intros [k [wk [Hk Hkn]]]. destruct (preferred S n) as [[m wm]|] eqn:E.
      + exists m. tauto.
      + exfalso. unfold preferred in E. apply best_of_none in E.
        assert (Hc : In (k, wk) (claimants S n)).
        { unfold claimants. apply filter_In. split; [eapply get_in; eauto; apply id_eqb_spec|].
          simpl. rewrite Hkn. apply N.eqb_refl. }
        rewrite E in Hc. destruct Hc.
  Qed.

  (* everything observed about an interface name is a function of the preferred endpoint *)
  Lemma obs_determined : forall n,
      iget (o_ids (observe s)) n = option_map fst (preferred S n)
      /\ iget (o_tw (observe s)) n = option_map (fun mw => chains_of (snd mw)) (preferred S n)
      /\ iget (o_fw (observe s)) n = option_map (fun mw => chains_of (snd mw)) (preferred S n)
      /\ routes_at (observe s) n = match preferred S n with Some (_, wm) => routes_of wm | None => [] end
      /\ nmem n (o_dfrom (observe s)) = match preferred S n with Some _ => true | None => false end
      /\ nmem n (o_dto (observe s)) = match preferred S n with Some _ => true | None => false end.
  Proof.
    intros n. pose proof (Inv_preferred S s n fin_inv) as HP. pose proof (InvJ S s fin_inv) as HJ.
    pose proof HJ as [J1 J2 J3 J4]. unfold routes_at. simpl. rewrite J3, J4.
    destruct (preferred S n) as [[m wm]|]; simpl.
    - destruct HP as (Hi & Ha & HS & Hn). rewrite Hi, Ha. simpl.
      assert (Hd : nmem n (dispatch s) = true) by (apply dispatch_iff; eauto using fin_nd).
      rewrite Hd. repeat split; auto.
      unfold routes_for, routes_of. destruct (e_up wm); auto. destruct (e_ips wm); auto.
    - rewrite HP.
      assert (Hd : nmem n (dispatch s) = false).
      { destruct (nmem n (dispatch s)) eqn:E; auto. apply dispatch_iff in E; auto using fin_nd.
        destruct E as [i Hi]. congruence. }
      rewrite Hd. repeat split; reflexivity.
  Qed.

  Lemma no_leftovers_final : forall n,
      (forall i w, dget S i = Some w -> e_if w <> n) ->
      iget (o_ids (observe s)) n = None /\ iget (o_tw (observe s)) n = None /\ iget (o_fw (observe s)) n = None
      /\ iget (o_routes (observe s)) n = None /\ nmem n (o_dfrom (observe s)) = false /\ nmem n (o_dto (observe s)) = false.
  Proof.
    intros n Hno. destruct (obs_determined n) as (O1&O2&O3&O4&O5&O6).
    assert (E : preferred S n = None).
    { destruct (preferred S n) as [[m wm]|] eqn:E; auto. exfalso.
      destruct (preferred_main n) as (_ & H & _). destruct (H m wm E) as (_ & HS & Hn & _). eapply Hno; eauto. }
    rewrite E in *. simpl in *. repeat split; auto.
    pose proof (InvJ S s fin_inv) as [J1 J2 J3 J4]. simpl in O1. rewrite J4, O1. reflexivity.
  Qed.

  Lemma meets_spec_final : ok_obs S (observe s) = true.
  Proof. apply ok_obs_model; [apply fin_inv | apply fin_nd]. Qed.

  Lemma drained_final : pend s = [].
  Proof. apply (InvP S s fin_inv). Qed.
End Final.

Lemma order_independent : forall bs bs' n,
    map fst bs = map fst bs' ->
    let o := observe (run true st0 bs) in let o' := observe (run true st0 bs') in
    iget (o_ids o) n = iget (o_ids o') n /\ iget (o_tw o) n = iget (o_tw o') n /\ iget (o_fw o) n = iget (o_fw o') n
    /\ routes_at o n = routes_at o' n /\ nmem n (o_dfrom o) = nmem n (o_dfrom o') /\ nmem n (o_dto o) = nmem n (o_dto o').
Proof.
  intros bs bs' n E. cbv zeta.
  destruct (obs_determined bs n) as (A1&A2&A3&A4&A5&A6). destruct (obs_determined bs' n) as (B1&B2&B3&B4&B5&B6).
  rewrite A1, A2, A3, A4, A5, A6, B1, B2, B3, B4, B5, B6, E. repeat split; reflexivity.
Qed.

Lemma trace_ok : forall bs, ok_case_from [] (trace st0 bs) = true.
Proof. intros. apply ok_case_trace; [apply Inv_st0 | apply ND_st0]. Qed.

(* dispatch entries, pinned and fixed code *)
Lemma dispatch_entries : forall fx bs n, let s := run fx st0 bs in
    (nmem n (o_dfrom (observe s)) = true <-> exists i, iget (o_ids (observe s)) n = Some i)
    /\ (nmem n (o_dto (observe s)) = true <-> exists i, iget (o_ids (observe s)) n = Some i).
Proof. intros. simpl. split; apply dispatch_iff; subst s; try apply J_reach; apply ND_reach. Qed.
