(* C44 - calculateRoutes: the oracle for one endpoint's routes accepts the model for all inputs. *)
From Coq Require Import List NArith Bool Lia.
Import ListNotations.
From Verif.C44 Require Import Model Spec.
Open Scope N_scope.

Lemma nmem_true_in : forall n l, In n l -> nmem n l = true.
Proof.
  intros. unfold nmem. apply existsb_exists. exists n. split; auto. apply N.eqb_refl.
Qed.

Lemma map_fst_tag : forall (p : N) l, map fst (map (fun ip : N => (ip, p)) l) = l.
Proof. induction l; simpl; congruence. Qed.

Lemma ok_routes_calc : forall fip os l np ep nets ext,
    ok_routes fip os l np ep nets ext (calc_routes fip os l np ep nets ext) = true.
Proof.
  intros. unfold ok_routes, calc_routes.
  destruct l; simpl; auto;
    rewrite map_fst_tag; rewrite !andb_true_iff; repeat split;
    try (apply forallb_forall; intros r Hr; apply in_map_iff in Hr; destruct Hr as [ip [E Hin]]; subst; simpl;
         rewrite N.eqb_refl, andb_true_r; apply in_app_or in Hin; destruct Hin as [Hin|Hin];
         [rewrite (nmem_true_in _ _ Hin); reflexivity|];
         destruct (fip || os); [rewrite (nmem_true_in _ _ Hin); apply orb_true_r | destruct Hin]);
    try (apply forallb_forall; intros n Hn; apply nmem_true_in; apply in_or_app; auto);
    try (destruct (fip || os); auto; apply forallb_forall; intros n Hn; apply nmem_true_in; apply in_or_app; auto).
Qed.

(* without floating IPs and outside OpenStack, exactly the endpoint's own networks are routed *)
Lemma calc_routes_plain : forall l np ep nets ext,
    l <> LmTarget -> map fst (calc_routes false false l np ep nets ext) = nets.
Proof.
  intros. unfold calc_routes. destruct l; try congruence; simpl; rewrite app_nil_r; apply map_fst_tag.
Qed.
