(* C44 - lemmas about the association lists of Model.v, the order wlIdsAscending and best_of. *)
From Coq Require Import List NArith Bool Lia.
Import ListNotations.
From Verif.C44 Require Import Model.
Open Scope N_scope.

Section AMapLemmas.
  Context {K V : Type}.
  Variable keqb : K -> K -> bool.
  Variable kltb : K -> K -> bool.
  Hypothesis keqb_spec : forall a b, keqb a b = true <-> a = b.

  Lemma keqb_refl : forall a, keqb a a = true.
  Proof. intros; apply keqb_spec; reflexivity. Qed.

  Lemma keqb_false : forall a b, keqb a b = false <-> a <> b.
  Proof.
    intros; split; intros H.
    - intros E. apply keqb_spec in E. congruence.
    - destruct (keqb a b) eqn:E; auto. apply keqb_spec in E. contradiction.
  Qed.

  Lemma keqb_sym : forall a b, keqb a b = keqb b a.
  Proof.
    intros. destruct (keqb a b) eqn:E.
    - apply keqb_spec in E; subst. symmetry; apply keqb_refl.
    - apply keqb_false in E. symmetry. apply keqb_false. congruence.
  Qed.

  Lemma get_del : forall (l : list (K * V)) k k',
      get keqb (del keqb k l) k' = if keqb k k' then None else get keqb l k'.
  Proof.
    induction l as [|[a v] t IH]; intros; simpl.
    - destruct (keqb k k'); reflexivity.
    - destruct (keqb k a) eqn:E1.
      + rewrite IH. destruct (keqb k k') eqn:E2; auto.
        apply keqb_spec in E1; subst. rewrite keqb_sym, E2. reflexivity.
      + simpl. rewrite IH. destruct (keqb k' a) eqn:E3.
        * apply keqb_spec in E3; subst. rewrite E1. reflexivity.
        * destruct (keqb k k'); reflexivity.
  Qed.

  Lemma get_insert_other : forall (l : list (K * V)) k v k',
      keqb k k' = false -> get keqb (insert kltb k v l) k' = get keqb l k'.
  Proof.
    induction l as [|[a w] t IH]; intros; simpl.
    - rewrite keqb_sym, H. reflexivity.
    - destruct (kltb k a); simpl.
      + rewrite (keqb_sym k' k), H. reflexivity.
      + rewrite IH by assumption. reflexivity.
  Qed.

  Lemma get_insert_same : forall (l : list (K * V)) k v,
      get keqb l k = None -> get keqb (insert kltb k v l) k = Some v.
  Proof.
    induction l as [|[a w] t IH]; intros; simpl in *.
    - rewrite keqb_refl. reflexivity.
    - destruct (keqb k a) eqn:E; [discriminate|].
      destruct (kltb k a); simpl.
      + rewrite keqb_refl. reflexivity.
      + rewrite E. apply IH. assumption.
  Qed.

  Lemma get_ins : forall (l : list (K * V)) k v k',
      get keqb (ins keqb kltb k v l) k' = if keqb k k' then Some v else get keqb l k'.
  Proof.
    intros. unfold ins. destruct (keqb k k') eqn:E.
    - apply keqb_spec in E; subst. apply get_insert_same. rewrite get_del, keqb_refl. reflexivity.
    - rewrite get_insert_other by assumption. rewrite get_del, E. reflexivity.
  Qed.

  (* one entry per key *)
  Definition nodupk (l : list (K * V)) : Prop := NoDup (map fst l).

  Lemma in_del : forall (l : list (K * V)) k x, In x (del keqb k l) <-> In x l /\ fst x <> k.
  Proof.
    induction l as [|[a w] t IH]; intros; simpl.
    - tauto.
    - destruct (keqb k a) eqn:E.
      + apply keqb_spec in E; subst. rewrite IH. split.
        * intros [H1 H2]; auto.
        * intros [[H1|H1] H2]; [subst; simpl in H2; congruence | auto].
      + apply keqb_false in E. simpl. rewrite IH. split.
        * intros [H1|[H1 H2]]; [subst; simpl; split; auto; congruence | auto].
        * intros [[H1|H1] H2]; auto.
  Qed.

  Lemma in_insert : forall (l : list (K * V)) k v x, In x (insert kltb k v l) <-> x = (k, v) \/ In x l.
  Proof.
    induction l as [|[a w] t IH]; intros; simpl.
    - intuition.
    - destruct (kltb k a); simpl.
      + intuition.
      + rewrite IH. intuition.
  Qed.

  Lemma nodupk_del : forall (l : list (K * V)) k, nodupk l -> nodupk (del keqb k l).
  Proof.
    unfold nodupk. induction l as [|[a w] t IH]; intros; simpl in *; auto.
    inversion H; subst. destruct (keqb k a); auto. simpl. constructor; auto.
    intros HI. apply in_map_iff in HI. destruct HI as [x [Hx HI]]. apply in_del in HI.
    apply H2. apply in_map_iff. exists x. tauto.
  Qed.

  Lemma nodupk_insert : forall (l : list (K * V)) k v,
      nodupk l -> ~ In k (map fst l) -> nodupk (insert kltb k v l).
  Proof.
    unfold nodupk. induction l as [|[a w] t IH]; intros; simpl in *.
    - constructor; auto.
    - destruct (kltb k a); simpl.
      + constructor; auto.
      + inversion H; subst. constructor.
        * intros HI. apply in_map_iff in HI. destruct HI as [x [Hx HI]]. apply in_insert in HI.
          destruct HI as [HI|HI].
          -- subst. simpl in *. apply H0. auto.
          -- apply H3. apply in_map_iff. exists x. auto.
        * apply IH; auto.
  Qed.

  Lemma nodupk_ins : forall (l : list (K * V)) k v, nodupk l -> nodupk (ins keqb kltb k v l).
  Proof.
    intros. unfold ins. apply nodupk_insert.
    - apply nodupk_del; assumption.
    - intros HI. apply in_map_iff in HI. destruct HI as [x [Hx HI]]. apply in_del in HI. tauto.
  Qed.

  Lemma in_get : forall (l : list (K * V)) k v, nodupk l -> (In (k, v) l <-> get keqb l k = Some v).
  Proof.
    unfold nodupk. induction l as [|[a w] t IH]; intros; simpl in *.
    - split; [tauto | discriminate].
    - inversion H; subst. destruct (keqb k a) eqn:E.
      + apply keqb_spec in E; subst. split.
        * intros [H1|H1]; [congruence|]. exfalso. apply H2. apply in_map_iff. exists (a, v). auto.
        * intros H1. left. congruence.
      + apply keqb_false in E. rewrite <- IH by assumption. split.
        * intros [H1|H1]; [congruence | auto].
        * auto.
  Qed.

  Lemma get_in : forall (l : list (K * V)) k v, get keqb l k = Some v -> In (k, v) l.
  Proof.
    induction l as [|[a w] t IH]; intros; simpl in *; [discriminate|].
    destruct (keqb k a) eqn:E.
    - apply keqb_spec in E; subst. left. congruence.
    - right. auto.
  Qed.
End AMapLemmas.

(* ---------- identities ---------- *)
Lemma id_eqb_spec : forall a b, id_eqb a b = true <-> a = b.
Proof.
  intros [[a1 a2] a3] [[b1 b2] b3]. unfold id_eqb. rewrite !andb_true_iff, !N.eqb_eq.
  split; [intros [[? ?] ?]; subst; reflexivity | intros H; inversion H; auto].
Qed.

Lemma asc_irrefl : forall a, asc a a = false.
Proof. intros [[a1 a2] a3]. unfold asc. rewrite !N.eqb_refl. apply N.ltb_irrefl. Qed.

Lemma asc_trans : forall a b c, asc a b = true -> asc b c = true -> asc a c = true.
Proof.
  intros [[a1 a2] a3] [[b1 b2] b3] [[c1 c2] c3]. unfold asc.
  repeat match goal with
         | |- context [?x =? ?y] => destruct (N.eqb_spec x y); subst
         end; rewrite ?N.ltb_lt; try lia.
Qed.

Lemma asc_total : forall a b, asc a b = false -> a <> b -> asc b a = true.
Proof.
  intros [[a1 a2] a3] [[b1 b2] b3]. unfold asc.
  repeat match goal with
         | |- context [?x =? ?y] => destruct (N.eqb_spec x y); subst
         end; rewrite ?N.ltb_lt, ?N.ltb_ge; intros; try lia; try congruence.
  assert (a3 <> b3) by congruence. lia.
Qed.

Lemma asc_asym : forall a b, asc a b = true -> asc b a = false.
Proof.
  intros a b H. destruct (asc b a) eqn:E; auto.
  pose proof (asc_trans _ _ _ H E) as T. rewrite asc_irrefl in T. discriminate.
Qed.

(* ---------- best_of: the least key of a list ---------- *)
Definition bstep (best : option (id * ep)) (kv : id * ep) : option (id * ep) :=
  match best with
  | None => Some kv
  | Some b => if asc (fst kv) (fst b) then Some kv else best
  end.

Lemma best_of_eq : forall l, best_of l = fold_left bstep l None.
Proof. reflexivity. Qed.

Lemma fold_bstep_some : forall l b0, exists b, fold_left bstep l (Some b0) = Some b.
Proof.
  induction l as [|x t IH]; intros; simpl; eauto.
  destruct (asc (fst x) (fst b0)); apply IH.
Qed.

Lemma fold_bstep_min : forall l b0 b,
    fold_left bstep l (Some b0) = Some b ->
    (b = b0 \/ In b l) /\ asc (fst b0) (fst b) = false /\ forall x, In x l -> asc (fst x) (fst b) = false.
Proof.
  induction l as [|x t IH]; intros b0 b H; simpl in *.
  - inversion H; subst. split; auto. split; [apply asc_irrefl | tauto].
  - destruct (asc (fst x) (fst b0)) eqn:E.
    + apply IH in H. destruct H as [H1 [H2 H3]].
      split; [destruct H1; [right; left; congruence | right; right; assumption]|]. split.
      * destruct (asc (fst b0) (fst b)) eqn:E2; auto.
        pose proof (asc_trans _ _ _ E E2) as T. congruence.
      * intros y [Hy|Hy]; subst; auto.
    + apply IH in H. destruct H as [H1 [H2 H3]]. split; [tauto|]. split; auto.
      intros y [Hy|Hy]; subst; auto.
      destruct (asc (fst y) (fst b)) eqn:E2; auto.
      (* y < b, not (y < b0), not (b0 < b): so b <= b0 <= y < b *)
      destruct (id_eqb (fst b0) (fst b)) eqn:E3.
      * apply id_eqb_spec in E3. rewrite E3 in E. congruence.
      * assert (fst b0 <> fst b) by (intros Q; apply id_eqb_spec in Q; congruence).
        pose proof (asc_total _ _ H2 H) as T. pose proof (asc_trans _ _ _ E2 T). congruence.
Qed.

Lemma best_of_none : forall l, best_of l = None <-> l = [].
Proof.
  intros [|x t]; split; intros H; auto; try discriminate.
  unfold best_of in H. simpl in H. change (fold_left bstep t (Some x) = None) in H.
  destruct (fold_bstep_some t x) as [b Hb]. congruence.
Qed.

Lemma best_of_some : forall l b,
    best_of l = Some b -> In b l /\ forall x, In x l -> asc (fst x) (fst b) = false.
Proof.
  intros [|x t] b H; [discriminate|].
  unfold best_of in H. simpl in H. change (fold_left bstep t (Some x) = Some b) in H.
  apply fold_bstep_min in H. destruct H as [H1 [H2 H3]]. split.
  - destruct H1; [left; auto | right; auto].
  - intros y [Hy|Hy]; subst; auto.
Qed.
