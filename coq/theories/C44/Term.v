(* C44 - termination of the loop of resolveWorkloadEndpoints, for every schedule, pinned and fixed code:
   every processed entry decreases  2*|pending| + |shadowed| + |active|. *)
From Coq Require Import List NArith Bool Lia Arith PeanoNat.
Import ListNotations.
From Verif.C44 Require Import Model MapLemmas Proofs.
Open Scope N_scope.

Section Len.
  Context {K V : Type}.
  Variable keqb : K -> K -> bool.
  Variable kltb : K -> K -> bool.
  Hypothesis keqb_spec : forall a b, keqb a b = true <-> a = b.

  Lemma len_del_le : forall (l : list (K * V)) k, (length (del keqb k l) <= length l)%nat.
  Proof. induction l as [|[a v] t IH]; intros; simpl; auto. destruct (keqb k a); simpl; specialize (IH k); lia. Qed.

  Lemma len_del_lt : forall (l : list (K * V)) k v, get keqb l k = Some v -> (S (length (del keqb k l)) <= length l)%nat.
  Proof.
    induction l as [|[a w] t IH]; intros; simpl in *; [discriminate|].
    destruct (keqb k a); simpl.
    - pose proof (len_del_le t k). lia.
    - specialize (IH _ _ H). lia.
  Qed.

  Lemma len_insert : forall (l : list (K * V)) k v, length (insert kltb k v l) = S (length l).
  Proof. induction l as [|[a w] t IH]; intros; simpl; auto. destruct (kltb k a); simpl; auto. Qed.

  Lemma len_ins : forall (l : list (K * V)) k v, length (ins keqb kltb k v l) = S (length (del keqb k l)).
  Proof. intros. unfold ins. apply len_insert. Qed.

  Lemma in_get_some : forall (l : list (K * V)) k v, In (k, v) l -> exists v', get keqb l k = Some v'.
  Proof.
    induction l as [|[a w] t IH]; intros; simpl in *; [tauto|].
    destruct (keqb k a) eqn:E; eauto. destruct H as [H|H]; eauto.
    inversion H; subst. rewrite (proj2 (keqb_spec k k) eq_refl) in E. discriminate.
  Qed.
End Len.

Definition mu (s : st) : nat := (2 * length (pend s) + length (shad s) + length (act s))%nat.

Lemma dlen_del_le : forall {V} (l : list (id * V)) k, (length (ddel k l) <= length l)%nat.
Proof. intros. apply len_del_le. Qed.
Lemma dlen_del_lt : forall {V} (l : list (id * V)) k v, dget l k = Some v -> (S (length (ddel k l)) <= length l)%nat.
Proof. intros. eapply len_del_lt; eauto. Qed.
Lemma dlen_ins : forall {V} (l : list (id * V)) k v, length (dins k v l) = S (length (ddel k l)).
Proof. intros. apply len_ins. Qed.

(* promote re-queues at most one shadowed entry *)
Lemma promote_len : forall fx n s,
    exists d : nat, (d <= 1)%nat
      /\ (length (pend (promote fx n s)) <= length (pend s) + d)%nat
      /\ (length (shad (promote fx n s)) + d <= length (shad s))%nat
      /\ act (promote fx n s) = act s
      /\ (forall k v, dget (pend s) k = Some v -> exists v', dget (pend (promote fx n s)) k = Some v').
Proof.
  intros. unfold promote. destruct (best_of _) as [[b wb]|] eqn:Hb.
  - exists 1%nat. simpl. apply best_of_some in Hb. destruct Hb as [Hin _]. apply filter_In in Hin.
    destruct Hin as [Hin _].
    destruct (in_get_some id_eqb asc id_eqb_spec _ _ _ Hin) as [v' Hv'].
    pose proof (dlen_del_lt _ _ _ Hv'). rewrite dlen_ins. pose proof (dlen_del_le (pend s) b).
    repeat split; try lia.
    intros k v Hk. rewrite dget_ins. destruct (id_eqb b k); eauto.
  - exists 0%nat. repeat split; try lia. eauto.
Qed.

Lemma remove_active_len : forall s old i,
    pend (remove_active s old i) = pend s /\ shad (remove_active s old i) = shad s
    /\ act (remove_active s old i) = ddel i (act s).
Proof. intros. unfold remove_active. destruct old; simpl; auto. Qed.

Lemma install_mu : forall fx s i w v,
    dget (pend s) i = Some v -> (S (mu (install fx s (dget (act s) i) i w)) <= mu s)%nat.
Proof.
  intros fx s i w v Hp. unfold install.
  destruct (dget (act s) i) as [o|] eqn:Ho.
  - assert (Hact : forall a, a = act s -> (length (dins i w a) <= length (act s))%nat).
    { intros a ->. rewrite dlen_ins. pose proof (dlen_del_lt _ _ _ Ho). lia. }
    destruct (negb (e_if o =? e_if w)).
    + match goal with |- context [if fx then promote fx ?n ?x else _] => set (s' := x) end.
      destruct fx.
      * destruct (promote_len true (e_if o) s') as [d [Hd [P1 [P2 [P3 P4]]]]].
        destruct (P4 i v Hp) as [v' Hv']. pose proof (dlen_del_lt _ _ _ Hv').
        unfold mu. simpl. rewrite P3. specialize (Hact (act s') eq_refl). simpl in *. lia.
      * pose proof (dlen_del_lt _ _ _ Hp). unfold mu. simpl. specialize (Hact (act s) eq_refl). lia.
    + pose proof (dlen_del_lt _ _ _ Hp). unfold mu. simpl. specialize (Hact (act s) eq_refl). lia.
  - pose proof (dlen_del_lt _ _ _ Hp). unfold mu. simpl. rewrite dlen_ins.
    pose proof (dlen_del_le (act s) i). lia.
Qed.

Lemma step_rem_mu : forall fx s i, dget (pend s) i = Some None -> (S (mu (step_rem fx s i)) <= mu s)%nat.
Proof.
  intros fx s i Hp. unfold step_rem.
  destruct (remove_active_len s (dget (act s) i) i) as (R1&R2&R3).
  set (s1 := remove_active s (dget (act s) i) i) in *. clearbody s1.
  pose proof (dlen_del_lt _ _ _ Hp). pose proof (dlen_del_le (shad s) i). pose proof (dlen_del_le (act s) i).
  destruct (dget (act s) i) as [o|] eqn:Ho.
  - match goal with |- context [promote fx ?n ?x] => destruct (promote_len fx n x) as [d [Hd [P1 [P2 [P3 P4]]]]] end.
    pose proof (dlen_del_lt _ _ _ Ho).
    unfold mu. rewrite P3. simpl in *. rewrite R1, R2, R3 in *. lia.
  - unfold mu. simpl. rewrite R1, R2, R3. lia.
Qed.

Lemma step_upd_mu : forall fx s i w, dget (pend s) i = Some (Some w) -> (S (mu (step_upd fx s i w)) <= mu s)%nat.
Proof.
  intros fx s i w Hp. unfold step_upd.
  set (s' := if fx then set_shad s (ddel i (shad s)) else s).
  assert (Ep : pend s' = pend s) by (subst s'; destruct fx; reflexivity).
  assert (Ea : act s' = act s) by (subst s'; destruct fx; reflexivity).
  assert (Es : (length (shad s') <= length (shad s))%nat).
  { subst s'; destruct fx; simpl; auto. apply dlen_del_le. }
  assert (Hmu : (mu s' <= mu s)%nat) by (unfold mu; rewrite Ep, Ea; lia).
  assert (Hp' : dget (pend s') i = Some (Some w)) by (rewrite Ep; assumption).
  clearbody s'. rewrite <- Ea.
  destruct (iget (i2id s') (e_if w)) as [ex|].
  2:{ pose proof (install_mu fx s' i w _ Hp'). lia. }
  destruct (negb (id_eqb ex i)) eqn:Ene.
  2:{ pose proof (install_mu fx s' i w _ Hp'). lia. }
  inv_eqb.
  pose proof (dlen_del_lt _ _ _ Hp') as Hpl.
  destruct (asc ex i).
  - (* lose *)
    assert (Hsl : (length (dins i w (shad s')) <= S (length (shad s')))%nat).
    { rewrite dlen_ins. pose proof (dlen_del_le (shad s') i). lia. }
    set (s1 := mkSt (ddel i (pend s')) (act s') (i2id s') (dins i w (shad s')) (cbi s') (ftab s') (rts s')).
    assert (M1 : (S (mu s1) <= mu s')%nat) by (unfold mu; simpl; lia).
    destruct fx; [|lia].
    destruct (dget (act s') i) as [o|] eqn:Ho; [|lia].
    destruct (remove_active_len s1 (Some o) i) as (R1&R2&R3).
    match goal with |- context [promote true ?n ?x] => destruct (promote_len true n x) as [d [Hd [P1 [P2 [P3 P4]]]]] end.
    pose proof (dlen_del_lt _ _ _ Ho).
    unfold mu in *. rewrite P3. rewrite R1, R2, R3 in *. simpl in *. lia.
  - (* win *)
    destruct (dget (act s') ex) as [we|] eqn:Hwe.
    + set (s1 := set_shad s' (dins ex we (shad s'))).
      destruct (remove_active_len s1 (Some we) ex) as (R1&R2&R3).
      set (s2 := remove_active s1 (Some we) ex) in *.
      assert (E2 : dget (act s2) i = dget (act s') i).
      { rewrite R3. simpl. rewrite dget_del, (id_eqb_neq ex i) by assumption. reflexivity. }
      assert (Hp2 : dget (pend s2) i = Some (Some w)) by (rewrite R1; simpl; assumption).
      rewrite <- E2. pose proof (install_mu fx s2 i w _ Hp2) as HI.
      assert (M2 : (mu s2 <= mu s')%nat).
      { unfold mu. rewrite R1, R2, R3. simpl. rewrite dlen_ins.
        pose proof (dlen_del_le (shad s') ex). pose proof (dlen_del_lt _ _ _ Hwe). lia. }
      lia.
    + destruct (remove_active_len s' None ex) as (R1&R2&R3).
      set (s2 := remove_active s' None ex) in *.
      assert (E2 : dget (act s2) i = dget (act s') i).
      { rewrite R3. rewrite dget_del, (id_eqb_neq ex i) by assumption. reflexivity. }
      assert (Hp2 : dget (pend s2) i = Some (Some w)) by (rewrite R1; assumption).
      rewrite <- E2. pose proof (install_mu fx s2 i w _ Hp2) as HI.
      assert (M2 : (mu s2 <= mu s')%nat).
      { unfold mu. rewrite R1, R2, R3. pose proof (dlen_del_le (act s') ex). lia. }
      lia.
Qed.

Lemma step_mu : forall fx s i v, dget (pend s) i = Some v -> (S (mu (step fx s i)) <= mu s)%nat.
Proof.
  intros. unfold step. rewrite H. destruct v; [apply step_upd_mu | apply step_rem_mu]; assumption.
Qed.

Lemma resolve_drains : forall fx fuel sched s, (mu s < fuel)%nat -> pend (resolve fx fuel sched s) = [].
Proof.
  induction fuel as [|f IH]; intros sched s Hmu; [lia|]. simpl.
  destruct (pend s) as [|p0 t] eqn:Hp; auto.
  set (k := fst (nth (Nat.modulo (hd 0%nat sched) (length (p0 :: t))) (p0 :: t) p0)).
  assert (Hin : In (nth (Nat.modulo (hd 0%nat sched) (length (p0 :: t))) (p0 :: t) p0) (p0 :: t)).
  { apply nth_In. apply Nat.mod_upper_bound. simpl. lia. }
  assert (Hk : exists v, dget (pend s) k = Some v).
  { rewrite Hp. subst k. destruct (nth _ (p0 :: t) p0) as [a v] eqn:E. cbn [fst].
    eapply (in_get_some id_eqb asc id_eqb_spec). exact Hin. }
  destruct Hk as [v Hv]. apply IH. pose proof (step_mu fx s k v Hv). lia.
Qed.

(* CompleteDeferredWork always returns with an empty pending map *)
Lemma apply_batch_drains : forall fx sched s ops, pend (apply_batch fx sched s ops) = [].
Proof. intros. unfold apply_batch. apply resolve_drains. unfold fuel_of, mu. lia. Qed.

Lemma run_drained : forall fx bs s, pend s = [] -> pend (run fx s bs) = [].
Proof.
  induction bs as [|[ops sched] t IH]; simpl; intros; auto. apply IH. apply apply_batch_drains.
Qed.
