(* C44 - the preference order wlIdsAscending: a strict total order on (OrchestratorId, WorkloadId, EndpointId),
   for Go strings (byte sequences) and for the numbers the manager model uses in their place. *)
From Coq Require Import List NArith Bool Lia.
Import ListNotations.
From Verif.C44 Require Import Model Spec MapLemmas Proofs.
Open Scope N_scope.

(* ---------- lexicographic triples over any strict total order ---------- *)
Section Lex3.
  Variable T : Type.
  Variable teq tlt : T -> T -> bool.
  Hypothesis teq_spec : forall a b, teq a b = true <-> a = b.
  Hypothesis tlt_irrefl : forall a, tlt a a = false.
  Hypothesis tlt_trans : forall a b c, tlt a b = true -> tlt b c = true -> tlt a c = true.
  Hypothesis tlt_total : forall a b, tlt a b = false -> a <> b -> tlt b a = true.

  Definition asc3 (a b : T * T * T) : bool :=
    let '(a1, a2, a3) := a in let '(b1, b2, b3) := b in
    if teq a1 b1 then (if teq a2 b2 then tlt a3 b3 else tlt a2 b2) else tlt a1 b1.

  Lemma teq_refl : forall a, teq a a = true. Proof. intros; apply teq_spec; reflexivity. Qed.

  Ltac tcases :=
    repeat match goal with
           | |- context [teq ?x ?y] =>
               let E := fresh "E" in destruct (teq x y) eqn:E; [apply teq_spec in E; subst | ]
           end.

  Lemma teq_false_neq : forall a b, teq a b = false -> a <> b.
  Proof. intros a b H E. subst. rewrite teq_refl in H. discriminate. Qed.

  Lemma tlt_asym : forall a b, tlt a b = true -> tlt b a = false.
  Proof.
    intros a b H. destruct (tlt b a) eqn:E; auto. pose proof (tlt_trans _ _ _ H E) as Q.
    rewrite tlt_irrefl in Q. discriminate.
  Qed.

  Lemma asc3_irrefl : forall a, asc3 a a = false.
  Proof. intros [[a1 a2] a3]. unfold asc3. rewrite !teq_refl. apply tlt_irrefl. Qed.

  Lemma asc3_trans : forall a b c, asc3 a b = true -> asc3 b c = true -> asc3 a c = true.
  Proof.
    intros [[a1 a2] a3] [[b1 b2] b3] [[c1 c2] c3]. unfold asc3. tcases; intros;
      rewrite ?teq_refl in *; try discriminate; eauto;
      repeat match goal with
             | H : teq ?x ?x = false |- _ => rewrite teq_refl in H; discriminate
             | H1 : tlt ?x ?y = true, H2 : tlt ?y ?x = true |- _ =>
                 pose proof (tlt_trans _ _ _ H1 H2) as Q; rewrite tlt_irrefl in Q; discriminate
             | H : tlt ?x ?x = true |- _ => rewrite tlt_irrefl in H; discriminate
             end.
  Qed.

  Lemma asc3_total : forall a b, asc3 a b = false -> a <> b -> asc3 b a = true.
  Proof.
    intros [[a1 a2] a3] [[b1 b2] b3]. unfold asc3. tcases; intros H Hne; rewrite ?teq_refl in *;
      try (apply tlt_total; auto; congruence);
      repeat match goal with
             | H : teq ?x ?y = false |- _ => apply teq_false_neq in H
             end; try congruence.
    - destruct (teq b2 a2) eqn:E2; [apply teq_spec in E2; congruence|]. apply tlt_total; auto.
    - destruct (teq b1 a1) eqn:E2; [apply teq_spec in E2; congruence|]. apply tlt_total; auto.
  Qed.

  Lemma asc3_asym : forall a b, asc3 a b = true -> asc3 b a = false.
  Proof.
    intros a b H. destruct (asc3 b a) eqn:E; auto. pose proof (asc3_trans _ _ _ H E) as Q.
    rewrite asc3_irrefl in Q. discriminate.
  Qed.
End Lex3.

(* ---------- Go strings ---------- *)
Lemma seqb_spec : forall a b, seqb a b = true <-> a = b.
Proof.
  unfold seqb. induction a as [|x a IH]; intros [|y b]; simpl; split; intros H; auto; try discriminate.
  - apply andb_true_iff in H. destruct H as [H1 H2]. apply N.eqb_eq in H1. apply IH in H2. congruence.
  - inversion H; subst. rewrite N.eqb_refl. apply IH. reflexivity.
Qed.

Lemma slt_irrefl : forall a, slt a a = false.
Proof. induction a; simpl; auto. rewrite N.ltb_irrefl, N.eqb_refl. assumption. Qed.

Lemma slt_trans : forall a b c, slt a b = true -> slt b c = true -> slt a c = true.
Proof.
  induction a as [|x a IH]; intros [|y b] [|z c]; simpl; intros H1 H2; auto; try discriminate.
  destruct (x <? y) eqn:E1; destruct (y <? z) eqn:E2; destruct (x <? z) eqn:E3; auto;
    rewrite ?N.ltb_lt, ?N.ltb_ge in *;
    destruct (N.eqb_spec x y); destruct (N.eqb_spec y z); destruct (N.eqb_spec x z); subst; try lia; try discriminate.
  eapply IH; eauto.
Qed.

Lemma slt_total : forall a b, slt a b = false -> a <> b -> slt b a = true.
Proof.
  induction a as [|x a IH]; intros [|y b]; simpl; intros H Hne; auto; try discriminate; try congruence.
  destruct (x <? y) eqn:E1; [discriminate|]. rewrite N.ltb_ge in E1.
  destruct (N.eqb_spec x y).
  - subst. rewrite N.ltb_irrefl, N.eqb_refl. apply IH; auto. congruence.
  - destruct (y <? x) eqn:E2; auto. rewrite N.ltb_ge in E2. lia.
Qed.

Lemma sasc_is_asc3 : forall a b, sasc a b = asc3 gstr seqb slt a b.
Proof. intros [[a1 a2] a3] [[b1 b2] b3]. reflexivity. Qed.

Lemma sasc_irrefl : forall a, sasc a a = false.
Proof. intros. rewrite sasc_is_asc3. apply asc3_irrefl; [apply seqb_spec | apply slt_irrefl]. Qed.
Lemma sasc_trans : forall a b c, sasc a b = true -> sasc b c = true -> sasc a c = true.
Proof.
  intros a b c. rewrite !sasc_is_asc3.
  apply asc3_trans; [apply seqb_spec | apply slt_irrefl | apply slt_trans].
Qed.
Lemma sasc_total : forall a b, sasc a b = false -> a <> b -> sasc b a = true.
Proof.
  intros a b. rewrite !sasc_is_asc3. apply asc3_total; [apply seqb_spec | apply slt_irrefl | apply slt_total].
Qed.
Lemma sasc_asym : forall a b, sasc a b = true -> sasc b a = false.
Proof.
  intros a b. rewrite !sasc_is_asc3.
  apply asc3_asym; [apply seqb_spec | apply slt_irrefl | apply slt_trans].
Qed.

Lemma sid_eqb_spec : forall a b, sid_eqb a b = true <-> a = b.
Proof.
  intros [[a1 a2] a3] [[b1 b2] b3]. unfold sid_eqb. rewrite !andb_true_iff, !seqb_spec.
  split; [intros [[? ?] ?]; subst; reflexivity | intros H; inversion H; auto].
Qed.

(* the oracle for the order accepts wlIdsAscending on every cluster of ids *)
Lemma ok_rel_sasc : forall ids, ok_rel sasc ids = true.
Proof.
  intros ids. unfold ok_rel. rewrite !andb_true_iff. repeat split.
  - apply forallb_forall. intros a _. rewrite sasc_irrefl. reflexivity.
  - apply forallb_forall. intros a _. apply forallb_forall. intros b _.
    destruct (sid_eqb a b) eqn:E; auto.
    assert (a <> b) by (intros Q; apply sid_eqb_spec in Q; congruence).
    destruct (sasc a b) eqn:E1.
    + rewrite (sasc_asym _ _ E1). reflexivity.
    + rewrite (sasc_total _ _ E1 H). reflexivity.
  - apply forallb_forall. intros a _. apply forallb_forall. intros b _. apply forallb_forall. intros c _.
    destruct (sasc a b) eqn:E1; simpl; auto. destruct (sasc b c) eqn:E2; simpl; auto.
    rewrite (sasc_trans _ _ _ E1 E2). reflexivity.
Qed.

(* ---------- the numbers of the manager model stand for strings in the same order ---------- *)
Section Coding.
  Variable code : gstr -> N.
  Hypothesis code_mono : forall a b, slt a b = (code a <? code b).

  Lemma code_inj : forall a b, code a = code b -> a = b.
  Proof.
    intros a b H. destruct (seqb a b) eqn:E; [apply seqb_spec; assumption|]. exfalso.
    assert (a <> b) by (intros Q; apply seqb_spec in Q; congruence).
    assert (H1 : slt a b = false) by (rewrite code_mono, H; apply N.ltb_irrefl).
    pose proof (slt_total _ _ H1 H0) as H2. rewrite code_mono, H, N.ltb_irrefl in H2. discriminate.
  Qed.

  Lemma code_eqb : forall a b, seqb a b = (code a =? code b).
  Proof.
    intros. destruct (seqb a b) eqn:E.
    - apply seqb_spec in E. subst. symmetry. apply N.eqb_refl.
    - symmetry. apply N.eqb_neq. intros Q. apply code_inj in Q. apply seqb_spec in Q. congruence.
  Qed.

  Definition code3 (a : sid) : id := let '(a1, a2, a3) := a in (code a1, code a2, code a3).

  Lemma asc_code3 : forall a b, asc (code3 a) (code3 b) = sasc a b.
  Proof.
    intros [[a1 a2] a3] [[b1 b2] b3]. unfold asc, sasc, code3. rewrite !code_eqb, !code_mono. reflexivity.
  Qed.
End Coding.

(* the model's order on numeric ids *)
Lemma asc_strict_total :
  (forall a, asc a a = false)
  /\ (forall a b, asc a b = true -> asc b a = false)
  /\ (forall a b c, asc a b = true -> asc b c = true -> asc a c = true)
  /\ (forall a b, a <> b -> asc a b = true \/ asc b a = true).
Proof.
  repeat split; [apply asc_irrefl | apply asc_asym | apply asc_trans |].
  intros a b H. destruct (asc a b) eqn:E; auto. right. apply asc_total; auto.
Qed.

Lemma sasc_strict_total :
  (forall a, sasc a a = false)
  /\ (forall a b, sasc a b = true -> sasc b a = false)
  /\ (forall a b c, sasc a b = true -> sasc b c = true -> sasc a c = true)
  /\ (forall a b, a <> b -> sasc a b = true \/ sasc b a = true).
Proof.
  repeat split; [apply sasc_irrefl | apply sasc_asym | apply sasc_trans |].
  intros a b H. destruct (sasc a b) eqn:E; auto. right. apply sasc_total; auto.
Qed.
