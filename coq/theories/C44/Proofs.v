(* C44 - invariants of the endpoint manager model.
   Part 1 (both the pinned and the fixed code): what is programmed always mirrors activeWlEndpoints:
   activeWlIfaceNameToID is the inverse of "interface name of", the chains / routes of an interface are
   those of its one active endpoint. *)
From Coq Require Import List NArith Bool Lia.
Import ListNotations.
From Verif.C44 Require Import Model MapLemmas.
Open Scope N_scope.

(* ---------- specialised map lemmas ---------- *)
Lemma dget_ins : forall {V} (l : list (id * V)) k v k', dget (dins k v l) k' = if id_eqb k k' then Some v else dget l k'.
Proof. intros. apply get_ins. apply id_eqb_spec. Qed.
Lemma dget_del : forall {V} (l : list (id * V)) k k', dget (ddel k l) k' = if id_eqb k k' then None else dget l k'.
Proof. intros. apply get_del. apply id_eqb_spec. Qed.
Lemma iget_ins : forall {V} (l : list (N * V)) k v k', iget (iins k v l) k' = if k =? k' then Some v else iget l k'.
Proof. intros. apply get_ins. apply N.eqb_eq. Qed.
Lemma iget_del : forall {V} (l : list (N * V)) k k', iget (idel k l) k' = if k =? k' then None else iget l k'.
Proof. intros. apply get_del. apply N.eqb_eq. Qed.

Lemma id_eqb_refl : forall a, id_eqb a a = true.
Proof. intros. apply id_eqb_spec. reflexivity. Qed.
Lemma id_eqb_neq : forall a b, a <> b -> id_eqb a b = false.
Proof. intros. destruct (id_eqb a b) eqn:E; auto. apply id_eqb_spec in E. contradiction. Qed.
Lemma id_eqb_false : forall a b, id_eqb a b = false -> a <> b.
Proof. intros a b H E. subst. rewrite id_eqb_refl in H. discriminate. Qed.

Ltac inv_eqb :=
  repeat match goal with
         | H : id_eqb _ _ = true |- _ => apply id_eqb_spec in H
         | H : id_eqb _ _ = false |- _ => apply id_eqb_false in H
         | H : (_ =? _) = true |- _ => apply N.eqb_eq in H
         | H : (_ =? _) = false |- _ => apply N.eqb_neq in H
         | H : negb _ = true |- _ => apply negb_true_iff in H
         | H : negb _ = false |- _ => apply negb_false_iff in H
         end.

Ltac msimp := repeat (rewrite ?dget_ins, ?dget_del, ?iget_ins, ?iget_del, ?id_eqb_refl, ?N.eqb_refl in * ).

(* ---------- what an active endpoint puts on its interface ---------- *)
Definition routes_for (w : ep) : option (list N) :=
  if e_up w then (match e_ips w with [] => None | ips => Some ips end) else None.

Lemma iget_set_routes : forall w r n,
    iget (set_routes w r) n = if e_if w =? n then routes_for w else iget r n.
Proof.
  intros. unfold set_routes, routes_for. destruct (e_up w); [destruct (e_ips w)|]; msimp; reflexivity.
Qed.

Record J (s : st) : Prop := mkJ {
  J1 : forall n i, iget (i2id s) n = Some i <-> exists w, dget (act s) i = Some w /\ e_if w = n;
  J2 : forall i, dget (cbi s) i = option_map (fun w => (e_if w, render w)) (dget (act s) i);
  J3 : forall n, iget (ftab s) n = match iget (i2id s) n with
                                   | Some i => option_map render (dget (act s) i)
                                   | None => None
                                   end;
  J4 : forall n, iget (rts s) n = match iget (i2id s) n with
                                  | Some i => match dget (act s) i with Some w => routes_for w | None => None end
                                  | None => None
                                  end
}.

Lemma J_st0 : J st0.
Proof.
  constructor; simpl; intros; auto. split; [discriminate | intros [w [H _]]; discriminate].
Qed.

(* J only looks at act, i2id, cbi, ftab, rts *)
Lemma J_same : forall s s',
    act s' = act s -> i2id s' = i2id s -> cbi s' = cbi s -> ftab s' = ftab s -> rts s' = rts s -> J s -> J s'.
Proof.
  intros s s' E1 E2 E3 E4 E5 [H1 H2 H3 H4]. constructor; rewrite ?E1, ?E2, ?E3, ?E4, ?E5; auto.
Qed.

Lemma promote_fields : forall fx n s,
    act (promote fx n s) = act s /\ i2id (promote fx n s) = i2id s /\ cbi (promote fx n s) = cbi s
    /\ ftab (promote fx n s) = ftab s /\ rts (promote fx n s) = rts s.
Proof.
  intros. unfold promote. destruct (best_of _) as [[b w]|]; simpl; auto.
Qed.

Lemma J_promote : forall fx n s, J s -> J (promote fx n s).
Proof. intros. destruct (promote_fields fx n s) as (?&?&?&?&?). eapply J_same; eauto. Qed.

Lemma J_on_update : forall s o, J s -> J (on_update s o).
Proof. intros. destruct o; (eapply J_same; [| | | | |eassumption]); reflexivity. Qed.

(* the active endpoint of a name is unique *)
Lemma J_unique : forall s i j wi wj,
    J s -> dget (act s) i = Some wi -> dget (act s) j = Some wj -> e_if wi = e_if wj -> i = j.
Proof.
  intros s i j wi wj HJ Hi Hj E.
  assert (A : iget (i2id s) (e_if wi) = Some i) by (apply (J1 s HJ); eauto).
  assert (B : iget (i2id s) (e_if wi) = Some j) by (apply (J1 s HJ); exists wj; auto).
  congruence.
Qed.

Lemma J_remove_active : forall s i, J s -> J (remove_active s (dget (act s) i) i).
Proof.
  intros s i HJ. pose proof HJ as [H1 H2 H3 H4]. unfold remove_active.
  rewrite (H2 i). destruct (dget (act s) i) as [o|] eqn:Ho; simpl.
  - constructor; simpl; intros; msimp.
    + destruct (e_if o =? n) eqn:E; inv_eqb.
      * split; [discriminate|]. intros [w [Hw Hn]]. destruct (id_eqb i i0) eqn:E2; [discriminate|]. inv_eqb.
        exfalso. apply E2. eapply J_unique; eauto. congruence.
      * rewrite H1. destruct (id_eqb i i0) eqn:E2; inv_eqb.
        -- subst. split; [|intros [w [Hw _]]; discriminate]. intros [w [Hw Hn]]. exfalso. congruence.
        -- tauto.
    + rewrite H2. destruct (id_eqb i i0); reflexivity.
    + destruct (e_if o =? n) eqn:E; auto. rewrite H3.
      destruct (iget (i2id s) n) as [j|] eqn:Hj; auto. msimp.
      destruct (id_eqb i j) eqn:E2; auto. inv_eqb. subst.
      apply H1 in Hj. destruct Hj as [w [Hw Hn]]. congruence.
    + destruct (e_if o =? n) eqn:E; auto. rewrite H4.
      destruct (iget (i2id s) n) as [j|] eqn:Hj; auto. msimp.
      destruct (id_eqb i j) eqn:E2; auto. inv_eqb. subst.
      apply H1 in Hj. destruct Hj as [w [Hw Hn]]. congruence.
  - constructor; simpl; intros; msimp.
    + rewrite H1. destruct (id_eqb i i0) eqn:E2; inv_eqb; [subst|tauto].
      split; intros [w [Hw _]]; congruence.
    + rewrite H2. destruct (id_eqb i i0) eqn:E2; inv_eqb; subst; rewrite ?Ho; auto.
    + rewrite H3. destruct (iget (i2id s) n) as [j|] eqn:Hj; auto. msimp.
      destruct (id_eqb i j) eqn:E2; auto; inv_eqb; subst; rewrite ?Ho; auto.
    + rewrite H4. destruct (iget (i2id s) n) as [j|] eqn:Hj; auto. msimp.
      destruct (id_eqb i j) eqn:E2; auto; inv_eqb; subst; rewrite ?Ho; auto.
Qed.

(* J depends on the five maps only through lookups *)
Lemma J_ext : forall s s',
    (forall k, dget (act s') k = dget (act s) k) ->
    (forall k, iget (i2id s') k = iget (i2id s) k) ->
    (forall k, dget (cbi s') k = dget (cbi s) k) ->
    (forall k, iget (ftab s') k = iget (ftab s) k) ->
    (forall k, iget (rts s') k = iget (rts s) k) ->
    J s -> J s'.
Proof.
  intros s s' E1 E2 E3 E4 E5 [H1 H2 H3 H4].
  constructor; intros.
  - rewrite E2, E1. apply H1.
  - rewrite E3, E1. apply H2.
  - rewrite E4, E2. rewrite H3. destruct (iget (i2id s) n); auto. rewrite E1. reflexivity.
  - rewrite E5, E2. rewrite H4. destruct (iget (i2id s) n); auto. rewrite E1. reflexivity.
Qed.

(* the five maps after install *)
Lemma install_fields : forall fx s old i w,
    let ren := match old with Some o => negb (e_if o =? e_if w) | None => false end in
    let oif := match old with Some o => e_if o | None => 0 end in
    act (install fx s old i w) = dins i w (act s)
    /\ i2id (install fx s old i w) = iins (e_if w) i (if ren then idel oif (i2id s) else i2id s)
    /\ cbi (install fx s old i w) = dins i (e_if w, render w) (cbi s)
    /\ ftab (install fx s old i w) =
       iins (e_if w) (render w) (if ren then match dget (cbi s) i with Some (n, _) => idel n (ftab s) | None => ftab s end
                                 else ftab s)
    /\ rts (install fx s old i w) = set_routes w (if ren then idel oif (rts s) else rts s).
Proof.
  intros. unfold install. destruct old as [o|]; simpl in *.
  - subst ren oif. destruct (negb (e_if o =? e_if w)); simpl.
    + destruct fx; simpl.
      * match goal with |- context [promote ?a ?b ?c] => destruct (promote_fields a b c) as (P1&P2&P3&P4&P5) end.
        rewrite P1, P2, P3, P4, P5. simpl. auto.
      * auto.
    + auto.
  - auto.
Qed.

Lemma J_install_fresh : forall fx s i w,
    J s -> dget (act s) i = None -> iget (i2id s) (e_if w) = None -> J (install fx s None i w).
Proof.
  intros fx s i w HJ Hi Hn. pose proof HJ as [H1 H2 H3 H4].
  destruct (install_fields fx s None i w) as (F1&F2&F3&F4&F5). cbv beta iota zeta in F1, F2, F3, F4, F5.
  constructor; intros; rewrite ?F1, ?F2, ?F3, ?F4, ?F5; rewrite ?iget_set_routes; msimp.
  - destruct (e_if w =? n) eqn:E; inv_eqb.
    + subst. split.
      * intros Q. inversion Q; subst. msimp. exists w; auto.
      * intros [w' [Hw' Hn']]. destruct (id_eqb i i0) eqn:E2; inv_eqb; [congruence|].
        exfalso. assert (iget (i2id s) (e_if w) = Some i0) by (apply H1; eauto). congruence.
    + rewrite H1. destruct (id_eqb i i0) eqn:E2; inv_eqb; [subst|tauto].
      split; intros [w' [Hw' Hn']]; exfalso; congruence.
  - rewrite H2. destruct (id_eqb i i0); reflexivity.
  - destruct (e_if w =? n) eqn:E; inv_eqb.
    + msimp. reflexivity.
    + rewrite H3. destruct (iget (i2id s) n) as [j|] eqn:Hj; auto. msimp.
      destruct (id_eqb i j) eqn:E2; auto. inv_eqb. subst.
      apply H1 in Hj. destruct Hj as [w' [Hw' _]]. congruence.
  - destruct (e_if w =? n) eqn:E; inv_eqb.
    + msimp. reflexivity.
    + rewrite H4. destruct (iget (i2id s) n) as [j|] eqn:Hj; auto. msimp.
      destruct (id_eqb i j) eqn:E2; auto. inv_eqb. subst.
      apply H1 in Hj. destruct Hj as [w' [Hw' _]]. congruence.
Qed.

(* install over an existing active entry = remove it, then install afresh (as far as lookups go) *)
Lemma J_install : forall fx s i w,
    J s -> (forall j, iget (i2id s) (e_if w) = Some j -> j = i) ->
    J (install fx s (dget (act s) i) i w).
Proof.
  intros fx s i w HJ Hpre. pose proof HJ as [H1 H2 H3 H4].
  destruct (dget (act s) i) as [o|] eqn:Ho.
  2:{ apply J_install_fresh; auto. destruct (iget (i2id s) (e_if w)) as [j|] eqn:Hj; auto.
      specialize (Hpre j eq_refl). subst. apply H1 in Hj. destruct Hj as [w' [Hw' _]]. congruence. }
  set (sa := remove_active s (dget (act s) i) i).
  assert (HJa : J sa) by (apply J_remove_active; auto).
  assert (Hai : dget (act sa) i = None).
  { subst sa. rewrite Ho. simpl. msimp. reflexivity. }
  assert (Han : iget (i2id sa) (e_if w) = None).
  { subst sa. rewrite Ho. simpl. msimp. destruct (e_if o =? e_if w) eqn:E; auto. inv_eqb.
    destruct (iget (i2id s) (e_if w)) as [j|] eqn:Hj; auto. specialize (Hpre j eq_refl). subst.
    apply H1 in Hj. destruct Hj as [w' [Hw' Hn']]. congruence. }
  pose proof (J_install_fresh fx sa i w HJa Hai Han) as HJf.
  destruct (install_fields fx sa None i w) as (F1&F2&F3&F4&F5).
  destruct (install_fields fx s (Some o) i w) as (G1&G2&G3&G4&G5).
  cbv beta iota zeta in F1, F2, F3, F4, F5, G1, G2, G3, G4, G5.
  assert (Hc : dget (cbi s) i = Some (e_if o, render o)) by (rewrite H2, Ho; reflexivity).
  eapply J_ext; [| | | | | exact HJf]; intros k;
    rewrite ?F1, ?F2, ?F3, ?F4, ?F5, ?G1, ?G2, ?G3, ?G4, ?G5; subst sa; rewrite Ho; simpl; rewrite ?Hc;
    rewrite ?iget_set_routes; msimp.
  - destruct (id_eqb i k); reflexivity.
  - destruct (e_if w =? k) eqn:E; auto. destruct (negb (e_if o =? e_if w)) eqn:E2; msimp; auto.
    inv_eqb. destruct (e_if o =? k) eqn:E3; auto. inv_eqb. congruence.
  - destruct (id_eqb i k); reflexivity.
  - destruct (e_if w =? k) eqn:E; auto. destruct (negb (e_if o =? e_if w)) eqn:E2; msimp; auto.
    inv_eqb. destruct (e_if o =? k) eqn:E3; auto. inv_eqb. congruence.
  - destruct (e_if w =? k) eqn:E; auto. destruct (negb (e_if o =? e_if w)) eqn:E2; msimp; auto.
    inv_eqb. destruct (e_if o =? k) eqn:E3; auto. inv_eqb. congruence.
Qed.

Lemma J_step_rem : forall fx s i, J s -> J (step_rem fx s i).
Proof.
  intros fx s i HJ. unfold step_rem.
  pose proof (J_remove_active s i HJ) as HR.
  set (s1 := remove_active s (dget (act s) i) i) in *.
  assert (HJ2 : J (mkSt (ddel i (pend s1)) (act s1) (i2id s1) (ddel i (shad s1)) (cbi s1) (ftab s1) (rts s1))).
  { eapply J_same; [| | | | |exact HR]; reflexivity. }
  destruct (dget (act s) i); auto. apply J_promote. assumption.
Qed.

Lemma J_step_upd : forall fx s i w, J s -> J (step_upd fx s i w).
Proof.
  intros fx s i w HJ. unfold step_upd.
  set (s' := if fx then set_shad s (ddel i (shad s)) else s).
  assert (HJ' : J s') by (subst s'; destruct fx; auto; eapply J_same; [| | | | |exact HJ]; reflexivity).
  assert (Ea : act s' = act s) by (subst s'; destruct fx; reflexivity).
  assert (Ei : i2id s' = i2id s) by (subst s'; destruct fx; reflexivity).
  clearbody s'.
  destruct (iget (i2id s') (e_if w)) as [ex|] eqn:Hex.
  2:{ rewrite <- Ea. apply J_install; auto. intros j Hj. congruence. }
  destruct (negb (id_eqb ex i)) eqn:Ene.
  2:{ inv_eqb. subst. rewrite <- Ea. apply J_install; auto. intros j Hj. congruence. }
  inv_eqb.
  destruct (asc ex i) eqn:Easc.
  - (* lose *)
    set (s1 := mkSt (ddel i (pend s')) (act s') (i2id s') (dins i w (shad s')) (cbi s') (ftab s') (rts s')).
    assert (HJ1 : J s1) by (eapply J_same; [| | | | |exact HJ']; reflexivity).
    destruct fx; auto.
    destruct (dget (act s) i) as [o|] eqn:Ho; auto.
    apply J_promote.
    replace (Some o) with (dget (act s1) i) by (simpl; congruence).
    apply J_remove_active. assumption.
  - (* win *)
    pose proof HJ' as [H1 _ _ _].
    assert (Hx : exists we, dget (act s') ex = Some we /\ e_if we = e_if w) by (apply H1; assumption).
    destruct Hx as [we [Hwe Hwn]]. rewrite Hwe.
    set (s1 := set_shad s' (dins ex we (shad s'))).
    assert (HJ1 : J s1) by (eapply J_same; [| | | | |exact HJ']; reflexivity).
    pose proof (J_remove_active s1 ex HJ1) as HJ2.
    assert (E1 : dget (act s1) ex = Some we) by (simpl; assumption).
    rewrite E1 in HJ2.
    set (s2 := remove_active s1 (Some we) ex) in *.
    assert (E2 : dget (act s2) i = dget (act s) i).
    { subst s2. simpl. msimp. rewrite (id_eqb_neq ex i) by assumption. congruence. }
    rewrite <- E2. apply J_install; auto.
    intros j Hj. subst s2. simpl in Hj. msimp. rewrite Hwn in Hj. msimp. discriminate.
Qed.

Lemma J_step : forall fx s i, J s -> J (step fx s i).
Proof.
  intros. unfold step. destruct (dget (pend s) i) as [[w|]|]; auto using J_step_upd, J_step_rem.
Qed.

Lemma J_resolve : forall fx fuel sched s, J s -> J (resolve fx fuel sched s).
Proof.
  induction fuel as [|f IH]; intros; simpl; auto.
  destruct (pend s); auto. apply IH. apply J_step. assumption.
Qed.

Lemma J_fold_on_update : forall ops s, J s -> J (fold_left on_update ops s).
Proof. induction ops; simpl; intros; auto. apply IHops. apply J_on_update. assumption. Qed.

Lemma J_apply_batch : forall fx sched s ops, J s -> J (apply_batch fx sched s ops).
Proof. intros. unfold apply_batch. apply J_resolve. apply J_fold_on_update. assumption. Qed.

Lemma J_run : forall fx bs s, J s -> J (run fx s bs).
Proof.
  induction bs as [|[ops sched] t IH]; simpl; intros; auto. apply IH. apply J_apply_batch. assumption.
Qed.

(* ---------- statements used by Props.v (part 1) ---------- *)
Lemma J_reach : forall fx bs, J (run fx st0 bs).
Proof. intros. apply J_run. apply J_st0. Qed.

Lemma one_endpoint_per_iface :
  forall fx bs, let s := run fx st0 bs in
    (forall i j wi wj, dget (act s) i = Some wi -> dget (act s) j = Some wj -> e_if wi = e_if wj -> i = j)
    /\ (forall n i, iget (o_ids (observe s)) n = Some i <-> exists w, dget (act s) i = Some w /\ e_if w = n)
    /\ (forall n c, iget (o_tw (observe s)) n = Some c ->
                    exists i w, iget (o_ids (observe s)) n = Some i /\ dget (act s) i = Some w /\ e_if w = n /\ c = render w).
Proof.
  intros. pose proof (J_reach fx bs) as HJ. fold s in HJ. pose proof HJ as [H1 H2 H3 H4].
  split; [|split].
  - intros. eapply J_unique; eauto.
  - intros. simpl. apply H1.
  - intros n c Hc. simpl in *. rewrite H3 in Hc.
    destruct (iget (i2id s) n) as [i|] eqn:Hi; [|discriminate].
    destruct (dget (act s) i) as [w|] eqn:Hw; [|discriminate]. simpl in Hc. inversion Hc; subst.
    exists i, w. repeat split; auto.
    apply H1 in Hi. destruct Hi as [w' [Hw' Hn]]. congruence.
Qed.

Lemma routes_only_admin_up :
  forall fx bs n r, let s := run fx st0 bs in
    iget (o_routes (observe s)) n = Some r ->
    exists i w, iget (o_ids (observe s)) n = Some i /\ dget (act s) i = Some w /\ e_if w = n
                /\ e_up w = true /\ r = e_ips w /\ r <> [].
Proof.
  intros fx bs n r s Hr. pose proof (J_reach fx bs) as HJ. fold s in HJ. pose proof HJ as [H1 H2 H3 H4].
  simpl in *. rewrite H4 in Hr.
  destruct (iget (i2id s) n) as [i|] eqn:Hi; [|discriminate].
  destruct (dget (act s) i) as [w|] eqn:Hw; [|discriminate].
  unfold routes_for in Hr. destruct (e_up w) eqn:Hu; [|discriminate].
  destruct (e_ips w) as [|a t] eqn:Hips; [discriminate|]. inversion Hr; subst.
  exists i, w. repeat split; auto; try congruence.
  apply H1 in Hi. destruct Hi as [w' [Hw' Hn]]. congruence.
Qed.
