(* C41 — the specification oracle of Spec.v accepts every run of the model (all histories, both IP versions). *)
From Coq Require Import List NArith ZArith Bool Permutation Lia Sorted.
From Verif.Common Require Import Packet Ipt.
From Verif.C41 Require Import Model Spec ProofsRule ProofsSet.
Import ListNotations.
Open Scope N_scope.

(* ------------------------------------------------------------------ sorting and support *)
Lemma insert_sorted_In : forall a x l, In a (insert_sorted x l) <-> a = x \/ In a l.
Proof.
  intros a x l. induction l as [|y l IH]; cbn [insert_sorted In].
  - intuition.
  - destruct (N.leb x y); cbn [In]; [intuition|]. rewrite IH. intuition.
Qed.
Lemma sortN_In : forall a l, In a (sortN l) <-> In a l.
Proof.
  intros a l. induction l as [|x l IH]; cbn [sortN In]; [reflexivity|].
  rewrite insert_sorted_In, IH. intuition.
Qed.

Lemma insert_sorted_sorted : forall x l, StronglySorted N.le l -> StronglySorted N.le (insert_sorted x l).
Proof.
  intros x l. induction l as [|y l IH]; intro H; cbn [insert_sorted].
  - constructor; constructor.
  - inversion H as [|? ? Hs Hf]; subst. destruct (N.leb_spec x y) as [Hle|Hlt].
    + constructor; [exact H|]. constructor; [exact Hle|].
      rewrite Forall_forall in *. intros z Hz. specialize (Hf z Hz). lia.
    + constructor; [apply IH; exact Hs|].
      rewrite Forall_forall in *. intros z Hz. apply insert_sorted_In in Hz. destruct Hz as [->|Hz]; [lia|apply Hf; exact Hz].
Qed.
Lemma sortN_sorted : forall l, StronglySorted N.le (sortN l).
Proof.
  induction l as [|x l IH]; cbn [sortN]; [constructor|apply insert_sorted_sorted; exact IH].
Qed.

Lemma dedup_cons2 : forall x y l,
  dedup_sorted (x :: y :: l) = if N.eqb x y then dedup_sorted (y :: l) else x :: dedup_sorted (y :: l).
Proof. reflexivity. Qed.

Lemma dedup_In : forall a l, In a (dedup_sorted l) <-> In a l.
Proof.
  intros a l. induction l as [|x l IH]; [reflexivity|].
  destruct l as [|y l]; [reflexivity|]. rewrite dedup_cons2.
  destruct (N.eqb_spec x y) as [->|Hne].
  - rewrite IH. cbn [In]. intuition.
  - cbn [In] in *. rewrite IH. reflexivity.
Qed.

Lemma dedup_strict : forall l, StronglySorted N.le l -> StronglySorted N.lt (dedup_sorted l).
Proof.
  induction l as [|x l IH]; intro H; [constructor|].
  destruct l as [|y l]; [constructor; constructor|]. rewrite dedup_cons2.
  inversion H as [|? ? Hs Hf]; subst. specialize (IH Hs).
  destruct (N.eqb_spec x y) as [->|Hne]; [exact IH|].
  constructor; [exact IH|]. rewrite Forall_forall in *. intros z Hz. apply (proj1 (dedup_In z (y :: l))) in Hz.
  pose proof (Hf y (or_introl eq_refl)) as Hxy.
  cbn [In] in Hz. destruct Hz as [<-|Hz]; [lia|].
  inversion Hs as [|? ? _ Hfy]; subst. rewrite Forall_forall in Hfy. specialize (Hfy z Hz). lia.
Qed.

Lemma strict_unique : forall l1 l2, StronglySorted N.lt l1 -> StronglySorted N.lt l2 ->
  (forall a, In a l1 <-> In a l2) -> l1 = l2.
Proof.
  induction l1 as [|x t1 IH]; intros l2 H1 H2 Hin.
  - destruct l2 as [|y t2]; [reflexivity|]. exfalso. apply (proj2 (Hin y)). left. reflexivity.
  - destruct l2 as [|y t2]; [exfalso; apply (proj1 (Hin x)); left; reflexivity|].
    inversion H1 as [|? ? Hs1 Hf1]; subst. inversion H2 as [|? ? Hs2 Hf2]; subst.
    rewrite Forall_forall in Hf1, Hf2.
    assert (x = y).
    { destruct (proj1 (Hin x) (or_introl eq_refl)) as [->|Hx]; [reflexivity|].
      destruct (proj2 (Hin y) (or_introl eq_refl)) as [->|Hy]; [reflexivity|].
      specialize (Hf1 y Hy). specialize (Hf2 x Hx). lia. }
    subst y. f_equal. apply IH; [exact Hs1|exact Hs2|].
    intro a. split; intro Ha.
    + destruct (proj1 (Hin a) (or_intror Ha)) as [<-|Ha']; [|exact Ha']. specialize (Hf1 x Ha). lia.
    + destruct (proj2 (Hin a) (or_intror Ha)) as [<-|Ha']; [|exact Ha']. specialize (Hf2 x Ha). lia.
Qed.

Lemma support_In : forall a l, In a (support l) <-> In a l.
Proof. intros. unfold support. rewrite dedup_In, sortN_In. reflexivity. Qed.

Lemma support_ext : forall l1 l2, (forall a, In a l1 <-> In a l2) -> support l1 = support l2.
Proof.
  intros l1 l2 H. apply strict_unique.
  - apply dedup_strict, sortN_sorted.
  - apply dedup_strict, sortN_sorted.
  - intro a. rewrite !support_In. apply H.
Qed.

Lemma list_eqb_N_refl : forall l : list N, list_eqb N.eqb l l = true.
Proof. induction l as [|x l IH]; [reflexivity|]. cbn [list_eqb]. rewrite N.eqb_refl, IH. reflexivity. Qed.

(* ------------------------------------------------------------------ the computable excluded list is the excluded set *)
Lemma wep_ids_In : forall h id e, In (WepUpdate id e) h -> In id (wep_ids h).
Proof. intros h id e H. unfold wep_ids. apply in_flat_map. exists (WepUpdate id e). split; [exact H|left; reflexivity]. Qed.
Lemma hep_ids_In : forall h id e, In (HepUpdate id e) h -> In id (hep_ids h).
Proof. intros h id e H. unfold hep_ids. apply in_flat_map. exists (HepUpdate id e). split; [exact H|left; reflexivity]. Qed.

Lemma excluded_list_In : forall ver h a, wf_history ver h = true ->
  (In a (excluded_list ver h) <-> excluded ver h a).
Proof.
  intros ver h a Hwf. unfold excluded_list, excluded. rewrite in_app_iff, !in_flat_map. split.
  - intros [[id [_ H]]|[id [_ H]]].
    + left. destruct (cur_wep id None h) as [w|] eqn:Ec; [|contradiction].
      destruct (wep_needs w) eqn:En; [|contradiction]. apply in_map_iff in H. destruct H as [n [<- Hn]].
      exists id, w, n. repeat split; auto. apply covers_single; [eapply wf_cur_wep; eauto|reflexivity].
    + right. destruct (cur_hep id None h) as [e|] eqn:Ec; [|contradiction].
      destruct (hep_needs e) eqn:En; [|contradiction]. apply in_map_iff in H. destruct H as [n [<- Hn]].
      exists id, e, n. repeat split; auto. apply covers_single; [eapply wf_cur_hep; eauto|reflexivity].
  - intros [[id [w [n [Hc [En [Hn Hcov]]]]]]|[id [e [n [Hc [En [Hn Hcov]]]]]]].
    + left. exists id. split.
      * destruct (cur_wep_origin _ _ _ _ Hc) as [?|Ho]; [discriminate|]. eapply wep_ids_In; eauto.
      * rewrite Hc, En. apply covers_single in Hcov; [|eapply wf_cur_wep; eauto]. subst a. apply in_map. exact Hn.
    + right. exists id. split.
      * destruct (cur_hep_origin _ _ _ _ Hc) as [?|Ho]; [discriminate|]. eapply hep_ids_In; eauto.
      * rewrite Hc, En. apply covers_single in Hcov; [|eapply wf_cur_hep; eauto]. subst a. apply in_map. exact Hn.
Qed.

(* ------------------------------------------------------------------ the oracle accepts the model *)
Lemma run_msg : forall ver st o r, o <> Flush -> run ver st (o :: r) = run ver (on_update ver st o) r.
Proof. intros ver st o r H. destruct o; try reflexivity. congruence. Qed.
Lemma ok_trace_from_msg : forall ver pre dp o r outs, o <> Flush ->
  ok_trace_from ver pre dp (o :: r) outs = ok_trace_from ver (o :: pre) dp r outs.
Proof. intros ver pre dp o r outs H. destruct o; try reflexivity. congruence. Qed.

Lemma model_meets_spec_from : forall ver h pre st dp,
  inv ver st (rev pre) -> dp_ok st dp -> wf_history ver (rev pre ++ h) = true ->
  ok_trace_from ver pre dp h (run ver st h) = true.
Proof.
  intros ver h. induction h as [|o h IH]; intros pre st dp Hi Hd Hwf; [reflexivity|].
  assert (Hwf' : wf_history ver (rev (o :: pre) ++ h) = true).
  { cbn [rev]. rewrite <- app_assoc. exact Hwf. }
  assert (Hwfp : wf_history ver (rev pre) = true).
  { rewrite wf_history_app in Hwf. apply andb_true_iff in Hwf. apply Hwf. }
  destruct o as [i e|i|i e|i| |].
  1-5: (rewrite run_msg, ok_trace_from_msg by discriminate; apply IH;
        [cbn [rev]; apply inv_step; exact Hi|apply dp_ok_step; exact Hd|exact Hwf']).
  (* Flush *)
  cbn [run ok_trace_from]. unfold complete, complete_with.
  pose proof (members_exact ver st (rev pre) Hi Hwfp _ _ (Permutation_refl _) (Permutation_refl _)) as Hex.
  destruct (s_dirty st) eqn:Ed; cbn [option_map].
  - (* dirty: the set is replaced *)
    apply andb_true_iff. split.
    + replace (support (sortN (members_in (s_wep st) (s_hep st)))) with (support (excluded_list ver (rev pre)));
        [apply list_eqb_N_refl|].
      apply support_ext. intro a. rewrite sortN_In, excluded_list_In by exact Hwfp. symmetry. apply Hex.
    + apply IH; [| |exact Hwf'].
      * cbn [rev]. destruct Hi as [Hw Hh Hwd Hhd]. split; cbn [s_wep s_hep]; intros; try assumption.
        -- rewrite cur_wep_app. cbn [cur_wep]. apply Hw.
        -- rewrite cur_hep_app. cbn [cur_hep]. apply Hh.
      * intros _. eexists. split; [reflexivity|]. cbn [s_wep s_hep]. intro a. apply sortN_In.
  - (* clean: nothing is written, the set written earlier is still exact *)
    destruct (Hd Ed) as [ms [-> Hms]]. apply andb_true_iff. split.
    + replace (support ms) with (support (excluded_list ver (rev pre))); [apply list_eqb_N_refl|].
      apply support_ext. intro a. rewrite Hms, excluded_list_In by exact Hwfp. symmetry. apply Hex.
    + apply IH; [| |exact Hwf'].
      * cbn [rev]. destruct Hi as [Hw Hh Hwd Hhd]. split; intros; try assumption.
        -- rewrite cur_wep_app. cbn [cur_wep]. apply Hw.
        -- rewrite cur_hep_app. cbn [cur_hep]. apply Hh.
      * intros _. exists ms. split; [reflexivity|exact Hms].
Qed.

Theorem model_meets_spec : forall ver h, ok_trace ver h (run ver init h) = true.
Proof.
  intros ver h. unfold ok_trace. destruct (wf_history ver h) eqn:Hwf; [|reflexivity].
  apply model_meets_spec_from; [apply inv_init|apply dp_ok_init|exact Hwf].
Qed.

(* ------------------------------------------------------------------ the programmed set *)
(* whatever trace the trace-oracle accepts, the IP set layer model turns into programmed sets the programmed-set oracle accepts *)
Lemma ok_trace_progs : forall ver h pre dp outs,
  ok_trace_from ver pre dp h outs = true -> ok_prog_from ver pre h (progs dp outs) = true.
Proof.
  intros ver h. induction h as [|o h IH]; intros pre dp outs H.
  - destruct outs; [reflexivity|discriminate].
  - destruct o as [i e|i|i e|i| |];
      try (rewrite ok_trace_from_msg in H by discriminate;
           match goal with |- ok_prog_from _ _ (?o :: _) _ = _ =>
             change (ok_prog_from ver (o :: pre) h (progs dp outs) = true) end; apply IH; exact H).
    cbn [ok_trace_from] in H. destruct outs as [|o outs]; [discriminate|].
    cbn [progs ok_prog_from]. apply andb_true_iff in H. destruct H as [H1 H2].
    destruct (match o with Some ms => Some ms | None => dp end) as [ms|] eqn:E; [|discriminate].
    cbn [option_map]. rewrite H1. cbn [andb]. apply IH. exact H2.
Qed.

Theorem model_meets_spec_programmed : forall ver h, ok_prog ver h (progs None (run ver init h)) = true.
Proof.
  intros ver h. pose proof (model_meets_spec ver h) as H. unfold ok_trace in H. unfold ok_prog.
  destruct (wf_history ver h); [|reflexivity]. apply ok_trace_progs. exact H.
Qed.

(* Prop-level: after CompleteDeferredWork + ApplyUpdates the kernel set is the duplicate-free ascending list of exactly
   the excluded addresses, for every execution (any map orders) *)
Theorem programmed_set_exact : forall ver h st dp,
  wf_history ver h = true -> exec ver init None (h ++ [Flush]) st dp ->
  exists ms, dp = Some ms
    /\ (forall a, In a (support ms) <-> excluded ver h a)
    /\ support ms = support (excluded_list ver h)
    /\ StronglySorted N.lt (support ms).
Proof.
  intros ver h st dp Hwf E. destruct (set_exact_after_flush _ _ _ _ Hwf E) as [ms [-> Hm]].
  exists ms. split; [reflexivity|]. split; [|split].
  - intro a. rewrite support_In. apply Hm.
  - apply support_ext. intro a. rewrite Hm, excluded_list_In by exact Hwf. reflexivity.
  - apply dedup_strict, sortN_sorted.
Qed.

(* Address change, spelled out (the shape of seeded/C41/exclusion-ips-reused-slice): an endpoint that is in the set is
   updated with other addresses (same count or not), nothing else happens, CompleteDeferredWork runs: every new address
   is programmed, and an old address stays only if some endpoint that needs the hooks currently has it. *)
Theorem address_change_programmed : forall ver h id w st dp,
  wf_history ver (h ++ [WepUpdate id (Some w)]) = true -> wep_needs w = true ->
  exec ver init None ((h ++ [WepUpdate id (Some w)]) ++ [Flush]) st dp ->
  exists ms, dp = Some ms
    /\ (forall n, In n (wep_nets ver w) -> In (fst n) (support ms))
    /\ (forall a, In a (support ms) -> excluded ver (h ++ [WepUpdate id (Some w)]) a).
Proof.
  intros ver h id w st dp Hwf Hn E.
  destruct (programmed_set_exact _ _ _ _ Hwf E) as [ms [-> [Hm _]]]. exists ms. split; [reflexivity|]. split.
  - intros n Hin. apply Hm. left. exists id, w, n. split.
    + rewrite cur_wep_app. cbn [cur_wep]. rewrite N.eqb_refl. reflexivity.
    + split; [exact Hn|]. split; [exact Hin|].
      apply covers_single; [|reflexivity].
      rewrite wf_history_app in Hwf. apply andb_true_iff in Hwf. destruct Hwf as [_ Hw].
      cbn [wf_history forallb wf_op] in Hw. rewrite andb_true_r in Hw. rewrite forallb_forall in Hw. apply Hw. exact Hin.
  - intros a Ha. apply Hm. exact Ha.
Qed.

(* ------------------------------------------------------------------ the flowtable object's devices *)
Lemma compact_dedup : forall l, compact l = dedup_sorted l.
Proof.
  induction l as [|x l IH]; [reflexivity|]. destruct l as [|y l]; [reflexivity|].
  change (compact (x :: y :: l)) with (if N.eqb x y then compact (y :: l) else x :: compact (y :: l)).
  rewrite dedup_cons2, IH. reflexivity.
Qed.

Lemma mem_In : forall d l, mem d l = true <-> In d l.
Proof.
  intros d l. unfold mem. rewrite existsb_exists. split.
  - intros [x [Hin Heq]]. apply N.eqb_eq in Heq. subst. exact Hin.
  - intro H. exists d. split; [exact H|apply N.eqb_refl].
Qed.

Theorem ft_devices_exact : forall ovl wl ext existing d,
  In d (ft_devices ovl wl ext existing) <-> (In d ovl \/ In d wl \/ In d ext) /\ In d existing.
Proof.
  intros. unfold ft_devices, prune_to_existing, recalc_flowtable_devices. rewrite filter_In, compact_dedup.
  fold (support (ovl ++ wl ++ ext)). rewrite support_In, !in_app_iff. fold (mem d existing). rewrite mem_In. tauto.
Qed.

Lemma filter_strict : forall (f : N -> bool) l, StronglySorted N.lt l -> StronglySorted N.lt (filter f l).
Proof.
  intros f l H. induction H as [|x l Hs IH Hf]; cbn [filter]; [constructor|].
  destruct (f x); [|exact IH]. constructor; [exact IH|].
  rewrite Forall_forall in *. intros z Hz. apply filter_In in Hz. apply Hf. apply Hz.
Qed.

Theorem ft_devices_sorted : forall ovl wl ext existing, StronglySorted N.lt (ft_devices ovl wl ext existing).
Proof.
  intros. unfold ft_devices, prune_to_existing, recalc_flowtable_devices. apply filter_strict.
  rewrite compact_dedup. apply dedup_strict, sortN_sorted.
Qed.

Lemma ok_ft_devs_model : forall ovl wl ext existing,
  ok_ft_devs ovl wl ext existing (ft_devices ovl wl ext existing) = true.
Proof.
  intros. unfold ok_ft_devs. apply andb_true_iff. split; apply forallb_forall; intros d Hd.
  - apply ft_devices_exact in Hd. destruct Hd as [Hu He].
    apply andb_true_iff. split; [apply mem_In; exact He|].
    destruct Hu as [H|[H|H]]; apply mem_In in H; rewrite H; rewrite ?orb_true_r; reflexivity.
  - destruct (mem d existing) eqn:E; [|reflexivity]. cbn [implb]. apply mem_In. apply ft_devices_exact.
    split; [|apply mem_In; exact E]. rewrite !in_app_iff in Hd. tauto.
Qed.

(* the whole check_case oracle accepts the model's own observables *)
Theorem model_case_ok : forall ver h nft enabled ovl wl ext existing,
  snd (check_case {| c_ver := ver; c_ops := h; c_outs := run ver init h; c_nft := nft; c_offload := enabled;
                     c_rules := static_offload_rules nft enabled; c_limits := [];
                     c_prog := progs None (run ver init h); c_krule := Some offload_rule;
                     c_ft_declared := ft_declared_after_apply true; c_ft_devs := ft_devices ovl wl ext existing;
                     c_dev_in := (ovl, wl, ext, existing) |}) = true.
Proof.
  intros ver h nft enabled ovl wl ext existing. unfold check_case.
  cbn [snd c_ver c_ops c_outs c_rules c_limits c_prog c_krule c_ft_declared c_ft_devs c_dev_in].
  rewrite model_meets_spec, model_meets_spec_programmed. unfold ok_kernel.
  rewrite ok_rule_offload_rule, ok_ft_devs_model. cbn [ft_declared_after_apply andb ok_limits forallb].
  unfold static_offload_rules. destruct (nft && enabled); [|reflexivity].
  cbn [ok_rules forallb l_rule]. rewrite ok_rule_offload_rule. reflexivity.
Qed.

(* ------------------------------------------------------------------ the member multiset does not depend on the iteration order *)
Lemma insert_sorted_comm : forall x y l, insert_sorted x (insert_sorted y l) = insert_sorted y (insert_sorted x l).
Proof.
  intros x y l. induction l as [|z l IH]; cbn [insert_sorted].
  - destruct (N.leb_spec x y), (N.leb_spec y x); try reflexivity; try lia.
    assert (x = y) by lia. subst. reflexivity.
  - destruct (N.leb_spec y z) as [Hyz|Hyz], (N.leb_spec x z) as [Hxz|Hxz]; cbn [insert_sorted].
    + destruct (N.leb_spec x y), (N.leb_spec y x), (N.leb_spec x z), (N.leb_spec y z); try reflexivity; try lia.
      assert (x = y) by lia. subst. reflexivity.
    + destruct (N.leb_spec x y), (N.leb_spec y z), (N.leb_spec x z); try reflexivity; lia.
    + destruct (N.leb_spec y x), (N.leb_spec y z), (N.leb_spec x z); try reflexivity; lia.
    + destruct (N.leb_spec y z), (N.leb_spec x z); try lia. rewrite IH. reflexivity.
Qed.

Lemma sortN_perm : forall l1 l2, Permutation l1 l2 -> sortN l1 = sortN l2.
Proof.
  intros l1 l2 P. induction P; cbn [sortN].
  - reflexivity.
  - rewrite IHP. reflexivity.
  - apply insert_sorted_comm.
  - congruence.
Qed.

Theorem members_order_independent : forall st ow oh,
  Permutation ow (s_wep st) -> Permutation oh (s_hep st) ->
  sortN (members_in ow oh) = sortN (members_in (s_wep st) (s_hep st)).
Proof.
  intros st ow oh Pw Ph. apply sortN_perm. unfold members_in.
  apply Permutation_app; apply Permutation_flat_map; assumption.
Qed.
