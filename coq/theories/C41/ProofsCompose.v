(* C41 — set and rule together: with the set the manager wrote in the dataplane, the rendered rule never offloads a
   flow from or to an endpoint that needs per-packet processing. *)
From Coq Require Import List NArith ZArith Bool Permutation.
From Verif.Common Require Import Packet Ipt.
From Verif.C41 Require Import Model Spec ProofsRule ProofsSet.
Import ListNotations.
Open Scope N_scope.

(* the dataplane's IP sets when the no-flow-offload set holds the members ms (hash:ip) and everything else is arbitrary *)
Definition env_with_set (ms : list N) (others : ipsets) (oth : N -> packet -> bool) : env :=
  {| e_sets := fun id m => if N.eqb id NO_OFFLOAD_SET
                           then match m with MemIP a => existsb (N.eqb a) ms | _ => false end
                           else others id m;
     e_other := oth |}.

Lemma existsb_eqb_false : forall a ms, existsb (N.eqb a) ms = false -> ~ In a ms.
Proof.
  intros a ms H Hin. assert (existsb (N.eqb a) ms = true); [|congruence].
  apply existsb_exists. exists a. split; [exact Hin|apply N.eqb_refl].
Qed.

Theorem no_bypass : forall ver h st dp,
  wf_history ver h = true -> exec ver init None (h ++ [Flush]) st dp ->
  exists ms, dp = Some ms /\
  forall others oth p,
    rule_offloads (env_with_set ms others oth) p offload_rule = true ->
    already_established p = true /\ ~ excluded ver h (pk_src p) /\ ~ excluded ver h (pk_dst p).
Proof.
  intros ver h st dp Hwf E. destruct (set_exact_after_flush _ _ _ _ Hwf E) as [ms [-> Hm]].
  exists ms. split; [reflexivity|]. intros others oth p Ho.
  apply offload_rule_never_bypasses in Ho. destruct Ho as [Hc [Hs Hd]].
  cbn [env_with_set e_sets] in Hs, Hd. rewrite N.eqb_refl in Hs, Hd.
  split; [unfold already_established; destruct Hc as [-> | ->]; reflexivity|].
  split; intro Hx; apply Hm in Hx; [apply (existsb_eqb_false _ _ Hs)|apply (existsb_eqb_false _ _ Hd)]; exact Hx.
Qed.
