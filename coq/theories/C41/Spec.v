(* C41 — specification: what the property text says, independent of the manager's maps and dirty flag.

   "After any sequence of endpoint updates, the set excluded from nftables flow offload contains exactly the
    current addresses of every workload and host endpoint with DSCP marking or a connection or packet rate limit,
    and the offload rule never offloads a flow whose source or destination is in that set or that is not already
    established."

   * the datastore view is the last message per endpoint id (`cur_wep`, `cur_hep`: a fold of the history);
   * an endpoint "needs per-packet processing" by the words of the property (`wep_needs`, `hep_needs`);
   * `excluded ver h a` : address a of IP version ver must be in the set after history h;
   * `guard` : the only packets whose flow may be offloaded. *)
From Coq Require Import List NArith ZArith Bool.
From Verif.Common Require Import Packet Ipt.
From Verif.C41 Require Import Model.
Import ListNotations.
Open Scope N_scope.

(* ------------------------------------------------------------------ the datastore view: last writer wins *)
Fixpoint cur_wep (id : N) (acc : option wep) (h : list op) : option wep :=
  match h with
  | [] => acc
  | WepUpdate i e :: r => cur_wep id (if N.eqb i id then e else acc) r
  | WepRemove i :: r => cur_wep id (if N.eqb i id then None else acc) r
  | _ :: r => cur_wep id acc r
  end.
Fixpoint cur_hep (id : N) (acc : option hep) (h : list op) : option hep :=
  match h with
  | [] => acc
  | HepUpdate i e :: r => cur_hep id (if N.eqb i id then Some e else acc) r
  | HepRemove i :: r => cur_hep id (if N.eqb i id then None else acc) r
  | _ :: r => cur_hep id acc r
  end.

(* ------------------------------------------------------------------ which endpoints need the forward hooks *)
Definition has_dscp_marking (n_policies : nat) : bool := negb (Nat.eqb n_policies 0).
Definition has_connection_limit (q : qos) : bool := negb (Z.eqb (q_iconn q) 0) || negb (Z.eqb (q_econn q) 0).
Definition has_packet_rate_limit (q : qos) : bool := negb (Z.eqb (q_iprate q) 0) || negb (Z.eqb (q_eprate q) 0).
Definition wep_needs (w : wep) : bool :=
  has_dscp_marking (w_dscp w)
  || match w_qos w with Some q => has_connection_limit q || has_packet_rate_limit q | None => false end.
Definition hep_needs (e : hep) : bool := has_dscp_marking (h_dscp e).

(* ------------------------------------------------------------------ addresses of an endpoint *)
(* address x lies in the net (a, len); no length = a host address *)
Definition covers (ver : ipver) (n : net) (x : N) : bool :=
  match snd n with
  | None => N.eqb x (fst n)
  | Some len => N.eqb (N.shiftr x (addr_width ver - len)) (N.shiftr (fst n) (addr_width ver - len))
  end.
(* what Felix can receive: workload IPNetworks are validated to hold a single address (/32, /128); expected IPs of a
   host endpoint carry no mask *)
Definition single_address (ver : ipver) (n : net) : bool :=
  match snd n with None => true | Some len => N.eqb len (addr_width ver) end.
Definition wf_op (ver : ipver) (o : op) : bool :=
  match o with
  | WepUpdate _ (Some w) => forallb (single_address ver) (wep_nets ver w)
  | HepUpdate _ e => forallb (single_address ver) (hep_nets ver e)
  | _ => true
  end.
Definition wf_history (ver : ipver) (h : list op) : bool := forallb (wf_op ver) h.

(* a must be excluded from flow offload after history h *)
Definition excluded (ver : ipver) (h : list op) (a : N) : Prop :=
  (exists id w n, cur_wep id None h = Some w /\ wep_needs w = true /\ In n (wep_nets ver w) /\ covers ver n a = true)
  \/ (exists id e n, cur_hep id None h = Some e /\ hep_needs e = true /\ In n (hep_nets ver e) /\ covers ver n a = true).

(* ------------------------------------------------------------------ the same, computably (for the oracle) *)
Definition wep_ids (h : list op) : list N :=
  flat_map (fun o => match o with WepUpdate i _ => [i] | _ => [] end) h.
Definition hep_ids (h : list op) : list N :=
  flat_map (fun o => match o with HepUpdate i _ => [i] | _ => [] end) h.

Definition excluded_list (ver : ipver) (h : list op) : list N :=
  flat_map (fun id => match cur_wep id None h with
                      | Some w => if wep_needs w then map fst (wep_nets ver w) else []
                      | None => [] end) (wep_ids h)
  ++ flat_map (fun id => match cur_hep id None h with
                         | Some e => if hep_needs e then map fst (hep_nets ver e) else []
                         | None => [] end) (hep_ids h).

Fixpoint dedup_sorted (l : list N) : list N :=
  match l with
  | [] => []
  | x :: l' => match l' with
               | [] => [x]
               | y :: _ => if N.eqb x y then dedup_sorted l' else x :: dedup_sorted l'
               end
  end.
(* the support of a member list, canonically *)
Definition support (l : list N) : list N := dedup_sorted (sortN l).

(* Oracle over an observed trace: `outs` holds one entry per Flush of `h` (None = the manager made no
   AddOrReplaceIPSet call, Some ms = it replaced the set's members by ms).  At every Flush the set the dataplane
   now holds (the latest replacement) must exist and have exactly the excluded addresses of the history so far.
   `pre` is the reversed history already processed, `dp` the latest replacement. *)
Fixpoint ok_trace_from (ver : ipver) (pre : list op) (dp : option (list N)) (h : list op) (outs : list (option (list N))) : bool :=
  match h with
  | [] => match outs with [] => true | _ => false end
  | Flush :: r =>
      match outs with
      | [] => false
      | o :: outs' =>
          let dp' := match o with Some ms => Some ms | None => dp end in
          match dp' with
          | None => false
          | Some ms => list_eqb N.eqb (support ms) (support (excluded_list ver (rev pre)))
          end && ok_trace_from ver (Flush :: pre) dp' r outs'
      end
  | o :: r => ok_trace_from ver (o :: pre) dp r outs
  end.
(* histories outside what Felix can receive (multi-address nets) are not judged *)
Definition ok_trace (ver : ipver) (h : list op) (outs : list (option (list N))) : bool :=
  if wf_history ver h then ok_trace_from ver [] None h outs else true.

(* ------------------------------------------------------------------ the offload rule *)
(* "already established": conntrack says the packet belongs to, or is related to, a connection that was accepted
   before.  Felix treats the two states alike everywhere (every endpoint chain accepts RELATED,ESTABLISHED before any
   policy), felix/design/dataplane.md states the rule as "matches RELATED,ESTABLISHED only, so NEW and INVALID packets
   still traverse policy".  NEW, INVALID and UNTRACKED packets must never be offloaded. *)
Definition already_established (p : packet) : bool :=
  match pk_ct p with CtEstablished | CtRelated => true | CtNew | CtInvalid | CtUntracked => false end.

(* the only packets whose flow may be handed to the flowtable, given the dataplane's IP sets *)
Definition guard (e : env) (p : packet) : bool :=
  already_established p
  && negb (e_sets e NO_OFFLOAD_SET (src_member p))
  && negb (e_sets e NO_OFFLOAD_SET (dst_member p)).

Definition rule_guarded (r : orule) : Prop :=
  forall e p, rule_offloads e p r = true -> guard e p = true.

(* Boolean oracle for a rendered rule: try it on representative packets and set contents.
   Addresses 100 and 101 are in the no-offload set, 200 is not; every other set is either empty or full;
   out-of-packet matches (MOther) are either all true or all false. *)
Definition rep_packet (ct : ctstate) (src dst : N) (ver : ipver) : packet :=
  {| pk_ver := ver; pk_proto := 6; pk_src := src; pk_dst := dst; pk_sport := 1000; pk_dport := 80;
     pk_icmp_type := 0; pk_icmp_code := 0; pk_in := [99;97;108;105;49]; pk_out := [99;97;108;105;50];
     pk_ct := ct; pk_mark := 0 |}.
Definition rep_env (others : bool) : env :=
  {| e_sets := fun id m => if N.eqb id NO_OFFLOAD_SET
                           then match m with MemIP a => N.eqb a 100 || N.eqb a 101 | _ => false end
                           else others;
     e_other := fun _ _ => others |}.
Definition rep_packets (ver : ipver) : list packet :=
  flat_map (fun ct => flat_map (fun s => map (fun d => rep_packet ct s d ver) [100; 101; 200]) [100; 101; 200])
           [CtNew; CtEstablished; CtRelated; CtInvalid; CtUntracked].
Definition ok_rule (ver : ipver) (r : orule) : bool :=
  forallb (fun others =>
    forallb (fun p => implb (rule_offloads (rep_env others) p r) (guard (rep_env others) p)) (rep_packets ver))
    [false; true].
Definition ok_rules (ver : ipver) (rs : list located) : bool := forallb (fun l => ok_rule ver (l_rule l)) rs.

(* ------------------------------------------------------------------ the programmed set *)
(* Model of the IP set layer (felix/nftables/ipsets.go AddOrReplaceIPSet + ApplyUpdates) for one hash:ip set: after
   ApplyUpdates the kernel set holds the support of the latest replacement (members canonicalised, duplicates merged);
   with no replacement so far the set does not exist.  `progs dp outs` = the kernel set after each Flush, given the
   AddOrReplaceIPSet calls `outs` the manager made at the Flushes and the replacement `dp` pending from before. *)
Fixpoint progs (dp : option (list N)) (outs : list (option (list N))) : list (option (list N)) :=
  match outs with
  | [] => []
  | o :: r => let dp' := match o with Some ms => Some ms | None => dp end in
              option_map support dp' :: progs dp' r
  end.

(* Oracle: after every CompleteDeferredWork + ApplyUpdates the set the rule names exists in the kernel and holds
   exactly the excluded addresses of the history so far. *)
Fixpoint ok_prog_from (ver : ipver) (pre : list op) (h : list op) (ps : list (option (list N))) : bool :=
  match h with
  | [] => match ps with [] => true | _ => false end
  | Flush :: r =>
      match ps with
      | [] => false
      | p :: ps' =>
          match p with
          | None => false
          | Some l => list_eqb N.eqb l (support (excluded_list ver (rev pre)))
          end && ok_prog_from ver (Flush :: pre) r ps'
      end
  | o :: r => ok_prog_from ver (o :: pre) r ps
  end.
Definition ok_prog (ver : ipver) (h : list op) (ps : list (option (list N))) : bool :=
  if wf_history ver h then ok_prog_from ver [] h ps else true.

(* ------------------------------------------------------------------ what the kernel holds: rule and flowtable object *)
(* the rule as programmed must be guarded, the flowtable it names must exist (else nft rejects the transaction and the whole
   table is lost: felix/design/dataplane.md), and the flowtable names exactly the offered devices that exist *)
Definition mem (d : N) (l : list N) : bool := existsb (N.eqb d) l.
Definition ok_ft_devs (ovl wl ext existing devs : list N) : bool :=
  forallb (fun d => mem d existing && (mem d ovl || mem d wl || mem d ext)) devs
  && forallb (fun d => implb (mem d existing) (mem d devs)) (ovl ++ wl ++ ext).
Definition ok_kernel (ver : ipver) (kr : option orule) (declared : bool) (devs : list N)
                     (din : list N * list N * list N * list N) : bool :=
  let '(ovl, wl, ext, existing) := din in
  match kr with Some r => ok_rule ver r | None => false end
  && declared && ok_ft_devs ovl wl ext existing devs.

(* ------------------------------------------------------------------ one correspondence case *)
Record case := {
  c_ver : ipver;                            (* IP version of the manager / of the rendered chains *)
  c_ops : list op;                          (* the history handed to the real manager *)
  c_outs : list (option (list N));          (* per Flush: the AddOrReplaceIPSet call it made (members sorted), if any *)
  c_nft : bool;                             (* renderer constructed for nftables *)
  c_offload : bool;                         (* Config.NFTablesFlowTableOffload *)
  c_rules : list located;                   (* every rendered static rule carrying a flow-offload statement, parsed *)
  c_limits : list (option qos * bool);      (* per workload update: its QoSControls, and whether the REAL renderer put a
                                               packet-rate or connection-limit rule into the endpoint's filter chains *)
  c_prog : list (option (list N));          (* per Flush: the elements of the set THE RULE NAMES in the (fake) kernel after the
                                               REAL felix/nftables.IPSets applied the manager's calls (ascending; None = no such set) *)
  c_krule : option orule;                   (* the flow-offload rule read back from cali-FORWARD of the same fake kernel after the REAL
                                               nftables.NftablesTable programmed the real rendered rule (None = no such rule) *)
  c_ft_declared : bool;                     (* the flowtable that rule names exists in the fake kernel after Apply() *)
  c_ft_devs : list N;                       (* the devices of that flowtable object *)
  c_dev_in : list N * list N * list N * list N   (* SetOverlayDevices / SetWorkloadInterfaces / SetExternalDevices arguments and the
                                                    interfaces the kernel has (ListInterfaces) *)
}.

(* the property's words "a connection or packet rate limit" denote exactly the controls for which Felix renders a limit
   rule into the endpoint's filter chains (the rules an offloaded flow would skip) *)
Definition ok_limits (l : list (option qos * bool)) : bool :=
  forallb (fun qb => Bool.eqb (match fst qb with
                               | Some q => has_connection_limit q || has_packet_rate_limit q
                               | None => false end) (snd qb)) l.

Definition check_case (c : case) : bool * bool :=
  (outs_eqb (run (c_ver c) init (c_ops c)) (c_outs c)
   && list_eqb located_eqb (static_offload_rules (c_nft c) (c_offload c)) (c_rules c)
   && outs_eqb (progs None (c_outs c)) (c_prog c)
   && opt_eqb orule_eqb (Some offload_rule) (c_krule c)
   && Bool.eqb (ft_declared_after_apply true) (c_ft_declared c)
   && (let '(ovl, wl, ext, existing) := c_dev_in c in list_eqb N.eqb (ft_devices ovl wl ext existing) (c_ft_devs c)),
   ok_trace (c_ver c) (c_ops c) (c_outs c) && ok_rules (c_ver c) (c_rules c) && ok_limits (c_limits c)
   && ok_prog (c_ver c) (c_ops c) (c_prog c)
   && ok_kernel (c_ver c) (c_krule c) (c_ft_declared c) (c_ft_devs c) (c_dev_in c)).
