(* C41 — executable model of felix/dataplane/linux/flowtable_mgr.go (flowtableExclusionManager) and of the
   flow-offload rule rendered by felix/rules/static.go StaticFilterForwardChains.  Definitions only.

   Go                                             here
   ---------------------------------------------  ------------------------------------------------
   wepIPs map[WorkloadEndpointID][]string          s_wep : association list id -> stripped addresses
   hepIPs map[HostEndpointID][]string              s_hep
   dirty                                           s_dirty
   OnUpdate(msg)                                   on_update ver st op
   workloadNeedsForwardHooks                       wep_needs_forward_hooks
   stripSubnetMasks                                strip_subnet_masks
   CompleteDeferredWork                            complete_with / complete
   range over the two maps (any order)             the order is a parameter of complete_with
   AddOrReplaceIPSet(meta, members)                the `Some members` output of a Flush

   Endpoint ids are numbers (the driver interns the id structs); an address is the numeric value of the IP
   (what the IP set layer canonicalises a member string to); a net is (address, optional prefix length),
   i.e. the text "a.b.c.d/len" or "a.b.c.d". *)
From Coq Require Import List NArith ZArith Bool.
From Verif.Common Require Import Packet Ipt.
Import ListNotations.
Open Scope N_scope.

(* ------------------------------------------------------------------ messages *)
(* proto.QoSControls, fields in proto field-number order *)
Record qos := QC {
  q_ibw : Z; q_ebw : Z; q_iburst : Z; q_eburst : Z;
  q_iprate : Z; q_eprate : Z; q_iconn : Z; q_econn : Z;
  q_ipeak : Z; q_epeak : Z; q_iminb : Z; q_eminb : Z;
  q_ipburst : Z; q_epburst : Z }.

Definition net := (N * option N)%type.

(* the fields of proto.WorkloadEndpoint / proto.HostEndpoint the manager reads *)
Record wep := WEP { w_v4 : list net; w_v6 : list net; w_dscp : nat (* len(QosPolicies) *); w_qos : option qos }.
Record hep := HEP { h_v4 : list net; h_v6 : list net; h_dscp : nat }.

Inductive op :=
| WepUpdate (id : N) (e : option wep)    (* *proto.WorkloadEndpointUpdate; None = nil Endpoint *)
| WepRemove (id : N)
| HepUpdate (id : N) (e : hep)           (* *proto.HostEndpointUpdate (Endpoint non-nil: the calc graph always fills it) *)
| HepRemove (id : N)
| Other                                  (* any other message type: ignored by the type switch *)
| Flush.                                 (* CompleteDeferredWork *)

(* ------------------------------------------------------------------ maps as association lists *)
Definition amap := list (N * list N).
Definition ahas (k : N) (m : amap) : bool := existsb (fun e => N.eqb (fst e) k) m.
Definition aremove (k : N) (m : amap) : amap := filter (fun e => negb (N.eqb (fst e) k)) m.
Definition aset (k : N) (v : list N) (m : amap) : amap := (k, v) :: aremove k m.
Fixpoint aget (k : N) (m : amap) : option (list N) :=
  match m with
  | [] => None
  | (k', v) :: m' => if N.eqb k' k then Some v else aget k m'
  end.

Record state := { s_wep : amap; s_hep : amap; s_dirty : bool }.
Definition init : state := {| s_wep := []; s_hep := []; s_dirty := true |}.

(* ------------------------------------------------------------------ the manager *)
Definition znz (z : Z) : bool := negb (Z.eqb z 0).

Definition wep_needs_forward_hooks (e : option wep) : bool :=
  match e with
  | None => false
  | Some w =>
      if Nat.ltb 0 (w_dscp w) then true else
      match w_qos w with
      | None => false
      | Some q => znz (q_iconn q) || znz (q_econn q) || znz (q_iprate q) || znz (q_eprate q)
      end
  end.

Definition strip_subnet_masks (nets : list net) : list N := map fst nets.

Definition remove_workload (id : N) (st : state) : state :=
  if ahas id (s_wep st) then {| s_wep := aremove id (s_wep st); s_hep := s_hep st; s_dirty := true |} else st.
Definition remove_host (id : N) (st : state) : state :=
  if ahas id (s_hep st) then {| s_wep := s_wep st; s_hep := aremove id (s_hep st); s_dirty := true |} else st.

Definition wep_nets (ver : ipver) (w : wep) : list net := match ver with V4 => w_v4 w | V6 => w_v6 w end.
Definition hep_nets (ver : ipver) (e : hep) : list net := match ver with V4 => h_v4 e | V6 => h_v6 e end.

Definition on_update (ver : ipver) (st : state) (o : op) : state :=
  match o with
  | WepUpdate id e =>
      if wep_needs_forward_hooks e then
        match e with
        | Some w => {| s_wep := aset id (strip_subnet_masks (wep_nets ver w)) (s_wep st); s_hep := s_hep st; s_dirty := true |}
        | None => st   (* unreachable: needs(None) = false *)
        end
      else remove_workload id st
  | WepRemove id => remove_workload id st
  | HepUpdate id e =>
      if Nat.eqb (h_dscp e) 0 then remove_host id st
      else {| s_wep := s_wep st; s_hep := aset id (strip_subnet_masks (hep_nets ver e)) (s_hep st); s_dirty := true |}
  | HepRemove id => remove_host id st
  | Other | Flush => st
  end.

(* members appended while ranging over the two maps in the orders `ow`, `oh` *)
Definition members_in (ow oh : amap) : list N := flat_map snd ow ++ flat_map snd oh.

(* CompleteDeferredWork with the iteration orders made explicit: `ow`/`oh` are meant to be permutations of the maps *)
Definition complete_with (ow oh : amap) (st : state) : state * option (list N) :=
  if s_dirty st then ({| s_wep := s_wep st; s_hep := s_hep st; s_dirty := false |}, Some (members_in ow oh))
  else (st, None).
Definition complete (st : state) : state * option (list N) := complete_with (s_wep st) (s_hep st) st.

(* ------------------------------------------------------------------ canonical form of a member list *)
Fixpoint insert_sorted (x : N) (l : list N) : list N :=
  match l with
  | [] => [x]
  | y :: l' => if N.leb x y then x :: l else y :: insert_sorted x l'
  end.
Fixpoint sortN (l : list N) : list N :=
  match l with [] => [] | x :: l' => insert_sorted x (sortN l') end.

(* ------------------------------------------------------------------ running a history *)
(* one output per Flush: None = no AddOrReplaceIPSet call, Some l = the call's member list, sorted (a multiset) *)
Fixpoint run (ver : ipver) (st : state) (ops : list op) : list (option (list N)) :=
  match ops with
  | [] => []
  | Flush :: r => let '(st', out) := complete st in option_map sortN out :: run ver st' r
  | o :: r => run ver (on_update ver st o) r
  end.

(* the state after a history (deterministic order; the order never influences the state) *)
Fixpoint state_after (ver : ipver) (st : state) (ops : list op) : state :=
  match ops with
  | [] => st
  | Flush :: r => state_after ver (fst (complete st)) r
  | o :: r => state_after ver (on_update ver st o) r
  end.

(* ------------------------------------------------------------------ the rendered offload rule *)
(* Rules use the match vocabulary and match semantics of Common/Ipt.v.  `flow offload @ft` (nftables `flow add`) is
   a statement, not a verdict: the flow is handed to the flowtable and rule evaluation continues. *)
Inductive oaction := OFlowOffload.
Record orule := { or_match : list pmatch; or_action : oaction }.

(* the rule hands packet p's flow to the flowtable *)
Definition rule_offloads (e : env) (p : packet) (r : orule) : bool :=
  match or_action r with OFlowOffload => matches e p (or_match r) end.

(* set id 1 = the IP set the manager writes (the driver interns the nftables set name derived from the
   manager's IPSetMetadata.SetID as 1, any other set name as >= 2) *)
Definition NO_OFFLOAD_SET : N := 1.

Definition offload_rule : orule :=
  {| or_match := [MCtState false [CtRelated; CtEstablished];
                  MSrcIpSet true NO_OFFLOAD_SET;
                  MDstIpSet true NO_OFFLOAD_SET];
     or_action := OFlowOffload |}.

(* every rule with a flow-offload statement in the static chains of all tables, with where it was found *)
Record located := { l_forward : bool (* in the filter table's cali-FORWARD chain *); l_index : nat; l_rule : orule }.

(* DefaultRuleRenderer with Config.NFTablesFlowTableOffload = enabled, constructed for nftables or not *)
Definition static_offload_rules (nft enabled : bool) : list located :=
  if nft && enabled then [ {| l_forward := true; l_index := 0%nat; l_rule := offload_rule |} ] else [].

Definition orule_eqb (a b : orule) : bool := list_eqb pmatch_eqb (or_match a) (or_match b).
Definition located_eqb (a b : located) : bool :=
  Bool.eqb (l_forward a) (l_forward b) && Nat.eqb (l_index a) (l_index b) && orule_eqb (l_rule a) (l_rule b).

Definition outs_eqb : list (option (list N)) -> list (option (list N)) -> bool :=
  list_eqb (opt_eqb (list_eqb N.eqb)).

(* ------------------------------------------------------------------ the flowtable object (felix/nftables/table.go) *)
(* slices.Compact: drop consecutive duplicates *)
Fixpoint compact (l : list N) : list N :=
  match l with
  | [] => []
  | x :: l' => match l' with
               | [] => [x]
               | y :: _ => if N.eqb x y then compact l' else x :: compact l'
               end
  end.
(* recalcFlowtableDevices: overlay ++ workload ++ external, sort.Strings, slices.Compact.  Device names are numbers whose
   order is the string order of the names (the driver numbers its device universe in string order). *)
Definition recalc_flowtable_devices (ovl wl ext : list N) : list N := compact (sortN (ovl ++ wl ++ ext)).
(* pruneToExistingDevices with a working interface lister: keep the devices the kernel has, in order *)
Definition prune_to_existing (existing devices : list N) : list N :=
  filter (fun d => existsb (N.eqb d) existing) devices.
(* the devices of the flowtable object Apply() writes after the three setters were called *)
Definition ft_devices (ovl wl ext existing : list N) : list N :=
  prune_to_existing existing (recalc_flowtable_devices ovl wl ext).
(* enableFlowtable: the first setter call turns offload on for the table; Apply() then creates the flowtable object even
   with an empty device list, so the FORWARD rule that names it never dangles *)
Definition ft_declared_after_apply (setter_called : bool) : bool := setter_called.
