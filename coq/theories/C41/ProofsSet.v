(* C41 — the exclusion set is exact after every history, for every map iteration order. *)
From Coq Require Import List NArith ZArith Bool Permutation Lia.
From Verif.Common Require Import Packet Ipt.
From Verif.C41 Require Import Model Spec.
Import ListNotations.
Open Scope N_scope.

Ltac eqbs :=
  repeat match goal with
         | |- context[N.eqb ?a ?b] => destruct (N.eqb_spec a b)
         | H : context[N.eqb ?a ?b] |- _ => destruct (N.eqb_spec a b)
         end; subst; try congruence; try reflexivity.

(* ------------------------------------------------------------------ association lists *)
Lemma aget_aremove : forall k i m, aget k (aremove i m) = if N.eqb i k then None else aget k m.
Proof.
  intros k i m. induction m as [|[k' v] m IH]; [cbn; destruct (N.eqb i k); reflexivity|].
  unfold aremove in *. cbn [filter fst]. destruct (N.eqb_spec k' i) as [->|Hne]; cbn [negb].
  - rewrite IH. cbn [aget]. eqbs.
  - cbn [aget]. rewrite IH. eqbs.
Qed.

Lemma aget_aset : forall k i v m, aget k (aset i v m) = if N.eqb i k then Some v else aget k m.
Proof.
  intros. unfold aset. cbn [aget]. rewrite aget_aremove. eqbs.
Qed.

Lemma ahas_aget : forall k m, ahas k m = match aget k m with Some _ => true | None => false end.
Proof.
  intros k m. induction m as [|[k' v] m IH]; [reflexivity|].
  unfold ahas in *. cbn [existsb fst aget]. rewrite IH. destruct (N.eqb k' k); reflexivity.
Qed.

Definition keys_nodup (m : amap) : Prop := NoDup (map fst m).

Lemma keys_aremove_in : forall k i m, In k (map fst (aremove i m)) -> In k (map fst m) /\ k <> i.
Proof.
  intros k i m H. apply in_map_iff in H. destruct H as [[k' v] [<- Hin]].
  unfold aremove in Hin. apply filter_In in Hin. destruct Hin as [Hin Hne]. cbn [fst] in *.
  split; [apply in_map_iff; exists (k', v); auto|]. intros ->. rewrite N.eqb_refl in Hne. discriminate.
Qed.

Lemma keys_nodup_aremove : forall i m, keys_nodup m -> keys_nodup (aremove i m).
Proof.
  intros i m. unfold keys_nodup. induction m as [|[k v] m IH]; intro H; [constructor|].
  inversion H as [|? ? Hn Hd]; subst. unfold aremove in *. cbn [filter fst].
  destruct (negb (N.eqb k i)); [|apply IH; exact Hd].
  cbn [map fst]. constructor; [|apply IH; exact Hd].
  intro Hin. apply Hn. apply (keys_aremove_in k i m). exact Hin.
Qed.

Lemma keys_nodup_aset : forall i v m, keys_nodup m -> keys_nodup (aset i v m).
Proof.
  intros i v m H. unfold aset, keys_nodup. cbn [map fst]. constructor.
  - intro Hin. apply keys_aremove_in in Hin. destruct Hin as [_ Hne]. apply Hne. reflexivity.
  - apply keys_nodup_aremove. exact H.
Qed.

Lemma aget_in : forall k v m, aget k m = Some v -> In (k, v) m.
Proof.
  intros k v m. induction m as [|[k' v'] m IH]; [discriminate|]. cbn [aget].
  destruct (N.eqb_spec k' k) as [->|Hne]; intro H; [inversion H; left; reflexivity|right; apply IH; exact H].
Qed.

Lemma in_aget : forall k v m, keys_nodup m -> In (k, v) m -> aget k m = Some v.
Proof.
  intros k v m. unfold keys_nodup. induction m as [|[k' v'] m IH]; intros Hd Hin; [contradiction|].
  inversion Hd as [|? ? Hn Hd']; subst. cbn [aget]. destruct Hin as [Heq|Hin].
  - inversion Heq; subst. rewrite N.eqb_refl. reflexivity.
  - destruct (N.eqb_spec k' k) as [->|Hne]; [|apply IH; assumption].
    exfalso. apply Hn. apply in_map_iff. exists (k, v). auto.
Qed.

Lemma in_flat_map_snd : forall (a : N) (m : amap),
  In a (flat_map snd m) <-> exists k v, In (k, v) m /\ In a v.
Proof.
  intros a m. rewrite in_flat_map. split.
  - intros [[k v] [Hin Ha]]. exists k, v. auto.
  - intros [k [v [Hin Ha]]]. exists (k, v). auto.
Qed.

Lemma in_members_nodup : forall a m, keys_nodup m ->
  (In a (flat_map snd m) <-> exists k v, aget k m = Some v /\ In a v).
Proof.
  intros a m Hd. rewrite in_flat_map_snd. split; intros [k [v [H1 H2]]]; exists k, v; split; auto.
  - apply in_aget; assumption.
  - apply aget_in; assumption.
Qed.

Lemma in_flat_map_perm : forall (a : N) (m m' : amap),
  Permutation m' m -> (In a (flat_map snd m') <-> In a (flat_map snd m)).
Proof.
  intros a m m' P. rewrite !in_flat_map_snd.
  split; intros [k [v [H1 H2]]]; exists k, v; split; auto.
  - eapply Permutation_in; eauto.
  - eapply Permutation_in; [apply Permutation_sym|]; eauto.
Qed.

(* ------------------------------------------------------------------ the model's predicate is the property's predicate *)
Lemma needs_is_spec : forall w, wep_needs_forward_hooks (Some w) = wep_needs w.
Proof.
  intros w. unfold wep_needs_forward_hooks, wep_needs, has_dscp_marking, has_connection_limit, has_packet_rate_limit, znz.
  destruct (w_dscp w) as [|n]; cbn [Nat.ltb Nat.leb Nat.eqb negb orb].
  - destruct (w_qos w) as [q|]; [|reflexivity]. rewrite <- !orb_assoc. reflexivity.
  - reflexivity.
Qed.

(* ------------------------------------------------------------------ the view of the history *)
Lemma cur_wep_app : forall id h1 h2 acc, cur_wep id acc (h1 ++ h2) = cur_wep id (cur_wep id acc h1) h2.
Proof.
  intros id h1. induction h1 as [|o h1 IH]; intros h2 acc; [reflexivity|].
  cbn [app cur_wep]. destruct o; apply IH.
Qed.
Lemma cur_hep_app : forall id h1 h2 acc, cur_hep id acc (h1 ++ h2) = cur_hep id (cur_hep id acc h1) h2.
Proof.
  intros id h1. induction h1 as [|o h1 IH]; intros h2 acc; [reflexivity|].
  cbn [app cur_hep]. destruct o; apply IH.
Qed.

(* what the manager keeps for an endpoint, as a function of the current view *)
Definition wkeep (ver : ipver) (o : option wep) : option (list N) :=
  match o with
  | Some w => if wep_needs w then Some (strip_subnet_masks (wep_nets ver w)) else None
  | None => None
  end.
Definition hkeep (ver : ipver) (o : option hep) : option (list N) :=
  match o with
  | Some e => if hep_needs e then Some (strip_subnet_masks (hep_nets ver e)) else None
  | None => None
  end.

Record inv (ver : ipver) (st : state) (pre : list op) : Prop := {
  inv_w : forall id, aget id (s_wep st) = wkeep ver (cur_wep id None pre);
  inv_h : forall id, aget id (s_hep st) = hkeep ver (cur_hep id None pre);
  inv_wd : keys_nodup (s_wep st);
  inv_hd : keys_nodup (s_hep st) }.

Lemma inv_init : forall ver, inv ver init [].
Proof. intro ver. split; cbn; intros; try reflexivity; constructor. Qed.

Lemma remove_workload_get : forall id i st,
  aget id (s_wep (remove_workload i st)) = if N.eqb i id then None else aget id (s_wep st).
Proof.
  intros id i st. unfold remove_workload. rewrite ahas_aget.
  destruct (aget i (s_wep st)) eqn:E; cbn [s_wep].
  - apply aget_aremove.
  - destruct (N.eqb_spec i id) as [->|]; [exact E|reflexivity].
Qed.
Lemma remove_host_get : forall id i st,
  aget id (s_hep (remove_host i st)) = if N.eqb i id then None else aget id (s_hep st).
Proof.
  intros id i st. unfold remove_host. rewrite ahas_aget.
  destruct (aget i (s_hep st)) eqn:E; cbn [s_hep].
  - apply aget_aremove.
  - destruct (N.eqb_spec i id) as [->|]; [exact E|reflexivity].
Qed.
Lemma remove_workload_hep : forall i st, s_hep (remove_workload i st) = s_hep st.
Proof. intros. unfold remove_workload. destruct (ahas i (s_wep st)); reflexivity. Qed.
Lemma remove_host_wep : forall i st, s_wep (remove_host i st) = s_wep st.
Proof. intros. unfold remove_host. destruct (ahas i (s_hep st)); reflexivity. Qed.
Lemma remove_workload_nodup : forall i st, keys_nodup (s_wep st) -> keys_nodup (s_wep (remove_workload i st)).
Proof.
  intros i st H. unfold remove_workload. destruct (ahas i (s_wep st)); cbn [s_wep]; [apply keys_nodup_aremove|]; exact H.
Qed.
Lemma remove_host_nodup : forall i st, keys_nodup (s_hep st) -> keys_nodup (s_hep (remove_host i st)).
Proof.
  intros i st H. unfold remove_host. destruct (ahas i (s_hep st)); cbn [s_hep]; [apply keys_nodup_aremove|]; exact H.
Qed.

Lemma hep_needs_eqb : forall e, Nat.eqb (h_dscp e) 0 = negb (hep_needs e).
Proof. intro e. unfold hep_needs, has_dscp_marking. rewrite negb_involutive. reflexivity. Qed.

(* one message: the invariant moves from the history `pre` to `pre ++ [o]` *)
Lemma inv_step : forall ver st pre o, inv ver st pre -> inv ver (on_update ver st o) (pre ++ [o]).
Proof.
  intros ver st pre o [Hw Hh Hwd Hhd].
  destruct o as [i e|i|i e|i| |].
  - (* WepUpdate *)
    cbn [on_update]. destruct e as [w|].
    + rewrite needs_is_spec. destruct (wep_needs w) eqn:En.
      * split; cbn [s_wep s_hep]; intros.
        -- rewrite aget_aset, cur_wep_app. cbn [cur_wep]. destruct (N.eqb i id); [cbn [wkeep]; rewrite En; reflexivity|apply Hw].
        -- rewrite cur_hep_app. cbn [cur_hep]. apply Hh.
        -- apply keys_nodup_aset. exact Hwd.
        -- exact Hhd.
      * split; intros.
        -- rewrite remove_workload_get, cur_wep_app. cbn [cur_wep]. destruct (N.eqb i id); [cbn [wkeep]; rewrite En; reflexivity|apply Hw].
        -- rewrite remove_workload_hep, cur_hep_app. cbn [cur_hep]. apply Hh.
        -- apply remove_workload_nodup. exact Hwd.
        -- rewrite remove_workload_hep. exact Hhd.
    + cbn [wep_needs_forward_hooks]. split; intros.
      * rewrite remove_workload_get, cur_wep_app. cbn [cur_wep]. destruct (N.eqb i id); [reflexivity|apply Hw].
      * rewrite remove_workload_hep, cur_hep_app. cbn [cur_hep]. apply Hh.
      * apply remove_workload_nodup. exact Hwd.
      * rewrite remove_workload_hep. exact Hhd.
  - (* WepRemove *)
    cbn [on_update]. split; intros.
    + rewrite remove_workload_get, cur_wep_app. cbn [cur_wep]. destruct (N.eqb i id); [reflexivity|apply Hw].
    + rewrite remove_workload_hep, cur_hep_app. cbn [cur_hep]. apply Hh.
    + apply remove_workload_nodup. exact Hwd.
    + rewrite remove_workload_hep. exact Hhd.
  - (* HepUpdate *)
    cbn [on_update]. rewrite hep_needs_eqb. destruct (hep_needs e) eqn:En; cbn [negb].
    + split; cbn [s_wep s_hep]; intros.
      * rewrite cur_wep_app. cbn [cur_wep]. apply Hw.
      * rewrite aget_aset, cur_hep_app. cbn [cur_hep]. destruct (N.eqb i id); [cbn [hkeep]; rewrite En; reflexivity|apply Hh].
      * exact Hwd.
      * apply keys_nodup_aset. exact Hhd.
    + split; intros.
      * rewrite remove_host_wep, cur_wep_app. cbn [cur_wep]. apply Hw.
      * rewrite remove_host_get, cur_hep_app. cbn [cur_hep]. destruct (N.eqb i id); [cbn [hkeep]; rewrite En; reflexivity|apply Hh].
      * rewrite remove_host_wep. exact Hwd.
      * apply remove_host_nodup. exact Hhd.
  - (* HepRemove *)
    cbn [on_update]. split; intros.
    + rewrite remove_host_wep, cur_wep_app. cbn [cur_wep]. apply Hw.
    + rewrite remove_host_get, cur_hep_app. cbn [cur_hep]. destruct (N.eqb i id); [reflexivity|apply Hh].
    + rewrite remove_host_wep. exact Hwd.
    + apply remove_host_nodup. exact Hhd.
  - (* Other *)
    cbn [on_update]. split; intros; try assumption.
    + rewrite cur_wep_app. cbn [cur_wep]. apply Hw.
    + rewrite cur_hep_app. cbn [cur_hep]. apply Hh.
  - (* Flush seen as a message: no effect *)
    cbn [on_update]. split; intros; try assumption.
    + rewrite cur_wep_app. cbn [cur_wep]. apply Hw.
    + rewrite cur_hep_app. cbn [cur_hep]. apply Hh.
Qed.

(* CompleteDeferredWork touches only the dirty flag *)
Lemma inv_complete : forall ver st pre ow oh,
  inv ver st pre -> inv ver (fst (complete_with ow oh st)) (pre ++ [Flush]).
Proof.
  intros ver st pre ow oh [Hw Hh Hwd Hhd]. unfold complete_with.
  destruct (s_dirty st); cbn [fst s_wep s_hep]; split; intros; try assumption;
    try (rewrite cur_wep_app; cbn [cur_wep]; apply Hw); try (rewrite cur_hep_app; cbn [cur_hep]; apply Hh).
Qed.

(* ------------------------------------------------------------------ single-address nets *)
Lemma covers_single : forall ver n a, single_address ver n = true -> (covers ver n a = true <-> a = fst n).
Proof.
  intros ver [x [len|]] a; unfold single_address, covers; cbn [fst snd]; intro H.
  - apply N.eqb_eq in H. subst len. rewrite N.sub_diag, !N.shiftr_0_r. apply N.eqb_eq.
  - apply N.eqb_eq.
Qed.

Lemma cur_wep_origin : forall id h acc w,
  cur_wep id acc h = Some w -> acc = Some w \/ In (WepUpdate id (Some w)) h.
Proof.
  intros id h. induction h as [|o h IH]; intros acc w H; [left; exact H|].
  cbn [cur_wep] in H. destruct o as [i e|i|i e|i| |];
    try (destruct (IH _ _ H) as [H'|H']; [left; exact H'|right; right; exact H']).
  - destruct (N.eqb_spec i id) as [->|Hne].
    + destruct (IH _ _ H) as [H'|H']; [right; left; rewrite H'; reflexivity|right; right; exact H'].
    + destruct (IH _ _ H) as [H'|H']; [left; exact H'|right; right; exact H'].
  - destruct (N.eqb i id); destruct (IH _ _ H) as [H'|H']; try discriminate; [right; right; exact H'|left; exact H'|right; right; exact H'].
Qed.
Lemma cur_hep_origin : forall id h acc e,
  cur_hep id acc h = Some e -> acc = Some e \/ In (HepUpdate id e) h.
Proof.
  intros id h. induction h as [|o h IH]; intros acc w H; [left; exact H|].
  cbn [cur_hep] in H. destruct o as [i e|i|i e|i| |];
    try (destruct (IH _ _ H) as [H'|H']; [left; exact H'|right; right; exact H']).
  - destruct (N.eqb_spec i id) as [->|Hne].
    + destruct (IH _ _ H) as [H'|H']; [right; left; inversion H'; reflexivity|right; right; exact H'].
    + destruct (IH _ _ H) as [H'|H']; [left; exact H'|right; right; exact H'].
  - destruct (N.eqb i id); destruct (IH _ _ H) as [H'|H']; try discriminate; [right; right; exact H'|left; exact H'|right; right; exact H'].
Qed.

Lemma wf_cur_wep : forall ver h id w, wf_history ver h = true -> cur_wep id None h = Some w ->
  forall n, In n (wep_nets ver w) -> single_address ver n = true.
Proof.
  intros ver h id w Hwf Hc n Hn. apply cur_wep_origin in Hc. destruct Hc as [Hc|Hc]; [discriminate|].
  unfold wf_history in Hwf. rewrite forallb_forall in Hwf. specialize (Hwf _ Hc). cbn [wf_op] in Hwf.
  rewrite forallb_forall in Hwf. apply Hwf. exact Hn.
Qed.
Lemma wf_cur_hep : forall ver h id e, wf_history ver h = true -> cur_hep id None h = Some e ->
  forall n, In n (hep_nets ver e) -> single_address ver n = true.
Proof.
  intros ver h id w Hwf Hc n Hn. apply cur_hep_origin in Hc. destruct Hc as [Hc|Hc]; [discriminate|].
  unfold wf_history in Hwf. rewrite forallb_forall in Hwf. specialize (Hwf _ Hc). cbn [wf_op] in Hwf.
  rewrite forallb_forall in Hwf. apply Hwf. exact Hn.
Qed.

(* ------------------------------------------------------------------ exactness of the maps *)
Lemma members_exact : forall ver st h, inv ver st h -> wf_history ver h = true ->
  forall ow oh, Permutation ow (s_wep st) -> Permutation oh (s_hep st) ->
  forall a, In a (members_in ow oh) <-> excluded ver h a.
Proof.
  intros ver st h [Hw Hh Hwd Hhd] Hwf ow oh Pw Ph a. unfold members_in. rewrite in_app_iff.
  rewrite (in_flat_map_perm a _ _ Pw), (in_flat_map_perm a _ _ Ph).
  rewrite (in_members_nodup a _ Hwd), (in_members_nodup a _ Hhd). unfold excluded.
  split.
  - intros [[k [v [Hg Ha]]]|[k [v [Hg Ha]]]].
    + left. rewrite Hw in Hg. unfold wkeep in Hg. destruct (cur_wep k None h) as [w|] eqn:Ec; [|discriminate].
      destruct (wep_needs w) eqn:En; [|discriminate]. inversion Hg; subst v. unfold strip_subnet_masks in Ha.
      apply in_map_iff in Ha. destruct Ha as [n [<- Hn]]. exists k, w, n. repeat split; auto.
      apply covers_single; [eapply wf_cur_wep; eauto|reflexivity].
    + right. rewrite Hh in Hg. unfold hkeep in Hg. destruct (cur_hep k None h) as [e|] eqn:Ec; [|discriminate].
      destruct (hep_needs e) eqn:En; [|discriminate]. inversion Hg; subst v. unfold strip_subnet_masks in Ha.
      apply in_map_iff in Ha. destruct Ha as [n [<- Hn]]. exists k, e, n. repeat split; auto.
      apply covers_single; [eapply wf_cur_hep; eauto|reflexivity].
  - intros [[k [w [n [Hc [En [Hn Hcov]]]]]]|[k [e [n [Hc [En [Hn Hcov]]]]]]].
    + left. exists k, (strip_subnet_masks (wep_nets ver w)). split.
      * rewrite Hw, Hc. cbn [wkeep]. rewrite En. reflexivity.
      * apply covers_single in Hcov; [|eapply wf_cur_wep; eauto]. subst a. unfold strip_subnet_masks. apply in_map. exact Hn.
    + right. exists k, (strip_subnet_masks (hep_nets ver e)). split.
      * rewrite Hh, Hc. cbn [hkeep]. rewrite En. reflexivity.
      * apply covers_single in Hcov; [|eapply wf_cur_hep; eauto]. subst a. unfold strip_subnet_masks. apply in_map. exact Hn.
Qed.

(* ------------------------------------------------------------------ executions with arbitrary iteration orders *)
(* exec ver st dp ops st' dp': from manager state st and dataplane set dp (None = never written), processing ops
   leads to st', dp'.  Each CompleteDeferredWork ranges over the two maps in an arbitrary order. *)
Definition set_after (dp out : option (list N)) : option (list N) := match out with Some ms => Some ms | None => dp end.

Inductive exec (ver : ipver) : state -> option (list N) -> list op -> state -> option (list N) -> Prop :=
| exec_nil : forall st dp, exec ver st dp [] st dp
| exec_flush : forall st dp ow oh r st' dp',
    Permutation ow (s_wep st) -> Permutation oh (s_hep st) ->
    exec ver (fst (complete_with ow oh st)) (set_after dp (snd (complete_with ow oh st))) r st' dp' ->
    exec ver st dp (Flush :: r) st' dp'
| exec_msg : forall st dp o r st' dp',
    o <> Flush -> exec ver (on_update ver st o) dp r st' dp' -> exec ver st dp (o :: r) st' dp'.

(* a message either marks the manager dirty or leaves it untouched *)
Lemma on_update_dirty_or_same : forall ver st o, s_dirty (on_update ver st o) = true \/ on_update ver st o = st.
Proof.
  intros ver st o. destruct o as [i e|i|i e|i| |]; cbn [on_update]; try (right; reflexivity).
  - destruct (wep_needs_forward_hooks e).
    + destruct e; [left; reflexivity|right; reflexivity].
    + unfold remove_workload. destruct (ahas i (s_wep st)); [left; reflexivity|right; reflexivity].
  - unfold remove_workload. destruct (ahas i (s_wep st)); [left; reflexivity|right; reflexivity].
  - destruct (Nat.eqb (h_dscp e) 0); [|left; reflexivity].
    unfold remove_host. destruct (ahas i (s_hep st)); [left; reflexivity|right; reflexivity].
  - unfold remove_host. destruct (ahas i (s_hep st)); [left; reflexivity|right; reflexivity].
Qed.

(* the dataplane's set mirrors the maps whenever the manager is not dirty *)
Definition dp_ok (st : state) (dp : option (list N)) : Prop :=
  s_dirty st = false ->
  exists ms, dp = Some ms /\ forall a, In a ms <-> In a (members_in (s_wep st) (s_hep st)).

Lemma dp_ok_step : forall ver st dp o, dp_ok st dp -> dp_ok (on_update ver st o) dp.
Proof.
  intros ver st dp o H Hd. destruct (on_update_dirty_or_same ver st o) as [Hx|Hx].
  - rewrite Hx in Hd. discriminate.
  - rewrite Hx in *. apply H. exact Hd.
Qed.

Lemma dp_ok_complete : forall st dp ow oh, Permutation ow (s_wep st) -> Permutation oh (s_hep st) ->
  dp_ok st dp ->
  dp_ok (fst (complete_with ow oh st)) (set_after dp (snd (complete_with ow oh st)))
  /\ s_dirty (fst (complete_with ow oh st)) = false.
Proof.
  intros st dp ow oh Pw Ph H. unfold complete_with. destruct (s_dirty st) eqn:Ed; cbn [fst snd set_after].
  - split; [|reflexivity]. intros _. exists (members_in ow oh). split; [reflexivity|]. cbn [s_wep s_hep].
    intro a. unfold members_in. rewrite !in_app_iff, (in_flat_map_perm a _ _ Pw), (in_flat_map_perm a _ _ Ph). reflexivity.
  - split; [exact H|exact Ed].
Qed.

Lemma exec_inv : forall ver st dp ops st' dp', exec ver st dp ops st' dp' ->
  forall pre, inv ver st pre -> dp_ok st dp -> inv ver st' (pre ++ ops) /\ dp_ok st' dp'.
Proof.
  intros ver st dp ops st' dp' E. induction E as [st dp|st dp ow oh r st' dp' Pw Ph E IH|st dp o r st' dp' Hne E IH]; intros pre Hi Hd.
  - rewrite app_nil_r. split; assumption.
  - replace (pre ++ Flush :: r) with ((pre ++ [Flush]) ++ r) by (rewrite <- app_assoc; reflexivity).
    apply IH; [apply inv_complete; exact Hi|]. apply dp_ok_complete; assumption.
  - replace (pre ++ o :: r) with ((pre ++ [o]) ++ r) by (rewrite <- app_assoc; reflexivity).
    apply IH; [apply inv_step; exact Hi|apply dp_ok_step; exact Hd].
Qed.

Lemma dp_ok_init : dp_ok init None.
Proof. intro H. discriminate. Qed.

(* THE theorem: after any history, under any iteration orders *)
Theorem set_exact : forall ver h st dp,
  wf_history ver h = true -> exec ver init None h st dp ->
  (forall ow oh, Permutation ow (s_wep st) -> Permutation oh (s_hep st) ->
     forall a, In a (members_in ow oh) <-> excluded ver h a)
  /\ (s_dirty st = false -> exists ms, dp = Some ms /\ forall a, In a ms <-> excluded ver h a).
Proof.
  intros ver h st dp Hwf E. destruct (exec_inv _ _ _ _ _ _ E [] (inv_init ver) dp_ok_init) as [Hi Hd].
  cbn [app] in Hi. split.
  - intros. eapply members_exact; eauto.
  - intro Hc. destruct (Hd Hc) as [ms [-> Hm]]. exists ms. split; [reflexivity|].
    intro a. rewrite Hm. eapply members_exact; eauto.
Qed.

Lemma exec_app_flush_clean : forall ver st dp ops st' dp',
  exec ver st dp ops st' dp' -> forall h, ops = h ++ [Flush] -> s_dirty st' = false.
Proof.
  intros ver st dp ops st' dp' E. induction E as [st dp|st dp ow oh r st' dp' Pw Ph E IH|st dp o r st' dp' Hne E IH]; intros h Hh.
  - destruct h; discriminate.
  - destruct h as [|x h]; cbn [app] in Hh; inversion Hh; subst.
    + inversion E; subst. unfold complete_with. destruct (s_dirty st) eqn:Ed; cbn [fst]; [reflexivity|exact Ed].
    + eapply IH. reflexivity.
  - destruct h as [|x h]; cbn [app] in Hh; inversion Hh; subst; [congruence|]. eapply IH. reflexivity.
Qed.

Lemma excluded_flush : forall ver h a, excluded ver (h ++ [Flush]) a <-> excluded ver h a.
Proof.
  intros. unfold excluded.
  assert (Hw : forall id, cur_wep id None (h ++ [Flush]) = cur_wep id None h) by (intro; rewrite cur_wep_app; reflexivity).
  assert (Hh : forall id, cur_hep id None (h ++ [Flush]) = cur_hep id None h) by (intro; rewrite cur_hep_app; reflexivity).
  split; (intros [[k [w [n H]]]|[k [e [n H]]]]; [left; exists k, w, n|right; exists k, e, n]);
    rewrite ?Hw, ?Hh in *; exact H.
Qed.

Lemma wf_history_app : forall ver h1 h2, wf_history ver (h1 ++ h2) = wf_history ver h1 && wf_history ver h2.
Proof. intros. unfold wf_history. apply forallb_app. Qed.

(* once CompleteDeferredWork has run, the set in the dataplane is exact *)
Theorem set_exact_after_flush : forall ver h st dp,
  wf_history ver h = true -> exec ver init None (h ++ [Flush]) st dp ->
  exists ms, dp = Some ms /\ forall a, In a ms <-> excluded ver h a.
Proof.
  intros ver h st dp Hwf E.
  assert (Hwf' : wf_history ver (h ++ [Flush]) = true) by (rewrite wf_history_app, Hwf; reflexivity).
  destruct (set_exact _ _ _ _ Hwf' E) as [_ H].
  destruct (H (exec_app_flush_clean _ _ _ _ _ _ E h eq_refl)) as [ms [-> Hm]].
  exists ms. split; [reflexivity|]. intro a. rewrite Hm. apply excluded_flush.
Qed.

(* an address shared by two endpoints stays while either needs it (a corollary, spelled out for workloads) *)
Corollary shared_address_stays : forall ver h st dp id w a m,
  wf_history ver h = true -> exec ver init None (h ++ [Flush]) st dp ->
  cur_wep id None h = Some w -> wep_needs w = true -> In (a, m) (wep_nets ver w) ->
  exists ms, dp = Some ms /\ In a ms.
Proof.
  intros ver h st dp id w a m Hwf E Hc Hn Hin.
  destruct (set_exact_after_flush _ _ _ _ Hwf E) as [ms [-> Hm]]. exists ms. split; [reflexivity|].
  apply Hm. left. exists id, w, (a, m). repeat split; auto.
  apply covers_single; [eapply wf_cur_wep; eauto|reflexivity].
Qed.

(* the executable run is one of the executions (identity order) *)
Lemma exec_deterministic : forall ver ops st dp,
  exists dp', exec ver st dp ops (state_after ver st ops) dp'.
Proof.
  intros ver ops. induction ops as [|o ops IH]; intros st dp.
  - exists dp. constructor.
  - assert (Hmsg : forall o', o' <> Flush -> state_after ver st (o' :: ops) = state_after ver (on_update ver st o') ops ->
                     exists dp', exec ver st dp (o' :: ops) (state_after ver st (o' :: ops)) dp').
    { intros o' Hne Heq. destruct (IH (on_update ver st o') dp) as [dp' H]. exists dp'. rewrite Heq.
      apply exec_msg; [exact Hne|exact H]. }
    destruct o as [i e|i|i e|i| |]; try (apply Hmsg; [discriminate|reflexivity]).
    cbn [state_after]. unfold complete.
    destruct (IH (fst (complete_with (s_wep st) (s_hep st) st)) (set_after dp (snd (complete_with (s_wep st) (s_hep st) st)))) as [dp' H].
    exists dp'. eapply exec_flush; [apply Permutation_refl|apply Permutation_refl|exact H].
Qed.
