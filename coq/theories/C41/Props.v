(* C41 — property theorems only.  Each is closed by `exact <lemma>` and followed by Print Assumptions. *)
From Coq Require Import List NArith ZArith Bool.
From Verif.Common Require Import Packet Ipt.
From Verif.C41 Require Import Model Spec ProofsRule.
Import ListNotations.
Open Scope N_scope.

(* The rendered offload rule, evaluated over the abstract netfilter match semantics for EVERY packet and EVERY content
   of every IP set: a flow is handed to the flowtable only if the packet is in an already-established (ESTABLISHED or
   RELATED) conntrack state AND its source is not in the no-flow-offload set AND its destination is not in it. *)
Theorem c41_rule_guarded : forall e p,
  rule_offloads e p offload_rule = true ->
  (pk_ct p = CtEstablished \/ pk_ct p = CtRelated)
  /\ e_sets e NO_OFFLOAD_SET (MemIP (pk_src p)) = false
  /\ e_sets e NO_OFFLOAD_SET (MemIP (pk_dst p)) = false.
Proof. exact offload_rule_never_bypasses. Qed.
Print Assumptions c41_rule_guarded.

(* Exact characterisation (so nothing is hidden): the rule offloads precisely the packets the specification's guard admits. *)
Theorem c41_rule_offloads_iff_guard : forall e p, rule_offloads e p offload_rule = guard e p.
Proof. exact offload_rule_iff_guard. Qed.
Print Assumptions c41_rule_offloads_iff_guard.

(* In every renderer configuration, every static rule with a flow-offload statement is guarded. *)
Theorem c41_every_static_offload_rule_guarded : forall nft enabled l,
  In l (static_offload_rules nft enabled) -> rule_guarded (l_rule l).
Proof. exact static_offload_rules_guarded. Qed.
Print Assumptions c41_every_static_offload_rule_guarded.

(* For ANY rule (whatever else it matches): a ct-state match within {ESTABLISHED, RELATED} plus the two negated set
   matches are sufficient; further matches only narrow what is offloaded. *)
Theorem c41_rule_guarded_by_syntax : forall r sts,
  In (MCtState false sts) (or_match r) -> est_only sts = true ->
  In (MSrcIpSet true NO_OFFLOAD_SET) (or_match r) ->
  In (MDstIpSet true NO_OFFLOAD_SET) (or_match r) ->
  rule_guarded r.
Proof. exact guarded_by_syntax. Qed.
Print Assumptions c41_rule_guarded_by_syntax.

(* Non-vacuity: an established packet between two addresses outside the set IS offloaded; the same packet towards an
   address in the set, or in state NEW, is not. *)
Example c41_rule_example :
  rule_offloads (rep_env false) (rep_packet CtEstablished 200 200 V4) offload_rule = true
  /\ rule_offloads (rep_env false) (rep_packet CtEstablished 200 100 V4) offload_rule = false
  /\ rule_offloads (rep_env false) (rep_packet CtEstablished 101 200 V4) offload_rule = false
  /\ rule_offloads (rep_env false) (rep_packet CtNew 200 200 V4) offload_rule = false.
Proof. vm_compute. repeat split; reflexivity. Qed.
