(* C41 — property theorems only.  Each is closed by `exact <lemma>` and followed by Print Assumptions. *)
From Coq Require Import List NArith ZArith Bool.
From Verif.Common Require Import Packet Ipt.
From Coq Require Import Permutation Sorted.
From Verif.C41 Require Import Model Spec ProofsRule ProofsSet ProofsOracle ProofsCompose.
Import ListNotations.
Open Scope N_scope.

(* The rendered offload rule, evaluated over the abstract netfilter match semantics for EVERY packet and EVERY content
   of every IP set: a flow is handed to the flowtable only if the packet is in an already-established (ESTABLISHED or
   RELATED) conntrack state AND its source is not in the no-flow-offload set AND its destination is not in it. *)
Theorem c41_rule_guarded : forall e p,
  rule_offloads e p offload_rule = true ->
  (pk_ct p = CtEstablished \/ pk_ct p = CtRelated)
  /\ e_sets e NO_OFFLOAD_SET (MemIP (pk_src p)) = false
  /\ e_sets e NO_OFFLOAD_SET (MemIP (pk_dst p)) = false.
Proof. exact offload_rule_never_bypasses. Qed.
Print Assumptions c41_rule_guarded.

(* Exact characterisation (so nothing is hidden): the rule offloads precisely the packets the specification's guard admits. *)
Theorem c41_rule_offloads_iff_guard : forall e p, rule_offloads e p offload_rule = guard e p.
Proof. exact offload_rule_iff_guard. Qed.
Print Assumptions c41_rule_offloads_iff_guard.

(* In every renderer configuration, every static rule with a flow-offload statement is guarded. *)
Theorem c41_every_static_offload_rule_guarded : forall nft enabled l,
  In l (static_offload_rules nft enabled) -> rule_guarded (l_rule l).
Proof. exact static_offload_rules_guarded. Qed.
Print Assumptions c41_every_static_offload_rule_guarded.

(* For ANY rule (whatever else it matches): a ct-state match within {ESTABLISHED, RELATED} plus the two negated set
   matches are sufficient; further matches only narrow what is offloaded. *)
Theorem c41_rule_guarded_by_syntax : forall r sts,
  In (MCtState false sts) (or_match r) -> est_only sts = true ->
  In (MSrcIpSet true NO_OFFLOAD_SET) (or_match r) ->
  In (MDstIpSet true NO_OFFLOAD_SET) (or_match r) ->
  rule_guarded r.
Proof. exact guarded_by_syntax. Qed.
Print Assumptions c41_rule_guarded_by_syntax.

(* Non-vacuity: an established packet between two addresses outside the set IS offloaded; the same packet towards an
   address in the set, or in state NEW, is not. *)
Example c41_rule_example :
  rule_offloads (rep_env false) (rep_packet CtEstablished 200 200 V4) offload_rule = true
  /\ rule_offloads (rep_env false) (rep_packet CtEstablished 200 100 V4) offload_rule = false
  /\ rule_offloads (rep_env false) (rep_packet CtEstablished 101 200 V4) offload_rule = false
  /\ rule_offloads (rep_env false) (rep_packet CtNew 200 200 V4) offload_rule = false.
Proof. vm_compute. repeat split; reflexivity. Qed.

(* ------------------------------------------------------------------ the exclusion set *)
(* `exec ver init None h st dp` (ProofsSet.v): the manager, started as newFlowtableExclusionManager leaves it and with no
   set in the dataplane, processes the history h (endpoint updates/removes of both kinds, nil endpoints, unrelated
   messages, CompleteDeferredWork at arbitrary points) and ends in state st with dp = the member list of the latest
   AddOrReplaceIPSet call; EVERY CompleteDeferredWork ranges over wepIPs and hepIPs in an ARBITRARY order
   (any permutations ow, oh of the maps).

   After ANY such history (addresses single, as the validator guarantees):
   (1) whatever order the next CompleteDeferredWork uses, the member list it would hand to the IP set contains exactly
       the addresses a for which some workload endpoint with DSCP marking or a connection/packet rate limit, or some
       host endpoint with DSCP marking, currently (last update wins; removed = gone) has a as an address of this IP version;
   (2) whenever the manager is not dirty, the set already written to the dataplane is exactly that set. *)
Theorem c41_set_exact : forall ver h st dp,
  wf_history ver h = true -> exec ver init None h st dp ->
  (forall ow oh, Permutation ow (s_wep st) -> Permutation oh (s_hep st) ->
     forall a, In a (members_in ow oh) <-> excluded ver h a)
  /\ (s_dirty st = false -> exists ms, dp = Some ms /\ forall a, In a ms <-> excluded ver h a).
Proof. exact set_exact. Qed.
Print Assumptions c41_set_exact.

(* The dataplane loop ends every batch with CompleteDeferredWork: after it, the set in the dataplane exists and is exact. *)
Theorem c41_set_exact_after_flush : forall ver h st dp,
  wf_history ver h = true -> exec ver init None (h ++ [Flush]) st dp ->
  exists ms, dp = Some ms /\ forall a, In a ms <-> excluded ver h a.
Proof. exact set_exact_after_flush. Qed.
Print Assumptions c41_set_exact_after_flush.

(* An address stays in the set while ANY endpoint that needs the hooks has it, whatever happened to other endpoints
   that shared it (corollary of exactness, spelled out). *)
Theorem c41_shared_address_stays : forall ver h st dp id w a m,
  wf_history ver h = true -> exec ver init None (h ++ [Flush]) st dp ->
  cur_wep id None h = Some w -> wep_needs w = true -> In (a, m) (wep_nets ver w) ->
  exists ms, dp = Some ms /\ In a ms.
Proof. exact shared_address_stays. Qed.
Print Assumptions c41_shared_address_stays.

(* Set and rule together (the title of the property): once CompleteDeferredWork has run, with the no-flow-offload set
   holding what the manager wrote (every other set and every out-of-packet match arbitrary), the rendered rule offloads
   NO packet whose source or destination is a current address of an endpoint with DSCP marking or a connection/packet
   rate limit, and no packet that is not already established. *)
Theorem c41_no_bypass : forall ver h st dp,
  wf_history ver h = true -> exec ver init None (h ++ [Flush]) st dp ->
  exists ms, dp = Some ms /\
  forall others oth p,
    rule_offloads (env_with_set ms others oth) p offload_rule = true ->
    already_established p = true /\ ~ excluded ver h (pk_src p) /\ ~ excluded ver h (pk_dst p).
Proof. exact no_bypass. Qed.
Print Assumptions c41_no_bypass.

(* The executable run used in the correspondence check is one of these executions. *)
Theorem c41_run_is_an_execution : forall ver ops st dp,
  exists dp', exec ver st dp ops (state_after ver st ops) dp'.
Proof. exact exec_deterministic. Qed.
Print Assumptions c41_run_is_an_execution.

(* The multiset of members handed to the IP set does not depend on the iteration order of the two Go maps: this is
   what lets the correspondence run compare sorted member lists. *)
Theorem c41_members_order_independent : forall st ow oh,
  Permutation ow (s_wep st) -> Permutation oh (s_hep st) ->
  sortN (members_in ow oh) = sortN (members_in (s_wep st) (s_hep st)).
Proof. exact members_order_independent. Qed.
Print Assumptions c41_members_order_independent.

(* The specification oracle of Spec.v (the one evaluated on the implementation's observed AddOrReplaceIPSet calls)
   accepts every run of the model: at every CompleteDeferredWork of every history the set the dataplane then holds has
   exactly the support `excluded_list` computes from the history alone. *)
Theorem c41_model_meets_spec : forall ver h, ok_trace ver h (run ver init h) = true.
Proof. exact model_meets_spec. Qed.
Print Assumptions c41_model_meets_spec.

Theorem c41_model_case_ok : forall ver h nft enabled ovl wl ext existing,
  snd (check_case {| c_ver := ver; c_ops := h; c_outs := run ver init h; c_nft := nft; c_offload := enabled;
                     c_rules := static_offload_rules nft enabled; c_limits := [];
                     c_prog := progs None (run ver init h); c_krule := Some offload_rule;
                     c_ft_declared := ft_declared_after_apply true; c_ft_devs := ft_devices ovl wl ext existing;
                     c_dev_in := (ovl, wl, ext, existing) |}) = true.
Proof. exact model_case_ok. Qed.
Print Assumptions c41_model_case_ok.

(* ------------------------------------------------------------------ the PROGRAMMED set (deepening round) *)
(* After any history of endpoint updates followed by CompleteDeferredWork (+ the IP set layer's ApplyUpdates, modelled as
   "the kernel set is the support of the latest replacement"), for every iteration order of the manager's maps: the
   programmed exclusion set is exactly the set of current addresses of the endpoints that need per-packet processing -
   as a duplicate-free ascending list it EQUALS the list computed from the history alone. *)
Theorem c41_programmed_set_exact : forall ver h st dp,
  wf_history ver h = true -> exec ver init None (h ++ [Flush]) st dp ->
  exists ms, dp = Some ms
    /\ (forall a, In a (support ms) <-> excluded ver h a)
    /\ support ms = support (excluded_list ver h)
    /\ StronglySorted N.lt (support ms).
Proof. exact programmed_set_exact. Qed.
Print Assumptions c41_programmed_set_exact.

(* Address change spelled out (the shape of seeded/C41/exclusion-ips-reused-slice): an update that gives a needing
   endpoint other addresses - the same number of them or not - with nothing else happening before CompleteDeferredWork:
   every new address is programmed and nothing is programmed that no needing endpoint currently has. *)
Theorem c41_address_change_programmed : forall ver h id w st dp,
  wf_history ver (h ++ [WepUpdate id (Some w)]) = true -> wep_needs w = true ->
  exec ver init None ((h ++ [WepUpdate id (Some w)]) ++ [Flush]) st dp ->
  exists ms, dp = Some ms
    /\ (forall n, In n (wep_nets ver w) -> In (fst n) (support ms))
    /\ (forall a, In a (support ms) -> excluded ver (h ++ [WepUpdate id (Some w)]) a).
Proof. exact address_change_programmed. Qed.
Print Assumptions c41_address_change_programmed.

(* The programmed-set oracle of Spec.v (evaluated on what the REAL nftables IP set layer left in the fake kernel, in the
   set the rendered rule names) accepts every run of the model. *)
Theorem c41_model_meets_spec_programmed : forall ver h, ok_prog ver h (progs None (run ver init h)) = true.
Proof. exact model_meets_spec_programmed. Qed.
Print Assumptions c41_model_meets_spec_programmed.

(* Any AddOrReplaceIPSet trace the trace oracle accepts yields programmed sets the programmed-set oracle accepts. *)
Theorem c41_ok_trace_implies_ok_prog : forall ver h pre dp outs,
  ok_trace_from ver pre dp h outs = true -> ok_prog_from ver pre h (progs dp outs) = true.
Proof. exact ok_trace_progs. Qed.
Print Assumptions c41_ok_trace_implies_ok_prog.

(* The flowtable object (felix/nftables/table.go recalcFlowtableDevices + pruneToExistingDevices): Apply() names exactly the
   devices offered by the three setters that the kernel has, each once, in ascending order. *)
Theorem c41_flowtable_devices_exact : forall ovl wl ext existing d,
  In d (ft_devices ovl wl ext existing) <-> (In d ovl \/ In d wl \/ In d ext) /\ In d existing.
Proof. exact ft_devices_exact. Qed.
Print Assumptions c41_flowtable_devices_exact.

Theorem c41_flowtable_devices_sorted : forall ovl wl ext existing, StronglySorted N.lt (ft_devices ovl wl ext existing).
Proof. exact ft_devices_sorted. Qed.
Print Assumptions c41_flowtable_devices_sorted.

(* Non-vacuity: same-count address change .1 -> .2 of an endpoint already programmed. *)
Example c41_address_change_example :
  let h := [WepUpdate 0 (Some (WEP [(172032001, Some 32)] [] 1%nat None)); Flush;
            WepUpdate 0 (Some (WEP [(172032002, Some 32)] [] 1%nat None)); Flush] in
  run V4 init h = [Some [172032001]; Some [172032002]]
  /\ progs None (run V4 init h) = [Some [172032001]; Some [172032002]]
  /\ ok_prog V4 h [Some [172032001]; Some [172032001]] = false.
Proof. vm_compute. repeat split; reflexivity. Qed.

(* Non-vacuity: two endpoints share 10.65.0.1; it stays while either needs it; bandwidth-only QoS does not count. *)
Definition ex_conn : qos := QC 0 0 0 0 0 0 10 0 0 0 0 0 0 0.
Definition ex_bw : qos := QC 1000 1000 0 0 0 0 0 0 0 0 0 0 0 0.
Definition ex_history : list op :=
  [ WepUpdate 0 (Some (WEP [(172032001, Some 32)] [] 1%nat None));            (* DSCP *)
    WepUpdate 1 (Some (WEP [(172032001, Some 32); (172032002, Some 32)] [] 0%nat (Some ex_conn)));
    HepUpdate 0 (HEP [(3232237316, None)] [] 1%nat);
    Flush;
    WepRemove 0; Flush;                                                         (* .1 stays: endpoint 1 still has it *)
    WepUpdate 1 (Some (WEP [(172032001, Some 32); (172032002, Some 32)] [] 0%nat (Some ex_bw))); Flush;   (* limit dropped *)
    Flush ].
Example c41_example_run :
  run V4 init ex_history
  = [Some [172032001; 172032001; 172032002; 3232237316]; Some [172032001; 172032002; 3232237316]; Some [3232237316]; None]
  /\ wf_history V4 ex_history = true
  /\ ok_trace V4 ex_history (run V4 init ex_history) = true.
Proof. vm_compute. repeat split; reflexivity. Qed.

(* The oracle is not vacuous: forgetting to drop the address, or skipping a write, is rejected. *)
Example c41_example_oracle_rejects :
  ok_trace V4 ex_history [Some [172032001; 172032002; 3232237316]; Some [172032001; 172032002; 3232237316];
                          Some [172032001; 3232237316]; None] = false
  /\ ok_trace V4 ex_history [Some [172032001; 172032002; 3232237316]; Some [172032001; 172032002; 3232237316]; None; None] = false.
Proof. vm_compute. split; reflexivity. Qed.

(* Why the single-address hypothesis is there (outside what Felix can receive): for a /24 net the manager keeps only
   the address written before the slash. *)
Example c41_domain_needed :
  let h := [WepUpdate 0 (Some (WEP [(167772160, Some 24)] [] 1%nat None))] in
  wf_history V4 h = false /\ excluded V4 h 167772161 /\ run V4 init (h ++ [Flush]) = [Some [167772160]].
Proof.
  cbv zeta. split; [reflexivity|]. split; [|reflexivity].
  left. exists 0, (WEP [(167772160, Some 24)] [] 1%nat None), (167772160, Some 24).
  repeat split; try reflexivity. left. reflexivity.
Qed.

(* Non-vacuity of the hypotheses of c41_set_exact / c41_no_bypass: the example history is well-formed and has an execution. *)
Example c41_exec_example :
  exists st dp, exec V4 init None ex_history st dp /\ wf_history V4 ex_history = true /\ s_dirty st = false.
Proof.
  destruct (exec_deterministic V4 ex_history init None) as [dp H].
  exists (state_after V4 init ex_history), dp. split; [exact H|]. split; vm_compute; reflexivity.
Qed.
