(* C41 — the rendered offload rule, over the abstract match semantics of Common/Ipt.v, for every packet and every
   content of every IP set. *)
From Coq Require Import List NArith ZArith Bool.
From Verif.Common Require Import Packet Ipt.
From Verif.C41 Require Import Model Spec.
Import ListNotations.
Open Scope N_scope.

Lemma rule_offloads_offload_rule : forall e p,
  rule_offloads e p offload_rule =
  (match pk_ct p with CtEstablished | CtRelated => true | _ => false end)
  && negb (e_sets e NO_OFFLOAD_SET (src_member p))
  && negb (e_sets e NO_OFFLOAD_SET (dst_member p)).
Proof.
  intros e p. unfold rule_offloads, offload_rule, matches. cbn [or_action or_match forallb match_one existsb xorb].
  destruct (pk_ct p); cbn [ctstate_eqb orb];
    destruct (e_sets e NO_OFFLOAD_SET (src_member p)); destruct (e_sets e NO_OFFLOAD_SET (dst_member p)); reflexivity.
Qed.

(* exact characterisation: the model's rule offloads p iff the guard of the specification holds *)
Lemma offload_rule_iff_guard : forall e p, rule_offloads e p offload_rule = guard e p.
Proof. intros. rewrite rule_offloads_offload_rule. reflexivity. Qed.

Lemma offload_rule_guarded : rule_guarded offload_rule.
Proof. intros e p H. rewrite <- offload_rule_iff_guard. exact H. Qed.

(* spelled out, as the property states it *)
Lemma offload_rule_never_bypasses : forall e p,
  rule_offloads e p offload_rule = true ->
  (pk_ct p = CtEstablished \/ pk_ct p = CtRelated)
  /\ e_sets e NO_OFFLOAD_SET (MemIP (pk_src p)) = false
  /\ e_sets e NO_OFFLOAD_SET (MemIP (pk_dst p)) = false.
Proof.
  intros e p H. rewrite rule_offloads_offload_rule in H.
  apply andb_true_iff in H. destruct H as [H Hd]. apply andb_true_iff in H. destruct H as [Hc Hs].
  apply negb_true_iff in Hd. apply negb_true_iff in Hs. split; [|split; assumption].
  destruct (pk_ct p); try discriminate; auto.
Qed.

(* every rule the renderer model emits, in every configuration, is guarded *)
Lemma static_offload_rules_guarded : forall nft enabled l,
  In l (static_offload_rules nft enabled) -> rule_guarded (l_rule l).
Proof.
  intros nft enabled l H. unfold static_offload_rules in H.
  destruct (nft && enabled); [|contradiction]. destruct H as [<-|[]]. exact offload_rule_guarded.
Qed.

(* and it sits at the head of the filter FORWARD chain, only when nftables + offload are both on *)
Lemma static_offload_rules_shape : forall nft enabled,
  static_offload_rules nft enabled =
  if nft && enabled then [ {| l_forward := true; l_index := 0%nat; l_rule := offload_rule |} ] else [].
Proof. reflexivity. Qed.

(* A syntactic sufficient condition, for ANY rule: extra matches only narrow what is offloaded. *)
Definition est_only (sts : list ctstate) : bool :=
  forallb (fun s => match s with CtEstablished | CtRelated => true | _ => false end) sts.
Lemma guarded_by_syntax : forall r sts,
  In (MCtState false sts) (or_match r) -> est_only sts = true ->
  In (MSrcIpSet true NO_OFFLOAD_SET) (or_match r) ->
  In (MDstIpSet true NO_OFFLOAD_SET) (or_match r) ->
  rule_guarded r.
Proof.
  intros r sts Hc Hs Hsrc Hdst e p H. unfold rule_offloads in H. destruct (or_action r).
  unfold matches in H. rewrite forallb_forall in H.
  pose proof (H _ Hc) as H1. pose proof (H _ Hsrc) as H2. pose proof (H _ Hdst) as H3.
  cbn [match_one] in H1, H2, H3. unfold guard.
  destruct (e_sets e NO_OFFLOAD_SET (src_member p)); [discriminate H2|].
  destruct (e_sets e NO_OFFLOAD_SET (dst_member p)); [discriminate H3|].
  cbn [negb] in *. rewrite !andb_true_r.
  destruct (existsb (ctstate_eqb (pk_ct p)) sts) eqn:H1'; [|discriminate H1]. clear H1. rename H1' into H1.
  apply existsb_exists in H1. destruct H1 as [s [Hin Heq]].
  unfold est_only in Hs. rewrite forallb_forall in Hs. specialize (Hs _ Hin).
  unfold already_established. destruct (pk_ct p); destruct s; try discriminate; reflexivity.
Qed.

(* the oracle accepts the model's rule, for both IP versions *)
Lemma ok_rule_offload_rule : forall ver, ok_rule ver offload_rule = true.
Proof. intros []; vm_compute; reflexivity. Qed.

(* and rejects the obvious wrong rules: non-vacuity of the oracle *)
Example ok_rule_rejects_missing_dst :
  ok_rule V4 {| or_match := [MCtState false [CtRelated; CtEstablished]; MSrcIpSet true NO_OFFLOAD_SET]; or_action := OFlowOffload |} = false.
Proof. vm_compute. reflexivity. Qed.
Example ok_rule_rejects_new :
  ok_rule V4 {| or_match := [MCtState false [CtNew; CtEstablished]; MSrcIpSet true 1; MDstIpSet true 1]; or_action := OFlowOffload |} = false.
Proof. vm_compute. reflexivity. Qed.
Example ok_rule_rejects_other_set :
  ok_rule V4 {| or_match := [MCtState false [CtEstablished]; MSrcIpSet true 2; MDstIpSet true 2]; or_action := OFlowOffload |} = false.
Proof. vm_compute. reflexivity. Qed.
Example ok_rule_rejects_unnegated :
  ok_rule V6 {| or_match := [MCtState false [CtEstablished]; MSrcIpSet false 1; MDstIpSet true 1]; or_action := OFlowOffload |} = false.
Proof. vm_compute. reflexivity. Qed.
