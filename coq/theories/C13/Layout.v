(* C13 - generic definitions for comparing two views (Go userspace / C kernel programs) of the
   layout of shared BPF data structures.  The concrete tables are NOT here: they are regenerated
   from the source tree on every run into VerifGen.Gen (see props/C13.py, harness/C13/translate.py).

   All offsets and sizes are in BITS (C bit-fields are first-class rows). *)
From Coq Require Import List NArith String Bool.

(* Names (C struct, member path, Go type, Go field) are interned by the translator: a row carries the number of
   the name, and the generated file has the table `names : list (name * string)` that gives each number its text
   (only for reading; the theorems do not depend on it).  Comparing numbers instead of Coq strings keeps the
   regenerated tables small and the complete enumeration fast. *)
Definition name := N.
Import ListNotations.
Open Scope N_scope.

(* One member of a C record as laid out by clang for the bpf target (full member path, anonymous
   struct/union levels elided as in C member access). *)
Record crow := CRow { c_ver : N; c_struct : name; c_path : name; c_off : N; c_size : N }.

(* One logical field as the Go code reads / writes it. *)
Record grow := GRow { g_ver : N; g_struct : name; g_field : name; g_off : N; g_size : N }.

(* How a Go field relates to the C member(s) it is mapped to.
   Exact      : same first bit, same number of bits.
   Prefix     : same first bit, Go touches a non-empty initial part of the C member (a u8 protocol
                number kept in a u32, a 16-bit port kept in the first half of a be32, a small
                counter...).  Each use is justified in the mapping table of the translator.
   OffsetOnly : the Go side is a bare offset constant that carries no size. *)
Inductive rel := Exact | Prefix | OffsetOnly.

(* Name mapping: Go (struct, field) -> C struct and the consecutive members it covers. *)
Record mrow := MRow { m_ver : N; m_gstruct : name; m_gfield : name;
                      m_cstruct : name; m_cpaths : list name; m_rel : rel }.

Record trow := TRow { t_ver : N; t_name : name; t_size : N }.          (* total sizes, bytes *)
(* tm_ge = false: the Go size equals sizeof of the C type; tm_ge = true: the Go side reserves room that
   must be able to hold the C type (Go size >= sizeof) - used for the policy program's IP set key stack slot,
   which has the IPv6 key size in both families. *)
Record tmrow := TMRow { tm_ver : N; tm_gname : name; tm_cname : name; tm_ge : bool }.

Record tables := Tables {
  T_c : list crow; T_g : list grow; T_m : list mrow;
  T_ctot : list trow; T_gtot : list trow; T_mtot : list tmrow }.

Definition find_m (T : tables) (g : grow) : option mrow :=
  (* nested ifs rather than &&: under call-by-value evaluation the string comparisons are then only run when needed *)
  find (fun m => if N.eqb (m_ver m) (g_ver g) then
                   if N.eqb (m_gstruct m) (g_struct g) then N.eqb (m_gfield m) (g_field g) else false
                 else false) (T_m T).

Definition find_c (T : tables) (ver : N) (s p : name) : option crow :=
  find (fun c => if N.eqb (c_ver c) ver then
                   if N.eqb (c_struct c) s then N.eqb (c_path c) p else false
                 else false) (T_c T).

(* The bit span [off, off+size) covered by consecutive C members; None if a member does not
   exist in the C definition or the members are not adjacent. *)
Fixpoint span_from (T : tables) (ver : N) (s : name) (ps : list name) (off size : N) : option (N * N) :=
  match ps with
  | [] => Some (off, size)
  | p :: ps' =>
      match find_c T ver s p with
      | Some c => if N.eqb (c_off c) (off + size) then span_from T ver s ps' off (size + c_size c) else None
      | None => None
      end
  end.

Definition span (T : tables) (m : mrow) : option (N * N) :=
  match m_cpaths m with
  | [] => None
  | p :: ps =>
      match find_c T (m_ver m) (m_cstruct m) p with
      | Some c => span_from T (m_ver m) (m_cstruct m) ps (c_off c) (c_size c)
      | None => None
      end
  end.

(* ---- specification (what the property says, per Go field) ---- *)

Definition field_offset_agrees (T : tables) (g : grow) : Prop :=
  exists m off sz, find_m T g = Some m /\ span T m = Some (off, sz) /\ g_off g = off.

Definition size_related (r : rel) (gsz csz : N) : Prop :=
  match r with
  | Exact => gsz = csz
  | Prefix => 0 < gsz /\ gsz <= csz
  | OffsetOnly => True
  end.

Definition field_size_agrees (T : tables) (g : grow) : Prop :=
  exists m off sz, find_m T g = Some m /\ span T m = Some (off, sz) /\ size_related (m_rel m) (g_size g) sz.

Definition find_tm (T : tables) (t : trow) : option tmrow :=
  find (fun m => if N.eqb (tm_ver m) (t_ver t) then N.eqb (tm_gname m) (t_name t) else false) (T_mtot T).

Definition find_ct (T : tables) (ver : N) (n : name) : option trow :=
  find (fun c => if N.eqb (t_ver c) ver then N.eqb (t_name c) n else false) (T_ctot T).

Definition total_agrees (T : tables) (t : trow) : Prop :=
  exists m c, find_tm T t = Some m /\ find_ct T (t_ver t) (tm_cname m) = Some c /\
              if tm_ge m then t_size c <= t_size t else t_size t = t_size c.

(* No stale mapping: every mapping line is about a field the Go code (still) has. *)
Definition mapping_used (T : tables) (m : mrow) : Prop :=
  exists g, In g (T_g T) /\ g_ver g = m_ver m /\ g_struct g = m_gstruct m /\ g_field g = m_gfield m.

(* ---- boolean oracles ---- *)

Definition offset_okb (T : tables) (g : grow) : bool :=
  match find_m T g with
  | Some m => match span T m with Some (off, _) => N.eqb (g_off g) off | None => false end
  | None => false
  end.

Definition size_relatedb (r : rel) (gsz csz : N) : bool :=
  match r with
  | Exact => N.eqb gsz csz
  | Prefix => N.ltb 0 gsz && N.leb gsz csz
  | OffsetOnly => true
  end.

Definition size_okb (T : tables) (g : grow) : bool :=
  match find_m T g with
  | Some m => match span T m with Some (_, sz) => size_relatedb (m_rel m) (g_size g) sz | None => false end
  | None => false
  end.

Definition total_okb (T : tables) (t : trow) : bool :=
  match find_tm T t with
  | Some m => match find_ct T (t_ver t) (tm_cname m) with
              | Some c => if tm_ge m then N.leb (t_size c) (t_size t) else N.eqb (t_size t) (t_size c)
              | None => false end
  | None => false
  end.

Definition mapping_usedb (T : tables) (m : mrow) : bool :=
  existsb (fun g => if N.eqb (g_ver g) (m_ver m) then
                      if N.eqb (g_struct g) (m_gstruct m) then N.eqb (g_field g) (m_gfield m) else false
                    else false) (T_g T).

(* diagnostics: positions (0-based) of the rows a check rejects *)
Fixpoint bad_from {A} (f : A -> bool) (l : list A) (i : N) : list N :=
  match l with
  | [] => []
  | x :: l' => if f x then bad_from f l' (i + 1) else i :: bad_from f l' (i + 1)
  end.
Definition bad {A} (f : A -> bool) (l : list A) : list N := bad_from f l 0.

Definition rows_of (ver : N) (l : list grow) := filter (fun g => N.eqb (g_ver g) ver) l.
Definition totals_of (ver : N) (l : list trow) := filter (fun t => N.eqb (t_ver t) ver) l.

(* selecting / removing rows by position: used by the generated Gen.v to split the complete tables
   (VerifGen.all.GenAll) into the tables the theorems are about and the rows of recorded findings *)
Fixpoint indexed_from {A} (l : list A) (i : N) : list (N * A) :=
  match l with [] => [] | x :: l' => (i, x) :: indexed_from l' (i + 1) end.
Definition pick_idx {A} (l : list A) (idx : list N) : list A :=
  map snd (filter (fun p => existsb (N.eqb (fst p)) idx) (indexed_from l 0)).
Definition drop_idx {A} (l : list A) (idx : list N) : list A :=
  map snd (filter (fun p => negb (existsb (N.eqb (fst p)) idx)) (indexed_from l 0)).
