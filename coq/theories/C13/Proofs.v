(* C13 - soundness of the boolean oracles w.r.t. the specification, and the lifting of a complete
   enumeration (forallb over the generated finite table) to a universally quantified statement. *)
From Coq Require Import List NArith String Bool.
From Verif.C13 Require Import Layout.
Import ListNotations.
Open Scope string_scope.
Open Scope N_scope.

Lemma offset_okb_sound : forall T g, offset_okb T g = true -> field_offset_agrees T g.
Proof.
  intros T g H. unfold offset_okb in H.
  destruct (find_m T g) as [m|] eqn:Hm; [|discriminate].
  destruct (span T m) as [[off sz]|] eqn:Hs; [|discriminate].
  apply N.eqb_eq in H. exists m, off, sz. auto.
Qed.

Lemma size_relatedb_sound : forall r a b, size_relatedb r a b = true -> size_related r a b.
Proof.
  intros [] a b H; simpl in *.
  - now apply N.eqb_eq.
  - apply andb_true_iff in H as [H1 H2]. split; [now apply N.ltb_lt | now apply N.leb_le].
  - exact I.
Qed.

Lemma size_okb_sound : forall T g, size_okb T g = true -> field_size_agrees T g.
Proof.
  intros T g H. unfold size_okb in H.
  destruct (find_m T g) as [m|] eqn:Hm; [|discriminate].
  destruct (span T m) as [[off sz]|] eqn:Hs; [|discriminate].
  exists m, off, sz. repeat split; auto. now apply size_relatedb_sound.
Qed.

Lemma total_okb_sound : forall T t, total_okb T t = true -> total_agrees T t.
Proof.
  intros T t H. unfold total_okb in H.
  destruct (find_tm T t) as [m|] eqn:Hm; [|discriminate].
  destruct (find_ct T (t_ver t) (tm_cname m)) as [c|] eqn:Hc; [|discriminate].
  exists m, c. repeat split; auto.
  destruct (tm_ge m); [now apply N.leb_le | now apply N.eqb_eq].
Qed.

Lemma mapping_usedb_sound : forall T m, mapping_usedb T m = true -> mapping_used T m.
Proof.
  intros T m H. unfold mapping_usedb in H. apply existsb_exists in H as [g [Hin H]].
  destruct (N.eqb (g_ver g) (m_ver m)) eqn:H1; [|discriminate].
  destruct (N.eqb (g_struct g) (m_gstruct m)) eqn:H2; [|discriminate].
  exists g. repeat split; auto.
  - now apply N.eqb_eq.
  - now apply N.eqb_eq.
  - now apply N.eqb_eq.
Qed.

(* complete enumeration of a finite table is a proof of the universally quantified statement *)
Lemma all_rows : forall {A} (f : A -> bool) (P : A -> Prop) (l : list A),
  (forall x, f x = true -> P x) -> forallb f l = true -> forall x, In x l -> P x.
Proof. intros A f P l Hs Hall x Hin. apply Hs. rewrite forallb_forall in Hall. now apply Hall. Qed.

Lemma in_rows_of : forall ver l g, In g l -> g_ver g = ver -> In g (rows_of ver l).
Proof. intros ver l g Hin Hv. unfold rows_of. apply filter_In. split; auto. now apply N.eqb_eq. Qed.

Lemma in_totals_of : forall ver l t, In t l -> t_ver t = ver -> In t (totals_of ver l).
Proof. intros ver l t Hin Hv. unfold totals_of. apply filter_In. split; auto. now apply N.eqb_eq. Qed.

(* the oracles are not vacuous: a consistent two-row example is accepted, a shifted one is not *)
(* names: 1 = "s", 2 = "a", 3 = "b", 10 = "G", 11 = "A", 12 = "B", 13 = "unmapped", 20 = "len(G)" *)
Example ex_tables : tables := Tables
  [CRow 4 1 2 0 32; CRow 4 1 3 32 16]
  [GRow 4 10 11 0 8; GRow 4 10 12 32 16]
  [MRow 4 10 11 1 [2] Prefix; MRow 4 10 12 1 [3] Exact]
  [TRow 4 1 8] [TRow 4 20 8] [TMRow 4 20 1 false].
Example ex_ok : forallb (offset_okb ex_tables) (T_g ex_tables) = true
             /\ forallb (size_okb ex_tables) (T_g ex_tables) = true
             /\ forallb (total_okb ex_tables) (T_gtot ex_tables) = true.
Proof. vm_compute. auto. Qed.
Example ex_shifted_rejected : offset_okb ex_tables (GRow 4 10 12 40 16) = false
                           /\ size_okb ex_tables (GRow 4 10 12 32 8) = false
                           /\ offset_okb ex_tables (GRow 4 10 13 0 8) = false.
Proof. vm_compute. auto. Qed.

(* completeness: used to REFUTE the property on a concrete row (a finding) *)
Lemma offset_okb_complete : forall T g, field_offset_agrees T g -> offset_okb T g = true.
Proof.
  intros T g (m & off & sz & Hm & Hs & He). unfold offset_okb. rewrite Hm, Hs. now apply N.eqb_eq.
Qed.

Lemma size_relatedb_complete : forall r a b, size_related r a b -> size_relatedb r a b = true.
Proof.
  intros [] a b H; simpl in *.
  - now apply N.eqb_eq.
  - destruct H as [H1 H2]. apply andb_true_iff. split; [now apply N.ltb_lt | now apply N.leb_le].
  - reflexivity.
Qed.

Lemma size_okb_complete : forall T g, field_size_agrees T g -> size_okb T g = true.
Proof.
  intros T g (m & off & sz & Hm & Hs & He). unfold size_okb. rewrite Hm, Hs. now apply size_relatedb_complete.
Qed.

Lemma total_okb_complete : forall T t, total_agrees T t -> total_okb T t = true.
Proof.
  intros T t (m & c & Hm & Hc & He). unfold total_okb. rewrite Hm, Hc.
  destruct (tm_ge m); [now apply N.leb_le | now apply N.eqb_eq].
Qed.

Lemma field_refuted : forall T g, offset_okb T g && size_okb T g = false ->
  ~ (field_offset_agrees T g /\ field_size_agrees T g).
Proof.
  intros T g H [Ho Hs]. rewrite (offset_okb_complete _ _ Ho), (size_okb_complete _ _ Hs) in H. discriminate.
Qed.

Lemma total_refuted : forall T t, total_okb T t = false -> ~ total_agrees T t.
Proof. intros T t H Ht. rewrite (total_okb_complete _ _ Ht) in H. discriminate. Qed.

(* The boolean oracles DECIDE the specification (both directions), and the diagnostics list the
   check prints its witnesses from is empty exactly when the enumeration succeeds. *)
Lemma oracles_decide_spec : forall T,
  (forall g, offset_okb T g = true <-> field_offset_agrees T g) /\
  (forall g, size_okb T g = true <-> field_size_agrees T g) /\
  (forall t, total_okb T t = true <-> total_agrees T t).
Proof.
  intro T. repeat split.
  - apply offset_okb_sound. - apply offset_okb_complete.
  - apply size_okb_sound. - apply size_okb_complete.
  - apply total_okb_sound. - apply total_okb_complete.
Qed.

Lemma bad_from_nil_iff : forall {A} (f : A -> bool) l i, bad_from f l i = [] <-> forallb f l = true.
Proof.
  intros A f l. induction l as [|x l IH]; intro i; simpl.
  - tauto.
  - destruct (f x); simpl.
    + apply IH.
    + split; discriminate.
Qed.

Lemma bad_nil_iff : forall {A} (f : A -> bool) l, bad f l = [] <-> forallb f l = true.
Proof. intros. apply bad_from_nil_iff. Qed.
