(* C12/ProofsExample.v — the hypotheses of c12_agree are satisfiable by a non-trivial state (ProofsFinal.ex_*:
   two tiers, a staged policy, a NET set and a service set, a profile; pinned variants everywhere): an iptables and an
   nftables rendering with different policy groupings and chain names, the BPF view, and the allowed TCP packet. *)
From Coq Require Import List NArith Bool Lia String.
From Verif.Common Require Import Packet PolicyRef Ipt.
From Verif.C08 Require Import Model Spec ProofsFilter.
From Verif.C08 Require Proofs.
From Verif.C09 Require Import Model ProofsPolicy ProofsQos ProofsModel.
From Verif.C09 Require Spec.
From Verif.C11 Require Import Bpf Model.
From Verif.C11 Require Spec ProofsMain ProofsSets ProofsFinal.
From Verif.C12 Require Import Model Spec Proofs ProofsChecker ProofsAgree ProofsFinal.
Import ListNotations.
Open Scope N_scope.
Open Scope string_scope.

Definition ex_ci : cfg := C08.Proofs.cfg0 false.                          (* iptables, unfixed renderer *)
Definition ex_cn : cfg :=
  {| c_flavor := Nft; c_accept := c_accept ex_ci; c_pass := c_pass ex_ci; c_drop := c_drop ex_ci;
     c_scratch0 := c_scratch0 ex_ci; c_scratch1 := c_scratch1 ex_ci; c_flowlogs := true; c_untracked := false;
     c_deny := DenyReject; c_log_limit := false; c_fixed := false |}.
Definition ex_ec : ecfg := Build_ecfg TNormal true None AllowAccept true None false false false false.
Definition ex_env : Ipt.env := {| Ipt.e_sets := ref_sets V4 ex_tbl; e_other := fun _ _ => true |}.

Definition r_pass_tcp : rule := with_proto (any_rule Pass) 6.
Definition r_allow_80 : rule := with_dst_ports (with_proto (with_src_set allow_rule 1) 6) [(80, 80)%N].
(* iptables: both policies of tier 1 in one group; nftables: one group per policy *)
Definition ex_mt_i : list mtier :=
  [ Build_mtier [Build_mgroup "g1" [Build_mpolicy "p1" false [r_pass_tcp]; Build_mpolicy "p2" true [any_rule Deny]]] DefaultDeny;
    Build_mtier [Build_mgroup "g2" [Build_mpolicy "p3" false [r_allow_80]]] DefaultDeny ].
Definition ex_mt_n : list mtier :=
  [ Build_mtier [Build_mgroup "ga" [Build_mpolicy "pa" false [r_pass_tcp]]; Build_mgroup "gb" [Build_mpolicy "pb" true [any_rule Deny]]] DefaultDeny;
    Build_mtier [Build_mgroup "gc" [Build_mpolicy "pc" false [r_allow_80]]] DefaultDeny ].
Definition ex_mp : list mprofile := [Build_mprofile "f1" [any_rule Deny]].

Definition ex_bpf_env : Bpf.env :=
  {| e_v6 := false; e_state_fd := 12; e_ipsets_fd := 11; e_jump_fd := 14; Bpf.e_sets := ex_tbl; e_progs := [] |}.

Lemma ex_rule_ok : forall c mt, marks_ok c = true ->
  (forall r, In r (all_rules mt ex_mp) -> r = r_pass_tcp \/ r = r_allow_80 \/ r = any_rule Deny) ->
  forall r, In r (all_rules mt ex_mp) -> rule_ok c ex_env r.
Proof.
  intros c mt Hm Hall r Hr. apply rule_ok_few_blocks; [exact Hm| |].
  - destruct (Hall r Hr) as [ -> | [ -> | -> ] ]; unfold in_domain; destruct (c_flavor c); reflexivity.
  - destruct (Hall r Hr) as [ -> | [ -> | -> ] ]; intros [|]; vm_compute; auto.
Qed.

Lemma ex_ipt_hyps : ipt_hyps ex_ci ex_env ex_ec V4 "ep" ex_mt_i ex_mp ex_tbl ex_tiers ex_profs tcp_packet.
Proof.
  constructor; try reflexivity.
  - intros k p p' _. reflexivity.
  - cbn. repeat constructor; cbn; intuition discriminate.
  - apply ex_rule_ok; [reflexivity|]. intros r Hr. cbn in Hr. intuition.
Qed.

Lemma ex_nft_hyps : ipt_hyps ex_cn ex_env ex_ec V4 "ep" ex_mt_n ex_mp ex_tbl ex_tiers ex_profs tcp_packet.
Proof.
  constructor; try reflexivity.
  - intros k p p' _. reflexivity.
  - cbn. repeat constructor; cbn; intuition discriminate.
  - apply ex_rule_ok; [reflexivity|]. intros r Hr. cbn in Hr. intuition.
Qed.

Lemma ex_bpf_hyps :
  bpf_hyps V4 ex_tbl (C11.ProofsSets.table_kind ex_tbl) (set_lookup ex_bpf_env) (bpf_rules no_name no_name ex_tiers ex_profs) tcp_packet.
Proof.
  constructor.
  - exact (C11.ProofsFinal.c11_table_sets_agree_pf ex_bpf_env eq_refl).
  - intros [| |]; vm_compute; reflexivity.
  - reflexivity.
  - reflexivity.
Qed.

Lemma agree_hyps_satisfiable_pf :
  state_in_fragment pinned_kvariant V4 ex_tbl ex_tiers ex_profs = true /\ packet_in_fragment tcp_packet = true
  /\ wf_packet tcp_packet /\ pk_ct tcp_packet = CtNew
  /\ ipt_hyps ex_ci ex_env ex_ec V4 "ep" ex_mt_i ex_mp ex_tbl ex_tiers ex_profs tcp_packet
  /\ ipt_hyps ex_cn ex_env ex_ec V4 "ep" ex_mt_n ex_mp ex_tbl ex_tiers ex_profs tcp_packet
  /\ bpf_hyps V4 ex_tbl (C11.ProofsSets.table_kind ex_tbl) (set_lookup ex_bpf_env) (bpf_rules no_name no_name ex_tiers ex_profs) tcp_packet
  /\ vd_of_ref (ref_verdict V4 ex_tbl ex_tiers ex_profs tcp_packet) = VdAllow
  /\ List.length (render_endpoint ex_ec ex_ci V4 "ep" ex_mt_i ex_mp) = 4%nat.
Proof.
  split; [reflexivity|]. split; [reflexivity|]. split; [split; vm_compute; reflexivity|]. split; [reflexivity|].
  split; [exact ex_ipt_hyps|]. split; [exact ex_nft_hyps|]. split; [exact ex_bpf_hyps|]. split; reflexivity.
Qed.
