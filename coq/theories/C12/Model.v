(* C12/Model.v — Gallina model of the application-layer policy checker, L3/L4 part
   (app-policy/checker/check.go, match.go; IP sets of app-policy/policystore/ipset.go).  Definitions only.

   Go                                           here
   -------------------------------------------  ------------------------------------------------
   checkTiers (tier loop, staged skip,          chk_tiers / chk_policies / end-of-tier default
     missing policy, pass, end-of-tier default)
   checkTiers (profile loop)                    chk_profiles
   checkPolicy / checkProfile / checkRules      chk_rules  (first matching non-Log rule decides)
   match = matchSource && matchDestination      chk_match
     && matchRequest && matchL4Protocol
   matchSrcNet / matchDstNet (+Not)             chk_nets_pos / negb existsb in_cidr
   matchSrcPort / matchDstPort (+Not)           chk_ports_pos / chk_ports_neg
   matchSrcIPSets / matchDstIPSets              chk_sets_all / chk_sets_none over store_has_ip
   matchDstIPPortSetIds                         chk_sets_all over store_has_ipport
   matchL4Protocol                              chk_proto
   policystore ipNetSet.Contains (trie+bitmap)  net_hit
   policystore ipPortMapSet.Contains            store_has_ipport (exact "<ip>,<proto name>:<port>" key)

   The rule is PolicyRef.rule (felix/proto Rule restricted to the fields that reach the packet filters), the IP-set
   store is the member table of C11 (`list (N * list set_entry)`: ECidr = member of a NET set, EPort = member
   "<ip>,<tcp|udp|sctp>:<port>" of an IP_AND_PORT set).

   What the checker does NOT look at (so neither does this model): Rule.ip_version (unless the tree carries the
   repair, see kv_ipver), Rule.icmp / not_icmp, and - in effect, on the pinned tree - named-port sets: matchPort asks
   the set for the bare decimal port ("8080") while the members of such a set are "<ip>,<proto>:<port>" strings, so
   the lookup never hits (kv_named = the repaired lookup with the "<ip>,<proto>:<port>" key of the flow).
   HTTP / service-account / namespace matches are outside PolicyRef.rule: the flow carries no principal and no HTTP
   data, for which those matches are vacuously true in match.go. *)
From Coq Require Import List NArith Bool.
From Verif.Common Require Import Packet PolicyRef.
From Verif.C11 Require Import Bpf.
Import ListNotations.
Open Scope N_scope.

(* Variant of the Go code the model follows (each flag probed from the tree under test by the driver):
   kv_profile_pass_next : a matching Pass rule of a PROFILE moves on to the next profile (as iptables/nftables/BPF and
                          PolicyRef do) instead of denying the request
   kv_default_lenient   : a tier whose DefaultAction string is not allow/deny/pass (Felix sends "" for a tier without
                          one) ends in deny (as `DefaultAction != "Pass"` does in the other dataplanes) instead of
                          failing the evaluation with INVALID_ARGUMENT
   kv_ipver             : match() honours Rule.ip_version
   kv_trie              : ipNetSet lookup also finds member CIDRs with a prefix length strictly between (w-8) and w
   kv_named             : matchPort / matchNotPort look named-port sets up with the "<ip>,<proto>:<port>" key *)
Record kvariant := { kv_profile_pass_next : bool; kv_default_lenient : bool; kv_ipver : bool; kv_trie : bool; kv_named : bool }.
Definition fixed_kvariant : kvariant :=
  {| kv_profile_pass_next := true; kv_default_lenient := true; kv_ipver := true; kv_trie := true; kv_named := true |}.
Definition pinned_kvariant : kvariant :=
  {| kv_profile_pass_next := false; kv_default_lenient := false; kv_ipver := false; kv_trie := false; kv_named := false |}.

(* ------------------------------------------------------------------ input: endpoint + policy store *)
Inductive kdefault := KdDeny | KdPass | KdUnset.     (* TierInfo.DefaultAction: "Deny" / "Pass" / "" *)
Record kpolicy := {
  kp_staged : bool;              (* model.KindIsStaged(kind) *)
  kp_present : bool;             (* store.PolicyByID has it *)
  kp_rules : list rule           (* InboundRules / OutboundRules, whichever the direction selects *)
}.
Record ktier := { kt_policies : list kpolicy; kt_default : kdefault }.
Record kprofile := { kf_present : bool; kf_rules : list rule }.
Definition sets_table := list (N * list set_entry).

(* ------------------------------------------------------------------ policystore IP sets *)
(* ipNetSet.Contains: walk the trie from the root; a node that is a member (a CIDR ends there) answers true; the
   node at depth w-8 carries a bitmap of the /w members below it and answers from the bitmap WITHOUT descending
   further: members of length w-7 .. w-1 are never found (kv_trie = the repaired lookup). *)
Definition net_hit (kv : kvariant) (w : N) (a c l : N) : bool :=
  (l <=? w) && N.eqb (N.shiftr a (w - l)) (N.shiftr c (w - l))
  && (kv_trie kv || (l <=? w - 8) || N.eqb l w).

Definition store_has_ip (kv : kvariant) (w : N) (ens : list set_entry) (a : N) : bool :=
  existsb (fun en => match en with ECidr c l => net_hit kv w a c l | EPort _ _ _ => false end) ens.

(* getDstIPProtoPortStr: "<ip>,<name>:<port>" with name from protocolMapL4 = {1: icmp, 6: tcp, 17: udp}, "" otherwise;
   members are written by Felix with tcp / udp / sctp: only tcp and udp keys can be equal to a member *)
Definition store_has_ipport (ens : list set_entry) (a pr po : N) : bool :=
  (N.eqb pr 6 || N.eqb pr 17)
  && existsb (fun en => match en with EPort a' pr' po' => N.eqb a a' && N.eqb pr pr' && N.eqb po po' | ECidr _ _ => false end) ens.

(* matchIPSetsAll / matchIPSetsNotAny: a set id the store does not know is skipped *)
Definition chk_sets_all (tbl : sets_table) (ids : list N) (has : list set_entry -> bool) : bool :=
  forallb (fun id => match assoc id tbl with None => true | Some ens => has ens end) ids.
Definition chk_sets_none (tbl : sets_table) (ids : list N) (has : list set_entry -> bool) : bool :=
  forallb (fun id => match assoc id tbl with None => true | Some ens => negb (has ens) end) ids.

(* ------------------------------------------------------------------ one rule (match.go) *)
Definition chk_nets_pos (nets : list cidr) (v : ipver) (x : N) : bool :=
  is_nil nets || existsb (fun c => in_cidr c v x) nets.
Definition chk_nets_neg (nets : list cidr) (v : ipver) (x : N) : bool :=
  negb (existsb (fun c => in_cidr c v x) nets).
(* matchPort / matchNotPort: on the pinned tree the named-port lookups never hit (see header); an unknown set is skipped *)
Definition chk_named_hit (kv : kvariant) (tbl : sets_table) (named : list N) (a pr port : N) : bool :=
  kv_named kv
  && existsb (fun id => match assoc id tbl with None => false | Some ens => store_has_ipport ens a pr port end) named.
Definition chk_ports_pos (kv : kvariant) (tbl : sets_table) (ranges : list port_range) (named : list N) (a pr port : N) : bool :=
  (is_nil ranges && is_nil named) || in_ranges ranges port || chk_named_hit kv tbl named a pr port.
Definition chk_ports_neg (kv : kvariant) (tbl : sets_table) (ranges : list port_range) (named : list N) (a pr port : N) : bool :=
  (is_nil ranges && is_nil named) || negb (in_ranges ranges port || chk_named_hit kv tbl named a pr port).
Definition chk_proto (r : rule) (p : packet) : bool :=
  (1 <=? pk_proto p) && (pk_proto p <=? 255)
  && opt_ok (r_proto r) (N.eqb (pk_proto p))
  && opt_ok (r_not_proto r) (fun n => negb (N.eqb (pk_proto p) n)).
Definition chk_ipver (kv : kvariant) (r : rule) (v : ipver) : bool :=
  if kv_ipver kv then opt_ok (r_ipver r) (ipver_eqb v) else true.

Definition chk_match (kv : kvariant) (tbl : sets_table) (r : rule) (p : packet) : bool :=
  let v := pk_ver p in
  let w := addr_width v in
  (* matchSource *)
  chk_sets_all tbl (r_src_ipsets r) (fun ens => store_has_ip kv w ens (pk_src p))
  && chk_sets_none tbl (r_not_src_ipsets r) (fun ens => store_has_ip kv w ens (pk_src p))
  && chk_ports_pos kv tbl (r_src_ports r) (r_src_named_ports r) (pk_src p) (pk_proto p) (pk_sport p)
  && chk_ports_neg kv tbl (r_not_src_ports r) (r_not_src_named_ports r) (pk_src p) (pk_proto p) (pk_sport p)
  && chk_nets_pos (r_src_nets r) v (pk_src p)
  && chk_nets_neg (r_not_src_nets r) v (pk_src p)
  (* matchDestination *)
  && chk_sets_all tbl (r_dst_ipsets r) (fun ens => store_has_ip kv w ens (pk_dst p))
  && chk_sets_none tbl (r_not_dst_ipsets r) (fun ens => store_has_ip kv w ens (pk_dst p))
  && chk_sets_all tbl (r_dst_ipport_sets r) (fun ens => store_has_ipport ens (pk_dst p) (pk_proto p) (pk_dport p))
  && chk_ports_pos kv tbl (r_dst_ports r) (r_dst_named_ports r) (pk_dst p) (pk_proto p) (pk_dport p)
  && chk_ports_neg kv tbl (r_not_dst_ports r) (r_not_dst_named_ports r) (pk_dst p) (pk_proto p) (pk_dport p)
  && chk_nets_pos (r_dst_nets r) v (pk_dst p)
  && chk_nets_neg (r_not_dst_nets r) v (pk_dst p)
  (* matchL4Protocol (+ ip_version with the repair) *)
  && chk_proto r p
  && chk_ipver kv r v.

(* ------------------------------------------------------------------ checkRules *)
Inductive caction := CAllow | CDeny | CPass | CNoMatch.
Fixpoint chk_rules (kv : kvariant) (tbl : sets_table) (rules : list rule) (p : packet) : caction :=
  match rules with
  | [] => CNoMatch
  | r :: rs =>
      if chk_match kv tbl r p then
        match r_action r with
        | Allow => CAllow | Deny => CDeny | Pass => CPass
        | Log => chk_rules kv tbl rs p
        end
      else chk_rules kv tbl rs p
  end.

(* ------------------------------------------------------------------ checkTiers *)
(* status codes: OK, PERMISSION_DENIED, INTERNAL (policy missing from the store), INVALID_ARGUMENT (bad action) *)
Inductive cres := ROk | RDenied | RInternal | RInvalid.

(* the policy loop of one tier: a final status, or (some policy was in scope, last action) *)
Fixpoint chk_policies (kv : kvariant) (tbl : sets_table) (d : kdefault) (pols : list kpolicy) (p : packet)
         (inscope : bool) (act : caction) : cres + (bool * caction) :=
  match pols with
  | [] => inr (inscope, act)
  | q :: qs =>
      if kp_staged q then chk_policies kv tbl d qs p inscope act
      else if negb (kp_present q) then inl RInternal
      else match chk_rules kv tbl (kp_rules q) p with
           | CNoMatch =>
               (* the first no-match builds the tier-default RuleID: ruleActionFromStr(tier.DefaultAction) panics
                  on a string that is not allow/deny/pass -> INVALID_ARGUMENT *)
               match d with
               | KdUnset => if kv_default_lenient kv then chk_policies kv tbl d qs p true CNoMatch else inl RInvalid
               | _ => chk_policies kv tbl d qs p true CNoMatch
               end
           | CAllow => inl ROk
           | CDeny => inl RDenied
           | CPass => inr (true, CPass)
           end
  end.

Definition is_no_match (a : caction) : bool := match a with CNoMatch => true | _ => false end.
Definition is_kd_pass (d : kdefault) : bool := match d with KdPass => true | _ => false end.

Fixpoint chk_profiles (kv : kvariant) (tbl : sets_table) (profs : list kprofile) (p : packet) : cres :=
  match profs with
  | [] => RDenied
  | f :: rest =>
      if negb (kf_present f) then chk_profiles kv tbl rest p      (* Action(INTERNAL) matches no case: next profile *)
      else match chk_rules kv tbl (kf_rules f) p with
           | CNoMatch => chk_profiles kv tbl rest p
           | CAllow => ROk
           | CDeny => RDenied
           | CPass => if kv_profile_pass_next kv then chk_profiles kv tbl rest p else RDenied
           end
  end.

Fixpoint chk_tiers (kv : kvariant) (tbl : sets_table) (tiers : list ktier) (profs : list kprofile) (p : packet) : cres :=
  match tiers with
  | [] => chk_profiles kv tbl profs p
  | t :: ts =>
      match chk_policies kv tbl (kt_default t) (kt_policies t) p false CNoMatch with
      | inl s => s
      | inr (inscope, act) =>
          if inscope && is_no_match act && negb (is_kd_pass (kt_default t)) then RDenied
          else chk_tiers kv tbl ts profs p
      end
  end.

(* checkStore *)
Definition chk_endpoint := chk_tiers.
