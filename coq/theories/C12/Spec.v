(* C12/Spec.v — what the property says; the observation of the four real implementations; the COMMON FRAGMENT;
   the case record and check_case.

   Property: "For the same endpoint policy state and packet, the iptables, nftables and BPF dataplanes and the
   application-layer policy checker reach the same allow/deny verdict (for rules all of them support)."

   One endpoint policy state (Model.ktier / kprofile / sets_table: tiers of staged / enforced policies with a default
   action, profiles, IP-set members) and one packet are read by
     - the iptables and the nftables renderers (felix/rules): chains evaluated by Common/Ipt.v; allow = the endpoint
       chain RETURNs with the accept mark set, deny = DROP / REJECT;
     - the BPF policy-program builder (felix/bpf/polprog): instruction words executed by C11/Bpf.v; allow = pol_rc 1 +
       tail call to the allow epilogue, deny = pol_rc 2 + tail call to the deny epilogue;
     - the checker (app-policy/checker): allow = status OK, every other status = not allowed.
   The reference they are all compared with is Common/PolicyRef.endpoint_verdict. *)
From Coq Require Import List NArith ZArith Bool String.
From Verif.Common Require Import Packet PolicyRef Ipt.
From Verif.C08 Require Import Model.
From Verif.C08 Require Spec.
From Verif.C09 Require Import Model.
From Verif.C09 Require Spec.
From Verif.C11 Require Import Bpf Model.
From Verif.C11 Require Spec.
From Verif.C12 Require Import Model.
Import ListNotations.
Open Scope N_scope.

(* ------------------------------------------------------------------ the reference reading of the state *)
Definition ref_policy (q : kpolicy) : policy := {| pol_staged := kp_staged q; pol_rules := kp_rules q |}.
Definition ref_default (d : kdefault) : tier_default := match d with KdPass => DefaultPass | _ => DefaultDeny end.
Definition ref_tier (t : ktier) : tier :=
  {| t_policies := map ref_policy (kt_policies t); t_default := ref_default (kt_default t) |}.
Definition ref_sets (v : ipver) (tbl : sets_table) : ipsets := C11.Spec.ref_sets (addr_width v) tbl.
Definition ref_verdict (v : ipver) (tbl : sets_table) (tiers : list ktier) (profiles : list kprofile) (p : packet) : verdict :=
  endpoint_verdict (ref_sets v tbl) (map ref_tier tiers) (map kf_rules profiles) p.

(* ------------------------------------------------------------------ allow / deny *)
Inductive vd := VdAllow | VdDeny | VdOther.      (* VdOther: no verdict at all (error, fuel, unknown chain ...) *)
Definition vd_eqb (a b : vd) : bool :=
  match a, b with VdAllow, VdAllow | VdDeny, VdDeny | VdOther, VdOther => true | _, _ => false end.
Definition vd_of_ref (x : verdict) : vd := match x with VAllow => VdAllow | _ => VdDeny end.

(* iptables / nftables: result of running the endpoint chain *)
Definition ipt_vd (c : cfg) (res : result) : vd :=
  match res with
  | RReturn p' => if mark_has (pk_mark p') (c_accept c) then VdAllow else VdOther
  | RDone FDrop _ | RDone FReject _ => VdDeny
  | _ => VdOther
  end.

(* BPF: observation of one run of the real instruction stream (C11.Spec.observe) *)
Definition bpf_vd (o : option (rverdict * bool)) : vd :=
  match o with Some (RAllow, _) => VdAllow | Some (RDeny, _) => VdDeny | _ => VdOther end.

(* checker: status code of checkStore; OK allows, everything else (PERMISSION_DENIED, INTERNAL, INVALID_ARGUMENT)
   does not *)
Definition cres_code (r : cres) : N := match r with ROk => 0 | RDenied => 1 | RInternal => 2 | RInvalid => 3 end.
Definition chk_vd_code (code : N) : vd := if N.eqb code 0 then VdAllow else VdDeny.
Definition chk_vd (r : cres) : vd := chk_vd_code (cres_code r).

(* THE ORACLE: the four verdicts for one packet are the same - and are the reference verdict *)
Definition ok_agree (ref ipt nft bpf chk : vd) : bool :=
  vd_eqb ipt nft && vd_eqb nft bpf && vd_eqb bpf chk && vd_eqb chk ref.

(* ------------------------------------------------------------------ the BPF dataplane's reading of the state *)
(* bpfEndpointManager.extractTiers / extractProfiles: tiers without policies for the direction are not handed over;
   a staged policy leaves an empty slot; the tier ends in deny unless it is staged-only or its DefaultAction is "Pass" *)
Definition mk_brule (nm nnm : rule -> option pname) (r : rule) : brule :=
  {| b_rule := r; b_pname := nm r; b_npname := nnm r |}.
Definition bpf_policy nm nnm (q : kpolicy) : list brule :=
  if kp_staged q then [] else map (mk_brule nm nnm) (kp_rules q).
Definition bpf_tier nm nnm (t : ktier) : btier :=
  {| bt_policies := map (bpf_policy nm nnm) (kt_policies t);
     bt_end := if forallb kp_staged (kt_policies t) || is_kd_pass (kt_default t) then EndPass else EndDeny |}.
Definition bpf_tiers nm nnm (ts : list ktier) : list btier :=
  map (bpf_tier nm nnm) (filter (fun t => negb (is_nil (kt_policies t))) ts).
Definition bpf_rules nm nnm (ts : list ktier) (profiles : list kprofile) : brules :=
  {| br_for_host := false; br_suppress := false; br_xdp := false;
     br_tiers := bpf_tiers nm nnm ts; br_profiles := map (fun f => map (mk_brule nm nnm) (kf_rules f)) profiles;
     br_pre_dnat := []; br_forward := []; br_host_normal := []; br_host_profiles := [] |}.
Definition no_name : rule -> option pname := fun _ => None.

(* the packet as struct cali_tc_state: no NAT (pre = post), flags clear *)
Definition pstate_of (p : packet) : pstate :=
  {| ps_src := pk_src p; ps_pre_dst := pk_dst p; ps_post_dst := pk_dst p;
     ps_sport := pk_sport p; ps_pre_dport := pk_dport p; ps_post_dport := pk_dport p;
     ps_proto := pk_proto p; ps_icmp_type := pk_icmp_type p; ps_icmp_code := pk_icmp_code p; ps_flags := 0 |}.

(* ------------------------------------------------------------------ THE COMMON FRAGMENT *)
(* Rules all four implementations support, as a boolean predicate on (variant of the checker, IP version, store, rule).
   The checker has no ICMP match, (pinned tree) no working named-port match, and (pinned tree) ignores ip_version; it reads a
   negated CIDR list of the other address family as "not in it" where Felix's dataplanes take the rule to be of that
   family (PolicyRef.rule_version_ok); every set the rule names must be in the store (the checker skips unknown
   sets).  C11: at most one positive destination selector set, set ids typed.  C08/C09: at most two positive match
   blocks on a tree without fixes/C08-scratch-bit.patch (stated separately: rule_ok). *)
Definition set_present (tbl : sets_table) (id : N) : bool := match assoc id tbl with Some _ => true | None => false end.
Definition rule_sets (r : rule) : list N :=
  r_src_ipsets r ++ r_dst_ipsets r ++ r_not_src_ipsets r ++ r_not_dst_ipsets r ++ r_dst_ipport_sets r
  ++ r_src_named_ports r ++ r_dst_named_ports r ++ r_not_src_named_ports r ++ r_not_dst_named_ports r.

Definition rule_in_fragment (kv : kvariant) (v : ipver) (tbl : sets_table) (r : rule) : bool :=
  match r_icmp r, r_not_icmp r with None, None => true | _, _ => false end
  && (kv_named kv || (is_nil (r_src_named_ports r) && is_nil (r_dst_named_ports r)
                      && is_nil (r_not_src_named_ports r) && is_nil (r_not_dst_named_ports r)))
  && (kv_ipver kv || match r_ipver r with None => true | Some _ => false end)
  && field_has_version (r_not_src_nets r) v && field_has_version (r_not_dst_nets r) v
  && forallb (set_present tbl) (rule_sets r).

(* the store: NET members the (pinned) trie finds; IP_AND_PORT members of protocols the checker can name (tcp, udp) *)
Definition entry_in_fragment (kv : kvariant) (w : N) (en : set_entry) : bool :=
  match en with
  | ECidr _ l => kv_trie kv || (l <=? w - 8) || N.eqb l w
  | EPort _ pr _ => N.eqb pr 6 || N.eqb pr 17
  end.
Definition store_in_fragment (kv : kvariant) (v : ipver) (tbl : sets_table) : bool :=
  forallb (fun x => forallb (entry_in_fragment kv (addr_width v)) (snd x)) tbl.

Definition policy_in_fragment kv v tbl (q : kpolicy) : bool :=
  kp_staged q || (kp_present q && forallb (rule_in_fragment kv v tbl) (kp_rules q)).
Definition tier_in_fragment kv v tbl (t : ktier) : bool :=
  forallb (policy_in_fragment kv v tbl) (kt_policies t)
  && (kv_default_lenient kv || match kt_default t with KdUnset => false | _ => true end).
Definition profile_in_fragment kv v tbl (f : kprofile) : bool :=
  kf_present f && forallb (rule_in_fragment kv v tbl) (kf_rules f)
  && (kv_profile_pass_next kv || negb (has_pass_rule (kf_rules f))).
Definition state_in_fragment kv v tbl (tiers : list ktier) (profiles : list kprofile) : bool :=
  store_in_fragment kv v tbl && forallb (tier_in_fragment kv v tbl) tiers && forallb (profile_in_fragment kv v tbl) profiles.

(* packets: the checker refuses protocol numbers outside 1..255 *)
Definition packet_in_fragment (p : packet) : bool := (1 <=? pk_proto p) && (pk_proto p <=? 255).

(* ------------------------------------------------------------------ the case record *)
Record case := {
  x_kv : kvariant;                         (* probed from the tree under test *)
  x_ver : ipver;
  x_tiers : list ktier;
  x_profiles : list kprofile;
  x_sets : sets_table;
  x_guard : bool;                          (* the driver generated this case inside the common fragment *)
  (* iptables / nftables: the REAL renderer's chains, parsed from their rendered text; endpoint chain name *)
  x_cfg_ipt : cfg; x_cfg_nft : cfg;
  x_name_ipt : string; x_ipt : chains;
  x_name_nft : string; x_nft : chains;
  (* BPF: the REAL builder's instruction words and the options it was given *)
  x_usejmps : bool; x_allow : N; x_deny : N; x_jump_base : N; x_stride : N;
  x_bpf : C11.Spec.compile_result;
  (* probes and the REAL checker's status code for each (0 OK, 1 PERMISSION_DENIED, 2 INTERNAL, 3 INVALID_ARGUMENT) *)
  x_packets : list packet;
  x_chk : list N
}.

Definition case_env (k : case) : Ipt.env := {| Ipt.e_sets := ref_sets (x_ver k) (x_sets k); e_other := fun _ _ => true |}.
Definition case_fuel : nat := 6.

Definition bpf_case (k : case) : C11.Spec.case :=
  C11.Spec.Build_case (match x_ver k with V6 => true | V4 => false end) fixed_variant (x_usejmps k) (x_allow k) (x_deny k)
    (x_jump_base k) (x_stride k) (bpf_rules no_name no_name (x_tiers k) (x_profiles k)) (x_sets k) (x_bpf k) [] false.

(* verdict of the real BPF program(s) on every packet *)
Definition bpf_vds (k : case) : list vd :=
  let c := bpf_case k in
  match x_bpf k with
  | C11.Spec.COk words =>
      let progs := map decode_prog words in
      match progs with
      | [] => map (fun _ => VdOther) (x_packets k)
      | p0 :: _ =>
          let e := C11.Spec.env_of c progs in
          let entry := tree_of_list p0 in
          map (fun p => bpf_vd (C11.Spec.observe c (C11.Spec.run_real c progs e entry (pstate_of p)))) (x_packets k)
      end
  | _ => map (fun _ => VdOther) (x_packets k)
  end.

Fixpoint zip3 {A B C} (a : list A) (b : list B) (c : list C) : list (A * B * C) :=
  match a, b, c with
  | x :: a', y :: b', z :: c' => (x, y, z) :: zip3 a' b' c'
  | _, _, _ => []
  end.

(* The oracle's domain is the fragment of the REPAIRED checker (fixed_kvariant): the four defect classes the pinned
   checker has are inside it, so that they surface as oracle failures (known findings), not as skipped cases. *)
Definition in_case_fragment (k : case) (p : packet) : bool :=
  x_guard k && state_in_fragment fixed_kvariant (x_ver k) (x_sets k) (x_tiers k) (x_profiles k)
  && packet_in_fragment p && ipver_eqb (pk_ver p) (x_ver k)
  && C09.Spec.entry_mark_ok (x_cfg_ipt k) p.

(* the IR model of C11 on the MODEL of extractTiers / extractProfiles (bpf_rules), with the LPM lookup of Bpf.v *)
Definition bpf_model_case_vd (k : case) (p : packet) : vd :=
  let c := bpf_case k in
  bpf_vd (model_verdict fixed_variant (x_ver k) (bpf_rules no_name no_name (x_tiers k) (x_profiles k))
            (set_lookup (C11.Spec.env_of c [])) (pstate_of p)).

(* check_case k = (the checker MODEL predicts the real checker's status on every probe, and - inside the fragment -
                     C11's IR model on this file's model of extractTiers predicts the real BPF program's verdict,
                   on every probe of the common fragment the four REAL verdicts agree and are the reference verdict) *)
Definition check_case (k : case) : bool * bool :=
  let e := case_env k in
  let rows := zip3 (x_packets k) (bpf_vds k) (x_chk k) in
  ( Nat.eqb (List.length rows) (List.length (x_packets k))
    && forallb (fun row => match row with (p, bv, code) =>
         N.eqb (cres_code (chk_endpoint (x_kv k) (x_sets k) (x_tiers k) (x_profiles k) p)) code
         && (negb (x_guard k) || vd_eqb (bpf_model_case_vd k p) bv) end) rows,
    forallb (fun row => match row with (p, bv, code) =>
         negb (in_case_fragment k p)
         || ok_agree (vd_of_ref (ref_verdict (x_ver k) (x_sets k) (x_tiers k) (x_profiles k) p))
              (ipt_vd (x_cfg_ipt k) (Ipt.run_chain case_fuel (x_ipt k) e (x_name_ipt k) p))
              (ipt_vd (x_cfg_nft k) (Ipt.run_chain case_fuel (x_nft k) e (x_name_nft k) p))
              bv (chk_vd_code code) end) rows ).

(* replay aid: per probe (index, reference, iptables, nftables, bpf, checker, checker model code, in fragment) for the
   probes on which something differs *)
Fixpoint explain_from (k : case) (i : N) (rows : list (packet * vd * N)) : list (N * (vd * vd * vd * vd * vd) * N * bool) :=
  match rows with
  | [] => []
  | (p, bv, code) :: rest =>
      let e := case_env k in
      let rv := vd_of_ref (ref_verdict (x_ver k) (x_sets k) (x_tiers k) (x_profiles k) p) in
      let iv := ipt_vd (x_cfg_ipt k) (Ipt.run_chain case_fuel (x_ipt k) e (x_name_ipt k) p) in
      let nv := ipt_vd (x_cfg_nft k) (Ipt.run_chain case_fuel (x_nft k) e (x_name_nft k) p) in
      let mc := cres_code (chk_endpoint (x_kv k) (x_sets k) (x_tiers k) (x_profiles k) p) in
      let tl := explain_from k (i + 1) rest in
      if ok_agree rv iv nv bv (chk_vd_code code) && N.eqb mc code then tl
      else (i, (rv, iv, nv, bv, chk_vd_code code), mc, in_case_fragment k p) :: tl
  end.
Definition explain_case (k : case) := explain_from k 0 (zip3 (x_packets k) (bpf_vds k) (x_chk k)).

(* Known-finding classification (evaluated only on cases the oracle rejected; the driver generates each finding
   class in its own stream with x_guard = true and the corresponding fragment clause switched off by hand - see
   props/C12.py).  A rejected case belongs to a checker defect class iff the three dataplanes agree with the reference
   on every probe, the checker MODEL of the probed variant predicts every real checker status, and the FIXED checker
   model gives the reference verdict on every probe: the whole disagreement is the modelled variant difference. *)
Definition classify_case (k : case) : bool * bool :=
  let e := case_env k in
  let rows := zip3 (x_packets k) (bpf_vds k) (x_chk k) in
  ( fst (check_case k)
    && forallb (fun row => match row with (p, bv, code) =>
         negb (packet_in_fragment p && ipver_eqb (pk_ver p) (x_ver k) && C09.Spec.entry_mark_ok (x_cfg_ipt k) p)
         || (let rv := vd_of_ref (ref_verdict (x_ver k) (x_sets k) (x_tiers k) (x_profiles k) p) in
             vd_eqb rv (ipt_vd (x_cfg_ipt k) (Ipt.run_chain case_fuel (x_ipt k) e (x_name_ipt k) p))
             && vd_eqb rv (ipt_vd (x_cfg_nft k) (Ipt.run_chain case_fuel (x_nft k) e (x_name_nft k) p))
             && vd_eqb rv bv
             && vd_eqb rv (chk_vd (chk_endpoint fixed_kvariant (x_sets k) (x_tiers k) (x_profiles k) p))) end) rows,
    true ).

(* ------------------------------------------------------------------ short constructors for the driver *)
Definition R := Build_rule.
Definition K (v : ipver) (pr s d sp dp it ic : N) (m : N) : packet :=
  Build_packet v pr s d sp dp it ic [] [] CtNew m.
Definition C4 (a l : N) : cidr := Build_cidr V4 a l.
Definition C6 (a l : N) : cidr := Build_cidr V6 a l.
Definition KP := Build_kpolicy.
Definition KT := Build_ktier.
Definition KF := Build_kprofile.
Definition BOk := C11.Spec.COk.  Definition BPanic := C11.Spec.CPanic.  Definition BError := C11.Spec.CError.
Definition nC : list cidr := [].        Definition nP : list port_range := [].   Definition nN : list N := [].
Definition nE : list set_entry := [].
Definition oN : option N := None.       Definition oV : option ipver := None.
Definition oI : option icmp_match := None.
