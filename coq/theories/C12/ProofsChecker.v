(* C12/ProofsChecker.v — checkRules / checkTiers / profiles of the checker model against PolicyRef, on the fragment. *)
From Coq Require Import List NArith Bool Lia.
From Verif.Common Require Import Packet PolicyRef.
From Verif.C09 Require Import Model.
From Verif.C11 Require Import Bpf.
From Verif.C12 Require Import Model Spec Proofs.
Import ListNotations.
Open Scope N_scope.

Section Checker.
Variables (kv : kvariant) (v : ipver) (tbl : sets_table) (p : packet).
Hypothesis Hstore : store_in_fragment kv v tbl = true.
Hypothesis Hpkt : packet_in_fragment p = true.
Hypothesis Hver : pk_ver p = v.
Let s := ref_sets v tbl.

Definition cact_of (x : verdict) : caction :=
  match x with VAllow => CAllow | VDeny => CDeny | VPass => CPass | VNoMatch => CNoMatch end.

Lemma rules_ref : forall rs, forallb (rule_in_fragment kv v tbl) rs = true ->
  chk_rules kv tbl rs p = cact_of (policy_verdict s rs p).
Proof.
  induction rs as [|r rs IH]; intro H; [reflexivity|].
  simpl in H. apply andb_true_iff in H. destruct H as [Hr Hrs].
  simpl. rewrite (rule_match_ref kv v tbl r p Hstore Hr Hpkt Hver). fold s.
  destruct (rule_matches s r p); [|exact (IH Hrs)].
  destruct (r_action r); try reflexivity. exact (IH Hrs).
Qed.

(* ---- the policy loop of one tier *)
Definition nonstaged_k (pols : list kpolicy) : bool := existsb (fun q => negb (kp_staged q)) pols.

Lemma enforced_nil_iff : forall pols, is_nil (enforced (map ref_policy pols)) = negb (nonstaged_k pols).
Proof.
  induction pols as [|q qs IH]; [reflexivity|].
  unfold enforced, nonstaged_k in *. simpl. destruct (kp_staged q); simpl; [exact IH|reflexivity].
Qed.

Lemma policies_ref : forall d pols inscope act,
  forallb (policy_in_fragment kv v tbl) pols = true ->
  (kv_default_lenient kv || match d with KdUnset => false | _ => true end) = true ->
  chk_policies kv tbl d pols p inscope act =
  match policies_verdict s (enforced (map ref_policy pols)) p with
  | VAllow => inl ROk
  | VDeny => inl RDenied
  | VPass => inr (true, CPass)
  | VNoMatch => inr (inscope || nonstaged_k pols, if nonstaged_k pols then CNoMatch else act)
  end.
Proof.
  intros d pols. induction pols as [|q qs IH]; intros inscope act H Hd.
  - simpl. rewrite orb_false_r. reflexivity.
  - simpl in H. apply andb_true_iff in H. destruct H as [Hq Hqs].
    unfold policy_in_fragment in Hq. unfold enforced, nonstaged_k in *. simpl.
    destruct (kp_staged q) eqn:Est; simpl.
    + exact (IH inscope act Hqs Hd).
    + simpl in Hq. apply andb_true_iff in Hq. destruct Hq as [Hpres Hrules]. rewrite Hpres. simpl.
      rewrite (rules_ref _ Hrules).
      destruct (policy_verdict s (kp_rules q) p) eqn:Ev; simpl; try reflexivity.
      assert (Hgo : chk_policies kv tbl d qs p true CNoMatch =
                    match policies_verdict s (filter (fun q0 => negb (pol_staged q0)) (map ref_policy qs)) p with
                    | VAllow => inl ROk | VDeny => inl RDenied | VPass => inr (true, CPass)
                    | VNoMatch => inr (inscope || true, CNoMatch) end).
      { rewrite (IH true CNoMatch Hqs Hd). rewrite orb_true_r. simpl.
        destruct (policies_verdict s _ p); try reflexivity.
        destruct (existsb (fun q0 => negb (kp_staged q0)) qs); reflexivity. }
      destruct d; try exact Hgo.
      rewrite orb_false_r in Hd. rewrite Hd. exact Hgo.
Qed.

(* ---- profiles *)
Lemma profiles_ref : forall profs, forallb (profile_in_fragment kv v tbl) profs = true ->
  chk_vd (chk_profiles kv tbl profs p) = vd_of_ref (profiles_verdict s (map kf_rules profs) p).
Proof.
  induction profs as [|f rest IH]; intro H; [reflexivity|].
  simpl in H. apply andb_true_iff in H. destruct H as [Hf Hrest].
  unfold profile_in_fragment in Hf. apply andb_true_iff in Hf. destruct Hf as [Hf Hpass].
  apply andb_true_iff in Hf. destruct Hf as [Hpres Hrules].
  simpl. rewrite Hpres. simpl. rewrite (rules_ref _ Hrules).
  destruct (policy_verdict s (kf_rules f) p) eqn:Ev; simpl; try reflexivity; try exact (IH Hrest).
  destruct (kv_profile_pass_next kv) eqn:Ek; [exact (IH Hrest)|].
  (* a Pass verdict needs a Pass rule, which the pinned fragment excludes *)
  exfalso. simpl in Hpass. apply negb_true_iff in Hpass.
  assert (Hx : forall rs, policy_verdict s rs p = VPass -> has_pass_rule rs = true).
  { induction rs as [|r rs IHr]; simpl; intro E; [discriminate|].
    unfold has_pass_rule in *. simpl.
    destruct (rule_matches s r p).
    - destruct (r_action r); try discriminate; simpl; auto.
    - rewrite (IHr E). apply orb_true_r. }
  rewrite (Hx _ Ev) in Hpass. discriminate.
Qed.

(* ---- tiers *)
Lemma tiers_ref : forall tiers profs,
  forallb (tier_in_fragment kv v tbl) tiers = true -> forallb (profile_in_fragment kv v tbl) profs = true ->
  chk_vd (chk_tiers kv tbl tiers profs p) = vd_of_ref (endpoint_verdict s (map ref_tier tiers) (map kf_rules profs) p).
Proof.
  induction tiers as [|t ts IH]; intros profs Ht Hp.
  - simpl. exact (profiles_ref profs Hp).
  - simpl in Ht. apply andb_true_iff in Ht. destruct Ht as [Ht Hts].
    unfold tier_in_fragment in Ht. apply andb_true_iff in Ht. destruct Ht as [Hpols Hd].
    simpl. rewrite (policies_ref (kt_default t) (kt_policies t) false CNoMatch Hpols Hd).
    unfold tier_verdict. simpl t_policies. simpl t_default.
    pose proof (enforced_nil_iff (kt_policies t)) as Hnil.
    destruct (enforced (map ref_policy (kt_policies t))) as [|q0 qs0] eqn:Een.
    + (* no enforced policy: the tier is skipped *)
      simpl in Hnil. symmetry in Hnil. apply negb_true_iff in Hnil. simpl. rewrite Hnil. simpl.
      exact (IH profs Hts Hp).
    + simpl in Hnil. symmetry in Hnil. apply negb_false_iff in Hnil. rewrite Hnil.
      destruct (policies_verdict s (q0 :: qs0) p) eqn:Ev; simpl; try reflexivity.
      * exact (IH profs Hts Hp).
      * destruct (kt_default t); simpl; try reflexivity. exact (IH profs Hts Hp).
Qed.

Lemma checker_verdict : forall tiers profs,
  state_in_fragment kv v tbl tiers profs = true ->
  chk_vd (chk_endpoint kv tbl tiers profs p) = vd_of_ref (ref_verdict v tbl tiers profs p).
Proof.
  intros tiers profs H. unfold state_in_fragment in H.
  apply andb_true_iff in H. destruct H as [H Hp]. apply andb_true_iff in H. destruct H as [_ Ht].
  exact (tiers_ref tiers profs Ht Hp).
Qed.
End Checker.

(* ------------------------------------------------------------------ a staged-only tier is a no-op, unconditionally *)
(* (no fragment hypothesis: holds for every variant, store, rule set and packet) *)
Lemma staged_only_policies : forall kv tbl d pols p inscope act,
  forallb kp_staged pols = true -> chk_policies kv tbl d pols p inscope act = inr (inscope, act).
Proof.
  intros kv tbl d pols p. induction pols as [|q qs IH]; intros inscope act H; [reflexivity|].
  simpl in H. apply andb_true_iff in H. destruct H as [Hq Hqs]. simpl. rewrite Hq. exact (IH inscope act Hqs).
Qed.

Lemma staged_only_tier_checker : forall kv tbl pre t post profs p,
  forallb kp_staged (kt_policies t) = true ->
  chk_tiers kv tbl (pre ++ t :: post) profs p = chk_tiers kv tbl (pre ++ post) profs p.
Proof.
  intros kv tbl pre t post profs p H. induction pre as [|x pre IH]; simpl.
  - rewrite (staged_only_policies kv tbl (kt_default t) (kt_policies t) p false CNoMatch H). reflexivity.
  - destruct (chk_policies kv tbl (kt_default x) (kt_policies x) p false CNoMatch) as [s|[i a]]; [reflexivity|].
    destruct (i && is_no_match a && negb (is_kd_pass (kt_default x))); [reflexivity|exact IH].
Qed.

Lemma staged_only_tier_ref : forall s pre t post pfs p,
  forallb kp_staged (kt_policies t) = true ->
  endpoint_verdict s (map ref_tier (pre ++ t :: post)) pfs p = endpoint_verdict s (map ref_tier (pre ++ post)) pfs p.
Proof.
  intros s pre t post pfs p H. induction pre as [|x pre IH]; simpl.
  - unfold tier_verdict at 1. simpl t_policies.
    assert (E : enforced (map ref_policy (kt_policies t)) = []).
    { clear -H. induction (kt_policies t) as [|q qs IHq]; [reflexivity|]. simpl in H. apply andb_true_iff in H.
      destruct H as [Hq Hqs]. unfold enforced in *. simpl. rewrite Hq. simpl. exact (IHq Hqs). }
    rewrite E. reflexivity.
  - rewrite IH. reflexivity.
Qed.
