(* C12/ProofsAgree.v — the three dataplanes read the same state: iptables / nftables through C09's theorem, BPF through
   C11's; with ProofsChecker this gives c12_agree. *)
From Coq Require Import List NArith Bool Lia String.
From Verif.Common Require Import Packet PolicyRef Ipt.
From Verif.C08 Require Import Model Spec ProofsFilter.
From Verif.C09 Require Import Model ProofsPolicy ProofsQos ProofsModel.
From Verif.C09 Require Spec.
From Verif.C11 Require Import Bpf Model.
From Verif.C11 Require Spec ProofsMain ProofsFinal.
From Verif.C12 Require Import Model Spec Proofs ProofsChecker.
Import ListNotations.
Open Scope N_scope.

(* ------------------------------------------------------------------ PolicyRef depends on the L3/L4 fields only *)
Definition same_l34 (p q : packet) : Prop :=
  pk_ver p = pk_ver q /\ pk_proto p = pk_proto q /\ pk_src p = pk_src q /\ pk_dst p = pk_dst q
  /\ pk_sport p = pk_sport q /\ pk_dport p = pk_dport q
  /\ pk_icmp_type p = pk_icmp_type q /\ pk_icmp_code p = pk_icmp_code q.

Lemma rule_matches_l34 : forall s r p q, same_l34 p q -> rule_matches s r p = rule_matches s r q.
Proof.
  intros s r p q (H1 & H2 & H3 & H4 & H5 & H6 & H7 & H8).
  unfold rule_matches, src_member, dst_member, src_port_member, dst_port_member, icmp_ok.
  rewrite H1, H2, H3, H4, H5, H6.
  replace (opt_ok (r_icmp r) (fun m => match m with IcmpType t => N.eqb (pk_icmp_type p) t
             | IcmpTypeCode t c => N.eqb (pk_icmp_type p) t && N.eqb (pk_icmp_code p) c end))
    with (opt_ok (r_icmp r) (fun m => match m with IcmpType t => N.eqb (pk_icmp_type q) t
             | IcmpTypeCode t c => N.eqb (pk_icmp_type q) t && N.eqb (pk_icmp_code q) c end))
    by (rewrite H7, H8; reflexivity).
  replace (opt_ok (r_not_icmp r) (fun m => negb match m with IcmpType t => N.eqb (pk_icmp_type p) t
             | IcmpTypeCode t c => N.eqb (pk_icmp_type p) t && N.eqb (pk_icmp_code p) c end))
    with (opt_ok (r_not_icmp r) (fun m => negb match m with IcmpType t => N.eqb (pk_icmp_type q) t
             | IcmpTypeCode t c => N.eqb (pk_icmp_type q) t && N.eqb (pk_icmp_code q) c end))
    by (rewrite H7, H8; reflexivity).
  reflexivity.
Qed.

Section L34.
Variables (s : ipsets) (p q : packet).
Hypothesis Hpq : same_l34 p q.

Lemma policy_verdict_l34 : forall rs, policy_verdict s rs p = policy_verdict s rs q.
Proof.
  induction rs as [|r rs IH]; [reflexivity|]. simpl. rewrite (rule_matches_l34 s r p q Hpq), IH. reflexivity.
Qed.
Lemma policies_verdict_l34 : forall ps, policies_verdict s ps p = policies_verdict s ps q.
Proof.
  induction ps as [|x ps IH]; [reflexivity|]. simpl. rewrite policy_verdict_l34, IH. reflexivity.
Qed.
Lemma tier_verdict_l34 : forall t, tier_verdict s t p = tier_verdict s t q.
Proof.
  intro t. unfold tier_verdict. destruct (enforced (t_policies t)) as [|x xs]; [reflexivity|].
  rewrite policies_verdict_l34. reflexivity.
Qed.
Lemma profiles_verdict_l34 : forall pfs, profiles_verdict s pfs p = profiles_verdict s pfs q.
Proof.
  induction pfs as [|x pfs IH]; [reflexivity|]. simpl. rewrite policy_verdict_l34, IH. reflexivity.
Qed.
Lemma endpoint_verdict_l34 : forall ts pfs, endpoint_verdict s ts pfs p = endpoint_verdict s ts pfs q.
Proof.
  induction ts as [|t ts IH]; intro pfs; simpl; [apply profiles_verdict_l34|].
  rewrite tier_verdict_l34, IH. reflexivity.
Qed.
End L34.

(* ------------------------------------------------------------------ BPF: extractTiers keeps the reference verdict *)
Section Extract.
Variables (s : ipsets) (nm nnm : rule -> option pname) (p : packet).

Lemma b_rule_mk : forall rs, map b_rule (map (mk_brule nm nnm) rs) = rs.
Proof. induction rs as [|r rs IH]; [reflexivity|]. simpl. rewrite IH. reflexivity. Qed.

(* the policies of an extracted tier: a staged policy has become an enforced policy without rules *)
Lemma extracted_policies : forall pols,
  policies_verdict s (enforced (map C11.Spec.ref_policy (map (bpf_policy nm nnm) pols))) p
  = policies_verdict s (enforced (map ref_policy pols)) p.
Proof.
  induction pols as [|x pols IH]; [reflexivity|].
  unfold enforced in *. simpl. unfold bpf_policy at 1.
  destruct (kp_staged x) eqn:E; simpl.
  - exact IH.
  - rewrite b_rule_mk. rewrite IH. reflexivity.
Qed.

Lemma extracted_enforced_nonnil : forall pols, pols <> [] ->
  enforced (map C11.Spec.ref_policy (map (bpf_policy nm nnm) pols)) <> [].
Proof. intros [|x pols] H; [congruence|]. unfold enforced. simpl. discriminate. Qed.

Lemma all_staged_enforced_nil : forall pols, forallb kp_staged pols = is_nil (enforced (map ref_policy pols)).
Proof.
  induction pols as [|x pols IH]; [reflexivity|]. unfold enforced in *. simpl.
  destruct (kp_staged x); simpl; [exact IH|reflexivity].
Qed.

Lemma extracted_tier : forall t, kt_policies t <> [] ->
  match tier_verdict s (C11.Spec.ref_tier (bpf_tier nm nnm t)) p with VAllow => VAllow | VDeny => VDeny | _ => VPass end
  = match tier_verdict s (ref_tier t) p with VAllow => VAllow | VDeny => VDeny | _ => VPass end.
Proof.
  intros t Hne. unfold tier_verdict. simpl t_policies. simpl t_default.
  pose proof (extracted_enforced_nonnil _ Hne) as Hn. pose proof (extracted_policies (kt_policies t)) as Hp.
  pose proof (all_staged_enforced_nil (kt_policies t)) as Hs.
  destruct (enforced (map C11.Spec.ref_policy (map (bpf_policy nm nnm) (kt_policies t)))) as [|b0 bs0] eqn:Eb; [congruence|].
  rewrite Hp.
  destruct (enforced (map ref_policy (kt_policies t))) as [|q0 qs0] eqn:Eq.
  - simpl in Hs. rewrite Hs. simpl. reflexivity.
  - simpl in Hs. rewrite Hs. simpl orb.
    destruct (policies_verdict s (q0 :: qs0) p); try reflexivity.
    destruct (kt_default t); reflexivity.
Qed.

Lemma extracted_endpoint : forall tiers pfs,
  endpoint_verdict s (map C11.Spec.ref_tier (bpf_tiers nm nnm tiers)) pfs p
  = endpoint_verdict s (map ref_tier tiers) pfs p.
Proof.
  induction tiers as [|t ts IH]; intro pfs; [reflexivity|].
  unfold bpf_tiers in *. simpl filter.
  destruct (kt_policies t) as [|x xs] eqn:Ek.
  - (* a tier without policies is not handed over; the reference skips it *)
    simpl. unfold tier_verdict at 1. simpl. rewrite Ek. simpl. apply IH.
  - simpl negb. cbn [map endpoint_verdict].
    assert (Hne : kt_policies t <> []) by (rewrite Ek; discriminate).
    pose proof (extracted_tier t Hne) as Ht.
    destruct (tier_verdict s (C11.Spec.ref_tier (bpf_tier nm nnm t)) p), (tier_verdict s (ref_tier t) p);
      try discriminate; try reflexivity; apply IH.
Qed.
End Extract.

Lemma profiles_b_rule : forall nm nnm profs,
  map (map b_rule) (map (fun f => map (mk_brule nm nnm) (kf_rules f)) profs) = map kf_rules profs.
Proof.
  induction profs as [|f fs IH]; [reflexivity|]. simpl. rewrite b_rule_mk, IH. reflexivity.
Qed.

(* C11's reference verdict of the extracted rules on the packet's state = the reference verdict of the state *)
Lemma bpf_ref_verdict : forall v tbl nm nnm tiers profs p, pk_ver p = v ->
  C11.Spec.ref_verdict (ref_sets v tbl) v (bpf_rules nm nnm tiers profs) (pstate_of p)
  = match ref_verdict v tbl tiers profs p with VAllow => RAllow | _ => RDeny end.
Proof.
  intros v tbl nm nnm tiers profs p Hv.
  unfold C11.Spec.ref_verdict, C11.Spec.ref_workload, bpf_rules. cbn [br_xdp br_pre_dnat br_suppress br_forward br_for_host
    br_tiers br_profiles map C11.Spec.tiers_verdict].
  assert (Hh : to_or_from_host (pstate_of p) = false) by reflexivity. rewrite Hh.
  rewrite profiles_b_rule, extracted_endpoint.
  unfold ref_verdict.
  rewrite (endpoint_verdict_l34 (ref_sets v tbl) (C11.Spec.packet_of v (pstate_of p) LegDst) p); [reflexivity|].
  unfold same_l34, C11.Spec.packet_of, pstate_of. simpl. rewrite Hv. repeat split; reflexivity.
Qed.

Definition bpf_model_vd (v : ipver) (r : brules) (bs : bpfsets) (ps : pstate) : vd :=
  bpf_vd (model_verdict fixed_variant v r bs ps).

Lemma bpf_agree : forall v tbl kind bs nm nnm tiers profs p,
  pk_ver p = v ->
  C11.ProofsFinal.sets_agree kind (ref_sets v tbl) bs -> C11.ProofsFinal.addrs_in_range v (pstate_of p) ->
  C11.Spec.valid_rules (bpf_rules nm nnm tiers profs) = true ->
  C11.ProofsMain.typed_rules kind (bpf_rules nm nnm tiers profs) = true ->
  bpf_model_vd v (bpf_rules nm nnm tiers profs) bs (pstate_of p) = vd_of_ref (ref_verdict v tbl tiers profs p).
Proof.
  intros v tbl kind bs nm nnm tiers profs p Hv Hs Ha Hval Hty.
  destruct (C11.ProofsFinal.c11_model_meets_spec_pf v (ref_sets v tbl) bs kind (pstate_of p) _ Hs Ha Hval Hty) as [lg H].
  unfold bpf_model_vd. rewrite H, (bpf_ref_verdict v tbl nm nnm tiers profs p Hv).
  destruct (ref_verdict v tbl tiers profs p); reflexivity.
Qed.

(* ------------------------------------------------------------------ iptables / nftables *)
Lemma ipt_vd_of_ok : forall ec c x p res,
  C09.Spec.ok_result ec c x p res = true ->
  match x with
  | C09.Spec.ExpAllow => ipt_vd c res = VdAllow
  | C09.Spec.ExpDeny => ipt_vd c res = VdDeny
  | _ => True
  end.
Proof.
  intros ec c x p res H. destruct x; try exact I.
  - destruct res; simpl in H; try discriminate. apply andb_true_iff in H. destruct H as [H _].
    simpl. rewrite H. reflexivity.
  - destruct res as [f p'| | | |]; simpl in H; try discriminate.
    apply andb_true_iff in H. destruct H as [H _]. unfold C09.Spec.deny_final in H.
    destruct (c_deny c), f; try discriminate; reflexivity.
Qed.

Lemma ipt_agree : forall c e ec v name (mtiers : list mtier) (mprofs : list mprofile) tbl tiers profs f p,
  marks_ok c = true -> ec_type ec = TNormal -> ec_admin_up ec = true ->
  ec_qos_rate ec = false -> ec_qos_conn ec = false -> other_unmarked e ->
  C09.Spec.encap_blocked ec p = false -> pk_ct p = CtNew ->
  NoDup (map fst (render_endpoint ec c v name mtiers mprofs)) ->
  (forall r, In r (all_rules mtiers mprofs) -> rule_ok c e r) ->
  C09.Spec.profiles_in_domain ec mprofs = true ->
  wf_packet p -> pk_ver p = v -> C09.Spec.entry_mark_ok c p = true ->
  Ipt.e_sets e = ref_sets v tbl ->
  map C09.Spec.to_tier mtiers = map ref_tier tiers -> map pf_rules mprofs = map kf_rules profs ->
  ipt_vd c (Ipt.run_chain (3 + f) (render_endpoint ec c v name mtiers mprofs) e name p)
  = vd_of_ref (ref_verdict v tbl tiers profs p).
Proof.
  intros c e ec v name mtiers mprofs tbl tiers profs f p Hm Hty Hup Hqr Hqc Hoth Henc Hct Hnd Hrok Hdom Hwf Hv Hent Hsets Ht Hp.
  pose proof (C09.ProofsModel.endpoint_verdict_model c e ec v name mtiers mprofs f p Hm Hty Hnd Hrok Hdom Hoth Hwf Hv Hent) as H.
  apply ipt_vd_of_ok in H.
  unfold C09.Spec.expected, C09.Spec.expected_tail, C09.Spec.expected_verdict in H.
  rewrite Hup, Hqr, Hqc, Henc, Hty in H. simpl negb in H. rewrite !andb_false_r in H. cbn [andb] in H.
  unfold C09.Spec.ct_in in H. rewrite Hct in H. simpl in H. rewrite ?andb_false_r in H. simpl in H.
  unfold C09.Spec.ref_verdict in H. rewrite Hsets, Ht, Hp in H.
  unfold ref_verdict.
  destruct (endpoint_verdict (ref_sets v tbl) (map ref_tier tiers) (map kf_rules profs) p); exact H.
Qed.
