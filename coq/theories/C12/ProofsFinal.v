(* C12/ProofsFinal.v — the statements of Props.v, assembled; witnesses of the four defect classes of the pinned checker. *)
From Coq Require Import List NArith Bool Lia String.
From Verif.Common Require Import Packet PolicyRef Ipt.
From Verif.C08 Require Import Model Spec ProofsFilter.
From Verif.C09 Require Import Model ProofsPolicy ProofsQos ProofsModel.
From Verif.C09 Require Spec.
From Verif.C11 Require Import Bpf Model.
From Verif.C11 Require Spec ProofsMain ProofsFinal.
From Verif.C12 Require Import Model Spec Proofs ProofsChecker ProofsAgree.
Import ListNotations.
Open Scope N_scope.

Lemma c12_checker_verdict_pf : forall kv v tbl tiers profs p,
  state_in_fragment kv v tbl tiers profs = true -> packet_in_fragment p = true -> pk_ver p = v ->
  chk_vd (chk_endpoint kv tbl tiers profs p) = vd_of_ref (ref_verdict v tbl tiers profs p).
Proof.
  intros kv v tbl tiers profs p H Hp Hv.
  assert (Hst : store_in_fragment kv v tbl = true).
  { unfold state_in_fragment in H. apply andb_true_iff in H. destruct H as [H _]. apply andb_true_iff in H. tauto. }
  exact (checker_verdict kv v tbl p Hst Hp Hv tiers profs H).
Qed.

(* what C09's theorem needs of one rendering (flavour) of the state *)
Record ipt_hyps (c : cfg) (e : Ipt.env) (ec : ecfg) (v : ipver) (name : string)
       (mtiers : list mtier) (mprofs : list mprofile) (tbl : sets_table) (tiers : list ktier) (profs : list kprofile)
       (p : packet) : Prop := {
  ih_marks : marks_ok c = true;
  ih_type : ec_type ec = TNormal;
  ih_up : ec_admin_up ec = true;
  ih_qos_rate : ec_qos_rate ec = false;                (* no QoS packet-rate / connection-limit rules (C09 covers them) *)
  ih_qos_conn : ec_qos_conn ec = false;
  ih_other : other_unmarked e;                         (* the oracle for matches outside the packet does not read the mark *)
  ih_encap : C09.Spec.encap_blocked ec p = false;
  ih_nodup : NoDup (map fst (render_endpoint ec c v name mtiers mprofs));
  ih_rule_ok : forall r, In r (all_rules mtiers mprofs) -> rule_ok c e r;
  ih_profiles : C09.Spec.profiles_in_domain ec mprofs = true;
  ih_entry : C09.Spec.entry_mark_ok c p = true;
  ih_sets : Ipt.e_sets e = ref_sets v tbl;
  ih_tiers : map C09.Spec.to_tier mtiers = map ref_tier tiers;       (* the same tiers, any grouping / chain names *)
  ih_profs : map pf_rules mprofs = map kf_rules profs
}.

(* what C11's theorem needs of the extracted polprog.Rules *)
Record bpf_hyps (v : ipver) (tbl : sets_table) (kind : N -> bool) (bs : bpfsets) (r : brules) (p : packet) : Prop := {
  bh_sets : C11.ProofsFinal.sets_agree kind (ref_sets v tbl) bs;
  bh_addrs : C11.ProofsFinal.addrs_in_range v (pstate_of p);
  bh_valid : C11.Spec.valid_rules r = true;
  bh_typed : C11.ProofsMain.typed_rules kind r = true
}.

Lemma c12_agree_pf : forall kv v tbl tiers profs p
    ci ei eci name_i mt_i mp_i fi          (* the iptables rendering *)
    cn en ecn name_n mt_n mp_n fn          (* the nftables rendering *)
    kind bs nm nnm,                        (* the BPF program's view of the IP sets; protocol names *)
  state_in_fragment kv v tbl tiers profs = true -> packet_in_fragment p = true -> pk_ver p = v ->
  wf_packet p -> pk_ct p = CtNew ->
  ipt_hyps ci ei eci v name_i mt_i mp_i tbl tiers profs p ->
  ipt_hyps cn en ecn v name_n mt_n mp_n tbl tiers profs p ->
  bpf_hyps v tbl kind bs (bpf_rules nm nnm tiers profs) p ->
  let r := vd_of_ref (ref_verdict v tbl tiers profs p) in
  ipt_vd ci (Ipt.run_chain (3 + fi) (render_endpoint eci ci v name_i mt_i mp_i) ei name_i p) = r
  /\ ipt_vd cn (Ipt.run_chain (3 + fn) (render_endpoint ecn cn v name_n mt_n mp_n) en name_n p) = r
  /\ bpf_model_vd v (bpf_rules nm nnm tiers profs) bs (pstate_of p) = r
  /\ chk_vd (chk_endpoint kv tbl tiers profs p) = r.
Proof.
  intros kv v tbl tiers profs p ci ei eci name_i mt_i mp_i fi cn en ecn name_n mt_n mp_n fn kind bs nm nnm
         Hfrag Hpk Hv Hwf Hct Hi Hn Hb r.
  split; [|split; [|split]].
  - destruct Hi. apply ipt_agree; assumption.
  - destruct Hn. apply ipt_agree; assumption.
  - destruct Hb. eapply bpf_agree; eassumption.
  - exact (c12_checker_verdict_pf kv v tbl tiers profs p Hfrag Hpk Hv).
Qed.

(* the oracle of the correspondence run accepts every run of the four models on the common fragment *)
Lemma c12_model_meets_spec_pf : forall kv v tbl tiers profs p
    ci ei eci name_i mt_i mp_i fi cn en ecn name_n mt_n mp_n fn kind bs nm nnm,
  state_in_fragment kv v tbl tiers profs = true -> packet_in_fragment p = true -> pk_ver p = v ->
  wf_packet p -> pk_ct p = CtNew ->
  ipt_hyps ci ei eci v name_i mt_i mp_i tbl tiers profs p ->
  ipt_hyps cn en ecn v name_n mt_n mp_n tbl tiers profs p ->
  bpf_hyps v tbl kind bs (bpf_rules nm nnm tiers profs) p ->
  ok_agree (vd_of_ref (ref_verdict v tbl tiers profs p))
    (ipt_vd ci (Ipt.run_chain (3 + fi) (render_endpoint eci ci v name_i mt_i mp_i) ei name_i p))
    (ipt_vd cn (Ipt.run_chain (3 + fn) (render_endpoint ecn cn v name_n mt_n mp_n) en name_n p))
    (bpf_model_vd v (bpf_rules nm nnm tiers profs) bs (pstate_of p))
    (chk_vd (chk_endpoint kv tbl tiers profs p)) = true.
Proof.
  intros kv v tbl tiers profs p ci ei eci name_i mt_i mp_i fi cn en ecn name_n mt_n mp_n fn kind bs nm nnm
         Hfrag Hpk Hv Hwf Hct Hi Hn Hb.
  destruct (c12_agree_pf kv v tbl tiers profs p ci ei eci name_i mt_i mp_i fi cn en ecn name_n mt_n mp_n fn kind bs nm nnm
              Hfrag Hpk Hv Hwf Hct Hi Hn Hb) as (H1 & H2 & H3 & H4).
  rewrite H1, H2, H3, H4. destruct (vd_of_ref (ref_verdict v tbl tiers profs p)); reflexivity.
Qed.

(* all four pairwise equal: the form of the property text *)
Lemma c12_agree_pairwise_pf : forall (a b c d r : vd), a = r /\ b = r /\ c = r /\ d = r -> a = b /\ b = c /\ c = d.
Proof. intros a b c d r (-> & -> & -> & ->). repeat split. Qed.

(* ------------------------------------------------------------------ the pinned checker: four refutations *)
Definition allow_rule : rule := any_rule Allow.
Definition tcp_packet : packet := Build_packet V4 6 167772161 167772162 1000 80 80 0 [] [] CtNew 0.   (* 10.0.0.1 -> 10.0.0.2:80 *)
Definition prof (rs : list rule) : kprofile := {| kf_present := true; kf_rules := rs |}.
Definition pol (rs : list rule) : kpolicy := {| kp_staged := false; kp_present := true; kp_rules := rs |}.
Definition with_proto (r : rule) (n : N) : rule :=
  {| r_action := r_action r; r_ipver := r_ipver r; r_proto := Some n; r_src_nets := r_src_nets r; r_src_ports := r_src_ports r;
     r_src_named_ports := r_src_named_ports r; r_dst_nets := r_dst_nets r; r_dst_ports := r_dst_ports r;
     r_dst_named_ports := r_dst_named_ports r; r_icmp := r_icmp r; r_src_ipsets := r_src_ipsets r; r_dst_ipsets := r_dst_ipsets r;
     r_dst_ipport_sets := r_dst_ipport_sets r; r_not_proto := r_not_proto r; r_not_src_nets := r_not_src_nets r;
     r_not_src_ports := r_not_src_ports r; r_not_dst_nets := r_not_dst_nets r; r_not_dst_ports := r_not_dst_ports r;
     r_not_icmp := r_not_icmp r; r_not_src_ipsets := r_not_src_ipsets r; r_not_dst_ipsets := r_not_dst_ipsets r;
     r_not_src_named_ports := r_not_src_named_ports r; r_not_dst_named_ports := r_not_dst_named_ports r |}.
Definition with_ipver (r : rule) (v : ipver) : rule :=
  {| r_action := r_action r; r_ipver := Some v; r_proto := r_proto r; r_src_nets := r_src_nets r; r_src_ports := r_src_ports r;
     r_src_named_ports := r_src_named_ports r; r_dst_nets := r_dst_nets r; r_dst_ports := r_dst_ports r;
     r_dst_named_ports := r_dst_named_ports r; r_icmp := r_icmp r; r_src_ipsets := r_src_ipsets r; r_dst_ipsets := r_dst_ipsets r;
     r_dst_ipport_sets := r_dst_ipport_sets r; r_not_proto := r_not_proto r; r_not_src_nets := r_not_src_nets r;
     r_not_src_ports := r_not_src_ports r; r_not_dst_nets := r_not_dst_nets r; r_not_dst_ports := r_not_dst_ports r;
     r_not_icmp := r_not_icmp r; r_not_src_ipsets := r_not_src_ipsets r; r_not_dst_ipsets := r_not_dst_ipsets r;
     r_not_src_named_ports := r_not_src_named_ports r; r_not_dst_named_ports := r_not_dst_named_ports r |}.
Definition with_src_set (r : rule) (id : N) : rule :=
  {| r_action := r_action r; r_ipver := r_ipver r; r_proto := r_proto r; r_src_nets := r_src_nets r; r_src_ports := r_src_ports r;
     r_src_named_ports := r_src_named_ports r; r_dst_nets := r_dst_nets r; r_dst_ports := r_dst_ports r;
     r_dst_named_ports := r_dst_named_ports r; r_icmp := r_icmp r; r_src_ipsets := [id]; r_dst_ipsets := r_dst_ipsets r;
     r_dst_ipport_sets := r_dst_ipport_sets r; r_not_proto := r_not_proto r; r_not_src_nets := r_not_src_nets r;
     r_not_src_ports := r_not_src_ports r; r_not_dst_nets := r_not_dst_nets r; r_not_dst_ports := r_not_dst_ports r;
     r_not_icmp := r_not_icmp r; r_not_src_ipsets := r_not_src_ipsets r; r_not_dst_ipsets := r_not_dst_ipsets r;
     r_not_src_named_ports := r_not_src_named_ports r; r_not_dst_named_ports := r_not_dst_named_ports r |}.

(* a state of the repaired checker's fragment on which the PINNED checker model disagrees with the reference *)
Definition refutes (tbl : sets_table) (tiers : list ktier) (profs : list kprofile) (p : packet) (want : vd) (got : cres) : Prop :=
  state_in_fragment fixed_kvariant V4 tbl tiers profs = true /\ packet_in_fragment p = true
  /\ vd_of_ref (ref_verdict V4 tbl tiers profs p) = want
  /\ chk_endpoint pinned_kvariant tbl tiers profs p = got
  /\ chk_vd got <> want
  /\ chk_vd (chk_endpoint fixed_kvariant tbl tiers profs p) = want.

Lemma profile_pass_refuted_pf :
  refutes [] [] [prof [any_rule Pass]; prof [allow_rule]] tcp_packet VdAllow RDenied.
Proof. repeat split; try reflexivity; discriminate. Qed.

Lemma default_unset_refuted_pf :
  refutes [] [{| kt_policies := [pol [with_proto allow_rule 17]; pol [allow_rule]]; kt_default := KdUnset |}] [] tcp_packet
          VdAllow RInvalid.
Proof. repeat split; try reflexivity; discriminate. Qed.

Lemma ipver_refuted_pf :
  refutes [] [] [prof [with_ipver allow_rule V6]] tcp_packet VdDeny ROk.
Proof. repeat split; try reflexivity; discriminate. Qed.

Lemma trie_refuted_pf :
  refutes [(1, [ECidr 167772160 25])] [] [prof [with_src_set allow_rule 1]] tcp_packet VdAllow RDenied.    (* 10.0.0.0/25 *)
Proof. repeat split; try reflexivity; discriminate. Qed.

Definition allow_tcp_named5 : rule :=
  Build_rule Allow None (Some 6) [] [] [] [] [] [5] None [] [] [] None [] [] [] [] None [] [] [] [].
Lemma named_refuted_pf :
  refutes [(5, [EPort 167772162 6 80])] [] [prof [allow_tcp_named5]] tcp_packet VdAllow RDenied.    (* 10.0.0.2,tcp:80 *)
Proof. repeat split; try reflexivity; discriminate. Qed.

(* ------------------------------------------------------------------ the hypotheses are satisfiable *)
(* a non-trivial state of the PINNED fragment: two tiers (the first passes TCP, the second allows port 80 from a NET
   set and ends in deny), a staged policy, one profile *)
Definition ex_tbl : sets_table := [(1, [ECidr 167772160 24; ECidr 3232235521 32]); (5, [EPort 167772162 6 80])].
Definition with_dst_ports (r : rule) (ps : list port_range) : rule :=
  {| r_action := r_action r; r_ipver := r_ipver r; r_proto := r_proto r; r_src_nets := r_src_nets r; r_src_ports := r_src_ports r;
     r_src_named_ports := r_src_named_ports r; r_dst_nets := r_dst_nets r; r_dst_ports := ps;
     r_dst_named_ports := r_dst_named_ports r; r_icmp := r_icmp r; r_src_ipsets := r_src_ipsets r; r_dst_ipsets := r_dst_ipsets r;
     r_dst_ipport_sets := r_dst_ipport_sets r; r_not_proto := r_not_proto r; r_not_src_nets := r_not_src_nets r;
     r_not_src_ports := r_not_src_ports r; r_not_dst_nets := r_not_dst_nets r; r_not_dst_ports := r_not_dst_ports r;
     r_not_icmp := r_not_icmp r; r_not_src_ipsets := r_not_src_ipsets r; r_not_dst_ipsets := r_not_dst_ipsets r;
     r_not_src_named_ports := r_not_src_named_ports r; r_not_dst_named_ports := r_not_dst_named_ports r |}.
Definition ex_tiers : list ktier :=
  [ {| kt_policies := [pol [with_proto (any_rule Pass) 6]; {| kp_staged := true; kp_present := false; kp_rules := [any_rule Deny] |}];
       kt_default := KdDeny |};
    {| kt_policies := [pol [with_dst_ports (with_proto (with_src_set allow_rule 1) 6) [(80, 80)]]]; kt_default := KdDeny |} ].
Definition ex_profs : list kprofile := [prof [any_rule Deny]].

Lemma checker_hyps_satisfiable_pf :
  state_in_fragment pinned_kvariant V4 ex_tbl ex_tiers ex_profs = true /\ packet_in_fragment tcp_packet = true
  /\ ref_verdict V4 ex_tbl ex_tiers ex_profs tcp_packet = VAllow
  /\ chk_endpoint pinned_kvariant ex_tbl ex_tiers ex_profs tcp_packet = ROk.
Proof. repeat split; reflexivity. Qed.
