(* C12/Proofs.v — the checker model against the reference semantics (PolicyRef), on the common fragment. *)
From Coq Require Import List NArith Bool Lia Btauto.
From Verif.Common Require Import Packet PolicyRef.
From Verif.C11 Require Import Bpf.
From Verif.C11 Require Spec ProofsSets.
From Verif.C12 Require Import Model Spec.
Import ListNotations.
Open Scope N_scope.

Lemma ok_agree_true : forall r a b c d, ok_agree r a b c d = true -> a = r /\ b = r /\ c = r /\ d = r.
Proof. intros r a b c d H. destruct r, a, b, c, d; simpl in H; try discriminate; repeat split. Qed.

Lemma forallb_ext_in : forall {A} (f g : A -> bool) l, (forall a, In a l -> f a = g a) -> forallb f l = forallb g l.
Proof.
  intros A f g l. induction l as [|a l IH]; intro H; [reflexivity|].
  simpl. rewrite (H a (or_introl eq_refl)), IH; [reflexivity|]. intros b Hb. apply H. right. exact Hb.
Qed.

(* ------------------------------------------------------------------ IP sets: store lookups = reference oracle *)
Section Sets.
Variables (kv : kvariant) (v : ipver) (tbl : sets_table).
Hypothesis Hstore : store_in_fragment kv v tbl = true.
Let w := addr_width v.
Let s := ref_sets v tbl.

Lemma entries_ok : forall id ens, assoc id tbl = Some ens -> forallb (entry_in_fragment kv w) ens = true.
Proof.
  intros id ens H. apply C11.ProofsSets.assoc_in in H.
  unfold store_in_fragment in Hstore. rewrite forallb_forall in Hstore. exact (Hstore (id, ens) H).
Qed.

Lemma has_ip_ref : forall id ens a, assoc id tbl = Some ens -> store_has_ip kv w ens a = s id (MemIP a).
Proof.
  intros id ens a H. unfold s, ref_sets, C11.Spec.ref_sets. rewrite H. fold w.
  pose proof (entries_ok id ens H) as Hok. rewrite forallb_forall in Hok.
  unfold store_has_ip. apply C11.ProofsSets.existsb_ext_in. intros en Hin. specialize (Hok en Hin).
  destruct en as [c l|a' pr po]; [|reflexivity].
  unfold net_hit. simpl in Hok. rewrite Hok. apply andb_true_r.
Qed.

Lemma has_ipport_ref : forall id ens a pr po, assoc id tbl = Some ens ->
  store_has_ipport ens a pr po = s id (MemIPPort a pr po).
Proof.
  intros id ens a pr po H. unfold s, ref_sets, C11.Spec.ref_sets. rewrite H.
  pose proof (entries_ok id ens H) as Hok. rewrite forallb_forall in Hok.
  unfold store_has_ipport.
  destruct (N.eqb pr 6 || N.eqb pr 17) eqn:Ep; simpl.
  - apply C11.ProofsSets.existsb_ext_in. intros en Hin. destruct en; reflexivity.
  - symmetry. apply not_true_is_false. intro Hex. apply existsb_exists in Hex. destruct Hex as [en [Hin Hen]].
    specialize (Hok en Hin). destruct en as [c l|a' pr' po']; [discriminate|].
    simpl in Hok. apply andb_true_iff in Hen. destruct Hen as [Hen _]. apply andb_true_iff in Hen. destruct Hen as [_ Hpr].
    apply N.eqb_eq in Hpr. subst pr'. rewrite Hok in Ep. discriminate.
Qed.

Lemma sets_all_ref : forall ids (has : list set_entry -> bool) (m : member),
  forallb (set_present tbl) ids = true ->
  (forall id ens, assoc id tbl = Some ens -> has ens = s id m) ->
  chk_sets_all tbl ids has = forallb (fun id => s id m) ids.
Proof.
  intros ids has m Hp Hh. unfold chk_sets_all. apply forallb_ext_in. intros id Hin.
  rewrite forallb_forall in Hp. specialize (Hp id Hin). unfold set_present in Hp.
  destruct (assoc id tbl) as [ens|] eqn:E; [|discriminate]. apply (Hh id ens E).
Qed.

Lemma sets_none_ref : forall ids (has : list set_entry -> bool) (m : member),
  forallb (set_present tbl) ids = true ->
  (forall id ens, assoc id tbl = Some ens -> has ens = s id m) ->
  chk_sets_none tbl ids has = negb (existsb (fun id => s id m) ids).
Proof.
  intros ids has m Hp Hh. unfold chk_sets_none.
  induction ids as [|id ids IH]; [reflexivity|].
  simpl in Hp. apply andb_true_iff in Hp. destruct Hp as [Hp1 Hp2].
  simpl. rewrite negb_orb, <- (IH Hp2). unfold set_present in Hp1.
  destruct (assoc id tbl) as [ens|] eqn:E; [|discriminate]. rewrite (Hh id ens E). reflexivity.
Qed.
End Sets.

(* ------------------------------------------------------------------ one rule *)
Lemma nets_ok_version : forall nets v x, nets_ok nets v x = true -> field_has_version nets v = true.
Proof.
  intros nets v x H. unfold nets_ok in H. unfold field_has_version.
  destruct nets as [|c cs]; [reflexivity|]. simpl is_nil in *. rewrite orb_false_l in *.
  apply existsb_exists in H. destruct H as [c' [Hin Hc]]. apply existsb_exists. exists c'. split; [exact Hin|].
  unfold in_cidr in Hc. apply andb_true_iff in Hc. tauto.
Qed.

Lemma fhv_nets_ok : forall nets v x, field_has_version nets v && nets_ok nets v x = nets_ok nets v x.
Proof.
  intros. destruct (nets_ok nets v x) eqn:E; [|apply andb_false_r].
  rewrite (nets_ok_version _ _ _ E). reflexivity.
Qed.

Lemma forallb_app_true : forall {A} (f : A -> bool) l1 l2, forallb f (l1 ++ l2) = true -> forallb f l1 = true /\ forallb f l2 = true.
Proof. intros A f l1 l2 H. rewrite forallb_app in H. apply andb_true_iff in H. exact H. Qed.

Lemma is_nil_true : forall {A} (l : list A), is_nil l = true -> l = [].
Proof. intros A [|x l] H; [reflexivity|discriminate]. Qed.

Section Ports.
Variables (kv : kvariant) (v : ipver) (tbl : sets_table).
Hypothesis Hstore : store_in_fragment kv v tbl = true.
Let s := ref_sets v tbl.

Lemma named_hit_ref : forall named a pr po,
  forallb (set_present tbl) named = true -> (kv_named kv || is_nil named) = true ->
  chk_named_hit kv tbl named a pr po = existsb (fun id => s id (MemIPPort a pr po)) named.
Proof.
  intros named a pr po Hp Hk. unfold chk_named_hit.
  destruct named as [|id0 rest] eqn:En; [apply andb_false_r|]. rewrite <- En in *.
  assert (Hkv : kv_named kv = true) by (rewrite En in Hk; simpl in Hk; rewrite orb_false_r in Hk; exact Hk).
  rewrite Hkv. simpl andb. apply C11.ProofsSets.existsb_ext_in. intros id Hin.
  rewrite forallb_forall in Hp. specialize (Hp id Hin). unfold set_present in Hp.
  destruct (assoc id tbl) as [ens|] eqn:E; [|discriminate].
  exact (has_ipport_ref kv v tbl Hstore id ens a pr po E).
Qed.

Lemma ports_pos_ref : forall ranges named a pr po,
  forallb (set_present tbl) named = true -> (kv_named kv || is_nil named) = true ->
  chk_ports_pos kv tbl ranges named a pr po = ports_ok s ranges named po (MemIPPort a pr po).
Proof.
  intros. unfold chk_ports_pos, ports_ok, ports_hit. rewrite named_hit_ref by assumption. rewrite orb_assoc. reflexivity.
Qed.

Lemma ports_neg_ref : forall ranges named a pr po,
  forallb (set_present tbl) named = true -> (kv_named kv || is_nil named) = true ->
  chk_ports_neg kv tbl ranges named a pr po = negb (ports_hit s ranges named po (MemIPPort a pr po)).
Proof.
  intros ranges named a pr po H1 H2. unfold chk_ports_neg, ports_hit. rewrite named_hit_ref by assumption.
  destruct ranges as [|r0 rs]; [|reflexivity]. destruct named as [|n0 ns]; reflexivity.
Qed.
End Ports.

Lemma rule_match_ref : forall kv v tbl r p,
  store_in_fragment kv v tbl = true -> rule_in_fragment kv v tbl r = true ->
  packet_in_fragment p = true -> pk_ver p = v ->
  chk_match kv tbl r p = rule_matches (ref_sets v tbl) r p.
Proof.
  intros kv v tbl r p Hst Hr Hp Hv.
  unfold rule_in_fragment in Hr. repeat rewrite andb_true_iff in Hr.
  destruct Hr as [[[[[Hic Hnamed] Hiv] Hf1] Hf2] Hs].
  destruct (r_icmp r) eqn:Ei; [discriminate|]. destruct (r_not_icmp r) eqn:Eni; [discriminate|].
  assert (Hn : (kv_named kv || is_nil (r_src_named_ports r)) = true /\ (kv_named kv || is_nil (r_dst_named_ports r)) = true
               /\ (kv_named kv || is_nil (r_not_src_named_ports r)) = true /\ (kv_named kv || is_nil (r_not_dst_named_ports r)) = true).
  { destruct (kv_named kv); [repeat split; reflexivity|]. simpl in Hnamed. repeat rewrite andb_true_iff in Hnamed.
    simpl. tauto. }
  destruct Hn as (Hn1 & Hn2 & Hn3 & Hn4).
  unfold rule_sets in Hs.
  apply forallb_app_true in Hs. destruct Hs as [Hs1 Hs]. apply forallb_app_true in Hs. destruct Hs as [Hs2 Hs].
  apply forallb_app_true in Hs. destruct Hs as [Hs3 Hs]. apply forallb_app_true in Hs. destruct Hs as [Hs4 Hs].
  apply forallb_app_true in Hs. destruct Hs as [Hs5 Hs]. apply forallb_app_true in Hs. destruct Hs as [Hs6 Hs].
  apply forallb_app_true in Hs. destruct Hs as [Hs7 Hs]. apply forallb_app_true in Hs. destruct Hs as [Hs8 Hs9].
  unfold chk_match, rule_matches. rewrite Hv.
  rewrite (sets_all_ref v tbl _ _ (src_member p) Hs1) by (intros; apply (has_ip_ref kv v tbl Hst); assumption).
  rewrite (sets_all_ref v tbl _ _ (dst_member p) Hs2) by (intros; apply (has_ip_ref kv v tbl Hst); assumption).
  rewrite (sets_none_ref v tbl _ _ (src_member p) Hs3) by (intros; apply (has_ip_ref kv v tbl Hst); assumption).
  rewrite (sets_none_ref v tbl _ _ (dst_member p) Hs4) by (intros; apply (has_ip_ref kv v tbl Hst); assumption).
  rewrite (sets_all_ref v tbl _ _ (dst_port_member p) Hs5) by (intros; apply (has_ipport_ref kv v tbl Hst); assumption).
  rewrite (ports_pos_ref kv v tbl Hst _ _ _ _ _ Hs6 Hn1), (ports_pos_ref kv v tbl Hst _ _ _ _ _ Hs7 Hn2).
  rewrite (ports_neg_ref kv v tbl Hst _ _ _ _ _ Hs8 Hn3), (ports_neg_ref kv v tbl Hst _ _ _ _ _ Hs9 Hn4).
  unfold rule_version_ok, chk_nets_pos, chk_nets_neg, chk_proto, chk_ipver, src_port_member, dst_port_member.
  rewrite Ei, Eni, Hf1, Hf2. simpl opt_ok.
  unfold packet_in_fragment in Hp. rewrite Hp.
  fold (nets_ok (r_src_nets r) v (pk_src p)). fold (nets_ok (r_dst_nets r) v (pk_dst p)).
  assert (Hipv : (if kv_ipver kv then opt_ok (r_ipver r) (ipver_eqb v) else true) = opt_ok (r_ipver r) (ipver_eqb v)).
  { destruct (kv_ipver kv); [reflexivity|]. simpl in Hiv. destruct (r_ipver r); [discriminate|reflexivity]. }
  rewrite Hipv.
  rewrite <- (fhv_nets_ok (r_src_nets r) v (pk_src p)), <- (fhv_nets_ok (r_dst_nets r) v (pk_dst p)).
  rewrite !andb_true_r.
  (* both sides are conjunctions of the same atoms *)
  generalize (forallb (fun id => ref_sets v tbl id (src_member p)) (r_src_ipsets r)).
  generalize (forallb (fun id => ref_sets v tbl id (dst_member p)) (r_dst_ipsets r)).
  generalize (existsb (fun id => ref_sets v tbl id (src_member p)) (r_not_src_ipsets r)).
  generalize (existsb (fun id => ref_sets v tbl id (dst_member p)) (r_not_dst_ipsets r)).
  generalize (forallb (fun id => ref_sets v tbl id (MemIPPort (pk_dst p) (pk_proto p) (pk_dport p))) (r_dst_ipport_sets r)).
  generalize (opt_ok (r_ipver r) (ipver_eqb v)).
  generalize (field_has_version (r_src_nets r) v) (field_has_version (r_dst_nets r) v).
  generalize (nets_ok (r_src_nets r) v (pk_src p)) (nets_ok (r_dst_nets r) v (pk_dst p)).
  generalize (existsb (fun c => in_cidr c v (pk_src p)) (r_not_src_nets r)).
  generalize (existsb (fun c => in_cidr c v (pk_dst p)) (r_not_dst_nets r)).
  generalize (opt_ok (r_proto r) (N.eqb (pk_proto p))).
  generalize (opt_ok (r_not_proto r) (fun n => negb (N.eqb (pk_proto p) n))).
  generalize (ports_ok (ref_sets v tbl) (r_src_ports r) (r_src_named_ports r) (pk_sport p) (MemIPPort (pk_src p) (pk_proto p) (pk_sport p))).
  generalize (ports_ok (ref_sets v tbl) (r_dst_ports r) (r_dst_named_ports r) (pk_dport p) (MemIPPort (pk_dst p) (pk_proto p) (pk_dport p))).
  generalize (ports_hit (ref_sets v tbl) (r_not_src_ports r) (r_not_src_named_ports r) (pk_sport p) (MemIPPort (pk_src p) (pk_proto p) (pk_sport p))).
  generalize (ports_hit (ref_sets v tbl) (r_not_dst_ports r) (r_not_dst_named_ports r) (pk_dport p) (MemIPPort (pk_dst p) (pk_proto p) (pk_dport p))).
  intros. btauto.
Qed.
