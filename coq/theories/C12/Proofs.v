(* C12/Proofs.v — the checker model against the reference semantics: rule level. *)
From Coq Require Import List NArith Bool Lia.
From Verif.Common Require Import Packet PolicyRef.
From Verif.C11 Require Import Bpf.
From Verif.C11 Require Spec.
From Verif.C12 Require Import Model Spec.
Import ListNotations.
Open Scope N_scope.

Lemma ok_agree_true : forall r a b c d, ok_agree r a b c d = true -> a = r /\ b = r /\ c = r /\ d = r.
Proof. intros r a b c d H. destruct r, a, b, c, d; simpl in H; try discriminate; repeat split. Qed.
