(* C12 — property theorems only. *)
From Coq Require Import List NArith Bool.
From Verif.Common Require Import Packet PolicyRef.
From Verif.C12 Require Import Model Spec Proofs.
Import ListNotations.
Open Scope N_scope.

(* the oracle accepts exactly the situations in which all four verdicts are the reference verdict *)
Theorem c12_oracle_sound : forall r a b c d, ok_agree r a b c d = true -> a = r /\ b = r /\ c = r /\ d = r.
Proof. exact ok_agree_true. Qed.
Print Assumptions c12_oracle_sound.
