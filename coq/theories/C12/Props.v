(* C12 — property theorems only.  Each is closed by `exact <lemma>` and followed by Print Assumptions.

   Reading guide.  One endpoint policy state = tiers (Model.ktier: enforced / staged policies with the rules of the
   direction evaluated, default action Deny / Pass / unset), profiles, and the IP-set member table `tbl`.
   `ref_verdict v tbl tiers profs p` is Common/PolicyRef.endpoint_verdict on it (Spec.v); `vd_of_ref` reads it as
   allow / deny.  `chk_endpoint kv` is the model of app-policy/checker checkStore (Model.v) for the checker variant kv
   (pinned_kvariant = the code as pinned, fixed_kvariant = with fixes/C12-checker-agree.patch; the driver probes
   which one the tree is).  `state_in_fragment kv v tbl tiers profs` / `packet_in_fragment p` is the COMMON FRAGMENT
   (Spec.v): no ICMP match, no negated CIDR list of the other family, referenced sets / policies / profiles present in
   the store, IP+port members tcp/udp, protocol 1..255; for the pinned variant also: no Pass rule in a profile, tier
   default action set, no explicit ip_version, NET members of length <= w-8 or = w, no named-port match. *)
From Coq Require Import List NArith Bool String.
From Verif.Common Require Import Packet PolicyRef Ipt.
From Verif.C08 Require Import Model Spec ProofsFilter.
From Verif.C09 Require Import Model ProofsPolicy ProofsQos ProofsModel.
From Verif.C09 Require Spec.
From Verif.C11 Require Import Bpf Model.
From Verif.C11 Require Spec ProofsMain ProofsSets ProofsFinal.
From Verif.C12 Require Import Model Spec Proofs ProofsChecker ProofsAgree ProofsFinal ProofsExample.
Import ListNotations.
Open Scope N_scope.

(* THE CHECKER REACHES THE REFERENCE VERDICT.  For either variant of the checker, every IP version, every store
   contents, every layout of tiers / staged and enforced policies / default actions / profiles OF ANY SIZE inside the
   common fragment and every packet with a protocol number 1..255: status OK iff the reference allows. *)
Theorem c12_checker_verdict : forall kv v tbl tiers profs p,
  state_in_fragment kv v tbl tiers profs = true -> packet_in_fragment p = true -> pk_ver p = v ->
  chk_vd (chk_endpoint kv tbl tiers profs p) = vd_of_ref (ref_verdict v tbl tiers profs p).
Proof. exact c12_checker_verdict_pf. Qed.
Print Assumptions c12_checker_verdict.

(* ALL FOUR AGREE.  The same state, read by
     - the iptables renderer  (C09's model render_endpoint for a cfg ci of flavour iptables, any policy grouping mt_i
       and chain names whose reference view `to_tier` is the state's), evaluated by Ipt.run_chain;
     - the nftables renderer  (likewise, cn / mt_n);
     - the BPF builder        (C11's IR model of the program built from bpf_rules = what extractTiers /
       extractProfiles hand to polprog, for any protocol-name annotation nm / nnm), evaluated by the IR semantics;
     - the checker            (chk_endpoint kv),
   gives the same allow / deny verdict for every packet, namely the reference verdict.
   Hypotheses inherited from C09 (ipt_hyps, per flavour): disjoint mark bits, normal (filter) workload/host chain,
   admin up, no QoS rate / connection-limit rules, the oracle for matches outside the packet (e_other) does not read
   the mark (other_unmarked), no VXLAN/IPIP block hit by this packet, distinct chain names, per-rule rendering correctness rule_ok
   (C08: holds for rules with <= 2 positive match blocks on the pinned tree, for all rules with
   fixes/C08-scratch-bit.patch; c09_rule_ok_few_blocks / c09_rule_ok_fixed), no Pass rule in a profile unless the
   tree has the profile-pass-mark fix, drop mark clear on entry, conntrack state NEW, addresses within the family's
   width; the chain's IP-set oracle is the store's member table.
   Hypotheses inherited from C11 (bpf_hyps): the LPM lookup of the program agrees with the member table
   (c11_table_sets_agree gives it for homogeneous tables), valid_rules (at most one positive destination selector
   set per rule, protocol names resolve by the IANA table), set ids typed. *)
Theorem c12_agree : forall kv v tbl tiers profs p
    ci ei eci name_i mt_i mp_i fi
    cn en ecn name_n mt_n mp_n fn
    kind bs nm nnm,
  state_in_fragment kv v tbl tiers profs = true -> packet_in_fragment p = true -> pk_ver p = v ->
  wf_packet p -> pk_ct p = CtNew ->
  ipt_hyps ci ei eci v name_i mt_i mp_i tbl tiers profs p ->
  ipt_hyps cn en ecn v name_n mt_n mp_n tbl tiers profs p ->
  bpf_hyps v tbl kind bs (bpf_rules nm nnm tiers profs) p ->
  let r := vd_of_ref (ref_verdict v tbl tiers profs p) in
  ipt_vd ci (Ipt.run_chain (3 + fi) (render_endpoint eci ci v name_i mt_i mp_i) ei name_i p) = r
  /\ ipt_vd cn (Ipt.run_chain (3 + fn) (render_endpoint ecn cn v name_n mt_n mp_n) en name_n p) = r
  /\ bpf_model_vd v (bpf_rules nm nnm tiers profs) bs (pstate_of p) = r
  /\ chk_vd (chk_endpoint kv tbl tiers profs p) = r.
Proof. exact c12_agree_pf. Qed.
Print Assumptions c12_agree.

(* MODEL MEETS SPEC: the oracle the correspondence run applies to the four REAL verdicts (ok_agree: equal to each
   other and to the reference) accepts every run of the four models on the common fragment *)
Theorem c12_model_meets_spec : forall kv v tbl tiers profs p
    ci ei eci name_i mt_i mp_i fi cn en ecn name_n mt_n mp_n fn kind bs nm nnm,
  state_in_fragment kv v tbl tiers profs = true -> packet_in_fragment p = true -> pk_ver p = v ->
  wf_packet p -> pk_ct p = CtNew ->
  ipt_hyps ci ei eci v name_i mt_i mp_i tbl tiers profs p ->
  ipt_hyps cn en ecn v name_n mt_n mp_n tbl tiers profs p ->
  bpf_hyps v tbl kind bs (bpf_rules nm nnm tiers profs) p ->
  ok_agree (vd_of_ref (ref_verdict v tbl tiers profs p))
    (ipt_vd ci (Ipt.run_chain (3 + fi) (render_endpoint eci ci v name_i mt_i mp_i) ei name_i p))
    (ipt_vd cn (Ipt.run_chain (3 + fn) (render_endpoint ecn cn v name_n mt_n mp_n) en name_n p))
    (bpf_model_vd v (bpf_rules nm nnm tiers profs) bs (pstate_of p))
    (chk_vd (chk_endpoint kv tbl tiers profs p)) = true.
Proof. exact c12_model_meets_spec_pf. Qed.
Print Assumptions c12_model_meets_spec.

(* ... hence pairwise equal, the form of the property text *)
Theorem c12_agree_pairwise : forall (a b c d r : vd), a = r /\ b = r /\ c = r /\ d = r -> a = b /\ b = c /\ c = d.
Proof. exact c12_agree_pairwise_pf. Qed.
Print Assumptions c12_agree_pairwise.

(* the BPF dataplane's reading of the state (extractTiers: staged policies become empty slots, tiers without policies
   are not handed over, staged-only tiers end in pass) has the reference verdict of the state itself *)
Theorem c12_bpf_extract_preserves_verdict : forall v tbl nm nnm tiers profs p, pk_ver p = v ->
  C11.Spec.ref_verdict (ref_sets v tbl) v (bpf_rules nm nnm tiers profs) (pstate_of p)
  = match ref_verdict v tbl tiers profs p with VAllow => RAllow | _ => RDeny end.
Proof. exact bpf_ref_verdict. Qed.
Print Assumptions c12_bpf_extract_preserves_verdict.

(* A TIER WHOSE POLICIES ARE ALL STAGED IS A NO-OP, wherever it stands (end-of-tier action included): for the checker
   model unconditionally (any variant, store, rules - inside the fragment or not - and packet) and for the reference.
   With c12_agree this is the layout the seeded change endoftierdrop-hoisted breaks in the iptables/nftables renderer. *)
Theorem c12_staged_only_tier_inert : forall kv tbl pre t post profs p,
  forallb kp_staged (kt_policies t) = true ->
  chk_endpoint kv tbl (pre ++ t :: post) profs p = chk_endpoint kv tbl (pre ++ post) profs p
  /\ forall v, ref_verdict v tbl (pre ++ t :: post) profs p = ref_verdict v tbl (pre ++ post) profs p.
Proof.
  exact (fun kv tbl pre t post profs p H =>
           conj (staged_only_tier_checker kv tbl pre t post profs p H)
                (fun v => staged_only_tier_ref (ref_sets v tbl) pre t post (map kf_rules profs) p H)).
Qed.
Print Assumptions c12_staged_only_tier_inert.

(* one rule: match.go's verdict on a rule of the fragment is PolicyRef.rule_matches *)
Theorem c12_rule_match : forall kv v tbl r p,
  store_in_fragment kv v tbl = true -> rule_in_fragment kv v tbl r = true ->
  packet_in_fragment p = true -> pk_ver p = v ->
  chk_match kv tbl r p = rule_matches (ref_sets v tbl) r p.
Proof. exact rule_match_ref. Qed.
Print Assumptions c12_rule_match.

(* the oracle accepts exactly the situations in which all four verdicts are the reference verdict *)
Theorem c12_oracle_sound : forall r a b c d, ok_agree r a b c d = true -> a = r /\ b = r /\ c = r /\ d = r.
Proof. exact ok_agree_true. Qed.
Print Assumptions c12_oracle_sound.

(* THE CHECKER AS PINNED disagrees with the three dataplanes on states that the repaired checker handles (each
   `refutes tbl tiers profs p want got`: the state is in the repaired checker's fragment, the reference verdict is
   `want`, the pinned model's status is `got` whose allow/deny reading differs, the repaired model gives `want`).
   Each witness is replayed on the real code by the driver's corpus cases (known findings). *)
(* (1) a matching Pass rule of a profile denies instead of moving on to the next profile *)
Theorem c12_profile_pass_pinned_refuted :
  refutes [] [] [prof [any_rule Pass]; prof [allow_rule]] tcp_packet VdAllow RDenied.
Proof. exact profile_pass_refuted_pf. Qed.
Print Assumptions c12_profile_pass_pinned_refuted.

(* (2) a tier without a default action: the first non-matching policy fails the evaluation (INVALID_ARGUMENT) *)
Theorem c12_default_unset_pinned_refuted :
  refutes [] [{| kt_policies := [pol [with_proto allow_rule 17]; pol [allow_rule]]; kt_default := KdUnset |}] [] tcp_packet
          VdAllow RInvalid.
Proof. exact default_unset_refuted_pf. Qed.
Print Assumptions c12_default_unset_pinned_refuted.

(* (3) Rule.ip_version is ignored: an IPv6-only allow rule allows an IPv4 packet *)
Theorem c12_ipver_pinned_refuted :
  refutes [] [] [prof [with_ipver allow_rule V6]] tcp_packet VdDeny ROk.
Proof. exact ipver_refuted_pf. Qed.
Print Assumptions c12_ipver_pinned_refuted.

(* (4) a NET set member 10.0.0.0/25 is never found by the policystore trie *)
Theorem c12_trie_pinned_refuted :
  refutes [(1, [ECidr 167772160 25])] [] [prof [with_src_set allow_rule 1]] tcp_packet VdAllow RDenied.
Proof. exact trie_refuted_pf. Qed.
Print Assumptions c12_trie_pinned_refuted.

(* (5) named-port sets are looked up with the bare port number, which no member "<ip>,<proto>:<port>" equals *)
Theorem c12_named_port_pinned_refuted :
  refutes [(5, [EPort 167772162 6 80])] [] [prof [allow_tcp_named5]] tcp_packet VdAllow RDenied.
Proof. exact named_refuted_pf. Qed.
Print Assumptions c12_named_port_pinned_refuted.

(* the hypotheses of c12_checker_verdict are satisfiable by a non-trivial state of the PINNED fragment (two tiers, a
   staged policy, a NET set, a profile) on which the verdict is allow *)
Example c12_checker_verdict_hyps_satisfiable :
  state_in_fragment pinned_kvariant V4 ex_tbl ex_tiers ex_profs = true /\ packet_in_fragment tcp_packet = true
  /\ ref_verdict V4 ex_tbl ex_tiers ex_profs tcp_packet = VAllow
  /\ chk_endpoint pinned_kvariant ex_tbl ex_tiers ex_profs tcp_packet = ROk.
Proof. exact checker_hyps_satisfiable_pf. Qed.

(* the hypotheses of c12_agree are satisfiable, all at once, by that state: an iptables rendering (both policies of
   tier 1 in one policy group) and an nftables rendering (one group per policy, flow logs, REJECT) with their own chain
   names, the BPF view with the LPM lookup of Bpf.v on the same member table, the pinned variants of all four, and the
   TCP packet the reference allows *)
Example c12_agree_hyps_satisfiable :
  state_in_fragment pinned_kvariant V4 ex_tbl ex_tiers ex_profs = true /\ packet_in_fragment tcp_packet = true
  /\ wf_packet tcp_packet /\ pk_ct tcp_packet = CtNew
  /\ ipt_hyps ex_ci ex_env ex_ec V4 "ep" ex_mt_i ex_mp ex_tbl ex_tiers ex_profs tcp_packet
  /\ ipt_hyps ex_cn ex_env ex_ec V4 "ep" ex_mt_n ex_mp ex_tbl ex_tiers ex_profs tcp_packet
  /\ bpf_hyps V4 ex_tbl (C11.ProofsSets.table_kind ex_tbl) (set_lookup ex_bpf_env) (bpf_rules no_name no_name ex_tiers ex_profs) tcp_packet
  /\ vd_of_ref (ref_verdict V4 ex_tbl ex_tiers ex_profs tcp_packet) = VdAllow
  /\ List.length (render_endpoint ex_ec ex_ci V4 "ep" ex_mt_i ex_mp) = 4%nat.
Proof. exact agree_hyps_satisfiable_pf. Qed.
