(* Common/Sync.v — a stream of upserts/deletes applied to a finite map.

   Generic facts used by the "syncer"-style properties (C01 C02 C24 C25 C26 C31):
   - the map obtained from a stream is a fold, and its value at a key is decided by the LAST
     operation on that key ([lookup_apply_ops]);
   - two streams with the same last operation per key give the same view ([apply_ops_view_eq]);
   - dropping every operation that is later overwritten does not change the view
     ([apply_ops_dedupe]), and the deduplicated stream names each key once;
   - operations on distinct keys commute ([apply_ops_perm]);
   - streams compose ([apply_ops_app]), and replaying the contents of a map over any map whose
     other keys are deleted reproduces it ([apply_ops_snapshot]).
   std++ gmap; no axioms. *)
From stdpp Require Import gmap.

Section sync.
  Context {K : Type} `{Countable K} {V : Type}.

  Inductive op := Upsert (k : K) (v : V) | Delete (k : K).

  Definition op_key (o : op) : K := match o with Upsert k _ => k | Delete k => k end.
  Definition op_val (o : op) : option V := match o with Upsert _ v => Some v | Delete _ => None end.

  Definition apply_op (m : gmap K V) (o : op) : gmap K V :=
    match o with Upsert k v => <[k := v]> m | Delete k => delete k m end.
  Definition apply_ops : gmap K V → list op → gmap K V := foldl apply_op.

  (* the last operation of the stream that touches [k], if any: [Some None] = deleted *)
  Fixpoint last_op (k : K) (ops : list op) : option (option V) :=
    match ops with
    | [] => None
    | o :: r =>
        match last_op k r with
        | Some x => Some x
        | None => if decide (op_key o = k) then Some (op_val o) else None
        end
    end.

  Lemma lookup_apply_op m o k :
    apply_op m o !! k = if decide (op_key o = k) then op_val o else m !! k.
  Proof.
    destruct o as [k' v|k']; simpl; destruct (decide (k' = k)) as [->|];
      by rewrite ?lookup_insert, ?lookup_delete, ?lookup_insert_ne, ?lookup_delete_ne.
  Qed.

  Lemma apply_ops_app m a b : apply_ops m (a ++ b) = apply_ops (apply_ops m a) b.
  Proof. apply foldl_app. Qed.

  (* the view is decided by the last operation per key *)
  Lemma lookup_apply_ops ops : ∀ m k,
    apply_ops m ops !! k = match last_op k ops with Some x => x | None => m !! k end.
  Proof.
    induction ops as [|o r IH]; intros m k; simpl; [done|].
    unfold apply_ops in *. simpl. rewrite IH.
    destruct (last_op k r); [done|]. rewrite lookup_apply_op. by destruct (decide _).
  Qed.

  (* view equality *)
  Lemma apply_ops_view_eq m a b :
    (∀ k, last_op k a = last_op k b) → apply_ops m a = apply_ops m b.
  Proof. intros E. apply map_eq. intros k. by rewrite !lookup_apply_ops, E. Qed.

  Lemma last_op_None k ops : last_op k ops = None ↔ k ∉ map op_key ops.
  Proof.
    induction ops as [|o r IH]; simpl; [split; [intros _; apply not_elem_of_nil|done]|].
    rewrite not_elem_of_cons. destruct (last_op k r) eqn:E.
    - split; [done|]. intros [_ ?]. by apply IH.
    - destruct (decide (op_key o = k)); split; try done; [intros [? _]; congruence|].
      intros _. split; [congruence|]. by apply IH.
  Qed.

  (* dedupe: keep an operation only if no later operation names the same key *)
  Fixpoint dedupe (ops : list op) : list op :=
    match ops with
    | [] => []
    | o :: r => if decide (op_key o ∈ map op_key r) then dedupe r else o :: dedupe r
    end.

  Lemma dedupe_keys k ops : k ∈ map op_key (dedupe ops) ↔ k ∈ map op_key ops.
  Proof.
    induction ops as [|o r IH]; simpl; [done|].
    destruct (decide _) as [Hin|Hin]; simpl; rewrite ?elem_of_cons, IH; [|done].
    split; [by right|]. intros [->|?]; done.
  Qed.

  Lemma last_op_dedupe k ops : last_op k (dedupe ops) = last_op k ops.
  Proof.
    induction ops as [|o r IH]; simpl; [done|].
    destruct (decide (op_key o ∈ map op_key r)) as [Hin|Hin]; simpl; rewrite IH; [|done].
    destruct (last_op k r) eqn:E; [done|].
    destruct (decide (op_key o = k)) as [<-|]; [|done].
    apply last_op_None in E. done.
  Qed.

  Lemma apply_ops_dedupe m ops : apply_ops m (dedupe ops) = apply_ops m ops.
  Proof. apply apply_ops_view_eq. intros k. apply last_op_dedupe. Qed.

  Lemma NoDup_dedupe ops : NoDup (map op_key (dedupe ops)).
  Proof.
    induction ops as [|o r IH]; simpl; [constructor|].
    destruct (decide _) as [Hin|Hin]; simpl; [done|].
    constructor; [|done]. by rewrite dedupe_keys.
  Qed.

  (* with one operation per key, the order is irrelevant *)
  Lemma last_op_NoDup k ops o :
    NoDup (map op_key ops) → o ∈ ops → op_key o = k → last_op k ops = Some (op_val o).
  Proof.
    induction ops as [|o' r IH]; simpl; intros ND Hin Hk; [by apply elem_of_nil in Hin|].
    apply NoDup_cons in ND as [Hni ND]. apply elem_of_cons in Hin as [->|Hin].
    - assert (last_op k r = None) as -> by (apply last_op_None; congruence).
      by rewrite decide_True.
    - by rewrite (IH ND Hin Hk).
  Qed.

  Lemma apply_ops_perm m a b :
    NoDup (map op_key a) → a ≡ₚ b → apply_ops m a = apply_ops m b.
  Proof.
    intros ND P. apply apply_ops_view_eq. intros k.
    assert (NDb : NoDup (map op_key b)) by (by rewrite <-P).
    destruct (last_op k a) as [x|] eqn:Ea.
    - assert (∃ o, o ∈ a ∧ op_key o = k) as (o & Hin & Hk).
      { destruct (decide (k ∈ map op_key a)) as [Hin|Hni].
        - apply elem_of_list_fmap in Hin as (o & -> & ?). eauto.
        - apply last_op_None in Hni. congruence. }
      rewrite (last_op_NoDup k a o ND Hin Hk) in Ea.
      rewrite (last_op_NoDup k b o NDb); [congruence| by rewrite <-P |done].
    - symmetry. apply last_op_None. apply last_op_None in Ea. by rewrite <-P.
  Qed.

  (* a snapshot: upserts for everything in [t], deletes for the other keys of [m] *)
  Lemma apply_ops_snapshot (m t : gmap K V) ops :
    (∀ k, last_op k ops = match t !! k with
                          | Some v => Some (Some v)
                          | None => if decide (is_Some (m !! k)) then Some None else None
                          end) →
    apply_ops m ops = t.
  Proof.
    intros E. apply map_eq. intros k. rewrite lookup_apply_ops, E.
    destruct (t !! k); [done|]. destruct (decide _) as [|Hn]; [done|].
    by apply eq_None_not_Some.
  Qed.
End sync.

Arguments op : clear implicits.
