(* Common/Ipt.v — an abstract netfilter rule machine (iptables / nftables as Felix uses them).
   Shared by C08 C09 C10 C12 C40 C41.

   * `pmatch`   : the match vocabulary Felix's renderers emit (both backends parse into this one AST)
   * `target`   : jump / goto / return / accept / drop / reject / mark update / no-ops (log, nflog, notrack)
   * `irule`, `run`: rules; evaluation of a rule list against a chain map; fuel = maximum jump depth
   * lemmas     : sequencing (`run_app`), fuel monotonicity, a fuel bound for ranked (acyclic) chain graphs,
                  and `run_flat` = `run` for jump-free rule lists.

   What is trusted here is that `match_one`/`apply_mark`/`run` describe what the kernel does with such a
   rule; nothing else in the development is about the kernel. *)
From Coq Require Import List NArith Bool String Arith Lia.
From Verif.Common Require Import Packet.
Import ListNotations.
Open Scope N_scope.

(* ------------------------------------------------------------------ matches *)
Inductive pmatch :=
| MProto (neg : bool) (proto : N)                       (* [!] -p N           / meta l4proto [!=] N *)
| MSrcNet (neg : bool) (c : cidr)                       (* [!] --source       / ip saddr [!=] *)
| MDstNet (neg : bool) (c : cidr)
| MSrcPorts (neg : bool) (rs : list port_range)         (* -m multiport [!] --source-ports / tcp sport [!=] { } *)
| MDstPorts (neg : bool) (rs : list port_range)
| MSrcIpSet (neg : bool) (id : N)                       (* -m set [!] --match-set S src     / ip saddr [!=] @S *)
| MDstIpSet (neg : bool) (id : N)
| MSrcIpPortSet (neg : bool) (id : N)                   (* ... S src,src  / ip saddr . meta l4proto . th sport [!=] @S *)
| MDstIpPortSet (neg : bool) (id : N)
| MIcmp (neg : bool) (t : N) (code : option N)          (* -m icmp|icmp6 [!] --icmp-type t[/c] : negates the conjunction *)
| MIcmpType (neg : bool) (t : N)                        (* nft: icmp type [!=] t *)
| MIcmpCode (neg : bool) (c : N)                        (* nft: (icmp) code [!=] c *)
| MMark (neg : bool) (value mask : N)                   (* -m mark [!] --mark v/m : (mark & m) == v *)
| MInIface (neg : bool) (name : list N) (wild : bool)   (* wild: `name` is a prefix pattern (cali+ / cali* ) *)
| MOutIface (neg : bool) (name : list N) (wild : bool)
| MCtState (neg : bool) (states : list ctstate)
| MOther (k : N).                                       (* outside the packet (rate limits, ...): an oracle *)

Record env := { e_sets : ipsets; e_other : N -> packet -> bool }.

Fixpoint is_prefix (a b : list N) : bool :=
  match a, b with
  | [], _ => true
  | x :: a', y :: b' => N.eqb x y && is_prefix a' b'
  | _ :: _, [] => false
  end.
Fixpoint bytes_eqb (a b : list N) : bool :=
  match a, b with
  | [], [] => true
  | x :: a', y :: b' => N.eqb x y && bytes_eqb a' b'
  | _, _ => false
  end.
Definition iface_ok (name : list N) (wild : bool) (actual : list N) : bool :=
  if wild then is_prefix name actual else bytes_eqb name actual.

Definition match_one (e : env) (p : packet) (m : pmatch) : bool :=
  match m with
  | MProto neg n => xorb neg (N.eqb (pk_proto p) n)
  | MSrcNet neg c => xorb neg (in_cidr c (pk_ver p) (pk_src p))
  | MDstNet neg c => xorb neg (in_cidr c (pk_ver p) (pk_dst p))
  | MSrcPorts neg rs => xorb neg (in_ranges rs (pk_sport p))
  | MDstPorts neg rs => xorb neg (in_ranges rs (pk_dport p))
  | MSrcIpSet neg id => xorb neg (e_sets e id (src_member p))
  | MDstIpSet neg id => xorb neg (e_sets e id (dst_member p))
  | MSrcIpPortSet neg id => xorb neg (e_sets e id (src_port_member p))
  | MDstIpPortSet neg id => xorb neg (e_sets e id (dst_port_member p))
  | MIcmp neg t None => xorb neg (N.eqb (pk_icmp_type p) t)
  | MIcmp neg t (Some c) => xorb neg (N.eqb (pk_icmp_type p) t && N.eqb (pk_icmp_code p) c)
  | MIcmpType neg t => xorb neg (N.eqb (pk_icmp_type p) t)
  | MIcmpCode neg c => xorb neg (N.eqb (pk_icmp_code p) c)
  | MMark neg v m => xorb neg (N.eqb (N.land (pk_mark p) m) v)
  | MInIface neg n w => xorb neg (iface_ok n w (pk_in p))
  | MOutIface neg n w => xorb neg (iface_ok n w (pk_out p))
  | MCtState neg sts => xorb neg (existsb (ctstate_eqb (pk_ct p)) sts)
  | MOther k => e_other e k p
  end.

(* a rule fires when ALL its matches hold *)
Definition matches (e : env) (p : packet) (ms : list pmatch) : bool := forallb (match_one e p) ms.

(* ------------------------------------------------------------------ actions, rules, chains *)
Inductive target :=
| ANone                         (* rule without a target (comment only) *)
| AJump (c : string)
| AGoto (c : string)
| AReturn
| AAccept
| ADrop
| AReject
| AMark (and_mask xor_mask : N) (* mark := (mark & and_mask) ^ xor_mask, all 32-bit *)
| ALog                          (* LOG: continues *)
| ANflog                        (* NFLOG: continues *)
| ANoTrack.                     (* NOTRACK: continues (conntrack effect not modelled here) *)

(* MARK --set-mark v/m  and nft `meta mark set mark & a ^ x` are both `AMark`: *)
Definition ASetMaskedMark (v m : N) : target := AMark (lnot32 m) v.   (* zero the bits of m, then xor v *)
Definition ASetMark (m : N) : target := ASetMaskedMark m m.
Definition AClearMark (m : N) : target := ASetMaskedMark 0 m.
Definition apply_mark (a x old : N) : N := N.land (N.lxor (N.land old a) x) M32.

Record irule := { ir_match : list pmatch; ir_action : target }.
Definition chains := list (string * list irule).
Fixpoint lookup (cs : chains) (c : string) : option (list irule) :=
  match cs with
  | [] => None
  | (n, b) :: cs' => if String.eqb n c then Some b else lookup cs' c
  end.

Inductive final := FAccept | FDrop | FReject.
Inductive result :=
| RDone (f : final) (p : packet)   (* terminal verdict *)
| RReturn (p : packet)             (* explicit RETURN out of the rule list being run *)
| RFall (p : packet)               (* ran off the end of the rule list *)
| RFuel                            (* jump depth exceeded the fuel *)
| RBadChain.                       (* jump/goto to a chain that does not exist *)

(* ------------------------------------------------------------------ evaluation *)
Section Go.
  Variable cs : chains.
  Variable e : env.
  Variable call : list irule -> packet -> result.      (* how a jumped-to chain body is run *)

  Fixpoint go (rs : list irule) (p : packet) {struct rs} : result :=
    match rs with
    | [] => RFall p
    | r :: rs' =>
      if matches e p (ir_match r) then
        match ir_action r with
        | ANone | ALog | ANflog | ANoTrack => go rs' p
        | AMark a x => go rs' (set_mark p (apply_mark a x (pk_mark p)))
        | AReturn => RReturn p
        | AAccept => RDone FAccept p
        | ADrop => RDone FDrop p
        | AReject => RDone FReject p
        | AJump c =>
            match lookup cs c with
            | None => RBadChain
            | Some body =>
                match call body p with
                | RFall p' | RReturn p' => go rs' p'      (* callee finished: continue after the jump *)
                | other => other
                end
            end
        | AGoto c =>
            match lookup cs c with
            | None => RBadChain
            | Some body =>
                match call body p with
                | RFall p' => RReturn p'                  (* no way back into this list *)
                | other => other
                end
            end
        end
      else go rs' p
    end.
End Go.

(* fuel = how many nested jumps/gotos may be followed *)
Fixpoint run (fuel : nat) (cs : chains) (e : env) (rs : list irule) (p : packet) {struct fuel} : result :=
  match fuel with
  | O => RFuel
  | S f => go cs e (run f cs e) rs p
  end.

(* evaluation of a jump-free rule list needs neither chains nor fuel *)
Definition run_flat (e : env) (rs : list irule) (p : packet) : result :=
  go [] e (fun _ _ => RBadChain) rs p.

(* run a named chain as a hook would: falling off the end = RETURN to the caller *)
Definition run_chain (fuel : nat) (cs : chains) (e : env) (c : string) (p : packet) : result :=
  match lookup cs c with
  | None => RBadChain
  | Some body => run fuel cs e body p
  end.

(* ------------------------------------------------------------------ structure of rule lists *)
Definition targets_of (r : irule) : list string :=
  match ir_action r with AJump c | AGoto c => [c] | _ => [] end.
Definition targets (rs : list irule) : list string := flat_map targets_of rs.
Definition jump_free (rs : list irule) : Prop := targets rs = [].

(* ------------------------------------------------------------------ lemmas *)
Lemma go_app : forall cs e call rs1 rs2 p,
  go cs e call (rs1 ++ rs2) p =
  match go cs e call rs1 p with
  | RFall p' => go cs e call rs2 p'
  | r => r
  end.
Proof.
  intros cs e call rs1. induction rs1 as [|r rs1 IH]; intros rs2 p; [reflexivity|].
  cbn [app go].
  destruct (matches e p (ir_match r)); [|apply IH].
  destruct (ir_action r); try apply IH; try reflexivity.
  - destruct (lookup cs c); [|reflexivity].
    destruct (call l p); try reflexivity; apply IH.
  - destruct (lookup cs c); [|reflexivity].
    destruct (call l p); reflexivity.
Qed.

Lemma run_app : forall f cs e rs1 rs2 p,
  run (S f) cs e (rs1 ++ rs2) p =
  match run (S f) cs e rs1 p with
  | RFall p' => run (S f) cs e rs2 p'
  | r => r
  end.
Proof. intros. cbn [run]. apply go_app. Qed.

Lemma run_flat_app : forall e rs1 rs2 p,
  run_flat e (rs1 ++ rs2) p =
  match run_flat e rs1 p with
  | RFall p' => run_flat e rs2 p'
  | r => r
  end.
Proof. intros. apply go_app. Qed.

(* a jump-free list never consults `call` or the chain map *)
Lemma go_jump_free : forall cs e call cs' call' rs p,
  jump_free rs -> go cs e call rs p = go cs' e call' rs p.
Proof.
  intros cs e call cs' call' rs. induction rs as [|r rs IH]; intros p H; [reflexivity|].
  unfold jump_free, targets in H. cbn [flat_map] in H.
  apply app_eq_nil in H. destruct H as [Hr Hrs].
  cbn [go]. destruct (matches e p (ir_match r)); [|apply IH; exact Hrs].
  unfold targets_of in Hr.
  destruct (ir_action r); try discriminate; try reflexivity; apply IH; exact Hrs.
Qed.

Lemma run_jump_free : forall f cs e rs p,
  jump_free rs -> run (S f) cs e rs p = run_flat e rs p.
Proof. intros. cbn [run]. unfold run_flat. apply go_jump_free. assumption. Qed.

Lemma run_flat_total : forall e rs p,
  jump_free rs -> run_flat e rs p <> RFuel /\ run_flat e rs p <> RBadChain.
Proof.
  intros e rs. induction rs as [|r rs IH]; intros p H; [split; discriminate|].
  unfold jump_free, targets in H. cbn [flat_map] in H.
  apply app_eq_nil in H. destruct H as [Hr Hrs].
  unfold run_flat in *. cbn [go]. destruct (matches e p (ir_match r)); [|apply IH; exact Hrs].
  unfold targets_of in Hr.
  destruct (ir_action r); try discriminate; try (apply IH; exact Hrs); split; discriminate.
Qed.

(* more fuel never changes a result that was reached *)
Lemma go_mono : forall cs e (call call' : list irule -> packet -> result),
  (forall b p r, call b p = r -> r <> RFuel -> call' b p = r) ->
  forall rs p r, go cs e call rs p = r -> r <> RFuel -> go cs e call' rs p = r.
Proof.
  intros cs e call call' Hc rs. induction rs as [|x rs IH]; intros p r H Hr; [exact H|].
  cbn [go] in *. destruct (matches e p (ir_match x)); [|apply IH; assumption].
  destruct (ir_action x); try (apply IH; assumption); try exact H.
  - destruct (lookup cs c); [|exact H].
    destruct (call l p) eqn:Ec.
    + rewrite (Hc _ _ _ Ec) by discriminate. exact H.
    + rewrite (Hc _ _ _ Ec) by discriminate. apply IH; assumption.
    + rewrite (Hc _ _ _ Ec) by discriminate. apply IH; assumption.
    + subst r. contradiction.
    + rewrite (Hc _ _ _ Ec) by discriminate. exact H.
  - destruct (lookup cs c); [|exact H].
    destruct (call l p) eqn:Ec.
    + rewrite (Hc _ _ _ Ec) by discriminate. exact H.
    + rewrite (Hc _ _ _ Ec) by discriminate. exact H.
    + rewrite (Hc _ _ _ Ec) by discriminate. exact H.
    + subst r. contradiction.
    + rewrite (Hc _ _ _ Ec) by discriminate. exact H.
Qed.

Lemma run_mono_S : forall f cs e rs p r,
  run f cs e rs p = r -> r <> RFuel -> run (S f) cs e rs p = r.
Proof.
  induction f as [|f IH]; intros cs e rs p r H Hr.
  - cbn in H. subst r. contradiction.
  - cbn [run] in *. eapply go_mono; [|exact H|exact Hr].
    intros b q r' Hb Hr'. apply IH; assumption.
Qed.

Lemma run_mono : forall f f' cs e rs p r,
  (f <= f')%nat -> run f cs e rs p = r -> r <> RFuel -> run f' cs e rs p = r.
Proof.
  intros f f' cs e rs p r Hle. induction Hle; intros H Hr; [exact H|].
  apply run_mono_S; [apply IHHle; assumption|exact Hr].
Qed.

(* Fuel bound.  `rank` witnesses that the chain graph is acyclic: every jump/goto inside a chain goes to
   a chain of strictly smaller rank.  Then fuel (1 + largest rank reachable from the list) suffices. *)
Definition ranked (cs : chains) (rank : string -> nat) : Prop :=
  forall c body, lookup cs c = Some body -> forall t, In t (targets body) -> (rank t < rank c)%nat.

Lemma go_no_fuel : forall cs e call rs p,
  (forall t body q, In t (targets rs) -> lookup cs t = Some body -> call body q <> RFuel) ->
  go cs e call rs p <> RFuel.
Proof.
  intros cs e call rs. induction rs as [|x rs IH]; intros p H; [discriminate|].
  assert (Hrs : forall t body q, In t (targets rs) -> lookup cs t = Some body -> call body q <> RFuel).
  { intros t body q Ht. apply H. unfold targets. cbn [flat_map]. apply in_or_app. right. exact Ht. }
  cbn [go]. destruct (matches e p (ir_match x)); [|apply IH; exact Hrs].
  destruct (ir_action x) eqn:Ea; try (apply IH; exact Hrs); try discriminate.
  - destruct (lookup cs c) eqn:El; [|discriminate].
    assert (Hc : call l p <> RFuel).
    { apply (H c l p); [|exact El]. unfold targets. cbn [flat_map]. apply in_or_app. left.
      unfold targets_of. rewrite Ea. left. reflexivity. }
    destruct (call l p); try discriminate; try (apply IH; exact Hrs). contradiction.
  - destruct (lookup cs c) eqn:El; [|discriminate].
    assert (Hc : call l p <> RFuel).
    { apply (H c l p); [|exact El]. unfold targets. cbn [flat_map]. apply in_or_app. left.
      unfold targets_of. rewrite Ea. left. reflexivity. }
    destruct (call l p); try discriminate. contradiction.
Qed.

Lemma run_ranked_no_fuel : forall cs rank, ranked cs rank ->
  forall n e rs p, (forall t, In t (targets rs) -> (rank t < n)%nat) -> run (S n) cs e rs p <> RFuel.
Proof.
  intros cs rank Hr. induction n as [|n IH]; intros e rs p Hb.
  - cbn [run]. apply go_no_fuel. intros t body q Ht. exfalso. specialize (Hb t Ht). lia.
  - cbn [run]. apply go_no_fuel. intros t body q Ht El.
    change (run (S n) cs e body q <> RFuel). apply IH.
    intros t' Ht'. specialize (Hr t body El t' Ht'). specialize (Hb t Ht). lia.
Qed.

(* with enough fuel the result no longer depends on the fuel *)
Lemma run_ranked_stable : forall cs rank, ranked cs rank ->
  forall n f e rs p, (forall t, In t (targets rs) -> (rank t < n)%nat) -> (S n <= f)%nat ->
  run f cs e rs p = run (S n) cs e rs p.
Proof.
  intros cs rank Hr n f e rs p Hb Hle.
  eapply run_mono; [exact Hle|reflexivity|]. eapply run_ranked_no_fuel; eassumption.
Qed.

(* ------------------------------------------------------------------ small facts used by clients *)
Lemma apply_mark_set : forall m old, apply_mark (lnot32 m) m old = N.land (N.lxor (N.land old (lnot32 m)) m) M32.
Proof. reflexivity. Qed.

(* decidable structural equality, for comparing a model's rule list with parsed implementation output *)
Definition opt_eqb {A} (f : A -> A -> bool) (a b : option A) : bool :=
  match a, b with None, None => true | Some x, Some y => f x y | _, _ => false end.
Fixpoint list_eqb {A} (f : A -> A -> bool) (a b : list A) : bool :=
  match a, b with
  | [], [] => true
  | x :: a', y :: b' => f x y && list_eqb f a' b'
  | _, _ => false
  end.
Definition range_eqb (a b : port_range) : bool := N.eqb (fst a) (fst b) && N.eqb (snd a) (snd b).
Definition pmatch_eqb (a b : pmatch) : bool :=
  match a, b with
  | MProto n x, MProto n' x' => Bool.eqb n n' && N.eqb x x'
  | MSrcNet n c, MSrcNet n' c' | MDstNet n c, MDstNet n' c' => Bool.eqb n n' && cidr_eqb c c'
  | MSrcPorts n r, MSrcPorts n' r' | MDstPorts n r, MDstPorts n' r' => Bool.eqb n n' && list_eqb range_eqb r r'
  | MSrcIpSet n i, MSrcIpSet n' i' | MDstIpSet n i, MDstIpSet n' i'
  | MSrcIpPortSet n i, MSrcIpPortSet n' i' | MDstIpPortSet n i, MDstIpPortSet n' i' => Bool.eqb n n' && N.eqb i i'
  | MIcmp n t c, MIcmp n' t' c' => Bool.eqb n n' && N.eqb t t' && opt_eqb N.eqb c c'
  | MIcmpType n t, MIcmpType n' t' | MIcmpCode n t, MIcmpCode n' t' => Bool.eqb n n' && N.eqb t t'
  | MMark n v m, MMark n' v' m' => Bool.eqb n n' && N.eqb v v' && N.eqb m m'
  | MInIface n s w, MInIface n' s' w' | MOutIface n s w, MOutIface n' s' w' =>
      Bool.eqb n n' && bytes_eqb s s' && Bool.eqb w w'
  | MCtState n s, MCtState n' s' => Bool.eqb n n' && list_eqb ctstate_eqb s s'
  | MOther k, MOther k' => N.eqb k k'
  | _, _ => false
  end.
Definition action_eqb (a b : target) : bool :=
  match a, b with
  | ANone, ANone | AReturn, AReturn | AAccept, AAccept | ADrop, ADrop | AReject, AReject
  | ALog, ALog | ANflog, ANflog | ANoTrack, ANoTrack => true
  | AJump c, AJump c' | AGoto c, AGoto c' => String.eqb c c'
  | AMark a x, AMark a' x' => N.eqb a a' && N.eqb x x'
  | _, _ => false
  end.
Definition rule_eqb (a b : irule) : bool :=
  list_eqb pmatch_eqb (ir_match a) (ir_match b) && action_eqb (ir_action a) (ir_action b).
Definition rules_eqb : list irule -> list irule -> bool := list_eqb rule_eqb.

(* ------------------------------------------------------------------ rules only ever change the mark *)
Definition unmark (p : packet) : packet := set_mark p 0.
Definition result_unmarked_as (p : packet) (r : result) : Prop :=
  match r with
  | RDone _ p' | RReturn p' | RFall p' => unmark p' = unmark p
  | RFuel | RBadChain => True
  end.
Lemma go_unmark : forall cs e call,
  (forall b q, result_unmarked_as q (call b q)) ->
  forall rs p, result_unmarked_as p (go cs e call rs p).
Proof.
  intros cs e call Hc rs. induction rs as [|x rs IH]; intro p; [reflexivity|].
  cbn [go]. destruct (matches e p (ir_match x)); [|apply IH].
  destruct (ir_action x); try apply IH; try reflexivity.
  - destruct (lookup cs c); [|exact I]. specialize (Hc l p).
    destruct (call l p); try exact Hc; cbn in Hc.
    + specialize (IH p0). destruct (go cs e call rs p0); cbn in *; congruence.
    + specialize (IH p0). destruct (go cs e call rs p0); cbn in *; congruence.
  - destruct (lookup cs c); [|exact I]. specialize (Hc l p). destruct (call l p); exact Hc.
  - specialize (IH (set_mark p (apply_mark and_mask xor_mask (pk_mark p)))).
    destruct (go cs e call rs _); cbn in *; try exact I; rewrite IH; reflexivity.
Qed.
Lemma run_unmark : forall f cs e rs p, result_unmarked_as p (run f cs e rs p).
Proof.
  induction f as [|f IH]; intros cs e rs p; [exact I|]. cbn [run]. apply go_unmark. intros b q. apply IH.
Qed.
Lemma run_flat_unmark : forall e rs p, result_unmarked_as p (run_flat e rs p).
Proof. intros. unfold run_flat. apply go_unmark. intros. exact I. Qed.

(* ------------------------------------------------------------------ trailing RETURN rules are no-ops *)
(* Felix strips RETURN rules from the end of policy chains.  Seen from a caller (which treats an explicit
   RETURN and running off the end alike) nothing changes: `collapse` identifies the two. *)
Definition collapse (r : result) : result := match r with RReturn p => RFall p | x => x end.
Definition is_return (r : irule) : bool := match ir_action r with AReturn => true | _ => false end.
Fixpoint strip_trailing_returns (rs : list irule) : list irule :=
  match rs with
  | [] => []
  | r :: rs' =>
      match strip_trailing_returns rs' with
      | [] => if is_return r then [] else [r]
      | l => r :: l
      end
  end.

Lemma go_cons_collapse : forall cs e call r l1 l2,
  (forall q, collapse (go cs e call l1 q) = collapse (go cs e call l2 q)) ->
  forall p, collapse (go cs e call (r :: l1) p) = collapse (go cs e call (r :: l2) p).
Proof.
  intros cs e call r l1 l2 H p. cbn [go]. destruct (matches e p (ir_match r)); [|apply H].
  destruct (ir_action r); try apply H; try reflexivity.
  destruct (lookup cs c); [|reflexivity]. destruct (call l p); try reflexivity; apply H.
Qed.

Lemma strip_trailing_returns_ok : forall cs e call rs p,
  collapse (go cs e call (strip_trailing_returns rs) p) = collapse (go cs e call rs p).
Proof.
  intros cs e call rs. induction rs as [|r rs IH]; intro p; [reflexivity|].
  cbn [strip_trailing_returns]. destruct (strip_trailing_returns rs) as [|x l] eqn:E.
  - destruct (is_return r) eqn:Er.
    + cbn [go]. unfold is_return in Er. destruct (matches e p (ir_match r)).
      * destruct (ir_action r); try discriminate. reflexivity.
      * rewrite <- IH. reflexivity.
    + apply go_cons_collapse. exact IH.
  - apply go_cons_collapse. exact IH.
Qed.

Lemma run_flat_strip_trailing_returns : forall e rs p,
  collapse (run_flat e (strip_trailing_returns rs) p) = collapse (run_flat e rs p).
Proof. intros. apply strip_trailing_returns_ok. Qed.
Lemma run_strip_trailing_returns : forall f cs e rs p,
  collapse (run f cs e (strip_trailing_returns rs) p) = collapse (run f cs e rs p).
Proof. intros [|f] cs e rs p; [reflexivity|]. cbn [run]. apply strip_trailing_returns_ok. Qed.
