(* Shared helper for the correspondence runs: evaluate a per-case checker over
   the cases the Go harness produced, keep only the failing ones. *)
From Coq Require Import List Bool.
Import ListNotations.

(* chk c = (model agrees with the implementation's observables,
            specification oracle accepts the implementation's observables) *)
Definition run_cases {A : Type} (chk : A -> bool * bool) (cs : list (nat * A))
  : list (nat * (bool * bool)) :=
  filter (fun r => negb (fst (snd r) && snd (snd r)))
         (map (fun ic => (fst ic, chk (snd ic))) cs).
