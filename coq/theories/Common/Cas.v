(* Common/Cas.v — a compare-and-swap key/value store with revisions, client programs whose datastore
   accesses are single atomic steps, an interleaving semantics with injected conflicts and crashes, and a
   generic invariant-preservation theorem for "read, compute, CAS" clients.

   Used by C19 (and meant for C20, C21, C22, C38).

   * store        : association list key -> (value, revision); one global revision counter, so a revision
                    names one write of the whole history.
   * req / resp   : Get, List, Create (fails if present), Update / Delete with the revision read earlier
                    (fail with RConflict when the stored revision differs, RNotFound when absent).
   * prog R       : a client operation = a tree of requests with continuations (inductive, so every
                    operation terminates; retry loops carry fuel).
   * fault        : what the environment does to one access: nothing, a spurious conflict on a conditional
                    write, a crash before or after the access.
   * sys_step     : one scheduler event = one client performs its next access.  A schedule is any list
                    of events; theorems quantify over all of them.
   * hist         : ghost history revision -> (key, value) of every write that ever succeeded.
   * safe         : "whatever the store answers (consistently with history), every conditional write the
                    program issues carries a revision whose value it knows, and the new value is an allowed
                    transformation of THAT value".  Because revisions are unique, a conditional write that
                    succeeds transforms the CURRENT value, whatever the interleaving was.
   * safe_system_invariant : if every allowed transformation preserves an invariant of the store, and all
                    client programs are safe, the invariant holds after every schedule. *)
From Coq Require Import List NArith Bool Arith Lia.
Import ListNotations.
Open Scope N_scope.

Set Implicit Arguments.

Section Cas.
  Variables K V L : Type.
  Variable keqb : K -> K -> bool.
  Variable kltb : K -> K -> bool.           (* strict order used for canonical storage and List order *)
  Variable lmatch : L -> K -> bool.         (* which keys a List request selects *)
  Hypothesis keqb_spec : forall a b, keqb a b = true <-> a = b.

  Record entry := { e_key : K; e_val : V; e_rev : N }.
  Record store := { st_ents : list entry; st_next : N }.

  Definition empty_store (first_rev : N) : store := {| st_ents := []; st_next := first_rev |}.

  Fixpoint lookup (es : list entry) (k : K) : option entry :=
    match es with
    | [] => None
    | e :: es' => if keqb (e_key e) k then Some e else lookup es' k
    end.

  Fixpoint remove (es : list entry) (k : K) : list entry :=
    match es with
    | [] => []
    | e :: es' => if keqb (e_key e) k then es' else e :: remove es' k
    end.

  (* insert: replaces an existing entry in place, otherwise inserts before the first greater key *)
  Fixpoint replace (es : list entry) (n : entry) : list entry :=
    match es with
    | [] => []
    | e :: es' => if keqb (e_key e) (e_key n) then n :: es' else e :: replace es' n
    end.
  Fixpoint sinsert (es : list entry) (n : entry) : list entry :=
    match es with
    | [] => [n]
    | e :: es' => if kltb (e_key n) (e_key e) then n :: e :: es' else e :: sinsert es' n
    end.
  Definition insert (es : list entry) (n : entry) : list entry :=
    match lookup es (e_key n) with Some _ => replace es n | None => sinsert es n end.

  Inductive req :=
  | RGet (k : K)
  | RList (l : L)
  | RCreate (k : K) (v : V)
  | RUpdate (k : K) (v : V) (rev : N)
  | RDelete (k : K) (rev : N).

  Inductive resp :=
  | ROk (e : entry)            (* Get: the entry; Create/Update: the stored entry; Delete: the removed entry *)
  | RNotFound
  | RExists
  | RConflict
  | RListed (es : list entry).

  Definition exec (s : store) (r : req) : store * resp :=
    match r with
    | RGet k => (s, match lookup (st_ents s) k with Some e => ROk e | None => RNotFound end)
    | RList l => (s, RListed (filter (fun e => lmatch l (e_key e)) (st_ents s)))
    | RCreate k v =>
        match lookup (st_ents s) k with
        | Some _ => (s, RExists)
        | None => let e := {| e_key := k; e_val := v; e_rev := st_next s |} in
                  ({| st_ents := insert (st_ents s) e; st_next := st_next s + 1 |}, ROk e)
        end
    | RUpdate k v rev =>
        match lookup (st_ents s) k with
        | None => (s, RNotFound)
        | Some e0 => if N.eqb (e_rev e0) rev
                     then let e := {| e_key := k; e_val := v; e_rev := st_next s |} in
                          ({| st_ents := insert (st_ents s) e; st_next := st_next s + 1 |}, ROk e)
                     else (s, RConflict)
        end
    | RDelete k rev =>
        match lookup (st_ents s) k with
        | None => (s, RNotFound)
        | Some e0 => if N.eqb (e_rev e0) rev
                     then ({| st_ents := remove (st_ents s) k; st_next := st_next s + 1 |}, ROk e0)
                     else (s, RConflict)
        end
    end.

  Definition is_cond_write (r : req) : bool :=
    match r with RUpdate _ _ _ | RDelete _ _ => true | _ => false end.

  (* ---------------------------------------------------------------- client programs *)
  Section Prog.
    Variable R : Type.

    Inductive prog :=
    | Ret (r : R)
    | Act (rq : req) (k : resp -> prog).

    Inductive fault := FNone | FConflict | FCrashBefore | FCrashAfter.

    Inductive cstate :=
    | CRun (p : prog)
    | CCrashed.

    (* one access of one client; returns the new store, the new client state and what was observed *)
    Definition client_step (s : store) (p : prog) (f : fault) : store * cstate * option (req * resp) :=
      match p with
      | Ret _ => (s, CRun p, None)
      | Act rq k =>
          match f with
          | FNone => let '(s', rs) := exec s rq in (s', CRun (k rs), Some (rq, rs))
          | FConflict =>
              if is_cond_write rq then (s, CRun (k RConflict), Some (rq, RConflict))
              else let '(s', rs) := exec s rq in (s', CRun (k rs), Some (rq, rs))
          | FCrashBefore => (s, CCrashed, None)
          | FCrashAfter => let '(s', rs) := exec s rq in (s', CCrashed, Some (rq, rs))
          end
      end.
  End Prog.

  Arguments Ret {R} _.
  Arguments Act {R} _ _.
  Arguments CCrashed {R}.
  Arguments CRun {R} _.

  Fixpoint bind {A B : Type} (p : prog A) (f : A -> prog B) : prog B :=
    match p with
    | Ret a => f a
    | Act rq k => Act rq (fun rs => bind (k rs) f)
    end.

  (* ---------------------------------------------------------------- ghost history and safety *)
  Definition hist := N -> option (K * V).
  Definition hext (H H' : hist) : Prop := forall r kv, H r = Some kv -> H' r = Some kv.
  Definition hadd (H : hist) (r : N) (k : K) (v : V) : hist :=
    fun r' => if N.eqb r' r then Some (k, v) else H r'.

  Definition entry_in (H : hist) (e : entry) : Prop := H (e_rev e) = Some (e_key e, e_val e).

  (* every stored entry is the write that history records under its revision; revisions are below next *)
  Definition store_hist (s : store) (H : hist) : Prop :=
    (forall e, In e (st_ents s) -> entry_in H e /\ e_rev e < st_next s) /\
    (forall r kv, H r = Some kv -> r < st_next s).

  (* what a response tells a client, given a history it is consistent with *)
  Definition resp_ok (H : hist) (rq : req) (rs : resp) : Prop :=
    match rs with
    | ROk e => entry_in H e /\
               match rq with
               | RGet k | RDelete k _ => e_key e = k
               | RCreate k v | RUpdate k v _ => e_key e = k /\ e_val e = v
               | RList _ => True
               end
    | RListed es => Forall (entry_in H) es
    | _ => True
    end.

  (* ---------------------------------------------------------------- keys stay unique *)
  Definition keys (s : store) : list K := map e_key (st_ents s).

  Lemma lookup_None_notin es k : lookup es k = None -> ~ In k (map e_key es).
  Proof.
    induction es as [|a es IH]; simpl; auto.
    destruct (keqb (e_key a) k) eqn:E; [discriminate|].
    intros X [Y|Y]; [|apply IH; auto]. apply keqb_spec in Y. congruence.
  Qed.
  Lemma keys_replace es n : lookup es (e_key n) <> None -> map e_key (replace es n) = map e_key es.
  Proof.
    induction es as [|a es IH]; simpl; auto.
    destruct (keqb (e_key a) (e_key n)) eqn:E; simpl.
    - intros _. apply keqb_spec in E. congruence.
    - intros X. rewrite IH; auto.
  Qed.
  Lemma keys_sinsert_in es n k : In k (map e_key (sinsert es n)) -> k = e_key n \/ In k (map e_key es).
  Proof.
    induction es as [|a es IH]; simpl.
    - intros [X|[]]; auto.
    - destruct (kltb (e_key n) (e_key a)); simpl.
      + intros [X|[X|X]]; auto.
      + intros [X|X]; auto. destruct (IH X); auto.
  Qed.
  Lemma NoDup_sinsert es n : ~ In (e_key n) (map e_key es) -> NoDup (map e_key es) -> NoDup (map e_key (sinsert es n)).
  Proof.
    induction es as [|a es IH]; simpl; intros NI ND.
    - constructor; auto.
    - destruct (kltb (e_key n) (e_key a)); simpl.
      + constructor; auto.
      + inversion ND; subst. constructor.
        * intros X. apply keys_sinsert_in in X. destruct X as [X|X]; auto.
        * apply IH; auto.
  Qed.
  Lemma keys_remove_in es k k' : In k' (map e_key (remove es k)) -> In k' (map e_key es).
  Proof.
    induction es as [|a es IH]; simpl; auto.
    destruct (keqb (e_key a) k); simpl; auto. intros [X|X]; auto.
  Qed.
  Lemma NoDup_remove es k : NoDup (map e_key es) -> NoDup (map e_key (remove es k)).
  Proof.
    induction es as [|a es IH]; simpl; auto. intros ND. inversion ND; subst.
    destruct (keqb (e_key a) k); simpl; auto. constructor; auto.
    intros X. apply keys_remove_in in X. auto.
  Qed.

  Lemma exec_keys_nodup s rq : NoDup (keys s) -> NoDup (keys (fst (exec s rq))).
  Proof.
    unfold keys. intros ND. destruct rq as [k | l | k v | k v rev | k rev]; simpl; auto.
    - destruct (lookup (st_ents s) k) eqn:E; simpl; auto.
      unfold insert; simpl. rewrite E. apply NoDup_sinsert; auto. simpl. apply lookup_None_notin; auto.
    - destruct (lookup (st_ents s) k) as [e0|] eqn:E; simpl; auto.
      destruct (N.eqb (e_rev e0) rev); simpl; auto.
      unfold insert; simpl. rewrite E. rewrite keys_replace; auto. simpl. congruence.
    - destruct (lookup (st_ents s) k) as [e0|] eqn:E; simpl; auto.
      destruct (N.eqb (e_rev e0) rev); simpl; auto. apply NoDup_remove; auto.
  Qed.

  Lemma NoDup_keys_inj es e1 e2 : NoDup (map e_key es) -> In e1 es -> In e2 es -> e_key e1 = e_key e2 -> e1 = e2.
  Proof.
    induction es as [|a es IH]; simpl; [tauto|]. intros ND H1 H2 EK. inversion ND; subst.
    destruct H1 as [->|H1], H2 as [->|H2]; auto.
    - exfalso. apply H3. rewrite EK. apply in_map; auto.
    - exfalso. apply H3. rewrite <- EK. apply in_map; auto.
  Qed.

  Section Safety.
    (* allowed transformations, per key, and an invariant of (key, value) pairs they maintain *)
    Variable create_ok : K -> V -> Prop.
    Variable update_ok : K -> V -> V -> Prop.     (* key, current value, new value *)
    Variable delete_ok : K -> V -> Prop.
    Variable VI : K -> V -> Prop.
    Hypothesis vi_create : forall k v, create_ok k v -> VI k v.
    Hypothesis vi_update : forall k v0 v, update_ok k v0 v -> VI k v0 -> VI k v.

    Definition hist_ok (H : hist) : Prop := forall r k v, H r = Some (k, v) -> VI k v.

    (* A conditional write is justified when it is harmless whatever the current value is, or when the
       client knows the value that carries the revision it sends and transforms THAT value. *)
    Definition justified (H : hist) (rq : req) : Prop :=
      match rq with
      | RCreate k v => create_ok k v
      | RUpdate k v rev => (forall v0, update_ok k v0 v) \/ exists v0, H rev = Some (k, v0) /\ update_ok k v0 v
      | RDelete k rev => (forall v0, delete_ok k v0) \/ exists v0, H rev = Some (k, v0) /\ delete_ok k v0
      | _ => True
      end.

    Lemma justified_mono H H' rq : hext H H' -> justified H rq -> justified H' rq.
    Proof.
      intros E; destruct rq; simpl; auto; intros [A|(v0 & Hv & Hok)]; auto; right; exists v0; split; auto.
    Qed.

    (* safeQ H p Q: under any answers consistent with a history of allowed writes, every write p issues is
       justified, and a result r is returned only when Q holds of (history at that moment, r). *)
    Fixpoint safeQ {R} (H : hist) (p : prog R) (Q : hist -> R -> Prop) : Prop :=
      match p with
      | Ret r => Q H r
      | Act rq k => justified H rq /\
                    forall H' rs, hext H H' -> hist_ok H' -> resp_ok H' rq rs -> safeQ H' (k rs) Q
      end.

    Definition Qmono {R} (Q : hist -> R -> Prop) := forall H H' r, hext H H' -> Q H r -> Q H' r.

    Lemma hext_refl H : hext H H. Proof. red; auto. Qed.
    Lemma hext_trans H1 H2 H3 : hext H1 H2 -> hext H2 H3 -> hext H1 H3.
    Proof. unfold hext; intros A B r kv E; auto. Qed.

    Lemma safeQ_mono {R} (p : prog R) : forall H H' Q, Qmono Q -> hext H H' -> safeQ H p Q -> safeQ H' p Q.
    Proof.
      induction p as [r | rq k IH]; simpl; intros H H' Q MQ E S.
      - eapply MQ; eauto.
      - destruct S as [J C]. split.
        + eapply justified_mono; eauto.
        + intros H'' rs E' HO OK. apply C; auto. eapply hext_trans; eauto.
    Qed.

    Lemma safeQ_weaken {R} (p : prog R) : forall H (Q Q' : hist -> R -> Prop),
        (forall H' r, hext H H' -> Q H' r -> Q' H' r) -> safeQ H p Q -> safeQ H p Q'.
    Proof.
      induction p as [r | rq k IH]; simpl; intros H Q Q' W S.
      - apply W; auto using hext_refl.
      - destruct S as [J C]; split; auto. intros H' rs E HO OK. eapply IH; [|apply C; auto].
        intros H'' r E'. apply W. eapply hext_trans; eauto.
    Qed.

    (* Hoare-style rule for sequencing *)
    Lemma safeQ_bind {A B} (p : prog A) : forall H (f : A -> prog B) (P : hist -> A -> Prop) (Q : hist -> B -> Prop),
        safeQ H p P ->
        (forall H' a, hext H H' -> P H' a -> safeQ H' (f a) Q) ->
        safeQ H (bind p f) Q.
    Proof.
      induction p as [a | rq k IH]; simpl; intros H f P Q S F.
      - apply F; auto. apply hext_refl.
      - destruct S as [J C]; split; auto.
        intros H' rs E HO OK. eapply IH; eauto.
        intros H'' a E' PA. apply F; auto. eapply hext_trans; eauto.
    Qed.

    (* ------------------------------------------------------------ the system *)
    Variable R : Type.
    (* what every client guarantees about the result it returns (monotone in the history) *)
    Variable Qc : hist -> R -> Prop.
    Hypothesis Qc_mono : Qmono Qc.

    Record sys := { sy_store : store; sy_clients : list (cstate R) }.

    Record event := { ev_client : nat; ev_fault : fault }.

    Fixpoint set_nth {A} (l : list A) (n : nat) (a : A) : list A :=
      match l, n with
      | [], _ => []
      | _ :: t, O => a :: t
      | h :: t, S n' => h :: set_nth t n' a
      end.

    Definition sys_step (y : sys) (ev : event) : sys :=
      match nth_error (sy_clients y) (ev_client ev) with
      | Some (CRun p) =>
          let '(s', c', _) := client_step (sy_store y) p (ev_fault ev) in
          {| sy_store := s'; sy_clients := set_nth (sy_clients y) (ev_client ev) c' |}
      | _ => y
      end.

    Definition sys_run (y : sys) (evs : list event) : sys := fold_left sys_step evs y.

    Definition client_safe (H : hist) (c : cstate R) : Prop :=
      match c with CRun p => safeQ H p Qc | CCrashed => True end.

    Definition sys_ok (y : sys) (H : hist) : Prop :=
      store_hist (sy_store y) H /\ hist_ok H /\ Forall (client_safe H) (sy_clients y).

    Lemma lookup_In es k e : lookup es k = Some e -> In e es /\ e_key e = k.
    Proof.
      induction es as [|a es IH]; simpl; [discriminate|].
      destruct (keqb (e_key a) k) eqn:E.
      - intros X; inversion X; subst. split; auto. apply keqb_spec; auto.
      - intros X; destruct (IH X); auto.
    Qed.

    Lemma In_replace es n e : In e (replace es n) -> e = n \/ In e es.
    Proof.
      induction es as [|a es IH]; simpl; auto.
      destruct (keqb (e_key a) (e_key n)); simpl.
      - intros [X|X]; auto.
      - intros [X|X]; auto. destruct (IH X); auto.
    Qed.
    Lemma In_sinsert es n e : In e (sinsert es n) -> e = n \/ In e es.
    Proof.
      induction es as [|a es IH]; simpl.
      - intros [X|[]]; auto.
      - destruct (kltb (e_key n) (e_key a)); simpl.
        + intros [X|[X|X]]; auto.
        + intros [X|X]; auto. destruct (IH X); auto.
    Qed.
    Lemma In_insert es n e : In e (insert es n) -> e = n \/ In e es.
    Proof.
      unfold insert. destruct (lookup es (e_key n)); [apply In_replace | apply In_sinsert].
    Qed.

    Lemma In_remove es k e : In e (remove es k) -> In e es.
    Proof.
      induction es as [|a es IH]; simpl; auto.
      destruct (keqb (e_key a) k); simpl; auto. intros [X|X]; auto.
    Qed.

    (* what one request does to the store: nothing, or one allowed transformation of the current value *)
    Inductive effect (s s' : store) : Prop :=
    | eff_none : s' = s -> effect s s'
    | eff_create k v : lookup (st_ents s) k = None -> create_ok k v ->
        s' = {| st_ents := insert (st_ents s) {| e_key := k; e_val := v; e_rev := st_next s |}; st_next := st_next s + 1 |} ->
        effect s s'
    | eff_update k v e0 : lookup (st_ents s) k = Some e0 -> update_ok k (e_val e0) v ->
        s' = {| st_ents := insert (st_ents s) {| e_key := k; e_val := v; e_rev := st_next s |}; st_next := st_next s + 1 |} ->
        effect s s'
    | eff_delete k e0 : lookup (st_ents s) k = Some e0 -> delete_ok k (e_val e0) ->
        s' = {| st_ents := remove (st_ents s) k; st_next := st_next s + 1 |} ->
        effect s s'.

    (* executing one justified request: store/history consistency and a consistent response *)
    Lemma exec_ok s H rq :
      store_hist s H -> hist_ok H -> justified H rq ->
      effect s (fst (exec s rq)) /\
      exists H', hext H H' /\ store_hist (fst (exec s rq)) H' /\ hist_ok H' /\
                 resp_ok H' rq (snd (exec s rq)).
    Proof.
      intros SH HO J. destruct SH as [SE SB].
      assert (SAME : forall rs, resp_ok H rq rs ->
                effect s s /\ exists H', hext H H' /\ store_hist s H' /\ hist_ok H' /\ resp_ok H' rq rs).
      { intros rs OK. split; [apply eff_none; auto|]. exists H. split; [apply hext_refl|].
        split; [split; assumption|]. split; assumption. }
      assert (EXT : forall k v, hext H (hadd H (st_next s) k v)).
      { intros k v r kv Hr. unfold hadd. destruct (N.eqb r (st_next s)) eqn:Q; auto.
        apply N.eqb_eq in Q; subst. apply SB in Hr. lia. }
      assert (INS : forall k v, store_hist
                 {| st_ents := insert (st_ents s) {| e_key := k; e_val := v; e_rev := st_next s |};
                    st_next := st_next s + 1 |} (hadd H (st_next s) k v)).
      { intros k v. split; simpl.
        - intros e' Hin. apply In_insert in Hin. destruct Hin as [->|Hin].
          + unfold entry_in, hadd; simpl. rewrite N.eqb_refl. split; auto. lia.
          + destruct (SE _ Hin). split; [apply EXT; auto | lia].
        - intros r kv. unfold hadd. destruct (N.eqb r (st_next s)) eqn:Q.
          + apply N.eqb_eq in Q; lia.
          + intros X; apply SB in X; lia. }
      assert (HOA : forall k v, VI k v -> hist_ok (hadd H (st_next s) k v)).
      { intros k v VV r k' v'. unfold hadd. destruct (N.eqb r (st_next s)).
        - intros X; inversion X; subst; auto.
        - apply HO. }
      destruct rq as [k | l | k v | k v rev | k rev]; simpl.
      - apply (SAME (match lookup (st_ents s) k with Some e => ROk e | None => RNotFound end)).
        destruct (lookup (st_ents s) k) eqn:E; simpl; auto.
        destruct (lookup_In _ _ E); split; auto. apply SE; auto.
      - apply (SAME (RListed (filter (fun e => lmatch l (e_key e)) (st_ents s)))).
        simpl. apply Forall_forall. intros e Hin. apply filter_In in Hin. apply SE; tauto.
      - destruct (lookup (st_ents s) k) eqn:E; simpl.
        + apply (SAME RExists); simpl; auto.
        + split; [eapply eff_create; eauto|].
          exists (hadd H (st_next s) k v).
          split; [apply EXT|]. split; [apply INS|]. split; [apply HOA; auto|].
          simpl. unfold entry_in, hadd; simpl. rewrite N.eqb_refl. auto.
      - destruct (lookup (st_ents s) k) as [e0|] eqn:E; simpl.
        2:{ apply (SAME RNotFound); simpl; auto. }
        destruct (N.eqb (e_rev e0) rev) eqn:Q; simpl.
        2:{ apply (SAME RConflict); simpl; auto. }
        apply N.eqb_eq in Q. subst rev.
        destruct (lookup_In _ _ E) as [Hin Hk]. destruct (SE _ Hin) as [EI _].
        unfold entry_in in EI. rewrite Hk in EI.
        assert (UOK : update_ok k (e_val e0) v).
        { destruct J as [A|(v0 & Hv & UOK)]; auto.
          rewrite Hv in EI. assert (v0 = e_val e0) by congruence. subst v0; auto. }
        split; [eapply eff_update; eauto|].
        exists (hadd H (st_next s) k v).
        split; [apply EXT|]. split; [apply INS|]. split.
        * apply HOA. eapply vi_update; eauto.
        * simpl. unfold entry_in, hadd; simpl. rewrite N.eqb_refl. auto.
      - destruct (lookup (st_ents s) k) as [e0|] eqn:E; simpl.
        2:{ apply (SAME RNotFound); simpl; auto. }
        destruct (N.eqb (e_rev e0) rev) eqn:Q; simpl.
        2:{ apply (SAME RConflict); simpl; auto. }
        apply N.eqb_eq in Q. subst rev.
        destruct (lookup_In _ _ E) as [Hin Hk]. destruct (SE _ Hin) as [EI _].
        unfold entry_in in EI. rewrite Hk in EI.
        assert (DOK : delete_ok k (e_val e0)).
        { destruct J as [A|(v0 & Hv & DOK)]; auto.
          rewrite Hv in EI. assert (v0 = e_val e0) by congruence. subst v0; auto. }
        split; [eapply eff_delete; eauto|].
        exists H. split; [apply hext_refl|]. split; [|split; auto].
        * split; simpl.
          -- intros e' Hin'. apply In_remove in Hin'. destruct (SE _ Hin'). split; auto. lia.
          -- intros r kv X. apply SB in X. lia.
        * simpl. split; auto. apply SE; auto.
    Qed.

    Lemma Forall_set_nth {A} (P : A -> Prop) l n a : Forall P l -> P a -> Forall P (set_nth l n a).
    Proof.
      revert n; induction l as [|h t IH]; intros n F Pa; simpl; auto.
      inversion F; subst. destruct n; constructor; auto.
    Qed.

    Lemma client_safe_mono H H' c : hext H H' -> client_safe H c -> client_safe H' c.
    Proof.
      destruct c; simpl; auto. intros. eapply safeQ_mono; eauto.
    Qed.

    Lemma sys_step_ok y H ev : sys_ok y H ->
      effect (sy_store y) (sy_store (sys_step y ev)) /\ exists H', hext H H' /\ sys_ok (sys_step y ev) H'.
    Proof.
      intros (SH & HO & F). unfold sys_step.
      assert (STAY : effect (sy_store y) (sy_store y) /\ exists H', hext H H' /\ sys_ok y H').
      { split; [apply eff_none; auto|]. exists H; split; [apply hext_refl | split; [|split]; auto]. }
      destruct (nth_error (sy_clients y) (ev_client ev)) as [[p|]|] eqn:E; auto.
      assert (Sp : safeQ H p Qc).
      { apply nth_error_In in E. rewrite Forall_forall in F. apply (F _ E). }
      destruct p as [r | rq k]; simpl.
      - split; [apply eff_none; auto|].
        exists H; split; [apply hext_refl|]. split; [|split]; simpl; auto.
        apply Forall_set_nth; auto.
      - destruct Sp as [J C].
        destruct (exec_ok rq SH HO J) as (EF & H' & EX & SH' & HO' & OK).
        assert (NOP : effect (sy_store y) (sy_store y)) by (apply eff_none; auto).
        destruct (ev_fault ev).
        + destruct (exec (sy_store y) rq) as [s' rs] eqn:X; simpl in *.
          split; auto. exists H'; split; auto. split; [|split]; auto.
          apply Forall_set_nth.
          * eapply Forall_impl; [|apply F]. intros c. apply client_safe_mono; auto.
          * simpl. apply C; auto.
        + destruct (is_cond_write rq) eqn:W.
          * split; auto. exists H; split; [apply hext_refl|]. split; [|split]; simpl; auto.
            apply Forall_set_nth; auto. simpl. apply C; [apply hext_refl| auto |]. simpl; auto.
          * destruct (exec (sy_store y) rq) as [s' rs] eqn:X; simpl in *.
            split; auto. exists H'; split; auto. split; [|split]; auto.
            apply Forall_set_nth.
            -- eapply Forall_impl; [|apply F]. intros c. apply client_safe_mono; auto.
            -- simpl. apply C; auto.
        + split; auto. exists H; split; [apply hext_refl|]. split; [|split]; simpl; auto.
          apply Forall_set_nth; simpl; auto.
        + destruct (exec (sy_store y) rq) as [s' rs] eqn:X; simpl in *.
          split; auto. exists H'; split; auto. split; [|split]; auto.
          apply Forall_set_nth; simpl; auto.
          eapply Forall_impl; [|apply F]. intros c. apply client_safe_mono; auto.
    Qed.

    (* Generic invariant preservation: for EVERY schedule (any interleaving of any number of clients,
       conflicts injected at any conditional write, crashes before or after any access). *)
    Theorem safe_system_invariant y H evs :
      sys_ok y H -> exists H', hext H H' /\ sys_ok (sys_run y evs) H'.
    Proof.
      revert y H; induction evs as [|ev evs IH]; intros y H OK; simpl.
      - exists H; split; auto using hext_refl.
      - destruct (sys_step_ok ev OK) as (_ & H1 & E1 & OK1).
        destruct (IH _ _ OK1) as (H2 & E2 & OK2).
        exists H2; split; auto. eapply hext_trans; eauto.
    Qed.

    (* every value in the store of a safe system satisfies the value invariant *)
    Corollary safe_system_values y H evs e :
      sys_ok y H -> In e (st_ents (sy_store (sys_run y evs))) -> VI (e_key e) (e_val e).
    Proof.
      intros OK Hin. destruct (safe_system_invariant evs OK) as (H' & _ & (SH & HO & _)).
      destruct SH as [SE _]. destruct (SE _ Hin) as [EI _]. eapply HO; eauto.
    Qed.

    (* a client that has finished returns a result satisfying Qc w.r.t. the writes that really happened *)
    Corollary safe_system_results y H evs i r :
      sys_ok y H -> nth_error (sy_clients (sys_run y evs)) i = Some (CRun (Ret r)) ->
      exists H', hext H H' /\ store_hist (sy_store (sys_run y evs)) H' /\ hist_ok H' /\ Qc H' r.
    Proof.
      intros OK NE. destruct (safe_system_invariant evs OK) as (H' & E & (SH & HO & F)).
      exists H'. split; auto. split; auto. split; auto.
      apply nth_error_In in NE. rewrite Forall_forall in F. apply (F _ NE).
    Qed.

    (* keys of the store stay pairwise distinct in every run of any programs *)
    Lemma sys_step_keys y ev : NoDup (keys (sy_store y)) -> NoDup (keys (sy_store (sys_step y ev))).
    Proof.
      intros ND. unfold sys_step.
      destruct (nth_error (sy_clients y) (ev_client ev)) as [[p|]|]; auto.
      destruct p as [r | rq k]; simpl; auto.
      pose proof (@exec_keys_nodup (sy_store y) rq ND) as X.
      destruct (ev_fault ev); simpl; auto.
      - destruct (exec (sy_store y) rq); simpl in *; auto.
      - destruct (is_cond_write rq); simpl; auto. destruct (exec (sy_store y) rq); simpl in *; auto.
      - destruct (exec (sy_store y) rq); simpl in *; auto.
    Qed.
    Lemma sys_run_keys y evs : NoDup (keys (sy_store y)) -> NoDup (keys (sy_store (sys_run y evs))).
    Proof.
      revert y; induction evs as [|ev evs IH]; intros y ND; simpl; auto. apply IH. apply sys_step_keys; auto.
    Qed.

    (* every step of a safe system changes the store by at most one allowed transformation *)
    Corollary safe_system_steps y H evs ev :
      sys_ok y H -> effect (sy_store (sys_run y evs)) (sy_store (sys_step (sys_run y evs) ev)).
    Proof.
      intros OK. destruct (safe_system_invariant evs OK) as (H' & _ & OK').
      destruct (sys_step_ok ev OK') as (EF & _); auto.
    Qed.
  End Safety.
End Cas.

Arguments Ret {K V L R} _.
Arguments Act {K V L R} _ _.
Arguments CCrashed {K V L R}.
Arguments CRun {K V L R} _.
Arguments RGet {K V L} _.
Arguments RList {K V L} _.
Arguments RCreate {K V L} _ _.
Arguments RUpdate {K V L} _ _ _.
Arguments RDelete {K V L} _ _.
Arguments ROk {K V} _.
Arguments RNotFound {K V}.
Arguments RExists {K V}.
Arguments RConflict {K V}.
Arguments RListed {K V} _.
