(* Common/PolicyRef.v — REFERENCE SEMANTICS of Calico policy, as Felix receives it
   (felix/proto Rule / Policy / Profile, tiers as ordered by the calculation graph).

   This file is the meaning every dataplane renderer is compared against (C08 C09 C11 C12 C29 C30).
   It is deliberately small and free of any rendering concern.  Definitions only.

   Conventions
   * IP sets (selectors, named ports, services) are resolved elsewhere: they enter as an oracle
     `ipsets : set-id -> member -> bool` (Common/Packet.v).
   * A protocol is its IP protocol number (names tcp/udp/icmp/icmpv6/sctp/udplite are resolved by the
     drivers with the IANA table 6/17/1/58/132/136).
   * Within a rule all present fields are AND-ed; inside one list field the entries are OR-ed; the `not_`
     fields are the negations of the corresponding positive fields. *)
From Coq Require Import List NArith Bool.
From Verif.Common Require Import Packet.
Import ListNotations.
Open Scope N_scope.

Inductive action := Allow | Deny | Pass | Log.
Inductive icmp_match := IcmpType (t : N) | IcmpTypeCode (t c : N).

(* Mirrors felix/proto Rule, fields that reach the packet-filtering dataplanes. *)
Record rule := {
  r_action : action;
  r_ipver : option ipver;                 (* ip_version, None = unspecified *)
  r_proto : option N;                     (* protocol *)
  r_src_nets : list cidr;                 (* src_net *)
  r_src_ports : list port_range;          (* src_ports *)
  r_src_named_ports : list N;             (* src_named_port_ip_set_ids  (ip,proto,port sets) *)
  r_dst_nets : list cidr;
  r_dst_ports : list port_range;
  r_dst_named_ports : list N;
  r_icmp : option icmp_match;
  r_src_ipsets : list N;                  (* src_ip_set_ids: packet must be in EVERY listed set *)
  r_dst_ipsets : list N;
  r_dst_ipport_sets : list N;             (* dst_ip_port_set_ids (services): in EVERY listed set *)
  r_not_proto : option N;
  r_not_src_nets : list cidr;
  r_not_src_ports : list port_range;
  r_not_dst_nets : list cidr;
  r_not_dst_ports : list port_range;
  r_not_icmp : option icmp_match;
  r_not_src_ipsets : list N;              (* in NONE of the listed sets *)
  r_not_dst_ipsets : list N;
  r_not_src_named_ports : list N;
  r_not_dst_named_ports : list N
}.

(* ------------------------------------------------------------------ one rule *)
Definition opt_ok {A} (o : option A) (f : A -> bool) : bool := match o with None => true | Some a => f a end.
Definition is_nil {A} (l : list A) : bool := match l with [] => true | _ => false end.

Definition icmp_ok (m : icmp_match) (p : packet) : bool :=
  match m with
  | IcmpType t => N.eqb (pk_icmp_type p) t
  | IcmpTypeCode t c => N.eqb (pk_icmp_type p) t && N.eqb (pk_icmp_code p) c
  end.

(* ports: numeric ranges and named-port sets are alternatives of ONE match (felixbackend.proto) *)
Definition ports_hit (s : ipsets) (ranges : list port_range) (named : list N) (port : N) (m : member) : bool :=
  in_ranges ranges port || existsb (fun id => s id m) named.
Definition ports_ok s ranges named port m : bool :=
  (is_nil ranges && is_nil named) || ports_hit s ranges named port m.

Definition nets_ok (nets : list cidr) (v : ipver) (x : N) : bool :=
  is_nil nets || existsb (fun c => in_cidr c v x) nets.

(* A rule's CIDRs fix its address family: a non-empty CIDR field none of whose entries is of the packet's
   IP version makes the rule inapplicable to that version (the API forbids mixing families in a rule). *)
Definition field_has_version (nets : list cidr) (v : ipver) : bool :=
  is_nil nets || existsb (fun c => ipver_eqb (cidr_ver c) v) nets.
Definition rule_version_ok (r : rule) (v : ipver) : bool :=
  opt_ok (r_ipver r) (ipver_eqb v)
  && field_has_version (r_src_nets r) v && field_has_version (r_not_src_nets r) v
  && field_has_version (r_dst_nets r) v && field_has_version (r_not_dst_nets r) v.

Definition rule_matches (s : ipsets) (r : rule) (p : packet) : bool :=
  let v := pk_ver p in
  rule_version_ok r v
  (* positive *)
  && opt_ok (r_proto r) (N.eqb (pk_proto p))
  && nets_ok (r_src_nets r) v (pk_src p)
  && nets_ok (r_dst_nets r) v (pk_dst p)
  && ports_ok s (r_src_ports r) (r_src_named_ports r) (pk_sport p) (src_port_member p)
  && ports_ok s (r_dst_ports r) (r_dst_named_ports r) (pk_dport p) (dst_port_member p)
  && opt_ok (r_icmp r) (fun m => icmp_ok m p)
  && forallb (fun id => s id (src_member p)) (r_src_ipsets r)
  && forallb (fun id => s id (dst_member p)) (r_dst_ipsets r)
  && forallb (fun id => s id (dst_port_member p)) (r_dst_ipport_sets r)
  (* negated *)
  && opt_ok (r_not_proto r) (fun n => negb (N.eqb (pk_proto p) n))
  && negb (existsb (fun c => in_cidr c v (pk_src p)) (r_not_src_nets r))
  && negb (existsb (fun c => in_cidr c v (pk_dst p)) (r_not_dst_nets r))
  && negb (ports_hit s (r_not_src_ports r) (r_not_src_named_ports r) (pk_sport p) (src_port_member p))
  && negb (ports_hit s (r_not_dst_ports r) (r_not_dst_named_ports r) (pk_dport p) (dst_port_member p))
  && opt_ok (r_not_icmp r) (fun m => negb (icmp_ok m p))
  && negb (existsb (fun id => s id (src_member p)) (r_not_src_ipsets r))
  && negb (existsb (fun id => s id (dst_member p)) (r_not_dst_ipsets r)).

(* ------------------------------------------------------------------ a policy (one direction) *)
Inductive verdict := VAllow | VDeny | VPass | VNoMatch.

(* first matching rule decides; a matching Log rule logs and evaluation continues *)
Fixpoint policy_verdict (s : ipsets) (rules : list rule) (p : packet) : verdict :=
  match rules with
  | [] => VNoMatch
  | r :: rs =>
      if rule_matches s r p then
        match r_action r with
        | Allow => VAllow | Deny => VDeny | Pass => VPass
        | Log => policy_verdict s rs p
        end
      else policy_verdict s rs p
  end.

(* ------------------------------------------------------------------ tiers, profiles, endpoint *)
Record policy := { pol_staged : bool; pol_rules : list rule }.   (* rules of the direction evaluated *)
Inductive tier_default := DefaultDeny | DefaultPass.
Record tier := { t_policies : list policy; t_default : tier_default }.

(* staged policies are never enforced *)
Definition enforced (ps : list policy) : list policy := filter (fun q => negb (pol_staged q)) ps.

Fixpoint policies_verdict (s : ipsets) (ps : list policy) (p : packet) : verdict :=
  match ps with
  | [] => VNoMatch
  | q :: qs => match policy_verdict s (pol_rules q) p with
               | VNoMatch => policies_verdict s qs p
               | v => v
               end
  end.

(* A tier with at least one enforced policy ends with its default action when no policy decided;
   a tier with none (empty or all staged) is skipped, reported as VPass. *)
Definition tier_verdict (s : ipsets) (t : tier) (p : packet) : verdict :=
  match enforced (t_policies t) with
  | [] => VPass
  | ps => match policies_verdict s ps p with
          | VNoMatch => match t_default t with DefaultDeny => VDeny | DefaultPass => VPass end
          | v => v
          end
  end.

(* profiles: first Allow/Deny decides, Pass/no-match moves on, nothing decided = deny *)
Fixpoint profiles_verdict (s : ipsets) (profiles : list (list rule)) (p : packet) : verdict :=
  match profiles with
  | [] => VDeny
  | rs :: rest => match policy_verdict s rs p with
                  | VAllow => VAllow | VDeny => VDeny
                  | VPass | VNoMatch => profiles_verdict s rest p
                  end
  end.

(* tiers in order; Allow/Deny final; Pass continues with the next tier; after the last tier the profiles *)
Fixpoint endpoint_verdict (s : ipsets) (tiers : list tier) (profiles : list (list rule)) (p : packet) : verdict :=
  match tiers with
  | [] => profiles_verdict s profiles p
  | t :: ts => match tier_verdict s t p with
               | VAllow => VAllow | VDeny => VDeny
               | VPass | VNoMatch => endpoint_verdict s ts profiles p
               end
  end.

(* an all-defaults rule, convenient for examples: `with_action Allow` matches every packet *)
Definition any_rule (a : action) : rule :=
  {| r_action := a; r_ipver := None; r_proto := None; r_src_nets := []; r_src_ports := []; r_src_named_ports := [];
     r_dst_nets := []; r_dst_ports := []; r_dst_named_ports := []; r_icmp := None;
     r_src_ipsets := []; r_dst_ipsets := []; r_dst_ipport_sets := [];
     r_not_proto := None; r_not_src_nets := []; r_not_src_ports := []; r_not_dst_nets := []; r_not_dst_ports := [];
     r_not_icmp := None; r_not_src_ipsets := []; r_not_dst_ipsets := [];
     r_not_src_named_ports := []; r_not_dst_named_ports := [] |}.
