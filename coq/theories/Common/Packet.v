(* Common/Packet.v — the packet as seen by a netfilter hook / policy program.
   Shared by C08 C09 C10 C11 C12 C29 C30 C40 C41.  Definitions only (plus two tiny lemmas).

   Addresses are numbers: an IPv4 address is an N below 2^32, an IPv6 address an N below 2^128.
   Interface names are byte lists.  The mark is the 32-bit skb mark (an N below 2^32). *)
From Coq Require Import List NArith Bool.
Import ListNotations.
Open Scope N_scope.

Inductive ipver := V4 | V6.
Definition ipver_eqb (a b : ipver) : bool :=
  match a, b with V4, V4 | V6, V6 => true | _, _ => false end.
Definition ipver_num (v : ipver) : N := match v with V4 => 4 | V6 => 6 end.
Definition addr_width (v : ipver) : N := match v with V4 => 32 | V6 => 128 end.

Inductive ctstate := CtNew | CtEstablished | CtRelated | CtInvalid | CtUntracked.
Definition ctstate_eqb (a b : ctstate) : bool :=
  match a, b with
  | CtNew, CtNew | CtEstablished, CtEstablished | CtRelated, CtRelated
  | CtInvalid, CtInvalid | CtUntracked, CtUntracked => true
  | _, _ => false
  end.

Record packet := {
  pk_ver   : ipver;
  pk_proto : N;            (* IP protocol number: 1 icmp, 6 tcp, 17 udp, 58 icmpv6, 132 sctp, 136 udplite *)
  pk_src   : N;
  pk_dst   : N;
  pk_sport : N;            (* transport ports; by convention 0 when the protocol has none *)
  pk_dport : N;
  pk_icmp_type : N;        (* meaningful when pk_proto is 1 (V4) / 58 (V6) *)
  pk_icmp_code : N;
  pk_in    : list N;       (* input interface name ([] = none) *)
  pk_out   : list N;       (* output interface name *)
  pk_ct    : ctstate;
  pk_mark  : N
}.

Definition set_mark (p : packet) (m : N) : packet :=
  {| pk_ver := pk_ver p; pk_proto := pk_proto p; pk_src := pk_src p; pk_dst := pk_dst p;
     pk_sport := pk_sport p; pk_dport := pk_dport p;
     pk_icmp_type := pk_icmp_type p; pk_icmp_code := pk_icmp_code p;
     pk_in := pk_in p; pk_out := pk_out p; pk_ct := pk_ct p; pk_mark := m |}.

(* well-known protocol numbers *)
Definition P_ICMP : N := 1.
Definition P_TCP : N := 6.
Definition P_UDP : N := 17.
Definition P_ICMPV6 : N := 58.
Definition P_SCTP : N := 132.
Definition P_UDPLITE : N := 136.

(* ---------------------------------------------------------------- CIDRs *)
(* A CIDR carries its own IP version; `cidr_len` is the prefix length (0..32 / 0..128).
   Host bits of `cidr_addr` are ignored, as by the kernel. *)
Record cidr := { cidr_ver : ipver; cidr_addr : N; cidr_len : N }.

Definition cidr_eqb (a b : cidr) : bool :=
  ipver_eqb (cidr_ver a) (cidr_ver b) && N.eqb (cidr_addr a) (cidr_addr b) && N.eqb (cidr_len a) (cidr_len b).

(* x (an address of version v) lies in c.  A CIDR of the other version contains nothing. *)
Definition in_cidr (c : cidr) (v : ipver) (x : N) : bool :=
  ipver_eqb (cidr_ver c) v &&
  N.eqb (N.shiftr x (addr_width v - cidr_len c)) (N.shiftr (cidr_addr c) (addr_width v - cidr_len c)).

(* "0.0.0.0/0" or "::/0" written exactly so (what Felix's isCatchAllCIDR tests textually) *)
Definition cidr_is_catch_all (c : cidr) : bool := N.eqb (cidr_addr c) 0 && N.eqb (cidr_len c) 0.

(* ---------------------------------------------------------------- port ranges *)
Definition port_range := (N * N)%type.     (* inclusive first..last *)
Definition in_range (r : port_range) (p : N) : bool := N.leb (fst r) p && N.leb p (snd r).
Definition in_ranges (rs : list port_range) (p : N) : bool := existsb (fun r => in_range r p) rs.

(* ---------------------------------------------------------------- IP sets *)
(* The dataplane's IP sets are outside the renderer: they enter as an oracle.
   Set ids are numbers (drivers intern the real string ids). *)
Inductive member :=
| MemIP (a : N)                          (* hash:ip / hash:net sets: the address *)
| MemIPPort (a : N) (proto : N) (port : N).   (* hash:ip,port sets: address, protocol, port *)
Definition ipsets := N -> member -> bool.

Definition src_member (p : packet) : member := MemIP (pk_src p).
Definition dst_member (p : packet) : member := MemIP (pk_dst p).
Definition src_port_member (p : packet) : member := MemIPPort (pk_src p) (pk_proto p) (pk_sport p).
Definition dst_port_member (p : packet) : member := MemIPPort (pk_dst p) (pk_proto p) (pk_dport p).

(* concrete oracle from an association list, for evaluation on generated cases *)
Definition member_eqb (a b : member) : bool :=
  match a, b with
  | MemIP x, MemIP y => N.eqb x y
  | MemIPPort x p q, MemIPPort y p' q' => N.eqb x y && N.eqb p p' && N.eqb q q'
  | _, _ => false
  end.
Definition ipsets_of_list (l : list (N * list member)) : ipsets :=
  fun id m => existsb (fun e => N.eqb (fst e) id && existsb (member_eqb m) (snd e)) l.

(* ---------------------------------------------------------------- 32-bit mark arithmetic *)
Definition M32 : N := 4294967295.
Definition lnot32 (m : N) : N := N.lxor (N.land m M32) M32.
(* all bits of `bits` are set / clear in m *)
Definition mark_has (m bits : N) : bool := N.eqb (N.land m bits) bits.
Definition mark_clear (m bits : N) : bool := N.eqb (N.land m bits) 0.

Lemma set_mark_mark : forall p m, pk_mark (set_mark p m) = m.
Proof. reflexivity. Qed.
Lemma set_mark_set_mark : forall p m m', set_mark (set_mark p m) m' = set_mark p m'.
Proof. reflexivity. Qed.
