(* Common/Prefix.v — IP prefixes (CIDRs) as (address : N, length : nat) over a
   width parameter w (32 for IPv4, 128 for IPv6).

   Bits are numbered the way felix/ip does: bit 1 is the most significant bit
   of the w-bit address (Addr.NthBit(n) = addr >> (w-n) & 1, and 0 outside 1..w
   because Go shifts by >= width give 0).

   Definitions are computable (they run under vm_compute).  Lemmas: [covers] is
   a partial order on well-formed prefixes, [common_prefix] is the greatest
   lower bound, the bit just past the common prefix separates two prefixes. *)
From Coq Require Import NArith Arith Bool List Lia.
Import ListNotations.

Record prefix := mkP { paddr : N; plen : nat }.

Definition prefix_eqb (p q : prefix) : bool :=
  N.eqb (paddr p) (paddr q) && Nat.eqb (plen p) (plen q).

Lemma prefix_eqb_eq : forall p q, prefix_eqb p q = true <-> p = q.
Proof.
  intros [a l] [b m]; unfold prefix_eqb; simpl.
  rewrite andb_true_iff, N.eqb_eq, Nat.eqb_eq. split.
  - intros [-> ->]; reflexivity.
  - intros H; inversion H; auto.
Qed.

Lemma prefix_eqb_refl : forall p, prefix_eqb p p = true.
Proof. intros; apply prefix_eqb_eq; reflexivity. Qed.

Lemma prefix_eqb_neq : forall p q, prefix_eqb p q = false <-> p <> q.
Proof.
  intros p q. destruct (prefix_eqb p q) eqn:E.
  - apply prefix_eqb_eq in E. split; [discriminate | contradiction].
  - split; [|reflexivity]. intros _ H. apply prefix_eqb_eq in H. congruence.
Qed.

Lemma prefix_eqb_sym : forall p q, prefix_eqb p q = prefix_eqb q p.
Proof.
  intros [a l] [b m]; unfold prefix_eqb; simpl. now rewrite N.eqb_sym, Nat.eqb_sym.
Qed.

(* canonical order of prefixes: by address, then by length.  On well-formed
   prefixes this is the pre-order of the prefix tree (parent first, then the
   0-branch, then the 1-branch). *)
Definition prefix_ltb (p q : prefix) : bool :=
  N.ltb (paddr p) (paddr q) || (N.eqb (paddr p) (paddr q) && Nat.ltb (plen p) (plen q)).

Section Width.
  Variable w : nat.

  (* the top l bits of a, as a number *)
  Definition top (l : nat) (a : N) : N := N.shiftr a (N.of_nat (w - l)).

  (* Addr.NthBit(n): 1-based from the most significant bit; 0 outside 1..w *)
  Definition nthbit (a : N) (n : nat) : bool :=
    (1 <=? n)%nat && (n <=? w)%nat && N.testbit a (N.of_nat (w - n)).

  (* bits.LeadingZeros of a w-bit value *)
  Definition clz (x : N) : nat := w - N.size_nat x.

  (* keep the top l bits, zero the rest: (0xff..f << (w-l)) & a *)
  Definition mask (l : nat) (a : N) : N := N.shiftl (top l a) (N.of_nat (w - l)).

  (* CIDR.Contains(addr): LeadingZeros(c.addr ^ addr) >= c.prefix *)
  Definition contains (p : prefix) (a : N) : bool :=
    (plen p <=? clz (N.lxor (paddr p) a))%nat.

  (* p covers q: every address of q is an address of p *)
  Definition covers (p q : prefix) : bool :=
    (plen p <=? plen q)%nat && contains p (paddr q).

  Definition strictly_covers (p q : prefix) : bool :=
    covers p q && negb (prefix_eqb p q).

  Definition overlaps (p q : prefix) : bool := covers p q || covers q p.

  (* ip.CommonPrefix *)
  Definition common_prefix (p q : prefix) : prefix :=
    let l := Nat.min (clz (N.lxor (paddr p) (paddr q))) (Nat.min (plen q) (plen p)) in
    mkP (mask l (paddr p)) l.

  (* the host prefix of an address (Addr.AsCIDR) *)
  Definition host (a : N) : prefix := mkP a w.

  (* q lies in the b-branch below p: p covers q, q is longer, and q's bit just
     past p is b *)
  Definition under (p : prefix) (b : bool) (q : prefix) : bool :=
    covers p q && (plen p <? plen q)%nat && Bool.eqb (nthbit (paddr q) (S (plen p))) b.

  (* well-formed: length within the width, address within the width, host bits zero *)
  Definition wfp (p : prefix) : Prop :=
    plen p <= w /\ (paddr p < 2 ^ N.of_nat w)%N /\ mask (plen p) (paddr p) = paddr p.

  Definition wfpb (p : prefix) : bool :=
    (plen p <=? w)%nat && N.ltb (paddr p) (2 ^ N.of_nat w) && N.eqb (mask (plen p) (paddr p)) (paddr p).

  Lemma wfpb_spec : forall p, wfpb p = true <-> wfp p.
  Proof.
    intros p; unfold wfpb, wfp.
    rewrite !andb_true_iff, Nat.leb_le, N.ltb_lt, N.eqb_eq. tauto.
  Qed.

  Definition agree (l : nat) (a b : N) : Prop := top l a = top l b.

  (* ---------------------------------------------------------------- *)
  (* arithmetic of top / mask / clz                                    *)

  Lemma top_top : forall l1 l2 a, l1 <= l2 ->
    top l1 a = N.shiftr (top l2 a) (N.of_nat ((w - l1) - (w - l2))).
  Proof.
    intros l1 l2 a H. unfold top. rewrite N.shiftr_shiftr.
    f_equal. lia.
  Qed.

  Lemma agree_mono : forall l1 l2 a b, l1 <= l2 -> agree l2 a b -> agree l1 a b.
  Proof.
    unfold agree; intros l1 l2 a b H E.
    rewrite (top_top l1 l2 a H), (top_top l1 l2 b H), E. reflexivity.
  Qed.

  Lemma top_mask : forall l a, top l (mask l a) = top l a.
  Proof.
    intros l a. unfold mask. unfold top at 1.
    rewrite N.shiftr_shiftl_l by lia. rewrite N.sub_diag. apply N.shiftl_0_r.
  Qed.

  Lemma mask_mask : forall l a, mask l (mask l a) = mask l a.
  Proof. intros l a. unfold mask at 1. rewrite top_mask. reflexivity. Qed.

  Lemma mask_le : forall l a, (mask l a <= a)%N.
  Proof.
    intros l a. unfold mask, top.
    rewrite N.shiftl_mul_pow2, N.shiftr_div_pow2.
    rewrite N.mul_comm. apply N.mul_div_le. apply N.pow_nonzero. discriminate.
  Qed.

  Lemma mask_lt : forall l a, (a < 2 ^ N.of_nat w)%N -> (mask l a < 2 ^ N.of_nat w)%N.
  Proof. intros l a H. eapply N.le_lt_trans; [apply mask_le | exact H]. Qed.

  Lemma top_mask_le : forall l1 l2 a, l1 <= l2 -> top l1 (mask l2 a) = top l1 a.
  Proof.
    intros l1 l2 a H.
    rewrite (top_top l1 l2 (mask l2 a) H), top_mask, <- (top_top l1 l2 a H). reflexivity.
  Qed.

  Lemma agree_mask_eq : forall l a b,
    mask l a = a -> mask l b = b -> agree l a b -> a = b.
  Proof.
    unfold agree; intros l a b Ha Hb E. rewrite <- Ha, <- Hb. unfold mask. rewrite E. reflexivity.
  Qed.

  Lemma size_nat_le_iff : forall x k, N.size_nat x <= k <-> (x < 2 ^ N.of_nat k)%N.
  Proof.
    intros [|p] k; simpl.
    - split; intros _; [|lia]. apply N.neq_0_lt_0, N.pow_nonzero. discriminate.
    - revert k. induction p as [p IH|p IH|]; intros k; simpl.
      + destruct k as [|k].
        * split; [lia|]. simpl. lia.
        * rewrite Nat2N.inj_succ, N.pow_succ_r'. specialize (IH k). split; intros H.
          -- assert (N.pos p < 2 ^ N.of_nat k)%N by (apply IH; lia). lia.
          -- assert (Pos.size_nat p <= k) by (apply IH; lia). lia.
      + destruct k as [|k].
        * split; [lia|]. simpl. lia.
        * rewrite Nat2N.inj_succ, N.pow_succ_r'. specialize (IH k). split; intros H.
          -- assert (N.pos p < 2 ^ N.of_nat k)%N by (apply IH; lia). lia.
          -- assert (Pos.size_nat p <= k) by (apply IH; lia). lia.
      + destruct k as [|k].
        * split; [lia|]. simpl. lia.
        * rewrite Nat2N.inj_succ, N.pow_succ_r'. split; [|lia]. intros _.
          assert (0 < 2 ^ N.of_nat k)%N by (apply N.neq_0_lt_0, N.pow_nonzero; discriminate). lia.
  Qed.

  Lemma shiftr_eq_0_lt : forall x k, N.shiftr x k = 0%N <-> (x < 2 ^ k)%N.
  Proof.
    intros x k. rewrite N.shiftr_div_pow2.
    apply N.div_small_iff. apply N.pow_nonzero. discriminate.
  Qed.

  (* l <= clz (a xor b)  iff  a and b agree on their top l bits *)
  Lemma clz_agree : forall l a b, l <= w ->
    (a < 2 ^ N.of_nat w)%N -> (b < 2 ^ N.of_nat w)%N ->
    (l <= clz (N.lxor a b) <-> agree l a b).
  Proof.
    intros l a b Hl Ha Hb. unfold clz, agree, top.
    assert (Hx : N.size_nat (N.lxor a b) <= w).
    { apply size_nat_le_iff.
      destruct (N.eq_dec (N.lxor a b) 0) as [E|E].
      - rewrite E. apply N.neq_0_lt_0, N.pow_nonzero. discriminate.
      - apply N.log2_lt_pow2; [lia|].
        eapply N.le_lt_trans; [apply N.log2_lxor|].
        destruct (N.eq_dec a 0) as [->|Na]; destruct (N.eq_dec b 0) as [->|Nb]; simpl.
        + rewrite N.lxor_0_l in E; congruence.
        + rewrite N.max_r by apply N.le_0_l. apply N.log2_lt_pow2; lia.
        + rewrite N.max_l by apply N.le_0_l. apply N.log2_lt_pow2; lia.
        + apply N.max_lub_lt; apply N.log2_lt_pow2; lia. }
    split.
    - intros H.
      assert (N.size_nat (N.lxor a b) <= w - l) by lia.
      apply size_nat_le_iff in H0. apply shiftr_eq_0_lt in H0.
      rewrite N.shiftr_lxor in H0. apply N.lxor_eq in H0. exact H0.
    - intros H.
      assert (N.shiftr (N.lxor a b) (N.of_nat (w - l)) = 0%N).
      { rewrite N.shiftr_lxor, H. apply N.lxor_nilpotent. }
      apply shiftr_eq_0_lt, size_nat_le_iff in H0. lia.
  Qed.

  Lemma contains_agree : forall p a, wfp p -> (a < 2 ^ N.of_nat w)%N ->
    (contains p a = true <-> agree (plen p) (paddr p) a).
  Proof.
    intros p a (Hl & Ha & _) Hb. unfold contains. rewrite Nat.leb_le.
    apply clz_agree; assumption.
  Qed.

  Lemma covers_spec : forall p q, wfp p -> wfp q ->
    (covers p q = true <-> plen p <= plen q /\ agree (plen p) (paddr p) (paddr q)).
  Proof.
    intros p q Hp Hq. unfold covers. rewrite andb_true_iff, Nat.leb_le.
    rewrite (contains_agree p (paddr q) Hp) by apply Hq. reflexivity.
  Qed.

  (* ---------------------------------------------------------------- *)
  (* covers is a partial order on well-formed prefixes                 *)

  Lemma covers_refl : forall p, wfp p -> covers p p = true.
  Proof. intros p Hp. apply covers_spec; auto. split; [lia|reflexivity]. Qed.

  Lemma covers_trans : forall p q r, wfp p -> wfp q -> wfp r ->
    covers p q = true -> covers q r = true -> covers p r = true.
  Proof.
    intros p q r Hp Hq Hr H1 H2.
    apply covers_spec in H1; auto. apply covers_spec in H2; auto. apply covers_spec; auto.
    destruct H1 as [L1 A1], H2 as [L2 A2]. split; [lia|].
    unfold agree in *. rewrite A1. apply (agree_mono _ _ _ _ L1 A2).
  Qed.

  Lemma covers_antisym : forall p q, wfp p -> wfp q ->
    covers p q = true -> covers q p = true -> p = q.
  Proof.
    intros p q Hp Hq H1 H2.
    apply covers_spec in H1; auto. apply covers_spec in H2; auto.
    destruct H1 as [L1 A1], H2 as [L2 A2].
    assert (E : plen p = plen q) by lia.
    destruct p as [a l], q as [b m]; simpl in *. subst m.
    f_equal. apply (agree_mask_eq l); [apply Hp | apply Hq | exact A1].
  Qed.

  Lemma covers_len : forall p q, covers p q = true -> plen p <= plen q.
  Proof. intros p q H. unfold covers in H. apply andb_true_iff in H. apply Nat.leb_le, H. Qed.

  Lemma covers_same_len : forall p q, wfp p -> wfp q ->
    covers p q = true -> plen p = plen q -> p = q.
  Proof.
    intros p q Hp Hq H E. apply covers_antisym; auto.
    apply covers_spec in H; auto. apply covers_spec; auto. destruct H as [_ A].
    split; [lia|]. rewrite <- E. unfold agree in *. auto.
  Qed.

  (* two prefixes covering a common prefix are comparable *)
  Lemma covers_chain : forall p q r, wfp p -> wfp q -> wfp r ->
    covers p r = true -> covers q r = true -> plen p <= plen q -> covers p q = true.
  Proof.
    intros p q r Hp Hq Hr H1 H2 L.
    apply covers_spec in H1; auto. apply covers_spec in H2; auto. apply covers_spec; auto.
    destruct H1 as [L1 A1], H2 as [L2 A2]. split; [lia|].
    unfold agree in *. rewrite A1. symmetry. apply (agree_mono _ _ _ _ L A2).
  Qed.

  (* ---------------------------------------------------------------- *)
  (* bits                                                              *)

  Lemma top_succ : forall l a, l < w ->
    top (S l) a = (2 * top l a + N.b2n (nthbit a (S l)))%N.
  Proof.
    intros l a H. unfold nthbit, top.
    replace ((1 <=? S l)%nat) with true by (symmetry; apply Nat.leb_le; lia).
    replace ((S l <=? w)%nat) with true by (symmetry; apply Nat.leb_le; lia).
    simpl andb.
    replace (N.of_nat (w - l)) with (N.of_nat (w - S l) + 1)%N by lia.
    rewrite <- N.shiftr_shiftr, <- N.div2_spec.
    set (x := N.shiftr a (N.of_nat (w - S l))).
    replace (N.testbit a (N.of_nat (w - S l))) with (N.odd x).
    - apply N.div2_odd.
    - unfold x. rewrite <- N.bit0_odd, N.shiftr_spec by apply N.le_0_l. f_equal.
  Qed.

  Lemma agree_succ : forall l a b, l < w ->
    (agree (S l) a b <-> agree l a b /\ nthbit a (S l) = nthbit b (S l)).
  Proof.
    intros l a b H. unfold agree. rewrite !top_succ by assumption. split.
    - intros E.
      assert (top l a = top l b /\ N.b2n (nthbit a (S l)) = N.b2n (nthbit b (S l))) as [E1 E2].
      { destruct (nthbit a (S l)), (nthbit b (S l)); unfold N.b2n in *; lia. }
      split; auto. apply N.b2n_inj; auto.
    - intros [-> ->]. reflexivity.
  Qed.

  Lemma nthbit_out : forall a n, w < n -> nthbit a n = false.
  Proof.
    intros a n H. unfold nthbit.
    replace ((n <=? w)%nat) with false by (symmetry; apply Nat.leb_gt; lia).
    now rewrite andb_false_r.
  Qed.

  (* prefixes that agree on more than l bits have the same bit l+1 *)
  Lemma agree_nthbit : forall l n a b, agree l a b -> 1 <= n <= l -> l <= w ->
    nthbit a n = nthbit b n.
  Proof.
    intros l n a b A Hn Hl. destruct n as [|n]; [lia|].
    assert (agree (S n) a b) by (apply (agree_mono (S n) l); [lia|auto]).
    apply agree_succ in H; [tauto|lia].
  Qed.

  (* ---------------------------------------------------------------- *)
  (* common prefix = greatest lower bound                              *)

  Lemma common_prefix_len : forall p q,
    plen (common_prefix p q) <= plen p /\ plen (common_prefix p q) <= plen q.
  Proof. intros p q. unfold common_prefix; simpl. lia. Qed.

  Lemma common_prefix_wf : forall p q, wfp p -> wfp q -> wfp (common_prefix p q).
  Proof.
    intros p q Hp Hq. pose proof (common_prefix_len p q) as [L _].
    unfold wfp. destruct Hp as (Lp & Ap & _).
    unfold common_prefix in *; simpl in *. repeat split.
    - lia.
    - apply mask_lt; auto.
    - apply mask_mask.
  Qed.

  Lemma common_prefix_agree : forall p q, wfp p -> wfp q ->
    agree (plen (common_prefix p q)) (paddr p) (paddr q).
  Proof.
    intros p q Hp Hq. apply clz_agree; try apply Hp; try apply Hq.
    - pose proof (common_prefix_len p q). destruct Hp. lia.
    - unfold common_prefix; simpl. lia.
  Qed.

  Lemma common_prefix_covers_l : forall p q, wfp p -> wfp q -> covers (common_prefix p q) p = true.
  Proof.
    intros p q Hp Hq. apply covers_spec; auto using common_prefix_wf.
    split; [apply common_prefix_len|].
    unfold agree. unfold common_prefix at 2; simpl. rewrite top_mask. reflexivity.
  Qed.

  Lemma common_prefix_covers_r : forall p q, wfp p -> wfp q -> covers (common_prefix p q) q = true.
  Proof.
    intros p q Hp Hq. apply covers_spec; auto using common_prefix_wf.
    split; [apply common_prefix_len|].
    pose proof (common_prefix_agree p q Hp Hq) as A.
    unfold agree in *. unfold common_prefix at 2; simpl. rewrite top_mask. exact A.
  Qed.

  Lemma common_prefix_glb : forall r p q, wfp r -> wfp p -> wfp q ->
    covers r p = true -> covers r q = true -> covers r (common_prefix p q) = true.
  Proof.
    intros r p q Hr Hp Hq H1 H2.
    apply covers_spec in H1; auto. apply covers_spec in H2; auto.
    destruct H1 as [L1 A1], H2 as [L2 A2].
    assert (Ar : agree (plen r) (paddr p) (paddr q)) by (unfold agree in *; congruence).
    assert (Lc : plen r <= plen (common_prefix p q)).
    { apply clz_agree in Ar; try apply Hp; try apply Hq; [|destruct Hr; lia].
      unfold common_prefix; simpl. lia. }
    apply covers_spec; auto using common_prefix_wf. split; auto.
    unfold agree in *. unfold common_prefix; simpl. rewrite top_mask_le by exact Lc. exact A1.
  Qed.

  Lemma covers_common_prefix : forall p q, wfp p -> wfp q ->
    (covers p q = true <-> plen (common_prefix p q) = plen p).
  Proof.
    intros p q Hp Hq. split.
    - intros H.
      pose proof (common_prefix_glb p p q Hp Hp Hq (covers_refl p Hp) H) as G.
      apply covers_len in G. pose proof (common_prefix_len p q). lia.
    - intros E.
      assert (common_prefix p q = p).
      { apply covers_same_len; auto using common_prefix_wf, common_prefix_covers_l. }
      rewrite <- H at 1. apply common_prefix_covers_r; auto.
  Qed.

  Lemma covers_common_prefix_eq : forall p q, wfp p -> wfp q ->
    (covers p q = true <-> common_prefix p q = p).
  Proof.
    intros p q Hp Hq. rewrite covers_common_prefix by assumption. split.
    - intros E. apply covers_same_len; auto using common_prefix_wf, common_prefix_covers_l.
    - intros ->. reflexivity.
  Qed.

  Lemma common_prefix_comm : forall p q, wfp p -> wfp q -> common_prefix p q = common_prefix q p.
  Proof.
    intros p q Hp Hq. apply covers_antisym; auto using common_prefix_wf.
    - apply common_prefix_glb; auto using common_prefix_wf, common_prefix_covers_l, common_prefix_covers_r.
    - apply common_prefix_glb; auto using common_prefix_wf, common_prefix_covers_l, common_prefix_covers_r.
  Qed.

  (* the bit just past a proper common prefix separates the two prefixes *)
  Lemma common_prefix_split : forall p q, wfp p -> wfp q ->
    plen (common_prefix p q) < plen p -> plen (common_prefix p q) < plen q ->
    nthbit (paddr p) (S (plen (common_prefix p q))) <> nthbit (paddr q) (S (plen (common_prefix p q))).
  Proof.
    intros p q Hp Hq L1 L2 E.
    set (l := plen (common_prefix p q)) in *.
    assert (Hl : l < w) by (destruct Hp; lia).
    assert (A : agree (S l) (paddr p) (paddr q)).
    { apply agree_succ; auto. split; auto. apply common_prefix_agree; auto. }
    apply clz_agree in A; try apply Hp; try apply Hq; [|lia].
    unfold l, common_prefix in *; simpl in *. lia.
  Qed.

  (* ---------------------------------------------------------------- *)
  (* branches                                                          *)

  Lemma under_spec : forall p b q,
    under p b q = true <-> covers p q = true /\ plen p < plen q /\ nthbit (paddr q) (S (plen p)) = b.
  Proof.
    intros p b q. unfold under. rewrite !andb_true_iff, Nat.ltb_lt, eqb_true_iff. tauto.
  Qed.

  (* anything covered by something under (p,b) is under (p,b) *)
  Lemma under_covers : forall p b q r, wfp p -> wfp q -> wfp r ->
    under p b q = true -> covers q r = true -> under p b r = true.
  Proof.
    intros p b q r Hp Hq Hr U C. apply under_spec in U. destruct U as (C1 & L & B).
    apply under_spec. split; [apply (covers_trans p q r); auto|].
    pose proof (covers_len _ _ C). split; [lia|].
    apply covers_spec in C; auto. destruct C as [_ A].
    rewrite <- B. symmetry. apply (agree_nthbit (plen q)); auto; [lia | apply Hq].
  Qed.

  (* a prefix covering something under (p,b) is either under (p,b) too or covers p *)
  Lemma covers_under_cases : forall p b q r, wfp p -> wfp q -> wfp r ->
    under p b r = true -> covers q r = true -> under p b q = true \/ covers q p = true.
  Proof.
    intros p b q r Hp Hq Hr U C. apply under_spec in U. destruct U as (C1 & L & B).
    destruct (le_lt_dec (plen q) (plen p)) as [Le|Lt].
    - right. apply (covers_chain q p r); auto.
    - left. apply under_spec.
      assert (covers p q = true) by (apply (covers_chain p q r); auto; lia).
      split; auto. split; auto.
      apply covers_spec in C; auto. destruct C as [_ A].
      rewrite <- B. apply (agree_nthbit (plen q)); auto; [lia | apply Hq].
  Qed.

  Lemma under_disjoint : forall p b q r, wfp p -> wfp q -> wfp r ->
    under p b q = true -> under p (negb b) r = true -> covers q r = false.
  Proof.
    intros p b q r Hp Hq Hr U1 U2.
    destruct (covers q r) eqn:C; auto.
    pose proof (under_covers p b q r Hp Hq Hr U1 C) as U3.
    apply under_spec in U2. apply under_spec in U3.
    destruct U2 as (_ & _ & B2), U3 as (_ & _ & B3). rewrite B2 in B3. destruct b; discriminate.
  Qed.

  Lemma under_not_covers_parent : forall p b q, wfp p -> wfp q ->
    under p b q = true -> covers q p = false.
  Proof.
    intros p b q Hp Hq U. apply under_spec in U. destruct U as (_ & L & _).
    destruct (covers q p) eqn:C; auto. apply covers_len in C. lia.
  Qed.

  (* if p strictly covers q then q is under exactly the branch named by its next bit *)
  Lemma covers_under : forall p q,
    covers p q = true -> plen p < plen q -> under p (nthbit (paddr q) (S (plen p))) q = true.
  Proof. intros p q C L. apply under_spec. auto. Qed.

  Lemma host_wf : forall a, (a < 2 ^ N.of_nat w)%N -> wfp (host a).
  Proof.
    intros a H. unfold wfp, host; simpl. repeat split; auto.
    unfold mask, top. rewrite Nat.sub_diag. change (N.of_nat 0) with 0%N. now rewrite N.shiftr_0_r, N.shiftl_0_r.
  Qed.

  Lemma covers_host : forall p a, wfp p -> (a < 2 ^ N.of_nat w)%N ->
    covers p (host a) = contains p a.
  Proof.
    intros p a Hp Ha. unfold covers, host; simpl.
    replace ((plen p <=? w)%nat) with true; [reflexivity|].
    symmetry. apply Nat.leb_le. apply Hp.
  Qed.

  (* ---------------------------------------------------------------- *)
  (* order: covered prefixes and 0/1 branches are ordered by address   *)

  Lemma top_le_mono : forall l a b, (a <= b)%N -> (top l a <= top l b)%N.
  Proof.
    intros l a b H. unfold top. rewrite !N.shiftr_div_pow2.
    apply N.div_le_mono; auto. apply N.pow_nonzero. discriminate.
  Qed.

  Lemma covers_addr_le : forall p q, wfp p -> wfp q -> covers p q = true -> (paddr p <= paddr q)%N.
  Proof.
    intros p q Hp Hq C. apply covers_spec in C; auto. destruct C as [_ A].
    destruct Hp as (_ & _ & N1). rewrite <- N1. unfold mask. rewrite A.
    apply (mask_le (plen p) (paddr q)).
  Qed.

  Lemma covers_ltb : forall p q, wfp p -> wfp q -> covers p q = true -> p <> q -> prefix_ltb p q = true.
  Proof.
    intros p q Hp Hq C Ne. unfold prefix_ltb.
    pose proof (covers_addr_le p q Hp Hq C) as Le.
    destruct (N.eq_dec (paddr p) (paddr q)) as [E|E].
    - rewrite E, N.eqb_refl. simpl. rewrite orb_true_iff. right. apply Nat.ltb_lt.
      pose proof (covers_len _ _ C).
      destruct (Nat.eq_dec (plen p) (plen q)); [|lia].
      exfalso. apply Ne. destruct p, q; simpl in *; congruence.
    - rewrite orb_true_iff. left. apply N.ltb_lt. lia.
  Qed.

  Lemma branches_ltb : forall p q r, wfp p -> wfp q -> wfp r ->
    under p false q = true -> under p true r = true -> prefix_ltb q r = true.
  Proof.
    intros p q r Hp Hq Hr U1 U2.
    apply under_spec in U1. apply under_spec in U2.
    destruct U1 as (C1 & L1 & B1), U2 as (C2 & L2 & B2).
    apply covers_spec in C1; auto. apply covers_spec in C2; auto.
    destruct C1 as [_ A1], C2 as [_ A2].
    assert (Hl : plen p < w) by (destruct Hq; lia).
    assert (T : (top (S (plen p)) (paddr q) < top (S (plen p)) (paddr r))%N).
    { rewrite !top_succ by auto. rewrite B1, B2. unfold agree in *. rewrite <- A1, <- A2. simpl. lia. }
    unfold prefix_ltb. rewrite orb_true_iff. left. apply N.ltb_lt.
    destruct (N.lt_ge_cases (paddr q) (paddr r)) as [|Ge]; auto.
    apply (top_le_mono (S (plen p))) in Ge. lia.
  Qed.

  Lemma prefix_ltb_trans : forall p q r,
    prefix_ltb p q = true -> prefix_ltb q r = true -> prefix_ltb p r = true.
  Proof.
    intros p q r. unfold prefix_ltb.
    rewrite !orb_true_iff, !andb_true_iff, !N.ltb_lt, !N.eqb_eq, !Nat.ltb_lt. lia.
  Qed.

  Lemma prefix_ltb_irrefl : forall p, prefix_ltb p p = false.
  Proof.
    intros p. unfold prefix_ltb. rewrite N.ltb_irrefl, Nat.ltb_irrefl, andb_false_r. reflexivity.
  Qed.

  Lemma prefix_ltb_total : forall p q, p <> q -> prefix_ltb p q = true \/ prefix_ltb q p = true.
  Proof.
    intros [a l] [b m] Ne. unfold prefix_ltb; simpl.
    rewrite !orb_true_iff, !andb_true_iff, !N.ltb_lt, !N.eqb_eq, !Nat.ltb_lt.
    destruct (N.lt_trichotomy a b) as [|[E|]]; auto.
    destruct (Nat.lt_trichotomy l m) as [|[E2|]]; auto.
    subst. congruence.
  Qed.

  (* two prefixes in the same branch below p have their common prefix in that branch *)
  Lemma under_common_prefix : forall p b q r, wfp p -> wfp q -> wfp r ->
    under p b q = true -> under p b r = true -> under p b (common_prefix q r) = true.
  Proof.
    intros p b q r Hp Hq Hr U1 U2.
    apply under_spec in U1. apply under_spec in U2.
    destruct U1 as (C1 & L1 & B1), U2 as (C2 & L2 & B2).
    assert (Hc := common_prefix_wf q r Hq Hr).
    assert (Hl : plen p < w) by (destruct Hq; lia).
    assert (G : covers p (common_prefix q r) = true) by (apply common_prefix_glb; auto).
    assert (A : agree (S (plen p)) (paddr q) (paddr r)).
    { apply covers_spec in C1; auto. apply covers_spec in C2; auto.
      apply agree_succ; auto. split; [|congruence].
      destruct C1 as [_ A1], C2 as [_ A2]. unfold agree in *. congruence. }
    assert (L : S (plen p) <= plen (common_prefix q r)).
    { apply clz_agree in A; try apply Hq; try apply Hr; [|lia].
      unfold common_prefix; simpl. lia. }
    apply under_spec. split; auto. split; [lia|].
    rewrite <- B1.
    pose proof (common_prefix_covers_l q r Hq Hr) as Cq.
    apply covers_spec in Cq; auto. destruct Cq as [_ Aq].
    apply (agree_nthbit (plen (common_prefix q r))); auto; [lia | apply Hc].
  Qed.

  Lemma prefix_ltb_asym : forall p q, prefix_ltb p q = true -> prefix_ltb q p = false.
  Proof.
    intros p q H. destruct (prefix_ltb q p) eqn:E; auto.
    pose proof (prefix_ltb_trans _ _ _ H E) as T. rewrite prefix_ltb_irrefl in T. discriminate.
  Qed.

  Lemma prefix_ltb_neq : forall p q, prefix_ltb p q = true -> prefix_eqb p q = false.
  Proof.
    intros p q H. apply prefix_eqb_neq. intros ->. rewrite prefix_ltb_irrefl in H. discriminate.
  Qed.

End Width.

Arguments top : simpl never.
Arguments mask : simpl never.
Arguments clz : simpl never.
Arguments nthbit : simpl never.
Arguments contains : simpl never.
Arguments covers : simpl never.
Arguments common_prefix : simpl never.
Arguments under : simpl never.
Arguments prefix_eqb : simpl never.
Arguments prefix_ltb : simpl never.
