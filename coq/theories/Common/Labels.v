(* Common/Labels.v — label maps, label inheritance and the selector AST with its
   evaluation function.  Shared by C03, C04, C06, C07, C29.

   Mirrors libcalico-go/lib/selector/parser/ast.go (node types and their
   Evaluate methods) and felix/labelindex itemData.GetHandle (own labels first,
   then the parents in order).

   Strings are lists of bytes (N, each < 256 by convention; nothing here depends
   on the bound).  A label map is an association list; the FIRST binding of a
   key is the one that counts (Go maps have one binding per key, so a map
   emitted from Go has no duplicates and the convention only matters for
   `effective`).

   DEFINITIONS IN THIS FILE ARE FROZEN (other builders depend on them); only
   lemmas may be added. *)
From Coq Require Import List NArith Bool.
Import ListNotations.
Open Scope N_scope.

(* ------------------------------------------------------------------ bytes *)

Definition bytes := list N.

Fixpoint bytes_eqb (a b : bytes) : bool :=
  match a, b with
  | [], [] => true
  | x :: a', y :: b' => N.eqb x y && bytes_eqb a' b'
  | _, _ => false
  end.

(* Go `a < b` on strings: lexicographic on bytes, a proper prefix is smaller *)
Fixpoint bytes_ltb (a b : bytes) : bool :=
  match a, b with
  | _, [] => false
  | [], _ :: _ => true
  | x :: a', y :: b' => N.ltb x y || (N.eqb x y && bytes_ltb a' b')
  end.

(* strings.HasPrefix s p *)
Fixpoint has_prefix (s p : bytes) : bool :=
  match p, s with
  | [], _ => true
  | y :: p', x :: s' => N.eqb x y && has_prefix s' p'
  | _ :: _, [] => false
  end.

(* strings.HasSuffix s p *)
Definition has_suffix (s p : bytes) : bool := has_prefix (rev s) (rev p).

(* strings.Contains s p *)
Fixpoint contains (s p : bytes) : bool :=
  has_prefix s p || match s with [] => false | _ :: s' => contains s' p end.

Definition mem_bytes (x : bytes) (xs : list bytes) : bool := existsb (bytes_eqb x) xs.

(* ------------------------------------------------------------------ labels *)

Definition labels := list (bytes * bytes).

Fixpoint lookup (k : bytes) (L : labels) : option bytes :=
  match L with
  | [] => None
  | (k', v) :: L' => if bytes_eqb k k' then Some v else lookup k L'
  end.

(* An item's own labels shadow those inherited from its parents (profiles);
   among parents the first one in the item's parent list that has the label wins. *)
Definition effective (own : labels) (parents : list labels) : labels :=
  own ++ concat parents.

(* ------------------------------------------------------------------ selector AST *)

Inductive ast : Type :=
| SEq (l v : bytes)                   (* l == "v" *)
| SNe (l v : bytes)                   (* l != "v"          (true when l is absent) *)
| SContains (l v : bytes)             (* l contains "v" *)
| SStartsWith (l v : bytes)           (* l starts with "v" *)
| SEndsWith (l v : bytes)             (* l ends with "v" *)
| SIn (l : bytes) (vs : list bytes)   (* l in {...} *)
| SNotIn (l : bytes) (vs : list bytes)(* l not in {...}    (true when l is absent) *)
| SHas (l : bytes)                    (* has(l) *)
| SAll                                (* all() *)
| SGlobal                             (* global()  — evaluates like all() *)
| SNot (a : ast)
| SAnd (xs : list ast)
| SOr (xs : list ast).

Fixpoint eval (a : ast) (L : labels) : bool :=
  match a with
  | SEq l v => match lookup l L with Some x => bytes_eqb x v | None => false end
  | SNe l v => match lookup l L with Some x => negb (bytes_eqb x v) | None => true end
  | SContains l v => match lookup l L with Some x => contains x v | None => false end
  | SStartsWith l v => match lookup l L with Some x => has_prefix x v | None => false end
  | SEndsWith l v => match lookup l L with Some x => has_suffix x v | None => false end
  | SIn l vs => match lookup l L with Some x => mem_bytes x vs | None => false end
  | SNotIn l vs => match lookup l L with Some x => negb (mem_bytes x vs) | None => true end
  | SHas l => match lookup l L with Some _ => true | None => false end
  | SAll => true
  | SGlobal => true
  | SNot a' => negb (eval a' L)
  | SAnd xs => forallb (fun x => eval x L) xs
  | SOr xs => existsb (fun x => eval x L) xs
  end.

(* does item (own, parents) match selector a *)
Definition matches (a : ast) (own : labels) (parents : list labels) : bool :=
  eval a (effective own parents).

(* structural size / depth, handy as fuel and for generators *)
Fixpoint ast_size (a : ast) : nat :=
  match a with
  | SNot a' => S (ast_size a')
  | SAnd xs | SOr xs => S (fold_right (fun x n => (ast_size x + n)%nat) 0%nat xs)
  | _ => 1%nat
  end.

(* ------------------------------------------------------------------ induction principle *)

Section AstInd.
  Variable P : ast -> Prop.
  Hypothesis HEq : forall l v, P (SEq l v).
  Hypothesis HNe : forall l v, P (SNe l v).
  Hypothesis HContains : forall l v, P (SContains l v).
  Hypothesis HStarts : forall l v, P (SStartsWith l v).
  Hypothesis HEnds : forall l v, P (SEndsWith l v).
  Hypothesis HIn : forall l vs, P (SIn l vs).
  Hypothesis HNotIn : forall l vs, P (SNotIn l vs).
  Hypothesis HHas : forall l, P (SHas l).
  Hypothesis HAll : P SAll.
  Hypothesis HGlobal : P SGlobal.
  Hypothesis HNot : forall a, P a -> P (SNot a).
  Hypothesis HAnd : forall xs, Forall P xs -> P (SAnd xs).
  Hypothesis HOr : forall xs, Forall P xs -> P (SOr xs).

  Fixpoint ast_ind_nested (a : ast) : P a :=
    let fix go (xs : list ast) : Forall P xs :=
      match xs with
      | [] => Forall_nil P
      | x :: xs' => Forall_cons x (ast_ind_nested x) (go xs')
      end in
    match a with
    | SEq l v => HEq l v
    | SNe l v => HNe l v
    | SContains l v => HContains l v
    | SStartsWith l v => HStarts l v
    | SEndsWith l v => HEnds l v
    | SIn l vs => HIn l vs
    | SNotIn l vs => HNotIn l vs
    | SHas l => HHas l
    | SAll => HAll
    | SGlobal => HGlobal
    | SNot a' => HNot a' (ast_ind_nested a')
    | SAnd xs => HAnd xs (go xs)
    | SOr xs => HOr xs (go xs)
    end.
End AstInd.

(* ------------------------------------------------------------------ lemmas *)

Lemma bytes_eqb_refl : forall a, bytes_eqb a a = true.
Proof. induction a; simpl; auto. rewrite N.eqb_refl; auto. Qed.

Lemma bytes_eqb_eq : forall a b, bytes_eqb a b = true <-> a = b.
Proof.
  induction a; destruct b; simpl; split; intros H; try discriminate; auto.
  - apply andb_true_iff in H. destruct H as [H1 H2]. apply N.eqb_eq in H1. apply IHa in H2. congruence.
  - inversion H; subst. rewrite N.eqb_refl. simpl. apply bytes_eqb_refl.
Qed.

Lemma bytes_eqb_neq : forall a b, bytes_eqb a b = false <-> a <> b.
Proof.
  intros. split; intros H.
  - intros E. apply bytes_eqb_eq in E. congruence.
  - destruct (bytes_eqb a b) eqn:E; auto. apply bytes_eqb_eq in E. contradiction.
Qed.

Lemma bytes_eqb_sym : forall a b, bytes_eqb a b = bytes_eqb b a.
Proof.
  intros. destruct (bytes_eqb a b) eqn:E.
  - apply bytes_eqb_eq in E. subst. symmetry. apply bytes_eqb_refl.
  - symmetry. apply bytes_eqb_neq. apply bytes_eqb_neq in E. congruence.
Qed.

Lemma bytes_eq_dec : forall a b : bytes, {a = b} + {a <> b}.
Proof. intros. destruct (bytes_eqb a b) eqn:E; [left; apply bytes_eqb_eq | right; apply bytes_eqb_neq]; auto. Qed.

Lemma bytes_ltb_irrefl : forall a, bytes_ltb a a = false.
Proof. induction a; simpl; auto. rewrite N.ltb_irrefl, N.eqb_refl. simpl. auto. Qed.

Lemma bytes_ltb_trans : forall a b c, bytes_ltb a b = true -> bytes_ltb b c = true -> bytes_ltb a c = true.
Proof.
  induction a; destruct b, c; simpl; intros H1 H2; try discriminate; auto.
  apply orb_true_iff in H1. apply orb_true_iff in H2. apply orb_true_iff.
  destruct H1 as [H1|H1], H2 as [H2|H2].
  - left. apply N.ltb_lt in H1, H2. apply N.ltb_lt. eapply N.lt_trans; eauto.
  - apply andb_true_iff in H2. destruct H2 as [E _]. apply N.eqb_eq in E. subst. auto.
  - apply andb_true_iff in H1. destruct H1 as [E _]. apply N.eqb_eq in E. subst. auto.
  - apply andb_true_iff in H1. apply andb_true_iff in H2. destruct H1 as [E1 L1], H2 as [E2 L2].
    apply N.eqb_eq in E1, E2. subst. right. rewrite N.eqb_refl. simpl. eauto.
Qed.

(* trichotomy: Go string order is total *)
Lemma bytes_ltb_total : forall a b, bytes_ltb a b = false -> bytes_ltb b a = false -> a = b.
Proof.
  induction a; destruct b; simpl; intros H1 H2; try discriminate; auto.
  apply orb_false_iff in H1. apply orb_false_iff in H2. destruct H1 as [L1 R1], H2 as [L2 R2].
  apply N.ltb_ge in L1, L2. assert (a = n) by (apply N.le_antisymm; auto). subst.
  rewrite N.eqb_refl in R1, R2. simpl in R1, R2. f_equal. auto.
Qed.

Lemma mem_bytes_In : forall x xs, mem_bytes x xs = true <-> In x xs.
Proof.
  intros. unfold mem_bytes. rewrite existsb_exists. split.
  - intros [y [Hy E]]. apply bytes_eqb_eq in E. subst. auto.
  - intros H. exists x. split; auto. apply bytes_eqb_refl.
Qed.

Lemma lookup_app : forall k L1 L2,
  lookup k (L1 ++ L2) = match lookup k L1 with Some v => Some v | None => lookup k L2 end.
Proof.
  induction L1 as [|[k' v] L1 IH]; simpl; intros; auto.
  destruct (bytes_eqb k k'); auto.
Qed.

(* own labels shadow inherited ones *)
Lemma lookup_effective_own : forall k own parents v,
  lookup k own = Some v -> lookup k (effective own parents) = Some v.
Proof. intros. unfold effective. rewrite lookup_app, H. reflexivity. Qed.

Lemma lookup_effective_inherited : forall k own parents,
  lookup k own = None -> lookup k (effective own parents) = lookup k (concat parents).
Proof. intros. unfold effective. rewrite lookup_app, H. reflexivity. Qed.

Lemma lookup_effective_cons : forall k own p ps,
  lookup k (effective own (p :: ps)) =
  match lookup k own with Some v => Some v | None =>
    match lookup k p with Some v => Some v | None => lookup k (concat ps) end end.
Proof. intros. unfold effective. simpl. rewrite !lookup_app. reflexivity. Qed.

Lemma has_prefix_nil : forall s, has_prefix s [] = true.
Proof. destruct s; reflexivity. Qed.

Lemma has_prefix_app : forall p s, has_prefix (p ++ s) p = true.
Proof. induction p; simpl; intros. apply has_prefix_nil. rewrite N.eqb_refl. simpl. auto. Qed.

Lemma has_prefix_iff : forall s p, has_prefix s p = true <-> exists t, s = p ++ t.
Proof.
  intros s p. revert s. induction p; intros s; simpl.
  - split; eauto. intros _. destruct s; reflexivity.
  - destruct s; simpl.
    + split; [discriminate | intros [t H]; discriminate].
    + rewrite andb_true_iff, N.eqb_eq, IHp. split.
      * intros [E [t H]]. subst. eauto.
      * intros [t H]. inversion H; subst. eauto.
Qed.

Lemma contains_nil : forall s, contains s [] = true.
Proof. destruct s; reflexivity. Qed.

Lemma eval_not : forall a L, eval (SNot a) L = negb (eval a L).
Proof. reflexivity. Qed.

Lemma eval_and : forall xs L, eval (SAnd xs) L = forallb (fun x => eval x L) xs.
Proof. reflexivity. Qed.

Lemma eval_or : forall xs L, eval (SOr xs) L = existsb (fun x => eval x L) xs.
Proof. reflexivity. Qed.

Lemma eval_and_singleton : forall a L, eval (SAnd [a]) L = eval a L.
Proof. intros. simpl. apply andb_true_r. Qed.

Lemma eval_or_singleton : forall a L, eval (SOr [a]) L = eval a L.
Proof. intros. simpl. apply orb_false_r. Qed.

(* selectors depend on the label map only through lookup *)
Lemma eval_ext : forall a L1 L2, (forall k, lookup k L1 = lookup k L2) -> eval a L1 = eval a L2.
Proof.
  induction a using ast_ind_nested; intros L1 L2 E; simpl; try rewrite (E l); auto.
  - f_equal. auto.
  - induction H; simpl; auto. f_equal; auto.
  - induction H; simpl; auto. f_equal; auto.
Qed.
