(* C10 part 2 — specification and oracle for the nftables dispatch verdict-map programming:
   after every Apply() that returns (does not give up), the kernel's dispatch verdict map of each
   desired kind holds exactly the desired interfaces, each with the verdict "goto its own chain",
   and therefore (evaluating the rendered vmap dispatch chain over the kernel's map in the abstract
   netfilter machine) every known interface reaches its own chain and every other one is dropped. *)
From Coq Require Import List NArith Bool Arith.
From Verif.C10 Require Import Nf Model Spec MapsModel.
Import ListNotations.
Open Scope N_scope.

(* history operations *)
Inductive mop :=
| MSet (k : epkind) (names : list name)   (* AddOrReplaceMap(dispatch map k, DispatchMappings(endpoints named names)) *)
| MApply (sc : script).                   (* Apply() under the given injected failures *)

(* what the harness records after each Apply *)
Record mobs := { o_panicked : bool;       (* Apply gave up (log.Panic after the last retry) *)
                 o_runs : nat; o_loads : nat;   (* nft transactions run / table resyncs started *)
                 o_kernel : option (list (epkind * vmap)) }. (* None = table absent; maps by kind, entries by key *)

Record mcase := { mc_ops : list mop; mc_obs : list mobs }.

(* ---- model run ---- *)
Definition render_kernel (kn : kernel) : option (list (epkind * vmap)) :=
  match kn with
  | None => None
  | Some _ => Some (map (fun k => (k, map (fun n => (n, AGoto (CEp k n))) (sort_names (kelems kn k)))) (klisted kn))
  end.

Fixpoint run_ops (ts : tstate) (kn : kernel) (ops : list mop) : list mobs :=
  match ops with
  | [] => []
  | MSet k names :: ops' =>
      run_ops {| t_m := add_or_replace (t_m ts) k (map_keys names); t_insync := t_insync ts;
                 t_recreate := t_recreate ts; t_hempty := t_hempty ts |} kn ops'
  | MApply sc :: ops' =>
      let r := apply_table ts kn sc in
      {| o_panicked := negb (a_ok r); o_runs := a_runs r; o_loads := a_loads r; o_kernel := render_kernel (a_kn r) |}
      :: (if a_ok r then run_ops (a_ts r) (a_kn r) ops' else [])   (* the process dies with the panic *)
  end.

Definition model_obs (c : mcase) : list mobs := run_ops t_init None (mc_ops c).

Definition kern_eqb (a b : option (list (epkind * vmap))) : bool :=
  match a, b with
  | None, None => true
  | Some x, Some y => list_eqb (fun p q => epkind_eqb (fst p) (fst q) && vmap_eqb (snd p) (snd q)) x y
  | _, _ => false
  end.
Definition mobs_eqb (a b : mobs) : bool :=
  Bool.eqb (o_panicked a) (o_panicked b) && Nat.eqb (o_runs a) (o_runs b) && Nat.eqb (o_loads a) (o_loads b)
  && kern_eqb (o_kernel a) (o_kernel b).

(* ---- oracle (independent of the model) ---- *)
Definition desired := list (epkind * list name).   (* latest MSet per kind *)
Definition set_desired (d : desired) (k : epkind) (names : list name) : desired :=
  (k, names) :: filter (fun p => negb (epkind_eqb (fst p) k)) d.

(* the kernel's map of kind k is exactly: every desired interface -> goto its own chain *)
Definition map_exact (k : epkind) (names : list name) (m : vmap) : bool :=
  forallb (fun e => mem (fst e) names && action_eqb (snd e) (AGoto (CEp k (fst e)))) m
  && forallb (fun n => existsb (fun e => name_eqb (fst e) n) m) names.

(* the nftables dispatch chain of kind k over the kernel's verdict map, as WorkloadDispatchChains renders it *)
Definition vmap_ruleset (k : epkind) (m : vmap) : ruleset :=
  {| rs_chains := build_vmap k [Rule MAny ADrop]; rs_maps := [(k, m)] |}.

Definition probes_of (names others : list name) : list name :=
  names ++ others ++ map (fun n => n ++ [48]) names ++ [[99;97;108;105]; []].

Definition dispatch_ok (k : epkind) (names others : list name) (m : vmap) : bool :=
  forallb (fun i => result_eqb (eval 42 (vmap_ruleset k m) (mk_packet k i [122]) (CRoot k))
                               (spec_workload false k names i))
          (probes_of names others).

Definition find_kmap (k : epkind) (l : list (epkind * vmap)) : option vmap :=
  match find (fun p => epkind_eqb (fst p) k) l with Some p => Some (snd p) | None => None end.

Definition obs_ok (d : desired) (o : mobs) : bool :=
  if o_panicked o then true
  else match o_kernel o with
       | None => is_nil d
       | Some maps =>
           forallb (fun p => match find_kmap (fst p) maps with
                             | None => false
                             | Some m => map_exact (fst p) (snd p) m
                                         && dispatch_ok (fst p) (snd p) (flat_map snd d) m
                             end) d
       end.

Fixpoint ok_history (d : desired) (ops : list mop) (obs : list mobs) : bool :=
  match ops, obs with
  | [], [] => true
  | MSet k names :: ops', _ => ok_history (set_desired d k names) ops' obs
  | MApply _ :: ops', o :: obs' =>
      obs_ok d o && (if o_panicked o then is_nil obs' else ok_history d ops' obs')
  | _, _ => false
  end.

Definition ok_mcase (c : mcase) : bool := ok_history [] (mc_ops c) (mc_obs c).
Definition agree_mcase (c : mcase) : bool := list_eqb mobs_eqb (model_obs c) (mc_obs c).

(* ---- both parts of the check in one case type ---- *)
Inductive anycase := CDispatch (c : case) | CMaps (c : mcase).
Definition check_any (c : anycase) : bool * bool :=
  match c with
  | CDispatch c => check_case c
  | CMaps c => (agree_mcase c, ok_mcase c)
  end.
