(* C10 part 2 — proofs about the map-programming model. *)
From Coq Require Import List NArith Bool Arith Lia.
From Verif.C10 Require Import Nf Model Spec Proofs MapsModel MapsSpec.
Import ListNotations.
Open Scope N_scope.

(* ---------- sets ---------- *)
Lemma nmem_In : forall x s, nmem x s = true <-> In x s.
Proof. intros. apply (mem_In x s). Qed.

Lemma ndiff_nil_r : forall s, ndiff s [] = s.
Proof. induction s; simpl; auto. f_equal; auto. Qed.

Lemma ndiff_nil_l : forall s, ndiff [] s = [].
Proof. reflexivity. Qed.

Lemma upd_same : forall A (f : epkind -> A) k v, upd f k v k = v.
Proof. intros. unfold upd. rewrite epkind_eqb_refl. reflexivity. Qed.

Lemma upd_other : forall A (f : epkind -> A) k v k', k' <> k -> upd f k v k' = f k'.
Proof.
  intros. unfold upd. destruct (epkind_eqb k' k) eqn:E; auto. apply epkind_eqb_eq in E. contradiction.
Qed.

Lemma in_all_kinds : forall k, In k all_kinds.
Proof. destruct k; simpl; tauto. Qed.

Lemma existsb_kind : forall k l, existsb (epkind_eqb k) l = true <-> In k l.
Proof.
  intros. rewrite existsb_exists. split.
  - intros [x [H1 H2]]. apply epkind_eqb_eq in H2. subst; auto.
  - intros H. exists k. split; auto. apply epkind_eqb_refl.
Qed.

(* ---------- InvalidateMapsCache ---------- *)
Definition reset_dp (t : tracker) : tracker := {| tr_des := tr_des t; tr_dp := [] |}.

Lemma invalidate_fold : forall l s,
  ms_all (fold_left invalidate_one l s) = ms_all s /\
  ms_progdp (fold_left invalidate_one l s) = ms_progdp s /\
  forall k, ms_trk (fold_left invalidate_one l s) k =
            if existsb (epkind_eqb k) l then option_map reset_dp (ms_trk s k) else ms_trk s k.
Proof.
  induction l as [|a l IH]; intros s; simpl.
  - repeat split; auto.
  - destruct (IH (invalidate_one s a)) as [H1 [H2 H3]].
    assert (A1 : ms_all (invalidate_one s a) = ms_all s)
      by (unfold invalidate_one; destruct (ms_trk s a); reflexivity).
    assert (A2 : ms_progdp (invalidate_one s a) = ms_progdp s)
      by (unfold invalidate_one; destruct (ms_trk s a); reflexivity).
    assert (A3 : forall k, ms_trk (invalidate_one s a) k =
                           if epkind_eqb k a then option_map reset_dp (ms_trk s k) else ms_trk s k).
    { intros k. unfold invalidate_one. destruct (ms_trk s a) eqn:Ea; simpl.
      - unfold upd. destruct (epkind_eqb k a) eqn:Ek; auto. apply epkind_eqb_eq in Ek. subst. rewrite Ea. reflexivity.
      - destruct (epkind_eqb k a) eqn:Ek; auto. apply epkind_eqb_eq in Ek. subst. rewrite Ea. reflexivity. }
    rewrite H1, H2, A1, A2. repeat split; auto.
    intros k. rewrite H3, A3.
    destruct (epkind_eqb k a); simpl.
    + destruct (existsb (epkind_eqb k) l); auto. destruct (ms_trk s k); reflexivity.
    + reflexivity.
Qed.

Lemma invalidate_spec : forall s,
  ms_all (invalidate s) = ms_all s /\
  (forall k, ms_progdp (invalidate s) k = false) /\
  forall k, ms_trk (invalidate s) k = option_map reset_dp (ms_trk s k).
Proof.
  intros s. unfold invalidate.
  destruct (invalidate_fold all_kinds
    {| ms_all := ms_all s; ms_progdp := kempty; ms_trk := ms_trk s; ms_dirty := ms_dirty s |}) as [H1 [H2 H3]].
  rewrite H1, H2. repeat split; auto. intros k. rewrite H3.
  assert (existsb (epkind_eqb k) all_kinds = true) as -> by (apply existsb_kind; apply in_all_kinds).
  reflexivity.
Qed.

(* ---------- kernel transactions ---------- *)
Definition kget (kn : kernel) (k : epkind) : option nset :=
  match kn with Some t => t k | None => None end.

Definition empty_table : ktable := fun _ => None.

Lemma recreate_prefix : forall kn, apply_tx kn [TAddTable; TDelTable; TAddTable] = Some (Some empty_table).
Proof. intros [t|]; reflexivity. Qed.

Lemma apply_tx_app : forall a b kn,
  apply_tx kn (a ++ b) = match apply_tx kn a with Some kn' => apply_tx kn' b | None => None end.
Proof.
  induction a; intros; simpl; auto. destruct (apply_op kn a); auto.
Qed.

(* creating maps in an existing table *)
Lemma creates_effect : forall ks t,
  exists t', apply_tx (Some t) (map TAddMap ks) = Some (Some t') /\
    forall k, t' k = match t k with Some s => Some s | None => if existsb (epkind_eqb k) ks then Some [] else None end.
Proof.
  induction ks as [|a ks IH]; intros t; simpl.
  - exists t. split; auto. intros k. destruct (t k); auto.
  - destruct (IH (match t a with Some _ => t | None => upd t a (Some []) end)) as [t' [H1 H2]].
    exists t'. split; auto. intros k. rewrite H2.
    destruct (t a) eqn:Ea.
    + destruct (t k) eqn:Ek; auto. destruct (epkind_eqb k a) eqn:E; auto.
      apply epkind_eqb_eq in E. subst. congruence.
    + unfold upd. destruct (epkind_eqb k a) eqn:E; simpl.
      * apply epkind_eqb_eq in E. subst. rewrite Ea. reflexivity.
      * reflexivity.
Qed.

(* adding elements to one existing map *)
Lemma adds_one : forall k xs t s, t k = Some s ->
  exists t' s', apply_tx (Some t) (map (TAddElem k) xs) = Some (Some t') /\ t' k = Some s' /\
    (forall x, In x s' <-> In x s \/ In x xs) /\ (forall k', k' <> k -> t' k' = t k').
Proof.
  induction xs as [|x xs IH]; intros t s Hk; simpl.
  - exists t, s. split; [auto|split; [auto|split]]; auto. intros; tauto.
  - rewrite Hk.
    set (s1 := if nmem x s then s else x :: s).
    destruct (IH (upd t k (Some s1)) s1) as [t' [s' [H1 [H2 [H3 H4]]]]]; [apply upd_same|].
    exists t', s'. split; [auto|split; [auto|split]].
    + intros y. rewrite H3. subst s1. destruct (nmem x s) eqn:E.
      * apply nmem_In in E. intuition (subst; auto).
      * simpl. intuition (subst; auto).
    + intros k' Hne. rewrite H4 by auto. apply upd_other; auto.
Qed.

Lemma adds_effect : forall (D : epkind -> nset) ks t,
  (forall k, In k ks -> t k <> None) ->
  exists t', apply_tx (Some t) (flat_map (fun k => map (TAddElem k) (D k)) ks) = Some (Some t') /\
    forall k, (t' k = None <-> t k = None) /\
              forall x, In x (match t' k with Some s => s | None => [] end) <->
                        In x (match t k with Some s => s | None => [] end) \/ (In k ks /\ In x (D k)).
Proof.
  induction ks as [|a ks IH]; intros t Hex; simpl.
  - exists t. split; auto. intros k. split; [tauto|]. intros x. tauto.
  - destruct (t a) as [s|] eqn:Ea; [|exfalso; apply (Hex a); simpl; auto].
    destruct (adds_one a (D a) t s Ea) as [t1 [s1 [H1 [H2 [H3 H4]]]]].
    destruct (IH t1) as [t' [H5 H6]].
    { intros k Hk. destruct (epkind_eqb k a) eqn:E.
      - apply epkind_eqb_eq in E. subst. congruence.
      - rewrite H4; [apply Hex; simpl; auto|]. intros ->. rewrite epkind_eqb_refl in E. discriminate. }
    exists t'. split; [rewrite apply_tx_app, H1; exact H5|].
    intros k. destruct (H6 k) as [H7 H8]. split.
    + rewrite H7. destruct (epkind_eqb k a) eqn:E.
      * apply epkind_eqb_eq in E. subst. rewrite H2, Ea. split; discriminate.
      * rewrite H4; [tauto|]. intros ->. rewrite epkind_eqb_refl in E. discriminate.
    + intros x. rewrite H8. destruct (epkind_eqb k a) eqn:E.
      * apply epkind_eqb_eq in E. subst. rewrite H2, Ea. rewrite H3. intuition.
      * assert (k <> a) by (intros ->; rewrite epkind_eqb_refl in E; discriminate).
        rewrite H4 by auto. intuition. subst. contradiction.
Qed.

(* ---------- FinishMapUpdates keeps the desired state ---------- *)
Lemma finish_one_keeps : forall s u,
  ms_all (finish_one s u) = ms_all s /\
  forall k, tr_des (get_or_create (finish_one s u) k) = tr_des (get_or_create s k).
Proof.
  intros s u. unfold finish_one. destruct (is_nil (u_adds u) && is_nil (u_dels u)); [split; auto|].
  split; [reflexivity|]. intros k. unfold get_or_create at 1. cbn [ms_trk]. unfold upd.
  destruct (epkind_eqb k (u_k u)) eqn:E; [|reflexivity].
  apply epkind_eqb_eq in E. subst. reflexivity.
Qed.

Lemma finish_fold_keeps : forall us s,
  ms_all (fold_left finish_one us s) = ms_all s /\
  forall k, tr_des (get_or_create (fold_left finish_one us s) k) = tr_des (get_or_create s k).
Proof.
  induction us as [|u us IH]; intros s.
  - simpl. split; auto.
  - simpl. destruct (IH (finish_one s u)) as [H1 H2]. destruct (finish_one_keeps s u) as [H3 H4].
    split; [congruence|]. intros k. rewrite H2. apply H4.
Qed.

Lemma finish_keeps : forall us s,
  ms_all (finish s us) = ms_all s /\
  forall k, tr_des (get_or_create (finish s us) k) = tr_des (get_or_create s k).
Proof.
  intros us s. destruct (finish_fold_keeps us s) as [H1 H2]. unfold finish. split; [exact H1|].
  intros k. rewrite <- H2. reflexivity.
Qed.

(* ---------- the recreate path ---------- *)
Definition synced (s : mstate) (kn : kernel) : Prop :=
  forall k, ms_all s k = true ->
    khas kn k = true /\ forall x, In x (kelems kn k) <-> In x (tr_des (get_or_create s k)).

Lemma get_or_create_invalidate : forall s k,
  tr_des (get_or_create (invalidate s) k) = tr_des (get_or_create s k) /\
  tr_dp (get_or_create (invalidate s) k) = [].
Proof.
  intros s k. destruct (invalidate_spec s) as [_ [_ H]]. unfold get_or_create. rewrite H.
  destruct (ms_trk s k); simpl; auto.
Qed.

Lemma flat_map_map : forall A B C (f : A -> B) (g : B -> list C) l,
  flat_map g (map f l) = flat_map (fun x => g (f x)) l.
Proof. induction l; simpl; auto. rewrite IHl. reflexivity. Qed.

Lemma flat_map_ext_in : forall A B (f g : A -> list B) l,
  (forall x, In x l -> f x = g x) -> flat_map f l = flat_map g l.
Proof.
  induction l; simpl; intros H; auto. rewrite H by auto. rewrite IHl; auto.
Qed.

Lemma flat_map_nil : forall A B (l : list A), flat_map (fun _ => @nil B) l = [].
Proof. induction l; simpl; auto. Qed.

Lemma flat_map_single : forall A B (f : A -> B) l, flat_map (fun x => [f x]) l = map f l.
Proof. induction l; simpl; auto; try (f_equal; auto). Qed.

(* The table-recreate transaction puts every desired map back WITH all its members, whatever the
   cached view was before (no hypothesis on the state or on the kernel). *)
Theorem recreate_restores : forall ts kn sc ts' kn' sc',
  t_recreate ts = true ->
  apply_updates ts kn sc = (true, ts', kn', sc') ->
  synced (t_m ts') kn' /\ t_recreate ts' = false /\
  (forall k, ms_all (t_m ts') k = ms_all (t_m ts) k) /\
  (forall k, tr_des (get_or_create (t_m ts') k) = tr_des (get_or_create (t_m ts) k)).
Proof.
  intros ts kn sc ts' kn' sc' Hrec H. unfold apply_updates in H. rewrite Hrec in H.
  destruct (pop (sc_run sc)) as [rf l1]. destruct rf; [inversion H|].
  set (m1 := invalidate (t_m ts)) in *.
  destruct (invalidate_spec (t_m ts)) as [Iall [Iprog Itrk]]. fold m1 in Iall, Iprog, Itrk.
  set (ks := filter (is_dirty_map m1) all_kinds) in *.
  set (D := fun k => tr_des (get_or_create m1 k)).
  assert (Hks : forall k, In k ks <-> ms_all m1 k = true).
  { intros k. unfold ks. rewrite filter_In. unfold is_dirty_map. rewrite Iprog. simpl.
    split; [intros [_ Hd]|intros Ha].
    - destruct (ms_all m1 k); auto. rewrite !andb_false_r in Hd. discriminate.
    - split; [apply in_all_kinds|]. rewrite Ha, andb_true_r. destruct (ms_dirty m1 k); reflexivity. }
  assert (Htx : tx_of true (t_hempty ts) (map_updates m1) =
                [TAddTable; TDelTable; TAddTable] ++ map TAddMap ks ++ flat_map (fun k => map (TAddElem k) (D k)) ks).
  { unfold tx_of, map_updates. fold ks. f_equal. rewrite !flat_map_map. cbn [u_create u_k u_dels u_adds].
    rewrite (flat_map_ext_in _ _ _ (fun k => [TAddMap k]) ks) by (intros k _; rewrite Iprog; reflexivity).
    rewrite flat_map_single.
    rewrite (flat_map_ext_in _ _ _ (fun _ => []) ks).
    2:{ intros k _. destruct (get_or_create_invalidate (t_m ts) k) as [_ Hd]. fold m1 in Hd. rewrite Hd. reflexivity. }
    rewrite flat_map_nil. simpl. f_equal.
    apply flat_map_ext_in. intros k _. destruct (get_or_create_invalidate (t_m ts) k) as [_ Hd]. fold m1 in Hd.
    rewrite Hd, ndiff_nil_r. reflexivity. }
  rewrite Htx in H. rewrite apply_tx_app, recreate_prefix in H. cbv beta iota in H.
  destruct (creates_effect ks empty_table) as [t1 [C1 C2]]. unfold empty_table in C2.
  rewrite apply_tx_app, C1 in H. cbv beta iota in H.
  destruct (adds_effect D ks t1) as [t2 [A1 A2]].
  { intros k Hk. rewrite C2. apply existsb_kind in Hk. rewrite Hk. discriminate. }
  match type of H with context [apply_tx ?a ?b] => replace (apply_tx a b) with (Some (Some t2)) in H by (symmetry; exact A1) end.
  inversion H; subst ts' kn' sc'. clear H. cbn [t_m t_recreate].
  destruct (finish_keeps (map_updates m1) m1) as [F1 F2].
  split; [|split; [reflexivity|split]].
  - intros k Hall. rewrite F1 in Hall. destruct (A2 k) as [N E].
    assert (Hin : In k ks) by (apply Hks; auto).
    assert (T1 : t1 k = Some []) by (rewrite C2; apply existsb_kind in Hin; rewrite Hin; reflexivity).
    split.
    + assert (NN : t2 k <> None) by (intros E2; apply N in E2; congruence).
      unfold khas. destruct (t2 k); congruence.
    + intros x. unfold kelems. rewrite E, T1, F2. unfold D. simpl. tauto.
  - intros k. rewrite F1, Iall. reflexivity.
  - intros k. rewrite F2. apply get_or_create_invalidate.
Qed.

(* ---------- from the kernel's map contents to the dispatch verdict ---------- *)
Lemma kernel_vmap_dispatch : forall k elems names pk,
  (forall x, In x elems <-> In x names) ->
  eval 42 (vmap_ruleset k (map (fun n => (n, AGoto (CEp k n))) (sort_names elems))) pk (CRoot k) =
  spec_workload false k names (pkt_if (kind_dir k) pk).
Proof.
  intros k elems names pk H. unfold eval, vmap_ruleset, build_vmap. cbn [rs_chains].
  simpl find_chain. rewrite epkind_eqb_refl.
  simpl chains_size.
  replace (2 * 3 + 2)%nat with (S (S 6)) by reflexivity. generalize 6%nat as g. intros g.
  cbn [run rs_maps]. simpl find_map. rewrite epkind_eqb_refl.
  rewrite vmap_lookup_mapping.
  assert (mem (pkt_if (kind_dir k) pk) (sort_names elems) = mem (pkt_if (kind_dir k) pk) names) as ->.
  { apply mem_ext. intros n. rewrite sort_names_In. apply H. }
  unfold spec_workload. destruct (mem (pkt_if (kind_dir k) pk) names); reflexivity.
Qed.

(* Composition: once the kernel's map equals the desired mapping, nftables workload dispatch over the
   kernel's map is exact and fails closed (same verdict as c10_known_iface_own_chain / c10_unknown_dropped). *)
Theorem synced_dispatch_exact : forall s kn k names pk,
  synced s kn -> ms_all s k = true ->
  (forall x, In x (tr_des (get_or_create s k)) <-> In x names) ->
  khas kn k = true /\
  eval 42 (vmap_ruleset k (map (fun n => (n, AGoto (CEp k n))) (sort_names (kelems kn k)))) pk (CRoot k) =
  spec_workload false k names (pkt_if (kind_dir k) pk).
Proof.
  intros s kn k names pk HS Hall Hdes. destruct (HS k Hall) as [H1 H2]. split; auto.
  apply kernel_vmap_dispatch. intros x. rewrite H2. apply Hdes.
Qed.

(* ---------- the retry loop once a table recreate is pending ---------- *)
Definition same_desired (a b : mstate) : Prop :=
  (forall k, ms_all a k = ms_all b k) /\
  (forall k, tr_des (get_or_create a k) = tr_des (get_or_create b k)).

Lemma apply_updates_fail_recreate : forall ts kn sc ts' kn' sc',
  t_recreate ts = true -> apply_updates ts kn sc = (false, ts', kn', sc') ->
  t_recreate ts' = true /\ t_insync ts' = t_insync ts /\ kn' = kn /\ same_desired (t_m ts') (t_m ts).
Proof.
  intros ts kn sc ts' kn' sc' Hrec H. unfold apply_updates in H. rewrite Hrec in H.
  destruct (pop (sc_run sc)) as [rf l1].
  destruct (if rf then None else apply_tx kn _); inversion H; subst. cbn [t_recreate t_insync t_m].
  split; [reflexivity|split; [reflexivity|split; [reflexivity|split]]].
  - intros k. destruct (invalidate_spec (t_m ts)) as [Ia _]. rewrite Ia. reflexivity.
  - intros k. apply get_or_create_invalidate.
Qed.

(* From the moment a recreate is pending (which is when at most 5 retries are left), whatever then
   fails and however often: if Apply() returns at all, the kernel holds every desired map with exactly
   its desired members, and the desired state is the one Apply() was called with. *)
Theorem apply_loop_recreate : forall retries ts kn sc runs loads,
  (retries < 6)%nat -> t_recreate ts = true -> t_insync ts = true ->
  a_ok (apply_loop retries ts kn sc runs loads) = true ->
  synced (t_m (a_ts (apply_loop retries ts kn sc runs loads))) (a_kn (apply_loop retries ts kn sc runs loads))
  /\ same_desired (t_m (a_ts (apply_loop retries ts kn sc runs loads))) (t_m ts).
Proof.
  induction retries as [|r IH]; intros ts kn sc runs loads Hr Hrec Hsync Hok.
  - simpl in *. rewrite Hsync in *.
    destruct (apply_updates ts kn sc) as [[[ok ts2] kn2] sc2] eqn:E. destruct ok.
    + cbn in *. destruct (recreate_restores _ _ _ _ _ _ Hrec E) as [H1 [_ [H2 H3]]]. split; auto. split; auto.
    + cbn in Hok. discriminate.
  - cbn [apply_loop] in *. rewrite Hsync in *.
    destruct (apply_updates ts kn sc) as [[[ok ts2] kn2] sc2] eqn:E. destruct ok.
    + cbn in *. destruct (recreate_restores _ _ _ _ _ _ Hrec E) as [H1 [_ [H2 H3]]]. split; auto. split; auto.
    + destruct (apply_updates_fail_recreate _ _ _ _ _ _ Hrec E) as [R2 [S2 [-> [D1 D2]]]].
      assert (Nat.ltb (S r) 6 = true) as Hlt by (apply Nat.ltb_lt; lia).
      rewrite Hlt in *. unfold queue_recreate in *. rewrite R2 in *.
      destruct (IH ts2 kn sc2 (S runs) loads) as [I1 [I2 I3]]; auto; try lia; try congruence.
      split; auto. split; intros k; [rewrite I2; apply D1|rewrite I3; apply D2].
Qed.
