(* C10 — executable model of felix/rules/dispatch.go:
     sortAndDivideEndpointNamesToPrefixTree, buildSingleDispatchChains(Tree|VMAP),
     interfaceNameDispatchChains, WorkloadDispatchChains, DispatchMappings,
     hostDispatchChains (HostDispatchChains / FromHostDispatchChains / ToHostDispatchChains)
   and felix/stringutils.CommonPrefix.  Definitions only (no proofs) so that the model
   still runs when a proof breaks.  Tied to the Go code by the correspondence run. *)
From Coq Require Import List NArith Bool Arith.
From Verif.C10 Require Import Nf.
Import ListNotations.
Open Scope N_scope.

(* ---- renderer configuration (rules.Config + the nft flag of NewRenderer) ---- *)
Record cfg := { cf_nft : bool;            (* nftables renderer? *)
                cf_reject : bool;         (* FilterDenyAction = "REJECT" *)
                cf_wlpfx : list name }.   (* WorkloadIfacePrefixes *)

(* iptables.Wildcard = "+", nftables.Wildcard = "*" *)
Definition wildcard (c : cfg) : N := if cf_nft c then 42 else 43.
Definition deny_action (c : cfg) : action := if cf_reject c then AReject else ADrop.

(* ---- sort.Strings: bytewise lexicographic order ---- *)
Fixpoint lex_leb (a b : name) : bool :=
  match a, b with
  | [], _ => true
  | _ :: _, [] => false
  | x :: a', y :: b' => if N.ltb x y then true else if N.eqb x y then lex_leb a' b' else false
  end.

Fixpoint insert_sorted (n : name) (l : list name) : list name :=
  match l with
  | [] => [n]
  | m :: l' => if lex_leb n m then n :: l else m :: insert_sorted n l'
  end.

(* any correct sort gives the same sequence (the order is total and equal strings are identical) *)
Definition sort_names (l : list name) : list name := fold_right insert_sorted [] l.

(* ---- stringutils.CommonPrefix ---- *)
Fixpoint common_prefix2 (a b : name) : name :=
  match a, b with
  | x :: a', y :: b' => if N.eqb x y then x :: common_prefix2 a' b' else []
  | _, _ => []
  end.

Definition common_prefix (l : list name) : name :=
  match l with
  | [] => []
  | a :: r => fold_left common_prefix2 r a
  end.

(* ---- sortAndDivideEndpointNamesToPrefixTree ---- *)
(* prefix := commonPrefix; if len(name) > len(commonPrefix) { prefix = name[:len(commonPrefix)+1] } *)
Definition key (cp n : name) : name :=
  if Nat.ltb (length cp) (length n) then firstn (S (length cp)) n else cp.

(* prefixes (first-seen order) + prefixToNames as one association list *)
Definition groups := list (name * list name).

Fixpoint add_group (k n : name) (gs : groups) : groups :=
  match gs with
  | [] => [(k, [n])]
  | (k', ns) :: gs' => if name_eqb k k' then (k', ns ++ [n]) :: gs' else (k', ns) :: add_group k n gs'
  end.

(* the loop over the sorted names; None = log.Panic on an empty interface name *)
Fixpoint divide_loop (cp last : name) (l : list name) (acc : groups) : option groups :=
  match l with
  | [] => Some acc
  | n :: l' =>
      match n with
      | [] => None
      | _ => if name_eqb n last then divide_loop cp last l' acc
             else divide_loop cp n l' (add_group (key cp n) n acc)
      end
  end.

Definition divide (names : list name) : option (name * groups) :=
  let sorted := sort_names names in
  let cp := common_prefix sorted in
  match divide_loop cp [] sorted [] with
  | Some gs => Some (cp, gs)
  | None => None
  end.

(* ---- buildSingleDispatchChainTree ---- *)
Definition ep_rule (k : epkind) (n : name) : rule :=
  Rule (MIface (kind_dir k) n) (AGoto (CEp k n)).

(* childChainName = chainName + infix + "-" + prefix[len(commonPrefix):].  The child id is what follows
   "<chainName>-": ix ++ nextChar with ix = "" (no infix) or "wep-" / "hep-" (infix "-wep" / "-hep"). *)
Definition child_id (ix : name) (k : epkind) (cp p : name) : cid := CChild k (ix ++ skipn (length cp) p).

Definition is_multi (ns : list name) : bool := Nat.ltb 1 (length ns).

Definition child_chains (ix : name) (k : epkind) (cp : name) (gs : groups) (E : list rule) : list (cid * list rule) :=
  flat_map (fun g => if is_multi (snd g)
                     then [(child_id ix k cp (fst g), map (ep_rule k) (snd g) ++ E)]
                     else []) gs.

Definition root_rule (wc : N) (ix : name) (k : epkind) (cp : name) (g : name * list name) : list rule :=
  if is_multi (snd g)
  then [Rule (MIface (kind_dir k) (fst g ++ [wc])) (AGoto (child_id ix k cp (fst g)))]
  else match snd g with
       | n :: _ => [ep_rule k n]
       | [] => []                  (* ifaceNames[0] on an empty slice: cannot happen, see Proofs *)
       end.

(* child chains first, then the root chain, as interfaceNameDispatchChains appends them *)
Definition build_tree (wc : N) (ix : name) (k : epkind) (cp : name) (gs : groups) (E : list rule)
  : list (cid * list rule) :=
  child_chains ix k cp gs E ++ [(CRoot k, flat_map (root_rule wc ix k cp) gs ++ E)].

(* ---- buildSingleDispatchChainsVMAP ---- *)
Definition build_vmap (k : epkind) (E : list rule) : list (cid * list rule) :=
  [(CRoot k, RVmap (kind_dir k) k :: E)].

Definition is_wl_kind (k : epkind) : bool :=
  match k with KWlFrom | KWlTo => true | _ => false end.

(* ---- buildSingleDispatchChains ---- *)
Definition build_single (c : cfg) (k : epkind) (cp : name) (gs : groups) (E : list rule) :=
  if cf_nft c && is_wl_kind k then build_vmap k E else build_tree (wildcard c) [] k cp gs E.

(* ---- interfaceNameDispatchChains ---- *)
Definition iface_dispatch (c : cfg) (names : list name) (fromk tok : option epkind)
           (fromE toE : list rule) : option (list (cid * list rule)) :=
  match divide names with
  | None => None
  | Some (cp, gs) =>
      Some ((match fromk with Some k => build_single c k cp gs fromE | None => [] end)
            ++ (match tok with Some k => build_single c k cp gs toE | None => [] end))
  end.

(* ---- DispatchMappings: Go map name -> "goto <endpoint chain>", listed in key order ---- *)
Fixpoint dedupe_adjacent (last : name) (l : list name) : list name :=
  match l with
  | [] => []
  | n :: l' => if name_eqb n last then dedupe_adjacent last l' else n :: dedupe_adjacent n l'
  end.

Definition map_keys (names : list name) : list name :=
  match sort_names names with
  | [] => []
  | n :: l => n :: dedupe_adjacent n l
  end.

Definition dispatch_mapping (k : epkind) (names : list name) : vmap :=
  map (fun n => (n, AGoto (CEp k n))) (map_keys names).

(* ---- WorkloadDispatchChains (+ the verdict maps the nftables dataplane programs) ---- *)
Definition workload_dispatch (c : cfg) (names : list name) : option ruleset :=
  let E := [Rule MAny (deny_action c)] in
  match iface_dispatch c names (Some KWlFrom) (Some KWlTo) E E with
  | None => None
  | Some chains =>
      Some {| rs_chains := chains;
              rs_maps := if cf_nft c
                         then [(KWlFrom, dispatch_mapping KWlFrom names); (KWlTo, dispatch_mapping KWlTo names)]
                         else [] |}
  end.

(* ---- hostDispatchChains ---- *)
Inductive hmode :=
| HBoth (applyOnForward : bool)   (* HostDispatchChains *)
| HFrom                           (* FromHostDispatchChains *)
| HTo.                            (* ToHostDispatchChains *)

Definition mode_aof (m : hmode) : bool := match m with HBoth b => b | _ => false end.

Definition default_goto (k : epkind) (dflt : name) : list rule :=
  match dflt with [] => [] | _ => [Rule MAny (AGoto (CEp k dflt))] end.

Definition host_to_end (c : cfg) (dflt : name) (aof : bool) : list rule :=
  match dflt with
  | [] => []
  | _ => (if aof then []
          else map (fun p => Rule (MIface DOut (p ++ [wildcard c])) AReturn) (cf_wlpfx c))
         ++ [Rule MAny (AGoto (CEp KHostTo dflt))]
  end.

Definition opt_app {A} (a b : option (list A)) : option (list A) :=
  match a, b with Some x, Some y => Some (x ++ y) | _, _ => None end.

Definition host_dispatch_chains (c : cfg) (names : list name) (dflt : name) (m : hmode)
  : option (list (cid * list rule)) :=
  let fromE := default_goto KHostFrom dflt in
  let toE := host_to_end c dflt (mode_aof m) in
  match m with
  | HFrom => iface_dispatch c names (Some KHostFrom) None fromE toE
  | HTo => iface_dispatch c names None (Some KHostTo) fromE toE
  | HBoth false => iface_dispatch c names (Some KHostFrom) (Some KHostTo) fromE toE
  | HBoth true =>
      opt_app (iface_dispatch c names (Some KHostFrom) (Some KHostTo) fromE toE)
              (iface_dispatch c names (Some KHostFromFwd) (Some KHostToFwd)
                              (default_goto KHostFromFwd dflt) (default_goto KHostToFwd dflt))
  end.

Definition host_dispatch (c : cfg) (names : list name) (dflt : name) (m : hmode) : option ruleset :=
  match host_dispatch_chains c names dflt m with
  | None => None
  | Some chains => Some {| rs_chains := chains; rs_maps := [] |}
  end.

(* ---- endpointMarkDispatchChains, the cali-set-endpoint-mark chain (kube-proxy IPVS mode) ----
   Workload and host endpoint names are divided separately (child chains "<root>-wep-<c>" / "<root>-hep-<c>",
   built with NO end rules), their root rules are concatenated, then one "Unknown endpoint" deny rule per
   workload interface prefix, then the non-Calico endpoint mark.  (The cali-from-endpoint-mark chain, which
   matches on marks allocated by the EndpointMarkMapper, is not modelled.) *)
Definition ix_wep : name := [119;101;112;45].   (* "wep-" *)
Definition ix_hep : name := [104;101;112;45].   (* "hep-" *)

Definition sm_part (c : cfg) (ix : name) (names : list name) : option (list (cid * list rule) * list rule) :=
  match names with
  | [] => Some ([], [])
  | _ => match divide names with
         | None => None
         | Some (cp, gs) => Some (child_chains ix KSetMark cp gs [], flat_map (root_rule (wildcard c) ix KSetMark cp) gs)
         end
  end.

Definition sm_tail (c : cfg) (mark mask : N) : list rule :=
  map (fun p => Rule (MIface DIn (p ++ [wildcard c])) (deny_action c)) (cf_wlpfx c)
  ++ [Rule MAny (ASetMark mark mask)].

Definition set_mark_dispatch (c : cfg) (wl hep : list name) (mark mask : N) : option ruleset :=
  match sm_part c ix_wep wl, sm_part c ix_hep hep with
  | Some (cw, rw), Some (ch, rh) =>
      Some {| rs_chains := cw ++ ch ++ [(CRoot KSetMark, rw ++ rh ++ sm_tail c mark mask)]; rs_maps := [] |}
  | _, _ => None
  end.
