(* C10 — property theorems only.  Each is closed by `exact <lemma>` (or by computation for the
   examples) and followed by Print Assumptions.
   Reading guide: `workload_dispatch c names` / `host_dispatch c names dflt m` are the models of
   WorkloadDispatchChains(+DispatchMappings) / hostDispatchChains for renderer configuration c
   (cf_nft c = nftables renderer with verdict maps, otherwise the iptables prefix tree);
   `eval wc rs pk (CRoot k)` runs packet pk through dispatch chain k of rule set rs in the abstract
   netfilter machine whose wildcard byte is wc; `pkt_if (kind_dir k) pk` is the interface that
   chain looks at (incoming for "from" chains, outgoing for "to" chains);
   `names_ok wc names` says every name is non-empty and does not end in the wildcard byte. *)
From Coq Require Import List NArith Bool Arith.
From Verif.C10 Require Import Nf Model Spec Proofs SetMark MapsModel MapsSpec MapsProofs MapsInv.
Import ListNotations.
Open Scope N_scope.

(* A rendered "prefix<wildcard>" pattern matches exactly the names that start with prefix. *)
Theorem c10_wildcard_pattern_is_prefix_match : forall wc p i,
  pat_matches wc (p ++ [wc]) i = is_prefix p i.
Proof. exact pat_wild. Qed.
Print Assumptions c10_wildcard_pattern_is_prefix_match.

(* For ANY list of names (duplicates, shared prefixes, names that are prefixes of others, ...) and
   ANY packet: workload dispatch hands the packet to an endpoint chain (k', n) iff that is the chain
   of the dispatch chain's own kind for the packet's interface and that interface is in the set.
   Holds for both renderers. *)
Theorem c10_known_iface_own_chain : forall c names rs,
  names_ok (sem_wildcard (cf_nft c)) names = true ->
  workload_dispatch c names = Some rs ->
  forall pk k, is_wl_kind k = true -> forall k' n,
    eval (sem_wildcard (cf_nft c)) rs pk (CRoot k) = REndpoint k' n <->
    (k' = k /\ n = pkt_if (kind_dir k) pk /\ In n names).
Proof. exact known_iface_own_chain. Qed.
Print Assumptions c10_known_iface_own_chain.

(* Fail closed: a packet whose interface is not in the set (in particular one that merely matches a
   workload interface prefix) meets the configured deny action, whatever else is in the set. *)
Theorem c10_unknown_dropped : forall c names rs,
  names_ok (sem_wildcard (cf_nft c)) names = true ->
  workload_dispatch c names = Some rs ->
  forall pk k, is_wl_kind k = true -> ~ In (pkt_if (kind_dir k) pk) names ->
    eval (sem_wildcard (cf_nft c)) rs pk (CRoot k) = deny_result (cf_reject c).
Proof. exact unknown_dropped. Qed.
Print Assumptions c10_unknown_dropped.

(* Host dispatch, full characterisation (HostDispatchChains / FromHostDispatchChains /
   ToHostDispatchChains): the verdict is exactly Spec.spec_host. *)
Theorem c10_host_dispatch_spec : forall c names dflt m rs,
  names_ok (sem_wildcard (cf_nft c)) names = true ->
  host_dispatch c names dflt m = Some rs ->
  forall pk k, In k (roots (CHost dflt m)) ->
    eval (sem_wildcard (cf_nft c)) rs pk (CRoot k) =
    spec_host k names dflt (match k with KHostTo => negb (mode_aof m) | _ => false end)
              (cf_wlpfx c) (pkt_if (kind_dir k) pk).
Proof. exact host_dispatch_spec. Qed.
Print Assumptions c10_host_dispatch_spec.

(* The only endpoint chains host dispatch can reach are the interface's own chain (known interface)
   or the default chain, and the latter only when a default (wildcard HEP) is configured. *)
Theorem c10_host_default_only_when_configured : forall c names dflt m rs,
  names_ok (sem_wildcard (cf_nft c)) names = true ->
  host_dispatch c names dflt m = Some rs ->
  forall pk k, In k (roots (CHost dflt m)) -> forall k' n,
    eval (sem_wildcard (cf_nft c)) rs pk (CRoot k) = REndpoint k' n ->
    k' = k /\ ((n = pkt_if (kind_dir k) pk /\ In n names)
               \/ (n = dflt /\ dflt <> [] /\ ~ In (pkt_if (kind_dir k) pk) names)).
Proof. exact host_default_only_when_configured. Qed.
Print Assumptions c10_host_default_only_when_configured.

Theorem c10_host_no_default_returns : forall c names m rs,
  names_ok (sem_wildcard (cf_nft c)) names = true ->
  host_dispatch c names [] m = Some rs ->
  forall pk k, In k (roots (CHost [] m)) -> ~ In (pkt_if (kind_dir k) pk) names ->
    eval (sem_wildcard (cf_nft c)) rs pk (CRoot k) = RReturn.
Proof. exact host_no_default_returns. Qed.
Print Assumptions c10_host_no_default_returns.

(* The nftables verdict-map variant and the iptables prefix-tree variant give the same verdict
   for every packet. *)
Theorem c10_vmap_same : forall cn ci names rsn rsi,
  cf_nft cn = true -> cf_nft ci = false -> cf_reject cn = cf_reject ci ->
  names_ok 42 names = true -> names_ok 43 names = true ->
  workload_dispatch cn names = Some rsn -> workload_dispatch ci names = Some rsi ->
  forall pk k, is_wl_kind k = true ->
    eval 42 rsn pk (CRoot k) = eval 43 rsi pk (CRoot k).
Proof. exact vmap_same. Qed.
Print Assumptions c10_vmap_same.

(* The specification oracle used on the implementation's output accepts every run of the model
   (any configuration, any names incl. out-of-domain ones, any probes) - for workload and host dispatch.
   For the set-endpoint-mark chain the statement is FALSE (c10_setmark_unknown_fallthrough_refuted below). *)
Theorem c10_model_meets_spec : forall c, is_setmark (c_kind c) = false -> c_impl c = model_of c -> ok_case c = true.
Proof. exact model_meets_spec. Qed.
Print Assumptions c10_model_meets_spec.

(* The model panics (as the Go code does) only on an empty interface name. *)
Theorem c10_panic_only_on_empty_name : forall names,
  divide names = None -> existsb is_empty names = true.
Proof. exact divide_none_empty. Qed.
Print Assumptions c10_panic_only_on_empty_name.

(* ---- the hypotheses are satisfiable by a non-trivial set: cali, cali1, cali12, cali2, cali1 (dup) ---- *)
Definition ex_names : list name :=
  [[99;97;108;105;49]; [99;97;108;105]; [99;97;108;105;49;50]; [99;97;108;105;50]; [99;97;108;105;49]].
Definition ex_cfg (nft : bool) : cfg := {| cf_nft := nft; cf_reject := false; cf_wlpfx := [[99;97;108;105]] |}.
Definition ex_pk (i : name) : packet := {| p_in := i; p_out := [122] |}.

Example c10_example_tree :
  names_ok 43 ex_names = true /\ names_ok 42 ex_names = true /\
  match workload_dispatch (ex_cfg false) ex_names with
  | Some rs => length (rs_chains rs) = 4%nat  (* a child chain "-1" for cali1/cali12 in each direction *)
               /\ eval 43 rs (ex_pk [99;97;108;105;49;50]) (CRoot KWlFrom) = REndpoint KWlFrom [99;97;108;105;49;50]
               /\ eval 43 rs (ex_pk [99;97;108;105;49;51]) (CRoot KWlFrom) = RDrop
               /\ eval 43 rs (ex_pk [99;97;108]) (CRoot KWlFrom) = RDrop
  | None => False
  end.
Proof. vm_compute. repeat split; reflexivity. Qed.

Example c10_example_host :
  match host_dispatch (ex_cfg false) ex_names [42] (HBoth false) with
  | Some rs => eval 43 rs {| p_in := [122]; p_out := [101;116;104;48] |} (CRoot KHostTo) = REndpoint KHostTo [42]
               /\ eval 43 rs {| p_in := [122]; p_out := [99;97;108;105;57] |} (CRoot KHostTo) = RReturn
  | None => False
  end.
Proof. vm_compute. split; reflexivity. Qed.

(* Domain boundary: the restriction "no name ends in the wildcard byte" is necessary.  With the single
   name "a+" the iptables rule "--in-interface a+" also captures interface "ab".  (Such names cannot
   reach Felix: the v3 validator only admits [a-zA-Z0-9_.-]{1,15}.) *)
Theorem c10_trailing_wildcard_refuted :
  exists names rs pk, workload_dispatch (ex_cfg false) names = Some rs /\
    ~ In (p_in pk) names /\ eval 43 rs pk (CRoot KWlFrom) = REndpoint KWlFrom [97;43].
Proof.
  exists [[97;43]]. eexists. exists (ex_pk [97;98]). split; [vm_compute; reflexivity|].
  split; [|vm_compute; reflexivity]. simpl. intros [H|[]]. discriminate.
Qed.
Print Assumptions c10_trailing_wildcard_refuted.

(* ======================= set-endpoint-mark dispatch (EndpointMarkDispatchChains, IPVS mode) =======================
   Model: Model.set_mark_dispatch (workload and host endpoint names divided separately, child chains
   "cali-set-endpoint-mark-wep-<c>" / "-hep-<c>" built WITHOUT end rules, root = wl root rules ++ hep root rules ++
   "Unknown endpoint" deny per workload prefix ++ non-Calico endpoint mark).  `captured gs i`: interface i matches the
   "prefix<wildcard> -> goto child" rule of a bin with a child chain. *)

(* exact verdict for every packet *)
Theorem c10_setmark_dispatch_exact : forall c wl hep mk msk,
  names_ok (sem_wildcard (cf_nft c)) wl = true -> names_ok (sem_wildcard (cf_nft c)) hep = true ->
  exists rs, set_mark_dispatch c wl hep mk msk = Some rs /\
    forall pk,
      eval (sem_wildcard (cf_nft c)) rs pk (CRoot KSetMark) =
      if mem (p_in pk) wl then REndpoint KSetMark (p_in pk)
      else if captured (snd (sm_groups wl)) (p_in pk) then RReturn
      else if mem (p_in pk) hep then REndpoint KSetMark (p_in pk)
      else if captured (snd (sm_groups hep)) (p_in pk) then RReturn
      else if existsb (fun p => is_prefix p (p_in pk)) (cf_wlpfx c) then deny_result (cf_reject c)
      else RReturnMarked mk msk.
Proof. exact setmark_char. Qed.
Print Assumptions c10_setmark_dispatch_exact.

(* what the property says (known interface -> own chain; unknown interface with a workload prefix -> denied;
   everything else -> non-Calico mark) holds for every packet that no foreign child chain captures *)
Theorem c10_setmark_meets_spec_unless_captured : forall c wl hep mk msk rs pk,
  names_ok (sem_wildcard (cf_nft c)) wl = true -> names_ok (sem_wildcard (cf_nft c)) hep = true ->
  set_mark_dispatch c wl hep mk msk = Some rs ->
  (mem (p_in pk) wl = true \/ captured (snd (sm_groups wl)) (p_in pk) = false) ->
  (mem (p_in pk) wl = true \/ mem (p_in pk) hep = true \/ captured (snd (sm_groups hep)) (p_in pk) = false) ->
  eval (sem_wildcard (cf_nft c)) rs pk (CRoot KSetMark) =
  spec_setmark (cf_reject c) (cf_wlpfx c) wl hep mk msk (p_in pk).
Proof. exact setmark_meets_spec_unless_captured. Qed.
Print Assumptions c10_setmark_meets_spec_unless_captured.

(* FINDING (known-findings.txt key setmark-child-no-end-rules): fail-closed is FALSE for this chain.  Workloads
   cali11, cali12, cali2 known; a packet from the unknown interface cali13 matches "cali1+ -> goto child", finds no rule in
   the child (which has no end rules) and returns to the caller unmarked instead of meeting the "Unknown endpoint"
   drop.  Replayed on the real renderer by the correspondence run (cases tagged setmark:unknown-probe-captured-by-child). *)
Theorem c10_setmark_unknown_fallthrough_refuted :
  exists c wl hep mk msk rs pk,
    names_ok 43 wl = true /\ set_mark_dispatch c wl hep mk msk = Some rs /\
    mem (p_in pk) (wl ++ hep) = false /\ existsb (fun p => is_prefix p (p_in pk)) (cf_wlpfx c) = true /\
    eval 43 rs pk (CRoot KSetMark) = RReturn /\
    spec_setmark (cf_reject c) (cf_wlpfx c) wl hep mk msk (p_in pk) = RDrop.
Proof.
  exists (ex_cfg false), [[99;97;108;105;49;49]; [99;97;108;105;49;50]; [99;97;108;105;50]], [], 256, 65280.
  eexists. exists (ex_pk [99;97;108;105;49;51]).
  split; [reflexivity|split; [vm_compute; reflexivity|]]. repeat split; vm_compute; reflexivity.
Qed.
Print Assumptions c10_setmark_unknown_fallthrough_refuted.

(* ======================= chain names ======================= *)
(* chain ids -> chain names ("<root>", "<root>-<child id>") is injective: two different chains of the dispatch
   trees never get the same name (what a name-keyed table would silently merge). *)
Theorem c10_chain_name_injective : forall c c' n, chain_name c = Some n -> chain_name c' = Some n -> c = c'.
Proof. exact chain_name_inj. Qed.
Print Assumptions c10_chain_name_injective.

Theorem c10_tree_chain_names_distinct : forall wc ix k cp gs E, good_groups cp gs ->
  NoDup (map chain_name (map fst (build_tree wc ix k cp gs E))).
Proof. exact tree_names_distinct. Qed.
Print Assumptions c10_tree_chain_names_distinct.

Theorem c10_workload_chain_names_distinct : forall c names rs,
  names_ok (sem_wildcard (cf_nft c)) names = true -> cf_nft c = false ->
  workload_dispatch c names = Some rs ->
  NoDup (map chain_name (map fst (rs_chains rs))).
Proof. exact workload_chain_names_distinct. Qed.
Print Assumptions c10_workload_chain_names_distinct.

(* ======================= part 2: programming the nftables dispatch verdict maps =======================
   Model: MapsModel.v (felix/nftables/maps.go Maps + the Apply/retry/recreate loop of table.go, against an
   abstract kernel table whose transactions fail atomically).  `synced s kn`: every desired map exists in the
   kernel kn and holds exactly its desired members. *)

(* FULL STRENGTH.  `reach ts kn` (MapsInv.v): the states Felix can be in - the kernel starts without the table,
   dispatch maps are set with AddOrReplaceMap(DispatchMappings(names)), Apply() is called under arbitrary
   schedules of failed transactions, failed ListAll and failed element listings, and returns.  The two
   hypotheses are built into `reach`: (1) the kernel table changes only through Felix's own transactions,
   which apply atomically or not at all; (2) it starts absent (no maps).  Conclusion: whenever Apply() returns
   - within its first attempts or after a table recreate - every desired dispatch map is in the kernel with
   exactly its desired members, and the desired state is the one Apply() was called with.
   Proof: invariant TINV (member-tracker dataplane view = kernel contents, duplicate free; programmed-metadata
   view <= kernel maps; an out-of-sync desired map is dirty or absent from the metadata view; the table exists
   when the hash cache is non-empty) carried through AddOrReplaceMap, all outcomes of LoadDataplaneState
   (ListAll fails / an element listing fails / success), InvalidateMapsCache, the transaction and
   FinishMapUpdates, and the retry loop.  A by-product (tx_core): from such a state the transaction never fails
   on its own, only by injected failure. *)
Theorem c10_maps_sync_exact : forall ts kn sc, reach ts kn ->
  a_ok (apply_table ts kn sc) = true ->
  synced (t_m (a_ts (apply_table ts kn sc))) (a_kn (apply_table ts kn sc)) /\
  same_des_on (t_m (a_ts (apply_table ts kn sc))) (t_m ts).
Proof. exact maps_sync_exact. Qed.
Print Assumptions c10_maps_sync_exact.

(* The same from ANY state in which the invariant holds, and the invariant is re-established ... *)
Theorem c10_maps_sync_exact_from_invariant : forall ts kn sc, TINV ts kn -> t_recreate ts = false ->
  a_ok (apply_table ts kn sc) = true ->
  synced (t_m (a_ts (apply_table ts kn sc))) (a_kn (apply_table ts kn sc)) /\
  same_des_on (t_m (a_ts (apply_table ts kn sc))) (t_m ts) /\
  TINV (a_ts (apply_table ts kn sc)) (a_kn (apply_table ts kn sc)).
Proof. exact maps_sync_exact_from_inv. Qed.
Print Assumptions c10_maps_sync_exact_from_invariant.

(* ... which is what an ARBITRARY starting table needs: the Maps part of a resync whose listings all succeed
   establishes the views-agree invariant whatever the kernel holds (each map lists a key once) and whatever
   the cached views were.  (Before the first such resync nothing is claimed: a leftover table plus a failed
   element listing on the very first resync is outside these theorems.) *)
Theorem c10_maps_resync_establishes_invariant : forall s kn, WINV s kn ->
  let s3 := fold_left load_unseen all_kinds (fold_left (load_one kn) (klisted kn)
              {| ms_all := ms_all s; ms_progdp := kempty; ms_trk := ms_trk s; ms_dirty := ms_dirty s |}) in
  MINV s3 kn /\ WINV s3 kn /\ same_des_on s3 s.
Proof. exact resync_establishes. Qed.
Print Assumptions c10_maps_resync_establishes_invariant.

(* Composed corollary: after any reachable history, when Apply() returns, the nftables workload dispatch chain
   evaluated over the KERNEL's verdict map sends every known interface to its own chain and drops the rest. *)
Theorem c10_maps_history_dispatch_exact : forall ts kn sc k names pk, reach ts kn ->
  ms_all (t_m ts) k = true ->
  (forall x, In x (tr_des (get_or_create (t_m ts) k)) <-> In x names) ->
  a_ok (apply_table ts kn sc) = true ->
  let kn' := a_kn (apply_table ts kn sc) in
  khas kn' k = true /\
  eval 42 (vmap_ruleset k (map (fun n => (n, AGoto (CEp k n))) (sort_names (kelems kn' k)))) pk (CRoot k) =
  spec_workload false k names (pkt_if (kind_dir k) pk).
Proof. exact maps_history_dispatch_exact. Qed.
Print Assumptions c10_maps_history_dispatch_exact.

(* AddOrReplaceMap(k, DispatchMappings(names)) makes `names` the desired content of map k (premise of the corollary). *)
Theorem c10_maps_set_desired : forall ts k names,
  ms_all (t_m (set_map ts k names)) k = true /\
  forall x, In x (tr_des (get_or_create (t_m (set_map ts k names)) k)) <-> In x names.
Proof. exact set_map_desired. Qed.
Print Assumptions c10_maps_set_desired.

(* The recreate stage on its own needs no invariant at all (any cached state, any kernel contents). *)
Theorem c10_maps_recreate_loop : forall retries ts kn sc runs loads,
  (retries < 6)%nat -> t_recreate ts = true -> t_insync ts = true ->
  a_ok (apply_loop retries ts kn sc runs loads) = true ->
  synced (t_m (a_ts (apply_loop retries ts kn sc runs loads))) (a_kn (apply_loop retries ts kn sc runs loads))
  /\ same_desired (t_m (a_ts (apply_loop retries ts kn sc runs loads))) (t_m ts).
Proof. exact apply_loop_recreate. Qed.
Print Assumptions c10_maps_recreate_loop.

(* One successful recreate transaction: every desired map is back WITH all its members. *)
Theorem c10_maps_recreate_restores_desired : forall ts kn sc ts' kn' sc',
  t_recreate ts = true ->
  apply_updates ts kn sc = (true, ts', kn', sc') ->
  synced (t_m ts') kn' /\ t_recreate ts' = false /\
  (forall k, ms_all (t_m ts') k = ms_all (t_m ts) k) /\
  (forall k, tr_des (get_or_create (t_m ts') k) = tr_des (get_or_create (t_m ts) k)).
Proof. exact recreate_restores. Qed.
Print Assumptions c10_maps_recreate_restores_desired.

(* Composition with part 1: when the kernel's map equals the desired mapping (DispatchMappings of `names`),
   the rendered nftables dispatch chain evaluated over the KERNEL's map sends every known interface to its
   own chain and drops everything else - the same verdict as c10_known_iface_own_chain / c10_unknown_dropped
   (and hence, by c10_vmap_same, as the iptables tree). *)
Theorem c10_maps_synced_dispatch_exact : forall s kn k names pk,
  synced s kn -> ms_all s k = true ->
  (forall x, In x (tr_des (get_or_create s k)) <-> In x names) ->
  khas kn k = true /\
  eval 42 (vmap_ruleset k (map (fun n => (n, AGoto (CEp k n))) (sort_names (kelems kn k)))) pk (CRoot k) =
  spec_workload false k names (pkt_if (kind_dir k) pk).
Proof. exact synced_dispatch_exact. Qed.
Print Assumptions c10_maps_synced_dispatch_exact.

(* The hypotheses are met by a real run: two workloads, an outage of 6 failed transactions during which every
   element listing fails too (the resyncs bail out half way), then the recreate goes through. *)
Example c10_example_outage :
  let ops := [MSet KWlFrom [[99;97;108;105;49]; [99;97;108;105;50]];
              MApply {| sc_run := []; sc_listall := []; sc_elem := [] |};
              MApply {| sc_run := [true;true;true;true;true;true]; sc_listall := [];
                        sc_elem := [true;true;true;true;true;true] |}] in
  map (fun o => (o_panicked o, o_runs o)) (run_ops t_init None ops) = [(false, 1%nat); (false, 7%nat)]
  /\ ok_history [] ops (run_ops t_init None ops) = true.
Proof. vm_compute. split; reflexivity. Qed.

(* The part-2 specification oracle (kernel map exact + dispatch evaluation on known/unknown probes) accepts
   every run of the model: any history, any failure schedules. *)
Theorem c10_maps_model_meets_spec : forall ops, ok_history [] ops (run_ops t_init None ops) = true.
Proof. exact maps_model_meets_spec. Qed.
Print Assumptions c10_maps_model_meets_spec.
