(* C10 — property theorems only. *)
From Coq Require Import List NArith Bool Arith.
From Verif.C10 Require Import Nf Model Spec Proofs.
Import ListNotations.
Open Scope N_scope.

(* A rendered "prefix<wildcard>" pattern matches exactly the names that start with prefix. *)
Theorem c10_wildcard_pattern_is_prefix_match : forall wc p i,
  pat_matches wc (p ++ [wc]) i = is_prefix p i.
Proof. exact pat_wild. Qed.
Print Assumptions c10_wildcard_pattern_is_prefix_match.
