(* C10 — replay helper: which probes of a case fail the specification oracle, and how.
   (dispatch chain kind, probe interface, verdict reached on the implementation's chains, verdict demanded) *)
From Coq Require Import List NArith Bool Arith.
From Verif.C10 Require Import Nf Model Spec.
Import ListNotations.
Open Scope N_scope.

Definition diagnose (c : case) : list (epkind * name * result * result) :=
  match c_impl c with
  | None => []
  | Some rs =>
      flat_map (fun k =>
        flat_map (fun pd =>
          let got := eval (sem_wildcard (cf_nft (c_cfg c))) rs (mk_packet k (fst pd) (snd pd)) (CRoot k) in
          let want := expected (c_cfg c) (c_kind c) (c_names c) k (fst pd) in
          if result_eqb got want then [] else [(k, fst pd, got, want)])
          (c_probes c)) (roots (c_kind c))
  end.
