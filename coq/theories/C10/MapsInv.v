(* C10 part 2 — the incremental path: invariant relating the cached views of Maps to the kernel,
   carried through AddOrReplaceMap, LoadDataplaneState (all outcomes), the transaction and
   FinishMapUpdates, and the Apply() retry loop. *)
From Coq Require Import List NArith Bool Arith Lia.
From Verif.C10 Require Import Nf Model Spec Proofs MapsModel MapsSpec MapsProofs.
Import ListNotations.
Open Scope N_scope.

Notation goc := get_or_create.

(* ---------- sets ---------- *)
Lemma ndiff_In : forall a b x, In x (ndiff a b) <-> In x a /\ ~ In x b.
Proof.
  intros. unfold ndiff. rewrite filter_In. split; intros [H1 H2]; split; auto.
  - intros H. apply nmem_In in H. rewrite H in H2. discriminate.
  - destruct (nmem x b) eqn:E; auto. apply nmem_In in E. contradiction.
Qed.

Lemma ndiff_NoDup : forall a b, NoDup a -> NoDup (ndiff a b).
Proof. intros. unfold ndiff. apply NoDup_filter. auto. Qed.

Lemma nsubset_spec : forall a b, nsubset a b = true <-> forall x, In x a -> In x b.
Proof.
  intros. unfold nsubset. rewrite forallb_forall. split; intros H x Hx.
  - apply nmem_In. auto.
  - apply nmem_In. auto.
Qed.

Lemma nequiv_spec : forall a b, nequiv a b = true <-> forall x, In x a <-> In x b.
Proof.
  intros. unfold nequiv. rewrite andb_true_iff, !nsubset_spec. split.
  - intros [H1 H2] x. split; auto.
  - intros H. split; intros x; apply H.
Qed.

Lemma nequiv_false : forall a b, nequiv a b = false -> ~ (forall x, In x a <-> In x b).
Proof. intros a b H C. apply nequiv_spec in C. congruence. Qed.

Lemma is_nil_spec : forall A (l : list A), is_nil l = true <-> l = [].
Proof. intros A [|]; simpl; split; intros; auto; discriminate. Qed.

Lemma all_kinds_NoDup : NoDup all_kinds.
Proof. unfold all_kinds. repeat constructor; simpl; intuition discriminate. Qed.

(* ---------- the invariant ---------- *)
Record MINV (s : mstate) (kn : kernel) : Prop := {
  iA : forall k, NoDup (tr_dp (goc s k)) /\ forall x, In x (tr_dp (goc s k)) <-> In x (kelems kn k);
  iB : forall k, ms_progdp s k = true -> khas kn k = true;
  iD : forall k, ms_all s k = true -> in_sync (goc s k) = false -> ms_dirty s k = true \/ ms_progdp s k = false }.

(* holds always, also while a recreate is pending *)
Record WINV (s : mstate) (kn : kernel) : Prop := {
  iH : forall k, NoDup (kelems kn k);
  iI : forall k, NoDup (tr_des (goc s k)) }.

Record TINV (ts : tstate) (kn : kernel) : Prop := {
  tW : WINV (t_m ts) kn;
  tM : t_recreate ts = false -> MINV (t_m ts) kn /\ (t_hempty ts = false -> kn <> None) }.

(* ---------- kernel transactions, phase by phase ---------- *)
Definition el (t : ktable) (k : epkind) : nset := match t k with Some s => s | None => [] end.

Lemma neq_kind : forall a b, epkind_eqb a b = false -> a <> b.
Proof. intros a b H ->. rewrite epkind_eqb_refl in H. discriminate. Qed.

Lemma adds_one2 : forall k xs t s, t k = Some s ->
  exists t' s', apply_tx (Some t) (map (TAddElem k) xs) = Some (Some t') /\ t' k = Some s' /\
    (forall x, In x s' <-> In x s \/ In x xs) /\ (NoDup s -> NoDup s') /\ (forall k', k' <> k -> t' k' = t k').
Proof.
  induction xs as [|x xs IH]; intros t s Hk; simpl.
  - exists t, s. split; [auto|split; [auto|split; [intros; tauto|split; auto]]].
  - rewrite Hk.
    set (s1 := if nmem x s then s else x :: s).
    destruct (IH (upd t k (Some s1)) s1) as [t' [s' [H1 [H2 [H3 [H4 H5]]]]]]; [apply upd_same|].
    exists t', s'. split; [auto|split; [auto|split; [|split]]].
    + intros y. rewrite H3. subst s1. destruct (nmem x s) eqn:E.
      * apply nmem_In in E. intuition (subst; auto).
      * simpl. intuition (subst; auto).
    + intros ND. apply H4. subst s1. destruct (nmem x s) eqn:E; auto.
      constructor; auto. intros Hin. apply nmem_In in Hin. congruence.
    + intros k' Hne. rewrite H5 by auto. apply upd_other; auto.
Qed.

Lemma adds_effect2 : forall (D : epkind -> nset) ks t,
  (forall k, In k ks -> t k <> None) ->
  exists t', apply_tx (Some t) (flat_map (fun k => map (TAddElem k) (D k)) ks) = Some (Some t') /\
    forall k, (t' k = None <-> t k = None) /\ (NoDup (el t k) -> NoDup (el t' k)) /\
              forall x, In x (el t' k) <-> In x (el t k) \/ (In k ks /\ In x (D k)).
Proof.
  induction ks as [|a ks IH]; intros t Hex; simpl.
  - exists t. split; auto. intros k. split; [tauto|split; auto]. intros x. tauto.
  - destruct (t a) as [s|] eqn:Ea; [|exfalso; apply (Hex a); simpl; auto].
    destruct (adds_one2 a (D a) t s Ea) as [t1 [s1 [H1 [H2 [H3 [HN H4]]]]]].
    destruct (IH t1) as [t' [H5 H6]].
    { intros k Hk. destruct (epkind_eqb k a) eqn:E.
      - apply epkind_eqb_eq in E. subst. congruence.
      - rewrite H4; [apply Hex; simpl; auto|apply neq_kind; auto]. }
    exists t'. split; [rewrite apply_tx_app, H1; exact H5|].
    intros k. destruct (H6 k) as [H7 [H9 H8]]. unfold el in *.
    destruct (epkind_eqb k a) eqn:E.
    + apply epkind_eqb_eq in E. subst. rewrite H2 in *. rewrite Ea.
      split; [rewrite H7; split; discriminate|split; [auto|]].
      intros x. rewrite H8, H3. intuition.
    + apply neq_kind in E. rewrite (H4 k E) in *.
      split; [auto|split; [auto|]]. intros x. rewrite H8. intuition. subst; contradiction.
Qed.

Lemma dels_one : forall k xs t s, t k = Some s -> NoDup xs -> (forall x, In x xs -> In x s) ->
  exists t' s', apply_tx (Some t) (map (TDelElem k) xs) = Some (Some t') /\ t' k = Some s' /\
    (forall x, In x s' <-> In x s /\ ~ In x xs) /\ (NoDup s -> NoDup s') /\ (forall k', k' <> k -> t' k' = t k').
Proof.
  induction xs as [|x xs IH]; intros t s Hk ND Hsub; simpl.
  - exists t, s. split; [auto|split; [auto|split; [intros; tauto|split; auto]]].
  - rewrite Hk. inversion ND as [|? ? NI ND']; subst.
    assert (Hx : nmem x s = true) by (apply nmem_In; apply Hsub; simpl; auto). rewrite Hx.
    destruct (IH (upd t k (Some (ndiff s [x]))) (ndiff s [x])) as [t' [s' [H1 [H2 [H3 [H4 H5]]]]]];
      [apply upd_same|auto| |].
    { intros y Hy. apply ndiff_In. split; [apply Hsub; simpl; auto|]. intros [->|[]]. contradiction. }
    exists t', s'. split; [auto|split; [auto|split; [|split]]].
    + intros y. rewrite H3, ndiff_In. simpl. intuition.
    + intros NDs. apply H4. apply ndiff_NoDup; auto.
    + intros k' Hne. rewrite H5 by auto. apply upd_other; auto.
Qed.

Lemma dels_effect : forall (D : epkind -> nset) ks t,
  (forall k, In k ks -> t k <> None /\ NoDup (D k) /\ forall x, In x (D k) -> In x (el t k)) ->
  NoDup ks ->
  exists t', apply_tx (Some t) (flat_map (fun k => map (TDelElem k) (D k)) ks) = Some (Some t') /\
    forall k, (t' k = None <-> t k = None) /\ (NoDup (el t k) -> NoDup (el t' k)) /\
              forall x, In x (el t' k) <-> In x (el t k) /\ ~ (In k ks /\ In x (D k)).
Proof.
  induction ks as [|a ks IH]; intros t Hex NDk; simpl.
  - exists t. split; auto. intros k. split; [tauto|split; auto]. intros x. tauto.
  - inversion NDk as [|? ? NIa NDk']; subst.
    destruct (Hex a (or_introl eq_refl)) as [Hne [NDa Hsub]].
    destruct (t a) as [s|] eqn:Ea; [|congruence].
    assert (Hsub' : forall x, In x (D a) -> In x s) by (intros x Hx; specialize (Hsub x Hx); unfold el in Hsub; rewrite Ea in Hsub; auto).
    destruct (dels_one a (D a) t s Ea NDa Hsub') as [t1 [s1 [H1 [H2 [H3 [HN H4]]]]]].
    destruct (IH t1) as [t' [H5 H6]]; auto.
    { intros k Hk. assert (k <> a) by (intros ->; contradiction).
      destruct (Hex k (or_intror Hk)) as [E1 [E2 E3]]. unfold el in *. rewrite (H4 k H). auto. }
    exists t'. split.
    { rewrite apply_tx_app.
      match goal with |- match ?e with _ => _ end = _ => replace e with (Some (Some t1)) by (symmetry; exact H1) end.
      exact H5. }
    intros k. destruct (H6 k) as [H7 [H9 H8]]. unfold el in *.
    destruct (epkind_eqb k a) eqn:E.
    + apply epkind_eqb_eq in E. subst. rewrite H2 in *. rewrite Ea.
      split; [rewrite H7; split; discriminate|split; [auto|]].
      intros x. rewrite H8, H3. intuition.
    + apply neq_kind in E. rewrite (H4 k E) in *.
      split; [auto|split; [auto|]]. intros x. rewrite H8. intuition; try (subst; contradiction).
Qed.

(* ---------- MapUpdates / FinishMapUpdates ---------- *)
Definition mk (m : mstate) (k : epkind) : mupd :=
  let t := goc m k in
  {| u_k := k; u_create := negb (ms_progdp m k);
     u_dels := ndiff (tr_dp t) (tr_des t); u_adds := ndiff (tr_des t) (tr_dp t) |}.

Lemma map_updates_mk : forall m, map_updates m = map (mk m) (filter (is_dirty_map m) all_kinds).
Proof. reflexivity. Qed.

Definition changed (m : mstate) (k : epkind) : bool :=
  negb (is_nil (u_adds (mk m k)) && is_nil (u_dels (mk m k))).

Definition fin_trk (m s : mstate) (k : epkind) : tracker :=
  {| tr_des := tr_des (goc s k); tr_dp := ndiff (tr_dp (goc s k)) (u_dels (mk m k)) ++ u_adds (mk m k) |}.

Lemma goc_upd_same : forall s k t a b c,
  goc {| ms_all := a; ms_progdp := b; ms_trk := upd (ms_trk s) k (Some t); ms_dirty := c |} k = t.
Proof. intros. unfold goc. cbn [ms_trk]. rewrite upd_same. reflexivity. Qed.

Lemma goc_upd_other : forall s k v k' a b c, k' <> k ->
  goc {| ms_all := a; ms_progdp := b; ms_trk := upd (ms_trk s) k v; ms_dirty := c |} k' = goc s k'.
Proof. intros. unfold goc. cbn [ms_trk]. rewrite upd_other by auto. reflexivity. Qed.

Lemma finish_one_char : forall m s a,
  ms_all (finish_one s (mk m a)) = ms_all s /\ ms_dirty (finish_one s (mk m a)) = ms_dirty s /\
  (forall k, k <> a -> ms_progdp (finish_one s (mk m a)) k = ms_progdp s k /\ goc (finish_one s (mk m a)) k = goc s k) /\
  (if changed m a then ms_progdp (finish_one s (mk m a)) a = true /\ goc (finish_one s (mk m a)) a = fin_trk m s a
   else ms_progdp (finish_one s (mk m a)) a = ms_progdp s a /\ goc (finish_one s (mk m a)) a = goc s a).
Proof.
  intros m s a. unfold finish_one, changed.
  destruct (is_nil (u_adds (mk m a)) && is_nil (u_dels (mk m a))); cbn [negb].
  - repeat split; auto.
  - cbn [u_k mk]. split; [reflexivity|split; [reflexivity|split]].
    + intros k Hne. split; [apply upd_other; auto|apply goc_upd_other; auto].
    + split; [apply upd_same|]. rewrite goc_upd_same. reflexivity.
Qed.

Lemma finish_fold_char : forall m ks s, NoDup ks ->
  let s' := fold_left finish_one (map (mk m) ks) s in
  ms_all s' = ms_all s /\ ms_dirty s' = ms_dirty s /\
  forall k,
    (~ In k ks -> ms_progdp s' k = ms_progdp s k /\ goc s' k = goc s k) /\
    (In k ks -> if changed m k then ms_progdp s' k = true /\ goc s' k = fin_trk m s k
                else ms_progdp s' k = ms_progdp s k /\ goc s' k = goc s k).
Proof.
  induction ks as [|a ks IH]; intros s ND; cbn [map fold_left].
  - split; [auto|split; [auto|]]. intros k. split; [auto|intros []].
  - inversion ND as [|? ? NI ND']; subst.
    destruct (finish_one_char m s a) as [F1 [F2 [F3 F4]]].
    destruct (IH (finish_one s (mk m a)) ND') as [G1 [G2 G3]].
    split; [congruence|split; [congruence|]].
    intros k. destruct (G3 k) as [G4 G5]. split.
    + intros Hn. assert (k <> a) by (intros ->; apply Hn; simpl; auto).
      assert (~ In k ks) by (intros Hk; apply Hn; simpl; auto).
      destruct (G4 H0) as [P1 P2]. destruct (F3 k H) as [Q1 Q2]. split; congruence.
    + intros [<-|Hk].
      * destruct (G3 a) as [G4' _]. destruct (G4' NI) as [P1 P2]. rewrite P1, P2.
        destruct (changed m a); exact F4.
      * assert (k <> a) by (intros ->; contradiction).
        destruct (F3 k H) as [Q1 Q2]. specialize (G5 Hk).
        destruct (changed m k).
        -- destruct G5 as [P1 P2]. split; auto. rewrite P2. unfold fin_trk. rewrite Q2. reflexivity.
        -- destruct G5 as [P1 P2]. split; congruence.
Qed.

(* ---------- the transaction body from a state whose views agree with the kernel ---------- *)
Definition tx_body (us : list mupd) : list txop :=
  flat_map (fun u => if u_create u then [TAddMap (u_k u)] else []) us
  ++ flat_map (fun u => map (TDelElem (u_k u)) (u_dels u)) us
  ++ flat_map (fun u => map (TAddElem (u_k u)) (u_adds u)) us.

Lemma creates_filter : forall m ks,
  flat_map (fun u => if u_create u then [TAddMap (u_k u)] else []) (map (mk m) ks)
  = map TAddMap (filter (fun k => negb (ms_progdp m k)) ks).
Proof.
  induction ks as [|a ks IH]; simpl; auto. rewrite IH. destruct (negb (ms_progdp m a)); reflexivity.
Qed.

Lemma set_fix : forall dp des e0 x, (forall y, In y dp <-> In y e0) ->
  ((In x e0 /\ ~ In x (ndiff dp des)) \/ In x (ndiff des dp)) <-> In x des.
Proof.
  intros dp des e0 x H. rewrite !ndiff_In, <- H.
  destruct (nmem x dp) eqn:E1; destruct (nmem x des) eqn:E2;
    try apply nmem_In in E1; try apply nmem_In in E2;
    try (assert (~ In x dp) by (intros C; apply nmem_In in C; congruence));
    try (assert (~ In x des) by (intros C; apply nmem_In in C; congruence)); tauto.
Qed.

Lemma in_sync_spec : forall t, in_sync t = true <-> forall x, In x (tr_des t) <-> In x (tr_dp t).
Proof. intros. unfold in_sync. apply nequiv_spec. Qed.

Lemma ndiff_nil_sub : forall a b, ndiff a b = [] -> forall x, In x a -> In x b.
Proof.
  intros a b H x Hx. destruct (nmem x b) eqn:E; [apply nmem_In; auto|].
  assert (In x (ndiff a b)) by (apply ndiff_In; split; auto; intros C; apply nmem_In in C; congruence).
  rewrite H in H0. inversion H0.
Qed.

Lemma NoDup_app_local : forall (a b : list name), NoDup a -> NoDup b ->
  (forall x, In x a -> In x b -> False) -> NoDup (a ++ b).
Proof.
  induction a; intros b Ha Hb Hd; simpl; auto. inversion Ha; subst. constructor.
  - intros Hin. apply in_app_or in Hin. destruct Hin; [contradiction|]. apply (Hd a); simpl; auto.
  - apply IHa; auto. intros x Hx1 Hx2. apply (Hd x); simpl; auto.
Qed.

Lemma tx_core : forall m1 t0, MINV m1 (Some t0) -> WINV m1 (Some t0) ->
  exists t3, apply_tx (Some t0) (tx_body (map_updates m1)) = Some (Some t3) /\
    MINV (finish m1 (map_updates m1)) (Some t3) /\ WINV (finish m1 (map_updates m1)) (Some t3) /\
    synced (finish m1 (map_updates m1)) (Some t3).
Proof.
  intros m1 t0 [A B Dd] [Hh Ii].
  set (ks := filter (is_dirty_map m1) all_kinds).
  assert (NDks : NoDup ks) by (apply NoDup_filter; apply all_kinds_NoDup).
  set (dp := fun k => tr_dp (goc m1 k)). set (des := fun k => tr_des (goc m1 k)).
  set (DD := fun k => ndiff (dp k) (des k)). set (AA := fun k => ndiff (des k) (dp k)).
  assert (El0 : forall k, kelems (Some t0) k = el t0 k) by reflexivity.
  (* phase 1: create missing maps *)
  set (ksc := filter (fun k => negb (ms_progdp m1 k)) ks).
  destruct (creates_effect ksc t0) as [t1 [C1 C2]].
  assert (E1 : forall k, el t1 k = el t0 k).
  { intros k. unfold el. rewrite C2. destruct (t0 k); auto. destruct (existsb (epkind_eqb k) ksc); auto. }
  assert (N1 : forall k, In k ks -> t1 k <> None).
  { intros k Hk. rewrite C2. destruct (t0 k) eqn:E0; [discriminate|].
    destruct (ms_progdp m1 k) eqn:Ep.
    - apply B in Ep. unfold khas in Ep. rewrite E0 in Ep. discriminate.
    - assert (In k ksc) by (unfold ksc; apply filter_In; split; auto; rewrite Ep; auto).
      apply existsb_kind in H. rewrite H. discriminate. }
  (* phase 2: delete stale members *)
  destruct (dels_effect DD ks t1) as [t2 [D1 D2]]; auto.
  { intros k Hk. split; [auto|split].
    - apply ndiff_NoDup. apply A.
    - intros x Hx. rewrite E1, <- El0. apply A. apply ndiff_In in Hx. tauto. }
  (* phase 3: add missing members *)
  destruct (adds_effect2 AA ks t2) as [t3 [A1 A2]].
  { intros k Hk. destruct (D2 k) as [Hn _]. rewrite Hn. auto. }
  assert (Htx : apply_tx (Some t0) (tx_body (map_updates m1)) = Some (Some t3)).
  { unfold tx_body. rewrite map_updates_mk. fold ks. rewrite creates_filter. fold ksc.
    rewrite !flat_map_map. cbn [u_k u_dels u_adds mk].
    rewrite apply_tx_app.
    match goal with |- match ?e with _ => _ end = _ => replace e with (Some (Some t1)) by (symmetry; exact C1) end.
    rewrite apply_tx_app.
    match goal with |- match ?e with _ => _ end = _ => replace e with (Some (Some t2)) by (symmetry; exact D1) end.
    exact A1. }
  exists t3. split; [exact Htx|].
  (* kernel after the transaction *)
  assert (K3 : forall k x, In x (el t3 k) <-> (In x (el t0 k) /\ ~ (In k ks /\ In x (DD k))) \/ (In k ks /\ In x (AA k))).
  { intros k x. destruct (A2 k) as [_ [_ Ha]]. destruct (D2 k) as [_ [_ Hd]]. rewrite Ha, Hd, E1. tauto. }
  assert (K3in : forall k x, In k ks -> (In x (el t3 k) <-> In x (des k))).
  { intros k x Hk. rewrite K3. rewrite <- (set_fix (dp k) (des k) (el t0 k) x); [unfold DD, AA; tauto|].
    intros y. rewrite <- El0. apply A. }
  assert (K3out : forall k x, ~ In k ks -> (In x (el t3 k) <-> In x (el t0 k))).
  { intros k x Hk. rewrite K3. tauto. }
  assert (N3 : forall k, t3 k = None <-> t1 k = None).
  { intros k. destruct (A2 k) as [Ha _]. destruct (D2 k) as [Hd _]. rewrite Ha, Hd. tauto. }
  assert (ND3 : forall k, NoDup (el t3 k)).
  { intros k. destruct (A2 k) as [_ [Ha _]]. destruct (D2 k) as [_ [Hd _]]. apply Ha, Hd. rewrite E1, <- El0. apply Hh. }
  (* state after FinishMapUpdates *)
  destruct (finish_fold_char m1 ks m1 NDks) as [F1 [F2 F3]].
  rewrite <- map_updates_mk in F1, F2, F3. cbv zeta in F3.
  set (s' := fold_left finish_one (map_updates m1) m1) in *.
  assert (Gf : forall k, goc (finish m1 (map_updates m1)) k = goc s' k) by reflexivity.
  assert (Pf : forall k, ms_progdp (finish m1 (map_updates m1)) k = ms_progdp s' k) by reflexivity.
  assert (Af : ms_all (finish m1 (map_updates m1)) = ms_all m1) by (unfold finish; cbn [ms_all]; exact F1).
  assert (inks : forall k, In k ks \/ ~ In k ks).
  { intros k. destruct (existsb (epkind_eqb k) ks) eqn:E; [left; apply existsb_kind; auto|].
    right. intros C. apply existsb_kind in C. congruence. }
  (* desired and dataplane views afterwards *)
  assert (DES : forall k, tr_des (goc s' k) = des k).
  { intros k. destruct (F3 k) as [Fo Fi]. destruct (inks k) as [Hk|Hk].
    - specialize (Fi Hk). destruct (changed m1 k); destruct Fi as [_ ->]; reflexivity.
    - destruct (Fo Hk) as [_ ->]. reflexivity. }
  assert (DPin : forall k, In k ks -> NoDup (tr_dp (goc s' k)) /\ forall x, In x (tr_dp (goc s' k)) <-> In x (des k)).
  { intros k Hk. destruct (F3 k) as [_ Fi]. specialize (Fi Hk). unfold changed in Fi.
    destruct (is_nil (u_adds (mk m1 k)) && is_nil (u_dels (mk m1 k))) eqn:En; cbn [negb] in Fi.
    - destruct Fi as [_ ->]. apply andb_true_iff in En. destruct En as [En1 En2].
      apply is_nil_spec in En1. apply is_nil_spec in En2. cbn [mk u_adds u_dels] in En1, En2.
      split; [apply A|]. intros x. fold (dp k). split.
      + apply (ndiff_nil_sub _ _ En2).
      + apply (ndiff_nil_sub _ _ En1).
    - destruct Fi as [_ ->]. unfold fin_trk. cbn [tr_dp mk u_dels u_adds]. fold (dp k) (des k). split.
      + apply NoDup_app_local.
        * apply ndiff_NoDup. apply A.
        * apply ndiff_NoDup. apply Ii.
        * intros x H1 H2. apply ndiff_In in H1. apply ndiff_In in H2. tauto.
      + intros x. rewrite in_app_iff, !ndiff_In.
        destruct (nmem x (dp k)) eqn:E1'; destruct (nmem x (des k)) eqn:E2';
          try apply nmem_In in E1'; try apply nmem_In in E2';
          try (assert (~ In x (dp k)) by (intros C; apply nmem_In in C; congruence));
          try (assert (~ In x (des k)) by (intros C; apply nmem_In in C; congruence)); tauto. }
  assert (OUT : forall k, ~ In k ks -> goc s' k = goc m1 k /\ ms_progdp s' k = ms_progdp m1 k).
  { intros k Hk. destruct (F3 k) as [Fo _]. destruct (Fo Hk). split; auto. }
  assert (OUTsync : forall k, ~ In k ks -> ms_all m1 k = true ->
            ms_progdp m1 k = true /\ forall x, In x (des k) <-> In x (dp k)).
  { intros k Hk Ha.
    assert (is_dirty_map m1 k = false).
    { destruct (is_dirty_map m1 k) eqn:E; auto. exfalso. apply Hk. apply filter_In. split; [apply in_all_kinds|auto]. }
    unfold is_dirty_map in H. rewrite Ha, !andb_true_r in H. apply orb_false_iff in H. destruct H as [Hd Hp].
    apply negb_false_iff in Hp. split; auto.
    apply in_sync_spec. destruct (in_sync (goc m1 k)) eqn:Es; auto.
    destruct (Dd k Ha Es); congruence. }
  split; [|split].
  - (* MINV *)
    constructor.
    + intros k. rewrite Gf. destruct (inks k) as [Hk|Hk].
      * destruct (DPin k Hk) as [P1 P2]. split; auto. intros x. rewrite P2. symmetry. apply K3in; auto.
      * destruct (OUT k Hk) as [-> _]. destruct (A k) as [P1 P2]. split; auto.
        intros x. rewrite P2, El0. symmetry. apply K3out; auto.
    + intros k. rewrite Pf. intros Hp. unfold khas. destruct (t3 k) eqn:E3; auto. exfalso.
      apply N3 in E3. destruct (inks k) as [Hk|Hk].
      * apply (N1 k Hk); auto.
      * destruct (OUT k Hk) as [_ Q]. rewrite Q in Hp. apply B in Hp. unfold khas in Hp.
        rewrite C2 in E3. destruct (t0 k); discriminate.
    + intros k Ha Hs. exfalso. rewrite Af in Ha. rewrite Gf in Hs.
      assert (in_sync (goc s' k) = true); [|congruence].
      apply in_sync_spec. rewrite DES. destruct (inks k) as [Hk|Hk].
      * intros x. symmetry. apply DPin; auto.
      * destruct (OUT k Hk) as [-> _]. apply OUTsync; auto.
  - constructor.
    + intros k. apply ND3.
    + intros k. rewrite Gf, DES. apply Ii.
  - (* synced *)
    intros k Ha. rewrite Af in Ha. split.
    + unfold khas. destruct (t3 k) eqn:E3; auto. exfalso. apply N3 in E3.
      destruct (inks k) as [Hk|Hk]; [apply (N1 k Hk); auto|].
      destruct (OUTsync k Hk Ha) as [Hp _]. apply B in Hp. unfold khas in Hp. rewrite C2 in E3. destruct (t0 k); discriminate.
    + intros x. rewrite Gf, DES. change (kelems (Some t3) k) with (el t3 k). destruct (inks k) as [Hk|Hk].
      * apply K3in; auto.
      * rewrite K3out by auto. rewrite <- El0. destruct (OUTsync k Hk Ha) as [_ Hs]. rewrite Hs. symmetry. apply A.
Qed.

(* ---------- small facts ---------- *)
Lemma khas_false_kelems : forall kn k, khas kn k = false -> kelems kn k = [].
Proof. intros [t|] k; unfold khas, kelems; auto. destruct (t k); auto. discriminate. Qed.

Lemma MINV_ext : forall s kn kn', (forall k, kelems kn k = kelems kn' k /\ khas kn k = khas kn' k) ->
  MINV s kn -> MINV s kn'.
Proof.
  intros s kn kn' H [A B Dd]. constructor; auto.
  - intros k. destruct (H k) as [<- _]. apply A.
  - intros k Hp. destruct (H k) as [_ <-]. auto.
Qed.

Lemma WINV_ext : forall s kn kn', (forall k, kelems kn k = kelems kn' k) -> WINV s kn -> WINV s kn'.
Proof. intros s kn kn' H [Hh Ii]. constructor; auto. intros k. rewrite <- H. auto. Qed.

Lemma dirty_val : forall s k,
  match ms_trk s k with None => false | Some t => negb (in_sync t) end = negb (in_sync (goc s k)).
Proof. intros. unfold goc. destruct (ms_trk s k); reflexivity. Qed.

Lemma ud_goc : forall s k k', goc (update_dirtiness s k) k' = goc s k'.
Proof. reflexivity. Qed.

Lemma ud_dirty : forall s k k',
  ms_dirty (update_dirtiness s k) k' = if epkind_eqb k' k then negb (in_sync (goc s k)) else ms_dirty s k'.
Proof. intros. unfold update_dirtiness. cbn [ms_dirty]. unfold upd. rewrite dirty_val. reflexivity. Qed.

Definition same_des_on (a b : mstate) : Prop :=
  (forall k, ms_all a k = ms_all b k) /\
  (forall k, ms_all b k = true -> tr_des (goc a k) = tr_des (goc b k)).

Lemma same_des_on_refl : forall a, same_des_on a a.
Proof. split; auto. Qed.

Lemma same_des_on_trans : forall a b c, same_des_on a b -> same_des_on b c -> same_des_on a c.
Proof.
  intros a b c [A1 A2] [B1 B2]. split; intros k; [congruence|].
  intros Hc. rewrite A2; auto. rewrite B1; auto.
Qed.

Lemma same_desired_on : forall a b, same_desired a b -> same_des_on a b.
Proof. intros a b [H1 H2]. split; auto. Qed.

(* ---------- InvalidateMapsCache + fresh table ---------- *)
Lemma invalidate_inv : forall s kn, WINV s kn ->
  MINV (invalidate s) (Some empty_table) /\ WINV (invalidate s) (Some empty_table).
Proof.
  intros s kn [Hh Ii]. destruct (invalidate_spec s) as [Ia [Ip It]]. split; constructor.
  - intros k. destruct (get_or_create_invalidate s k) as [_ ->]. split; [constructor|]. intros x. simpl. tauto.
  - intros k Hp. rewrite Ip in Hp. discriminate.
  - intros k _ _. right. apply Ip.
  - intros k. simpl. constructor.
  - intros k. destruct (get_or_create_invalidate s k) as [-> _]. apply Ii.
Qed.

(* ---------- applyUpdates ---------- *)
Lemma tx_of_body : forall r h us,
  tx_of r h us = (if r then [TAddTable; TDelTable; TAddTable] else if h then [TAddTable] else []) ++ tx_body us.
Proof. reflexivity. Qed.

Lemma apply_updates_ok : forall ts kn sc ts' kn' sc',
  TINV ts kn -> apply_updates ts kn sc = (true, ts', kn', sc') ->
  TINV ts' kn' /\ t_recreate ts' = false /\ synced (t_m ts') kn' /\ same_des_on (t_m ts') (t_m ts).
Proof.
  intros ts kn sc ts' kn' sc' [W M] H. unfold apply_updates in H.
  destruct (pop (sc_run sc)) as [rf l1]. destruct rf; [inversion H|].
  rewrite tx_of_body, apply_tx_app in H.
  set (m1 := if t_recreate ts then invalidate (t_m ts) else t_m ts) in *.
  assert (exists t0, apply_tx kn (if t_recreate ts then [TAddTable; TDelTable; TAddTable]
                                  else if t_hempty ts then [TAddTable] else []) = Some (Some t0)
                     /\ MINV m1 (Some t0) /\ WINV m1 (Some t0) /\ same_des_on m1 (t_m ts)) as [t0 [P0 [M0 [W0 S0]]]].
  { subst m1. destruct (t_recreate ts) eqn:Er.
    - exists empty_table. split; [apply recreate_prefix|].
      destruct (invalidate_inv _ _ W) as [Q1 Q2]. split; [auto|split; [auto|]].
      apply same_desired_on. split.
      + intros k. destruct (invalidate_spec (t_m ts)) as [-> _]. reflexivity.
      + intros k. apply get_or_create_invalidate.
    - destruct (M eq_refl) as [M1 E1]. destruct kn as [t|].
      + exists t. split; [destruct (t_hempty ts); reflexivity|]. split; [auto|split; [auto|apply same_des_on_refl]].
      + destruct (t_hempty ts) eqn:Eh; [|exfalso; apply E1; auto].
        exists empty_table. split; [reflexivity|]. split; [|split; [|apply same_des_on_refl]].
        * eapply MINV_ext; [|exact M1]. intros k. split; reflexivity.
        * eapply WINV_ext; [|exact W]. intros k. reflexivity. }
  match type of H with context [match ?e with _ => _ end] =>
    match e with apply_tx kn _ => replace e with (Some (Some t0)) in H by (symmetry; exact P0) end end.
  destruct (tx_core m1 t0 M0 W0) as [t3 [T1 [T2 [T3 T4]]]].
  match type of H with context [apply_tx ?a ?b] => replace (apply_tx a b) with (Some (Some t3)) in H by (symmetry; exact T1) end.
  inversion H; subst ts' kn' sc'. clear H. cbn [t_m t_recreate t_hempty].
  split; [|split; [reflexivity|split; [exact T4|]]].
  - constructor; cbn [t_m t_recreate t_hempty]; auto. intros _. split; auto. intros _. discriminate.
  - eapply same_des_on_trans; [|exact S0]. apply same_desired_on. destruct (finish_keeps (map_updates m1) m1). split; auto.
    intros k. rewrite H. reflexivity.
Qed.

(* ---------- LoadDataplaneState ---------- *)
Definition loaded_trk (kn : kernel) (s : mstate) (k : epkind) : tracker :=
  {| tr_des := tr_des (goc s k); tr_dp := kelems kn k |}.

Lemma load_one_char : forall kn s a,
  ms_all (load_one kn s a) = ms_all s /\
  (forall k, k <> a -> ms_progdp (load_one kn s a) k = ms_progdp s k /\ goc (load_one kn s a) k = goc s k
                       /\ ms_dirty (load_one kn s a) k = ms_dirty s k) /\
  ms_progdp (load_one kn s a) a = true /\ goc (load_one kn s a) a = loaded_trk kn s a /\
  ms_dirty (load_one kn s a) a = negb (in_sync (loaded_trk kn s a)).
Proof.
  intros kn s a. unfold load_one. split; [reflexivity|split; [|split; [|split]]].
  - intros k Hne. rewrite ud_dirty, ud_goc. cbn [ms_progdp update_dirtiness ms_dirty].
    split; [apply upd_other; auto|split; [apply goc_upd_other; auto|]].
    destruct (epkind_eqb k a) eqn:E; auto. apply epkind_eqb_eq in E. contradiction.
  - cbn [ms_progdp update_dirtiness]. apply upd_same.
  - rewrite ud_goc. apply goc_upd_same.
  - rewrite ud_dirty, epkind_eqb_refl, goc_upd_same. reflexivity.
Qed.

Lemma load_fold_char : forall kn l s, NoDup l ->
  let s' := fold_left (load_one kn) l s in
  ms_all s' = ms_all s /\
  forall k,
    (~ In k l -> ms_progdp s' k = ms_progdp s k /\ goc s' k = goc s k /\ ms_dirty s' k = ms_dirty s k) /\
    (In k l -> ms_progdp s' k = true /\ goc s' k = loaded_trk kn s k /\
               ms_dirty s' k = negb (in_sync (loaded_trk kn s k))).
Proof.
  induction l as [|a l IH]; intros s ND; cbn [fold_left].
  - split; auto. intros k. split; [auto|intros []].
  - inversion ND as [|? ? NI ND']; subst.
    destruct (load_one_char kn s a) as [F1 [F2 [F3 [F4 F5]]]].
    destruct (IH (load_one kn s a) ND') as [G1 G2]. split; [congruence|].
    intros k. destruct (G2 k) as [Go Gi]. split.
    + intros Hn. assert (k <> a) by (intros ->; apply Hn; simpl; auto).
      assert (~ In k l) by (intros Hk; apply Hn; simpl; auto).
      destruct (Go H0) as [P1 [P2 P3]]. destruct (F2 k H) as [Q1 [Q2 Q3]]. repeat split; congruence.
    + intros [<-|Hk].
      * destruct (G2 a) as [Go' _]. destruct (Go' NI) as [P1 [P2 P3]]. repeat split; congruence.
      * assert (k <> a) by (intros ->; contradiction).
        destruct (Gi Hk) as [P1 [P2 P3]]. destruct (F2 k H) as [Q1 [Q2 Q3]].
        unfold loaded_trk in *. rewrite Q2 in *. repeat split; auto.
Qed.

Lemma empty_in_sync : in_sync {| tr_des := []; tr_dp := [] |} = true.
Proof. reflexivity. Qed.

Lemma goc_upd_none : forall s k a b c,
  goc {| ms_all := a; ms_progdp := b; ms_trk := upd (ms_trk s) k None; ms_dirty := c |} k = {| tr_des := []; tr_dp := [] |}.
Proof. intros. unfold goc. cbn [ms_trk]. rewrite upd_same. reflexivity. Qed.

Lemma load_unseen_char : forall s a,
  ms_all (load_unseen s a) = ms_all s /\ ms_progdp (load_unseen s a) = ms_progdp s /\
  ms_dirty (load_unseen s a) = ms_dirty s /\
  (forall k, k <> a -> goc (load_unseen s a) k = goc s k) /\
  (ms_progdp s a = true -> goc (load_unseen s a) a = goc s a) /\
  (ms_progdp s a = false -> tr_dp (goc (load_unseen s a) a) = [] /\
     (tr_des (goc (load_unseen s a) a) = tr_des (goc s a) \/ tr_des (goc (load_unseen s a) a) = []) /\
     (ms_all s a = true -> tr_des (goc (load_unseen s a) a) = tr_des (goc s a))).
Proof.
  intros s a. unfold load_unseen. destruct (ms_trk s a) as [t|] eqn:Et.
  - destruct (ms_progdp s a) eqn:Ep.
    + repeat split; auto; discriminate.
    + destruct (ms_all s a) eqn:Ea.
      * split; [reflexivity|split; [reflexivity|split; [reflexivity|split; [|split; [discriminate|]]]]].
        -- intros k Hne. apply goc_upd_other; auto.
        -- intros _. rewrite goc_upd_same. cbn. unfold goc. rewrite Et. auto.
      * split; [reflexivity|split; [reflexivity|split; [reflexivity|split; [|split; [discriminate|]]]]].
        -- intros k Hne. apply goc_upd_other; auto.
        -- intros _. rewrite !goc_upd_none. cbn.
           split; [auto|split; [auto|discriminate]].
  - split; [reflexivity|split; [reflexivity|split; [reflexivity|split; [auto|split; [auto|]]]]].
    intros _. unfold goc. rewrite Et. cbn. auto.
Qed.

Lemma unseen_fold_char : forall l s, NoDup l ->
  let s' := fold_left load_unseen l s in
  ms_all s' = ms_all s /\ ms_progdp s' = ms_progdp s /\ ms_dirty s' = ms_dirty s /\
  forall k,
    (~ In k l -> goc s' k = goc s k) /\
    (ms_progdp s k = true -> goc s' k = goc s k) /\
    (In k l -> ms_progdp s k = false -> tr_dp (goc s' k) = [] /\
       (tr_des (goc s' k) = tr_des (goc s k) \/ tr_des (goc s' k) = []) /\
       (ms_all s k = true -> tr_des (goc s' k) = tr_des (goc s k))).
Proof.
  induction l as [|a l IH]; intros s ND; cbn [fold_left].
  - split; [auto|split; [auto|split; [auto|]]]. intros k. split; [auto|split; [auto|intros []]].
  - inversion ND as [|? ? NI ND']; subst.
    destruct (load_unseen_char s a) as [F1 [F2 [F3 [F4 [F5 F6]]]]].
    destruct (IH (load_unseen s a) ND') as [G1 [G2 [G3 G4]]].
    split; [congruence|split; [congruence|split; [congruence|]]].
    intros k. destruct (G4 k) as [Go [Gp Gi]]. split; [|split].
    + intros Hn. assert (k <> a) by (intros ->; apply Hn; simpl; auto).
      rewrite Go by (intros Hk; apply Hn; simpl; auto). auto.
    + intros Hp. rewrite Gp by (rewrite F2; auto).
      destruct (epkind_eqb k a) eqn:E; [apply epkind_eqb_eq in E; subst; auto|apply F4, neq_kind; auto].
    + intros [<-|Hk] Hp.
      * rewrite (Go NI). apply F6; auto.
      * assert (k <> a) by (intros ->; contradiction).
        rewrite <- (F4 k H). rewrite <- F1. apply Gi; auto. rewrite F2; auto.
Qed.

Lemma klisted_In : forall kn k, In k (klisted kn) <-> khas kn k = true.
Proof. intros. unfold klisted. rewrite filter_In. split; [tauto|]. intros; split; auto. apply in_all_kinds. Qed.

Lemma load_success_inv : forall s kn, WINV s kn ->
  let s1 := {| ms_all := ms_all s; ms_progdp := kempty; ms_trk := ms_trk s; ms_dirty := ms_dirty s |} in
  let s3 := fold_left load_unseen all_kinds (fold_left (load_one kn) (klisted kn) s1) in
  MINV s3 kn /\ WINV s3 kn /\ same_des_on s3 s.
Proof.
  intros s kn [Hh Ii] s1 s3.
  assert (NDl : NoDup (klisted kn)) by (apply NoDup_filter, all_kinds_NoDup).
  destruct (load_fold_char kn (klisted kn) s1 NDl) as [L1 L2]. cbv zeta in L2.
  set (s2 := fold_left (load_one kn) (klisted kn) s1) in *.
  destruct (unseen_fold_char all_kinds s2 all_kinds_NoDup) as [U1 [U2 [U3 U4]]]. cbv zeta in U4. fold s3 in U1, U2, U3, U4.
  assert (G1 : forall k, goc s1 k = goc s k) by reflexivity.
  assert (LISTED : forall k, khas kn k = true ->
            ms_progdp s3 k = true /\ goc s3 k = loaded_trk kn s k /\ ms_dirty s3 k = negb (in_sync (loaded_trk kn s k))).
  { intros k Hk. destruct (L2 k) as [_ Li]. destruct (Li (proj2 (klisted_In kn k) Hk)) as [P1 [P2 P3]].
    destruct (U4 k) as [_ [Up _]]. rewrite U2, U3, (Up P1). auto. }
  assert (UNL : forall k, khas kn k = false ->
            ms_progdp s3 k = false /\ tr_dp (goc s3 k) = [] /\
            (tr_des (goc s3 k) = tr_des (goc s k) \/ tr_des (goc s3 k) = []) /\
            (ms_all s k = true -> tr_des (goc s3 k) = tr_des (goc s k))).
  { intros k Hk. destruct (L2 k) as [Lo _].
    assert (~ In k (klisted kn)) by (intros C; apply klisted_In in C; congruence).
    destruct (Lo H) as [P1 [P2 P3]]. destruct (U4 k) as [_ [_ Ui]].
    destruct (Ui (in_all_kinds k) P1) as [Q1 [Q2 Q3]]. rewrite U2, P1. rewrite P2, G1 in *.
    split; [reflexivity|split; [auto|split; [auto|]]]. intros Ha. apply Q3. rewrite L1. exact Ha. }
  split; [|split].
  - constructor.
    + intros k. destruct (khas kn k) eqn:Ek.
      * destruct (LISTED k Ek) as [_ [-> _]]. cbn. split; [apply Hh|tauto].
      * destruct (UNL k Ek) as [_ [-> _]]. rewrite (khas_false_kelems _ _ Ek). split; [constructor|tauto].
    + intros k Hp. destruct (khas kn k) eqn:Ek; auto. destruct (UNL k Ek) as [Q _]. congruence.
    + intros k Ha Hs. destruct (khas kn k) eqn:Ek.
      * destruct (LISTED k Ek) as [_ [P2 P3]]. left. rewrite P3, <- P2, Hs. reflexivity.
      * right. apply UNL; auto.
  - constructor; [exact Hh|]. intros k. destruct (khas kn k) eqn:Ek.
    + destruct (LISTED k Ek) as [_ [-> _]]. apply Ii.
    + destruct (UNL k Ek) as [_ [_ [[->| ->] _]]]; [apply Ii|constructor].
  - split.
    + intros k. rewrite U1, L1. reflexivity.
    + intros k Ha. destruct (khas kn k) eqn:Ek.
      * destruct (LISTED k Ek) as [_ [-> _]]. reflexivity.
      * apply UNL; auto.
Qed.

Lemma load_maps_inv : forall s kn ef, MINV s kn -> WINV s kn ->
  MINV (load_maps s kn ef) kn /\ WINV (load_maps s kn ef) kn /\ same_des_on (load_maps s kn ef) s.
Proof.
  intros s kn ef M W. pose proof (load_success_inv s kn W) as LS. cbv zeta in LS.
  unfold load_maps. destruct (klisted kn) as [|a l] eqn:El.
  - exact LS.
  - destruct ef.
    + (* an element listing failed: only the metadata view was cleared *)
      destruct M as [A B Dd]. destruct W as [Hh Ii]. split; [|split].
      * constructor; [exact A|intros k Hp; discriminate|intros k _ _; right; reflexivity].
      * constructor; [exact Hh|exact Ii].
      * split; intros; reflexivity.
    + exact LS.
Qed.

(* ---------- AddOrReplaceMap ---------- *)
Lemma add_or_replace_char : forall s k members,
  let s' := add_or_replace s k members in
  ms_all s' = upd (ms_all s) k true /\ ms_progdp s' = ms_progdp s /\
  goc s' k = {| tr_des := members; tr_dp := tr_dp (goc s k) |} /\
  ms_dirty s' k = negb (in_sync {| tr_des := members; tr_dp := tr_dp (goc s k) |}) /\
  forall k', k' <> k -> goc s' k' = goc s k' /\ ms_dirty s' k' = ms_dirty s k'.
Proof.
  intros s k members. unfold add_or_replace. cbv zeta.
  split; [reflexivity|split; [reflexivity|split; [|split]]].
  - rewrite ud_goc. apply goc_upd_same.
  - rewrite ud_dirty, epkind_eqb_refl, goc_upd_same. reflexivity.
  - intros k' Hne. rewrite ud_goc, ud_dirty. split; [apply goc_upd_other; auto|].
    destruct (epkind_eqb k' k) eqn:E; auto. apply epkind_eqb_eq in E. contradiction.
Qed.

Lemma add_or_replace_inv : forall s kn k members, NoDup members -> MINV s kn -> WINV s kn ->
  MINV (add_or_replace s k members) kn /\ WINV (add_or_replace s k members) kn.
Proof.
  intros s kn k members NDm [A B Dd] [Hh Ii].
  destruct (add_or_replace_char s k members) as [C1 [C2 [C3 [C4 C5]]]]. cbv zeta in *.
  set (s' := add_or_replace s k members) in *.
  assert (kdec : forall k', k' = k \/ k' <> k).
  { intros k'. destruct (epkind_eqb k' k) eqn:E; [left; apply epkind_eqb_eq; auto|right; apply neq_kind; auto]. }
  split; constructor.
  - intros k'. destruct (kdec k') as [->|Hne]; [rewrite C3; apply A|destruct (C5 k' Hne) as [-> _]; apply A].
  - intros k'. rewrite C2. apply B.
  - intros k' Ha Hs. rewrite C2. destruct (kdec k') as [->|Hne].
    + left. rewrite C4. rewrite C3 in Hs. rewrite Hs. reflexivity.
    + destruct (C5 k' Hne) as [G1 G2]. rewrite G1 in Hs. rewrite G2. apply Dd; auto.
      rewrite C1 in Ha. rewrite upd_other in Ha; auto.
  - exact Hh.
  - intros k'. destruct (kdec k') as [->|Hne]; [rewrite C3; exact NDm|destruct (C5 k' Hne) as [-> _]; apply Ii].
Qed.

Lemma map_keys_NoDup : forall names, NoDup (map_keys names).
Proof.
  intros. unfold map_keys. pose proof (sort_names_ss names) as SS.
  destruct (sort_names names) as [|n l]; [constructor|].
  destruct (dedupe_sorted l n SS) as [ND NI]. constructor; auto.
Qed.

(* ---------- the table: resync, failed attempt, retry loop ---------- *)
Lemma load_table_inv : forall ts kn sc, TINV ts kn -> t_recreate ts = false ->
  TINV (fst (load_table ts kn sc)) kn /\ t_recreate (fst (load_table ts kn sc)) = false /\
  same_des_on (t_m (fst (load_table ts kn sc))) (t_m ts).
Proof.
  intros ts kn sc [W M] Hr. unfold load_table.
  destruct (pop (sc_listall sc)) as [la l1]. destruct (pop (sc_elem sc)) as [ef l2].
  destruct la; cbn [fst].
  - split; [constructor; auto|split; [auto|apply same_des_on_refl]].
  - destruct (M Hr) as [M1 _]. destruct (load_maps_inv (t_m ts) kn ef M1 W) as [P1 [P2 P3]].
    split; [|split; [exact Hr|exact P3]].
    constructor; cbn [t_m t_recreate t_hempty]; auto. intros _. split; auto.
    destruct kn; [discriminate|]. intros; discriminate.
Qed.

Lemma apply_updates_fail : forall ts kn sc ts' kn' sc',
  TINV ts kn -> apply_updates ts kn sc = (false, ts', kn', sc') ->
  TINV ts' kn /\ kn' = kn /\ t_recreate ts' = t_recreate ts /\ t_insync ts' = t_insync ts /\
  same_des_on (t_m ts') (t_m ts).
Proof.
  intros ts kn sc ts' kn' sc' [W M] H. unfold apply_updates in H.
  destruct (pop (sc_run sc)) as [rf l1].
  destruct (if rf then None else apply_tx kn _); inversion H; subst. clear H.
  cbn [t_m t_recreate t_insync].
  split; [|split; [reflexivity|split; [reflexivity|split; [reflexivity|]]]].
  - destruct (t_recreate ts) eqn:Er.
    + constructor; cbn [t_m t_recreate]; [|discriminate].
      destruct W as [Hh Ii]. constructor; auto.
      intros k. destruct (get_or_create_invalidate (t_m ts) k) as [-> _]. apply Ii.
    + constructor; cbn [t_m t_recreate t_hempty]; auto.
  - destruct (t_recreate ts).
    + apply same_desired_on. split.
      * intros k. destruct (invalidate_spec (t_m ts)) as [-> _]. reflexivity.
      * intros k. apply get_or_create_invalidate.
    + apply same_des_on_refl.
Qed.

Lemma queue_recreate_inv : forall ts kn, TINV ts kn ->
  TINV (queue_recreate ts) kn /\ t_recreate (queue_recreate ts) = true /\
  (t_recreate ts = false \/ t_insync ts = true -> t_insync (queue_recreate ts) = true) /\
  t_m (queue_recreate ts) = t_m ts.
Proof.
  intros ts kn [W M]. unfold queue_recreate. destruct (t_recreate ts) eqn:Er.
  - split; [constructor; [auto|intros C; congruence]|split; [auto|split; [|reflexivity]]]. intros [C|C]; [discriminate|auto].
  - split; [constructor; cbn; [auto|discriminate]|split; [reflexivity|split; [auto|reflexivity]]].
Qed.

(* Whenever Apply() returns, the kernel holds exactly the desired maps - from ANY state satisfying the
   invariant, under ANY failure schedule, whether it succeeded within the first attempts or after a recreate. *)
Theorem apply_loop_exact : forall retries ts kn sc runs loads,
  TINV ts kn ->
  (t_recreate ts = true -> t_insync ts = true /\ (retries < 6)%nat) ->
  a_ok (apply_loop retries ts kn sc runs loads) = true ->
  TINV (a_ts (apply_loop retries ts kn sc runs loads)) (a_kn (apply_loop retries ts kn sc runs loads)) /\
  t_recreate (a_ts (apply_loop retries ts kn sc runs loads)) = false /\
  synced (t_m (a_ts (apply_loop retries ts kn sc runs loads))) (a_kn (apply_loop retries ts kn sc runs loads)) /\
  same_des_on (t_m (a_ts (apply_loop retries ts kn sc runs loads))) (t_m ts).
Proof.
  induction retries as [|r IH]; intros ts kn sc runs loads HT HR Hok.
  - (* last attempt *)
    cbn [apply_loop] in *.
    assert (HH : exists ts1 sc1 loads1,
              (if t_insync ts then (ts, sc, loads)
               else let (a, b) := load_table ts kn sc in (a, b, S loads)) = (ts1, sc1, loads1)
              /\ TINV ts1 kn /\ same_des_on (t_m ts1) (t_m ts)).
    { destruct (t_insync ts) eqn:Es.
      - exists ts, sc, loads. split; [reflexivity|split; [auto|apply same_des_on_refl]].
      - assert (Er : t_recreate ts = false) by (destruct (t_recreate ts); auto; destruct (HR eq_refl); congruence).
        destruct (load_table_inv ts kn sc HT Er) as [L1 [L2 L3]].
        destruct (load_table ts kn sc) as [a b]. exists a, b, (S loads). cbn [fst] in *. auto. }
    destruct HH as (ts1 & sc1 & loads1 & Heq & T1 & D1). rewrite Heq in *.
    destruct (apply_updates ts1 kn sc1) as [[[ok ts2] kn2] sc2] eqn:E. destruct ok; [|cbn in Hok; discriminate].
    cbn [a_ts a_kn]. destruct (apply_updates_ok _ _ _ _ _ _ T1 E) as [P1 [P2 [P3 P4]]].
    split; [auto|split; [auto|split; [auto|eapply same_des_on_trans; eauto]]].
  - cbn [apply_loop] in *.
    assert (HH : exists ts1 sc1 loads1,
              (if t_insync ts then (ts, sc, loads)
               else let (a, b) := load_table ts kn sc in (a, b, S loads)) = (ts1, sc1, loads1)
              /\ TINV ts1 kn /\ same_des_on (t_m ts1) (t_m ts) /\ t_recreate ts1 = t_recreate ts
              /\ (t_recreate ts1 = false \/ t_insync ts1 = true)).
    { destruct (t_insync ts) eqn:Es.
      - exists ts, sc, loads. split; [reflexivity|split; [auto|split; [apply same_des_on_refl|split; auto]]].
      - assert (Er : t_recreate ts = false) by (destruct (t_recreate ts); auto; destruct (HR eq_refl); congruence).
        destruct (load_table_inv ts kn sc HT Er) as [L1 [L2 L3]].
        destruct (load_table ts kn sc) as [a b]. exists a, b, (S loads). cbn [fst] in *.
        split; [reflexivity|split; [auto|split; [auto|split; [congruence|auto]]]]. }
    destruct HH as (ts1 & sc1 & loads1 & Heq & T1 & D1 & R1 & S1). rewrite Heq in *.
    destruct (apply_updates ts1 kn sc1) as [[[ok ts2] kn2] sc2] eqn:E. destruct ok.
    + cbn [a_ts a_kn]. destruct (apply_updates_ok _ _ _ _ _ _ T1 E) as [P1 [P2 [P3 P4]]].
      split; [auto|split; [auto|split; [auto|eapply same_des_on_trans; eauto]]].
    + destruct (apply_updates_fail _ _ _ _ _ _ T1 E) as [F1 [_ [F3 [F4 F5]]]].
      assert (HT3 : exists ts3 sc3 loads3,
                (if Nat.ltb (S r) 6 then (queue_recreate ts2, sc2, loads1)
                 else let (a, b) := load_table ts2 kn sc2 in (a, b, S loads1)) = (ts3, sc3, loads3)
                /\ TINV ts3 kn /\ same_des_on (t_m ts3) (t_m ts2)
                /\ (t_recreate ts3 = true -> t_insync ts3 = true /\ (r < 6)%nat)).
      { destruct (Nat.ltb (S r) 6) eqn:Elt.
        - apply Nat.ltb_lt in Elt. destruct (queue_recreate_inv ts2 kn F1) as [Q1 [Q2 [Q3 Q4]]].
          exists (queue_recreate ts2), sc2, loads1.
          split; [reflexivity|split; [auto|split; [rewrite Q4; apply same_des_on_refl|]]].
          intros _. split; [|lia]. apply Q3. rewrite F3, F4. exact S1.
        - apply Nat.ltb_ge in Elt.
          assert (Er2 : t_recreate ts2 = false).
          { rewrite F3, R1. destruct (t_recreate ts) eqn:Er; auto. destruct (HR eq_refl). lia. }
          destruct (load_table_inv ts2 kn sc2 F1 Er2) as [L1 [L2 L3]].
          destruct (load_table ts2 kn sc2) as [a b]. exists a, b, (S loads1). cbn [fst] in *.
          split; [reflexivity|split; [auto|split; [auto|]]]. intros C. congruence. }
      destruct HT3 as (ts3 & sc3 & loads3 & Heq3 & T3 & D3 & R3). rewrite Heq3 in *.
      destruct (IH ts3 kn sc3 (S runs) loads3 T3 R3 Hok) as [I1 [I2 [I3 I4]]].
      split; [auto|split; [auto|split; [auto|]]].
      eapply same_des_on_trans; [exact I4|]. eapply same_des_on_trans; [exact D3|].
      eapply same_des_on_trans; [exact F5|exact D1].
Qed.

(* ---------- histories ---------- *)
Definition set_map (ts : tstate) (k : epkind) (names : list name) : tstate :=
  {| t_m := add_or_replace (t_m ts) k (map_keys names); t_insync := t_insync ts;
     t_recreate := t_recreate ts; t_hempty := t_hempty ts |}.

(* States reachable by Felix: start with no table in the kernel; AddOrReplaceMap of dispatch mappings; Apply()
   calls that return, under arbitrary failure schedules.  The kernel component changes ONLY through the
   transactions of apply_table (nobody else writes to the table). *)
Inductive reach : tstate -> kernel -> Prop :=
| reach_init : reach t_init None
| reach_set : forall ts kn k names, reach ts kn -> reach (set_map ts k names) kn
| reach_apply : forall ts kn sc, reach ts kn -> a_ok (apply_table ts kn sc) = true ->
    reach (a_ts (apply_table ts kn sc)) (a_kn (apply_table ts kn sc)).

Lemma init_inv : TINV t_init None.
Proof.
  constructor; cbn.
  - constructor; intros; cbn; constructor.
  - intros _. split; [|discriminate]. constructor; cbn.
    + intros k. split; [constructor|tauto].
    + intros k H. discriminate.
    + intros k H. discriminate.
Qed.

Lemma set_map_inv : forall ts kn k names, TINV ts kn -> t_recreate ts = false ->
  TINV (set_map ts k names) kn.
Proof.
  intros ts kn k names [W M] Hr. destruct (M Hr) as [M1 E1].
  destruct (add_or_replace_inv (t_m ts) kn k (map_keys names) (map_keys_NoDup names) M1 W) as [P1 P2].
  constructor; cbn [set_map t_m t_recreate t_hempty]; auto.
Qed.

Lemma reach_inv : forall ts kn, reach ts kn -> TINV ts kn /\ t_recreate ts = false.
Proof.
  induction 1.
  - split; [apply init_inv|reflexivity].
  - destruct IHreach as [I1 I2]. split; [apply set_map_inv; auto|exact I2].
  - destruct IHreach as [I1 I2]. unfold apply_table in *.
    destruct (apply_loop_exact 10 ts kn sc 0 0 I1) as [P1 [P2 _]]; auto. intros C; congruence.
Qed.

(* c10_maps_sync_exact *)
Theorem maps_sync_exact : forall ts kn sc, reach ts kn ->
  a_ok (apply_table ts kn sc) = true ->
  synced (t_m (a_ts (apply_table ts kn sc))) (a_kn (apply_table ts kn sc)) /\
  same_des_on (t_m (a_ts (apply_table ts kn sc))) (t_m ts).
Proof.
  intros ts kn sc HR Hok. destruct (reach_inv ts kn HR) as [I1 I2]. unfold apply_table in *.
  destruct (apply_loop_exact 10 ts kn sc 0 0 I1) as [_ [_ [P3 P4]]]; auto. intros C; congruence.
Qed.

(* the same from any state whose cached views agree with the kernel (e.g. after a successful resync of an
   arbitrary starting table, see resync_establishes) *)
Theorem maps_sync_exact_from_inv : forall ts kn sc, TINV ts kn -> t_recreate ts = false ->
  a_ok (apply_table ts kn sc) = true ->
  synced (t_m (a_ts (apply_table ts kn sc))) (a_kn (apply_table ts kn sc)) /\
  same_des_on (t_m (a_ts (apply_table ts kn sc))) (t_m ts) /\
  TINV (a_ts (apply_table ts kn sc)) (a_kn (apply_table ts kn sc)).
Proof.
  intros ts kn sc I1 I2 Hok. unfold apply_table in *.
  destruct (apply_loop_exact 10 ts kn sc 0 0 I1) as [P1 [_ [P3 P4]]]; auto. intros C; congruence.
Qed.

(* An arbitrary starting table: a resync whose listings all succeed establishes the invariant, whatever the
   kernel holds (only: each kernel map lists a key once) and whatever the views were before. *)
Theorem resync_establishes : forall s kn, WINV s kn ->
  let s3 := fold_left load_unseen all_kinds (fold_left (load_one kn) (klisted kn)
              {| ms_all := ms_all s; ms_progdp := kempty; ms_trk := ms_trk s; ms_dirty := ms_dirty s |}) in
  MINV s3 kn /\ WINV s3 kn /\ same_des_on s3 s.
Proof. exact load_success_inv. Qed.

(* ---------- composed with part 1 ---------- *)
Lemma set_map_desired : forall ts k names,
  ms_all (t_m (set_map ts k names)) k = true /\
  forall x, In x (tr_des (goc (t_m (set_map ts k names)) k)) <-> In x names.
Proof.
  intros ts k names. cbn [set_map t_m].
  destruct (add_or_replace_char (t_m ts) k (map_keys names)) as [C1 [_ [C3 _]]]. cbv zeta in *.
  split; [rewrite C1; apply upd_same|]. rewrite C3. cbn [tr_des]. intros x.
  rewrite <- !mem_In. rewrite map_keys_mem. tauto.
Qed.

(* After any reachable history, when Apply() returns: for every dispatch map k whose desired content is the
   DispatchMappings of interface set `names`, the rendered nftables dispatch chain evaluated over the KERNEL's
   verdict map hands every known interface to its own chain and drops every other interface. *)
Theorem maps_history_dispatch_exact : forall ts kn sc k names pk, reach ts kn ->
  ms_all (t_m ts) k = true ->
  (forall x, In x (tr_des (goc (t_m ts) k)) <-> In x names) ->
  a_ok (apply_table ts kn sc) = true ->
  let kn' := a_kn (apply_table ts kn sc) in
  khas kn' k = true /\
  eval 42 (vmap_ruleset k (map (fun n => (n, AGoto (CEp k n))) (sort_names (kelems kn' k)))) pk (CRoot k) =
  spec_workload false k names (pkt_if (kind_dir k) pk).
Proof.
  intros ts kn sc k names pk HR Ha Hd Hok. cbv zeta.
  destruct (maps_sync_exact ts kn sc HR Hok) as [S1 [D1 D2]].
  apply (synced_dispatch_exact (t_m (a_ts (apply_table ts kn sc)))); auto.
  - rewrite D1. exact Ha.
  - intros x. rewrite D2 by auto. apply Hd.
Qed.

(* ---------- the part-2 oracle accepts every run of the model ---------- *)
Definition des_rel (d : desired) (s : mstate) : Prop :=
  forall k names, In (k, names) d -> ms_all s k = true /\ forall x, In x (tr_des (goc s k)) <-> In x names.

Lemma find_kmap_render : forall (F : epkind -> vmap) l k, In k l ->
  find_kmap k (map (fun k' => (k', F k')) l) = Some (F k).
Proof.
  induction l as [|a l IH]; intros k Hk; [inversion Hk|]. unfold find_kmap in *. cbn [map find fst].
  destruct (epkind_eqb a k) eqn:E.
  - apply epkind_eqb_eq in E. subst. reflexivity.
  - apply IH. destruct Hk as [->|Hk]; auto. rewrite epkind_eqb_refl in E. discriminate.
Qed.

Lemma map_exact_ok : forall k names L, (forall x, In x L <-> In x names) ->
  map_exact k names (map (fun n => (n, AGoto (CEp k n))) L) = true.
Proof.
  intros k names L H. unfold map_exact. apply andb_true_iff. split; apply forallb_forall.
  - intros e He. apply in_map_iff in He. destruct He as [n [<- Hn]]. cbn [fst snd].
    apply andb_true_iff. split; [apply mem_In, H, Hn|]. cbn. rewrite epkind_eqb_refl, name_eqb_refl. reflexivity.
  - intros n Hn. apply existsb_exists. exists (n, AGoto (CEp k n)). split; [|apply name_eqb_refl].
    apply in_map_iff. exists n. split; auto. apply H. exact Hn.
Qed.

Lemma dispatch_ok_ok : forall k names others elems, (forall x, In x elems <-> In x names) ->
  dispatch_ok k names others (map (fun n => (n, AGoto (CEp k n))) (sort_names elems)) = true.
Proof.
  intros k names others elems H. unfold dispatch_ok. apply forallb_forall. intros i _.
  rewrite (kernel_vmap_dispatch k elems names _ H), pkt_if_mk. apply result_eqb_refl.
Qed.

Lemma obs_ok_synced : forall d s kn runs loads, des_rel d s -> synced s kn ->
  obs_ok d {| o_panicked := false; o_runs := runs; o_loads := loads; o_kernel := render_kernel kn |} = true.
Proof.
  intros d s kn runs loads HR HS. unfold obs_ok. cbn [o_panicked o_kernel].
  destruct kn as [t|]; cbn [render_kernel].
  - apply forallb_forall. intros [k names] Hp. cbn [fst snd].
    destruct (HR k names Hp) as [Ha Hd]. destruct (HS k Ha) as [Hk He].
    match goal with |- context [find_kmap ?a ?b] =>
      replace (find_kmap a b) with (Some (map (fun n => (n, AGoto (CEp k n))) (sort_names (kelems (Some t) k))))
        by (symmetry; apply (find_kmap_render (fun k' => map (fun n => (n, AGoto (CEp k' n))) (sort_names (kelems (Some t) k'))));
            apply klisted_In; exact Hk) end.
    assert (EQ : forall x, In x (kelems (Some t) k) <-> In x names) by (intros x; rewrite He; apply Hd).
    apply andb_true_iff. split.
    + apply map_exact_ok. intros x. rewrite sort_names_In. apply EQ.
    + apply dispatch_ok_ok. exact EQ.
  - destruct d as [|[k names] d]; [reflexivity|]. exfalso.
    destruct (HR k names (or_introl eq_refl)) as [Ha _]. destruct (HS k Ha) as [Hk _]. discriminate.
Qed.

Lemma des_rel_set : forall d ts k names, des_rel d (t_m ts) ->
  des_rel (set_desired d k names) (t_m (set_map ts k names)).
Proof.
  intros d ts k names HR k' names' Hin. unfold set_desired in Hin. destruct Hin as [Heq|Hin].
  - inversion Heq; subst. apply set_map_desired.
  - apply filter_In in Hin. destruct Hin as [Hin Hne]. cbn [fst] in Hne.
    assert (k' <> k) by (intros ->; rewrite epkind_eqb_refl in Hne; discriminate).
    destruct (HR k' names' Hin) as [Ha Hd]. cbn [set_map t_m].
    destruct (add_or_replace_char (t_m ts) k (map_keys names)) as [C1 [_ [_ [_ C5]]]]. cbv zeta in *.
    destruct (C5 k' H) as [G _]. rewrite C1, G. rewrite upd_other by auto. auto.
Qed.

Lemma des_rel_same : forall d a b, des_rel d b -> same_des_on a b -> des_rel d a.
Proof.
  intros d a b HR [S1 S2] k names Hin. destruct (HR k names Hin) as [Ha Hd].
  split; [rewrite S1; auto|]. intros x. rewrite S2 by auto. apply Hd.
Qed.

Theorem maps_model_meets_spec_gen : forall ops ts kn d, reach ts kn -> des_rel d (t_m ts) ->
  ok_history d ops (run_ops ts kn ops) = true.
Proof.
  induction ops as [|o ops IH]; intros ts kn d HR HD; [reflexivity|].
  destruct o as [k names|sc]; cbn [run_ops ok_history].
  - apply (IH (set_map ts k names) kn); [apply reach_set; auto|apply des_rel_set; auto].
  - destruct (a_ok (apply_table ts kn sc)) eqn:Eok; cbn [negb o_panicked].
    + destruct (maps_sync_exact ts kn sc HR Eok) as [S1 S2].
      rewrite (obs_ok_synced d (t_m (a_ts (apply_table ts kn sc)))) by (auto; eapply des_rel_same; eauto).
      cbn [andb]. apply IH; [apply reach_apply; auto|eapply des_rel_same; eauto].
    + reflexivity.
Qed.

Theorem maps_model_meets_spec : forall ops, ok_history [] ops (run_ops t_init None ops) = true.
Proof. intros. apply maps_model_meets_spec_gen; [apply reach_init|]. intros k names []. Qed.
