(* C10 — proofs about the dispatch model (see Props.v for the statements that matter). *)
From Coq Require Import List NArith Bool Arith Lia.
From Verif.C10 Require Import Nf Model Spec.
Import ListNotations.
Open Scope N_scope.

(* ---------- names ---------- *)
Lemma name_eqb_refl : forall a, name_eqb a a = true.
Proof. induction a; simpl; auto. rewrite N.eqb_refl; auto. Qed.

Lemma name_eqb_eq : forall a b, name_eqb a b = true <-> a = b.
Proof.
  induction a; destruct b; simpl; split; intros H; try discriminate; auto.
  - apply andb_true_iff in H. destruct H as [H1 H2]. apply N.eqb_eq in H1. apply IHa in H2. subst; auto.
  - inversion H; subst. rewrite N.eqb_refl. simpl. apply IHa; auto.
Qed.

Lemma name_eqb_neq : forall a b, name_eqb a b = false <-> a <> b.
Proof.
  intros. split; intros H.
  - intros E. apply name_eqb_eq in E. congruence.
  - destruct (name_eqb a b) eqn:E; auto. apply name_eqb_eq in E. contradiction.
Qed.

Lemma is_prefix_app : forall p s, is_prefix p (p ++ s) = true.
Proof. induction p; simpl; auto. intros. rewrite N.eqb_refl; simpl; auto. Qed.

Lemma is_prefix_iff : forall p s, is_prefix p s = true <-> exists t, s = p ++ t.
Proof.
  induction p; simpl; intros.
  - split; eauto.
  - destruct s.
    + split; [discriminate|]. intros [t H]. discriminate.
    + split.
      * intros H. apply andb_true_iff in H. destruct H as [H1 H2]. apply N.eqb_eq in H1.
        apply IHp in H2. destruct H2 as [t ->]. subst. eauto.
      * intros [t H]. inversion H; subst. rewrite N.eqb_refl. simpl. apply is_prefix_app.
Qed.

(* ---------- pattern semantics ---------- *)
Lemma pat_cons2 : forall wc c d p i,
  pat_matches wc (c :: d :: p) i =
  match i with [] => false | x :: i' => N.eqb c x && pat_matches wc (d :: p) i' end.
Proof. reflexivity. Qed.

Lemma pat_wild : forall wc p i, pat_matches wc (p ++ [wc]) i = is_prefix p i.
Proof.
  induction p; intros.
  - simpl. rewrite N.eqb_refl. reflexivity.
  - destruct p as [|b p'].
    + simpl. destruct i; auto. rewrite N.eqb_refl. reflexivity.
    + change ((a :: b :: p') ++ [wc]) with (a :: b :: (p' ++ [wc])).
      rewrite pat_cons2. simpl is_prefix. destruct i; auto.
      change (b :: p' ++ [wc]) with ((b :: p') ++ [wc]). rewrite IHp. reflexivity.
Qed.

Lemma name_eqb_sym : forall a b, name_eqb a b = name_eqb b a.
Proof.
  intros. destruct (name_eqb a b) eqn:E.
  - apply name_eqb_eq in E. subst. symmetry. apply name_eqb_refl.
  - symmetry. apply name_eqb_neq. apply name_eqb_neq in E. congruence.
Qed.

Lemma pat_plain : forall wc n i, name_plain wc n = true -> pat_matches wc n i = name_eqb n i.
Proof.
  induction n as [|c n IH]; intros i H; [discriminate|].
  destruct n as [|d n'].
  - simpl in H. simpl pat_matches. destruct (c =? wc); [discriminate|reflexivity].
  - rewrite pat_cons2. change (name_plain wc (c :: d :: n')) with (name_plain wc (d :: n')) in H.
    destruct i; [reflexivity|]. rewrite IH by assumption. reflexivity.
Qed.

Lemma name_plain_nonempty : forall wc n, name_plain wc n = true -> n <> [].
Proof. intros wc [|] H; [discriminate|congruence]. Qed.

Lemma mem_In : forall n l, mem n l = true <-> In n l.
Proof.
  intros. unfold mem. rewrite existsb_exists. split.
  - intros [x [H1 H2]]. apply name_eqb_eq in H2. subst; auto.
  - intros H. exists n. split; auto. apply name_eqb_refl.
Qed.

Lemma mem_false : forall n l, mem n l = false <-> ~ In n l.
Proof.
  intros. split; intros H.
  - intros HI. apply mem_In in HI. congruence.
  - destruct (mem n l) eqn:E; auto. apply mem_In in E. contradiction.
Qed.

Lemma mem_app : forall n a b, mem n (a ++ b) = mem n a || mem n b.
Proof. intros. unfold mem. apply existsb_app. Qed.

(* ---------- machine: one-step equations ---------- *)
Section Machine.
Variables (wc : N) (rs : ruleset) (pk : packet).

Lemma run_nil_nil : forall f, run (S f) wc rs pk [] [] = RReturn.
Proof. reflexivity. Qed.

Lemma run_nomatch : forall f m a rest st, match_pkt wc m pk = false ->
  run (S f) wc rs pk (Rule m a :: rest) st = run f wc rs pk rest st.
Proof. intros. simpl. rewrite H. reflexivity. Qed.

Lemma run_goto_ep : forall f m k n rest st, match_pkt wc m pk = true ->
  run (S f) wc rs pk (Rule m (AGoto (CEp k n)) :: rest) st = REndpoint k n.
Proof. intros. simpl. rewrite H. reflexivity. Qed.

Lemma run_goto_child : forall f m k s rest st rules, match_pkt wc m pk = true ->
  find_chain (CChild k s) (rs_chains rs) = Some rules ->
  run (S f) wc rs pk (Rule m (AGoto (CChild k s)) :: rest) st = run f wc rs pk rules st.
Proof. intros. simpl. rewrite H, H0. reflexivity. Qed.

Lemma run_return : forall f m rest, match_pkt wc m pk = true ->
  run (S (S f)) wc rs pk (Rule m AReturn :: rest) [] = RReturn.
Proof. intros. simpl. rewrite H. reflexivity. Qed.

Lemma run_terminal : forall f m a rest st r, match_pkt wc m pk = true ->
  (a = ADrop /\ r = RDrop) \/ (a = AReject /\ r = RReject) \/ (a = AAccept /\ r = RAccept) ->
  run (S f) wc rs pk (Rule m a :: rest) st = r.
Proof. intros. simpl. rewrite H. destruct H0 as [[-> ->]|[[-> ->]|[-> ->]]]; reflexivity. Qed.

Lemma match_iface : forall d pat, match_pkt wc (MIface d pat) pk = pat_matches wc pat (pkt_if d pk).
Proof. reflexivity. Qed.

(* scanning a run of exact-name rules that hand over to the endpoint chains of kind k *)
Lemma scan_exact : forall k E ns f st,
  Forall (fun n => name_plain wc n = true) ns ->
  (length ns < f)%nat ->
  run f wc rs pk (map (ep_rule k) ns ++ E) st =
  if mem (pkt_if (kind_dir k) pk) ns then REndpoint k (pkt_if (kind_dir k) pk)
  else run (f - length ns) wc rs pk E st.
Proof.
  induction ns as [|n ns IH]; intros f st HP Hf.
  - simpl. rewrite Nat.sub_0_r. reflexivity.
  - inversion HP; subst. destruct f as [|f]; [simpl in Hf; lia|].
    cbn [map app]. unfold ep_rule at 1.
    destruct (name_eqb n (pkt_if (kind_dir k) pk)) eqn:En.
    + rewrite run_goto_ep by (rewrite match_iface, pat_plain; auto).
      apply name_eqb_eq in En. subst n. unfold mem. simpl. rewrite name_eqb_refl. reflexivity.
    + rewrite run_nomatch by (rewrite match_iface, pat_plain; auto).
      rewrite IH; auto; [|simpl in Hf; lia].
      unfold mem. simpl. rewrite name_eqb_sym, En. simpl. reflexivity.
Qed.
End Machine.

(* ---------- the prefix tree, for any grouping that satisfies the stated conditions ---------- *)
Definition all_names (gs : groups) : list name := concat (map snd gs).

Lemma is_multi_cases : forall ns, is_multi ns = false -> ns = [] \/ exists n, ns = [n].
Proof.
  intros [|a [|b l]] H; auto; [right; eauto|]. unfold is_multi in H. simpl in H. discriminate.
Qed.

Section Tree.
Variables (wc : N) (rs : ruleset) (pk : packet) (ix : name) (k : epkind) (cp : name).
Variables (E Ec : list rule) (rE rEc : result).   (* end of the root chain / end of every child chain *)
Let i := pkt_if (kind_dir k) pk.
Variables B NE : nat.
Hypothesis HE : forall f, (NE < f)%nat -> run f wc rs pk E [] = rE.
Hypothesis HEc : forall f, (length Ec < f)%nat -> run f wc rs pk Ec [] = rEc.

(* a probe that is in no group but matches the prefix pattern of a group with a child chain ends in that child *)
Definition captured (gs : groups) (i : name) : bool :=
  existsb (fun g => is_multi (snd g) && is_prefix (fst g) i) gs.

Lemma root_scan : forall gs f,
  Forall (fun n => name_plain wc n = true) (all_names gs) ->
  (forall g, In g gs -> is_multi (snd g) = true ->
     find_chain (child_id ix k cp (fst g)) (rs_chains rs) = Some (map (ep_rule k) (snd g) ++ Ec)
     /\ (length (snd g) + length Ec < B)%nat) ->
  (forall g n, In g gs -> In n (snd g) -> is_prefix (fst g) n = true) ->
  (forall g, In g gs -> is_multi (snd g) = true -> is_prefix (fst g) i = true ->
     In i (all_names gs) -> In i (snd g)) ->
  (length (flat_map (root_rule wc ix k cp) gs) + NE + B < f)%nat ->
  run f wc rs pk (flat_map (root_rule wc ix k cp) gs ++ E) [] =
  if mem i (all_names gs) then REndpoint k i else if captured gs i then rEc else rE.
Proof.
  induction gs as [|[p ns] gs IH]; intros f HP Hfind Hpre Hcap Hf.
  - simpl. apply HE. simpl in Hf. lia.
  - unfold all_names in *. cbn [map concat flat_map snd fst] in *.
    apply Forall_app in HP. destruct HP as [HPns HPrest].
    assert (IH' : forall f', (length (flat_map (root_rule wc ix k cp) gs) + NE + B < f')%nat ->
              run f' wc rs pk (flat_map (root_rule wc ix k cp) gs ++ E) [] =
              if mem i (concat (map snd gs)) then REndpoint k i else if captured gs i then rEc else rE).
    { intros f' Hf'. apply IH; auto.
      - intros g Hg. apply Hfind. right; auto.
      - intros g n Hg. apply (Hpre g n). right; auto.
      - intros g Hg Hm Hpi Hin. apply Hcap; auto. right; auto. apply in_or_app. right; auto. }
    rewrite mem_app. unfold root_rule at 1. unfold root_rule at 1 in Hf. cbn [snd fst] in Hf |- *.
    unfold captured. cbn [existsb fst snd]. fold (captured gs i).
    destruct (is_multi ns) eqn:Em.
    + (* child chain *)
      rewrite app_length in Hf. cbn [length] in Hf.
      destruct f as [|f]; [lia|]. cbn [app].
      destruct (Hfind (p, ns) (or_introl eq_refl) Em) as [Hfc Hsz]. cbn [fst snd] in Hfc, Hsz.
      destruct (is_prefix p i) eqn:Epi.
      * unfold child_id in *. rewrite (run_goto_child _ _ _ _ _ _ _ _ _ (map (ep_rule k) ns ++ Ec))
          by (auto; rewrite match_iface, pat_wild; exact Epi).
        rewrite scan_exact by (auto; lia). fold i.
        destruct (mem i ns) eqn:Emi; [reflexivity|].
        rewrite HEc by lia. simpl.
        destruct (mem i (concat (map snd gs))) eqn:Emr; [|reflexivity].
        exfalso. apply mem_false in Emi. apply Emi.
        apply (Hcap (p, ns)); auto. left; auto. apply in_or_app. right. apply mem_In. exact Emr.
      * rewrite run_nomatch by (rewrite match_iface, pat_wild; exact Epi).
        rewrite IH' by lia.
        assert (mem i ns = false) as ->; [|reflexivity].
        apply mem_false. intros Hin. specialize (Hpre (p, ns) i (or_introl eq_refl) Hin).
        cbn [fst] in Hpre. congruence.
    + cbn [andb orb]. apply is_multi_cases in Em. destruct Em as [->|[n ->]].
      * simpl. apply IH'. simpl in Hf. exact Hf.
      * cbn [app length] in *. destruct f as [|f]; [lia|].
        inversion HPns; subst. fold (ep_rule k n).
        destruct (name_eqb n i) eqn:En.
        -- unfold ep_rule. rewrite run_goto_ep by (rewrite match_iface, pat_plain; auto).
           apply name_eqb_eq in En. subst n. unfold mem at 1. simpl. fold i. rewrite name_eqb_refl. reflexivity.
        -- unfold ep_rule. rewrite run_nomatch by (rewrite match_iface, pat_plain; auto).
           rewrite IH' by lia. unfold mem at 1. simpl. rewrite name_eqb_sym, En. reflexivity.
Qed.
End Tree.

(* ---------- sort.Strings order ---------- *)
Lemma lex_leb_refl : forall a, lex_leb a a = true.
Proof. induction a; simpl; auto. rewrite N.ltb_irrefl, N.eqb_refl. auto. Qed.

Lemma lex_leb_total : forall a b, lex_leb a b = false -> lex_leb b a = true.
Proof.
  induction a; destruct b; simpl; intros H; try discriminate; auto.
  destruct (N.ltb_spec a n); [discriminate|].
  destruct (N.eqb_spec a n).
  - subst. rewrite N.ltb_irrefl, N.eqb_refl. auto.
  - destruct (N.ltb_spec n a); auto. lia.
Qed.

Lemma lex_leb_trans : forall a b c, lex_leb a b = true -> lex_leb b c = true -> lex_leb a c = true.
Proof.
  induction a; destruct b, c; simpl; intros H1 H2; try discriminate; auto.
  destruct (N.ltb_spec a n), (N.ltb_spec n n0), (N.ltb_spec a n0); auto; try lia;
    destruct (N.eqb_spec a n), (N.eqb_spec n n0), (N.eqb_spec a n0); try discriminate; try lia; eauto.
Qed.

Lemma lex_leb_antisym : forall a b, lex_leb a b = true -> lex_leb b a = true -> a = b.
Proof.
  induction a; destruct b; simpl; intros H1 H2; try discriminate; auto.
  destruct (N.ltb_spec a n), (N.ltb_spec n a); try lia;
    destruct (N.eqb_spec a n), (N.eqb_spec n a); try discriminate; try lia.
  subst. f_equal. auto.
Qed.

Definition lex_le (a b : name) : Prop := lex_leb a b = true.

From Coq Require Import Sorted Permutation.

Lemma insert_sorted_perm : forall n l, Permutation (n :: l) (insert_sorted n l).
Proof.
  induction l; simpl; auto. destruct (lex_leb n a); auto.
  eapply perm_trans; [apply perm_swap|]. constructor. auto.
Qed.

Lemma sort_names_perm : forall l, Permutation l (sort_names l).
Proof.
  induction l; simpl; auto. eapply perm_trans; [|apply insert_sorted_perm]. constructor; auto.
Qed.

Lemma insert_sorted_ss : forall n l, StronglySorted lex_le l -> StronglySorted lex_le (insert_sorted n l).
Proof.
  induction l; intros H; simpl.
  - constructor; constructor.
  - inversion H; subst. destruct (lex_leb n a) eqn:E.
    + constructor; auto. constructor; auto.
      eapply Forall_impl; [|exact H3]. intros x Hx. eapply lex_leb_trans; eauto.
    + constructor; auto.
      eapply Permutation_Forall; [apply insert_sorted_perm|]. constructor; auto.
      apply lex_leb_total; auto.
Qed.

Lemma sort_names_ss : forall l, StronglySorted lex_le (sort_names l).
Proof. induction l; simpl; [constructor|]. apply insert_sorted_ss; auto. Qed.

Lemma sort_names_In : forall n l, In n (sort_names l) <-> In n l.
Proof.
  intros. split; intros H.
  - eapply Permutation_in; [apply Permutation_sym, sort_names_perm|]; auto.
  - eapply Permutation_in; [apply sort_names_perm|]; auto.
Qed.

(* ---------- dropping adjacent duplicates of a sorted list ---------- *)
Lemma dedupe_In : forall l last m, In m (dedupe_adjacent last l) \/ m = last <-> In m l \/ m = last.
Proof.
  induction l; intros last m; simpl; [tauto|].
  destruct (name_eqb a last) eqn:E.
  - apply name_eqb_eq in E. subst a. rewrite IHl. intuition (subst; auto).
  - simpl. specialize (IHl a m). intuition (subst; auto).
Qed.

Lemma dedupe_sorted : forall l last, StronglySorted lex_le (last :: l) ->
  NoDup (dedupe_adjacent last l) /\ ~ In last (dedupe_adjacent last l).
Proof.
  induction l; intros last H; simpl.
  - split; [constructor|auto].
  - inversion H; subst. inversion H2; subst. inversion H3; subst.
    destruct (name_eqb a last) eqn:E.
    + apply IHl. constructor; auto.
    + destruct (IHl a H2) as [ND NI]. split.
      * constructor; auto.
      * simpl. intros [Ha|Hin].
        -- subst. rewrite name_eqb_refl in E. discriminate.
        -- (* last <= a <= everything in l, so last in the rest forces a = last *)
           assert (In last l).
           { destruct (proj1 (dedupe_In l a last) (or_introl Hin)) as [?|?]; auto.
             subst. rewrite name_eqb_refl in E. discriminate. }
           rewrite Forall_forall in H5. specialize (H5 _ H0).
           assert (a = last) by (apply lex_leb_antisym; auto).
           subst. rewrite name_eqb_refl in E. discriminate.
Qed.

(* ---------- CommonPrefix ---------- *)
Lemma cp2_prefix_l : forall a b, is_prefix (common_prefix2 a b) a = true.
Proof.
  induction a; destruct b; simpl; auto. destruct (N.eqb_spec a n); simpl; auto.
  rewrite N.eqb_refl. simpl. auto.
Qed.

Lemma cp2_prefix_r : forall a b, is_prefix (common_prefix2 a b) b = true.
Proof.
  induction a; destruct b; simpl; auto. destruct (N.eqb_spec a n); simpl; auto.
  subst. rewrite N.eqb_refl. simpl. auto.
Qed.

Lemma is_prefix_trans : forall a b c, is_prefix a b = true -> is_prefix b c = true -> is_prefix a c = true.
Proof.
  intros a b c H1 H2. apply is_prefix_iff in H1. apply is_prefix_iff in H2.
  destruct H1 as [t ->]. destruct H2 as [u ->]. rewrite <- app_assoc. apply is_prefix_app.
Qed.

Lemma fold_cp2_prefix : forall r a,
  is_prefix (fold_left common_prefix2 r a) a = true /\
  forall n, In n r -> is_prefix (fold_left common_prefix2 r a) n = true.
Proof.
  induction r; intros; simpl.
  - split; [|tauto]. apply is_prefix_iff. exists []. rewrite app_nil_r. auto.
  - destruct (IHr (common_prefix2 a0 a)) as [H1 H2]. split.
    + eapply is_prefix_trans; [exact H1|apply cp2_prefix_l].
    + intros n [->|Hn]; auto. eapply is_prefix_trans; [exact H1|apply cp2_prefix_r].
Qed.

Lemma common_prefix_spec : forall l n, In n l -> is_prefix (common_prefix l) n = true.
Proof.
  intros [|a r] n H; [inversion H|]. unfold common_prefix.
  destruct (fold_cp2_prefix r a) as [H1 H2]. destruct H as [->|H]; auto.
Qed.

(* ---------- key (bin) of a name ---------- *)
Lemma is_prefix_length : forall p s, is_prefix p s = true -> (length p <= length s)%nat.
Proof. intros p s H. apply is_prefix_iff in H. destruct H as [t ->]. rewrite app_length. lia. Qed.

Lemma is_prefix_refl : forall p, is_prefix p p = true.
Proof. intros. apply is_prefix_iff. exists []. rewrite app_nil_r; auto. Qed.

Lemma key_long_len : forall cp n, (length cp < length n)%nat -> length (key cp n) = S (length cp).
Proof.
  intros. unfold key. destruct (Nat.ltb_spec (length cp) (length n)); [|lia].
  rewrite firstn_length. lia.
Qed.

Lemma key_prefix_of_name : forall cp n, is_prefix cp n = true -> is_prefix (key cp n) n = true.
Proof.
  intros. unfold key. destruct (Nat.ltb_spec (length cp) (length n)); auto.
  apply is_prefix_iff. exists (skipn (S (length cp)) n). symmetry. apply firstn_skipn.
Qed.

Lemma key_has_cp : forall cp n, is_prefix cp n = true -> is_prefix cp (key cp n) = true.
Proof.
  intros cp n H. unfold key. destruct (Nat.ltb_spec (length cp) (length n)); [|apply is_prefix_refl].
  apply is_prefix_iff in H. destruct H as [t ->]. apply is_prefix_iff.
  exists (firstn 1 t). rewrite firstn_app.
  replace (S (length cp) - length cp)%nat with 1%nat by lia.
  rewrite firstn_all2 by lia. reflexivity.
Qed.

Lemma key_short : forall cp n, is_prefix cp n = true -> ~ (length cp < length n)%nat -> n = cp.
Proof.
  intros cp n H L. apply is_prefix_iff in H. destruct H as [t ->].
  rewrite app_length in L. destruct t; [apply app_nil_r|]. simpl in L. lia.
Qed.

Lemma key_of_extension : forall cp m i, (length cp < length m)%nat ->
  is_prefix (key cp m) i = true -> key cp i = key cp m.
Proof.
  intros cp m i L H. pose proof (key_long_len cp m L) as KL.
  apply is_prefix_iff in H. destruct H as [t ->].
  unfold key at 1. rewrite app_length, KL.
  destruct (Nat.ltb_spec (length cp) (S (length cp) + length t)); [|lia].
  rewrite firstn_app, KL. replace (S (length cp) - S (length cp))%nat with 0%nat by lia.
  simpl firstn at 2. rewrite app_nil_r. apply firstn_all2. lia.
Qed.

(* ---------- the grouping loop ---------- *)
Definition group_all (cp : name) (D : list name) (acc : groups) : groups :=
  fold_left (fun acc n => add_group (key cp n) n acc) D acc.

Lemma divide_loop_eq : forall cp l last acc, (forall n, In n l -> n <> []) ->
  divide_loop cp last l acc = Some (group_all cp (dedupe_adjacent last l) acc).
Proof.
  induction l as [|n l IH]; intros last acc H; simpl; auto.
  destruct n as [|c n']; [exfalso; apply (H []); simpl; auto|].
  destruct (name_eqb (c :: n') last).
  - apply IH. intros; apply H; simpl; auto.
  - rewrite IH by (intros; apply H; simpl; auto). reflexivity.
Qed.

Lemma add_group_keys : forall k n gs,
  map fst (add_group k n gs) = if mem k (map fst gs) then map fst gs else map fst gs ++ [k].
Proof.
  induction gs as [|[k' ns] gs IH]; simpl; auto.
  unfold mem in *. simpl. destruct (name_eqb k k') eqn:E; simpl; auto.
  rewrite IH. destruct (existsb (name_eqb k) (map fst gs)); auto.
Qed.

Lemma NoDup_snoc : forall (l : list name) x, NoDup l -> ~ In x l -> NoDup (l ++ [x]).
Proof.
  induction l; intros x ND NI; simpl.
  - constructor; auto.
  - inversion ND; subst. constructor.
    + intros Hin. apply in_app_or in Hin. destruct Hin as [?|[?|[]]]; auto. subst. apply NI; simpl; auto.
    + apply IHl; auto. intros ?. apply NI; simpl; auto.
Qed.

Lemma add_group_NoDup : forall k n gs, NoDup (map fst gs) -> NoDup (map fst (add_group k n gs)).
Proof.
  intros. rewrite add_group_keys. destruct (mem k (map fst gs)) eqn:E; auto.
  apply mem_false in E. apply NoDup_snoc; auto.
Qed.

Lemma add_group_perm : forall k n gs, Permutation (all_names (add_group k n gs)) (n :: all_names gs).
Proof.
  unfold all_names. induction gs as [|[k' ns] gs IH]; simpl; auto.
  destruct (name_eqb k k'); simpl.
  - rewrite <- app_assoc. simpl. apply Permutation_sym. apply Permutation_middle.
  - eapply perm_trans; [apply Permutation_app_head; exact IH|].
    apply Permutation_sym. apply Permutation_middle.
Qed.

Lemma add_group_keyinv : forall cp n gs,
  (forall g m, In g gs -> In m (snd g) -> key cp m = fst g) ->
  (forall g m, In g (add_group (key cp n) n gs) -> In m (snd g) -> key cp m = fst g).
Proof.
  induction gs as [|[k' ns] gs IH]; intros H g m Hg Hm; simpl in Hg.
  - destruct Hg as [<-|[]]. simpl in *. destruct Hm as [<-|[]]. auto.
  - destruct (name_eqb (key cp n) k') eqn:E.
    + destruct Hg as [<-|Hg].
      * simpl in *. apply in_app_or in Hm. destruct Hm as [Hm|[<-|[]]].
        -- apply (H (k', ns) m); simpl; auto.
        -- apply name_eqb_eq in E. auto.
      * apply (H g m); simpl; auto.
    + destruct Hg as [<-|Hg].
      * apply (H (k', ns) m); simpl; auto.
      * apply IH; auto. intros g' m' Hg' Hm'. apply (H g' m'); simpl; auto.
Qed.

Lemma group_all_props : forall cp D acc,
  NoDup (map fst acc) ->
  (forall g m, In g acc -> In m (snd g) -> key cp m = fst g) ->
  NoDup (map fst (group_all cp D acc))
  /\ (forall g m, In g (group_all cp D acc) -> In m (snd g) -> key cp m = fst g)
  /\ Permutation (all_names (group_all cp D acc)) (D ++ all_names acc).
Proof.
  induction D as [|n D IH]; intros acc ND KI; simpl.
  - repeat split; auto.
  - destruct (IH (add_group (key cp n) n acc)) as [H1 [H2 H3]].
    + apply add_group_NoDup; auto.
    + apply add_group_keyinv; auto.
    + repeat split; auto.
      eapply perm_trans; [exact H3|].
      eapply perm_trans; [apply Permutation_app_head; apply add_group_perm|].
      apply Permutation_sym. apply Permutation_middle.
Qed.

(* what the tree lemma needs to know about a grouping *)
Record good_groups (cp : name) (gs : groups) : Prop := {
  gg_keys : NoDup (map fst gs);
  gg_key : forall g m, In g gs -> In m (snd g) -> key cp m = fst g;
  gg_nodup : NoDup (all_names gs);
  gg_cp : forall m, In m (all_names gs) -> is_prefix cp m = true }.

Lemma keys_unique : forall (gs : groups) p a b, NoDup (map fst gs) -> In (p, a) gs -> In (p, b) gs -> a = b.
Proof.
  induction gs as [|[q c] gs IH]; intros p a b ND Ha Hb; [inversion Ha|].
  simpl in ND. inversion ND; subst.
  destruct Ha as [Ha|Ha], Hb as [Hb|Hb].
  - congruence.
  - inversion Ha; subst. exfalso. apply H1. apply (in_map fst) in Hb. exact Hb.
  - inversion Hb; subst. exfalso. apply H1. apply (in_map fst) in Ha. exact Ha.
  - eapply IH; eauto.
Qed.

Lemma in_all_names : forall (gs : groups) g m, In g gs -> In m (snd g) -> In m (all_names gs).
Proof. intros. unfold all_names. apply in_concat. exists (snd g). split; auto. apply in_map; auto. Qed.

Lemma all_names_in : forall (gs : groups) m, In m (all_names gs) -> exists g, In g gs /\ In m (snd g).
Proof.
  intros gs m H. unfold all_names in H. apply in_concat in H. destruct H as [l [Hl Hm]].
  apply in_map_iff in Hl. destruct Hl as [g [<- Hg]]. eauto.
Qed.

Lemma NoDup_app_l : forall (a b : list name), NoDup (a ++ b) -> NoDup a.
Proof.
  induction a; intros b H; [constructor|]. simpl in H. inversion H; subst. constructor.
  - intros Hin. apply H2. apply in_or_app; auto.
  - eapply IHa; eauto.
Qed.

Lemma NoDup_app_r : forall (a b : list name), NoDup (a ++ b) -> NoDup b.
Proof. induction a; intros b H; auto. simpl in H. inversion H; subst. auto. Qed.

Lemma NoDup_concat_in : forall (L : list (list name)) l, NoDup (concat L) -> In l L -> NoDup l.
Proof.
  induction L; intros l ND H; [inversion H|]. simpl in ND.
  destruct H as [->|H].
  - eapply NoDup_app_l; eauto.
  - apply IHL; auto. eapply NoDup_app_r; eauto.
Qed.

Lemma good_capture : forall cp gs g i, good_groups cp gs ->
  In g gs -> is_multi (snd g) = true -> is_prefix (fst g) i = true ->
  In i (all_names gs) -> In i (snd g).
Proof.
  intros cp gs [p ns] i GG Hg Hm Hp Hi. cbn [fst snd] in *.
  destruct ns as [|m1 [|m2 ns']]; try discriminate.
  pose proof (gg_key _ _ GG (p, m1 :: m2 :: ns') m1 Hg (or_introl eq_refl)) as K1.
  pose proof (gg_key _ _ GG (p, m1 :: m2 :: ns') m2 Hg (or_intror (or_introl eq_refl))) as K2.
  cbn [fst] in K1, K2.
  assert (P1 : is_prefix cp m1 = true) by (apply (gg_cp _ _ GG); eapply in_all_names; eauto; simpl; auto).
  assert (P2 : is_prefix cp m2 = true) by (apply (gg_cp _ _ GG); eapply in_all_names; eauto; simpl; auto).
  destruct (Nat.lt_ge_cases (length cp) (length m1)) as [L|L].
  - (* p = cp + one byte: i falls in the same bin *)
    assert (Ki : key cp i = p) by (rewrite <- K1; apply key_of_extension; auto; rewrite K1; auto).
    destruct (all_names_in _ _ Hi) as [[p' ns2] [Hg2 Hi2]]. cbn [snd] in Hi2.
    pose proof (gg_key _ _ GG _ _ Hg2 Hi2) as K3. cbn [fst] in K3.
    rewrite Ki in K3. subst p'.
    rewrite (keys_unique gs p _ _ (gg_keys _ _ GG) Hg Hg2). exact Hi2.
  - (* p = cp: both members equal cp, impossible without duplicates *)
    exfalso.
    assert (m1 = cp) by (apply key_short; auto; lia).
    assert (p = cp) by (rewrite <- K1; unfold key; destruct (Nat.ltb_spec (length cp) (length m1)); auto; lia).
    assert (m2 = cp).
    { apply key_short; auto. intros L2. pose proof (key_long_len cp m2 L2). rewrite K2, H0 in H1. lia. }
    subst m1 m2.
    assert (ND : NoDup (cp :: cp :: ns')).
    { apply (NoDup_concat_in (map snd gs)); [exact (gg_nodup _ _ GG)|].
      apply (in_map snd) in Hg. exact Hg. }
    inversion ND as [|x l NI ND']; subst. apply NI. simpl; auto.
Qed.

(* ---------- sortAndDivideEndpointNamesToPrefixTree yields a good grouping ---------- *)
Lemma divide_good : forall names, (forall n, In n names -> n <> []) ->
  exists cp gs, divide names = Some (cp, gs) /\ good_groups cp gs /\
                (forall n, In n (all_names gs) <-> In n names).
Proof.
  intros names NE. unfold divide.
  set (sorted := sort_names names). set (cp := common_prefix sorted).
  assert (NEs : forall n, In n sorted -> n <> []) by (intros n H; apply NE; apply sort_names_In; auto).
  rewrite divide_loop_eq by auto.
  set (D := dedupe_adjacent [] sorted).
  exists cp, (group_all cp D []). split; auto.
  assert (SS : StronglySorted lex_le ([] :: sorted)).
  { constructor; [apply sort_names_ss|]. apply Forall_forall. intros; reflexivity. }
  destruct (dedupe_sorted _ _ SS) as [ND NI]. fold D in ND, NI.
  assert (DIn : forall m, In m D <-> In m names).
  { intros m. pose proof (dedupe_In sorted [] m) as HD. fold D in HD. split; intros H.
    - destruct (proj1 HD (or_introl H)) as [H1|H1]; [apply sort_names_In; auto|]. subst. contradiction.
    - assert (Hs : In m sorted) by (apply sort_names_In; auto).
      destruct (proj2 HD (or_introl Hs)) as [H1|H1]; auto. subst. exfalso. apply (NEs []); auto. }
  destruct (group_all_props cp D []) as [H1 [H2 H3]]; [constructor|intros ? ? []|].
  unfold all_names at 2 in H3. simpl in H3. rewrite app_nil_r in H3.
  split; [constructor; auto|].
  - eapply Permutation_NoDup; [apply Permutation_sym; exact H3|]; auto.
  - intros m Hm. apply common_prefix_spec. apply sort_names_In. apply DIn.
    eapply Permutation_in; [exact H3|]; auto.
  - intros n. rewrite <- DIn. split; intros H.
    + eapply Permutation_in; [exact H3|]; auto.
    + eapply Permutation_in; [apply Permutation_sym; exact H3|]; auto.
Qed.

(* ---------- locating chains ---------- *)
Definition cid_kind (c : cid) : epkind :=
  match c with CRoot k | CChild k _ | CEp k _ => k end.

Lemma epkind_eqb_eq : forall a b, epkind_eqb a b = true <-> a = b.
Proof. intros a b. destruct a, b; unfold epkind_eqb; simpl; split; intros H; try discriminate; auto. Qed.

Lemma epkind_eqb_refl : forall a, epkind_eqb a a = true.
Proof. intros. apply epkind_eqb_eq; auto. Qed.

Lemma cid_eqb_kind : forall a b, cid_eqb a b = true -> cid_kind a = cid_kind b.
Proof.
  intros [k|k s|k n] [k'|k' s'|k' n']; simpl; intros H; try discriminate;
    try (apply andb_true_iff in H; destruct H as [H _]); apply epkind_eqb_eq; auto.
Qed.

Lemma find_chain_skip : forall c pre rest,
  (forall ch, In ch pre -> cid_kind (fst ch) <> cid_kind c) ->
  find_chain c (pre ++ rest) = find_chain c rest.
Proof.
  induction pre as [|[c' r] pre IH]; intros rest H; simpl; auto.
  destruct (cid_eqb c c') eqn:E.
  - exfalso. apply (H (c', r)); simpl; auto. symmetry. apply cid_eqb_kind; auto.
  - apply IH. intros ch Hc. apply H. simpl; auto.
Qed.

Lemma child_chains_kind : forall ix k cp gs E ch, In ch (child_chains ix k cp gs E) ->
  exists s, fst ch = CChild k s.
Proof.
  intros ix k cp gs E ch H. unfold child_chains in H. apply in_flat_map in H.
  destruct H as [g [_ H]]. destruct (is_multi (snd g)); [|inversion H].
  destruct H as [<-|[]]. unfold child_id. simpl. eauto.
Qed.

Lemma find_root_in_tree : forall wc ix k cp gs E post,
  find_chain (CRoot k) (build_tree wc ix k cp gs E ++ post) = Some (flat_map (root_rule wc ix k cp) gs ++ E).
Proof.
  intros. unfold build_tree. rewrite <- app_assoc.
  assert (forall l rest, (forall ch, In ch l -> exists s, fst ch = CChild k s) ->
            find_chain (CRoot k) (l ++ rest) = find_chain (CRoot k) rest) as SK.
  { induction l as [|[c r] l IH]; intros rest H; simpl; auto.
    destruct (H (c, r) (or_introl eq_refl)) as [s Hs]. simpl in Hs. subst c. simpl.
    apply IH. intros; apply H; simpl; auto. }
  rewrite SK by (apply child_chains_kind). simpl. rewrite epkind_eqb_refl. reflexivity.
Qed.

Lemma skipn_cp_inj : forall cp p q, is_prefix cp p = true -> is_prefix cp q = true ->
  skipn (length cp) p = skipn (length cp) q -> p = q.
Proof.
  intros cp p q Hp Hq H. apply is_prefix_iff in Hp. apply is_prefix_iff in Hq.
  destruct Hp as [t ->]. destruct Hq as [u ->].
  rewrite !skipn_app, !skipn_all, !Nat.sub_diag in H. simpl in H. subst; auto.
Qed.

Lemma find_child : forall ix k cp E gs p ns rest,
  NoDup (map fst gs) ->
  (forall g, In g gs -> is_multi (snd g) = true -> is_prefix cp (fst g) = true) ->
  In (p, ns) gs -> is_multi ns = true ->
  find_chain (child_id ix k cp p) (child_chains ix k cp gs E ++ rest) = Some (map (ep_rule k) ns ++ E).
Proof.
  induction gs as [|[p0 ns0] gs IH]; intros p ns rest ND HP Hin Hm; [inversion Hin|].
  simpl in ND. inversion ND as [|x l NI ND']; subst.
  unfold child_chains. cbn [flat_map snd fst].
  destruct Hin as [Heq|Hin].
  - inversion Heq; subst. rewrite Hm. simpl. unfold child_id. simpl.
    rewrite epkind_eqb_refl, name_eqb_refl. reflexivity.
  - destruct (is_multi ns0) eqn:Em0.
    + simpl. unfold child_id at 1 2. simpl. rewrite epkind_eqb_refl. simpl.
      destruct (name_eqb (ix ++ skipn (length cp) p) (ix ++ skipn (length cp) p0)) eqn:Es.
      * exfalso. apply name_eqb_eq in Es. apply app_inv_head in Es. apply skipn_cp_inj in Es.
        -- subst p0. apply NI. apply (in_map fst) in Hin. exact Hin.
        -- apply (HP (p, ns)); simpl; auto.
        -- apply (HP (p0, ns0)); simpl; auto.
      * apply IH; auto. intros g Hg. apply HP; simpl; auto.
    + simpl. apply IH; auto. intros g Hg. apply HP; simpl; auto.
Qed.

Lemma chains_size_app : forall a b, chains_size (a ++ b) = (chains_size a + chains_size b)%nat.
Proof. induction a as [|[c r] a IH]; intros; simpl; auto. rewrite IH. lia. Qed.

Lemma chains_size_in : forall l c r, In (c, r) l -> (S (length r) <= chains_size l)%nat.
Proof.
  induction l as [|[c' r'] l IH]; intros c r H; [inversion H|]. simpl.
  destruct H as [H|H]; [inversion H; subst; lia|]. specialize (IH _ _ H). lia.
Qed.

Lemma find_chain_in : forall c l r, find_chain c l = Some r -> exists c', In (c', r) l.
Proof.
  induction l as [|[c' r'] l IH]; intros r H; simpl in H; [discriminate|].
  destruct (cid_eqb c c'); [inversion H; subst; eexists; simpl; eauto|].
  destruct (IH _ H) as [c2 H2]. exists c2. simpl; auto.
Qed.

(* ---------- evaluation of a rendered prefix tree inside a larger rule set ---------- *)
Lemma tree_eval : forall wc rs pk k cp gs E rE pre post,
  rs_chains rs = pre ++ build_tree wc [] k cp gs E ++ post ->
  (forall ch, In ch pre -> cid_kind (fst ch) <> k) ->
  good_groups cp gs ->
  Forall (fun n => name_plain wc n = true) (all_names gs) ->
  (forall f, (length E < f)%nat -> run f wc rs pk E [] = rE) ->
  eval wc rs pk (CRoot k) =
  if mem (pkt_if (kind_dir k) pk) (all_names gs) then REndpoint k (pkt_if (kind_dir k) pk) else rE.
Proof.
  intros wc rs pk k cp gs E rE pre post Hrs Hpre GG HP HE.
  unfold eval.
  assert (Hroot : find_chain (CRoot k) (rs_chains rs) = Some (flat_map (root_rule wc [] k cp) gs ++ E)).
  { rewrite Hrs. rewrite find_chain_skip by (intros ch Hc; simpl; apply Hpre; auto).
    apply find_root_in_tree. }
  rewrite Hroot.
  assert (Hmulti_cp : forall g, In g gs -> is_multi (snd g) = true -> is_prefix cp (fst g) = true).
  { intros [p ns] Hg Hm. cbn [fst snd] in *. destruct ns as [|m ns]; [discriminate|].
    pose proof (gg_key _ _ GG (p, m :: ns) m Hg (or_introl eq_refl)) as K. cbn [fst] in K. rewrite <- K.
    apply key_has_cp. apply (gg_cp _ _ GG). eapply in_all_names; eauto. simpl; auto. }
  assert (Hchild : forall g, In g gs -> is_multi (snd g) = true ->
            find_chain (child_id [] k cp (fst g)) (rs_chains rs) = Some (map (ep_rule k) (snd g) ++ E)).
  { intros [p ns] Hg Hm. cbn [fst snd] in *. rewrite Hrs.
    rewrite find_chain_skip by (intros ch Hc; simpl; apply Hpre; auto).
    unfold build_tree. rewrite <- app_assoc.
    apply find_child; auto. exact (gg_keys _ _ GG). }
  rewrite (root_scan wc rs pk [] k cp E E rE rE (S (chains_size (rs_chains rs))) (length E) HE HE gs).
  - destruct (mem (pkt_if (kind_dir k) pk) (all_names gs)); auto. destruct (captured gs (pkt_if (kind_dir k) pk)); reflexivity.
  - auto.
  - intros g Hg Hm. split; [apply Hchild; auto|].
    destruct (find_chain_in _ _ _ (Hchild g Hg Hm)) as [c' Hc'].
    apply chains_size_in in Hc'. rewrite app_length, map_length in Hc'. lia.
  - intros g n Hg Hn. rewrite <- (gg_key _ _ GG g n Hg Hn).
    apply key_prefix_of_name. apply (gg_cp _ _ GG). eapply in_all_names; eauto.
  - intros g Hg Hm Hpi Hin. eapply good_capture; eauto.
  - destruct (find_chain_in _ _ _ Hroot) as [c' Hc'].
    apply chains_size_in in Hc'. rewrite app_length in Hc'. lia.
Qed.

(* ---------- end rules ---------- *)
Lemma end_deny : forall c wc rs pk f, (1 < f)%nat ->
  run f wc rs pk [Rule MAny (deny_action c)] [] = deny_result (cf_reject c).
Proof.
  intros. destruct f; [lia|]. unfold deny_action, deny_result.
  destruct (cf_reject c); reflexivity.
Qed.

Lemma end_default : forall wc rs pk k dflt f, (length (default_goto k dflt) < f)%nat ->
  run f wc rs pk (default_goto k dflt) [] = match dflt with [] => RReturn | _ => REndpoint k dflt end.
Proof.
  intros. destruct f; [lia|]. destruct dflt; reflexivity.
Qed.

Lemma scan_returns : forall wc rs pk k dflt ps f, (S (length ps) < f)%nat ->
  run f wc rs pk (map (fun p => Rule (MIface DOut (p ++ [wc])) AReturn) ps ++ [Rule MAny (AGoto (CEp k dflt))]) [] =
  if existsb (fun p => is_prefix p (p_out pk)) ps then RReturn else REndpoint k dflt.
Proof.
  induction ps as [|p ps IH]; intros f Hf.
  - destruct f; [simpl in Hf; lia|]. reflexivity.
  - simpl in Hf. destruct f as [|[|f]]; try lia. cbn [map app existsb].
    destruct (is_prefix p (p_out pk)) eqn:Ep.
    + rewrite run_return by (rewrite match_iface, pat_wild; exact Ep). reflexivity.
    + rewrite run_nomatch by (rewrite match_iface, pat_wild; exact Ep). apply IH. lia.
Qed.

Lemma end_host_to : forall c rs pk dflt aof f, (length (host_to_end c dflt aof) < f)%nat ->
  run f (wildcard c) rs pk (host_to_end c dflt aof) [] =
  match dflt with
  | [] => RReturn
  | _ => if negb aof && existsb (fun p => is_prefix p (p_out pk)) (cf_wlpfx c) then RReturn
         else REndpoint KHostTo dflt
  end.
Proof.
  intros c rs pk dflt aof f Hf. unfold host_to_end in *. destruct dflt as [|d0 dflt].
  - destruct f; [simpl in Hf; lia|]. reflexivity.
  - destruct aof; cbn [negb andb].
    + destruct f; [simpl in Hf; lia|]. reflexivity.
    + apply scan_returns. rewrite app_length, map_length in Hf. simpl in Hf. lia.
Qed.

(* ---------- putting it together ---------- *)
Lemma mem_ext : forall i a b, (forall n, In n a <-> In n b) -> mem i a = mem i b.
Proof.
  intros i a b H. destruct (mem i b) eqn:E.
  - apply mem_In. apply H. apply mem_In. auto.
  - apply mem_false. intros Hin. apply H in Hin. apply mem_In in Hin. congruence.
Qed.

Lemma names_ok_forall : forall wc names, names_ok wc names = true ->
  Forall (fun n => name_plain wc n = true) names.
Proof. intros. apply Forall_forall. unfold names_ok in H. rewrite forallb_forall in H. auto. Qed.

Lemma names_ok_divide : forall wc names, names_ok wc names = true ->
  exists cp gs, divide names = Some (cp, gs) /\ good_groups cp gs /\
    Forall (fun n => name_plain wc n = true) (all_names gs) /\
    (forall i, mem i (all_names gs) = mem i names).
Proof.
  intros wc names H. pose proof (names_ok_forall _ _ H) as HF. rewrite Forall_forall in HF.
  destruct (divide_good names) as [cp [gs [H1 [H2 H3]]]].
  { intros n Hn. eapply name_plain_nonempty. apply HF; eauto. }
  exists cp, gs. split; [auto|split; [auto|split]].
  - apply Forall_forall. intros n Hn. apply HF. apply H3; auto.
  - intros i. apply mem_ext; auto.
Qed.

Lemma build_tree_kinds : forall wc ix k cp gs E ch, In ch (build_tree wc ix k cp gs E) -> cid_kind (fst ch) = k.
Proof.
  intros wc ix k cp gs E ch H. unfold build_tree in H. apply in_app_or in H. destruct H as [H|[<-|[]]]; auto.
  apply child_chains_kind in H. destruct H as [s ->]. reflexivity.
Qed.

(* verdict-map variant *)
Lemma vmap_lookup_mapping : forall k i l,
  vmap_lookup i (map (fun n => (n, AGoto (CEp k n))) l) = if mem i l then Some (AGoto (CEp k i)) else None.
Proof.
  induction l; simpl; auto. unfold mem in *. simpl. rewrite (name_eqb_sym i a).
  destruct (name_eqb a i) eqn:E; simpl; auto. apply name_eqb_eq in E. subst; auto.
Qed.

Lemma map_keys_mem : forall i names, mem i (map_keys names) = mem i names.
Proof.
  intros. apply mem_ext. intros n. unfold map_keys. rewrite <- (sort_names_In n names).
  destruct (sort_names names) as [|a l]; [tauto|].
  pose proof (dedupe_In l a n). simpl. intuition (subst; auto).
Qed.

Lemma vmap_eval : forall c wc rs pk k names pre post,
  rs_chains rs = pre ++ build_vmap k [Rule MAny (deny_action c)] ++ post ->
  (forall ch, In ch pre -> cid_kind (fst ch) <> k) ->
  find_map k (rs_maps rs) = Some (dispatch_mapping k names) ->
  eval wc rs pk (CRoot k) =
  if mem (pkt_if (kind_dir k) pk) names then REndpoint k (pkt_if (kind_dir k) pk) else deny_result (cf_reject c).
Proof.
  intros c wc rs pk k names pre post Hrs Hpre Hmap. unfold eval.
  rewrite Hrs at 1. rewrite find_chain_skip by (intros ch Hc; simpl; apply Hpre; auto).
  unfold build_vmap. simpl find_chain. rewrite epkind_eqb_refl.
  replace (2 * chains_size (rs_chains rs) + 2)%nat with (S (S (2 * chains_size (rs_chains rs)))) by lia.
  remember (2 * chains_size (rs_chains rs))%nat as g.
  cbn [run]. rewrite Hmap. unfold dispatch_mapping. rewrite vmap_lookup_mapping, map_keys_mem.
  destruct (mem (pkt_if (kind_dir k) pk) names); [reflexivity|].
  unfold deny_action, deny_result. destruct (cf_reject c); reflexivity.
Qed.

Lemma wildcard_sem : forall c, wildcard c = sem_wildcard (cf_nft c).
Proof. reflexivity. Qed.

Lemma build_vmap_kinds : forall k E ch, In ch (build_vmap k E) -> cid_kind (fst ch) = k.
Proof. intros k E ch [<-|[]]. reflexivity. Qed.

Ltac other_kind :=
  let ch := fresh "ch" in let H := fresh "H" in
  intros ch H; rewrite ?in_app_iff in H;
  repeat match goal with H' : _ \/ _ |- _ => destruct H' as [H'|H'] end;
  first [ apply build_tree_kinds in H; rewrite H; discriminate
        | apply build_vmap_kinds in H; rewrite H; discriminate
        | match goal with H' : _ = ch |- _ => rewrite <- H'; simpl; discriminate end
        | contradiction ].

(* Workload dispatch, both renderers: the verdict is exactly what the specification says. *)
Theorem workload_char : forall c names, names_ok (sem_wildcard (cf_nft c)) names = true ->
  exists rs, workload_dispatch c names = Some rs /\
    forall pk k, is_wl_kind k = true ->
      eval (sem_wildcard (cf_nft c)) rs pk (CRoot k) =
      spec_workload (cf_reject c) k names (pkt_if (kind_dir k) pk).
Proof.
  intros c names OK. rewrite <- wildcard_sem in *.
  destruct (names_ok_divide _ _ OK) as [cp [gs [HD [GG [HP HM]]]]].
  unfold workload_dispatch, iface_dispatch. rewrite HD. unfold build_single.
  destruct (cf_nft c) eqn:Enft; cbn [andb is_wl_kind].
  - eexists. split; [reflexivity|]. intros pk k Hk. unfold spec_workload.
    destruct k; try discriminate.
    + eapply (vmap_eval c _ _ pk KWlFrom names [] _); simpl; auto; try reflexivity; try other_kind.
    + eapply (vmap_eval c _ _ pk KWlTo names (build_vmap KWlFrom _) []); simpl; auto; try reflexivity; try other_kind.
  - eexists. split; [reflexivity|]. intros pk k Hk. unfold spec_workload.
    destruct k; try discriminate.
    + rewrite <- HM.
      eapply (tree_eval _ _ pk KWlFrom cp gs _ _ [] _); simpl; auto; try reflexivity; try other_kind.
      intros. eapply end_deny; auto.
    + rewrite <- HM.
      eapply (tree_eval _ _ pk KWlTo cp gs _ _ (build_tree _ [] KWlFrom cp gs _) []); simpl; auto.
      * rewrite app_nil_r. reflexivity.
      * other_kind.
      * intros. eapply end_deny; auto.
Qed.

Lemma build_single_host : forall c k cp gs E, is_wl_kind k = false ->
  build_single c k cp gs E = build_tree (wildcard c) [] k cp gs E.
Proof. intros. unfold build_single. rewrite H, andb_false_r. reflexivity. Qed.

Lemma spec_host_plain : forall k names dflt wl i,
  spec_host k names dflt false wl i =
  if mem i names then REndpoint k i else match dflt with [] => RReturn | _ => REndpoint k dflt end.
Proof. intros. unfold spec_host. destruct dflt; reflexivity. Qed.

Ltac chains_eq := simpl; rewrite ?app_nil_r, <- ?app_assoc; reflexivity.

(* Host dispatch (all three entry points, both renderers). *)
Theorem host_char : forall c names dflt m, names_ok (sem_wildcard (cf_nft c)) names = true ->
  exists rs, host_dispatch c names dflt m = Some rs /\
    forall pk k, In k (roots (CHost dflt m)) ->
      eval (sem_wildcard (cf_nft c)) rs pk (CRoot k) =
      expected c (CHost dflt m) names k (pkt_if (kind_dir k) pk).
Proof.
  intros c names dflt m OK. rewrite <- wildcard_sem in *.
  destruct (names_ok_divide _ _ OK) as [cp [gs [HD [GG [HP HM]]]]].
  unfold host_dispatch, host_dispatch_chains, iface_dispatch, opt_app. rewrite HD.
  rewrite !build_single_host by reflexivity.
  set (TF := build_tree (wildcard c) [] KHostFrom cp gs (default_goto KHostFrom dflt)).
  set (TT := build_tree (wildcard c) [] KHostTo cp gs (host_to_end c dflt (mode_aof m))).
  set (TFF := build_tree (wildcard c) [] KHostFromFwd cp gs (default_goto KHostFromFwd dflt)).
  set (TTF := build_tree (wildcard c) [] KHostToFwd cp gs (default_goto KHostToFwd dflt)).
  assert (AF : forall rs pk pre post, rs_chains rs = pre ++ TF ++ post ->
             (forall ch, In ch pre -> cid_kind (fst ch) <> KHostFrom) ->
             eval (wildcard c) rs pk (CRoot KHostFrom) =
             spec_host KHostFrom names dflt false (cf_wlpfx c) (p_in pk)).
  { intros. rewrite spec_host_plain, <- HM.
    eapply (tree_eval _ rs pk KHostFrom cp gs _ _ pre post); eauto. intros; apply end_default; auto. }
  assert (AFF : forall rs pk pre post, rs_chains rs = pre ++ TFF ++ post ->
             (forall ch, In ch pre -> cid_kind (fst ch) <> KHostFromFwd) ->
             eval (wildcard c) rs pk (CRoot KHostFromFwd) =
             spec_host KHostFromFwd names dflt false (cf_wlpfx c) (p_in pk)).
  { intros. rewrite spec_host_plain, <- HM.
    eapply (tree_eval _ rs pk KHostFromFwd cp gs _ _ pre post); eauto. intros; apply end_default; auto. }
  assert (ATF : forall rs pk pre post, rs_chains rs = pre ++ TTF ++ post ->
             (forall ch, In ch pre -> cid_kind (fst ch) <> KHostToFwd) ->
             eval (wildcard c) rs pk (CRoot KHostToFwd) =
             spec_host KHostToFwd names dflt false (cf_wlpfx c) (p_out pk)).
  { intros. rewrite spec_host_plain, <- HM.
    eapply (tree_eval _ rs pk KHostToFwd cp gs _ _ pre post); eauto. intros; apply end_default; auto. }
  assert (AT : forall rs pk pre post, rs_chains rs = pre ++ TT ++ post ->
             (forall ch, In ch pre -> cid_kind (fst ch) <> KHostTo) ->
             eval (wildcard c) rs pk (CRoot KHostTo) =
             spec_host KHostTo names dflt (negb (mode_aof m)) (cf_wlpfx c) (p_out pk)).
  { intros. unfold spec_host. rewrite <- HM.
    eapply (tree_eval _ rs pk KHostTo cp gs _ _ pre post); eauto. intros; apply end_host_to; auto. }
  destruct m as [[|]| |]; cbn [mode_aof] in *.
  - (* HostDispatchChains, applyOnForward *)
    eexists. split; [reflexivity|]. intros pk k Hk. cbn [roots In] in Hk.
    destruct Hk as [<-|[<-|[<-|[<-|[]]]]]; cbn [expected kind_dir pkt_if mode_aof].
    + apply (AF _ pk [] (TT ++ TFF ++ TTF)); [chains_eq|other_kind].
    + apply (AT _ pk TF (TFF ++ TTF)); [chains_eq|subst TF; other_kind].
    + apply (AFF _ pk (TF ++ TT) TTF); [chains_eq|subst TF TT; other_kind].
    + apply (ATF _ pk (TF ++ TT ++ TFF) []); [chains_eq|subst TF TT TFF; other_kind].
  - (* HostDispatchChains, not on forward *)
    eexists. split; [reflexivity|]. intros pk k Hk. cbn [roots In] in Hk.
    destruct Hk as [<-|[<-|[]]]; cbn [expected kind_dir pkt_if mode_aof].
    + apply (AF _ pk [] TT); [chains_eq|other_kind].
    + apply (AT _ pk TF []); [chains_eq|subst TF; other_kind].
  - (* FromHostDispatchChains *)
    eexists. split; [reflexivity|]. intros pk k Hk. cbn [roots In] in Hk.
    destruct Hk as [<-|[]]; cbn [expected kind_dir pkt_if mode_aof].
    apply (AF _ pk [] []); [chains_eq|other_kind].
  - (* ToHostDispatchChains *)
    eexists. split; [reflexivity|]. intros pk k Hk. cbn [roots In] in Hk.
    destruct Hk as [<-|[]]; cbn [expected kind_dir pkt_if mode_aof].
    apply (AT _ pk [] []); [chains_eq|other_kind].
Qed.

(* ---------- the statements used in Props.v ---------- *)
Lemma deny_not_endpoint : forall b k n, deny_result b <> REndpoint k n.
Proof. intros [|]; discriminate. Qed.

Lemma known_iface_own_chain : forall c names rs, names_ok (sem_wildcard (cf_nft c)) names = true ->
  workload_dispatch c names = Some rs ->
  forall pk k, is_wl_kind k = true -> forall k' n,
    eval (sem_wildcard (cf_nft c)) rs pk (CRoot k) = REndpoint k' n <->
    (k' = k /\ n = pkt_if (kind_dir k) pk /\ In n names).
Proof.
  intros c names rs OK Hrs pk k Hk k' n.
  destruct (workload_char c names OK) as [rs' [Hrs' H]]. rewrite Hrs in Hrs'. inversion Hrs'; subst rs'.
  rewrite (H pk k Hk). unfold spec_workload.
  destruct (mem (pkt_if (kind_dir k) pk) names) eqn:E.
  - apply mem_In in E. split.
    + intros Heq. inversion Heq; subst. auto.
    + intros [-> [-> _]]. reflexivity.
  - apply mem_false in E. split.
    + intros Heq. exfalso. eapply deny_not_endpoint; eauto.
    + intros [_ [-> Hin]]. contradiction.
Qed.

Lemma unknown_dropped : forall c names rs, names_ok (sem_wildcard (cf_nft c)) names = true ->
  workload_dispatch c names = Some rs ->
  forall pk k, is_wl_kind k = true -> ~ In (pkt_if (kind_dir k) pk) names ->
    eval (sem_wildcard (cf_nft c)) rs pk (CRoot k) = deny_result (cf_reject c).
Proof.
  intros c names rs OK Hrs pk k Hk Hn.
  destruct (workload_char c names OK) as [rs' [Hrs' H]]. rewrite Hrs in Hrs'. inversion Hrs'; subst rs'.
  rewrite (H pk k Hk). unfold spec_workload. apply mem_false in Hn. rewrite Hn. reflexivity.
Qed.

Lemma host_dispatch_spec : forall c names dflt m rs, names_ok (sem_wildcard (cf_nft c)) names = true ->
  host_dispatch c names dflt m = Some rs ->
  forall pk k, In k (roots (CHost dflt m)) ->
    eval (sem_wildcard (cf_nft c)) rs pk (CRoot k) =
    spec_host k names dflt (match k with KHostTo => negb (mode_aof m) | _ => false end)
              (cf_wlpfx c) (pkt_if (kind_dir k) pk).
Proof.
  intros c names dflt m rs OK Hrs pk k Hk.
  destruct (host_char c names dflt m OK) as [rs' [Hrs' H]]. rewrite Hrs in Hrs'. inversion Hrs'; subst rs'.
  apply (H pk k Hk).
Qed.

Lemma host_default_only_when_configured : forall c names dflt m rs,
  names_ok (sem_wildcard (cf_nft c)) names = true ->
  host_dispatch c names dflt m = Some rs ->
  forall pk k, In k (roots (CHost dflt m)) -> forall k' n,
    eval (sem_wildcard (cf_nft c)) rs pk (CRoot k) = REndpoint k' n ->
    k' = k /\ ((n = pkt_if (kind_dir k) pk /\ In n names)
               \/ (n = dflt /\ dflt <> [] /\ ~ In (pkt_if (kind_dir k) pk) names)).
Proof.
  intros c names dflt m rs OK Hrs pk k Hk k' n.
  rewrite (host_dispatch_spec c names dflt m rs OK Hrs pk k Hk). unfold spec_host.
  destruct (mem (pkt_if (kind_dir k) pk) names) eqn:E.
  - apply mem_In in E. intros Heq. inversion Heq; subst. auto.
  - apply mem_false in E. destruct dflt as [|d0 dflt]; [discriminate|].
    destruct (_ && _); [discriminate|]. intros Heq. inversion Heq; subst.
    split; auto. right. repeat split; auto. discriminate.
Qed.

Lemma host_no_default_returns : forall c names m rs,
  names_ok (sem_wildcard (cf_nft c)) names = true ->
  host_dispatch c names [] m = Some rs ->
  forall pk k, In k (roots (CHost [] m)) -> ~ In (pkt_if (kind_dir k) pk) names ->
    eval (sem_wildcard (cf_nft c)) rs pk (CRoot k) = RReturn.
Proof.
  intros c names m rs OK Hrs pk k Hk Hn.
  rewrite (host_dispatch_spec c names [] m rs OK Hrs pk k Hk). unfold spec_host.
  apply mem_false in Hn. rewrite Hn. reflexivity.
Qed.

Lemma vmap_same : forall cn ci names rsn rsi,
  cf_nft cn = true -> cf_nft ci = false -> cf_reject cn = cf_reject ci ->
  names_ok 42 names = true -> names_ok 43 names = true ->
  workload_dispatch cn names = Some rsn -> workload_dispatch ci names = Some rsi ->
  forall pk k, is_wl_kind k = true ->
    eval 42 rsn pk (CRoot k) = eval 43 rsi pk (CRoot k).
Proof.
  intros cn ci names rsn rsi Hn Hi Hr OKn OKi Hrn Hri pk k Hk.
  assert (OKn' : names_ok (sem_wildcard (cf_nft cn)) names = true) by (rewrite Hn; exact OKn).
  assert (OKi' : names_ok (sem_wildcard (cf_nft ci)) names = true) by (rewrite Hi; exact OKi).
  destruct (workload_char cn names OKn') as [r1 [E1 H1]].
  destruct (workload_char ci names OKi') as [r2 [E2 H2]].
  rewrite Hrn in E1. rewrite Hri in E2. inversion E1; inversion E2; subst r1 r2.
  specialize (H1 pk k Hk). specialize (H2 pk k Hk). rewrite Hn in H1. rewrite Hi in H2.
  simpl sem_wildcard in *. rewrite H1, H2, Hr. reflexivity.
Qed.

(* the oracle of Spec.v accepts every run of the model *)
Lemma result_eqb_refl : forall r, result_eqb r r = true.
Proof. intros [| | | |a b|k n| |]; simpl; auto; [rewrite !N.eqb_refl|rewrite epkind_eqb_refl, name_eqb_refl]; reflexivity. Qed.

Lemma pkt_if_mk : forall k p d, pkt_if (kind_dir k) (mk_packet k p d) = p.
Proof. intros. unfold mk_packet. destruct (kind_dir k); reflexivity. Qed.

Lemma divide_none_empty : forall names, divide names = None -> existsb is_empty names = true.
Proof.
  intros names H. destruct (existsb is_empty names) eqn:E; auto. exfalso.
  destruct (divide_good names) as [cp [gs [H1 _]]]; [|congruence].
  intros n Hn ->. assert (existsb is_empty names = true); [|congruence].
  apply existsb_exists. exists []. auto.
Qed.

Definition is_setmark (ck : ckind) : bool := match ck with CSetMark _ _ _ => true | _ => false end.

Lemma model_meets_spec : forall c, is_setmark (c_kind c) = false -> c_impl c = model_of c -> ok_case c = true.
Proof.
  intros [c ck names impl probes] Hsm H. unfold ok_case, model_of in *. cbn [c_impl c_kind c_cfg c_names c_probes] in *.
  subst impl. destruct ck as [|dflt m|hep mk msk]; [| |discriminate]; cbn [names_ok forallb]; rewrite ?andb_true_r, ?app_nil_r.
  - destruct (workload_dispatch c names) as [rs|] eqn:E.
    + destruct (names_ok _ names) eqn:OK; auto.
      destruct (workload_char c names OK) as [rs' [E' HC]]. rewrite E in E'. inversion E'; subst rs'.
      unfold ok_ruleset. apply forallb_forall. intros k Hk. apply forallb_forall. intros pd _.
      rewrite HC by (destruct Hk as [<-|[<-|[]]]; reflexivity).
      rewrite pkt_if_mk. apply result_eqb_refl.
    + unfold workload_dispatch, iface_dispatch in E. destruct (divide names) as [[cp gs]|] eqn:D; [discriminate|].
      apply divide_none_empty; auto.
  - destruct (host_dispatch c names dflt m) as [rs|] eqn:E.
    + destruct (names_ok _ names) eqn:OK; auto.
      destruct (host_char c names dflt m OK) as [rs' [E' HC]]. rewrite E in E'. inversion E'; subst rs'.
      unfold ok_ruleset. apply forallb_forall. intros k Hk. apply forallb_forall. intros pd _.
      rewrite HC by auto. rewrite pkt_if_mk. apply result_eqb_refl.
    + apply divide_none_empty. unfold host_dispatch, host_dispatch_chains, iface_dispatch, opt_app in E.
      destruct (divide names) as [[cp gs]|]; auto. destruct m as [[|]| |]; discriminate.
Qed.
