(* C10 — proofs about the dispatch model (see Props.v for the statements that matter). *)
From Coq Require Import List NArith Bool Arith Lia.
From Verif.C10 Require Import Nf Model Spec.
Import ListNotations.
Open Scope N_scope.

(* ---------- names ---------- *)
Lemma name_eqb_refl : forall a, name_eqb a a = true.
Proof. induction a; simpl; auto. rewrite N.eqb_refl; auto. Qed.

Lemma name_eqb_eq : forall a b, name_eqb a b = true <-> a = b.
Proof.
  induction a; destruct b; simpl; split; intros H; try discriminate; auto.
  - apply andb_true_iff in H. destruct H as [H1 H2]. apply N.eqb_eq in H1. apply IHa in H2. subst; auto.
  - inversion H; subst. rewrite N.eqb_refl. simpl. apply IHa; auto.
Qed.

Lemma name_eqb_neq : forall a b, name_eqb a b = false <-> a <> b.
Proof.
  intros. split; intros H.
  - intros E. apply name_eqb_eq in E. congruence.
  - destruct (name_eqb a b) eqn:E; auto. apply name_eqb_eq in E. contradiction.
Qed.

Lemma is_prefix_app : forall p s, is_prefix p (p ++ s) = true.
Proof. induction p; simpl; auto. intros. rewrite N.eqb_refl; simpl; auto. Qed.

Lemma is_prefix_iff : forall p s, is_prefix p s = true <-> exists t, s = p ++ t.
Proof.
  induction p; simpl; intros.
  - split; eauto.
  - destruct s.
    + split; [discriminate|]. intros [t H]. discriminate.
    + split.
      * intros H. apply andb_true_iff in H. destruct H as [H1 H2]. apply N.eqb_eq in H1.
        apply IHp in H2. destruct H2 as [t ->]. subst. eauto.
      * intros [t H]. inversion H; subst. rewrite N.eqb_refl. simpl. apply is_prefix_app.
Qed.

(* ---------- pattern semantics ---------- *)
Lemma pat_cons2 : forall wc c d p i,
  pat_matches wc (c :: d :: p) i =
  match i with [] => false | x :: i' => N.eqb c x && pat_matches wc (d :: p) i' end.
Proof. reflexivity. Qed.

Lemma pat_wild : forall wc p i, pat_matches wc (p ++ [wc]) i = is_prefix p i.
Proof.
  induction p; intros.
  - simpl. rewrite N.eqb_refl. reflexivity.
  - destruct p as [|b p'].
    + simpl. destruct i; auto. rewrite N.eqb_refl. reflexivity.
    + change ((a :: b :: p') ++ [wc]) with (a :: b :: (p' ++ [wc])).
      rewrite pat_cons2. simpl is_prefix. destruct i; auto.
      change (b :: p' ++ [wc]) with ((b :: p') ++ [wc]). rewrite IHp. reflexivity.
Qed.
