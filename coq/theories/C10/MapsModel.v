(* C10 part 2 — executable model of the nftables verdict-map programming layer for the workload
   dispatch maps: felix/nftables/maps.go (Maps: AddOrReplaceMap, member delta trackers, dirtiness,
   LoadDataplaneState incl. its failure path, InvalidateMapsCache, MapUpdates, FinishMapUpdates) and
   the part of felix/nftables/table.go that drives it (Apply retry loop, loadDataplaneState,
   queueTableRecreate, applyUpdates' transaction), against an abstract kernel table
   (map name -> set of keys) with transactions that fail atomically.
   Scope: dispatch maps only, so a member is its key (interface name); the verdict is always
   "goto <that interface's chain>" (rules.DispatchMappings).  RemoveMap is not modelled (Felix never
   removes the dispatch maps).  Definitions only. *)
From Coq Require Import List NArith Bool Arith.
From Verif.C10 Require Import Nf Model.
Import ListNotations.
Open Scope N_scope.

(* ---- finite sets of interface names as lists ---- *)
Definition nset := list name.
Definition nmem (x : name) (s : nset) : bool := existsb (name_eqb x) s.
Definition ndiff (a b : nset) : nset := filter (fun x => negb (nmem x b)) a.
Definition nsubset (a b : nset) : bool := forallb (fun x => nmem x b) a.
Definition nequiv (a b : nset) : bool := nsubset a b && nsubset b a.

Definition all_kinds : list epkind := [KWlFrom; KWlTo; KHostFrom; KHostTo; KHostFromFwd; KHostToFwd; KSetMark].
Definition kset := epkind -> bool.
Definition kempty : kset := fun _ => false.
Definition upd {A} (f : epkind -> A) (k : epkind) (v : A) : epkind -> A :=
  fun x => if epkind_eqb x k then v else f x.

(* deltatracker.SetDeltaTracker[MapMember]: Desired() and Dataplane() *)
Record tracker := { tr_des : nset; tr_dp : nset }.
Definition in_sync (t : tracker) : bool := nequiv (tr_des t) (tr_dp t).

Record mstate := {
  ms_all : kset;                       (* mapNameToAllMetadata = mapNameToProgrammedMetadata.Desired() *)
  ms_progdp : kset;                    (* mapNameToProgrammedMetadata.Dataplane() *)
  ms_trk : epkind -> option tracker;   (* mapNameToMembers *)
  ms_dirty : kset }.                   (* mapsWithDirtyMembers *)

Definition m_init : mstate :=
  {| ms_all := kempty; ms_progdp := kempty; ms_trk := fun _ => None; ms_dirty := kempty |}.

Definition update_dirtiness (s : mstate) (k : epkind) : mstate :=
  {| ms_all := ms_all s; ms_progdp := ms_progdp s; ms_trk := ms_trk s;
     ms_dirty := upd (ms_dirty s) k (match ms_trk s k with None => false | Some t => negb (in_sync t) end) |}.

Definition get_or_create (s : mstate) (k : epkind) : tracker :=
  match ms_trk s k with Some t => t | None => {| tr_des := []; tr_dp := [] |} end.

(* AddOrReplaceMap *)
Definition add_or_replace (s : mstate) (k : epkind) (members : nset) : mstate :=
  update_dirtiness
    {| ms_all := upd (ms_all s) k true; ms_progdp := ms_progdp s;
       ms_trk := upd (ms_trk s) k (Some {| tr_des := members; tr_dp := tr_dp (get_or_create s k) |});
       ms_dirty := ms_dirty s |} k.

(* ---- abstract kernel: the nft table, if present, and the maps in it ---- *)
Definition ktable := epkind -> option nset.
Definition kernel := option ktable.
Definition kelems (kn : kernel) (k : epkind) : nset :=
  match kn with Some t => match t k with Some s => s | None => [] end | None => [] end.
Definition khas (kn : kernel) (k : epkind) : bool :=
  match kn with Some t => match t k with Some _ => true | None => false end | None => false end.
Definition klisted (kn : kernel) : list epkind := filter (khas kn) all_kinds.

Inductive txop := TAddTable | TDelTable | TAddMap (k : epkind) | TAddElem (k : epkind) (x : name) | TDelElem (k : epkind) (x : name).

(* one operation; None = error (the whole transaction is then rolled back) *)
Definition apply_op (kn : kernel) (o : txop) : option kernel :=
  match o, kn with
  | TAddTable, None => Some (Some (fun _ => None))
  | TAddTable, Some _ => Some kn
  | TDelTable, None => None
  | TDelTable, Some _ => Some None
  | _, None => None
  | TAddMap k, Some t => Some (Some (match t k with Some _ => t | None => upd t k (Some []) end))
  | TAddElem k x, Some t =>
      match t k with
      | None => None
      | Some s => Some (Some (upd t k (Some (if nmem x s then s else x :: s))))
      end
  | TDelElem k x, Some t =>
      match t k with
      | None => None
      | Some s => if nmem x s then Some (Some (upd t k (Some (ndiff s [x])))) else None
      end
  end.

Fixpoint apply_tx (kn : kernel) (ops : list txop) : option kernel :=
  match ops with
  | [] => Some kn
  | o :: ops' => match apply_op kn o with Some kn' => apply_tx kn' ops' | None => None end
  end.

(* ---- Maps.LoadDataplaneState(maps listed by ListAll) ---- *)
Definition load_one (kn : kernel) (s : mstate) (k : epkind) : mstate :=
  update_dirtiness
    {| ms_all := ms_all s; ms_progdp := upd (ms_progdp s) k true;
       ms_trk := upd (ms_trk s) k (Some {| tr_des := tr_des (get_or_create s k); tr_dp := kelems kn k |});
       ms_dirty := ms_dirty s |} k.

(* "Mark any maps that we didn't see as empty" (no dirtiness update there) *)
Definition load_unseen (s : mstate) (k : epkind) : mstate :=
  match ms_trk s k with
  | None => s
  | Some t =>
      if ms_progdp s k then s
      else if ms_all s k
           then {| ms_all := ms_all s; ms_progdp := ms_progdp s;
                   ms_trk := upd (ms_trk s) k (Some {| tr_des := tr_des t; tr_dp := [] |}); ms_dirty := ms_dirty s |}
           else {| ms_all := ms_all s; ms_progdp := ms_progdp s; ms_trk := upd (ms_trk s) k None; ms_dirty := ms_dirty s |}
  end.

Definition load_maps (s : mstate) (kn : kernel) (elem_fail : bool) : mstate :=
  let s1 := {| ms_all := ms_all s; ms_progdp := kempty; ms_trk := ms_trk s; ms_dirty := ms_dirty s |} in
  match klisted kn with
  | [] => fold_left load_unseen all_kinds s1
  | listed => if elem_fail then s1   (* a ListElements failed: early return, metadata view left empty *)
              else fold_left load_unseen all_kinds (fold_left (load_one kn) listed s1)
  end.

(* InvalidateMapsCache *)
Definition invalidate_one (s : mstate) (k : epkind) : mstate :=
  match ms_trk s k with
  | None => s
  | Some t => update_dirtiness
      {| ms_all := ms_all s; ms_progdp := ms_progdp s;
         ms_trk := upd (ms_trk s) k (Some {| tr_des := tr_des t; tr_dp := [] |}); ms_dirty := ms_dirty s |} k
  end.
Definition invalidate (s : mstate) : mstate :=
  fold_left invalidate_one all_kinds
    {| ms_all := ms_all s; ms_progdp := kempty; ms_trk := ms_trk s; ms_dirty := ms_dirty s |}.

(* MapUpdates: per dirty map (create?, members to delete, members to add) *)
Definition is_dirty_map (s : mstate) (k : epkind) : bool :=
  (ms_dirty s k && ms_all s k) || (ms_all s k && negb (ms_progdp s k)).
Record mupd := { u_k : epkind; u_create : bool; u_dels : nset; u_adds : nset }.
Definition map_updates (s : mstate) : list mupd :=
  map (fun k => let t := get_or_create s k in
                {| u_k := k; u_create := negb (ms_progdp s k);
                   u_dels := ndiff (tr_dp t) (tr_des t); u_adds := ndiff (tr_des t) (tr_dp t) |})
      (filter (is_dirty_map s) all_kinds).

Definition is_nil {A} (l : list A) : bool := match l with [] => true | _ => false end.

(* FinishMapUpdates *)
Definition finish_one (s : mstate) (u : mupd) : mstate :=
  if is_nil (u_adds u) && is_nil (u_dels u) then s
  else let t := get_or_create s (u_k u) in
       {| ms_all := ms_all s; ms_progdp := upd (ms_progdp s) (u_k u) true;
          ms_trk := upd (ms_trk s) (u_k u)
                        (Some {| tr_des := tr_des t; tr_dp := ndiff (tr_dp t) (u_dels u) ++ u_adds u |});
          ms_dirty := ms_dirty s |}.
Definition finish (s : mstate) (us : list mupd) : mstate :=
  let s' := fold_left finish_one us s in
  {| ms_all := ms_all s'; ms_progdp := ms_progdp s'; ms_trk := ms_trk s'; ms_dirty := kempty |}.

(* ---- NftablesTable ---- *)
Record tstate := { t_m : mstate;
                   t_insync : bool;      (* inSyncWithDataPlane *)
                   t_recreate : bool;    (* recreatePending *)
                   t_hempty : bool }.    (* len(chainToDataplaneHashes) == 0 *)
Definition t_init : tstate := {| t_m := m_init; t_insync := false; t_recreate := false; t_hempty := true |}.

(* injected failures, one bool per call in call order; exhausted = healthy *)
Record script := { sc_run : list bool; sc_listall : list bool; sc_elem : list bool }.
Definition pop (l : list bool) : bool * list bool := match l with [] => (false, []) | b :: l' => (b, l') end.

(* loadDataplaneState *)
Definition load_table (ts : tstate) (kn : kernel) (sc : script) : tstate * script :=
  let (la, l1) := pop (sc_listall sc) in
  let (ef, l2) := pop (sc_elem sc) in
  let sc' := {| sc_run := sc_run sc; sc_listall := l1; sc_elem := l2 |} in
  if la then (ts, sc')
  else ({| t_m := load_maps (t_m ts) kn ef; t_insync := true; t_recreate := t_recreate ts;
           t_hempty := match kn with None => true | Some _ => false end |}, sc').

(* queueTableRecreate *)
Definition queue_recreate (ts : tstate) : tstate :=
  if t_recreate ts then ts
  else {| t_m := t_m ts; t_insync := true; t_recreate := true; t_hempty := true |}.

Definition tx_of (recreate hempty : bool) (us : list mupd) : list txop :=
  (if recreate then [TAddTable; TDelTable; TAddTable] else if hempty then [TAddTable] else [])
  ++ flat_map (fun u => if u_create u then [TAddMap (u_k u)] else []) us
  ++ flat_map (fun u => map (TDelElem (u_k u)) (u_dels u)) us
  ++ flat_map (fun u => map (TAddElem (u_k u)) (u_adds u)) us.

(* applyUpdates; every attempt runs a transaction (the driver always has a chain to rewrite) *)
Definition apply_updates (ts : tstate) (kn : kernel) (sc : script) : bool * tstate * kernel * script :=
  let m1 := if t_recreate ts then invalidate (t_m ts) else t_m ts in
  let us := map_updates m1 in
  let (rf, l1) := pop (sc_run sc) in
  let sc' := {| sc_run := l1; sc_listall := sc_listall sc; sc_elem := sc_elem sc |} in
  match (if rf then None else apply_tx kn (tx_of (t_recreate ts) (t_hempty ts) us)) with
  | None => (false, {| t_m := m1; t_insync := t_insync ts; t_recreate := t_recreate ts; t_hempty := t_hempty ts |}, kn, sc')
  | Some kn' => (true, {| t_m := finish m1 us; t_insync := t_insync ts; t_recreate := false; t_hempty := false |}, kn', sc')
  end.

Record aresult := { a_ok : bool; a_ts : tstate; a_kn : kernel; a_runs : nat; a_loads : nat }.

(* Apply(): retries counts down from 10 *)
Fixpoint apply_loop (retries : nat) (ts : tstate) (kn : kernel) (sc : script) (runs loads : nat) : aresult :=
  let '(ts1, sc1, loads1) := if t_insync ts then (ts, sc, loads)
                             else let (a, b) := load_table ts kn sc in (a, b, S loads) in
  match apply_updates ts1 kn sc1 with
  | (true, ts2, kn2, _) => {| a_ok := true; a_ts := ts2; a_kn := kn2; a_runs := S runs; a_loads := loads1 |}
  | (false, ts2, _, sc2) =>
      match retries with
      | O => {| a_ok := false; a_ts := ts2; a_kn := kn; a_runs := S runs; a_loads := loads1 |}
      | S r =>
          let '(ts3, sc3, loads3) := if Nat.ltb retries 6 then (queue_recreate ts2, sc2, loads1)
                                     else let (a, b) := load_table ts2 kn sc2 in (a, b, S loads1) in
          apply_loop r ts3 kn sc3 (S runs) loads3
      end
  end.

Definition apply_table (ts : tstate) (kn : kernel) (sc : script) : aresult := apply_loop 10 ts kn sc 0 0.
