(* C10 — the cali-set-endpoint-mark dispatch chain (endpointMarkDispatchChains, IPVS mode): exact
   characterisation of the verdict, including the fall-through of the child chains (built without end rules). *)
From Coq Require Import List NArith Bool Arith Lia.
From Verif.C10 Require Import Nf Model Spec Proofs.
Import ListNotations.
Open Scope N_scope.

Definition sm_groups (names : list name) : name * groups :=
  match names with
  | [] => ([], [])
  | _ => match divide names with Some r => r | None => ([], []) end
  end.

Lemma good_nil : good_groups [] [].
Proof. constructor; simpl; try constructor; intros; contradiction. Qed.

Lemma sm_part_good : forall c ix names, names_ok (wildcard c) names = true ->
  exists cp gs, sm_part c ix names = Some (child_chains ix KSetMark cp gs [], flat_map (root_rule (wildcard c) ix KSetMark cp) gs)
    /\ good_groups cp gs /\ Forall (fun n => name_plain (wildcard c) n = true) (all_names gs)
    /\ (forall i, mem i (all_names gs) = mem i names) /\ sm_groups names = (cp, gs).
Proof.
  intros c ix names OK. destruct names as [|n0 names'] eqn:En.
  - exists [], []. simpl. split; [reflexivity|split; [apply good_nil|split; [constructor|split; auto]]].
  - rewrite <- En in *. destruct (names_ok_divide _ _ OK) as [cp [gs [HD [GG [HP HM]]]]].
    exists cp, gs. unfold sm_part, sm_groups. rewrite HD. subst names. auto.
Qed.

Lemma multi_cp : forall cp gs, good_groups cp gs ->
  forall g, In g gs -> is_multi (snd g) = true -> is_prefix cp (fst g) = true.
Proof.
  intros cp gs GG [p ns] Hg Hm. cbn [fst snd] in *. destruct ns as [|m ns]; [discriminate|].
  pose proof (gg_key _ _ GG (p, m :: ns) m Hg (or_introl eq_refl)) as K. cbn [fst] in K. rewrite <- K.
  apply key_has_cp. apply (gg_cp _ _ GG). eapply in_all_names; eauto. simpl; auto.
Qed.

Lemma find_skip_by_id : forall c pre rest,
  (forall ch, In ch pre -> cid_eqb c (fst ch) = false) -> find_chain c (pre ++ rest) = find_chain c rest.
Proof.
  induction pre as [|[c' r] pre IH]; intros rest H; simpl; auto.
  pose proof (H (c', r) (or_introl eq_refl)) as E. cbn [fst] in E. rewrite E. apply IH. intros ch Hc. apply H. simpl; auto.
Qed.

Lemma child_ids : forall ix k cp gs E ch, In ch (child_chains ix k cp gs E) -> exists s, fst ch = CChild k (ix ++ s).
Proof.
  intros ix k cp gs E ch H. unfold child_chains in H. apply in_flat_map in H.
  destruct H as [g [_ H]]. destruct (is_multi (snd g)); [|inversion H].
  destruct H as [<-|[]]. unfold child_id. simpl. eauto.
Qed.

Lemma child_in : forall ix k cp gs E g, In g gs -> is_multi (snd g) = true ->
  In (child_id ix k cp (fst g), map (ep_rule k) (snd g) ++ E) (child_chains ix k cp gs E).
Proof.
  intros ix k cp gs E g Hg Hm. unfold child_chains. apply in_flat_map. exists g. split; auto.
  rewrite Hm. simpl; auto.
Qed.

(* the tail of the root chain: "Unknown endpoint" deny per workload prefix, then the non-Calico mark *)
Lemma sm_tail_eval : forall c rs pk mk msk f, (length (sm_tail c mk msk) < f)%nat ->
  run f (wildcard c) rs pk (sm_tail c mk msk) [] =
  if existsb (fun p => is_prefix p (p_in pk)) (cf_wlpfx c) then deny_result (cf_reject c) else RReturnMarked mk msk.
Proof.
  intros c rs pk mk msk. unfold sm_tail. induction (cf_wlpfx c) as [|p ps IH]; intros f Hf.
  - simpl in *. destruct f as [|[|f]]; try lia. reflexivity.
  - cbn [map app existsb length] in *. destruct f as [|f]; [lia|].
    destruct (is_prefix p (p_in pk)) eqn:Ep.
    + cbn [orb]. unfold deny_action, deny_result.
      destruct (cf_reject c); simpl; rewrite pat_wild; simpl; rewrite Ep; reflexivity.
    + rewrite run_nomatch by (rewrite match_iface, pat_wild; exact Ep). cbn [orb]. apply IH. lia.
Qed.

Theorem setmark_char : forall c wl hep mk msk,
  names_ok (sem_wildcard (cf_nft c)) wl = true -> names_ok (sem_wildcard (cf_nft c)) hep = true ->
  exists rs, set_mark_dispatch c wl hep mk msk = Some rs /\
    forall pk,
      eval (sem_wildcard (cf_nft c)) rs pk (CRoot KSetMark) =
      if mem (p_in pk) wl then REndpoint KSetMark (p_in pk)
      else if captured (snd (sm_groups wl)) (p_in pk) then RReturn
      else if mem (p_in pk) hep then REndpoint KSetMark (p_in pk)
      else if captured (snd (sm_groups hep)) (p_in pk) then RReturn
      else if existsb (fun p => is_prefix p (p_in pk)) (cf_wlpfx c) then deny_result (cf_reject c)
      else RReturnMarked mk msk.
Proof.
  intros c wl hep mk msk OKw OKh. rewrite <- wildcard_sem in *.
  destruct (sm_part_good c ix_wep wl OKw) as [cpw [gsw [Pw [GGw [HPw [HMw SGw]]]]]].
  destruct (sm_part_good c ix_hep hep OKh) as [cph [gsh [Ph [GGh [HPh [HMh SGh]]]]]].
  unfold set_mark_dispatch. rewrite Pw, Ph. eexists. split; [reflexivity|]. intros pk.
  rewrite SGw, SGh. cbn [snd]. rewrite <- HMw, <- HMh.
  set (cw := child_chains ix_wep KSetMark cpw gsw []).
  set (ch := child_chains ix_hep KSetMark cph gsh []).
  set (rw := flat_map (root_rule (wildcard c) ix_wep KSetMark cpw) gsw).
  set (rh := flat_map (root_rule (wildcard c) ix_hep KSetMark cph) gsh).
  set (tl := sm_tail c mk msk).
  set (rs := {| rs_chains := cw ++ ch ++ [(CRoot KSetMark, rw ++ rh ++ tl)]; rs_maps := [] |}).
  assert (Hroot : find_chain (CRoot KSetMark) (rs_chains rs) = Some (rw ++ rh ++ tl)).
  { cbn [rs rs_chains]. rewrite find_skip_by_id.
    - rewrite find_skip_by_id; [simpl; reflexivity|].
      intros x Hx. destruct (child_ids _ _ _ _ _ _ Hx) as [s ->]. reflexivity.
    - intros x Hx. destruct (child_ids _ _ _ _ _ _ Hx) as [s ->]. reflexivity. }
  assert (Hcw : forall g, In g gsw -> is_multi (snd g) = true ->
            find_chain (child_id ix_wep KSetMark cpw (fst g)) (rs_chains rs) = Some (map (ep_rule KSetMark) (snd g) ++ [])).
  { intros [p ns] Hg Hm. cbn [fst snd rs rs_chains] in *. apply find_child; auto.
    - exact (gg_keys _ _ GGw).
    - apply multi_cp; auto. }
  assert (Hch : forall g, In g gsh -> is_multi (snd g) = true ->
            find_chain (child_id ix_hep KSetMark cph (fst g)) (rs_chains rs) = Some (map (ep_rule KSetMark) (snd g) ++ [])).
  { intros [p ns] Hg Hm. cbn [fst snd rs rs_chains] in *. rewrite find_skip_by_id.
    - apply find_child; auto; [exact (gg_keys _ _ GGh)|apply multi_cp; auto].
    - intros x Hx. destruct (child_ids _ _ _ _ _ _ Hx) as [s ->]. reflexivity. }
  set (Bc := S (chains_size (cw ++ ch))).
  assert (Hsz : forall c' r, In (c', r) (cw ++ ch) -> (length r < Bc)%nat).
  { intros c' r Hin. apply chains_size_in in Hin. unfold Bc. lia. }
  assert (Hszw : forall g, In g gsw -> is_multi (snd g) = true -> (length (snd g) + length (@nil rule) < Bc)%nat).
  { intros g Hg Hm. pose proof (child_in ix_wep KSetMark cpw gsw [] g Hg Hm) as Hin.
    assert (Hin' : In (child_id ix_wep KSetMark cpw (fst g), map (ep_rule KSetMark) (snd g) ++ []) (cw ++ ch))
      by (apply in_or_app; left; exact Hin).
    apply Hsz in Hin'. rewrite app_length, map_length in Hin'. exact Hin'. }
  assert (Hszh : forall g, In g gsh -> is_multi (snd g) = true -> (length (snd g) + length (@nil rule) < Bc)%nat).
  { intros g Hg Hm. pose proof (child_in ix_hep KSetMark cph gsh [] g Hg Hm) as Hin.
    assert (Hin' : In (child_id ix_hep KSetMark cph (fst g), map (ep_rule KSetMark) (snd g) ++ []) (cw ++ ch))
      by (apply in_or_app; right; exact Hin).
    apply Hsz in Hin'. rewrite app_length, map_length in Hin'. exact Hin'. }
  unfold eval. rewrite Hroot.
  assert (Hnil : forall f, (length (@nil rule) < f)%nat -> run f (wildcard c) rs pk [] [] = RReturn).
  { intros f Hf. destruct f; [simpl in Hf; lia|reflexivity]. }
  (* host endpoint part + tail *)
  assert (Hh : forall f, (length rh + length tl + Bc < f)%nat ->
            run f (wildcard c) rs pk (rh ++ tl) [] =
            if mem (p_in pk) (all_names gsh) then REndpoint KSetMark (p_in pk)
            else if captured gsh (p_in pk) then RReturn
            else if existsb (fun p => is_prefix p (p_in pk)) (cf_wlpfx c) then deny_result (cf_reject c)
            else RReturnMarked mk msk).
  { intros f Hf. unfold rh in *.
    rewrite (root_scan (wildcard c) rs pk ix_hep KSetMark cph tl [] _ RReturn Bc (length tl)
               (fun f' H' => sm_tail_eval c rs pk mk msk f' H') Hnil gsh f); auto.
    - intros g n Hg Hn. rewrite <- (gg_key _ _ GGh g n Hg Hn).
      apply key_prefix_of_name. apply (gg_cp _ _ GGh). eapply in_all_names; eauto.
    - intros g Hg Hm Hpi Hin. eapply good_capture; eauto. }
  unfold rw at 1.
  rewrite (root_scan (wildcard c) rs pk ix_wep KSetMark cpw (rh ++ tl) [] _ RReturn Bc (length rh + length tl + Bc)
             Hh Hnil gsw); auto.
  - intros g n Hg Hn. rewrite <- (gg_key _ _ GGw g n Hg Hn).
    apply key_prefix_of_name. apply (gg_cp _ _ GGw). eapply in_all_names; eauto.
  - intros g Hg Hm Hpi Hin. exact (good_capture cpw gsw g _ GGw Hg Hm Hpi Hin).
  - fold rw. cbn [rs rs_chains]. rewrite !chains_size_app. cbn [chains_size]. rewrite !app_length.
    unfold Bc. rewrite chains_size_app. lia.
Qed.

(* outside the fall-through class the chain does what the property says *)
Theorem setmark_meets_spec_unless_captured : forall c wl hep mk msk rs pk,
  names_ok (sem_wildcard (cf_nft c)) wl = true -> names_ok (sem_wildcard (cf_nft c)) hep = true ->
  set_mark_dispatch c wl hep mk msk = Some rs ->
  (mem (p_in pk) wl = true \/ captured (snd (sm_groups wl)) (p_in pk) = false) ->
  (mem (p_in pk) wl = true \/ mem (p_in pk) hep = true \/ captured (snd (sm_groups hep)) (p_in pk) = false) ->
  eval (sem_wildcard (cf_nft c)) rs pk (CRoot KSetMark) =
  spec_setmark (cf_reject c) (cf_wlpfx c) wl hep mk msk (p_in pk).
Proof.
  intros c wl hep mk msk rs pk OKw OKh Hrs H1 H2.
  destruct (setmark_char c wl hep mk msk OKw OKh) as [rs' [E HC]]. rewrite Hrs in E. inversion E; subst rs'.
  rewrite HC. unfold spec_setmark.
  destruct (mem (p_in pk) wl) eqn:Ew; [reflexivity|]. cbn [orb].
  destruct H1 as [H1|H1]; [discriminate|]. rewrite H1.
  destruct (mem (p_in pk) hep) eqn:Eh; [reflexivity|].
  destruct H2 as [H2|[H2|H2]]; try discriminate. rewrite H2. reflexivity.
Qed.

Lemma NoDup_app_cid : forall (a b : list cid), NoDup a -> NoDup b ->
  (forall x, In x a -> In x b -> False) -> NoDup (a ++ b).
Proof.
  induction a; intros b Ha Hb Hd; simpl; auto. inversion Ha; subst. constructor.
  - intros Hin. apply in_app_or in Hin. destruct Hin; [contradiction|]. apply (Hd a); simpl; auto.
  - apply IHa; auto. intros x Hx1 Hx2. apply (Hd x); simpl; auto.
Qed.

(* ---------- chain ids of a rendered tree are pairwise distinct ---------- *)
Lemma child_chains_nodup : forall ix k cp gs E, good_groups cp gs ->
  NoDup (map fst (child_chains ix k cp gs E)).
Proof.
  intros ix k cp gs E GG. pose proof (multi_cp cp gs GG) as MC. pose proof (gg_keys _ _ GG) as ND.
  clear GG. induction gs as [|[p ns] gs IH]; [constructor|].
  simpl in ND. inversion ND as [|x l NI ND']; subst.
  unfold child_chains. cbn [flat_map fst snd]. fold (child_chains ix k cp gs E).
  assert (IH' : NoDup (map fst (child_chains ix k cp gs E))) by (apply IH; auto; intros g Hg; apply MC; simpl; auto).
  destruct (is_multi ns) eqn:Em; [|exact IH'].
  cbn [app map fst]. constructor; auto.
  intros Hin. apply in_map_iff in Hin. destruct Hin as [[c' r] [Hc Hin]]. cbn [fst] in Hc. subst c'.
  unfold child_chains in Hin. apply in_flat_map in Hin. destruct Hin as [[p' ns'] [Hg Hin]]. cbn [fst snd] in Hin.
  destruct (is_multi ns') eqn:Em'; [|inversion Hin]. destruct Hin as [Heq|[]]. inversion Heq as [[Hid Hr]].
  apply app_inv_head in Hid. apply skipn_cp_inj in Hid.
  - subst p'. apply NI. apply (in_map fst) in Hg. exact Hg.
  - apply (MC (p', ns')); simpl; auto.
  - apply (MC (p, ns)); simpl; auto.
Qed.

Lemma build_tree_nodup : forall wc ix k cp gs E, good_groups cp gs ->
  NoDup (map fst (build_tree wc ix k cp gs E)).
Proof.
  intros wc ix k cp gs E GG. unfold build_tree. rewrite map_app. cbn [map fst].
  apply NoDup_app_cid; [apply child_chains_nodup; auto|repeat constructor; simpl; tauto|].
  intros c H1 [<-|[]]. apply in_map_iff in H1. destruct H1 as [ch [Hc Hin]].
  apply child_chains_kind in Hin. destruct Hin as [s Hs]. congruence.
Qed.

(* ---------- chain NAMES: the rendering of chain ids into iptables/nftables chain names is injective ---------- *)
Definition root_name (k : epkind) : name :=
  match k with
  | KWlFrom => [99;97;108;105;45;102;114;111;109;45;119;108;45;100;105;115;112;97;116;99;104]   (* cali-from-wl-dispatch *)
  | KWlTo => [99;97;108;105;45;116;111;45;119;108;45;100;105;115;112;97;116;99;104]   (* cali-to-wl-dispatch *)
  | KHostFrom => [99;97;108;105;45;102;114;111;109;45;104;111;115;116;45;101;110;100;112;111;105;110;116]   (* cali-from-host-endpoint *)
  | KHostTo => [99;97;108;105;45;116;111;45;104;111;115;116;45;101;110;100;112;111;105;110;116]   (* cali-to-host-endpoint *)
  | KHostFromFwd => [99;97;108;105;45;102;114;111;109;45;104;101;112;45;102;111;114;119;97;114;100]   (* cali-from-hep-forward *)
  | KHostToFwd => [99;97;108;105;45;116;111;45;104;101;112;45;102;111;114;119;97;114;100]   (* cali-to-hep-forward *)
  | KSetMark => [99;97;108;105;45;115;101;116;45;101;110;100;112;111;105;110;116;45;109;97;114;107]   (* cali-set-endpoint-mark *)
  end.

(* childChainName = chainName + infix + "-" + nextChar, i.e. root ++ "-" ++ (child id) *)
Definition chain_name (c : cid) : option name :=
  match c with
  | CRoot k => Some (root_name k)
  | CChild k s => Some (root_name k ++ [45] ++ s)
  | CEp _ _ => None      (* EndpointChainName: hashing, see C37 *)
  end.

Lemma no_common_ext : forall a b x y, is_prefix a b = false -> is_prefix b a = false -> a ++ x <> b ++ y.
Proof.
  induction a as [|c a IH]; intros b x y H1 H2; [discriminate|].
  destruct b as [|d b]; [discriminate|]. simpl in *.
  destruct (N.eqb_spec c d).
  - subst. rewrite N.eqb_refl in H2. simpl in *. intros E. inversion E. eapply IH; eauto.
  - intros E. inversion E. contradiction.
Qed.

Lemma roots_unrelated : forall k k', k <> k' -> is_prefix (root_name k) (root_name k') = false.
Proof. intros k k' H. destruct k, k'; try congruence; vm_compute; reflexivity. Qed.

Lemma app_self_nonempty : forall (a : name) c s, a <> a ++ c :: s.
Proof.
  intros a c s H. assert (length a = length (a ++ c :: s)) by congruence.
  rewrite app_length in H0. simpl in H0. lia.
Qed.

Theorem chain_name_inj : forall c c' n, chain_name c = Some n -> chain_name c' = Some n -> c = c'.
Proof.
  intros c c' n H1 H2.
  assert (kdec : forall a b : epkind, a = b \/ a <> b).
  { intros a b. destruct (epkind_eqb a b) eqn:E; [left; apply epkind_eqb_eq; auto|right; intros ->; rewrite epkind_eqb_refl in E; discriminate]. }
  destruct c as [k|k s|k m], c' as [k'|k' s'|k' m']; simpl in H1, H2; try discriminate;
    rewrite <- H2 in H1; inversion H1 as [H]; clear H1 H2.
  - destruct (kdec k k') as [->|Hne]; auto. exfalso.
    apply (no_common_ext (root_name k) (root_name k') [] []); try apply roots_unrelated; auto. rewrite !app_nil_r. exact H.
  - exfalso. destruct (kdec k k') as [->|Hne].
    + eapply app_self_nonempty; eauto.
    + apply (no_common_ext (root_name k) (root_name k') [] (45 :: s')); try apply roots_unrelated; auto. rewrite app_nil_r. exact H.
  - exfalso. destruct (kdec k k') as [->|Hne].
    + eapply app_self_nonempty; eauto.
    + apply (no_common_ext (root_name k) (root_name k') (45 :: s) []); try apply roots_unrelated; auto. rewrite app_nil_r. exact H.
  - destruct (kdec k k') as [->|Hne].
    + apply app_inv_head in H. inversion H. reflexivity.
    + exfalso. apply (no_common_ext (root_name k) (root_name k') (45 :: s) (45 :: s')); try apply roots_unrelated; auto.
Qed.

Lemma nodup_names_of_cids : forall l : list cid, NoDup l -> (forall c, In c l -> chain_name c <> None) ->
  NoDup (map chain_name l).
Proof.
  induction l as [|a l IH]; intros ND HN; [constructor|]. inversion ND; subst. cbn [map]. constructor.
  - intros Hin. apply in_map_iff in Hin. destruct Hin as [c [Hc Hin]].
    destruct (chain_name a) as [n|] eqn:Ea; [|apply (HN a); simpl; auto].
    assert (c = a) by (eapply chain_name_inj; eauto). subst. contradiction.
  - apply IH; auto. intros c Hc. apply HN. simpl; auto.
Qed.

Lemma tree_cid_named : forall wc ix k cp gs E c, In c (map fst (build_tree wc ix k cp gs E)) -> chain_name c <> None.
Proof.
  intros wc ix k cp gs E c H. apply in_map_iff in H. destruct H as [ch [<- Hin]].
  unfold build_tree in Hin. apply in_app_or in Hin. destruct Hin as [Hin|[<-|[]]]; [|discriminate].
  apply child_chains_kind in Hin. destruct Hin as [s ->]. discriminate.
Qed.

(* every chain of one rendered prefix tree gets its own chain name *)
Theorem tree_names_distinct : forall wc ix k cp gs E, good_groups cp gs ->
  NoDup (map chain_name (map fst (build_tree wc ix k cp gs E))).
Proof.
  intros. apply nodup_names_of_cids; [apply build_tree_nodup; auto|apply tree_cid_named].
Qed.

(* ... and so do all chains WorkloadDispatchChains returns (iptables renderer: two trees) *)
Theorem workload_chain_names_distinct : forall c names rs,
  names_ok (sem_wildcard (cf_nft c)) names = true -> cf_nft c = false ->
  workload_dispatch c names = Some rs ->
  NoDup (map chain_name (map fst (rs_chains rs))).
Proof.
  intros c names rs OK Hn Hrs. rewrite <- wildcard_sem in OK.
  destruct (names_ok_divide _ _ OK) as [cp [gs [HD [GG _]]]].
  unfold workload_dispatch, iface_dispatch in Hrs. rewrite HD in Hrs. unfold build_single in Hrs.
  rewrite Hn in Hrs. cbn [andb] in Hrs. inversion Hrs; subst rs. clear Hrs. cbn [rs_chains].
  apply nodup_names_of_cids.
  - rewrite map_app. apply NoDup_app_cid; try (apply build_tree_nodup; auto).
    intros x H1 H2. apply in_map_iff in H1. apply in_map_iff in H2.
    destruct H1 as [a [<- Ha]]. destruct H2 as [b [Hb Hb']].
    apply build_tree_kinds in Ha. apply build_tree_kinds in Hb'. rewrite Hb in Hb'. congruence.
  - intros x Hx. rewrite map_app in Hx. apply in_app_or in Hx.
    destruct Hx as [Hx|Hx]; eapply tree_cid_named; eauto.
Qed.
