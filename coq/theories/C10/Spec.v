(* C10 — what the property text says, independent of how dispatch.go builds its chains:
   for a set of interface names and a probe interface, which verdict must dispatch reach.
   The oracle evaluates the IMPLEMENTATION's rendered chains in the abstract netfilter
   machine (Nf.v) and compares with these expectations. *)
From Coq Require Import List NArith Bool Arith.
From Verif.C10 Require Import Nf Model.
Import ListNotations.
Open Scope N_scope.

Definition mem (n : name) (l : list name) : bool := existsb (name_eqb n) l.

(* the wildcard byte of the target dataplane: iptables "+", nftables "*" (kernel semantics, trusted) *)
Definition sem_wildcard (nft : bool) : N := if nft then 42 else 43.

(* "dropped" = the configured deny action (DROP, or REJECT when FilterDenyAction=REJECT) *)
Definition deny_result (reject : bool) : result := if reject then RReject else RDrop.

(* Workload dispatch: a known interface goes to its own chain (of the dispatch chain's kind)
   and nothing else does; every other interface is denied. *)
Definition spec_workload (reject : bool) (k : epkind) (names : list name) (i : name) : result :=
  if mem i names then REndpoint k i else deny_result reject.

(* Host dispatch: a known interface goes to its own chain; everything else goes to the wildcard
   (default) host endpoint's chain only when one is configured (dflt <> ""), otherwise back to the
   caller.  wl_return: the "to" direction without apply-on-forward never applies the wildcard
   HEP's policy to traffic going to a local workload interface. *)
Definition spec_host (k : epkind) (names : list name) (dflt : name) (wl_return : bool)
           (wlpfx : list name) (i : name) : result :=
  if mem i names then REndpoint k i
  else match dflt with
       | [] => RReturn
       | _ => if wl_return && existsb (fun p => is_prefix p i) wlpfx then RReturn
              else REndpoint k dflt
       end.

(* Set-endpoint-mark dispatch (IPVS mode): a known workload or host endpoint interface is handed to its own
   cali-sm-<iface> chain; an unknown interface matching a workload prefix is denied ("Unknown endpoint");
   anything else returns carrying the non-Calico endpoint mark. *)
Definition spec_setmark (reject : bool) (wlpfx : list name) (wl hep : list name) (mark mask : N) (i : name) : result :=
  if mem i wl || mem i hep then REndpoint KSetMark i
  else if existsb (fun p => is_prefix p i) wlpfx then deny_result reject
  else RReturnMarked mark mask.

(* Domain of the property: real interface names are non-empty and never end in the dataplane's
   wildcard byte (the v3 validator only admits [a-zA-Z0-9_.-]{1,15}). *)
Fixpoint name_plain (wc : N) (n : name) : bool :=   (* non-empty and the last byte is not wc *)
  match n with
  | [] => false
  | c :: n' => match n' with [] => negb (N.eqb c wc) | _ => name_plain wc n' end
  end.
Definition names_ok (wc : N) (names : list name) : bool := forallb (name_plain wc) names.

(* ---- one correspondence case, as written by the Go harness ---- *)
Inductive ckind := CWorkload | CHost (dflt : name) (m : hmode)
  | CSetMark (hep : list name) (mark mask : N).  (* EndpointMarkDispatchChains: c_names = workload names *)

Record case := { c_cfg : cfg;
                 c_kind : ckind;
                 c_names : list name;
                 c_impl : option ruleset;          (* rendered by the real code; None = it panicked *)
                 c_probes : list (name * name) }.  (* (probe interface, decoy for the other direction) *)

Definition roots (k : ckind) : list epkind :=
  match k with
  | CWorkload => [KWlFrom; KWlTo]
  | CHost _ HFrom => [KHostFrom]
  | CHost _ HTo => [KHostTo]
  | CHost _ (HBoth false) => [KHostFrom; KHostTo]
  | CHost _ (HBoth true) => [KHostFrom; KHostTo; KHostFromFwd; KHostToFwd]
  | CSetMark _ _ _ => [KSetMark]
  end.

Definition mk_packet (k : epkind) (probe decoy : name) : packet :=
  match kind_dir k with
  | DIn => {| p_in := probe; p_out := decoy |}
  | DOut => {| p_in := decoy; p_out := probe |}
  end.

Definition expected (c : cfg) (ck : ckind) (names : list name) (k : epkind) (i : name) : result :=
  match ck with
  | CWorkload => spec_workload (cf_reject c) k names i
  | CHost dflt m =>
      spec_host k names dflt
                (match k with KHostTo => negb (mode_aof m) | _ => false end)
                (cf_wlpfx c) i
  | CSetMark hep mark mask => spec_setmark (cf_reject c) (cf_wlpfx c) names hep mark mask i
  end.

Definition ok_ruleset (c : cfg) (ck : ckind) (names : list name) (probes : list (name * name))
           (rs : ruleset) : bool :=
  forallb (fun k =>
    forallb (fun pd =>
      result_eqb (eval (sem_wildcard (cf_nft c)) rs (mk_packet k (fst pd) (snd pd)) (CRoot k))
                 (expected c ck names k (fst pd)))
      probes) (roots ck).

Definition model_of (c : case) : option ruleset :=
  match c_kind c with
  | CWorkload => workload_dispatch (c_cfg c) (c_names c)
  | CHost dflt m => host_dispatch (c_cfg c) (c_names c) dflt m
  | CSetMark hep mark mask => set_mark_dispatch (c_cfg c) (c_names c) hep mark mask
  end.

Definition is_empty (n : name) : bool := match n with [] => true | _ => false end.

(* Oracle on the implementation's output.  Outside the domain (a name that is empty or ends in the
   wildcard byte) nothing is demanded except that a panic is only acceptable for an empty name. *)
Definition ok_case (c : case) : bool :=
  match c_impl c with
  | None => existsb is_empty (c_names c ++ match c_kind c with CSetMark hep _ _ => hep | _ => [] end)
  | Some rs =>
      if names_ok (sem_wildcard (cf_nft (c_cfg c))) (c_names c)
         && names_ok (sem_wildcard (cf_nft (c_cfg c))) (match c_kind c with CSetMark hep _ _ => hep | _ => [] end)
      then ok_ruleset (c_cfg c) (c_kind c) (c_names c) (c_probes c) rs
      else true
  end.

Definition agree_case (c : case) : bool :=
  match c_impl c, model_of c with
  | Some a, Some b => ruleset_eqb a b
  | None, None => true
  | _, _ => false
  end.

Definition check_case (c : case) : bool * bool := (agree_case c, ok_case c).
