(* C10 — a small abstract netfilter machine, just enough for interface dispatch:
   rules match on the in/out interface name (exact name, or "prefix<wildcard>"),
   actions goto/jump/return/drop/reject/accept, nftables verdict-map rules,
   chains, and a fuelled evaluator with a jump stack.  Definitions only. *)
From Coq Require Import List NArith Bool Arith.
Import ListNotations.
Open Scope N_scope.

(* interface and pattern names are byte strings *)
Definition name := list N.

Fixpoint name_eqb (a b : name) : bool :=
  match a, b with
  | [], [] => true
  | x :: a', y :: b' => N.eqb x y && name_eqb a' b'
  | _, _ => false
  end.

Fixpoint is_prefix (p s : name) : bool :=
  match p with
  | [] => true
  | x :: p' => match s with [] => false | y :: s' => N.eqb x y && is_prefix p' s' end
  end.

Inductive dir := DIn | DOut.

(* which family of per-endpoint chains a dispatch chain hands over to *)
Inductive epkind := KWlFrom | KWlTo | KHostFrom | KHostTo | KHostFromFwd | KHostToFwd
  | KSetMark.   (* cali-set-endpoint-mark: hands over to the per-endpoint cali-sm-<iface> chains *)

Definition kind_num (k : epkind) : N :=
  match k with KWlFrom => 0 | KWlTo => 1 | KHostFrom => 2 | KHostTo => 3 | KHostFromFwd => 4 | KHostToFwd => 5 | KSetMark => 6 end.
Definition epkind_eqb (a b : epkind) : bool := N.eqb (kind_num a) (kind_num b).

(* "from" chains look at the incoming interface, "to" chains at the outgoing one *)
Definition kind_dir (k : epkind) : dir :=
  match k with KWlFrom | KHostFrom | KHostFromFwd | KSetMark => DIn | _ => DOut end.

(* chain identities.  CRoot k is the dispatch chain of kind k (e.g. cali-from-wl-dispatch),
   CChild k s the child chain "<root>-<s>", CEp k n the per-endpoint chain
   EndpointChainName(<prefix of k>, n).  The Go driver maps real chain names to these
   and fails hard when the mapping is not one-to-one. *)
Inductive cid :=
| CRoot (k : epkind)
| CChild (k : epkind) (suffix : name)
| CEp (k : epkind) (n : name).

Definition cid_eqb (a b : cid) : bool :=
  match a, b with
  | CRoot k, CRoot k' => epkind_eqb k k'
  | CChild k s, CChild k' s' => epkind_eqb k k' && name_eqb s s'
  | CEp k n, CEp k' n' => epkind_eqb k k' && name_eqb n n'
  | _, _ => false
  end.

Inductive imatch :=
| MAny
| MIface (d : dir) (pat : name).   (* pat is the text the renderer produced, wildcard char included *)

Inductive action :=
| AGoto (c : cid) | AJump (c : cid) | AReturn | ADrop | AReject | AAccept
| ASetMark (mark mask : N).   (* non-terminating: set the masked mark and carry on with the next rule *)

Inductive rule :=
| Rule (m : imatch) (a : action)
| RVmap (d : dir) (map : epkind).  (* "iifname/oifname vmap @map": verdict from the map, else fall through *)

Definition vmap := list (name * action).

Record ruleset := { rs_chains : list (cid * list rule); rs_maps : list (epkind * vmap) }.

Record packet := { p_in : name; p_out : name }.

Inductive result :=
| RDrop | RReject | RAccept
| RReturn                          (* fell off / returned from the dispatch chain to its caller *)
| RReturnMarked (mark mask : N)    (* returned to the caller after a set-mark rule fired *)
| REndpoint (k : epkind) (n : name) (* handed to the per-endpoint chain of kind k for interface n *)
| RUndef                           (* reference to a chain or map that is not defined *)
| RFuel.

(* Interface pattern semantics shared by iptables ("+") and nftables ("*"): a pattern whose LAST
   byte is the wildcard matches every name that starts with the rest; any other pattern is exact. *)
Fixpoint pat_matches (wc : N) (pat i : name) : bool :=
  match pat with
  | [] => match i with [] => true | _ => false end
  | c :: pat' =>
      match pat' with
      | [] => if N.eqb c wc then true else name_eqb pat i
      | _ => match i with [] => false | d :: i' => N.eqb c d && pat_matches wc pat' i' end
      end
  end.

Definition pkt_if (d : dir) (pk : packet) : name :=
  match d with DIn => p_in pk | DOut => p_out pk end.

Definition match_pkt (wc : N) (m : imatch) (pk : packet) : bool :=
  match m with MAny => true | MIface d pat => pat_matches wc pat (pkt_if d pk) end.

Fixpoint find_chain (c : cid) (cs : list (cid * list rule)) : option (list rule) :=
  match cs with
  | [] => None
  | (c', rs) :: cs' => if cid_eqb c c' then Some rs else find_chain c cs'
  end.

Fixpoint find_map (k : epkind) (ms : list (epkind * vmap)) : option vmap :=
  match ms with
  | [] => None
  | (k', m) :: ms' => if epkind_eqb k k' then Some m else find_map k ms'
  end.

Fixpoint vmap_lookup (i : name) (m : vmap) : option action :=
  match m with
  | [] => None
  | (n, a) :: m' => if name_eqb n i then Some a else vmap_lookup i m'
  end.

(* One step = one unit of fuel.  `cur` is the rest of the current chain, `stack` the
   continuations pushed by jumps.  goto keeps the stack (a return goes to the caller's caller). *)
Fixpoint run (fuel : nat) (wc : N) (rs : ruleset) (pk : packet)
         (cur : list rule) (stack : list (list rule)) {struct fuel} : result :=
  match fuel with
  | O => RFuel
  | S f =>
      let enter (c : cid) (st : list (list rule)) : result :=
        match c with
        | CEp k n => REndpoint k n
        | _ => match find_chain c (rs_chains rs) with
               | Some rules => run f wc rs pk rules st
               | None => RUndef
               end
        end in
      let act (a : action) (rest : list rule) : result :=
        match a with
        | ADrop => RDrop
        | AReject => RReject
        | AAccept => RAccept
        | AReturn => run f wc rs pk [] stack
        | AGoto c => enter c stack
        | AJump c => enter c (rest :: stack)
        | ASetMark mk msk => match run f wc rs pk rest stack with
                             | RReturn => RReturnMarked mk msk
                             | r => r
                             end
        end in
      match cur with
      | [] => match stack with
              | [] => RReturn
              | fr :: st => run f wc rs pk fr st
              end
      | Rule m a :: rest =>
          if match_pkt wc m pk then act a rest else run f wc rs pk rest stack
      | RVmap d k :: rest =>
          match find_map k (rs_maps rs) with
          | None => RUndef
          | Some m =>
              match vmap_lookup (pkt_if d pk) m with
              | Some a => act a rest
              | None => run f wc rs pk rest stack
              end
          end
      end
  end.

Fixpoint chains_size (cs : list (cid * list rule)) : nat :=
  match cs with
  | [] => O
  | (_, rules) :: cs' => (S (length rules) + chains_size cs')%nat
  end.

(* evaluation of one packet entering the chain `root` from a base chain *)
Definition eval (wc : N) (rs : ruleset) (pk : packet) (root : cid) : result :=
  match find_chain root (rs_chains rs) with
  | Some rules => run (2 * chains_size (rs_chains rs) + 2) wc rs pk rules []
  | None => RUndef
  end.

(* ---- boolean equalities used by the correspondence comparison ---- *)
Definition dir_eqb (a b : dir) : bool :=
  match a, b with DIn, DIn | DOut, DOut => true | _, _ => false end.

Definition imatch_eqb (a b : imatch) : bool :=
  match a, b with
  | MAny, MAny => true
  | MIface d p, MIface d' p' => dir_eqb d d' && name_eqb p p'
  | _, _ => false
  end.

Definition action_eqb (a b : action) : bool :=
  match a, b with
  | AGoto c, AGoto c' => cid_eqb c c'
  | AJump c, AJump c' => cid_eqb c c'
  | AReturn, AReturn | ADrop, ADrop | AReject, AReject | AAccept, AAccept => true
  | ASetMark a1 a2, ASetMark b1 b2 => N.eqb a1 b1 && N.eqb a2 b2
  | _, _ => false
  end.

Definition rule_eqb (a b : rule) : bool :=
  match a, b with
  | Rule m x, Rule m' x' => imatch_eqb m m' && action_eqb x x'
  | RVmap d k, RVmap d' k' => dir_eqb d d' && epkind_eqb k k'
  | _, _ => false
  end.

Fixpoint list_eqb {A} (eqb : A -> A -> bool) (a b : list A) : bool :=
  match a, b with
  | [], [] => true
  | x :: a', y :: b' => eqb x y && list_eqb eqb a' b'
  | _, _ => false
  end.

Definition chain_eqb (a b : cid * list rule) : bool :=
  cid_eqb (fst a) (fst b) && list_eqb rule_eqb (snd a) (snd b).

Definition vmap_eqb (a b : vmap) : bool :=
  list_eqb (fun x y => name_eqb (fst x) (fst y) && action_eqb (snd x) (snd y)) a b.

Definition ruleset_eqb (a b : ruleset) : bool :=
  list_eqb chain_eqb (rs_chains a) (rs_chains b)
  && list_eqb (fun x y => epkind_eqb (fst x) (fst y) && vmap_eqb (snd x) (snd y)) (rs_maps a) (rs_maps b).

Definition result_eqb (a b : result) : bool :=
  match a, b with
  | RDrop, RDrop | RReject, RReject | RAccept, RAccept | RReturn, RReturn | RUndef, RUndef | RFuel, RFuel => true
  | REndpoint k n, REndpoint k' n' => epkind_eqb k k' && name_eqb n n'
  | RReturnMarked a1 a2, RReturnMarked b1 b2 => N.eqb a1 b1 && N.eqb a2 b2
  | _, _ => false
  end.
