(* C35 — specification level: what the property text says, independent of the
   loop structure of the code.  Used both as the statement of the theorems and
   (ok_trace) as the oracle applied to the implementation's own outputs. *)
From Coq Require Import List NArith ZArith Arith Bool.
From Verif.C35 Require Import Model.
Import ListNotations.
Open Scope N_scope.

(* positions of the mask's set bits among 0..31, ascending *)
Definition positions (mask : N) : list nat := filter (maskbit mask) shifts32.
Definition popcount (mask : N) : nat := length (positions mask).

(* deposit the low bits of n at the given positions (PDEP) *)
Fixpoint pdep (ps : list nat) (n : N) : N :=
  match ps with
  | [] => 0
  | p :: ps' => N.lor (if N.odd n then bit p else 0) (pdep ps' (N.div2 n))
  end.
(* gather the bits of m found at the given positions (PEXT) *)
Fixpoint pext (ps : list nat) (m : N) : N :=
  match ps with
  | [] => 0
  | p :: ps' => (if N.testbit m (N.of_nat p) then 1 else 0) + 2 * pext ps' m
  end.

Definition is_single_bit_in (mask b : N) : bool :=
  existsb (fun p => N.eqb b (bit p)) (positions mask).

(* Oracle over one observed trace.  State: marks handed out so far, whether an
   allocation failure has been seen. *)
Fixpoint ok_trace_from (mask : N) (given : list N) (ops : list op) (outs : list out) : bool :=
  match ops, outs with
  | [], [] => true
  | o :: ops', r :: outs' =>
      match o, r with
      | OpNextSingle, OMark b =>
          is_single_bit_in mask b && negb (existsb (N.eqb b) given)
          && ok_trace_from mask (b :: given) ops' outs'
      | OpNextSingle, OErr =>
          Nat.eqb (length given) (popcount mask) && ok_trace_from mask given ops' outs'
      | OpNextBlock size, OBlock mk k =>
          (* k new distinct mask bits, k = min size (free) *)
          let free := (popcount mask - length given)%nat in
          let newbits := filter (fun p => N.testbit mk (N.of_nat p)) (positions mask) in
          Nat.eqb k (Nat.min size free)
          && N.eqb (N.land mk mask) mk
          && Nat.eqb (length newbits) k
          && forallb (fun p => negb (existsb (N.eqb (bit p)) given)) newbits
          && ok_trace_from mask (map bit newbits ++ given) ops' outs'
      | OpAvail, OInt z =>
          Z.eqb z (Z.of_nat (popcount mask - length given)) && ok_trace_from mask given ops' outs'
      | OpFreeNumber, OInt z =>
          let free := (popcount mask - length given)%nat in
          Z.eqb z (if Nat.eqb free 0 then 0 else Z.shiftl 1 (Z.of_nat free))
          && ok_trace_from mask given ops' outs'
      | OpN2M n, OMark mk =>
          let n := trunc32 n in
          N.ltb n (N.shiftl 1 (N.of_nat (popcount mask)))
          && N.eqb (N.land mk mask) mk
          && N.eqb (pext (positions mask) mk) n
          && ok_trace_from mask given ops' outs'
      | OpN2M n, OErr =>
          N.leb (N.shiftl 1 (N.of_nat (popcount mask))) (trunc32 n)
          && ok_trace_from mask given ops' outs'
      | OpM2N mk, OInt z =>
          let mk := trunc32 mk in
          N.eqb (N.land mk mask) mk && Z.eqb z (Z.of_N (pext (positions mask) mk))
          && ok_trace_from mask given ops' outs'
      | OpM2N mk, OErr =>
          negb (N.eqb (N.land (trunc32 mk) mask) (trunc32 mk)) && ok_trace_from mask given ops' outs'
      | _, _ => false
      end
  | _, _ => false
  end.

Definition ok_trace (mask : N) (ops : list op) (outs : list out) : bool :=
  ok_trace_from (trunc32 mask) [] ops outs.

(* one correspondence case, as written by the Go harness *)
Record case := { c_mask : N; c_ops : list op; c_outs : list out }.
Definition check_case (c : case) : bool * bool :=
  (outs_eqb (run (new_mgr (c_mask c)) (c_ops c)) (c_outs c),
   ok_trace (c_mask c) (c_ops c) (c_outs c)).
