(* C35 — lemmas and proofs about the model (no definitions used by the correspondence run live here). *)
From Coq Require Import List NArith ZArith Arith Bool Lia.
From Verif.C35 Require Import Model Spec.
Import ListNotations.
Open Scope N_scope.

Lemma bit_pow2 s : bit s = 2 ^ N.of_nat s.
Proof. unfold bit. apply N.shiftl_1_l. Qed.

Lemma bit_inj a b : bit a = bit b -> a = b.
Proof.
  rewrite !bit_pow2. intros H. apply N.pow_inj_r in H; lia.
Qed.

(* nthMark = n-th element of the ascending list of set positions *)
Lemma nth_mark_loop_spec mask l : forall found n, (found <= n)%nat ->
  nth_mark_loop mask l found n = option_map bit (nth_error (filter (maskbit mask) l) (n - found)).
Proof.
  induction l as [|s l IH]; intros found n Hle; cbn [nth_mark_loop filter].
  - destruct (n - found)%nat; reflexivity.
  - destruct (maskbit mask s) eqn:Hs.
    + destruct (Nat.eqb found n) eqn:He.
      * apply Nat.eqb_eq in He. subst. rewrite Nat.sub_diag. reflexivity.
      * apply Nat.eqb_neq in He. rewrite IH by lia.
        replace (n - found)%nat with (S (n - S found)) by lia. reflexivity.
    + apply IH; assumption.
Qed.

Lemma nth_mark_spec mask n :
  nth_mark mask n = option_map bit (nth_error (positions mask) n).
Proof.
  unfold nth_mark, positions. rewrite nth_mark_loop_spec by lia. now rewrite Nat.sub_0_r.
Qed.

Lemma positions_NoDup mask : NoDup (positions mask).
Proof. unfold positions. apply NoDup_filter, seq_NoDup. Qed.

Lemma positions_in mask p : In p (positions mask) <-> (p < 32)%nat /\ maskbit mask p = true.
Proof.
  unfold positions, shifts32. rewrite filter_In, in_seq. intuition lia.
Qed.

Lemma filter_length_le' {A} (f : A -> bool) l : (length (filter f l) <= length l)%nat.
Proof. induction l as [|x l IH]; cbn; [lia|]. destruct (f x); cbn; lia. Qed.

Lemma popcount_le_32 mask : (popcount mask <= 32)%nat.
Proof.
  unfold popcount, positions. etransitivity; [apply filter_length_le'|]. unfold shifts32. now rewrite seq_length.
Qed.

(* allocation fails exactly when all the mask's bits have been handed out *)
Lemma nth_mark_none_iff mask n : nth_mark mask n = None <-> (popcount mask <= n)%nat.
Proof.
  rewrite nth_mark_spec. unfold popcount. rewrite <- nth_error_None.
  destruct (nth_error (positions mask) n); cbn [option_map]; split; congruence.
Qed.

Lemma nth_mark_single_bit_in_mask mask n b :
  nth_mark mask n = Some b -> exists p, (p < 32)%nat /\ b = bit p /\ maskbit mask p = true.
Proof.
  rewrite nth_mark_spec. destruct (nth_error (positions mask) n) as [p|] eqn:E; cbn [option_map]; [|discriminate].
  intros [= <-]. apply nth_error_In in E. apply positions_in in E. exists p. tauto.
Qed.

Lemma nth_mark_distinct mask i j a b :
  nth_mark mask i = Some a -> nth_mark mask j = Some b -> i <> j -> a <> b /\ N.land a b = 0.
Proof.
  rewrite !nth_mark_spec.
  destruct (nth_error (positions mask) i) as [p|] eqn:Ei; cbn [option_map]; [|discriminate].
  destruct (nth_error (positions mask) j) as [q|] eqn:Ej; cbn [option_map]; [|discriminate].
  intros [= <-] [= <-] Hij.
  assert (p <> q) as Hpq.
  { intros ->. apply Hij. pose proof (positions_NoDup mask) as ND.
    rewrite NoDup_nth_error in ND. apply ND; [|congruence].
    apply nth_error_Some. congruence. }
  split.
  - intros H. apply bit_inj in H. contradiction.
  - apply N.bits_inj. intros k. rewrite N.land_spec, !bit_pow2, !N.pow2_bits_eqb, N.bits_0.
    destruct (N.eqb_spec (N.of_nat p) k), (N.eqb_spec (N.of_nat q) k); try reflexivity. lia.
Qed.

(* ------------------------------------------------------------------ number <-> mark *)

Lemma land_pow2 m s : N.land (2 ^ s) m = if N.testbit m s then 2 ^ s else 0.
Proof.
  apply N.bits_inj; intros k. rewrite N.land_spec, N.pow2_bits_eqb.
  destruct (N.eqb_spec s k) as [->|Hne].
  - destruct (N.testbit m k) eqn:E; [rewrite N.pow2_bits_true|rewrite N.bits_0]; reflexivity.
  - cbn [andb]. destruct (N.testbit m s); [rewrite N.pow2_bits_false by auto | rewrite N.bits_0]; reflexivity.
Qed.

Lemma pow2_pos k : 0 < 2 ^ k.
Proof. apply N.neq_0_lt_0, N.pow_nonzero. discriminate. Qed.

Lemma m2n_loop_spec mask mark l : forall number found,
  m2n_loop mask mark l number found
  = number + 2 ^ (N.of_nat found) * pext (filter (maskbit mask) l) mark.
Proof.
  induction l as [|s l IH]; intros number found; cbn [m2n_loop filter].
  - cbn [pext]. lia.
  - destruct (maskbit mask s) eqn:Hs.
    + rewrite IH. cbn [pext]. rewrite !bit_pow2, land_pow2.
      rewrite Nat2N.inj_succ, N.pow_succ_r'.
      pose proof (pow2_pos (N.of_nat s)) as Hp.
      destruct (N.testbit mark (N.of_nat s)).
      * replace (0 <? 2 ^ N.of_nat s) with true by (symmetry; apply N.ltb_lt; exact Hp). ring.
      * cbn [N.ltb N.compare]. ring.
    + apply IH.
Qed.

Lemma pdep_0 ps : pdep ps 0 = 0.
Proof. induction ps as [|p ps IH]; cbn [pdep]; [reflexivity|]. cbn [N.odd N.div2]. now rewrite IH. Qed.

Lemma half_shift r f : r * 2 ^ N.of_nat f - (if N.odd r then 2 ^ N.of_nat f else 0)
                       = N.div2 r * 2 ^ N.of_nat (S f).
Proof.
  rewrite Nat2N.inj_succ, N.pow_succ_r'.
  pose proof (N.div2_odd r) as H. set (X := 2 ^ N.of_nat f).
  destruct (N.odd r); cbn [N.b2n] in H; rewrite H at 1; nia.
Qed.

Lemma n2m_loop_spec mask l : forall r mark found,
  n2m_loop mask l (r * 2 ^ N.of_nat found) mark found =
  ((r / 2 ^ N.of_nat (length (filter (maskbit mask) l)))
     * 2 ^ N.of_nat (found + length (filter (maskbit mask) l)),
   N.lor mark (pdep (filter (maskbit mask) l) r)).
Proof.
  induction l as [|s l IH]; intros r mark found; cbn [n2m_loop filter].
  - cbn [length pdep]. rewrite Nat.add_0_r. cbn [N.of_nat]. rewrite N.pow_0_r, N.div_1_r, N.lor_0_r. reflexivity.
  - pose proof (pow2_pos (N.of_nat found)) as Hp.
    destruct (N.eqb_spec (r * 2 ^ N.of_nat found) 0) as [Hz|Hnz].
    + assert (r = 0) as -> by nia.
      rewrite pdep_0, N.lor_0_r, N.div_0_l by (apply N.pow_nonzero; discriminate).
      rewrite N.mul_0_l. reflexivity.
    + destruct (maskbit mask s) eqn:Hs.
      * cbn [length pdep].
        rewrite bit_pow2, N.land_comm, land_pow2.
        replace (N.testbit (r * 2 ^ N.of_nat found) (N.of_nat found)) with (N.odd r).
        2:{ rewrite <- (N.add_0_l (N.of_nat found)) at 2. rewrite N.mul_pow2_bits_add. symmetry. apply N.bit0_odd. }
        assert (forall c, r / 2 ^ N.of_nat (S c) = N.div2 r / 2 ^ N.of_nat c) as Hdiv.
        { intros c. rewrite Nat2N.inj_succ, N.pow_succ_r', N.div2_div, N.div_div; try reflexivity.
          - discriminate. - apply N.pow_nonzero. discriminate. }
        destruct (N.odd r) eqn:Hodd.
        -- replace (0 <? 2 ^ N.of_nat found) with true by (symmetry; apply N.ltb_lt; exact Hp).
           pose proof (half_shift r found) as Hh. rewrite Hodd in Hh. rewrite Hh, IH, Hdiv.
           apply f_equal2; [replace (S found + length (filter (maskbit mask) l))%nat with (found + S (length (filter (maskbit mask) l)))%nat by lia; reflexivity|]. now rewrite N.lor_assoc.
        -- cbn [N.ltb N.compare].
           pose proof (half_shift r found) as Hh. rewrite Hodd, N.sub_0_r in Hh. rewrite Hh, IH, Hdiv.
           apply f_equal2; [replace (S found + length (filter (maskbit mask) l))%nat with (found + S (length (filter (maskbit mask) l)))%nat by lia; reflexivity|]. now rewrite N.lor_0_l.
      * apply IH.
Qed.

Lemma map_number_to_mark_spec mask n :
  map_number_to_mark mask n =
  if trunc32 n <? 2 ^ N.of_nat (popcount mask)
  then Some (pdep (positions mask) (trunc32 n)) else None.
Proof.
  unfold map_number_to_mark, popcount, positions.
  pose proof (n2m_loop_spec mask shifts32 (trunc32 n) 0 0) as H.
  cbn [N.of_nat] in H. rewrite N.pow_0_r, N.mul_1_r in H. rewrite H. clear H.
  set (c := N.of_nat (length (filter (maskbit mask) shifts32))).
  cbn [Nat.add]. fold c. rewrite N.lor_0_l.
  pose proof (pow2_pos c) as Hp.
  destruct (N.ltb_spec (trunc32 n) (2 ^ c)) as [Hlt|Hge].
  - rewrite N.div_small by assumption. now rewrite N.mul_0_l.
  - assert (1 <= trunc32 n / 2 ^ c) by (apply N.div_le_lower_bound; lia).
    replace (0 <? trunc32 n / 2 ^ c * 2 ^ c) with true; [reflexivity|].
    symmetry. apply N.ltb_lt. nia.
Qed.

Lemma map_mark_to_number_spec mask mark :
  map_mark_to_number mask mark =
  if N.eqb (N.land mark mask) mark then Some (pext (positions mask) mark) else None.
Proof.
  unfold map_mark_to_number, positions. rewrite m2n_loop_spec. cbn [N.of_nat].
  rewrite N.pow_0_r, N.mul_1_l, N.add_0_l. reflexivity.
Qed.

Lemma testbit_pdep_in ps : forall n q, N.testbit (pdep ps n) (N.of_nat q) = true -> In q ps.
Proof.
  induction ps as [|p ps IH]; cbn [pdep]; intros n q H.
  - rewrite N.bits_0 in H. discriminate.
  - rewrite N.lor_spec in H. apply orb_true_iff in H. destruct H as [H|H].
    + destruct (N.odd n).
      * rewrite bit_pow2, N.pow2_bits_eqb in H. apply N.eqb_eq in H. left. lia.
      * rewrite N.bits_0 in H. discriminate.
    + right. eapply IH; eassumption.
Qed.

Lemma pext_lor_irrelevant ps : forall x m,
  (forall q, In q ps -> N.testbit x (N.of_nat q) = false) -> pext ps (N.lor x m) = pext ps m.
Proof.
  induction ps as [|p ps IH]; cbn [pext]; intros x m H; [reflexivity|].
  rewrite N.lor_spec, (H p) by (left; reflexivity). cbn [orb].
  rewrite IH; [reflexivity|]. intros q Hq. apply H. right. exact Hq.
Qed.

Lemma pext_pdep ps : NoDup ps -> forall n, pext ps (pdep ps n) = n mod 2 ^ N.of_nat (length ps).
Proof.
  induction 1 as [|p ps Hnin ND IH]; intros n; cbn [pext pdep length].
  - cbn [N.of_nat]. rewrite N.pow_0_r, N.mod_1_r. reflexivity.
  - assert (N.testbit (pdep ps (N.div2 n)) (N.of_nat p) = false) as Hf.
    { destruct (N.testbit (pdep ps (N.div2 n)) (N.of_nat p)) eqn:E; [|reflexivity].
      exfalso. apply Hnin. eapply testbit_pdep_in; eassumption. }
    rewrite N.lor_spec, Hf, orb_false_r.
    rewrite pext_lor_irrelevant.
    2:{ intros q Hq. destruct (N.odd n); [|apply N.bits_0].
        rewrite bit_pow2. apply N.pow2_bits_false. intros E. apply Nat2N.inj in E. subst. contradiction. }
    rewrite IH.
    rewrite Nat2N.inj_succ, N.pow_succ_r'.
    rewrite N.mod_mul_r by (try discriminate; apply N.pow_nonzero; discriminate).
    rewrite <- N.div2_div, <- N.bit0_mod, N.bit0_odd.
    destruct (N.odd n).
    + rewrite bit_pow2, N.pow2_bits_true. reflexivity.
    + rewrite N.bits_0. reflexivity.
Qed.

Lemma pdep_subset mask ps n :
  (forall q, In q ps -> maskbit mask q = true) -> N.land (pdep ps n) mask = pdep ps n.
Proof.
  intros H. apply N.bits_inj. intros k. rewrite N.land_spec.
  destruct (N.testbit (pdep ps n) k) eqn:E; [|reflexivity]. cbn [andb].
  rewrite <- (N2Nat.id k) in E |- *. apply testbit_pdep_in in E. apply H in E. exact E.
Qed.

Lemma trunc32_small n : n < 4294967296 -> trunc32 n = n.
Proof. intros. unfold trunc32. now apply N.mod_small. Qed.

Lemma pow_popcount_le mask : 2 ^ N.of_nat (popcount mask) <= 4294967296.
Proof.
  change 4294967296 with (2 ^ 32). apply N.pow_le_mono_r; [discriminate|].
  pose proof (popcount_le_32 mask). lia.
Qed.

Lemma pext_pdep_positions mask n :
  pext (positions mask) (pdep (positions mask) n) = n mod 2 ^ N.of_nat (popcount mask).
Proof. exact (pext_pdep (positions mask) (positions_NoDup mask) n). Qed.

Lemma pdep_positions_subset mask n :
  N.land (pdep (positions mask) n) mask = pdep (positions mask) n.
Proof. apply pdep_subset. intros q Hq. apply positions_in in Hq. tauto. Qed.

Lemma n2m_in_range mask n :
  n < 2 ^ N.of_nat (popcount mask) -> map_number_to_mark mask n = Some (pdep (positions mask) n).
Proof.
  intros Hn. pose proof (pow_popcount_le mask) as Hle.
  assert (trunc32 n = n) as Ht by (apply trunc32_small; eapply N.lt_le_trans; eassumption).
  rewrite map_number_to_mark_spec, Ht.
  destruct (N.ltb_spec n (2 ^ N.of_nat (popcount mask))) as [_|Hge]; [reflexivity|].
  exfalso. apply (N.lt_irrefl n). eapply N.lt_le_trans; eassumption.
Qed.

Lemma m2n_of_pdep mask n :
  n < 2 ^ N.of_nat (popcount mask) -> map_mark_to_number mask (pdep (positions mask) n) = Some n.
Proof.
  intros Hn. rewrite map_mark_to_number_spec, pdep_positions_subset, N.eqb_refl, pext_pdep_positions.
  rewrite N.mod_small by exact Hn. reflexivity.
Qed.

(* every number that fits the mask maps to a mark inside the mask and back to the same number *)
Lemma roundtrip mask n :
  n < 2 ^ N.of_nat (popcount mask) ->
  exists mk, map_number_to_mark mask n = Some mk
             /\ N.land mk mask = mk
             /\ map_mark_to_number mask mk = Some n.
Proof.
  intros Hn. exists (pdep (positions mask) n).
  split; [apply n2m_in_range; exact Hn|].
  split; [apply pdep_positions_subset|apply m2n_of_pdep; exact Hn].
Qed.

Lemma number_too_big_fails mask n :
  2 ^ N.of_nat (popcount mask) <= trunc32 n -> map_number_to_mark mask n = None.
Proof.
  intros H. rewrite map_number_to_mark_spec.
  replace (trunc32 n <? 2 ^ N.of_nat (popcount mask)) with false; [reflexivity|].
  symmetry. apply N.ltb_ge. exact H.
Qed.

Lemma incompatible_mark_fails mask mark :
  N.land mark mask <> mark -> map_mark_to_number mask mark = None.
Proof.
  intros H. rewrite map_mark_to_number_spec. apply N.eqb_neq in H. now rewrite H.
Qed.

(* ------------------------------------------------------------------ whole traces: the model meets the spec oracle *)

Definition orbits (l : list nat) : N := fold_right (fun p acc => N.lor (bit p) acc) 0 l.

Lemma testbit_orbits l q : N.testbit (orbits l) (N.of_nat q) = true <-> In q l.
Proof.
  induction l as [|p l IH]; cbn [orbits fold_right In].
  - rewrite N.bits_0. split; [discriminate|tauto].
  - fold (orbits l). rewrite N.lor_spec, orb_true_iff, IH, bit_pow2, N.pow2_bits_eqb, N.eqb_eq.
    split; intros [H|H]; auto; left; lia.
Qed.

Lemma orbits_subset mask l : (forall q, In q l -> maskbit mask q = true) -> N.land (orbits l) mask = orbits l.
Proof.
  intros H. apply N.bits_inj. intros k. rewrite N.land_spec.
  destruct (N.testbit (orbits l) k) eqn:E; [|reflexivity]. cbn [andb].
  rewrite <- (N2Nat.id k) in E |- *. apply testbit_orbits in E. apply H in E. exact E.
Qed.

Lemma skipn_nth_cons {A} (l : list A) : forall n x, nth_error l n = Some x -> skipn n l = x :: skipn (S n) l.
Proof.
  induction l as [|y l IH]; intros [|n] x H; cbn in *; try discriminate.
  - now inversion H.
  - now apply IH.
Qed.

Lemma mgr_eq a b c a' b' c' : a = a' -> b = b' -> c = c' ->
  {| m_mask := a; m_alloc := b; m_free := c |} = {| m_mask := a'; m_alloc := b'; m_free := c' |}.
Proof. intros; subst; reflexivity. Qed.

Lemma next_block_loop_spec : forall size m mark allocated,
  next_block_loop m size mark allocated =
  let k := Nat.min size (popcount (m_mask m) - m_alloc m) in
  ({| m_mask := m_mask m; m_alloc := m_alloc m + k; m_free := (m_free m - Z.of_nat k)%Z |},
   (N.lor mark (orbits (firstn k (skipn (m_alloc m) (positions (m_mask m))))), (allocated + k)%nat)).
Proof.
  induction size as [|size IH]; intros m mark allocated; cbn [next_block_loop].
  - cbn [Nat.min firstn orbits fold_right]. rewrite N.lor_0_r, !Nat.add_0_r. destruct m as [mm ma mf]; cbn [m_mask m_alloc m_free].
    f_equal. apply mgr_eq; auto. lia.
  - unfold next_single. rewrite nth_mark_spec.
    destruct (nth_error (positions (m_mask m)) (m_alloc m)) as [p|] eqn:E; cbn [option_map].
    + assert (m_alloc m < popcount (m_mask m))%nat as Hlt by (apply nth_error_Some; congruence).
      rewrite IH. cbn [m_mask m_alloc m_free].
      replace (Nat.min (S size) (popcount (m_mask m) - m_alloc m))
        with (S (Nat.min size (popcount (m_mask m) - S (m_alloc m)))) by lia.
      cbv zeta. rewrite (skipn_nth_cons _ _ _ E). cbn [firstn orbits fold_right].
      set (k := Nat.min size (popcount (m_mask m) - S (m_alloc m))).
      f_equal; [apply mgr_eq; auto; lia|]. f_equal; [|lia].
      fold (orbits (firstn k (skipn (S (m_alloc m)) (positions (m_mask m))))). now rewrite N.lor_assoc.
    + assert (popcount (m_mask m) <= m_alloc m)%nat as Hge by (apply nth_error_None; exact E).
      replace (Nat.min (S size) (popcount (m_mask m) - m_alloc m)) with 0%nat by lia.
      cbv zeta. cbn [firstn orbits fold_right]. rewrite N.lor_0_r, !Nat.add_0_r.
      destruct m as [mm ma mf]; cbn [m_mask m_alloc m_free]. f_equal. apply mgr_eq; auto. lia.
Qed.

Lemma popcount_len mask : popcount mask = length (positions mask).
Proof. reflexivity. Qed.

Definition Inv (mask : N) (m : mgr) (given : list N) : Prop :=
  m_mask m = mask /\ (m_alloc m <= popcount mask)%nat
  /\ m_free m = Z.of_nat (popcount mask - m_alloc m)
  /\ length given = m_alloc m
  /\ (forall b, In b given <->
        exists i p, (i < m_alloc m)%nat /\ nth_error (positions mask) i = Some p /\ b = bit p).

Lemma existsb_eqb_in b l : existsb (N.eqb b) l = true <-> In b l.
Proof.
  rewrite existsb_exists. split.
  - intros [x [Hin He]]. apply N.eqb_eq in He. now subst.
  - intros H. exists b. split; [exact H|apply N.eqb_refl].
Qed.

Lemma nth_positions_inj mask i j p :
  nth_error (positions mask) i = Some p -> nth_error (positions mask) j = Some p -> i = j.
Proof.
  intros Hi Hj. pose proof (positions_NoDup mask) as ND. rewrite NoDup_nth_error in ND.
  apply ND; [apply nth_error_Some; congruence | congruence].
Qed.

Lemma nth_error_firstn' {A} (l : list A) : forall k j, (j < k)%nat -> nth_error (firstn k l) j = nth_error l j.
Proof.
  induction l as [|x l IH]; intros [|k] [|j] H; cbn [firstn nth_error]; try reflexivity; try lia.
  apply IH. lia.
Qed.

Lemma nth_error_skipn' {A} (l : list A) : forall a j, nth_error (skipn a l) j = nth_error l (a + j).
Proof.
  induction l as [|x l IH]; intros [|a] j; cbn [skipn nth_error Nat.add]; try reflexivity.
  - now destruct j.
  - apply IH.
Qed.

Lemma nth_firstn_skipn {A} (l : list A) a k j x :
  nth_error (firstn k (skipn a l)) j = Some x -> (j < k)%nat /\ nth_error l (a + j) = Some x.
Proof.
  intros H. assert (j < k)%nat as Hjk.
  { assert (j < length (firstn k (skipn a l)))%nat by (apply nth_error_Some; congruence).
    rewrite firstn_length in *. lia. }
  split; [exact Hjk|]. rewrite nth_error_firstn' in H by exact Hjk.
  now rewrite nth_error_skipn' in H.
Qed.

Lemma filter_all {A} (f : A -> bool) l : (forall x, In x l -> f x = true) -> filter f l = l.
Proof.
  induction l as [|x l IH]; intros H; cbn [filter]; [reflexivity|].
  rewrite (H x) by (left; reflexivity). f_equal. apply IH. intros y Hy. apply H. right. exact Hy.
Qed.

Lemma filter_none {A} (f : A -> bool) l : (forall x, In x l -> f x = false) -> filter f l = [].
Proof.
  induction l as [|x l IH]; intros H; cbn [filter]; [reflexivity|].
  rewrite (H x) by (left; reflexivity). apply IH. intros y Hy. apply H. right. exact Hy.
Qed.

Lemma nodup_app_disj {A} (l1 l2 : list A) x : NoDup (l1 ++ l2) -> In x l1 -> In x l2 -> False.
Proof.
  induction l1 as [|a l1 IH]; cbn [app In]; intros ND H1 H2; [exact H1|].
  inversion ND as [|? ? Hnin ND']; subst. destruct H1 as [->|H1].
  - apply Hnin. apply in_or_app. right. exact H2.
  - eapply IH; eassumption.
Qed.

Lemma nodup_app_r {A} (l1 l2 : list A) : NoDup (l1 ++ l2) -> NoDup l2.
Proof.
  induction l1 as [|a l1 IH]; cbn [app]; intros ND; [exact ND|].
  inversion ND; subst. now apply IH.
Qed.

Lemma filter_orbits_mid A0 B0 C0 : NoDup (A0 ++ B0 ++ C0) ->
  filter (fun p => N.testbit (orbits B0) (N.of_nat p)) (A0 ++ B0 ++ C0) = B0.
Proof.
  intros ND. rewrite !filter_app.
  rewrite (filter_none _ A0), (filter_all _ B0), (filter_none _ C0).
  - now rewrite app_nil_r.
  - intros x Hx. destruct (N.testbit (orbits B0) (N.of_nat x)) eqn:E; [|reflexivity].
    exfalso. apply testbit_orbits in E. apply nodup_app_r in ND. eapply nodup_app_disj; eassumption.
  - intros x Hx. now apply testbit_orbits.
  - intros x Hx. destruct (N.testbit (orbits B0) (N.of_nat x)) eqn:E; [|reflexivity].
    exfalso. apply testbit_orbits in E. eapply nodup_app_disj; [exact ND|exact Hx|].
    apply in_or_app. left. exact E.
Qed.

Lemma filter_orbits_sub ps a k : NoDup ps ->
  filter (fun p => N.testbit (orbits (firstn k (skipn a ps))) (N.of_nat p)) ps = firstn k (skipn a ps).
Proof.
  intros ND.
  assert (ps = firstn a ps ++ firstn k (skipn a ps) ++ skipn k (skipn a ps)) as Hd
    by (now rewrite !firstn_skipn).
  set (B0 := firstn k (skipn a ps)) in *.
  rewrite Hd at 1. apply filter_orbits_mid. rewrite <- Hd. exact ND.
Qed.

Lemma Inv_extend mask m given k :
  Inv mask m given -> (k <= popcount mask - m_alloc m)%nat ->
  Inv mask {| m_mask := m_mask m; m_alloc := m_alloc m + k; m_free := (m_free m - Z.of_nat k)%Z |}
      (map bit (firstn k (skipn (m_alloc m) (positions mask))) ++ given).
Proof.
  intros (Hm & Hle & Hfree & Hlen & Hin) Hk. unfold Inv. cbn [m_mask m_alloc m_free].
  split; [exact Hm|]. split; [lia|]. split; [lia|]. split.
  - rewrite app_length, map_length, firstn_length, skipn_length. rewrite popcount_len in *. lia.
  - intros b. rewrite in_app_iff. split.
    + intros [H|H].
      * apply in_map_iff in H. destruct H as (p & <- & Hp).
        apply In_nth_error in Hp. destruct Hp as [j Hj]. apply nth_firstn_skipn in Hj.
        destruct Hj as [Hjk Hj]. exists (m_alloc m + j)%nat, p. split; [lia|]. split; [exact Hj|reflexivity].
      * apply Hin in H. destruct H as (i & p & Hi & Hp & ->). exists i, p. split; [lia|]. tauto.
    + intros (i & p & Hi & Hp & ->). destruct (Nat.lt_ge_cases i (m_alloc m)) as [Hlt|Hge].
      * right. apply Hin. exists i, p. tauto.
      * left. apply in_map. apply nth_error_In with (n := (i - m_alloc m)%nat).
        rewrite nth_error_firstn' by lia. rewrite nth_error_skipn'.
        replace (m_alloc m + (i - m_alloc m))%nat with i by lia. exact Hp.
Qed.

Lemma Inv_not_given mask m given j p :
  Inv mask m given -> nth_error (positions mask) (m_alloc m + j) = Some p -> ~ In (bit p) given.
Proof.
  intros (Hm & Hle & Hfree & Hlen & Hin) Hp H. apply Hin in H. destruct H as (i & q & Hi & Hq & He).
  apply bit_inj in He. subst q. pose proof (nth_positions_inj _ _ _ _ Hp Hq). lia.
Qed.

Lemma shiftl1 k : N.shiftl 1 k = 2 ^ k.
Proof. apply N.shiftl_1_l. Qed.

Lemma meets_spec_from mask : forall ops m given,
  Inv mask m given -> ok_trace_from mask given ops (run m ops) = true.
Proof.
  induction ops as [|o ops IH]; intros m given HI; [reflexivity|].
  pose proof HI as (Hm & Hle & Hfree & Hlen & Hin).
  cbn [run]. destruct o as [|size| | |n|mk]; cbn [step].
  - (* NextSingle *)
    unfold next_single. rewrite nth_mark_spec, Hm.
    destruct (nth_error (positions mask) (m_alloc m)) as [p|] eqn:E; cbn [option_map ok_trace_from].
    + assert (m_alloc m < popcount mask)%nat as Hlt by (rewrite popcount_len; apply nth_error_Some; congruence).
      pose proof (Inv_extend mask m given 1 HI ltac:(lia)) as HI'.
      rewrite (skipn_nth_cons _ _ _ E) in HI'. cbn [firstn map app] in HI'.
      replace {| m_mask := m_mask m; m_alloc := m_alloc m + 1; m_free := (m_free m - Z.of_nat 1)%Z |}
        with {| m_mask := m_mask m; m_alloc := S (m_alloc m); m_free := Z.pred (m_free m) |} in HI'
        by (apply mgr_eq; lia).
      rewrite Hm in HI'.
      rewrite (IH _ _ HI'), andb_true_r. apply andb_true_iff. split.
      * unfold is_single_bit_in. apply existsb_exists. exists p. split; [eapply nth_error_In; exact E|apply N.eqb_refl].
      * apply negb_true_iff. destruct (existsb (N.eqb (bit p)) given) eqn:Ex; [|reflexivity].
        exfalso. apply existsb_eqb_in in Ex. eapply (Inv_not_given mask m given 0); [exact HI| |exact Ex].
        now rewrite Nat.add_0_r.
    + assert (popcount mask <= m_alloc m)%nat as Hge by (rewrite popcount_len; apply nth_error_None; exact E).
      rewrite (IH _ _ HI), andb_true_r. apply Nat.eqb_eq. lia.
  - (* NextBlock *)
    unfold next_block. rewrite next_block_loop_spec, Hm. cbv zeta. cbn [ok_trace_from].
    set (k := Nat.min size (popcount mask - m_alloc m)).
    set (sub := firstn k (skipn (m_alloc m) (positions mask))).
    rewrite N.lor_0_l, Nat.add_0_l.
    assert (filter (fun p => N.testbit (orbits sub) (N.of_nat p)) (positions mask) = sub) as Hf
      by (apply filter_orbits_sub, positions_NoDup).
    rewrite Hf.
    assert (k <= popcount mask - m_alloc m)%nat as Hkle by apply Nat.le_min_r.
    assert (length sub = k) as Hsl.
    { unfold sub. rewrite firstn_length, skipn_length. rewrite popcount_len in *. lia. }
    pose proof (Inv_extend mask m given k HI Hkle) as HI'. rewrite Hm in HI'. fold sub in HI'.
    rewrite (IH _ _ HI'), andb_true_r.
    repeat (apply andb_true_iff; split).
    + apply Nat.eqb_eq. rewrite Hlen. reflexivity.
    + apply N.eqb_eq. apply orbits_subset. intros q Hq. unfold sub in Hq.
      apply In_nth_error in Hq. destruct Hq as [j Hj]. apply nth_firstn_skipn in Hj. destruct Hj as [_ Hj].
      apply nth_error_In in Hj. apply positions_in in Hj. tauto.
    + apply Nat.eqb_eq. exact Hsl.
    + apply forallb_forall. intros p Hp. apply negb_true_iff.
      destruct (existsb (N.eqb (bit p)) given) eqn:Ex; [|reflexivity]. exfalso.
      apply existsb_eqb_in in Ex. unfold sub in Hp. apply In_nth_error in Hp. destruct Hp as [j Hj].
      apply nth_firstn_skipn in Hj. destruct Hj as [_ Hj]. exact (Inv_not_given mask m given j p HI Hj Ex).
  - (* Avail *)
    cbn [ok_trace_from]. rewrite (IH _ _ HI), andb_true_r. unfold available. apply Z.eqb_eq. rewrite Hfree, Hlen. reflexivity.
  - (* FreeNumber *)
    cbn [ok_trace_from]. rewrite (IH _ _ HI), andb_true_r. unfold current_free_number. apply Z.eqb_eq.
    rewrite Hfree, Hlen. destruct (Nat.eqb_spec (popcount mask - m_alloc m) 0) as [->|Hne]; [reflexivity|].
    replace (0 <? Z.of_nat (popcount mask - m_alloc m))%Z with true; [reflexivity|].
    symmetry. apply Z.ltb_lt. lia.
  - (* N2M *)
    rewrite Hm, map_number_to_mark_spec.
    destruct (N.ltb_spec (trunc32 n) (2 ^ N.of_nat (popcount mask))) as [Hlt|Hge]; cbn [ok_trace_from].
    + rewrite (IH _ _ HI), andb_true_r, shiftl1.
      repeat (apply andb_true_iff; split).
      * apply N.ltb_lt. exact Hlt.
      * apply N.eqb_eq. apply pdep_positions_subset.
      * apply N.eqb_eq. rewrite pext_pdep_positions. apply N.mod_small. exact Hlt.
    + rewrite (IH _ _ HI), andb_true_r, shiftl1. apply N.leb_le. exact Hge.
  - (* M2N *)
    rewrite Hm, map_mark_to_number_spec.
    destruct (N.eqb_spec (N.land (trunc32 mk) mask) (trunc32 mk)) as [He|Hne]; cbn [ok_trace_from].
    + rewrite (IH _ _ HI), andb_true_r. apply andb_true_iff. split; [apply N.eqb_eq; exact He|apply Z.eqb_refl].
    + rewrite (IH _ _ HI), andb_true_r. apply negb_true_iff. apply N.eqb_neq. exact Hne.
Qed.

Lemma Inv_init mask : Inv (trunc32 mask) (new_mgr mask) [].
Proof.
  unfold Inv, new_mgr. cbn [m_mask m_alloc m_free length In].
  split; [reflexivity|]. split; [lia|]. split.
  - rewrite Nat.sub_0_r. f_equal. unfold popcount, positions.
    induction shifts32 as [|s l IH]; cbn [count_bits filter length]; [reflexivity|].
    destruct (maskbit (trunc32 mask) s); cbn [length]; lia.
  - split; [reflexivity|]. intros b. split; [tauto|]. intros (i & p & Hi & _). lia.
Qed.

(* every run of the model, from any mask and over any operation sequence, is accepted by the oracle *)
Lemma model_meets_spec mask ops : ok_trace mask ops (run (new_mgr mask) ops) = true.
Proof. unfold ok_trace. apply meets_spec_from. apply Inv_init. Qed.
