(* C35 — lemmas and proofs about the model (no definitions used by the correspondence run live here). *)
From Coq Require Import List NArith ZArith Arith Bool Lia.
From Verif.C35 Require Import Model Spec.
Import ListNotations.
Open Scope N_scope.

Lemma bit_pow2 s : bit s = 2 ^ N.of_nat s.
Proof. unfold bit. apply N.shiftl_1_l. Qed.

Lemma bit_inj a b : bit a = bit b -> a = b.
Proof.
  rewrite !bit_pow2. intros H. apply N.pow_inj_r in H; lia.
Qed.

(* nthMark = n-th element of the ascending list of set positions *)
Lemma nth_mark_loop_spec mask l : forall found n, (found <= n)%nat ->
  nth_mark_loop mask l found n = option_map bit (nth_error (filter (maskbit mask) l) (n - found)).
Proof.
  induction l as [|s l IH]; intros found n Hle; cbn [nth_mark_loop filter].
  - destruct (n - found)%nat; reflexivity.
  - destruct (maskbit mask s) eqn:Hs.
    + destruct (Nat.eqb found n) eqn:He.
      * apply Nat.eqb_eq in He. subst. rewrite Nat.sub_diag. reflexivity.
      * apply Nat.eqb_neq in He. rewrite IH by lia.
        replace (n - found)%nat with (S (n - S found)) by lia. reflexivity.
    + apply IH; assumption.
Qed.

Lemma nth_mark_spec mask n :
  nth_mark mask n = option_map bit (nth_error (positions mask) n).
Proof.
  unfold nth_mark, positions. rewrite nth_mark_loop_spec by lia. now rewrite Nat.sub_0_r.
Qed.

Lemma positions_NoDup mask : NoDup (positions mask).
Proof. unfold positions. apply NoDup_filter, seq_NoDup. Qed.

Lemma positions_in mask p : In p (positions mask) <-> (p < 32)%nat /\ maskbit mask p = true.
Proof.
  unfold positions, shifts32. rewrite filter_In, in_seq. intuition lia.
Qed.

Lemma filter_length_le' {A} (f : A -> bool) l : (length (filter f l) <= length l)%nat.
Proof. induction l as [|x l IH]; cbn; [lia|]. destruct (f x); cbn; lia. Qed.

Lemma popcount_le_32 mask : (popcount mask <= 32)%nat.
Proof.
  unfold popcount, positions. etransitivity; [apply filter_length_le'|]. unfold shifts32. now rewrite seq_length.
Qed.

(* allocation fails exactly when all the mask's bits have been handed out *)
Lemma nth_mark_none_iff mask n : nth_mark mask n = None <-> (popcount mask <= n)%nat.
Proof.
  rewrite nth_mark_spec. unfold popcount. rewrite <- nth_error_None.
  destruct (nth_error (positions mask) n); cbn [option_map]; split; congruence.
Qed.

Lemma nth_mark_single_bit_in_mask mask n b :
  nth_mark mask n = Some b -> exists p, (p < 32)%nat /\ b = bit p /\ maskbit mask p = true.
Proof.
  rewrite nth_mark_spec. destruct (nth_error (positions mask) n) as [p|] eqn:E; cbn [option_map]; [|discriminate].
  intros [= <-]. apply nth_error_In in E. apply positions_in in E. exists p. tauto.
Qed.

Lemma nth_mark_distinct mask i j a b :
  nth_mark mask i = Some a -> nth_mark mask j = Some b -> i <> j -> a <> b /\ N.land a b = 0.
Proof.
  rewrite !nth_mark_spec.
  destruct (nth_error (positions mask) i) as [p|] eqn:Ei; cbn [option_map]; [|discriminate].
  destruct (nth_error (positions mask) j) as [q|] eqn:Ej; cbn [option_map]; [|discriminate].
  intros [= <-] [= <-] Hij.
  assert (p <> q) as Hpq.
  { intros ->. apply Hij. pose proof (positions_NoDup mask) as ND.
    rewrite NoDup_nth_error in ND. apply ND; [|congruence].
    apply nth_error_Some. congruence. }
  split.
  - intros H. apply bit_inj in H. contradiction.
  - apply N.bits_inj. intros k. rewrite N.land_spec, !bit_pow2, !N.pow2_bits_eqb, N.bits_0.
    destruct (N.eqb_spec (N.of_nat p) k), (N.eqb_spec (N.of_nat q) k); try reflexivity. lia.
Qed.
