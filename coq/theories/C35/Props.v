(* C35 — property theorems only.  Each is closed by `exact <lemma>` and followed by Print Assumptions. *)
From Coq Require Import List NArith ZArith Arith Bool.
From Verif.C35 Require Import Model Spec Proofs.
Import ListNotations.
Open Scope N_scope.

(* Marks handed out are single bits of the mask, pairwise distinct (indeed disjoint). *)
Theorem c35_single_bit_in_mask : forall mask n b,
  nth_mark mask n = Some b -> exists p, (p < 32)%nat /\ b = bit p /\ maskbit mask p = true.
Proof. exact nth_mark_single_bit_in_mask. Qed.
Print Assumptions c35_single_bit_in_mask.

Theorem c35_distinct : forall mask i j a b,
  nth_mark mask i = Some a -> nth_mark mask j = Some b -> i <> j -> a <> b /\ N.land a b = 0.
Proof. exact nth_mark_distinct. Qed.
Print Assumptions c35_distinct.

(* Allocation fails exactly when the mask is exhausted. *)
Theorem c35_exhaustion_fails : forall mask n,
  nth_mark mask n = None <-> (popcount mask <= n)%nat.
Proof. exact nth_mark_none_iff. Qed.
Print Assumptions c35_exhaustion_fails.

(* Every number that fits the mask maps to a mark inside the mask and back to the same number. *)
Theorem c35_roundtrip : forall mask n,
  n < 2 ^ N.of_nat (popcount mask) ->
  exists mk, map_number_to_mark mask n = Some mk
             /\ N.land mk mask = mk
             /\ map_mark_to_number mask mk = Some n.
Proof. exact roundtrip. Qed.
Print Assumptions c35_roundtrip.

(* A number that does not fit the mask is refused (after Go's uint32 truncation). *)
Theorem c35_number_too_big_fails : forall mask n,
  2 ^ N.of_nat (popcount mask) <= trunc32 n -> map_number_to_mark mask n = None.
Proof. exact number_too_big_fails. Qed.
Print Assumptions c35_number_too_big_fails.

(* A mark with a bit outside the mask is refused. *)
Theorem c35_incompatible_mark_fails : forall mask mark,
  N.land mark mask <> mark -> map_mark_to_number mask mark = None.
Proof. exact incompatible_mark_fails. Qed.
Print Assumptions c35_incompatible_mark_fails.

(* Whole-history statement: for EVERY mask and EVERY sequence of manager operations the outputs of the
   model satisfy the specification oracle of Spec.v (fresh distinct single bits inside the mask until
   exhaustion, then failure; block allocation takes min(size, free) fresh bits; the counters are exact;
   number<->mark conversions are the bit deposit/extract of the mask).  The same oracle is evaluated on
   the implementation's outputs by the correspondence run. *)
Theorem c35_model_meets_spec : forall mask ops,
  ok_trace mask ops (run (new_mgr mask) ops) = true.
Proof. exact model_meets_spec. Qed.
Print Assumptions c35_model_meets_spec.

(* Non-vacuity: a concrete mask with several bits, exhaustion and a round trip. *)
Example c35_example :
  run (new_mgr 0xf0) [OpNextSingle; OpNextBlock 5; OpNextSingle; OpN2M 5; OpM2N 80; OpN2M 16]
  = [OMark 16; OBlock 224 3; OErr; OMark 80; OInt 5; OErr].
Proof. vm_compute. reflexivity. Qed.
