(* C35 — property theorems only.  Each is closed by `exact <lemma>` and followed by Print Assumptions. *)
From Coq Require Import List NArith ZArith Arith Bool.
From Verif.C35 Require Import Model Spec Proofs.
Import ListNotations.
Open Scope N_scope.

(* Marks handed out are single bits of the mask, pairwise distinct (indeed disjoint). *)
Theorem c35_single_bit_in_mask : forall mask n b,
  nth_mark mask n = Some b -> exists p, (p < 32)%nat /\ b = bit p /\ maskbit mask p = true.
Proof. exact nth_mark_single_bit_in_mask. Qed.
Print Assumptions c35_single_bit_in_mask.

Theorem c35_distinct : forall mask i j a b,
  nth_mark mask i = Some a -> nth_mark mask j = Some b -> i <> j -> a <> b /\ N.land a b = 0.
Proof. exact nth_mark_distinct. Qed.
Print Assumptions c35_distinct.

(* Allocation fails exactly when the mask is exhausted. *)
Theorem c35_exhaustion_fails : forall mask n,
  nth_mark mask n = None <-> (popcount mask <= n)%nat.
Proof. exact nth_mark_none_iff. Qed.
Print Assumptions c35_exhaustion_fails.
