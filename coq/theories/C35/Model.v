(* C35 — executable model of felix/markbits/mark_bits.go (MarkBitsManager).
   Hand-written; tied to the Go code by the correspondence run (harness/C35).
   uint32 values are N with explicit truncation where Go truncates. *)
From Coq Require Import List NArith ZArith Arith Bool.
Import ListNotations.
Open Scope N_scope.

Definition shifts32 : list nat := seq 0 32.

Definition bit (s : nat) : N := N.shiftl 1 (N.of_nat s).
Definition maskbit (mask : N) (s : nat) : bool := N.testbit mask (N.of_nat s).
Definition trunc32 (x : N) : N := x mod 4294967296.

(* NewMarkBitsManager: count bits of the mask in positions 0..31 *)
Fixpoint count_bits (mask : N) (l : list nat) : nat :=
  match l with
  | [] => 0%nat
  | s :: l' => ((if maskbit mask s then 1 else 0) + count_bits mask l')%nat
  end.

Record mgr := { m_mask : N; m_alloc : nat; m_free : Z }.
(* numFreeBits is a Go int that NextSingleBitMark decrements only on success,
   so it never goes negative; kept as Z to mirror the code. *)

Definition new_mgr (mask : N) : mgr :=
  let mask := trunc32 mask in
  {| m_mask := mask; m_alloc := 0; m_free := Z.of_nat (count_bits mask shifts32) |}.

(* nthMark: scan shifts, return the n-th set bit of the mask *)
Fixpoint nth_mark_loop (mask : N) (l : list nat) (found n : nat) : option N :=
  match l with
  | [] => None
  | s :: l' =>
      if maskbit mask s then
        if Nat.eqb found n then Some (bit s)
        else nth_mark_loop mask l' (S found) n
      else nth_mark_loop mask l' found n
  end.
Definition nth_mark (mask : N) (n : nat) : option N := nth_mark_loop mask shifts32 0 n.

(* NextSingleBitMark *)
Definition next_single (m : mgr) : mgr * option N :=
  match nth_mark (m_mask m) (m_alloc m) with
  | None => (m, None)
  | Some b => ({| m_mask := m_mask m; m_alloc := S (m_alloc m); m_free := Z.pred (m_free m) |}, Some b)
  end.

(* NextBlockBitsMark size: returns (mark, allocated) *)
Fixpoint next_block_loop (m : mgr) (size : nat) (mark : N) (allocated : nat) : mgr * (N * nat) :=
  match size with
  | O => (m, (mark, allocated))
  | S size' =>
      match next_single m with
      | (m', None) => (m', (mark, allocated))
      | (m', Some b) => next_block_loop m' size' (N.lor mark b) (S allocated)
      end
  end.
Definition next_block (m : mgr) (size : nat) : mgr * (N * nat) := next_block_loop m size 0 0.

Definition available (m : mgr) : Z := m_free m.

(* CurrentFreeNumberOfMark *)
Definition current_free_number (m : mgr) : Z :=
  if Z.ltb 0 (m_free m) then Z.shiftl 1 (m_free m) else 0%Z.

(* MapNumberToMark: number := uint32(n); loop while shift<32 && number>0 *)
Fixpoint n2m_loop (mask : N) (l : list nat) (number mark : N) (found : nat) : N * N :=
  match l with
  | [] => (number, mark)
  | s :: l' =>
      if N.eqb number 0 then (number, mark)
      else if maskbit mask s then
        let value := N.land number (bit found) in
        if N.ltb 0 value
        then n2m_loop mask l' (number - value) (N.lor mark (bit s)) (S found)
        else n2m_loop mask l' number mark (S found)
      else n2m_loop mask l' number mark found
  end.
Definition map_number_to_mark (mask : N) (n : N) : option N :=
  let '(rest, mark) := n2m_loop mask shifts32 (trunc32 n) 0 0 in
  if N.ltb 0 rest then None else Some mark.

(* MapMarkToNumber *)
Fixpoint m2n_loop (mask mark : N) (l : list nat) (number : N) (found : nat) : N :=
  match l with
  | [] => number
  | s :: l' =>
      if maskbit mask s then
        m2n_loop mask mark l' (if N.ltb 0 (N.land (bit s) mark) then number + bit found else number) (S found)
      else m2n_loop mask mark l' number found
  end.
Definition map_mark_to_number (mask mark : N) : option N :=
  if N.eqb (N.land mark mask) mark then Some (m2n_loop mask mark shifts32 0 0) else None.

(* ---- operation-sequence machine used by the correspondence run ---- *)
Inductive op :=
| OpNextSingle
| OpNextBlock (size : nat)
| OpAvail
| OpFreeNumber
| OpN2M (n : N)
| OpM2N (mark : N).

Inductive out :=
| OErr
| OMark (m : N)
| OBlock (m : N) (k : nat)
| OInt (z : Z).

Definition step (m : mgr) (o : op) : mgr * out :=
  match o with
  | OpNextSingle => match next_single m with (m', Some b) => (m', OMark b) | (m', None) => (m', OErr) end
  | OpNextBlock size => let '(m', (mk, k)) := next_block m size in (m', OBlock mk k)
  | OpAvail => (m, OInt (available m))
  | OpFreeNumber => (m, OInt (current_free_number m))
  | OpN2M n => (m, match map_number_to_mark (m_mask m) n with Some x => OMark x | None => OErr end)
  | OpM2N mk => (m, match map_mark_to_number (m_mask m) (trunc32 mk) with Some x => OInt (Z.of_N x) | None => OErr end)
  end.

Fixpoint run (m : mgr) (ops : list op) : list out :=
  match ops with
  | [] => []
  | o :: ops' => let '(m', r) := step m o in r :: run m' ops'
  end.

Definition out_eqb (a b : out) : bool :=
  match a, b with
  | OErr, OErr => true
  | OMark x, OMark y => N.eqb x y
  | OBlock x i, OBlock y j => N.eqb x y && Nat.eqb i j
  | OInt x, OInt y => Z.eqb x y
  | _, _ => false
  end.

Fixpoint outs_eqb (a b : list out) : bool :=
  match a, b with
  | [], [] => true
  | x :: a', y :: b' => out_eqb x y && outs_eqb a' b'
  | _, _ => false
  end.
