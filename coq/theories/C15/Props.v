(* C15 — property theorems only.  Each is closed by `exact <lemma>` and followed by Print Assumptions. *)
From Coq Require Import String List NArith ZArith Arith Bool.
From Verif.C15 Require Import Model Spec Proofs ProofsForeign ProofsNoRewrite ProofsConv ProofsConv2 ProofsConv3 ProofsLoad ProofsApply ProofsRc ProofsApi ProofsHist ProofsFuel.
Import ListNotations.

(* Every rule and chain not owned by Felix is unchanged, including order.  For ANY Table state that keeps
   the (history-stable) invariant [finv] - whatever its caches say, i.e. also for stale read-backs -, ANY
   kernel table, ANY injected save/restore failures and ANY edits racing between save and restore: after
   Apply() (successful or panicking) every chain that Felix does not own exists iff it existed, and its
   foreign rules (lines without a Felix hash) are the same list, in the same order, as in the kernel the
   racing edits alone would have produced.  Only lines carrying a Felix hash are added/removed there.
   The invariant is kept by Apply itself. *)
Theorem c15_foreign_untouched : forall cf dall fs t k,
  finv cf t ->
  finv cf (ao_table (apply cf dall fs t k)) /\
  exists n, forall c, owned cf c = false ->
    omf (get c (ao_kernel (apply cf dall fs t k))) = omf (get c (apply_edits k (racing n fs))).
Proof. exact apply_foreign_untouched. Qed.
Print Assumptions c15_foreign_untouched.

(* A fresh Table (restart) satisfies the invariant. *)
Theorem c15_fresh_table_invariant : forall cf, finv cf (new_table cf).
Proof. exact new_table_finv. Qed.
Print Assumptions c15_fresh_table_invariant.

(* Chains whose content did not change are not rewritten (legacy backend): an owned chain whose cached hashes equal the
   wanted hashes, and a kernel chain whose cached hashes equal the expected arrangement of hook rules,
   do not occur in the restore input at all (even if marked dirty). *)
Theorem c15_no_rewrite_if_unchanged : forall cf t cs c ch,
  cf_nft cf = false -> apply_cmds cf t = Some cs ->
  owned cf c = true ->
  (forall c', In c' (t_dirtyIA t) -> owned cf c' = false) ->
  desired t c = Some ch ->
  get c (t_dp t) = Some (hashes_of (ch_rules ch)) ->
  ~ In c (map fst cs).
Proof. exact no_rewrite_owned'. Qed.
Print Assumptions c15_no_rewrite_if_unchanged.

Theorem c15_no_rewrite_if_unchanged_hooks : forall cf t cs c,
  cf_nft cf = false -> apply_cmds cf t = Some cs ->
  owned cf c = false ->
  (forall c', In c' (t_dirty t) -> owned cf c' = true) ->
  ia_in_sync cf t c = true ->
  ~ In c (map fst cs).
Proof. exact no_rewrite_hooks'. Qed.
Print Assumptions c15_no_rewrite_if_unchanged_hooks.

(* Convergence of one restore transaction.  For ANY kernel table k and ANY Table state whose caches are a
   read-back of k ([uhyp]): if the restore input computed by applyUpdates is accepted, EVERY chain of the
   resulting kernel is at its target [tgt]: each Felix-owned chain holds exactly the wanted rules in order, or
   is gone if it is not wanted (stale chains of an earlier Felix included); each other chain holds its foreign
   rules unchanged and in order with Felix's hook rules at the configured position (insert mode: hooks ++
   foreign ++ appends; append mode: foreign ++ hooks ++ appends) and every stale / old-hash / old-insert Felix
   rule removed.  Both delete-by-value semantics, both backends (legacy: positional -R/-D/-A delta; nft:
   flush and rewrite, or skip when the non-empty cached hashes already match). *)
Theorem c15_converges_transaction : forall cf dall t k cs k',
  uhyp cf t k -> apply_cmds cf t = Some cs -> exec dall k cs = Some k' ->
  forall c, get c k' = tgt cf t k c.
Proof. exact update_converges_any. Qed.
Print Assumptions c15_converges_transaction.

(* c15_converges, full: for ANY kernel table k and ANY Table state satisfying the Table invariant [winv]
   (a non-dirty owned chain's cached hashes = the hashes of its wanted rules, nothing cached for unwanted ones;
   an uncached, unmarked foreign chain has no hooks wanted; dirty sets duplicate-free and on the right kind of
   chain), whose cache is invalid (so Apply re-reads: first Apply of a process, refresh timer, any API call):
   if Apply() succeeds - after any number of injected save/restore failures and retries, with no edit racing
   between its read-back and its restore - then EVERY chain is at its target.  [noforge] is the RuleHashes
   assumption: a kernel line carrying the hash of a wanted rule of its chain is that rule's rendered text.
   loadDataplaneState's marking (everything not marked is already at target) is now proved, not assumed.
   Holds for both backends (legacy and BackendMode nft; for nft the two transactions of one restore input are
   one all-or-nothing unit). *)
Theorem c15_converges : forall cf dall fs t k,
  winv cf t -> t_insync t = false -> no_racing fs -> noforge cf t k ->
  ao_result (apply cf dall fs t k) = Success ->
  forall c, get c (ao_kernel (apply cf dall fs t k)) = tgt cf t k c.
Proof. exact apply_converges. Qed.
Print Assumptions c15_converges.

(* The positional delta at the heart of it: from ANY chain content L (stale rules, foreign lines, current
   rules at wrong positions), the -R / -D / -A lines computed from L's hash list and the wanted rules ds
   leave exactly ds, provided equal hash implies equal line. *)
Theorem c15_positional_delta : forall dall c L pre ds,
  (forall l d, In l L -> In d ds -> lh l = lh d -> l = d) ->
  run_chain dall (Some (pre ++ L)) (map snd (delta c (length pre) (length pre + length ds) (map lh L) ds))
  = Some (Some (pre ++ ds)).
Proof. exact delta_run. Qed.
Print Assumptions c15_positional_delta.

(* c15_any_history, full.  The history invariant [hinv] (= winv + jump targets are Felix-owned) holds after
   EVERY history of UpdateChain / RemoveChain / InsertOrAppendRules / AppendRules (under the API discipline
   [op_ok]: chains given to UpdateChain/RemoveChain and jump targets have Felix-owned names, hooks go into
   non-owned chains and carry a hash), Apply() with arbitrary injected failures and racing edits, timer
   invalidations, out-of-band edits of the kernel, panics and restarts (= fresh Table over the same kernel).
   The four API calls are proved to keep it (incref/decref recursion included); no hypothesis about them is left. *)
Theorem c15_history_invariant : forall cf dall ops s,
  cfg_ok cf -> Forall (op_ok cf) ops -> hinv cf (m_table s) -> hinv cf (m_table (final cf dall s ops)).
Proof. exact history_hinv. Qed.
Print Assumptions c15_history_invariant.

(* ... hence c15_foreign_untouched applies to every Apply of every history from a fresh Table ... *)
Theorem c15_any_history_foreign : forall cf dall k0 ops,
  cfg_ok cf -> Forall (op_ok cf) ops -> finv cf (m_table (final cf dall (init cf k0) ops)).
Proof. exact history_finv. Qed.
Print Assumptions c15_any_history_foreign.

(* ... and after ANY such history from ANY starting kernel k0, once the cache is invalidated (timer) a
   successful Apply() without a racing edit brings every chain of the then-current kernel to its target. *)
Theorem c15_any_history : forall cf dall k0 ops fs,
  cfg_ok cf -> Forall (op_ok cf) ops ->
  let s := final cf dall (init cf k0) ops in
  let t := invalidate (m_table s) in
  no_racing fs -> noforge cf t (m_kernel s) ->
  let r := apply cf dall fs t (m_kernel s) in
  ao_result r = Success -> forall c, get c (ao_kernel r) = tgt cf t (m_kernel s) c.
Proof. exact history_converges. Qed.
Print Assumptions c15_any_history.

(* Fuel sufficiency of the increfChain / decrefChain recursion.  Hypothesis: the chain reference graph is
   ranked (a rank function strictly decreasing along every jump/goto of a chain present in the map, i.e. the
   graph is acyclic) and the rank of the start chain is at most 1 + the number of map entries (true of the
   longest-path rank of any acyclic graph: a path visits distinct present chains).  Then every amount of fuel
   >= the model's fuel_of gives the same result as the model's: the fuelled functions are the real recursion.
   The driver checks the hypothesis (acyclic, longest path <= number of wanted chains + 1) on every wanted
   chain map it builds. *)
Theorem c15_fuel_sufficient : forall rank t c f,
  ranked (t_chains t) rank -> rank c <= S (length (t_chains t)) -> fuel_of t <= f ->
  incref f t c = incref (fuel_of t) t c /\ decref f t c = decref (fuel_of t) t c.
Proof. exact model_fuel_sufficient. Qed.
Print Assumptions c15_fuel_sufficient.

(* Non-vacuity: a kernel with a foreign rule, an old-insert rule and a stale hashed rule in FORWARD, a stale
   chain cali-old, and a wanted chain cali-a present with a wrong first rule and a surplus rule; one Apply
   with a failing first restore converges and leaves the foreign rule alone. *)
Example c15_example :
  let cf := {| cf_prefixes := ["cali-"%string]; cf_append := false; cf_kchains := ["FORWARD"%string]; cf_fix := false; cf_nft := false |} in
  let k0 : kernel := [("FORWARD"%string, [L 0 1; L 1 2; L 9 3]); ("cali-old"%string, [L 9 4]);
                      ("cali-a"%string, [L 9 5; L 11 11; L 0 6])] in
  let ops := [OpUpdate "cali-a"%string (CH [R 10 10 None; R 11 11 None] false);
              OpInsert "FORWARD"%string [R 12 12 (Some "cali-a"%string)];
              OpApply (FS [] [RF [] true])] in
  map (fun o => (o_result o, get "FORWARD"%string (o_kernel o), get "cali-a"%string (o_kernel o), get "cali-old"%string (o_kernel o)))
      (run cf false (init cf k0) ops)
  = [(Success, Some [L 12 12; L 0 1], Some [L 10 10; L 11 11], None)].
Proof. vm_compute. reflexivity. Qed.
