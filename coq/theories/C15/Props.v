(* C15 — property theorems only. *)
From Coq Require Import String List NArith ZArith Arith Bool.
From Verif.C15 Require Import Model Spec Proofs.
Import ListNotations.

Theorem c15_placeholder_get_put : forall (k : string) (v : list line) m, get k (put k v m) = Some v.
Proof. exact (@get_put_same (list line)). Qed.
Print Assumptions c15_placeholder_get_put.
